/-
  Line-protocol driver: one JSON object per input line `{"op": "Cxx.name", ...}`, one JSON line
  back: `{"ok": <result>}` or `{"err": "<message>"}`.
  Imports the executable model only (core Lean, no Mathlib, no generated tables).
  Run with `lake env lean --run Main.lean`.
-/
import PandoraModel.Driver.C01

open Lean (Json)

def dispatch (op : String) (j : Json) : Except String Json :=
  if op.startsWith "C01." then Pandora.Driver.C01.handle op j
  else if op == "ping" then .ok (Json.str "pong")
  else .error s!"unknown op {op}"

def handleLine (line : String) : String :=
  match Json.parse line with
  | .error e => (Json.mkObj [("err", Json.str s!"parse: {e}")]).compress
  | .ok j =>
    match j.getObjVal? "op" with
    | .ok (Json.str op) =>
      match dispatch op j with
      | .ok r => (Json.mkObj [("ok", r)]).compress
      | .error e => (Json.mkObj [("err", Json.str e)]).compress
    | _ => (Json.mkObj [("err", Json.str "missing op")]).compress

partial def loop (hin hout : IO.FS.Stream) : IO Unit := do
  let line ← hin.getLine
  if line.isEmpty then return ()
  let t := line.trimAscii.toString
  if !t.isEmpty then
    hout.putStrLn (handleLine t)
    hout.flush
  loop hin hout

def main : IO Unit := do
  loop (← IO.getStdin) (← IO.getStdout)
