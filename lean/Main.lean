/-
  Line-protocol driver: one JSON object per input line `{"op": "Cxx.name", ...}`, one JSON line
  back: `{"ok": <result>}` or `{"err": "<message>"}`.
  Imports the executable model only (core Lean, no Mathlib, no generated tables), so that it can be
  compiled (`lake build driver`) and still works when a generated table or a theorem is broken.
-/
import PandoraModel.Driver.C01
import PandoraModel.Driver.C02
import PandoraModel.Driver.C03
import PandoraModel.Driver.C04
import PandoraModel.Driver.C05
import PandoraModel.Driver.C06
import PandoraModel.Driver.C07
import PandoraModel.Driver.C08
import PandoraModel.Driver.C09
import PandoraModel.Driver.C10
import PandoraModel.Driver.C11
import PandoraModel.Driver.C12
import PandoraModel.Driver.C13
import PandoraModel.Driver.C14
import PandoraModel.Driver.C15
import PandoraModel.Driver.C16
import PandoraModel.Driver.C17
import PandoraModel.Driver.C18
import PandoraModel.Driver.C19
import PandoraModel.Driver.C20

open Lean (Json)

def dispatch (op : String) (j : Json) : Except String Json :=
  if op.startsWith "C01." then Pandora.Driver.C01.handle op j
  else if op.startsWith "C02." then Pandora.Driver.C02.handle op j
  else if op.startsWith "C03." then Pandora.Driver.C03.handle op j
  else if op.startsWith "C04." then Pandora.Driver.C04.handle op j
  else if op.startsWith "C05." then Pandora.Driver.C05.handle op j
  else if op.startsWith "C06." then Pandora.Driver.C06.handle op j
  else if op.startsWith "C07." then Pandora.Driver.C07.handle op j
  else if op.startsWith "C08." then Pandora.Driver.C08.handle op j
  else if op.startsWith "C09." then Pandora.Driver.C09.handle op j
  else if op.startsWith "C10." then Pandora.Driver.C10.handle op j
  else if op.startsWith "C11." then Pandora.Driver.C11.handle op j
  else if op.startsWith "C12." then Pandora.Driver.C12.handle op j
  else if op.startsWith "C13." then Pandora.Driver.C13.handle op j
  else if op.startsWith "C14." then Pandora.Driver.C14.handle op j
  else if op.startsWith "C15." then Pandora.Driver.C15.handle op j
  else if op.startsWith "C16." then Pandora.Driver.C16.handle op j
  else if op.startsWith "C17." then Pandora.Driver.C17.handle op j
  else if op.startsWith "C18." then Pandora.Driver.C18.handle op j
  else if op.startsWith "C19." then Pandora.Driver.C19.handle op j
  else if op.startsWith "C20." then Pandora.Driver.C20.handle op j
  else if op == "ping" then .ok (Json.str "pong")
  else .error s!"unknown op {op}"

def handleLine (line : String) : String :=
  match Json.parse line with
  | .error e => (Json.mkObj [("err", Json.str s!"parse: {e}")]).compress
  | .ok j =>
    match j.getObjVal? "op" with
    | .ok (Json.str op) =>
      match dispatch op j with
      | .ok r => (Json.mkObj [("ok", r)]).compress
      | .error e => (Json.mkObj [("err", Json.str e)]).compress
    | _ => (Json.mkObj [("err", Json.str "missing op")]).compress

partial def loop (hin hout : IO.FS.Stream) : IO Unit := do
  let line ← hin.getLine
  if line.isEmpty then return ()
  let t := line.trimAscii.toString
  if !t.isEmpty then
    hout.putStrLn (handleLine t)
    hout.flush
  loop hin hout

def main : IO Unit := do
  loop (← IO.getStdin) (← IO.getStdout)
