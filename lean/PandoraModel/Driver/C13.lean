/- Line-protocol handlers for C13 (placeholder until the property is built). -/
import PandoraModel.Model.Basic

namespace Pandora.Driver.C13
open Lean (Json)

def handle (op : String) (_j : Json) : Except String Json :=
  throw s!"unknown op {op}"

end Pandora.Driver.C13
