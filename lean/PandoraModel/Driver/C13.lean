/-
  Line-protocol handlers for C13: the composed run of the step models (`Model/PipelineRun.lean`) on a concrete pair,
  every intermediate map returned, and the decidable hypotheses of `run_crop_eq_whole` on a (whole, crop) pair.

  `C13.run`   input: the matching-cost input of `C02` (`meas`, `w`, `sp`, `rows`, `cols`, `L`, `R`, `mL`, `mR`, `valid`,
              `nodata`, `dmin`, `dmax` grids) plus
                "invalid"        invalid_disparity (number or "nan")
                "refine"         null | {"method": "vfit"|"quadratic", "variant": {"flat","or","ends"}}
                "fs"             median filter size (0: no filter)
                "invalid_mask"   PANDORA_MSK_PIXEL_INVALID
                "split_wta", "split_median"   block splits read from the source
                "cbca"           null | {"dist", "I", "rule"}
                "cc"             {"threshold", "offset", "variant"}
              output: `flags`, `mc` (after matching cost), `cv` (cost rows entering winner-takes-all), `wta`, `refine`, `filter`
              (disparity and flag maps after each stage) for the left and for the right chain, `cc` (flag word and
              confidence cell after cross-checking: the left one is `fullRunR` itself), exact rationals / "nan".
  `C13.hyps`  input: "whole", "crop" (two `C13.run` inputs), "r0", "c0"; output: which Bool hypotheses hold and how
              many crop pixels have their documented cone inside the crop, with `out' r c = out (r + r0) (c + c0)`
              evaluated on them.
-/
import PandoraModel.Model.PipelineRun
import PandoraModel.Driver.C02
import PandoraModel.Driver.C03
import PandoraModel.Driver.C07
import PandoraModel.Driver.C11
import PandoraModel.Driver.C10
import PandoraModel.Driver.C12
import PandoraModel.Driver.C14

namespace Pandora.Driver.C13
open Lean (Json)
open Pandora Pandora.MC Pandora.C13

/-- float value of an exact cost cell (sad, ssd, census); the symbolic zncc quotient is not evaluated -/
def numOnly : MC.Cell → Val
  | .num q => .num q
  | _ => .nan

structure Cfg where
  x : MC.Input
  K : RunCfg
  K' : RunCfg
  G : Option AggCfg
  V : CrossCheck.Variant
  CP : CrossCheck.Params
  CP' : CrossCheck.Params

def dispsOf (x : MC.Input) : List Rat :=
  (dispRange (gminOf x) (gmaxOf x) x.sp).map fun k => ((k : Int) : Rat) / ((x.sp : Int) : Rat)

def refineOfJson (j : Json) (sp : Nat) (lo hi : Int) : Except String (Bool × Refinement.Params) := do
  let dflt : Refinement.Params :=
    { variant := { fixFlat := false, fixOr := false, fixEnds := false }, method := .vfit, isMax := false, subpix := sp,
      dmin := (lo : Rat), dmax := (hi : Rat) }
  match j with
  | Json.null => return (false, dflt)
  | _ =>
    let m ← field j "method" >>= strOfJson
    let method ← match m with
      | "vfit" => pure Refinement.Method.vfit
      | "quadratic" => pure Refinement.Method.quadratic
      | _ => throw s!"unknown method {m}"
    let flag := fun (k : String) => match (fieldD j "variant" (Json.mkObj [])).getObjVal? k with
      | .ok (Json.bool b) => b
      | _ => false
    return (true, { dflt with method, variant := { fixFlat := flag "flat", fixOr := flag "or", fixEnds := flag "ends" } })

def cfgOfJson (j : Json) : Except String Cfg := do
  let x ← Driver.C02.inputOfJson j
  if x.meas == .zncc then throw "zncc: the composed run needs exact costs"
  let invalid ← field j "invalid" >>= valOfJson
  let fs ← natOfJson (fieldD j "fs" (natToJson 0))
  let invalidMask ← field j "invalid_mask" >>= natOfJson
  let sW ← field j "split_wta" >>= Driver.C03.splitOfJson
  let sM ← field j "split_median" >>= Driver.C03.splitOfJson
  let xs := swapInput x
  let (doRefine, rp) ← refineOfJson (fieldD j "refine" Json.null) x.sp (gminOf x) (gmaxOf x)
  let (_, rp') ← refineOfJson (fieldD j "refine" Json.null) x.sp (gminOf xs) (gmaxOf xs)
  let K : RunCfg :=
    { ev := numOnly, isMax := false, disps := dispsOf x, invalid, refine := rp, invalidMask, fs,
      doRefine, doMedian := fs != 0, sW, sM }
  let K' : RunCfg := { K with disps := dispsOf xs, refine := rp' }
  let G ← match fieldD j "cbca" Json.null with
    | Json.null => pure none
    | g => do
      let dist ← field g "dist" >>= natOfJson
      let I ← field g "I" >>= ratOfJson
      let mr ← field g "rule" >>= Driver.C11.ruleOfJson
      pure (some ({ dist, I, mr } : AggCfg))
  let cc ← field j "cc"
  let threshold ← field cc "threshold" >>= ratOfJson
  let offset ← natOfJson (fieldD cc "offset" (natToJson 0))
  let V ← Driver.C07.variantOfJson cc
  return { x, K, K', G, V,
           CP := { threshold, dmin := gminOf x, dmax := gmaxOf x, offset },
           CP' := { threshold, dmin := gminOf xs, dmax := gmaxOf xs, offset } }

/-- an index function evaluated on the image … -/
def tab {α : Type} (rows cols : Nat) (f : Nat → Nat → α) : Array (Array α) :=
  ((List.range rows).map fun r => ((List.range cols).map (f r)).toArray).toArray

/-- … and read back from the arrays (extensionally the same function on the image).  Always used as
    `look (tab rows cols f) d` inside a value (never under a `fun`), so that the array is built once. -/
def look {α : Type} (a : Array (Array α)) (d : α) : Nat → Nat → α :=
  fun r c => (a.getD r #[]).getD c d

/-- the cost rows entering winner-takes-all: `costRow` or `aggRow`, evaluated once -/
def rowsTab (K : RunCfg) (G : Option AggCfg) (x : MC.Input) : Array (Array (List Val)) :=
  match G with
  | none => tab x.L.rows x.L.cols (costRow K x)
  | some g => tab x.L.rows x.L.cols (aggRow K g x)

def natGrid (rows cols : Nat) (f : Nat → Nat → Nat) : Json := gridToJson natToJson (Blocks.tabulate rows cols f)
def valGrid (rows cols : Nat) (f : Nat → Nat → Val) : Json := gridToJson valToJson (Blocks.tabulate rows cols f)

def mapsToJson (rows cols : Nat) : Option Maps → Json
  | none => Json.str "raises"
  | some m => mkObj [("disp", valGrid rows cols m.disp), ("flag", natGrid rows cols m.flag)]

def pixGrid (rows cols : Nat) (f : Nat → Nat → CrossCheck.PixOut) : Json :=
  mkObj [("mask", natGrid rows cols fun r c => (f r c).flag),
         ("conf", gridToJson Driver.C07.confToJson (Blocks.tabulate rows cols fun r c => (f r c).conf))]

def memoMaps (rows cols : Nat) (m : Maps) : Maps := ⟨look (tab rows cols m.disp) .nan, look (tab rows cols m.flag) 0⟩

/-- the stages of one chain, each evaluated once on the image and read back from arrays: the flags, the map of
    `to_disp`, the maps after the optional refinement and after the optional median filter.  The same step functions, in
    the same order, as `afterRefineR` / `afterFilterR` (which recompute their inputs at every cell they read); `spotOK`
    compares the two on sampled pixels at every call. -/
structure Chain where
  flags : Nat → Nat → Nat
  wta : Nat → Nat → Val
  refined : Option Maps
  filtered : Option Maps

def chainOf (K : RunCfg) (x : MC.Input) (R : Nat → Nat → List Val) : Chain :=
  let rows := x.L.rows
  let cols := x.L.cols
  let flags := look (tab rows cols (C04C02.composedMask x)) 0
  let wta := look (tab rows cols (wtaMapR K x R)) .nan
  let refined : Option Maps :=
    if K.doRefine then
      match Refinement.loopRefinement K.refine (Blocks.tabulate rows cols fun r c =>
          ⟨R r c, wta r c, flags r c, ((x.dminG (r : Int) (c : Int) : Int) : Rat), ((x.dmaxG (r : Int) (c : Int) : Int) : Rat)⟩) with
      | .ok o =>
        some (memoMaps rows cols
          ⟨fun r c => match gridImg o ((r : Int), (c : Int)) with | some y => y.d | none => .nan,
           fun r c => match gridImg o ((r : Int), (c : Int)) with | some y => y.flag | none => 0⟩)
      | .err _ => none
    else some ⟨wta, flags⟩
  let filtered := refined.map fun m =>
    if K.doMedian then
      memoMaps rows cols ⟨Filter.medianFilterDisparity K.sM K.invalidMask K.fs rows cols m.flag m.disp, m.flag⟩
    else m
  { flags, wta, refined, filtered }

def chainToJson (K : RunCfg) (x : MC.Input) (R : Nat → Nat → List Val) (ch : Chain) : List (String × Json) :=
  let rows := x.L.rows
  let cols := x.L.cols
  [("flags", natGrid rows cols ch.flags),
   ("mc", gridToJson (listToJson valToJson) (Blocks.tabulate rows cols (costRow K x))),
   ("cv", gridToJson (listToJson valToJson) (Blocks.tabulate rows cols R)),
   ("wta", valGrid rows cols ch.wta),
   ("refine", mapsToJson rows cols ch.refined),
   ("filter", mapsToJson rows cols ch.filtered)]

/-- `disparity_checking(A, B)` evaluated once: the expression under the `fun r c` of `fullRunR` -/
def ccOf (V : CrossCheck.Variant) (CP : CrossCheck.Params) (rows cols : Nat) (A B : Option Maps) : Option CrossCheck.Out :=
  match A, B with
  | some A, some B =>
    some (CrossCheck.check V CP (leftDataset rows cols A) { disp := Blocks.tabulate rows cols B.disp, mask := [] })
  | _, _ => none

def ccToJson (rows cols : Nat) : Option CrossCheck.Out → Json
  | some o => pixGrid rows cols (C07.outPix o)
  | none => Json.str "raises"

/-- the literal definitions (`afterFilterR`, `fullRunR`) at the sampled pixels against the staged evaluation -/
def spotOK (C : Cfg) (R R' : Nat → Nat → List Val) (ch : Chain) (cc : Option CrossCheck.Out) (spots : List (Nat × Nat)) : Bool :=
  let x := C.x
  let lit := fullRunR C.K C.K' C.V C.CP x R R'
  let litA := afterFilterR C.K x R
  (match lit, cc with
    | some f, some o => spots.all fun (r, c) => decide (f r c = C07.outPix o r c)
    | none, none => true
    | _, _ => false) &&
  (match litA, ch.filtered with
    | some a, some b => spots.all fun (r, c) => decide (a.disp r c = b.disp r c) && decide (a.flag r c = b.flag r c)
    | none, none => true
    | _, _ => false)

structure Eval where
  R : Nat → Nat → List Val
  R' : Nat → Nat → List Val
  chL : Chain
  chR : Chain
  ccL : Option CrossCheck.Out
  ccR : Option CrossCheck.Out

def evalOf (C : Cfg) : Eval :=
  let x := C.x
  let xs := swapInput x
  let R := look (rowsTab C.K C.G x) []
  let R' := look (rowsTab C.K' C.G xs) []
  let chL := chainOf C.K x R
  let chR := chainOf C.K' xs R'
  { R, R', chL, chR,
    ccL := ccOf C.V C.CP x.L.rows x.L.cols chL.filtered chR.filtered,
    -- the right map checked against the left one (`validation_run` does both; not part of `fullRunR`)
    ccR := ccOf C.V C.CP' x.L.rows x.L.cols chR.filtered chL.filtered }

/-- every left flag word of the staged evaluation against the model's memoised run `extRunMemo` on the tail of
    `fullRunR` (proved equal to `fullRunR`: `extRunMemo_eq`, `extRunR_left_flag`) -/
def memoOK (C : Cfg) (E : Eval) : Bool :=
  let x := C.x
  let F : FillCfg := { meth := none, v := { guard := true, op := .or }, off := 0 }
  match extRunMemo C.K C.K' (tailOf C.K) (tailOf C.K') C.V C.CP C.CP' F x E.R E.R', E.ccL with
  | some (l, _), some o =>
    (List.range x.L.rows).all fun r => (List.range x.L.cols).all fun c => l.flag r c == (C07.outPix o r c).flag
  | none, none => true
  | _, _ => false

def spotsOfJson (j : Json) : Except String (List (Nat × Nat)) := do
  let l ← listOfJson (listOfJson natOfJson) (fieldD j "spots" (Json.arr #[]))
  l.mapM fun p => match p with
    | [r, c] => pure (r, c)
    | _ => throw "spots: expected [r, c]"

def runOp (j : Json) : Except String Json := do
  let C ← cfgOfJson j
  let spots ← spotsOfJson j
  let x := C.x
  let xs := swapInput x
  let rows := x.L.rows
  let cols := x.L.cols
  let E := evalOf C
  return mkObj [
    ("gmin", intToJson (gminOf x)), ("gmax", intToJson (gmaxOf x)),
    ("disps", listToJson ratToJson C.K.disps), ("disps_right", listToJson ratToJson C.K'.disps),
    ("wf", Json.bool (wfShape x && wfShape xs)),
    ("spot_ok", Json.bool (spotOK C E.R E.R' E.chL E.ccL spots && memoOK C E)), ("spots", natToJson spots.length),
    ("left", mkObj (chainToJson C.K x E.R E.chL ++ [("cc", ccToJson rows cols E.ccL)])),
    ("right", mkObj (chainToJson C.K' xs E.R' E.chR ++ [("cc", ccToJson rows cols E.ccR)]))]

def hypsOp (j : Json) : Except String Json := do
  let W ← field j "whole" >>= cfgOfJson
  let C ← field j "crop" >>= cfgOfJson
  let r0 ← field j "r0" >>= natOfJson
  let c0 ← field j "c0" >>= natOfJson
  let spots ← spotsOfJson j
  let x := W.x
  let x' := C.x
  let EW := evalOf W
  let EC := evalOf C
  let out := EW.ccL
  let out' := EC.ccL
  let A := EW.chL.filtered
  let A' := EC.chL.filtered
  let inI := match A with | some a => leftInIntervalB W.CP x.L.rows x.L.cols a | none => false
  let inI' := match A' with | some a => leftInIntervalB C.CP x'.L.rows x'.L.cols a | none => false
  let cone := docCone W.K W.CP x
  let mut inCone := 0
  let mut equal := 0
  let mut firstDiff : Json := Json.null
  match out, out' with
  | some o, some o' =>
    for r in List.range x'.L.rows do
      for c in List.range x'.L.cols do
        if coneInCropB cone x.L.rows x.L.cols r0 c0 x'.L.rows x'.L.cols r c then
          inCone := inCone + 1
          let a := C07.outPix o' r c
          let b := C07.outPix o (r + r0) (c + c0)
          if a.flag == b.flag && a.conf == b.conf then equal := equal + 1
          else if firstDiff == Json.null then
            firstDiff := mkObj [("r", natToJson r), ("c", natToJson c), ("crop", natToJson a.flag), ("whole", natToJson b.flag)]
  | _, _ => pure ()
  return mkObj [
    ("run_ok_whole", Json.bool (runOKB W.K W.K' x)), ("run_ok_crop", Json.bool (runOKB C.K C.K' x')),
    ("crop_run", Json.bool (cropRunB x x' r0 c0)),
    ("same_cfg", Json.bool (W.K.disps == C.K.disps && W.K'.disps == C.K'.disps && W.CP.dmin == C.CP.dmin
      && W.CP.dmax == C.CP.dmax)),
    ("returns_whole", Json.bool out.isSome), ("returns_crop", Json.bool out'.isSome),
    ("left_in_interval_whole", Json.bool inI), ("left_in_interval_crop", Json.bool inI'),
    ("doc_cone_ok", Json.bool (docConeOKB W.K W.K' x)), ("aggregation", Json.bool W.G.isSome),
    ("spot_ok", Json.bool (spotOK C EC.R EC.R' EC.chL EC.ccL spots)),
    ("cone", listToJson natToJson [cone.up, cone.down, cone.left, cone.right]),
    ("pixels_in_cone", natToJson inCone), ("pixels_equal", natToJson equal), ("first_diff", firstDiff)]

/-! ### the extended run (`extRunR`): any tail of refinements and filters, both cross-checks, filling, ambiguity -/

/-- `{"kind": "refine", "method", "variant"} | {"kind": "median", "fs", "split"} |
     {"kind": "bilateral", "sigma_space", "split", "spatial", "range"}` -/
def tailStepOfJson (x : MC.Input) (j : Json) : Except String TailStep := do
  match ← field j "kind" >>= strOfJson with
  | "refine" =>
    let (_, rp) ← refineOfJson j x.sp (gminOf x) (gmaxOf x)
    pure (.refine rp)
  | "median" =>
    pure (.median (← field j "fs" >>= natOfJson) (← field j "split" >>= Driver.C03.splitOfJson))
  | "bilateral" =>
    let sigma ← field j "sigma_space" >>= ratOfJson
    let wts ← Driver.C10.weightsOfJson j
    pure (.bilateral wts (Filter.winWidth x.L.rows x.L.cols sigma) (← field j "split" >>= Driver.C03.splitOfJson))
  | k => throw s!"unknown tail step {k}"

/-- the maps after every step of the tail, each evaluated once (`none` from the step that raises on) -/
def tailStaged (K : RunCfg) (x : MC.Input) (R : Nat → Nat → List Val) : List TailStep → Option Maps → List (Option Maps)
  | [], _ => []
  | s :: rest, m =>
    let m' := (m.bind fun a => tailStep K x R a s).map (memoMaps x.L.rows x.L.cols)
    m' :: tailStaged K x R rest m'

def fillStaged (F : FillCfg) (m : Interp.DMap) : Interp.DMap :=
  let mat := Driver.C14.materialise
  match F.meth with
  | none => m
  | some .mccnn => mat (Interp.maskBorder F.off (Interp.mismMc F.v (mat (Interp.occlMc F.v m))))
  | some .sgm => mat (Interp.occlSgm F.v (mat (Interp.mismSgm F.v m)))

def dmapToJson (m : Interp.DMap) : Json :=
  mkObj [("disp", valGrid m.rows m.cols m.disp), ("flag", natGrid m.rows m.cols m.flag)]

def outToJson (rows cols : Nat) (o : CrossCheck.Out) : Json :=
  mkObj [("mask", natGrid rows cols fun r c => (C07.outPix o r c).flag),
         ("disp", valGrid rows cols (dmapOfOut rows cols o).disp)]

def ambToJson (etas : List Rat) (x : MC.Input) (R : Nat → Nat → List Val) : Json :=
  let v := volumeOf x.L.rows x.L.cols R
  match ambiguityOf etas false x R, Confidence.globalMin v, Confidence.globalMax v with
  | some band, some mn, some mx =>
    mkObj [("band", gridToJson valToJson band),
           ("margin", gridToJson (fun cv => match Driver.C12.ambMargin mn mx etas cv with
              | some q => ratToJson q | none => Json.null) v)]
  | _, _, _ => Json.null

def pairGridToJson (g : Grid (Val × Val)) : Json × Json :=
  (gridToJson (fun p => valToJson p.1) g, gridToJson (fun p => valToJson p.2) g)

def optRat : Option Rat → Json
  | some q => ratToJson q
  | none => Json.null

def riskToJson (etas : List Rat) (x : MC.Input) (R : Nat → Nat → List Val) : Json :=
  let v := volumeOf x.L.rows x.L.cols R
  match riskOf etas x R, Confidence.globalMin v, Confidence.globalMax v with
  | some g, some mn, some mx =>
    let (a, b) := pairGridToJson g
    mkObj [("max", a), ("min", b), ("margin", gridToJson (fun cv => optRat (Driver.C12.ambMargin mn mx etas cv)) v)]
  | _, _, _ => Json.null

def boundsToJson (thr : Rat) (disps : List Rat) (x : MC.Input) (R : Nat → Nat → List Val) : Json :=
  let v := volumeOf x.L.rows x.L.cols R
  match boundsOf thr disps x R, Confidence.globalMin v, Confidence.globalMax v with
  | some g, some mn, some mx =>
    let (a, b) := pairGridToJson g
    mkObj [("inf", a), ("sup", b),
           ("margin", gridToJson (fun cv => optRat (Driver.C12.boundsMargin mn mx (Confidence.typeFactor false) thr cv)) v)]
  | _, _, _ => Json.null

def xrunOp (j : Json) : Except String Json := do
  let C ← cfgOfJson j
  let spots ← spotsOfJson j
  let x := C.x
  let xs := swapInput x
  let rows := x.L.rows
  let cols := x.L.cols
  let tailJ ← listOfJson pure (fieldD j "tail" (Json.arr #[]))
  let tail ← tailJ.mapM (tailStepOfJson x)
  let tail' ← tailJ.mapM (tailStepOfJson xs)
  let meth ← match fieldD j "fill" Json.null with
    | Json.null => pure none
    | Json.str "mc-cnn" => pure (some Interp.Method.mccnn)
    | Json.str "sgm" => pure (some Interp.Method.sgm)
    | v => throw s!"unknown filling {v.compress}"
  let F : FillCfg := { meth, v := Driver.C14.variantOfJson (fieldD j "fill_cfg" (Json.mkObj [])), off := C.CP.offset }
  let etas ← listOfJson ratOfJson (fieldD j "etas" (Json.arr #[]))
  let confMethod ← strOfJson (fieldD j "conf_method" (Json.str "ambiguity"))
  let confThr ← ratOfJson (fieldD j "conf_threshold" (Json.str "9/10"))
  let R := look (rowsTab C.K C.G x) []
  let R' := look (rowsTab C.K' C.G xs) []
  let start (K : RunCfg) (y : MC.Input) (Q : Nat → Nat → List Val) : Maps :=
    memoMaps rows cols ⟨wtaMapR K y Q, C04C02.composedMask y⟩
  let m0 := start C.K x R
  let m0' := start C.K' xs R'
  let stL := tailStaged C.K x R tail (some m0)
  let stR := tailStaged C.K' xs R' tail' (some m0')
  let A := stL.getLastD (some m0)
  let B := stR.getLastD (some m0')
  -- the final products: the model's memoised run `extRunMemo` (= `extRunR`: `extRunMemo_eq`), read once per pixel
  let memoRun := (extRunMemo C.K C.K' tail tail' C.V C.CP C.CP' F x R R').map fun (l, r) =>
    (Driver.C14.materialise l, Driver.C14.materialise r)
  let (ccJ, fillJ, staged) := match A, B, memoRun with
    | some a, some b, some (fl, fr) =>
      let lr := CrossCheck.validationRun C.V C.CP C.CP' (leftDataset rows cols a) (leftDataset rows cols b)
      ((outToJson rows cols lr.1, outToJson rows cols lr.2), (dmapToJson fl, dmapToJson fr), some (fl, fr))
    | _, _, _ => ((Json.str "raises", Json.str "raises"), (Json.str "raises", Json.str "raises"), none)
  -- the literal definition at the sampled pixels
  let lit := extRunR C.K C.K' tail tail' C.V C.CP C.CP' F x R R'
  let spotOk := match lit, staged with
    | some (l, r), some (fl, fr) => spots.all fun (i, k) =>
        decide (l.disp i k = fl.disp i k) && decide (l.flag i k = fl.flag i k) &&
        decide (r.disp i k = fr.disp i k) && decide (r.flag i k = fr.flag i k)
    | none, none => true
    | _, _ => false
  let side (K : RunCfg) (y : MC.Input) (Q : Nat → Nat → List Val) (m : Maps) (st : List (Option Maps)) (cc fill : Json) :=
    mkObj [("flags", natGrid rows cols m.flag),
           ("mc", gridToJson (listToJson valToJson) (Blocks.tabulate rows cols (costRow K y))),
           ("cv", gridToJson (listToJson valToJson) (Blocks.tabulate rows cols Q)),
           ("wta", valGrid rows cols m.disp),
           ("tail", Json.arr (st.map (mapsToJson rows cols)).toArray),
           ("cc", cc), ("fill", fill),
           ("amb", if etas.isEmpty || confMethod != "ambiguity" then Json.null else ambToJson etas y Q),
           ("risk", if etas.isEmpty || confMethod != "risk" then Json.null else riskToJson etas y Q),
           ("bounds", if confMethod != "interval_bounds" then Json.null else boundsToJson confThr K.disps y Q)]
  return mkObj [
    ("gmin", intToJson (gminOf x)), ("gmax", intToJson (gmaxOf x)),
    ("spot_ok", Json.bool spotOk), ("spots", natToJson spots.length),
    ("left", side C.K x R m0 stL ccJ.1 fillJ.1), ("right", side C.K' xs R' m0' stR ccJ.2 fillJ.2)]

/-! ### two scales -/

/-- `{"coarse": <C02 input>, "fine": <C02 input, any dmin/dmax>, "invalid", "invalid_mask", "split_wta", "tail",
     "marge", "f", "user_min", "user_max"}` -/
def twoScaleOp (j : Json) : Except String Json := do
  let xc ← field j "coarse" >>= Driver.C02.inputOfJson
  let xf ← field j "fine" >>= Driver.C02.inputOfJson
  if xc.meas == .zncc then throw "zncc: the composed run needs exact costs"
  let invalid ← field j "invalid" >>= valOfJson
  let invalidMask ← field j "invalid_mask" >>= natOfJson
  let sW ← field j "split_wta" >>= Driver.C03.splitOfJson
  let marge ← field j "marge" >>= natOfJson
  let f ← field j "f" >>= natOfJson
  let umin ← field j "user_min" >>= ratOfJson
  let umax ← field j "user_max" >>= ratOfJson
  let tailJ ← listOfJson pure (fieldD j "tail" (Json.arr #[]))
  -- the tail steps do not depend on the input here (median filters only)
  let tl ← tailJ.mapM (tailStepOfJson xc)
  let (_, rp) ← refineOfJson Json.null xc.sp 0 0
  let mkK (x : MC.Input) : RunCfg :=
    { ev := numOnly, isMax := false, disps := dispsOf x, invalid, refine := rp, invalidMask, fs := 0,
      doRefine := false, doMedian := false, sW, sM := sW }
  match twoScaleRun mkK (fun _ => tl) marge f umin umax xc xf with
  | none => return Json.str "raises"
  | some (mc, g, xf', mf) =>
    let side (x : MC.Input) (m : Option Maps) : Json :=
      mkObj [("gmin", intToJson (gminOf x)), ("gmax", intToJson (gmaxOf x)),
             ("flags", natGrid x.L.rows x.L.cols (C04C02.composedMask x)),
             ("mc", gridToJson (listToJson valToJson) (Blocks.tabulate x.L.rows x.L.cols (costRow (mkK x) x))),
             ("wta", valGrid x.L.rows x.L.cols (wtaMapR (mkK x) x (costRow (mkK x) x))),
             ("final", mapsToJson x.L.rows x.L.cols m)]
    return mkObj [("coarse", side xc (some mc)),
                  ("grid_min", gridToJson valToJson g.1), ("grid_max", gridToJson valToJson g.2),
                  ("fine", side xf' mf)]

def handle (op : String) (j : Json) : Except String Json :=
  match op with
  | "C13.run" => runOp j
  | "C13.hyps" => hypsOp j
  | "C13.xrun" => xrunOp j
  | "C13.twoscale" => twoScaleOp j
  | _ => throw s!"unknown op {op}"

end Pandora.Driver.C13
