/- Line-protocol handlers for C11 (cross-based cost aggregation): model AND specification evaluation. -/
import PandoraModel.Model.Cbca

namespace Pandora.Driver.C11
open Lean (Json)
open Pandora Pandora.Cbca

/-! ### tabulation helpers (execution materialises the index functions) -/

def tab2 {α} (H W : Nat) (f : Nat → Nat → α) : Array (Array α) :=
  (Array.range H).map fun y => (Array.range W).map fun x => f y x

def look2 {α} (a : Array (Array α)) (dflt : α) (y x : Nat) : α :=
  match a[y]? with
  | some r => r.getD x dflt
  | none => dflt

def gridFn {α} (g : Grid α) (dflt : α) : Nat → Nat → α :=
  look2 (g.map List.toArray).toArray dflt

def armsToJson (a : Arms) : Json := Json.arr #[natToJson a.left, natToJson a.right, natToJson a.top, natToJson a.bot]

def armsOfJson (j : Json) : Except String Arms := do
  match ← listOfJson natOfJson j with
  | [l, r, t, b] => pure ⟨l, r, t, b⟩
  | _ => throw "arms: expected [left, right, top, bot]"

def ruleOfJson (j : Json) : Except String MinRule :=
  match j with
  | Json.str "neighbour" => .ok .neighbour
  | Json.str "loopVar" => .ok .loopVar
  | _ => .error s!"bad rule {j.compress}"

def arr2ToJson {α} (f : α → Json) (a : Array (Array α)) : Json := Json.arr (a.map fun r => Json.arr (r.map f))

/-! ### C11.cross_support : arms of one image, as coded and as specified; verdict on given arms -/

/-- the four arm views of pixel `(y, x)`: (side name, pixel function along the arm, room) -/
def armViews (H W : Nat) (img : Img) (y x : Nat) : List (String × (Nat → Val) × Nat) :=
  [("left", fun k => img y (x - k), x), ("right", fun k => img y (x + k), W - 1 - x),
   ("top", fun k => img (y - k) x, y), ("bot", fun k => img (y + k) x, H - 1 - y)]

def armsList (a : Arms) : List Nat := [a.left, a.right, a.top, a.bot]

/-- first failing sub-clause of an arm length, `none` when the arm is as specified -/
def armVerdict (I : Rat) (px : Nat → Val) (dist room L : Nat) : Option String :=
  if !armStopMasked px room L then some "stop_masked"
  else if !armStopDistance dist L then some "stop_distance"
  else if !armStopIntensity I px L then some "stop_intensity"
  else if !armMinOne px room L then some "min_one"
  else if !armMaximal I px dist room L then some "maximal"
  else if L != armRef I px dist room then some "ref"
  else none

def badArms (H W dist : Nat) (I : Rat) (img : Img) (given : Nat → Nat → Arms) : Array Json := Id.run do
  let mut out : Array Json := #[]
  for y in [0:H] do
    for x in [0:W] do
      for (v, L) in (armViews H W img y x).zip (armsList (given y x)) do
        match armVerdict I v.2.1 dist v.2.2 L with
        | some sub =>
          if out.size < 40 then
            out := out.push (mkObj [("y", natToJson y), ("x", natToJson x), ("side", Json.str v.1), ("sub", Json.str sub),
              ("given", natToJson L), ("expected", natToJson (armRef I v.2.1 dist v.2.2)),
              ("neighbour_masked", Json.bool (decide (1 ≤ v.2.2) && (v.2.1 1).isNan))])
        | none => pure ()
  return out

/-- why the specified arm stops where it does (for the measured input distribution) -/
def armReason (I : Rat) (px : Nat → Val) (dist room : Nat) : String :=
  if (px 0).isNan then "masked_anchor"
  else
    let n := min (dist - 1) room
    let run := runLen I px n
    let L := armRef I px dist room
    if run = 0 ∧ L = 1 then "min_one"
    else if run = n then (if room ≤ dist - 1 then "border" else "distance")
    else if (px (run + 1)).isNan then "masked"
    else "intensity"

def reasonsHist (H W dist : Nat) (I : Rat) (img : Img) : Json := Id.run do
  let keys := ["masked_anchor", "min_one", "border", "distance", "masked", "intensity"]
  let mut cnt : Array Nat := Array.replicate keys.length 0
  for y in [0:H] do
    for x in [0:W] do
      for v in armViews H W img y x do
        let r := armReason I v.2.1 dist v.2.2
        match keys.idxOf? r with
        | some i => cnt := cnt.modify i (· + 1)
        | none => pure ()
  return mkObj (keys.zip (cnt.toList.map natToJson))

def crossSupportOp (j : Json) : Except String Json := do
  let H ← field j "H" >>= natOfJson
  let W ← field j "W" >>= natOfJson
  let dist ← field j "dist" >>= natOfJson
  let I ← field j "intensity" >>= ratOfJson
  let mr ← ruleOfJson (fieldD j "rule" (Json.str "loopVar"))
  let img ← field j "image" >>= gridOfJson valOfJson
  let f := gridFn img Val.nan
  let coded := tab2 H W (crossSupport mr H W dist I f)
  let ref := tab2 H W (crossRef H W dist I f)
  let mut res := [("coded", arr2ToJson armsToJson coded), ("ref", arr2ToJson armsToJson ref),
                  ("in_image", Json.bool (armsInImage H W (look2 coded default))),
                  ("reasons", reasonsHist H W dist I f)]
  match j.getObjVal? "impl" with
  | .ok g =>
    let given ← gridOfJson armsOfJson g
    res := res ++ [("bad", Json.arr (badArms H W dist I f (gridFn given default)))]
  | .error _ => pure ()
  return mkObj res

/-! ### C11.median : the 3×3 pre-filter on a masked image -/

def medianOp (j : Json) : Except String Json := do
  let H ← field j "H" >>= natOfJson
  let W ← field j "W" >>= natOfJson
  let img ← field j "image" >>= gridOfJson valOfJson
  return arr2ToJson valToJson (tab2 H W (median3 H W (gridFn img Val.nan)))

/-! ### C11.steps : steps 1–4 of one plane with given cross supports -/

def cellToJson (isNan : Bool) (s : Rat) (n : Nat) : Json :=
  if isNan then Json.str "nan" else Json.arr #[ratToJson s, natToJson n]

def planeReport (P : Plane) : List (String × Json) :=
  [("step2", arr2ToJson ratToJson (tab2 P.H P.W (step2 P))),
   ("sum2", arr2ToJson natToJson (tab2 P.H P.W (sum2 P))),
   ("step4", arr2ToJson ratToJson (tab2 P.H P.W (step4 P))),
   ("sum4", arr2ToJson natToJson (tab2 P.H P.W (sum4 P))),
   ("out", arr2ToJson valToJson (tab2 P.H P.W (aggOut P))),
   ("spec_sum", arr2ToJson ratToJson (tab2 P.H P.W (specSum P))),
   ("spec_count", arr2ToJson natToJson (tab2 P.H P.W (specCount P))),
   ("spec_h", arr2ToJson natToJson (tab2 P.H P.W (fun y x => hLeft P x y + hRight P x y))),
   ("facing", arr2ToJson Json.bool (tab2 P.H P.W (fun _ x => (rightCol P.d P.Wr x).isSome))),
   ("arms_in_image", Json.bool (armsInImage P.H P.W P.armsL)),
   ("nan_outside", Json.bool (nanOutside P))]

def stepsOp (j : Json) : Except String Json := do
  let H ← field j "H" >>= natOfJson
  let W ← field j "W" >>= natOfJson
  let Wr ← field j "Wr" >>= natOfJson
  let d ← field j "d" >>= ratOfJson
  let cv ← field j "cv" >>= gridOfJson valOfJson
  let aL ← field j "armsL" >>= gridOfJson armsOfJson
  let aR ← field j "armsR" >>= gridOfJson armsOfJson
  let P : Plane := { H, W, cv := gridFn cv Val.nan, armsL := gridFn aL default, armsR := gridFn aR default, Wr, d }
  return mkObj (planeReport P)

/-! ### C11.aggregate : the whole step -/

def inputOfJson (j : Json) : Except String Input := do
  let H ← field j "H" >>= natOfJson
  let W ← field j "W" >>= natOfJson
  let off ← field j "off" >>= natOfJson
  let imL ← field j "imL" >>= gridOfJson ratOfJson
  let imR ← field j "imR" >>= gridOfJson ratOfJson
  let mskOf (k : String) : Except String (Bool × Grid Int) :=
    match j.getObjVal? k with
    | .ok Json.null => pure (false, [])
    | .ok g => do pure (true, ← gridOfJson intOfJson g)
    | .error _ => pure (false, [])
  let (hasL, mL) ← mskOf "mskL"
  let (hasR, mR) ← mskOf "mskR"
  let validL ← intOfJson (fieldD j "validL" (intToJson 0))
  let validR ← intOfJson (fieldD j "validR" (intToJson 0))
  let dist ← field j "dist" >>= natOfJson
  let I ← field j "intensity" >>= ratOfJson
  let subpix ← field j "subpix" >>= natOfJson
  let disp ← field j "disp" >>= listOfJson ratOfJson
  let mr ← ruleOfJson (fieldD j "rule" (Json.str "loopVar"))
  let cv ← field j "cv" >>= listOfJson (gridOfJson valOfJson)   -- [y][x][dsp]
  let cvA : Array (Array (Array Val)) := (cv.map fun r => (r.map List.toArray).toArray).toArray
  let dispA := disp.toArray
  return {
    H, W, off, imL := gridFn imL 0, hasMskL := hasL, mskL := gridFn mL 0, validL,
    imR := gridFn imR 0, hasMskR := hasR, mskR := gridFn mR 0, validR,
    dist, I, subpix, disp := fun k => dispA.getD k 0,
    cv := fun y x k => match cvA[y]? with
      | some r => (match r[x]? with | some c => c.getD k Val.nan | none => Val.nan)
      | none => Val.nan,
    mr }

/-- cell of a plane: "nan" or [sum, count] -/
def cellsOf (P : Plane) (sumF : Nat → Nat → Rat) (cntF : Nat → Nat → Nat) : Json :=
  arr2ToJson id (tab2 P.H P.W fun y x => cellToJson (P.cv y x).isNan (sumF y x) (cntF y x))

def aggregateOp (j : Json) : Except String Json := do
  let inp ← inputOfJson j
  let nd ← (field j "disp" >>= listOfJson ratOfJson).map List.length
  let h := inp.h
  let w := inp.w
  -- materialise the filtered images and the cross supports once
  let fL := tab2 inp.H inp.W inp.filteredL
  let fLf : Img := look2 fL Val.nan
  let codedL := tab2 h w (crossSupport inp.mr h w inp.dist inp.I (crop inp.off fLf))
  let refL := tab2 h w (crossRef h w inp.dist inp.I (crop inp.off fLf))
  let shifts := List.range (max inp.subpix 1)
  let fR := shifts.toArray.map fun k => tab2 inp.H (if k = 0 then inp.W else inp.W - 1) (inp.filteredR k)
  let codedR := shifts.toArray.map fun k =>
    tab2 h (inp.wr k) (crossSupport inp.mr h (inp.wr k) inp.dist inp.I (crop inp.off (look2 (fR.getD k #[]) Val.nan)))
  let refR := shifts.toArray.map fun k =>
    tab2 h (inp.wr k) (crossRef h (inp.wr k) inp.dist inp.I (crop inp.off (look2 (fR.getD k #[]) Val.nan)))
  let cL : Nat → Nat → Arms := look2 codedL default
  let cR : Nat → Nat → Nat → Arms := fun k => look2 (codedR.getD k #[]) default
  let rL : Nat → Nat → Arms := look2 refL default
  let rR : Nat → Nat → Nat → Arms := fun k => look2 (refR.getD k #[]) default
  let planes := (List.range nd).map fun dsp =>
    let P := inp.planeWith cL cR dsp
    let Pr := inp.planeWith rL rR dsp
    mkObj [("model", cellsOf P (step4 P) (sum4 P)),
           ("spec", cellsOf Pr (specSum Pr) (specCount Pr)),
           ("spec_coded_arms", cellsOf P (specSum P) (specCount P)),
           ("facing", Json.arr ((Array.range w).map fun x => Json.bool (rightCol P.d P.Wr x).isSome)),
           ("i_right", natToJson (iRight inp.subpix (inp.disp dsp))),
           ("nan_outside", Json.bool (nanOutside P))]
  -- verdict on the implementation's cross supports, when given
  let mut bad : Array Json := #[]
  match j.getObjVal? "implL" with
  | .ok g =>
    let given ← gridOfJson armsOfJson g
    bad := bad ++ (badArms h w inp.dist inp.I (crop inp.off fLf) (gridFn given default)).map
      (fun b => b.setObjVal! "image" (Json.str "left"))
  | .error _ => pure ()
  match j.getObjVal? "implR" with
  | .ok gs =>
    let givens ← listOfJson (gridOfJson armsOfJson) gs
    for (k, given) in (List.range givens.length).zip givens do
      bad := bad ++ (badArms h (inp.wr k) inp.dist inp.I (crop inp.off (look2 (fR.getD k #[]) Val.nan)) (gridFn given default)).map
        (fun b => (b.setObjVal! "image" (Json.str "right")).setObjVal! "shift" (natToJson k))
  | .error _ => pure ()
  return mkObj [
    ("h", natToJson h), ("w", natToJson w), ("bad_arms", Json.arr bad),
    ("reasons", reasonsHist h w inp.dist inp.I (crop inp.off fLf)),
    ("filteredL", arr2ToJson valToJson fL),
    ("armsL", arr2ToJson armsToJson codedL), ("armsL_ref", arr2ToJson armsToJson refL),
    ("armsR", Json.arr (codedR.map (arr2ToJson armsToJson))), ("armsR_ref", Json.arr (refR.map (arr2ToJson armsToJson))),
    ("planes", Json.arr planes.toArray)]

/-- the definition `aggregate` evaluated literally (no tabulation; slow) on the listed cells `[y, x, dsp]` -/
def aggregateDirectOp (j : Json) : Except String Json := do
  let inp ← inputOfJson j
  let cells ← field j "cells" >>= listOfJson (listOfJson natOfJson)
  let outs ← cells.mapM fun c => match c with
    | [y, x, k] =>
      let P := inp.plane k
      let yy := y - inp.off
      let xx := x - inp.off
      pure (mkObj [("value", valToJson (aggregate inp y x k)),
                   ("in_area", Json.bool (inArea inp y x)),
                   ("cell", cellToJson (P.cv yy xx).isNan (step4 P yy xx) (sum4 P yy xx))])
    | _ => throw "cells: expected [y, x, dsp]"
  return Json.arr outs.toArray

def handle (op : String) (j : Json) : Except String Json :=
  match op with
  | "C11.cross_support" => crossSupportOp j
  | "C11.median" => medianOp j
  | "C11.steps" => stepsOp j
  | "C11.aggregate" => aggregateOp j
  | "C11.aggregate_direct" => aggregateDirectOp j
  | _ => throw s!"unknown op {op}"

end Pandora.Driver.C11
