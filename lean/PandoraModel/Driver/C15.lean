/- Line-protocol handlers for the multiscale model (C15). -/
import PandoraModel.Model.Multiscale
import PandoraModel.Model.MultiscaleBlocks

namespace Pandora.Driver.C15
open Lean (Json)
open Pandora Pandora.Multiscale

def sizes (j : Json) : Except String Json := do
  let n ← field j "n" >>= natOfJson
  let f ← field j "f" >>= natOfJson
  let k ← field j "num_scales" >>= natOfJson
  return listToJson natToJson (levelSizes n f k)

def bounds (j : Json) : Except String Json := do
  let user ← field j "user" >>= ratOfJson
  let f ← field j "f" >>= natOfJson
  let ns ← field j "num_scales" >>= natOfJson
  let k ← field j "k" >>= natOfJson
  return ratToJson (boundAfter user f ns k)

def splitOfJson (j : Json) : Except String Blocks.Split := do
  let g (k : String) : Except String Nat := field j k >>= natOfJson
  return { startY := ← g "startY", stepY := ← g "stepY", stopYDim := ← g "stopYDim",
           startX := ← g "startX", stepX := ← g "stepX", stopXDim := ← g "stopXDim",
           beginY := ← g "beginY", beginX := ← g "beginX" }

def next (j : Json) : Except String Json := do
  let disp ← field j "disp" >>= gridOfJson valOfJson
  let flags ← field j "flags" >>= gridOfJson natOfJson
  let w ← field j "window_size" >>= natOfJson
  let marge ← field j "marge" >>= natOfJson
  let f ← field j "f" >>= natOfJson
  let umin ← field j "user_min" >>= ratOfJson
  let umax ← field j "user_max" >>= ratOfJson
  let fr ← field j "fine_rows" >>= natOfJson
  let fc ← field j "fine_cols" >>= natOfJson
  let (mn, mx) := nextLevelGrids disp flags w marge f umin umax fr fc
  let rows := disp.length
  let cols := (disp.getD 0 []).length
  -- specification, evaluated per fine pixel from the statement
  let specMin : Grid Val := (List.range fr).map fun i => (List.range fc).map fun jj =>
    (specInterval disp flags w marge f umin umax (zoomIndex rows f i) (zoomIndex cols f jj)).1
  let specMax : Grid Val := (List.range fr).map fun i => (List.range fc).map fun jj =>
    (specInterval disp flags w marge f umin umax (zoomIndex rows f i) (zoomIndex cols f jj)).2
  -- optional: the same grids through the block loop of `disparity_range` with the given split literals
  let blocked : List (String × Json) ← match j.getObjVal? "split" with
    | .ok sj => do
      let s ← splitOfJson sj
      let (bmn, bmx) := nextLevelGridsBlocked s disp flags w marge f umin umax fr fc
      pure [("blocked_min", gridToJson valToJson bmn), ("blocked_max", gridToJson valToJson bmx)]
    | .error _ => pure []
  let near := (List.range fr).all (fun i => parentNear rows f i) && (List.range fc).all (fun jj => parentNear cols f jj)
  return mkObj ([("min", gridToJson valToJson mn), ("max", gridToJson valToJson mx),
                ("spec_min", gridToJson valToJson specMin), ("spec_max", gridToJson valToJson specMax),
                ("parent_near", Json.bool near)] ++ blocked)

def handle (op : String) (j : Json) : Except String Json :=
  match op with
  | "C15.sizes" => sizes j
  | "C15.bounds" => bounds j
  | "C15.next" => next j
  | _ => throw s!"unknown op {op}"

end Pandora.Driver.C15
