/- Line-protocol handlers for the multiscale model (C15). -/
import PandoraModel.Model.Multiscale

namespace Pandora.Driver.C15
open Lean (Json)
open Pandora Pandora.Multiscale

def sizes (j : Json) : Except String Json := do
  let n ← field j "n" >>= natOfJson
  let f ← field j "f" >>= natOfJson
  let k ← field j "num_scales" >>= natOfJson
  return listToJson natToJson (levelSizes n f k)

def bounds (j : Json) : Except String Json := do
  let user ← field j "user" >>= ratOfJson
  let f ← field j "f" >>= natOfJson
  let ns ← field j "num_scales" >>= natOfJson
  let k ← field j "k" >>= natOfJson
  return ratToJson (boundAfter user f ns k)

def next (j : Json) : Except String Json := do
  let disp ← field j "disp" >>= gridOfJson valOfJson
  let flags ← field j "flags" >>= gridOfJson natOfJson
  let w ← field j "window_size" >>= natOfJson
  let marge ← field j "marge" >>= natOfJson
  let f ← field j "f" >>= natOfJson
  let umin ← field j "user_min" >>= ratOfJson
  let umax ← field j "user_max" >>= ratOfJson
  let fr ← field j "fine_rows" >>= natOfJson
  let fc ← field j "fine_cols" >>= natOfJson
  let (mn, mx) := nextLevelGrids disp flags w marge f umin umax fr fc
  let rows := disp.length
  let cols := (disp.getD 0 []).length
  -- specification, evaluated per fine pixel from the statement
  let specMin : Grid Val := (List.range fr).map fun i => (List.range fc).map fun jj =>
    (specInterval disp flags w marge f umin umax (zoomIndex rows f i) (zoomIndex cols f jj)).1
  let specMax : Grid Val := (List.range fr).map fun i => (List.range fc).map fun jj =>
    (specInterval disp flags w marge f umin umax (zoomIndex rows f i) (zoomIndex cols f jj)).2
  let near := (List.range fr).all (fun i => parentNear rows f i) && (List.range fc).all (fun jj => parentNear cols f jj)
  return mkObj [("min", gridToJson valToJson mn), ("max", gridToJson valToJson mx),
                ("spec_min", gridToJson valToJson specMin), ("spec_max", gridToJson valToJson specMax),
                ("parent_near", Json.bool near)]

def handle (op : String) (j : Json) : Except String Json :=
  match op with
  | "C15.sizes" => sizes j
  | "C15.bounds" => bounds j
  | "C15.next" => next j
  | _ => throw s!"unknown op {op}"

end Pandora.Driver.C15
