/- Line-protocol handlers for C12 (confidence bands): model AND specification evaluation. -/
import PandoraModel.Model.Confidence

namespace Pandora.Driver.C12
open Lean (Json)
open Pandora Pandora.Confidence

/-! ### wire helpers -/

def volumeOfJson (j : Json) : Except String Volume := listOfJson (gridOfJson valOfJson) j
def valGridOfJson (j : Json) : Except String (Grid Val) := gridOfJson valOfJson j
def ratListOfJson (j : Json) : Except String (List Rat) := listOfJson ratOfJson j
def valGridToJson (g : Grid Val) : Json := gridToJson valToJson g
def natGridToJson (g : Grid Nat) : Json := gridToJson natToJson g
def nameToJson (n : Name) : Json := Json.str (String.ofList n)
def nameOfJson (j : Json) : Except String Name := (strOfJson j).map String.toList

def optVal (o : Option Rat) : Val := match o with | some q => .num q | none => .nan

def absRat (x : Rat) : Rat := if x < 0 then -x else x

def valClose (tol : Rat) : Val → Val → Bool
  | .nan, .nan => true
  | .num a, .num b => decide (absRat (a - b) ≤ tol)
  | _, _ => false

/-- first cell `(r, c)` at which `p` fails, scanning a grid of pairs row by row -/
def firstBad {α} (g : Grid α) (p : α → Bool) : Option (Nat × Nat) :=
  (g.zipIdx.findSome? (fun (row, r) => (row.zipIdx.findSome? (fun (x, c) => if p x then none else some (r, c)))))

def badToJson : Option (Nat × Nat) → Json
  | none => Json.null
  | some (r, c) => Json.arr #[natToJson r, natToJson c]

def zip2 {α β} (a : Grid α) (b : Grid β) : Grid (α × β) := Spec.zipGrid Prod.mk a b

def sameShape {α β} (a : Grid α) (b : Grid β) : Bool := a.map List.length == b.map List.length

/-- smallest distance between a compared pair that is not equal by construction (harness aid for the
    streams where float32 normalisation is inexact) -/
def minOpt (a : Option Rat) (b : Rat) : Option Rat :=
  match a with | none => some b | some x => some (if b < x then b else x)

def ambMargin (mn mx : Rat) (etas : List Rat) (curve : Curve) : Option Rat :=
  match pixelBest mn mx curve with
  | none => none
  | some m =>
    (numsOf curve).foldl (fun acc c =>
      if c = m then acc else
      etas.foldl (fun acc e => minOpt acc (absRat ((c - mn) / (mx - mn) - ((m - mn) / (mx - mn) + e)))) acc) none

def boundsMargin (mn mx tf thr : Rat) (curve : Curve) : Option Rat :=
  (numsOf (possibility mn mx tf curve)).foldl (fun acc p =>
    if p = 1 then acc else minOpt (minOpt acc (absRat (p - thr))) (absRat (1 - p))) none

def gridMargin (v : Volume) (f : Curve → Option Rat) : Json :=
  let m := (v.flatten).foldl (fun acc c => match f c with | none => acc | some x => minOpt acc x) none
  match m with | none => Json.null | some x => ratToJson x

/-! ### ops -/

def opArange (j : Json) : Except String Json := do
  let a ← field j "start" >>= ratOfJson
  let b ← field j "stop" >>= ratOfJson
  let s ← field j "step" >>= ratOfJson
  return listToJson ratToJson (arange a b s)

/-- ambiguity: model counts / band, specification counts / band, specification evaluated on `impl` (the band) -/
def opAmbiguity (j : Json) : Except String Json := do
  let v ← field j "cv" >>= volumeOfJson
  let isMax ← field j "is_max" >>= boolOfJson
  let etas ← field j "etas" >>= ratListOfJson
  let normalization ← field j "normalization" >>= boolOfJson
  let tol ← ratOfJson (fieldD j "tol" (Json.str "0"))
  let impl ← field j "impl" >>= valGridOfJson
  match globalMin v, globalMax v with
  | some mn, some mx =>
    let modelCounts := mapVolume (pixelAmbiguity mn mx etas) v
    let modelBand := (ambiguityBand etas normalization 1 v).getD []
    let specCounts := mapVolume (Spec.ambCount isMax mn mx etas) v
    -- what the code computes: "best = min" whatever the measure (used to attribute a failure on a max measure)
    let minCounts := mapVolume (Spec.ambCount false mn mx etas) v
    let flat : List Rat := specCounts.flatten.map (fun (n : Nat) => (n : Rat))
    let specVals : List Val := if normalization then normalizeWithPercentile 1 flat else flat.map Val.num
    let specBand := regrid ((specCounts.headD []).length) specCounts.length (specVals.map (Val.map (fun x => 1 - x)))
    let isConst (g : Grid Nat) : Bool :=
      let flatC : List Rat := g.flatten.map (fun (n : Nat) => (n : Rat))
      let clipped := flatC.map (clipRat (percentile flatC 1) (percentile flatC 99))
      match lmin clipped, lmax clipped with | some a, some b => decide (a = b) | _, _ => true
    -- the clipped ambiguity map is constant: for the specification's counts, or (max measure, finding F10) for the
    -- best = min counts the code normalises
    let constClipped := isConst specCounts || isConst minCounts
    -- a constant clipped map has no normalised value (0/0): only the range clause speaks about it
    let defBad := if normalization && isConst specCounts then (if sameShape impl specBand then none else some (0, 0))
                  else if sameShape impl specBand then firstBad (zip2 impl specBand) (fun p => valClose tol p.1 p.2)
                  else some (0, 0)
    let rangeBad := if normalization then firstBad impl Spec.inUnit else none
    return mkObj [
      ("model_counts", natGridToJson modelCounts), ("model_band", valGridToJson modelBand),
      ("spec_counts", natGridToJson specCounts), ("spec_band", valGridToJson specBand),
      ("min_counts_differ", Json.bool (minCounts != specCounts)),
      ("def_bad", badToJson defBad), ("range_bad", badToJson rangeBad),
      ("clipped_constant", Json.bool constClipped),
      ("margin", gridMargin v (ambMargin mn mx etas)),
      ("two_distinct", Json.bool (decide (mn ≠ mx)))]
  | _, _ => throw "no finite cost"

def riskToVals (o : Option (Rat × Rat)) : Val × Val :=
  match o with | some (a, b) => (.num a, .num b) | none => (.nan, .nan)

def opRisk (j : Json) : Except String Json := do
  let v ← field j "cv" >>= volumeOfJson
  let isMax ← field j "is_max" >>= boolOfJson
  let etas ← field j "etas" >>= ratListOfJson
  let implMax ← field j "impl_max" >>= valGridOfJson
  let implMin ← field j "impl_min" >>= valGridOfJson
  let tol ← ratOfJson (fieldD j "tol" (Json.str "0"))
  match globalMin v, globalMax v with
  | some mn, some mx =>
    let model := mapVolume (fun c => pixelRisk mn mx etas c (pixelSampled mn mx etas c)) v
    let sampled := mapVolume (pixelSampled mn mx etas) v
    let spec := mapVolume (fun c => riskToVals (Spec.risk isMax mn mx etas c)) v
    let specMinBest := mapVolume (fun c => riskToVals (Spec.risk false mn mx etas c)) v
    let impl := zip2 implMax implMin
    let defBad := if sameShape impl spec then
        firstBad (zip2 impl spec) (fun p => valClose tol p.1.1 p.2.1 && valClose tol p.1.2 p.2.2) else some (0, 0)
    -- 0 <= risk_min <= risk_max wherever the pixel has a finite cost; NaN exactly elsewhere
    let orderBad := if sameShape impl v then
        firstBad (zip2 impl v) (fun p =>
          match lmin (numsOf p.2), p.1.1, p.1.2 with
          | none, .nan, .nan => true
          | some _, .num a, .num b => decide (0 ≤ b) && decide (b ≤ a)
          | _, _, _ => false) else some (0, 0)
    let (m1, m2) := unzipGrid model
    let (s1, s2) := unzipGrid spec
    return mkObj [
      ("model_max", valGridToJson m1), ("model_min", valGridToJson m2),
      ("model_sampled", gridToJson (listToJson natToJson) sampled),
      ("spec_max", valGridToJson s1), ("spec_min", valGridToJson s2),
      ("min_best_differs", Json.bool (specMinBest != spec)),
      ("def_bad", badToJson defBad), ("order_bad", badToJson orderBad),
      ("margin", gridMargin v (ambMargin mn mx etas))]
  | _, _ => throw "no finite cost"

def opBounds (j : Json) : Except String Json := do
  let v ← field j "cv" >>= volumeOfJson
  let isMax ← field j "is_max" >>= boolOfJson
  let thr ← field j "threshold" >>= ratOfJson
  let disp ← field j "disp" >>= ratListOfJson
  let implInf ← field j "impl_inf" >>= valGridOfJson
  let implSup ← field j "impl_sup" >>= valGridOfJson
  let implWta ← field j "impl_wta" >>= valGridOfJson     -- "nan" marks an invalid (all-NaN) pixel
  match globalMin v, globalMax v with
  | some mn, some mx =>
    let model := mapVolume (pixelBounds mn mx (typeFactor isMax) thr disp) v
    let (m1, m2) := unzipGrid model
    let wta := (wtaMap isMax disp v).map (fun r => r.map optVal)
    let impl := zip2 implInf implSup
    let defBad := if sameShape impl v then
        firstBad (zip2 impl v) (fun p => Spec.boundsOk isMax mn mx thr disp p.2 p.1.1 p.1.2) else some (0, 0)
    -- every pixel with a finite cost: inf <= winner <= sup, the winner being the implementation's
    let bracketBad := if sameShape impl v && sameShape implWta v then
        firstBad (zip2 (zip2 impl implWta) v) (fun p =>
          match lmin (numsOf p.2), p.1.2 with
          | none, _ => true
          | some _, .num d => Spec.bracket p.1.1.1 p.1.1.2 d
          | some _, .nan => false) else some (0, 0)
    return mkObj [
      ("model_inf", valGridToJson m1), ("model_sup", valGridToJson m2), ("model_wta", valGridToJson wta),
      ("def_bad", badToJson defBad), ("bracket_bad", badToJson bracketBad),
      ("margin", gridMargin v (boundsMargin mn mx (typeFactor isMax) thr)),
      ("two_distinct", Json.bool (decide (mn ≠ mx)))]
  | _, _ => throw "no finite cost"

def posToJson (p : Pos) : Json := Json.arr #[natToJson p.1, natToJson p.2]

def opRegularize (j : Json) : Except String Json := do
  let inf ← field j "inf" >>= valGridOfJson
  let sup ← field j "sup" >>= valGridOfJson
  let amb ← field j "amb" >>= valGridOfJson
  let thr ← field j "threshold" >>= ratOfJson
  let k ← field j "kernel" >>= natOfJson
  let depth ← field j "depth" >>= natOfJson
  let q ← field j "quantile" >>= ratOfJson
  let implInf ← valGridOfJson (fieldD j "impl_inf" (Json.arr #[]))
  let implSup ← valGridOfJson (fieldD j "impl_sup" (Json.arr #[]))
  let (ls, rs) := borders thr k amb
  let segs := ls.zip rs
  let graph := connectedGraph segs depth
  let (i', s') := graphRegularization inf sup segs graph q
  return mkObj [
    ("border_left", listToJson posToJson ls), ("border_right", listToJson posToJson rs),
    ("graph", gridToJson Json.bool graph),
    ("model_inf", valGridToJson i'), ("model_sup", valGridToJson s'),
    ("widened", Json.bool (Spec.widened inf sup implInf implSup))]

def ratGridOfJson (j : Json) : Except String (Grid Rat) := gridOfJson ratOfJson j

def opStd (j : Json) : Except String Json := do
  let img ← field j "img" >>= ratGridOfJson
  let w ← field j "window" >>= natOfJson
  let model := stdBandSq w img
  let off := (w - 1) / 2
  let nrows := img.length
  let ncols := (img.headD []).length
  -- specification: NaN on the frame, population variance of the centred window inside
  let spec : Grid Val := (List.range nrows).map (fun r => (List.range ncols).map (fun c =>
    if off ≤ r ∧ r + off < nrows ∧ off ≤ c ∧ c + off < ncols then Val.num (Spec.windowVar w img (r - off) (c - off))
    else Val.nan))
  return mkObj [("model_var", valGridToJson model), ("spec_var", valGridToJson spec)]

def methodOfJson (j : Json) : Except String Method := do
  let m ← field j "confidence_method" >>= strOfJson
  match m with
  | "ambiguity" =>
    let etas ← field j "etas" >>= ratListOfJson
    let n ← field j "normalization" >>= boolOfJson
    return .ambiguity etas n
  | "risk" =>
    let etas ← field j "etas" >>= ratListOfJson
    return .risk etas
  | "interval_bounds" =>
    let thr ← field j "possibility_threshold" >>= ratOfJson
    let reg ← boolOfJson (fieldD j "regularization" (Json.bool false))
    if reg then
      let ind ← field j "ambiguity_indicator" >>= nameOfJson
      let athr ← field j "ambiguity_threshold" >>= ratOfJson
      let k ← field j "ambiguity_kernel_size" >>= natOfJson
      let depth ← field j "vertical_depth" >>= natOfJson
      let q ← field j "quantile_regularization" >>= ratOfJson
      return .intervalBounds thr (some (ind, athr, k, depth, q))
    else return .intervalBounds thr none
  | "std_intensity" => return .stdIntensity
  | _ => throw s!"unknown method {m}"

def bandOfJson (j : Json) : Except String Band := do
  let n ← field j "name" >>= nameOfJson
  let d ← field j "data" >>= valGridOfJson
  return ⟨n, d⟩

def bandToJson (b : Band) : Json := mkObj [("name", nameToJson b.name), ("data", valGridToJson b.data)]

def optBandsOfJson (j : Json) : Except String (Option (List Band)) :=
  match j with
  | Json.null => pure none
  | _ => (listOfJson bandOfJson j).map some

def optBandsToJson : Option (List Band) → Json
  | none => Json.null
  | some bs => listToJson bandToJson bs

/-- a list of confidence steps on one side: model bands (cost volume and disparity datasets), the
    names the specification expects, the later winner-takes-all map -/
def opSteps (j : Json) : Except String Json := do
  let v ← field j "cv" >>= volumeOfJson
  let isMax ← field j "is_max" >>= boolOfJson
  let disp ← field j "disp" >>= ratListOfJson
  let img ← ratGridOfJson (fieldD j "img" (Json.arr #[]))
  let w ← natOfJson (fieldD j "window" (Json.num 1))
  let cvBands ← optBandsOfJson (fieldD j "cv_bands" Json.null)
  let dispKind ← strOfJson (fieldD j "disp_kind" (Json.str "empty"))
  let dispBands ← optBandsOfJson (fieldD j "disp_bands" Json.null)
  let dispDS : DispDS := if dispKind == "none" then .none else .ds dispBands
  let steps ← field j "steps" >>= listOfJson (fun s => do
    let n ← field s "name" >>= nameOfJson
    let m ← methodOfJson s
    pure (⟨n, m⟩ : Step))
  let st : CState := { cost := v, isMax, disp, img, window := w, cvBands, dispDS }
  let expected := (cvBands.getD []).map (·.name) ++ steps.flatMap Spec.expectedNames
  let modelNames := (cvBands.getD []).map (·.name) ++
    steps.flatMap (fun s => (Spec.stems s.method).map (fun stem => confPrefix ++ stem ++ indicatorOf s.name))
  match runSteps st steps with
  | none => return mkObj [("error", Json.bool true), ("expected_names", listToJson nameToJson expected),
                          ("model_names", listToJson nameToJson modelNames)]
  | some st' =>
    let dispOut := match st'.dispDS with
      | .none => Json.str "none"
      | .ds bs => optBandsToJson bs
    return mkObj [
      ("error", Json.bool false),
      ("cv_bands", optBandsToJson st'.cvBands), ("disp_bands", dispOut),
      ("expected_names", listToJson nameToJson expected),
      ("model_names", listToJson nameToJson modelNames),
      ("cost_same", Json.bool (st'.cost == v)),
      ("wta", valGridToJson ((laterDisparity st').1.map (fun r => r.map optVal)))]

/-- `allocate_confidence_map` alone -/
def opAllocate (j : Json) : Except String Json := do
  let n ← field j "name" >>= nameOfJson
  let m ← field j "map" >>= valGridOfJson
  let cvBands ← optBandsOfJson (fieldD j "cv_bands" Json.null)
  let dispKind ← strOfJson (fieldD j "disp_kind" (Json.str "empty"))
  let dispBands ← optBandsOfJson (fieldD j "disp_bands" Json.null)
  let dispDS : DispDS := if dispKind == "none" then .none else .ds dispBands
  let (d, c) := allocate n m dispDS cvBands
  let dispOut := match d with
    | .none => Json.str "none"
    | .ds bs => optBandsToJson bs
  return mkObj [("cv_bands", optBandsToJson c), ("disp_bands", dispOut)]

def opIndicator (j : Json) : Except String Json := do
  let n ← field j "name" >>= nameOfJson
  return mkObj [("model", nameToJson (indicatorOf n)), ("spec", nameToJson (Spec.suffixOf n))]

def handle (op : String) (j : Json) : Except String Json :=
  match op with
  | "C12.arange" => opArange j
  | "C12.ambiguity" => opAmbiguity j
  | "C12.risk" => opRisk j
  | "C12.bounds" => opBounds j
  | "C12.regularize" => opRegularize j
  | "C12.std" => opStd j
  | "C12.steps" => opSteps j
  | "C12.indicator" => opIndicator j
  | "C12.allocate" => opAllocate j
  | _ => throw s!"unknown op {op}"

end Pandora.Driver.C12
