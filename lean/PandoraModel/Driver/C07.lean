/- Line-protocol handlers for C07 (cross-checking): model evaluation and spec evaluation. -/
import PandoraModel.Model.CrossCheck

namespace Pandora.Driver.C07
open Lean (Json)
open Pandora Pandora.CrossCheck

def paramsOfJson (j : Json) : Except String Params := do
  let threshold ← field j "threshold" >>= ratOfJson
  let dmin ← field j "dmin" >>= intOfJson
  let dmax ← field j "dmax" >>= intOfJson
  let offset ← field j "offset" >>= natOfJson
  return { threshold, dmin, dmax, offset }

def confToJson : Conf → Json
  | .nan => Json.str "nan"
  | .inf => Json.str "inf"
  | .fin q => ratToJson q

def confOfJson (j : Json) : Except String Conf :=
  match j with
  | Json.str "nan" => .ok .nan
  | Json.null => .ok .nan
  | Json.str "inf" => .ok .inf
  | _ => (ratOfJson j).map Conf.fin

def datasetOfJson (j : Json) (dk mk : String) : Except String Dataset := do
  let disp ← field j dk >>= gridOfJson valOfJson
  let mask ← match j.getObjVal? mk with
    | .ok v => gridOfJson natOfJson v
    | .error _ => pure (disp.map (·.map (fun _ => 0)))
  if disp.length != mask.length then throw "row counts differ"
  for (d, m) in List.zip disp mask do
    if d.length != m.length then throw "column counts differ"
  return { disp, mask }

def variantOfJson (j : Json) : Except String Variant :=
  match j.getObjVal? "variant" with
  | .ok (Json.str "asis") => .ok .asIs
  | .ok (Json.str "or") => .ok .orFix
  | .ok (Json.str "rule") => .ok .ruleFix
  | .ok v => .error s!"unknown variant {v.compress}"
  | .error _ => .ok .asIs

def outToJson (o : Out) : Json :=
  mkObj [("disp", gridToJson valToJson o.disp), ("mask", gridToJson natToJson o.mask),
         ("conf", gridToJson confToJson o.conf)]

/-- `disparity_checking(A, B)` -/
def checkOp (j : Json) : Except String Json := do
  let P ← paramsOfJson j
  let A ← datasetOfJson j "disp_a" "mask_a"
  let B ← datasetOfJson j "disp_b" "mask_b"
  let V ← variantOfJson j
  if A.disp.length != B.disp.length then throw "the two maps have different row counts"
  return outToJson (check V P A B)

/-- `validation_run`: left against right, then right against the checked left -/
def runOp (j : Json) : Except String Json := do
  let PL ← field j "left" >>= paramsOfJson
  let PR ← field j "right" >>= paramsOfJson
  let L ← datasetOfJson (← field j "left") "disp" "mask"
  let R ← datasetOfJson (← field j "right") "disp" "mask"
  let V ← variantOfJson j
  let (l, r) := validationRun V PL PR L R
  return mkObj [("left", outToJson l), ("right", outToJson r)]

/-- the specification on given outputs of `disparity_checking(A, B)`: the loose clauses (`failures`) and, next
    to them, the half-even clauses (`failing_even`: `round` = round half to even at both rounding sites;
    `tie`: the two readings can differ at that pixel) -/
def specOp (j : Json) : Except String Json := do
  let P ← paramsOfJson j
  let A ← datasetOfJson j "disp_a" "mask_a"
  let B ← datasetOfJson j "disp_b" "mask_b"
  let om ← field j "out_mask" >>= gridOfJson natOfJson
  let oc ← field j "out_conf" >>= gridOfJson confOfJson
  let od ← field j "out_disp" >>= gridOfJson valOfJson
  let nrow := A.disp.length
  if om.length != nrow || oc.length != nrow || od.length != nrow || B.disp.length != nrow then throw "row counts differ"
  let mut fails : Array Json := #[]
  let mut failsEven : Array Json := #[]
  let mut ties := 0
  let mut sit : List (String × Nat) := []
  let mut r := 0
  for ((dL, mL), (dR, (mo, (co, dout)))) in List.zip (List.zip A.disp A.mask) (List.zip B.disp (List.zip om (List.zip oc od))) do
    let ncol := dL.length
    if mo.length != ncol || co.length != ncol || dout.length != ncol then throw "column counts differ"
    for c in List.range ncol do
      let flag := mL.getD c 0
      let o : PixOut := { flag := mo.getD c 0, conf := co.getD c .nan }
      let border := decide (P.offset > 0) && isBorder P.offset nrow ncol r c
      let trig := triggerOf P border dL dR c flag
      sit := match sit.find? (·.1 == trig) with
        | some _ => sit.map fun (k, n) => if k == trig then (k, n + 1) else (k, n)
        | none => sit ++ [(trig, 1)]
      let mut f := failingPix P border dL dR c flag o
      if dout.getD c .nan != dL.getD c .nan then f := f ++ ["disp_unchanged"]
      if !f.isEmpty then
        fails := fails.push (mkObj [("row", natToJson r), ("col", natToJson c),
          ("clauses", listToJson Json.str f), ("trigger", Json.str trig)])
      -- the half-even reading, evaluated as well (never instead)
      let tie := !border && !Flags.isInvalid flag && isTiePix P dL dR c
      if tie then ties := ties + 1
      let fe := failingPixEven P border dL dR c flag o
      if !fe.isEmpty then
        failsEven := failsEven.push (mkObj [("row", natToJson r), ("col", natToJson c),
          ("clauses", listToJson Json.str fe), ("trigger", Json.str (triggerOfEven P border dL dR c flag)),
          ("loose_trigger", Json.str trig), ("tie", Json.bool tie)])
    r := r + 1
  return mkObj [("ok", Json.bool fails.isEmpty), ("failures", Json.arr fails),
    ("ok_even", Json.bool failsEven.isEmpty), ("failing_even", Json.arr failsEven), ("tie_pixels", natToJson ties),
    ("situations", mkObj (sit.map fun (k, n) => (k, natToJson n)))]

def handle (op : String) (j : Json) : Except String Json :=
  match op with
  | "C07.check" => checkOp j
  | "C07.run" => runOp j
  | "C07.spec" => specOp j
  | _ => throw s!"unknown op {op}"

end Pandora.Driver.C07
