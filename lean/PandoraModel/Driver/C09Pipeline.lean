/-
  Line-protocol handler `C09.hyp` (C09, second half): evaluates on a map observed between two steps of a real run
  the hypotheses of the composition theorems of `Properties/C09Pipeline.lean`, with the very definitions the
  theorems use (`boundedValidB`, `Interp.oneFlag`, `refineReadyB` of `Model/PipelineBound.lean`).  Core Lean only.
-/
import PandoraModel.Driver.C02
import PandoraModel.Model.PipelineBound

namespace Pandora.Driver.C09Pipeline
open Lean (Json)
open Pandora Pandora.Pipeline Pandora.Driver.C02

def mapOfJson (j : Json) : Except String DMap := do
  let rows ← field j "rows" >>= natOfJson
  let cols ← field j "cols" >>= natOfJson
  let disp ← field j "disp" >>= arr2OfJson valOfJson
  let mask ← field j "mask" >>= arr2OfJson natOfJson
  return { rows, cols, disp := fun r c => fn2 disp Val.nan (r : Int) (c : Int), flag := fun r c => fn2 mask 0 (r : Int) (c : Int) }

def vol3 (j : Json) : Except String (Array (Array (Array Val))) := do
  let v ← listOfJson (listOfJson (listOfJson valOfJson)) j
  return (v.map (fun rw => (rw.map List.toArray).toArray)).toArray

def rowAt (v : Array (Array (Array Val))) (r c : Nat) : List Val :=
  match v[r]? with
  | some a => match a[c]? with
    | some b => b.toList
    | none => []
  | none => []

/-- `{"rows","cols","disp":[[…]],"mask":[[…]],"lo","hi"}` — the map entering a step and the requested global
    interval — plus, when the step is a refinement, `"refine": {"cv":[[[…]]],"sp","dmin","dmax","pmin":[[…]],
    "pmax":[[…]],"fix_or"}` (the cost volume the step reads, its first / last disparity, the per-pixel intervals,
    whether the step or-s its flag).
    Answer: `bounded` (`boundedValidB lo hi`), `one_flag` (`Interp.oneFlag`), `n_valid`, the first offending pixels;
    with `refine`: `refine_ready` (`refineReadyB`), `ends_in_interval` (`lo ≤ dmin ∧ dmax ≤ hi`), the failing
    sub-conditions per pixel, and how many valid pixels were examined. -/
def hyp (j : Json) : Except String Json := do
  let m ← mapOfJson j
  let lo ← field j "lo" >>= ratOfJson
  let hi ← field j "hi" >>= ratOfJson
  let mut nValid := 0
  let mut badBounded : Array Json := #[]
  let mut nBadBounded := 0
  let mut badOne : Array Json := #[]
  for r in List.range m.rows do
    for c in List.range m.cols do
      if m.valid r c then
        nValid := nValid + 1
        let ok := match m.disp r c with
          | .num q => decide (lo ≤ q) && decide (q ≤ hi)
          | .nan => false
        if !ok then
          nBadBounded := nBadBounded + 1
          if badBounded.size < 3 then
            badBounded := badBounded.push (mkObj [("r", natToJson r), ("c", natToJson c), ("disp", valToJson (m.disp r c))])
      if Flags.hasBit (m.flag r c) Flags.occlusion && Flags.hasBit (m.flag r c) Flags.mismatch then
        if badOne.size < 3 then
          badOne := badOne.push (mkObj [("r", natToJson r), ("c", natToJson c), ("flag", natToJson (m.flag r c))])
  let base : List (String × Json) := [
    ("bounded", Json.bool (boundedValidB lo hi m)), ("n_valid", natToJson nValid),
    ("n_bad_bounded", natToJson nBadBounded), ("bad_bounded", Json.arr badBounded),
    ("one_flag", Json.bool (Interp.oneFlag m)), ("bad_one_flag", Json.arr badOne)]
  match fieldD j "refine" Json.null with
  | Json.null => return mkObj base
  | rj =>
    let cv ← field rj "cv" >>= vol3
    let sp ← field rj "sp" >>= natOfJson
    let dmin ← field rj "dmin" >>= ratOfJson
    let dmax ← field rj "dmax" >>= ratOfJson
    let pmin ← field rj "pmin" >>= arr2OfJson ratOfJson
    let pmax ← field rj "pmax" >>= arr2OfJson ratOfJson
    let fixOr ← boolOfJson (fieldD rj "fix_or" (Json.bool false))
    -- method / isMax / the two other repairs play no role in the hypothesis
    let D : RefineData := {
      P := { variant := { fixOr := fixOr }, method := .vfit, isMax := false, subpix := sp, dmin := dmin, dmax := dmax },
      costs := fun r c => rowAt cv r c,
      pmin := fun r c => fn2 pmin 0 (r : Int) (c : Int),
      pmax := fun r c => fn2 pmax 0 (r : Int) (c : Int) }
    let mut bad : Array Json := #[]
    let mut nBad := 0
    let mut whys : List String := []
    for r in List.range m.rows do
      for c in List.range m.cols do
        let fs := refineReadyFailures D.P (pixIn D m r c)
        if !fs.isEmpty then
          nBad := nBad + 1
          for w in fs do
            if !whys.contains w then whys := whys ++ [w]
          if bad.size < 3 then
            bad := bad.push (mkObj [("r", natToJson r), ("c", natToJson c), ("disp", valToJson (m.disp r c)),
              ("flag", natToJson (m.flag r c)), ("why", listToJson Json.str fs)])
    return mkObj (base ++ [
      ("refine_ready", Json.bool (refineReadyB D m)),
      ("ends_in_interval", Json.bool (decide (lo ≤ dmin) && decide (dmax ≤ hi))),
      ("n_bad_refine", natToJson nBad), ("bad_refine", Json.arr bad), ("refine_whys", listToJson Json.str whys)])

def handle (op : String) (j : Json) : Except String Json :=
  match op with
  | "C09.hyp" => hyp j
  | _ => throw s!"unknown op {op}"

end Pandora.Driver.C09Pipeline
