/- Line-protocol handlers for C16 (model `Model/Dataset.lean`). -/
import PandoraModel.Model.Dataset

namespace Pandora.Driver.C16
open Lean (Json)
open Pandora Pandora.Dataset

/-! ### decoding -/

def fvalOfJson (j : Json) : Except String FVal :=
  match j with
  | Json.str "nan" => .ok .nan
  | Json.str "inf" => .ok .pinf
  | Json.str "-inf" => .ok .ninf
  | _ => (ratOfJson j).map FVal.num

def fvalToJson : FVal → Json
  | .nan => Json.str "nan"
  | .pinf => Json.str "inf"
  | .ninf => Json.str "-inf"
  | .num q => ratToJson q

def arrOfJson {α} (f : Json → Except String α) (j : Json) : Except String (Array α) :=
  match j with
  | Json.arr a => a.mapM f
  | _ => .error s!"not an array: {j.compress.take 60}"

def fn2 {α} [Inhabited α] (a : Array (Array α)) : Nat → Nat → α :=
  fun r c => (a.getD r #[]).getD c default

def fn3 {α} [Inhabited α] (a : Array (Array (Array α))) : Nat → Nat → Nat → α :=
  fun b r c => ((a.getD b #[]).getD r #[]).getD c default

def grid2OfJson {α} [Inhabited α] (f : Json → Except String α) (j : Json) : Except String (Nat → Nat → α) :=
  (arrOfJson (arrOfJson f) j).map fn2

def grid3OfJson {α} [Inhabited α] (f : Json → Except String α) (j : Json) : Except String (Nat → Nat → Nat → α) :=
  (arrOfJson (arrOfJson (arrOfJson f)) j).map fn3

def optOfJson {α} (f : Json → Except String α) (j : Json) : Except String (Option α) :=
  match j with
  | Json.null => .ok none
  | _ => (f j).map some

def nameOfJson (j : Json) : Except String (Option String) := optOfJson strOfJson j

def classifOfJson (j : Json) : Except String Classif := do
  let names ← field j "names" >>= listOfJson nameOfJson
  let px ← field j "px" >>= grid3OfJson intOfJson
  return { names, px }

def dispOfJson (j : Json) : Except String DispIn :=
  match j with
  | Json.str "absent" => .ok .absent
  | Json.null => .ok .null
  | Json.arr #[a, b] => do return .pair (← intOfJson a) (← intOfJson b)
  | _ => do
    let g ← field j "grid" >>= grid3OfJson fvalOfJson
    return .grid g

def inputOfJson (j : Json) : Except String Input := do
  let rows ← field j "rows" >>= natOfJson
  let cols ← field j "cols" >>= natOfJson
  let bandsJ ← field j "bands"
  let nbands ← match bandsJ with
    | Json.arr a => pure a.size
    | _ => throw "bands: not an array"
  let im ← grid3OfJson fvalOfJson bandsJ
  let bandNames ← field j "band_names" >>= listOfJson nameOfJson
  let nodata ← field j "nodata" >>= fvalOfJson
  let mask ← optOfJson (grid2OfJson intOfJson) (fieldD j "mask" Json.null)
  let disp ← dispOfJson (fieldD j "disp" (Json.str "absent"))
  let classif ← optOfJson classifOfJson (fieldD j "classif" Json.null)
  let segm ← optOfJson (grid2OfJson intOfJson) (fieldD j "segm" Json.null)
  return { rows, cols, nbands, bandNames, im, nodata, mask, disp, classif, segm }

def paramsOfJson (j : Json) : Except String Params := do
  let b (k : String) := field j k >>= boolOfJson
  let i (k : String) := field j k >>= intOfJson
  let cmp ← field j "maskCmp" >>= strOfJson
  let maskCmp ← match cmp with
    | "gt" => pure MaskCmp.gt
    | "ne" => pure MaskCmp.ne
    | s => throw s!"unknown maskCmp {s}"
  return { colOffStrict := ← b "colOffStrict", rowOffStrict := ← b "rowOffStrict",
           colEndStrict := ← b "colEndStrict", rowEndStrict := ← b "rowEndStrict",
           maskCmp, validPixels := ← i "validPixels", noDataMask := ← i "noDataMask",
           replacement := ← i "replacement" }

def roiOfJson (j : Json) : Except String Roi := do
  let col ← field j "col"
  let row ← field j "row"
  let ms ← field j "margins" >>= listOfJson intOfJson
  match ms with
  | [ml, mu, mr, md] =>
    return { colFirst := ← field col "first" >>= intOfJson, colLast := ← field col "last" >>= intOfJson,
             rowFirst := ← field row "first" >>= intOfJson, rowLast := ← field row "last" >>= intOfJson,
             mLeft := ml, mUp := mu, mRight := mr, mDown := md }
  | _ => throw "margins: expected 4 integers"

/-- a dataset observed on the implementation (same layout as `dsToJson` produces) -/
def dsOfJson (j : Json) : Except String DS := do
  let rows ← field j "rows" >>= natOfJson
  let cols ← field j "cols" >>= natOfJson
  let nbands ← field j "nbands" >>= natOfJson
  let bandNames ← optOfJson (listOfJson nameOfJson) (fieldD j "band_names" Json.null)
  let im ← field j "im" >>= grid3OfJson fvalOfJson
  let rowA ← field j "row" >>= arrOfJson intOfJson
  let colA ← field j "col" >>= arrOfJson intOfJson
  let disp ← optOfJson (grid3OfJson fvalOfJson) (fieldD j "disp" Json.null)
  let msk ← optOfJson (grid2OfJson intOfJson) (fieldD j "msk" Json.null)
  let classif ← optOfJson classifOfJson (fieldD j "classif" Json.null)
  let segm ← optOfJson (grid2OfJson intOfJson) (fieldD j "segm" Json.null)
  let noDataImg ← field j "no_data_img" >>= fvalOfJson
  -- a coordinate array of the wrong length must not pass `roi_coords`: pad with an impossible value
  let rowCoord := fun i => if i < rowA.size then rowA.getD i 0 else -1000000007
  let colCoord := fun i => if i < colA.size then colA.getD i 0 else -1000000007
  return { rows, cols, nbands, bandNames, im, rowCoord, colCoord, disp, msk, classif, segm, noDataImg }

/-! ### encoding -/

def tab2 {α} (rows cols : Nat) (f : Nat → Nat → α) (enc : α → Json) : Json :=
  Json.arr ((List.range rows).map fun r => Json.arr ((List.range cols).map fun c => enc (f r c)).toArray).toArray

def tab3 {α} (n rows cols : Nat) (f : Nat → Nat → Nat → α) (enc : α → Json) : Json :=
  Json.arr ((List.range n).map fun b => tab2 rows cols (f b) enc).toArray

def nameToJson : Option String → Json
  | some s => Json.str s
  | none => Json.null

def dsToJson (d : DS) : Json :=
  mkObj [
    ("rows", natToJson d.rows), ("cols", natToJson d.cols), ("nbands", natToJson d.nbands),
    ("band_names", match d.bandNames with
      | some l => listToJson nameToJson l
      | none => Json.null),
    ("im", tab3 d.nbands d.rows d.cols d.im fvalToJson),
    ("row", Json.arr ((List.range d.rows).map fun i => intToJson (d.rowCoord i)).toArray),
    ("col", Json.arr ((List.range d.cols).map fun i => intToJson (d.colCoord i)).toArray),
    ("disp", match d.disp with
      | some f => tab3 2 d.rows d.cols f fvalToJson
      | none => Json.null),
    ("msk", match d.msk with
      | some f => tab2 d.rows d.cols f intToJson
      | none => Json.null),
    ("classif", match d.classif with
      | some cl => mkObj [("names", listToJson nameToJson cl.names),
                          ("px", tab3 cl.names.length d.rows d.cols cl.px intToJson)]
      | none => Json.null),
    ("segm", match d.segm with
      | some f => tab2 d.rows d.cols f intToJson
      | none => Json.null),
    ("no_data_img", fvalToJson d.noDataImg)]

def windowToJson : Option Window → Json
  | some w => Json.arr #[intToJson w.colOff, intToJson w.rowOff, intToJson w.width, intToJson w.height]
  | none => Json.null

def clausesToJson (l : List (String × Bool)) : Json :=
  listToJson (fun (kv : String × Bool) => Json.arr #[Json.str kv.1, Json.bool kv.2]) l

/-! ### ops -/

/-- `C16.window`: model and specification of `get_window` on one ROI -/
def windowResult (p : Params) (roi : Roi) (width height : Int) : Json :=
  mkObj [("model", windowToJson (getWindow p roi width height)),
         ("spec", windowToJson (windowSpec roi width height)),
         ("wf", Json.bool roi.wf), ("at_edge", Json.bool (roi.atEdge width height)),
         ("edge_free", Json.bool (edgeFree p roi width height))]

def opWindow (j : Json) : Except String Json := do
  let p ← field j "params" >>= paramsOfJson
  let roi ← field j "roi" >>= roiOfJson
  let width ← field j "width" >>= intOfJson
  let height ← field j "height" >>= intOfJson
  return windowResult p roi width height

/-- `C16.windows`: the same on a batch of ROIs -/
def opWindows (j : Json) : Except String Json := do
  let p ← field j "params" >>= paramsOfJson
  let rois ← field j "rois" >>= listOfJson roiOfJson
  let width ← field j "width" >>= intOfJson
  let height ← field j "height" >>= intOfJson
  return listToJson (fun roi => windowResult p roi width height) rois

/-- `C16.create`: the model's dataset (or `"refused"`) -/
def opCreate (j : Json) : Except String Json := do
  let p ← field j "params" >>= paramsOfJson
  let inp ← field j "input" >>= inputOfJson
  let roi ← optOfJson roiOfJson (fieldD j "roi" Json.null)
  let out := createDataset p inp roi
  return mkObj [("model", match out with
                  | some d => dsToJson d
                  | none => Json.str "refused"),
                ("mask_ok", Json.bool (maskOk p inp)), ("input_wf", Json.bool inp.wf)]

/-- `C16.spec`: the specification evaluated on datasets observed on the implementation.
    `impl_full` is the read without ROI; `impl_roi` (with `roi`) the read with it, or `"refused"`. -/
def opSpec (j : Json) : Except String Json := do
  let inp ← field j "input" >>= inputOfJson
  let full ← field j "impl_full" >>= dsOfJson
  let readCl := specReadClauses inp 0 0 full
  let roiJ := fieldD j "roi" Json.null
  match roiJ with
  | Json.null => return mkObj [("read", clausesToJson readCl), ("roi", Json.null)]
  | _ =>
    let roi ← roiOfJson roiJ
    let implRoiJ ← field j "impl_roi"
    let out ← match implRoiJ with
      | Json.str "refused" => pure none
      | _ => (dsOfJson implRoiJ).map some
    return mkObj [("read", clausesToJson readCl),
                  ("roi", clausesToJson (specRoiClauses inp roi full out)),
                  ("window_spec", windowToJson (windowSpec roi inp.cols inp.rows))]

def handle (op : String) (j : Json) : Except String Json :=
  match op with
  | "C16.window" => opWindow j
  | "C16.windows" => opWindows j
  | "C16.create" => opCreate j
  | "C16.spec" => opSpec j
  | _ => throw s!"unknown op {op}"

end Pandora.Driver.C16
