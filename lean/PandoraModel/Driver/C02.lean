/- Line-protocol handlers for the matching-cost model and specification (C02; reused by C09). -/
import PandoraModel.Model.MatchingCost

namespace Pandora.Driver.C02
open Lean (Json)
open Pandora Pandora.MC

/-- nested JSON arrays -> total index function (default outside the array) -/
def fn2 {α} (g : Array (Array α)) (d : α) : Int → Int → α :=
  fun r c =>
    if r < 0 ∨ c < 0 then d
    else match g[r.toNat]? with
      | some row => (row[c.toNat]?).getD d
      | none => d

def arr2OfJson {α} (f : Json → Except String α) (j : Json) : Except String (Array (Array α)) := do
  let rows ← listOfJson (listOfJson f) j
  return (rows.map List.toArray).toArray

def maskOfJson (j : Json) (valid nodata : Int) : Except String Mask :=
  match j with
  | Json.null => .ok { present := false, code := fun _ _ => valid, valid := valid, nodata := nodata }
  | _ => do
    let g ← arr2OfJson intOfJson j
    return { present := true, code := fn2 g valid, valid := valid, nodata := nodata }

/-- `{"meas","w","sp","rows","cols","L":[band][row][col],"R":…,"band_index","mL":null|[[…]],"mR":…,
     "valid","nodata","dmin":[[…]],"dmax":[[…]]}`; `swap = true` exchanges the two images (right cost volume) -/
def inputOfJson (j : Json) : Except String Input := do
  let measS ← field j "meas" >>= strOfJson
  let meas ← match Measure.ofString? measS with
    | some m => pure m
    | none => throw s!"unknown measure {measS}"
  let w ← field j "w" >>= natOfJson
  let sp ← field j "sp" >>= natOfJson
  let rows ← field j "rows" >>= natOfJson
  let cols ← field j "cols" >>= natOfJson
  let bi ← natOfJson (fieldD j "band_index" (natToJson 0))
  let bandsL ← field j "L" >>= listOfJson (arr2OfJson ratOfJson)
  let bandsR ← field j "R" >>= listOfJson (arr2OfJson ratOfJson)
  let gL ← match bandsL[bi]? with | some g => pure g | none => throw "band_index out of range (L)"
  let gR ← match bandsR[bi]? with | some g => pure g | none => throw "band_index out of range (R)"
  let valid ← intOfJson (fieldD j "valid" (intToJson 0))
  let nodata ← intOfJson (fieldD j "nodata" (intToJson 1))
  -- each image has its own mask convention ("validL"/"nodataL", "validR"/"nodataR"; default: the common one)
  let validL ← intOfJson (fieldD j "validL" (intToJson valid))
  let nodataL ← intOfJson (fieldD j "nodataL" (intToJson nodata))
  let validR ← intOfJson (fieldD j "validR" (intToJson valid))
  let nodataR ← intOfJson (fieldD j "nodataR" (intToJson nodata))
  let mL ← maskOfJson (fieldD j "mL" Json.null) validL nodataL
  let mR ← maskOfJson (fieldD j "mR" Json.null) validR nodataR
  let dmin ← field j "dmin" >>= arr2OfJson intOfJson
  let dmax ← field j "dmax" >>= arr2OfJson intOfJson
  return {
    meas, w, sp,
    L := { rows, cols, px := fn2 gL 0 },
    R := { rows, cols, px := fn2 gR 0 },
    mL, mR,
    dminG := fn2 dmin 0, dmaxG := fn2 dmax 0 }

def cellToJson : Cell → Json
  | .nan => Json.str "nan"
  | .num q => ratToJson q
  | .zn cov vv => Json.arr #[Json.str "zn", ratToJson cov, ratToJson vv]

/-- `a·√vv ≤ cov`, decided exactly in the rationals (`vv > 0`) -/
def sqrtLe (a cov vv : Rat) : Bool :=
  if a ≤ 0 then (decide (cov ≥ 0) || decide (cov * cov ≤ a * a * vv))
  else (decide (cov ≥ 0) && decide (cov * cov ≥ a * a * vv))

/-- `cov ≤ b·√vv` -/
def leSqrt (b cov vv : Rat) : Bool :=
  if b ≥ 0 then (decide (cov ≤ 0) || decide (cov * cov ≤ b * b * vv))
  else (decide (cov ≤ 0) && decide (cov * cov ≥ b * b * vv))

/-- does an observed float cell (exact rational or NaN) agree with an expected cell?  Exact for numbers;
    for the symbolic zncc quotient `cov/√vv` within the absolute tolerance `tol` (decided without taking the root) -/
def agrees (expected : Cell) (got : Val) (tol : Rat) : Bool :=
  match expected, got with
  | .nan, .nan => true
  | .num q, .num v => decide (q = v)
  | .zn cov vv, .num v => sqrtLe (v - tol) cov vv && leSqrt (v + tol) cov vv
  | _, _ => false

def causeIndex : Cause → Nat
  | .computable => 0 | .windowLeft => 1 | .windowRight => 2 | .nodataLeft => 3 | .nodataRight => 4
  | .maskedLeft => 5 | .maskedRight => 6 | .outsideInterval => 7

def allCauses : List Cause :=
  [.computable, .windowLeft, .windowRight, .nodataLeft, .nodataRight, .maskedLeft, .maskedRight, .outsideInterval]

structure Dims where
  gmin : Int
  gmax : Int
  nd : Nat

def dims (x : Input) : Dims :=
  let gmin := gridMin x.dminG x.L.rows x.L.cols
  let gmax := gridMax x.dmaxG x.L.rows x.L.cols
  { gmin, gmax, nd := nDisp gmin gmax x.sp }

def tab3 (rows cols nd : Nat) (f : Nat → Nat → Nat → Json) : Json :=
  Json.arr ((List.range rows).map (fun (r : Nat) =>
    Json.arr ((List.range cols).map (fun (c : Nat) =>
      Json.arr ((List.range nd).map (fun (j : Nat) => f r c j)).toArray)).toArray)).toArray

def volumeToJson (x : Input) (nd : Nat) (v : Volume) : Json :=
  tab3 x.L.rows x.L.cols nd (fun r c j => cellToJson (v r c j))

def header (x : Input) (d : Dims) : List (String × Json) :=
  [("wf", Json.bool (wf x)), ("gmin", intToJson d.gmin), ("gmax", intToJson d.gmax), ("nd", natToJson d.nd),
   ("disp_num", listToJson intToJson (dispRange d.gmin d.gmax x.sp)),
   ("type_measure", Json.str (typeMeasure x.meas)), ("cmax", intToJson (cmax false x)), ("cmax_up", intToJson (cmax true x))]

/-- full volumes (debugging, replay) -/
def volumes (j : Json) : Except String Json := do
  let x ← inputOfJson j
  let d := dims x
  let causeVol := tab3 x.L.rows x.L.cols d.nd (fun r c jj =>
    natToJson (causeIndex (cause x r c (d.gmin * (x.sp : Int) + (jj : Int)))))
  return mkObj (header x d ++ [
    ("model", volumeToJson x d.nd (costVolume x)),
    ("spec", volumeToJson x d.nd (specVolume x)),
    ("cause", causeVol)])

/-- compare an observed volume `impl[r][c][j]` with the model and with the specification.
    Returns counts and the first few differing cells; also the cause histogram of the cells. -/
def judge (j : Json) : Except String Json := do
  let x ← inputOfJson j
  let d := dims x
  let tol ← ratOfJson (fieldD j "tol" (Json.str "1/100000"))
  let impl ← field j "impl" >>= listOfJson (listOfJson (listOfJson valOfJson))
  let implA : Array (Array (Array Val)) := (impl.map (fun rw => (rw.map List.toArray).toArray)).toArray
  let implCmax ← match fieldD j "impl_cmax" Json.null with
    | Json.null => pure (none : Option Rat)
    | v => (ratOfJson v).map some
  let withModel ← boolOfJson (fieldD j "with_model" (Json.bool true))
  let model := costVolume x
  let spec := specVolume x
  let mut hist : Array Nat := Array.replicate 8 0
  let mut badModel : Array Json := #[]
  let mut badSpec : Array Json := #[]
  let mut nBadModel := 0
  let mut nBadSpec := 0
  let mut nAboveCmax := 0
  let mut firstAbove : Json := Json.null
  let mut shapeOk := implA.size == x.L.rows
  let mut nTinyBad := 0
  for r in List.range x.L.rows do
    let rowA := implA[r]?.getD #[]
    if rowA.size != x.L.cols then shapeOk := false
    for c in List.range x.L.cols do
      let cellA := rowA[c]?.getD #[]
      if cellA.size != d.nd then shapeOk := false
      for jj in List.range d.nd do
        let got := cellA[jj]?.getD Val.nan
        let k := d.gmin * (x.sp : Int) + jj
        let cs := cause x r c k
        hist := hist.modify (causeIndex cs) (· + 1)
        let s := spec r c jj
        if !agrees s got tol then
          nBadSpec := nBadSpec + 1
          if badSpec.size < 5 then
            badSpec := badSpec.push (mkObj [("r", natToJson r), ("c", natToJson c), ("j", natToJson jj),
              ("k", intToJson k), ("cause", Json.str cs.name), ("expected", cellToJson s), ("got", valToJson got)])
        if withModel then
          let m := model r c jj
          if !agrees m got tol then
            nBadModel := nBadModel + 1
            if badModel.size < 5 then
              badModel := badModel.push (mkObj [("r", natToJson r), ("c", natToJson c), ("j", natToJson jj),
                ("k", intToJson k), ("model", cellToJson m), ("got", valToJson got)])
        match implCmax, got with
        | some cm, .num v =>
          let above := if x.meas == .zncc then decide (v > cm + tol) || decide (v < -cm - tol) else decide (v > cm)
          if above then
            nAboveCmax := nAboveCmax + 1
            if firstAbove == Json.null then
              firstAbove := mkObj [("r", natToJson r), ("c", natToJson c), ("j", natToJson jj), ("got", valToJson got)]
        | _, _ => pure ()
  -- hypothesis of the zncc theorem, per disparity
  if x.meas == .zncc then
    for k in dispRange d.gmin d.gmax x.sp do
      if !noTinyVariance x k then nTinyBad := nTinyBad + 1
  return mkObj (header x d ++ [
    ("shape_ok", Json.bool shapeOk),
    ("cause_hist", mkObj (allCauses.map (fun cs => (cs.name, natToJson (hist[causeIndex cs]?.getD 0))))),
    ("n_bad_model", natToJson nBadModel), ("bad_model", Json.arr badModel),
    ("n_bad_spec", natToJson nBadSpec), ("bad_spec", Json.arr badSpec),
    ("n_above_cmax", natToJson nAboveCmax), ("first_above_cmax", firstAbove),
    ("tiny_variance_planes", natToJson nTinyBad)])

/-- `popcount32b` on a list of arguments together with the bit count it must equal -/
def popcounts (j : Json) : Except String Json := do
  let xs ← field j "xs" >>= listOfJson natOfJson
  return listToJson natToJson (xs.map popcount32b)

def handle (op : String) (j : Json) : Except String Json :=
  match op with
  | "C02.volumes" => volumes j
  | "C02.judge" => judge j
  | "C02.popcount" => popcounts j
  | _ => throw s!"unknown op {op}"

end Pandora.Driver.C02
