/- Line-protocol handlers for C06 (sub-pixel refinement): model evaluation and spec evaluation. -/
import PandoraModel.Model.Refinement

namespace Pandora.Driver.C06
open Lean (Json)
open Pandora Pandora.Refinement

def paramsOfJson (j : Json) : Except String Params := do
  let m ← field j "method" >>= strOfJson
  let method ← match m with
    | "vfit" => pure Method.vfit
    | "quadratic" => pure Method.quadratic
    | _ => throw s!"unknown method {m}"
  let isMax ← field j "is_max" >>= boolOfJson
  let subpix ← field j "subpix" >>= natOfJson
  let dmin ← field j "dmin" >>= ratOfJson
  let dmax ← field j "dmax" >>= ratOfJson
  let flag := fun (k : String) => match (fieldD j "variant" (Json.mkObj [])).getObjVal? k with
    | .ok (Json.bool b) => b
    | _ => false
  let variant : Variant := { fixFlat := flag "flat", fixOr := flag "or", fixEnds := flag "ends" }
  return { variant, method, isMax, subpix, dmin, dmax }

def zip3 {α β γ : Type} : List α → List β → List γ → List (α × β × γ)
  | a :: as, b :: bs, c :: cs => (a, b, c) :: zip3 as bs cs
  | _, _, _ => []

/-- cv (row, col, disp), disp (row, col), mask (row, col), optional pmin/pmax (row, col) -/
def inputOfJson (P : Params) (j : Json) : Except String (List (List PixIn)) := do
  let cv ← field j "cv" >>= listOfJson (listOfJson (listOfJson valOfJson))
  let disp ← field j "disp" >>= gridOfJson valOfJson
  let mask ← field j "mask" >>= gridOfJson natOfJson
  let pmin ← match j.getObjVal? "pmin" with
    | .ok v => gridOfJson ratOfJson v
    | .error _ => pure (disp.map (·.map (fun _ => P.dmin)))
  let pmax ← match j.getObjVal? "pmax" with
    | .ok v => gridOfJson ratOfJson v
    | .error _ => pure (disp.map (·.map (fun _ => P.dmax)))
  if cv.length != disp.length || cv.length != mask.length || cv.length != pmin.length || cv.length != pmax.length then
    throw "row counts differ"
  let rows := zip3 cv (List.zip disp mask) (List.zip pmin pmax)
  rows.mapM fun (cr, (dr, mr), (lo, hi)) => do
    if cr.length != dr.length || cr.length != mr.length || cr.length != lo.length || cr.length != hi.length then
      throw "column counts differ"
    pure ((zip3 cr (List.zip dr mr) (List.zip lo hi)).map fun (c, (d, m), (l, h)) =>
      ({ costs := c, d := d, flag := m, pmin := l, pmax := h } : PixIn))

def errName : Err → String
  | .zeroDivision => "zero_division"
  | .outOfBounds => "out_of_bounds"
  | .nanDisparity => "nan_disparity"

def firstErr (g : List (List (Res PixOut))) : Option Err :=
  g.flatten.findSome? fun r => match r with
    | .err e => some e
    | .ok _ => none

/-- the model on every pixel (per-pixel results, so that the harness sees *which* pixel raises) -/
def refine (j : Json) : Except String Json := do
  let P ← paramsOfJson j
  let g ← inputOfJson P j
  let outs := g.map (·.map (refinePixel P))
  let res := match firstErr outs with
    | some e => errName e
    | none => "ok"
  -- consistency of the per-pixel view with the grid-level function
  let whole := match loopRefinement P g with
    | .ok _ => "ok"
    | .err e => errName e
  if whole != res then throw "loopRefinement and refinePixel disagree"
  let coeff := outs.map (·.map fun r => match r with | .ok o => valToJson o.coeff | .err _ => Json.null)
  let d := outs.map (·.map fun r => match r with | .ok o => valToJson o.d | .err _ => Json.null)
  let flag := outs.map (·.map fun r => match r with | .ok o => natToJson o.flag | .err _ => Json.null)
  let err := outs.map (·.map fun r => match r with | .ok _ => Json.str "" | .err e => Json.str (errName e))
  return mkObj [
    ("res", Json.str res),
    ("coeff", gridToJson id coeff), ("disp", gridToJson id d), ("mask", gridToJson id flag),
    ("err", gridToJson id err),
    ("class", gridToJson (fun x => Json.str (classify P x).name) g),
    ("trigger", gridToJson (fun x => Json.str (triggerOf P x)) g)]

/-- the specification on given outputs (the implementation's): failing clauses per pixel -/
def spec (j : Json) : Except String Json := do
  let P ← paramsOfJson j
  let g ← inputOfJson P j
  let tol ← field j "tol" >>= ratOfJson
  let oc ← field j "out_coeff" >>= gridOfJson valOfJson
  let od ← field j "out_disp" >>= gridOfJson valOfJson
  let om ← field j "out_mask" >>= gridOfJson natOfJson
  if oc.length != g.length || od.length != g.length || om.length != g.length then throw "output row counts differ"
  let mut fails : Array Json := #[]
  let mut classes : List (String × Nat) := []
  let mut r := 0
  for (row, (cr, dr, mr)) in List.zip g (zip3 oc od om) do
    if cr.length != row.length || dr.length != row.length || mr.length != row.length then
      throw "output column counts differ"
    let mut c := 0
    for (x, (co, d, m)) in List.zip row (zip3 cr dr mr) do
      let o : PixOut := { coeff := co, d := d, flag := m }
      let cls := (classify P x).name
      classes := match classes.find? (·.1 == cls) with
        | some _ => classes.map fun (k, n) => if k == cls then (k, n + 1) else (k, n)
        | none => classes ++ [(cls, 1)]
      let f := failing P x o tol
      if !f.isEmpty then
        fails := fails.push (mkObj [("row", natToJson r), ("col", natToJson c),
          ("clauses", listToJson Json.str f), ("class", Json.str cls), ("trigger", Json.str (triggerOf P x))])
      c := c + 1
    r := r + 1
  return mkObj [("ok", Json.bool fails.isEmpty), ("failures", Json.arr fails),
    ("classes", mkObj (classes.map fun (k, n) => (k, natToJson n)))]

def handle (op : String) (j : Json) : Except String Json :=
  match op with
  | "C06.refine" => refine j
  | "C06.spec" => spec j
  | _ => throw s!"unknown op {op}"

end Pandora.Driver.C06
