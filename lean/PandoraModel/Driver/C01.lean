/- Line-protocol handlers for the machine model (C01). -/
import PandoraModel.Model.Machine

namespace Pandora.Driver.C01
open Lean (Json)
open Pandora Pandora.Machine

def transitionOfJson (j : Json) : Except String Transition := do
  let trigger ← field j "trigger" >>= strOfJson
  let source ← field j "source" >>= strOfJson
  let dest ← field j "dest" >>= strOfJson
  let conditions ← listOfJson strOfJson (fieldD j "conditions" (Json.arr #[]))
  let prepare ← listOfJson strOfJson (fieldD j "prepare" (Json.arr #[]))
  let after ← listOfJson strOfJson (fieldD j "after" (Json.arr #[]))
  return { trigger, source, dest, conditions, prepare, after }

def eventToJson : Event → Json
  | .check cb n second => Json.arr #[Json.str "check", Json.str cb, Json.str n, Json.bool second]
  | .run cb n scale right => Json.arr #[Json.str "run", Json.str cb, Json.str n, natToJson scale, Json.bool right]

def resToJson : Res → Json
  | .ok => Json.str "ok"
  | .seqErr => Json.str "seq_error"
  | .otherErr => Json.str "other_error"

def outcomeOfString : String → CbOutcome
  | "seq" => .seqErr
  | "other" => .otherErr
  | _ => .ok

/-- outcomes: list of [cb, name, second, "seq"|"other"]; everything else succeeds -/
def envOfJson (j : Json) : Except String CheckEnv := do
  let rows ← listOfJson (fun r => do
    match r with
    | Json.arr #[cb, n, s, o] =>
      let cb ← strOfJson cb; let n ← strOfJson n; let s ← boolOfJson s; let o ← strOfJson o
      pure (cb, n, s, outcomeOfString o)
    | _ => throw "bad outcome row") j
  return {
    outcome := fun cb n s =>
      match rows.find? (fun r => r.1 == cb && r.2.1 == n && r.2.2.1 == s) with
      | some r => r.2.2.2
      | none => .ok
    setsRight := fun cb => cb == "validation_check_conf" }

def mstateToJson (m : MState) : Json :=
  mkObj [("state", Json.str m.state),
         ("triggers", listToJson Json.str (m.table.map (·.trigger))),
         ("right_disp_map", Json.bool m.rightDispMap)]

/-- run a history of check / run calls on one machine object -/
def history (j : Json) : Except String Json := do
  let tblCheck ← field j "tbl_check" >>= listOfJson transitionOfJson
  let tblRun ← field j "tbl_run" >>= listOfJson transitionOfJson
  let ops ← field j "ops" >>= listOfJson pure
  let mut m : MState := {}
  let mut outs : Array Json := #[]
  let mut dead := false
  for op in ops do
    let kind ← field op "op" >>= strOfJson
    let names ← field op "names" >>= listOfJson strOfJson
    if dead then
      outs := outs.push (mkObj [("skipped", Json.bool true)])
    else if kind == "check" then
      let env ← envOfJson (fieldD op "outcomes" (Json.arr #[]))
      let (r, m', tr) := checkConf tblCheck env names m
      outs := outs.push (mkObj [
        ("res", resToJson r), ("machine", mstateToJson m'), ("trace", listToJson eventToJson tr),
        ("spec_is_path", Json.bool (isPath .begin names)),
        ("spec_trace", listToJson eventToJson (expectedCheck names))])
      m := m'
      if r != Res.ok then dead := true   -- behaviour after a failed check is out of scope
    else
      let n ← field op "num_scales" >>= natOfJson
      let (r, m', tr) := runPipeline tblRun names n m
      outs := outs.push (mkObj [
        ("res", resToJson r), ("machine", mstateToJson m'), ("trace", listToJson eventToJson tr),
        ("spec_is_path", Json.bool (isPath .begin names)),
        ("spec_trace", listToJson eventToJson (expectedRun names n m'.rightDispMap))])
      m := m'
      if r != Res.ok then dead := true
  return Json.arr outs

def handle (op : String) (j : Json) : Except String Json :=
  match op with
  | "C01.history" => history j
  | _ => throw s!"unknown op {op}"

end Pandora.Driver.C01
