/- Line-protocol handlers for C04: criteria model + specification, flag arithmetic of later steps. -/
import PandoraModel.Model.Basic
import PandoraModel.Model.Criteria
import PandoraModel.Model.FlagSteps

namespace Pandora.Driver.C04
open Lean (Json)
open Pandora Pandora.Criteria Pandora.FlagSteps

/-! ### decoding -/

def arr2 {α} (f : Json → Except String α) (j : Json) : Except String (Array (Array α)) := do
  let g ← gridOfJson f j
  return (g.map List.toArray).toArray

def look2 {α} (a : Array (Array α)) (d : α) (r c : Nat) : α := (a.getD r #[]).getD c d

def clsOfInt (i : Int) : Cls := if i == 0 then .valid else if i == 1 then .nodata else .invalid

/-- a mask grid of 0 (valid) / 1 (nodata) / 2 (invalid), or null when the image has no mask -/
def maskOfJson (j : Json) : Except String (Bool × (Nat → Nat → Cls)) :=
  match j with
  | Json.null => .ok (false, fun _ _ => .valid)
  | _ => do
    let a ← arr2 intOfJson j
    return (true, fun r c => clsOfInt (look2 a 0 r c))

def cvInputOfJson (j : Json) : Except String CvInput := do
  let rows ← field j "rows" >>= natOfJson
  let cols ← field j "cols" >>= natOfJson
  let off ← field j "off" >>= natOfJson
  let col0 ← intOfJson (fieldD j "col0" (intToJson 0))
  let dmin ← field j "dmin" >>= intOfJson
  let dmax ← field j "dmax" >>= intOfJson
  let subpix ← natOfJson (fieldD j "subpix" (natToJson 1))
  let (hasL, mL) ← maskOfJson (fieldD j "mask_left" Json.null)
  let (hasR, mR) ← maskOfJson (fieldD j "mask_right" Json.null)
  let pmin ← match fieldD j "pix_min" Json.null with
    | Json.null => pure (fun (_ _ : Nat) => dmin)
    | g => do let a ← arr2 intOfJson g; pure (fun r c => look2 a dmin r c)
  let pmax ← match fieldD j "pix_max" Json.null with
    | Json.null => pure (fun (_ _ : Nat) => dmax)
    | g => do let a ← arr2 intOfJson g; pure (fun r c => look2 a dmax r c)
  if subpix = 0 then throw "subpix = 0"
  return { rows, cols, off, col0, dmin, dmax, hasL, mL, hasR, mR, subpix, pixMin := pmin, pixMax := pmax }

def tab2 {α} (rows cols : Nat) (f : Nat → Nat → α) : Grid α :=
  (List.range rows).map fun r => (List.range cols).map fun c => f r c

/-! ### handlers -/

/-- model outputs: mask after `validity_mask`, mask after `cv_masked`, NaN pattern of the cost volume -/
def criteria (j : Json) : Except String Json := do
  let J ← cvInputOfJson j
  let nd := nDisp J
  let nan := tab2 J.rows J.cols fun r c => (List.range nd).map fun k => !computable J r c k
  return mkObj [
    ("stage1", gridToJson natToJson (tab2 J.rows J.cols (stage1 J.toInput))),
    ("final", gridToJson natToJson (tab2 J.rows J.cols (modelMask J))),
    ("nan", gridToJson (listToJson Json.bool) nan),
    ("ndisp", natToJson nd)]

/-- the specification evaluated on observed outputs: `mask` (grid), `nan_all` (grid of bool),
    `disp` (grid of cells, optional), `invalid_disp` -/
def specPre (j : Json) : Except String Json := do
  let J ← cvInputOfJson j
  let mask ← field j "mask" >>= arr2 natOfJson
  let nanAll ← field j "nan_all" >>= arr2 boolOfJson
  let disp ← match fieldD j "disp" Json.null with
    | Json.null => pure none
    | g => do let a ← arr2 valOfJson g; pure (some a)
  let invalid ← valOfJson (fieldD j "invalid_disp" (Json.str "nan"))
  let mut out : Array Json := #[]
  for r in List.range J.rows do
    for c in List.range J.cols do
      let f := look2 mask 0 r c
      let d := disp.map fun a => look2 a Val.nan r c
      for cl in failingClauses J invalid r c f (look2 nanAll false r c) d do
        out := out.push (Json.arr #[Json.str cl, natToJson r, natToJson c, natToJson f])
  return Json.arr out

/-- winner-takes-all + invalid value on an observed cost volume -/
def toDispH (j : Json) : Except String Json := do
  let cv ← field j "cv" >>= gridOfJson (listOfJson valOfJson)
  let isMax ← field j "is_max" >>= boolOfJson
  let dmin ← field j "dmin" >>= intOfJson
  let subpix ← field j "subpix" >>= natOfJson
  let invalid ← valOfJson (fieldD j "invalid_disp" (Json.str "nan"))
  return gridToJson valToJson (cv.map fun row => row.map fun costs => toDisp isMax dmin subpix invalid costs)

def addOpOfJson (j : Json) : Except String AddOp := do
  let s ← strOfJson j
  if s == "add" then pure .add else if s == "or" then pure .or else throw s!"bad op {s}"

def opsOfJson (j : Json) : Except String Ops := do
  return { refine := ← field j "refine" >>= addOpOfJson, cc := ← field j "cc" >>= addOpOfJson,
           fill := ← field j "fill" >>= addOpOfJson, reg := ← field j "reg" >>= addOpOfJson }

/-- one observed step on a whole mask: exact model for the kinds whose decisions depend on flags only,
    membership in the model's outcome set for the others, and the specification clauses -/
def stepH (j : Json) : Except String Json := do
  let kind ← field j "kind" >>= strOfJson
  let ops ← field j "ops" >>= opsOfJson
  let off ← field j "off" >>= natOfJson
  let before ← field j "before" >>= gridOfJson natOfJson
  let after ← field j "after" >>= arr2 natOfJson
  let some rep := stepOfKind kind | throw s!"unknown kind {kind}"
  let rows := before.length
  let cols := (before.headD []).length
  let exact : Option (Grid Nat) := if kind == "filter" then some before else none
  -- the interpolations: the decisions that depend on the flags only are fixed by the model
  let allowed : Option (Array (Array (List Nat))) :=
    if kind == "mc_cnn" then some ((mcCnnAllowed ops off before).map List.toArray).toArray
    else if kind == "sgm" then some ((sgmAllowed ops before).map List.toArray).toArray
    else none
  let mut notIn : Array Json := #[]
  let mut failing : Array Json := #[]
  for (row, r) in before.zipIdx do
    for (f, c) in row.zipIdx do
      let a := look2 after 0 r c
      let border := decide (off > 0) && FlagSteps.inBorder rows cols off r c
      let okSet := match allowed with
        | some al => look2 al [] r c
        | none => outcomes ops border kind f
      if !okSet.contains a then
        notIn := notIn.push (Json.arr #[natToJson r, natToJson c, natToJson f, natToJson a])
      for cl in failingStepClauses border rep f a do
        failing := failing.push (Json.arr #[Json.str cl, natToJson r, natToJson c, natToJson f, natToJson a])
  return mkObj [
    ("exact", match exact with | some g => gridToJson natToJson g | none => Json.null),
    ("not_in_outcomes", Json.arr notIn),
    ("failing", Json.arr failing)]

def stepOfJson (j : Json) : Except String Step := do
  match j with
  | Json.arr #[Json.str "refine", b] => return .refine (← boolOfJson b)
  | Json.arr #[Json.str "filter"] => return .filter
  | Json.arr #[Json.str "filter_intervals", b] => return .filterIntervals (← boolOfJson b)
  | Json.arr #[Json.str "cross_check", Json.str d] =>
    if d == "consistent" then return .crossCheck .consistent
    else if d == "mismatch" then return .crossCheck .mismatch
    else if d == "occlusion" then return .crossCheck .occlusion
    else throw s!"bad cc decision {d}"
  | Json.arr #[Json.str "mc_cnn", b, c] => return .interpMcCnn (← boolOfJson b) (← boolOfJson c)
  | Json.arr #[Json.str "sgm", a, b, c] => return .interpSgm (← boolOfJson a) (← boolOfJson b) (← boolOfJson c)
  | _ => throw s!"bad step {j.compress}"

/-- a per-pixel run (used to replay the counterexamples of Properties/C04.lean) -/
def runH (j : Json) : Except String Json := do
  let ops ← field j "ops" >>= opsOfJson
  let border ← boolOfJson (fieldD j "border" (Json.bool false))
  let steps ← field j "steps" >>= listOfJson stepOfJson
  let f ← field j "flag" >>= natOfJson
  let trace := steps.foldl (fun (acc : List Nat) s => acc ++ [stepFlag ops border s (acc.getLastD f)]) [f]
  return mkObj [("trace", listToJson natToJson trace), ("run_ok", Json.bool (runOK ops border steps f))]

def handle (op : String) (j : Json) : Except String Json :=
  match op with
  | "C04.criteria" => criteria j
  | "C04.spec_pre" => specPre j
  | "C04.to_disp" => toDispH j
  | "C04.step" => stepH j
  | "C04.run" => runH j
  | _ => throw s!"unknown op {op}"

end Pandora.Driver.C04
