/- Line-protocol handlers for the margins model (C20). -/
import PandoraModel.Model.Margins
import PandoraModel.Model.SaveConfig

namespace Pandora.Driver.C20
open Lean (Json)
open Pandora Pandora.Margins

def m4ToJson (m : M4) : Json := Json.arr #[intToJson m.left, intToJson m.up, intToJson m.right, intToJson m.down]

def m4OfJson (j : Json) : Except String M4 := do
  match ← listOfJson intOfJson j with
  | [a, b, c, d] => pure ⟨a, b, c, d⟩
  | _ => throw "bad margins"

def dictToJson (d : MDict) : Json := listToJson (fun e => Json.arr #[Json.str e.1, m4ToJson e.2]) d

def stepOfJson (j : Json) : Except String StepCfg := do
  let name ← field j "name" >>= strOfJson
  let method ← strOfJson (fieldD j "method" (Json.str ""))
  let windowSize ← intOfJson (fieldD j "window_size" (intToJson 5))
  let filterSize ← intOfJson (fieldD j "filter_size" (intToJson 3))
  let sigmaSpace ← ratOfJson (fieldD j "sigma_space" (intToJson 6))
  let stepParam ← intOfJson (fieldD j "step" (intToJson 1))
  return { name, method, windowSize, filterSize, sigmaSpace, stepParam }

def globalToJson (g : Global) : Json :=
  mkObj [("cumulative", dictToJson g.cumulatives), ("non_cumulative", dictToJson g.nonCumulatives),
         ("global", m4ToJson g.globalMargins)]

/-- margins reported after `check_conf` of a pipeline on a fresh machine -/
def check (j : Json) : Except String Json := do
  let rows ← field j "rows" >>= intOfJson
  let cols ← field j "cols" >>= intOfJson
  let rows2 ← intOfJson (fieldD j "rows2" (intToJson rows))
  let cols2 ← intOfJson (fieldD j "cols2" (intToJson cols))
  let steps ← field j "steps" >>= listOfJson stepOfJson
  let spec := mkObj [
    ("cumulative", dictToJson (expectedEntries .cumulative rows cols steps 1)),
    ("non_cumulative", dictToJson (expectedEntries .nonCumulative rows cols steps 1)),
    ("global", m4ToJson (expectedGlobal (expectedEntries .cumulative rows cols steps 1)
                                         (expectedEntries .nonCumulative rows cols steps 1)))]
  match checkMargins rows cols rows2 cols2 steps {} with
  | none => return mkObj [("ok", Json.bool false), ("spec", spec)]
  | some s => return mkObj [("ok", Json.bool true), ("margins", globalToJson s.g), ("spec", spec)]

/-- a sequence of GlobalMargins API calls: ["cum"|"non", key, [l,u,r,d]] -/
def ops (j : Json) : Except String Json := do
  let rows ← field j "ops" >>= listOfJson pure
  let mut g : Global := {}
  let mut outs : Array Json := #[]
  for r in rows do
    match r with
    | Json.arr #[Json.str kind, Json.str key, mj] =>
      let m ← m4OfJson mj
      if !m.valid then
        outs := outs.push (Json.str "ValueError")
      else
        match (if kind == "cum" then g.addCumulative key m else g.addNonCumulative key m) with
        | none => outs := outs.push (Json.str "KeyError")
        | some g' => g := g'; outs := outs.push (Json.str "ok")
    | _ => throw "bad op"
  return mkObj [("results", Json.arr outs), ("margins", globalToJson g),
                ("spec_global", m4ToJson (expectedGlobal g.cumulatives g.nonCumulatives))]

/-- `C20.saved_config` (used by C19's and C20's `saved_eq_reported`): the dictionary `main` saves
    (`SaveConfig.savedConfig`) for `check_conf`'s result `cfg` (wire format of `Model/JVal.lean`), the shapes of
    the two images and the facts read off `main`.  The margins come from the model of the check callbacks
    on the *checked pipeline dictionary* (`SaveConfig.stepCfgsOf`); the expected margins
    (`SaveConfig.expectedMarginsJ`) are returned beside them. -/
def savedConfig (j : Json) : Except String Json := do
  let fj ← field j "facts"
  let facts : Save.MainFacts :=
    { writesRightDisp := ← field fj "writesRightDisp" >>= boolOfJson, addsMargins := ← field fj "addsMargins" >>= boolOfJson }
  let runWrites ← boolOfJson (fieldD fj "runWritesIndicator" (Json.bool true))
  let cfg ← field j "cfg" >>= dictOfJson
  let rows ← field j "rows" >>= natOfJson
  let cols ← field j "cols" >>= natOfJson
  let rows2 ← natOfJson (fieldD j "rows2" (natToJson rows))
  let cols2 ← natOfJson (fieldD j "cols2" (natToJson cols))
  let expected : Json := match Dict.lookup cfg "pipeline" with
    | some (.obj M) => jvalToJson (SaveConfig.expectedMarginsJ rows cols (SaveConfig.stepCfgsOf M))
    | _ => Json.null
  match SaveConfig.savedConfig facts runWrites cfg rows cols rows2 cols2 with
  | none => return mkObj [("ok", Json.bool false), ("expected_margins", expected)]
  | some saved =>
    return mkObj [("ok", Json.bool true), ("saved", jvalToJson (.obj saved)), ("expected_margins", expected)]

def handle (op : String) (j : Json) : Except String Json :=
  match op with
  | "C20.check" => check j
  | "C20.saved_config" => savedConfig j
  | "C20.ops" => ops j
  | _ => throw s!"unknown op {op}"

end Pandora.Driver.C20
