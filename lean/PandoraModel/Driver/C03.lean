/- Line-protocol handlers for winner-takes-all (C03): model evaluation and specification evaluation. -/
import PandoraModel.Model.Wta

namespace Pandora.Driver.C03
open Lean (Json)
open Pandora Pandora.Wta

def splitOfJson (j : Json) : Except String Blocks.Split := do
  let g (k : String) : Except String Nat := field j k >>= natOfJson
  return { startY := ← g "startY", stepY := ← g "stepY", stopYDim := ← g "stopYDim",
           startX := ← g "startX", stepX := ← g "stepX", stopXDim := ← g "stopXDim",
           beginY := ← g "beginY", beginX := ← g "beginX" }

structure Parsed where
  x : Input
  cvArr : Array (Array (List Val))

def parseInput (j : Json) : Except String Parsed := do
  let rows ← field j "rows" >>= natOfJson
  let cols ← field j "cols" >>= natOfJson
  let isMax ← field j "is_max" >>= boolOfJson
  let disps ← field j "disps" >>= listOfJson ratOfJson
  let invalid ← field j "invalid" >>= valOfJson
  let cvL ← field j "cv" >>= listOfJson (listOfJson (listOfJson valOfJson))
  let cvArr : Array (Array (List Val)) := (cvL.map (·.toArray)).toArray
  if cvArr.size != rows then throw "cv: wrong number of rows"
  if cvArr.any (·.size != cols) then throw "cv: wrong number of columns"
  let cv : Nat → Nat → List Val := fun r c => (cvArr.getD r #[]).getD c []
  return { x := { rows, cols, isMax, disps, cv, invalid }, cvArr }

def ratGridOfJson (j : Json) (rows cols : Nat) (what : String) : Except String (Nat → Nat → Rat) := do
  let g ← listOfJson (listOfJson ratOfJson) j
  let a : Array (Array Rat) := (g.map (·.toArray)).toArray
  if a.size != rows || a.any (·.size != cols) then throw s!"{what}: wrong shape"
  return fun r c => (a.getD r #[]).getD c 0

def valGridOfJson (j : Json) (rows cols : Nat) (what : String) : Except String (Nat → Nat → Val) := do
  let g ← listOfJson (listOfJson valOfJson) j
  let a : Array (Array Val) := (g.map (·.toArray)).toArray
  if a.size != rows || a.any (·.size != cols) then throw s!"{what}: wrong shape"
  return fun r c => (a.getD r #[]).getD c .nan

/-- model: the disparity map and the cost volume after the step -/
def wta (j : Json) : Except String Json := do
  let p ← parseInput j
  let s ← field j "split" >>= splitOfJson
  let x := p.x
  let disp := Blocks.tabulate x.rows x.cols (toDisp s x)
  let cvA := Blocks.tabulate x.rows x.cols (cvAfter x)
  return mkObj [("disp", gridToJson valToJson disp),
                ("cv_after", gridToJson (listToJson valToJson) cvA)]

/-- specification evaluated on a disparity map `out` (the implementation's) -/
def spec (j : Json) : Except String Json := do
  let p ← parseInput j
  let x := p.x
  let lo ← field j "lo" >>= (ratGridOfJson · x.rows x.cols "lo")
  let hi ← field j "hi" >>= (ratGridOfJson · x.rows x.cols "hi")
  let out ← field j "out" >>= (valGridOfJson · x.rows x.cols "out")
  let mut fails : Array Json := #[]
  let mut nfail := 0
  let mut notWf : Array Json := #[]
  let mut withCost := 0
  let mut allNanCnt := 0
  let mut ties := 0
  let mut narrowed := 0
  for r in [0:x.rows] do
    for c in [0:x.cols] do
      let costs := x.cv r c
      if !(wfPixel x.disps (lo r c) (hi r c) costs) then
        if notWf.size < 5 then notWf := notWf.push (Json.arr #[natToJson r, natToJson c])
      if hasCost costs then withCost := withCost + 1 else allNanCnt := allNanCnt + 1
      if ((idxs costs).filter (isBestIdx x.isMax costs)).length > 1 then ties := ties + 1
      if hasCost costs && costs.any Val.isNan then narrowed := narrowed + 1
      let fc := failedClauses x.isMax x.disps (lo r c) (hi r c) costs x.invalid (out r c)
      if !fc.isEmpty then
        nfail := nfail + 1
        if fails.size < 10 then
          fails := fails.push (mkObj [("r", natToJson r), ("c", natToJson c),
            ("clauses", listToJson Json.str fc), ("out", valToJson (out r c)),
            ("costs", listToJson valToJson costs),
            ("expected", valToJson (wtaPixel x.isMax x.disps costs x.invalid))])
  return mkObj [("ok", Json.bool (nfail == 0)), ("failures", Json.arr fails), ("nfail", natToJson nfail),
                ("not_wf", Json.arr notWf), ("with_cost", natToJson withCost),
                ("all_nan", natToJson allNanCnt), ("ties", natToJson ties), ("partial_nan", natToJson narrowed)]

def handle (op : String) (j : Json) : Except String Json :=
  match op with
  | "C03.wta" => wta j
  | "C03.spec" => spec j
  | _ => throw s!"unknown op {op}"

end Pandora.Driver.C03
