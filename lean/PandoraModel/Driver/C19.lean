/- Line-protocol handlers for C19 (model `Model/Save.lean`). -/
import PandoraModel.Model.Save
import PandoraModel.Driver.C16

namespace Pandora.Driver.C19
open Lean (Json)
open Pandora Pandora.Save Pandora.Dataset
open Pandora.Driver.C16 (fvalOfJson fvalToJson arrOfJson fn2 fn3 grid2OfJson grid3OfJson optOfJson tab2 clausesToJson)

/-! ### decoding -/

def sideOfString : String → Except String Side
  | "left" => .ok .left
  | "right" => .ok .right
  | s => .error s!"unknown side {s}"

def varOfString : String → Except String Var
  | "disparityMap" => .ok .disparityMap
  | "confidenceMeasure" => .ok .confidenceMeasure
  | "validityMask" => .ok .validityMask
  | s => .error s!"unknown var {s}"

def rowOfJson (j : Json) : Except String SaveRow := do
  return { side := ← field j "side" >>= strOfJson >>= sideOfString,
           var := ← field j "var" >>= strOfJson >>= varOfString,
           file := ← field j "file" >>= strOfJson,
           dtype := ← field j "dtype" >>= strOfJson,
           bandNames := ← field j "bandNames" >>= boolOfJson,
           guardedByVar := ← field j "guardedByVar" >>= boolOfJson,
           guardedByRight := ← field j "guardedByRight" >>= boolOfJson,
           geoSide := ← field j "geoSide" >>= strOfJson >>= sideOfString }

def otdOfJson (j : Json) : Except String (List (String × String)) :=
  listOfJson (fun kv => match kv with
    | Json.arr #[Json.str k, Json.str v] => .ok (k, v)
    | _ => .error "bad OTD entry") j

/-- a product: `{"non_empty", "rows", "cols", "disparity" [[v]], "validity" [[v]],
    "conf": null | {"indicators": [...], "px": [[[v]]] (row, col, k)}, "geo"}` -/
def productOfJson (j : Json) : Except String Product := do
  let nonEmpty ← field j "non_empty" >>= boolOfJson
  if !nonEmpty then return Product.empty
  let rows ← field j "rows" >>= natOfJson
  let cols ← field j "cols" >>= natOfJson
  let disparity ← field j "disparity" >>= grid2OfJson fvalOfJson
  let validity ← field j "validity" >>= grid2OfJson fvalOfJson
  let conf ← optOfJson (fun c => do
      let ind ← field c "indicators" >>= listOfJson strOfJson
      let px ← field c "px" >>= grid3OfJson fvalOfJson
      pure (ind, px)) (fieldD j "conf" Json.null)
  let geo ← field j "geo" >>= strOfJson
  return { nonEmpty, rows, cols, disparity, validity, conf, geo }

def bandOfJson (j : Json) : Except String Band := do
  let name ← optOfJson strOfJson (fieldD j "name" Json.null)
  let px ← field j "px" >>= grid2OfJson fvalOfJson
  return { name, px }

def fileOfJson (j : Json) : Except String OutFile := do
  return { dir := ← field j "dir" >>= strOfJson, name := ← field j "name" >>= strOfJson,
           dtype := ← field j "dtype" >>= strOfJson, rows := ← field j "rows" >>= natOfJson,
           cols := ← field j "cols" >>= natOfJson, bands := ← field j "bands" >>= listOfJson bandOfJson,
           geo := ← field j "geo" >>= strOfJson }

def fileToJson (f : OutFile) : Json :=
  mkObj [("dir", Json.str f.dir), ("name", Json.str f.name), ("dtype", Json.str f.dtype),
         ("rows", natToJson f.rows), ("cols", natToJson f.cols),
         ("bands", listToJson (fun (b : Band) => mkObj [
            ("name", match b.name with
              | some s => Json.str s
              | none => Json.null),
            ("px", tab2 f.rows f.cols b.px fvalToJson)]) f.bands),
         ("geo", Json.str f.geo)]

def nodataOfJson (j : Json) : Except String NoData :=
  match j with
  | Json.str "nan" => .ok .nan
  | Json.str "NaN" => .ok .nan   -- `update_conf` turns the string "NaN" into a float NaN
  | Json.num n => if n.exponent = 0 then .ok (.int n.mantissa) else .ok .other
  | _ => .ok .other

def nodataToJson : NoData → Json
  | .int i => intToJson i
  | .nan => Json.str "nan"
  | .other => Json.str "other"

def dispCfgOfJson (j : Json) : Except String DispCfg :=
  match j with
  | Json.null => .ok .null
  | Json.str s => .ok (.path s)
  | Json.arr a =>
    match a.toList.mapM intOfJson with
    | .ok l => .ok (.ints l)
    | .error _ => .ok .other
  | _ => .ok .other

def dispCfgToJson : DispCfg → Json
  | .null => Json.null
  | .ints l => listToJson intToJson l
  | .path s => Json.str s
  | .other => Json.str "<other>"

def optStrOfJson (j : Json) : Except String (Option String) := optOfJson strOfJson j

def key? (j : Json) (k : String) : Option Json :=
  match j.getObjVal? k with
  | .ok v => some v
  | .error _ => none

def userSideOfJson (j : Json) : Except String UserSide := do
  let img ← match key? j "img" with
    | some v => (strOfJson v).map some
    | none => pure none
  let nodata ← match key? j "nodata" with
    | some v => (nodataOfJson v).map some
    | none => pure none
  let opt (k : String) : Except String (Option (Option String)) := match key? j k with
    | some v => (optStrOfJson v).map some
    | none => pure none
  let disp ← match key? j "disp" with
    | some v => (dispCfgOfJson v).map some
    | none => pure none
  return { img, nodata, mask := ← opt "mask", classif := ← opt "classif", segm := ← opt "segm", disp }

def sideCfgOfJson (j : Json) : Except String SideCfg := do
  return { img := ← field j "img" >>= strOfJson, nodata := ← field j "nodata" >>= nodataOfJson,
           mask := ← field j "mask" >>= optStrOfJson, classif := ← field j "classif" >>= optStrOfJson,
           segm := ← field j "segm" >>= optStrOfJson, disp := ← field j "disp" >>= dispCfgOfJson }

def optStrToJson : Option String → Json
  | some s => Json.str s
  | none => Json.null

def sideCfgToJson (s : SideCfg) : Json :=
  mkObj [("img", Json.str s.img), ("nodata", nodataToJson s.nodata), ("mask", optStrToJson s.mask),
         ("classif", optStrToJson s.classif), ("segm", optStrToJson s.segm), ("disp", dispCfgToJson s.disp)]

def pairToJson : Option (SideCfg × SideCfg) → Json
  | some (l, r) => mkObj [("left", sideCfgToJson l), ("right", sideCfgToJson r)]
  | none => Json.str "refused"

def factsOfJson (j : Json) : Except String MainFacts := do
  return { writesRightDisp := ← field j "writesRightDisp" >>= boolOfJson,
           addsMargins := ← field j "addsMargins" >>= boolOfJson }

/-! ### ops -/

/-- `C19.save`: the files `save_results` writes for two products, and the spec on them -/
def opSave (j : Json) : Except String Json := do
  let tbl ← field j "table" >>= listOfJson rowOfJson
  let otd ← field j "otd" >>= otdOfJson
  let left ← field j "left" >>= productOfJson
  let right ← field j "right" >>= productOfJson
  let files := saveResults otd tbl left right
  return mkObj [("files", listToJson fileToJson files),
                ("table_documented", Json.bool (decide (tbl = documentedTable) && decide (otd = documentedOtd)))]

/-- `C19.spec_save`: the specification on files read back from the output directory -/
def opSpecSave (j : Json) : Except String Json := do
  let left ← field j "left" >>= productOfJson
  let right ← field j "right" >>= productOfJson
  let files ← field j "files" >>= listOfJson fileOfJson
  return clausesToJson (specSaveClauses left right files)

/-- `C19.check_input`: model of `check_input_section` on a user input section -/
def opCheckInput (j : Json) : Except String Json := do
  let ul ← field j "left" >>= userSideOfJson
  let ur ← field j "right" >>= userSideOfJson
  return pairToJson (checkInput ul ur)

/-- `C19.main_cfg`: what `main` saves for completed sections `left`, `right`, and what feeding it back gives -/
def opMainCfg (j : Json) : Except String Json := do
  let facts ← field j "facts" >>= factsOfJson
  let l ← field j "left" >>= sideCfgOfJson
  let r ← field j "right" >>= sideCfgOfJson
  let s : Saved Unit Unit := mainSaved facts l r () ()
  return mkObj [("saved_left", sideCfgToJson s.left), ("saved_right", sideCfgToJson s.right),
                ("has_margins", Json.bool s.margins.isSome),
                ("effective_right", sideCfgToJson (effectiveRight l r)),
                ("accepted", Json.bool (schemaOk l r)),
                ("refeed", pairToJson (refeedInput s)),
                ("left_is_path", Json.bool (match l.disp with
                  | .path _ => true
                  | _ => false))]

/-- `C19.spec_refeed`: the specification on what was observed when the saved file was fed back -/
def opSpecRefeed (j : Json) : Except String Json := do
  let l ← field j "left" >>= sideCfgOfJson
  let r ← field j "right" >>= sideCfgOfJson
  let hasMargins ← field j "has_margins" >>= boolOfJson
  let obsJ ← field j "obs"
  let obs ← match obsJ with
    | Json.str "refused" => pure none
    | _ => do
      let l2 ← field obsJ "left" >>= sideCfgOfJson
      let r2 ← field obsJ "right" >>= sideCfgOfJson
      pure (some (l2, r2))
  return clausesToJson (specRefeedObs l r obs hasMargins)

def handle (op : String) (j : Json) : Except String Json :=
  match op with
  | "C19.save" => opSave j
  | "C19.spec_save" => opSpecSave j
  | "C19.check_input" => opCheckInput j
  | "C19.main_cfg" => opMainCfg j
  | "C19.spec_refeed" => opSpecRefeed j
  | _ => throw s!"unknown op {op}"

end Pandora.Driver.C19
