/- Line-protocol handlers for the filters (C10): model evaluation and specification evaluation. -/
import PandoraModel.Model.Filter
import PandoraModel.Model.FilterIntervals

namespace Pandora.Driver.C10
open Lean (Json)
open Pandora Pandora.Filter

def splitOfJson (j : Json) : Except String Blocks.Split := do
  let g (k : String) : Except String Nat := field j k >>= natOfJson
  return { startY := ← g "startY", stepY := ← g "stepY", stopYDim := ← g "stopYDim",
           startX := ← g "startX", stepX := ← g "stepX", stopXDim := ← g "stopXDim",
           beginY := ← g "beginY", beginX := ← g "beginX" }

def imgOfJson (j : Json) (ny nx : Nat) (what : String) : Except String Img := do
  let g ← listOfJson (listOfJson valOfJson) j
  let a : Array (Array Val) := (g.map (·.toArray)).toArray
  if a.size != ny || a.any (·.size != nx) then throw s!"{what}: wrong shape"
  return fun r c => (a.getD r #[]).getD c .nan

def natGridOfJson (j : Json) (ny nx : Nat) (what : String) : Except String (Nat → Nat → Nat) := do
  let g ← listOfJson (listOfJson natOfJson) j
  let a : Array (Array Nat) := (g.map (·.toArray)).toArray
  if a.size != ny || a.any (·.size != nx) then throw s!"{what}: wrong shape"
  return fun r c => (a.getD r #[]).getD c 0

def boolGridOfJson (j : Json) (ny nx : Nat) (what : String) : Except String (Nat → Nat → Bool) := do
  let g ← listOfJson (listOfJson boolOfJson) j
  let a : Array (Array Bool) := (g.map (·.toArray)).toArray
  if a.size != ny || a.any (·.size != nx) then throw s!"{what}: wrong shape"
  return fun r c => (a.getD r #[]).getD c false

def imgToJson (ny nx : Nat) (g : Img) : Json := gridToJson valToJson (Blocks.tabulate ny nx g)

def dims (j : Json) : Except String (Nat × Nat) := do
  return (← field j "ny" >>= natOfJson, ← field j "nx" >>= natOfJson)

/-- the two Gaussian factors: `spatial` a w×w grid, `range` a table [[difference, weight], …] -/
def weightsOfJson (j : Json) : Except String Weights := do
  let sp ← field j "spatial" >>= listOfJson (listOfJson ratOfJson)
  let spA : Array (Array Rat) := (sp.map (·.toArray)).toArray
  let tbl ← field j "range" >>= listOfJson (fun row => do
    match row with
    | Json.arr #[d, w] => pure ((← ratOfJson d), (← ratOfJson w))
    | _ => throw "bad range row")
  let tblA := tbl.toArray
  return { spatial := fun a b => (spA.getD a #[]).getD b 0,
           range := fun d => match tblA.find? (fun p => p.1 == d) with
             | some p => p.2
             | none => 0 }

def median (j : Json) : Except String Json := do
  let (ny, nx) ← dims j
  let fs ← field j "fs" >>= natOfJson
  let im ← field j "invalid_mask" >>= natOfJson
  let s ← field j "split" >>= splitOfJson
  let disp ← field j "disp" >>= (imgOfJson · ny nx "disp")
  let flags ← field j "flags" >>= (natGridOfJson · ny nx "flags")
  return mkObj [("disp", imgToJson ny nx (medianFilterDisparity s im fs ny nx flags disp))]

def medianBand (j : Json) : Except String Json := do
  let (ny, nx) ← dims j
  let fs ← field j "fs" >>= natOfJson
  let s ← field j "split" >>= splitOfJson
  let band ← field j "band" >>= (imgOfJson · ny nx "band")
  return mkObj [("band", imgToJson ny nx (medianFilter s fs ny nx band))]

def bilateral (j : Json) : Except String Json := do
  let (ny, nx) ← dims j
  let sigma ← field j "sigma_space" >>= ratOfJson
  let im ← field j "invalid_mask" >>= natOfJson
  let s ← field j "split" >>= splitOfJson
  let wts ← weightsOfJson j
  let disp ← field j "disp" >>= (imgOfJson · ny nx "disp")
  let flags ← field j "flags" >>= (natGridOfJson · ny nx "flags")
  let w := winWidth ny nx sigma
  return mkObj [("win", natToJson w),
                ("disp", imgToJson ny nx (bilateralFilterDisparity s wts im w ny nx flags disp))]

def winOp (j : Json) : Except String Json := do
  let (ny, nx) ← dims j
  let sigma ← field j "sigma_space" >>= ratOfJson
  return natToJson (winWidth ny nx sigma)

def collect (ny nx : Nat) (f : Nat → Nat → List String) (info : Nat → Nat → List (String × Json)) : Json := Id.run do
  let mut fails : Array Json := #[]
  let mut nfail := 0
  for r in [0:ny] do
    for c in [0:nx] do
      let fc := f r c
      if !fc.isEmpty then
        nfail := nfail + 1
        if fails.size < 10 then
          fails := fails.push (mkObj ([("r", natToJson r), ("c", natToJson c),
            ("clauses", listToJson Json.str fc)] ++ info r c))
  return mkObj [("ok", Json.bool (nfail == 0)), ("nfail", natToJson nfail), ("failures", Json.arr fails)]

/-- counts for the evidence: invalid cells, valid edge cells, valid interior cells, interior cells whose
    window holds an invalid cell, interior cells with an even number of valid values -/
def stats (data : Img) (before after ny nx : Nat) : Json := Id.run do
  let mut inv := 0; let mut edge := 0; let mut inner := 0; let mut partialW := 0; let mut evenW := 0
  for r in [0:ny] do
    for c in [0:nx] do
      if (data r c).isNan then inv := inv + 1
      else if !interior before after ny nx r c then edge := edge + 1
      else
        inner := inner + 1
        let w := centredWindow data before after r c
        let k := (nums w).length
        if k < w.length then partialW := partialW + 1
        if k % 2 == 0 then evenW := evenW + 1
  return mkObj [("invalid", natToJson inv), ("edge", natToJson edge), ("interior", natToJson inner),
                ("window_with_invalid", natToJson partialW), ("even_count", natToJson evenW)]

/-- median specification on an output map; `kind = "disp"` (data = NaN-masked disparity, orig = disparity)
    or `kind = "band"` (data = orig = band) -/
def specMedian (j : Json) : Except String Json := do
  let (ny, nx) ← dims j
  let fs ← field j "fs" >>= natOfJson
  let kind ← field j "kind" >>= strOfJson
  let orig ← field j "orig" >>= (imgOfJson · ny nx "orig")
  let out ← field j "out" >>= (imgOfJson · ny nx "out")
  let data ← if kind == "band" then pure orig else do
    let im ← field j "invalid_mask" >>= natOfJson
    let flags ← field j "flags" >>= (natGridOfJson · ny nx "flags")
    pure (masked im flags orig)
  let res := collect ny nx (fun r c => medianCellFailures data fs ny nx r c (orig r c) (out r c))
    (fun r c => [("out", valToJson (out r c)), ("orig", valToJson (orig r c)),
                 ("window", listToJson valToJson (centredWindow data (fs / 2) (fs / 2) r c)),
                 ("expected_median", valToJson (nanmedian (centredWindow data (fs / 2) (fs / 2) r c)))])
  return res.mergeObj (mkObj [("stats", stats data (fs / 2) (fs / 2) ny nx)])

def specBilateral (j : Json) : Except String Json := do
  let (ny, nx) ← dims j
  let sigma ← field j "sigma_space" >>= ratOfJson
  let tol ← field j "tol" >>= ratOfJson
  let im ← field j "invalid_mask" >>= natOfJson
  let wts ← weightsOfJson j
  let orig ← field j "orig" >>= (imgOfJson · ny nx "orig")
  let out ← field j "out" >>= (imgOfJson · ny nx "out")
  let flags ← field j "flags" >>= (natGridOfJson · ny nx "flags")
  let data := masked im flags orig
  let w := winWidth ny nx sigma
  let res := collect ny nx (fun r c => bilateralCellFailures wts tol data w ny nx r c (orig r c) (out r c))
    (fun r c => [("out", valToJson (out r c)), ("orig", valToJson (orig r c)),
                 ("window", listToJson valToJson (centredWindow data (w / 2) (w - 1 - w / 2) r c))])
  return res.mergeObj (mkObj [("win", natToJson w), ("stats", stats data (w / 2) (w - 1 - w / 2) ny nx)])

def flagsOp (j : Json) : Except String Json := do
  let (ny, nx) ← dims j
  let bit ← field j "bit" >>= natOfJson
  let flags ← field j "flags" >>= (natGridOfJson · ny nx "flags")
  let reg ← field j "reg" >>= (boolGridOfJson · ny nx "reg")
  return mkObj [("flags", gridToJson natToJson (Blocks.tabulate ny nx (regularizeFlags bit reg flags)))]

def specFlags (j : Json) : Except String Json := do
  let (ny, nx) ← dims j
  let bit ← field j "bit" >>= natOfJson
  let allowed ← field j "bit11_allowed" >>= boolOfJson
  let flags ← field j "flags" >>= (natGridOfJson · ny nx "flags")
  let out ← field j "out" >>= (natGridOfJson · ny nx "out")
  return collect ny nx (fun r c => if flagSpec bit (flags r c) (out r c) allowed then []
      else [if allowed then "bit11_only" else "mask_unchanged"])
    (fun r c => [("flag", natToJson (flags r c)), ("out", natToJson (out r c))])

/-- `C10.intervals_step`: the whole `median_for_intervals` step (`Model/FilterIntervals.lean`): median of the two
    bands, then — with regularisation — C12's `interval_regularization` model producing the final bands and
    `mask_regularization`, `|=` of the bit, `mask_border` when `offset > 0` -/
def intervalsStep (j : Json) : Except String Json := do
  let (ny, nx) ← dims j
  let s ← field j "split" >>= splitOfJson
  let bit ← field j "bit" >>= natOfJson
  let off ← natOfJson (fieldD j "offset" (natToJson 0))
  let cfg : FilterIntervals.Cfg :=
    { fs := ← field j "fs" >>= natOfJson,
      regularization := ← field j "regularization" >>= boolOfJson,
      thr := ← field j "threshold" >>= ratOfJson,
      kernel := ← field j "kernel" >>= natOfJson,
      depth := ← field j "depth" >>= natOfJson,
      quantile := ← field j "quantile" >>= ratOfJson }
  let inf ← field j "inf" >>= (imgOfJson · ny nx "inf")
  let sup ← field j "sup" >>= (imgOfJson · ny nx "sup")
  let amb ← field j "amb" >>= (imgOfJson · ny nx "amb")
  let flags ← field j "flags" >>= (natGridOfJson · ny nx "flags")
  let out := FilterIntervals.medianForIntervals s bit off cfg ny nx inf sup amb flags
  return mkObj [("inf", imgToJson ny nx out.inf), ("sup", imgToJson ny nx out.sup),
                ("flags", gridToJson natToJson (Blocks.tabulate ny nx out.flags)),
                ("reg", gridToJson Json.bool (Blocks.tabulate ny nx out.regMask))]

def handle (op : String) (j : Json) : Except String Json :=
  match op with
  | "C10.median" => median j
  | "C10.intervals_step" => intervalsStep j
  | "C10.median_band" => medianBand j
  | "C10.bilateral" => bilateral j
  | "C10.win" => winOp j
  | "C10.spec_median" => specMedian j
  | "C10.spec_bilateral" => specBilateral j
  | "C10.flags" => flagsOp j
  | "C10.spec_flags" => specFlags j
  | _ => throw s!"unknown op {op}"

end Pandora.Driver.C10
