/- JSON decoders/encoders shared by the C05 and C17 handlers (wire format of translator/t4_schemas.py). -/
import PandoraModel.Model.InputSpec

namespace Pandora.Driver.ConfigJson
open Lean (Json)
open Pandora Pandora.Config Pandora.ConfigSpec

def cmpOpOfString : String → Except String CmpOp
  | "lt" => .ok .lt | "le" => .ok .le | "gt" => .ok .gt | "ge" => .ok .ge
  | "eq" => .ok .eq | "ne" => .ok .ne
  | s => .error s!"bad comparison {s}"

partial def exprOfJson (j : Json) : Except String Expr := do
  match j with
  | Json.arr a =>
    match a.toList with
    | [Json.str "var"] => pure .var
    | [Json.str "lit", v] => return .lit (← jvalOfJson v)
    | [Json.str "cmp", Json.str op, x, y] => return .cmp (← cmpOpOfString op) (← exprOfJson x) (← exprOfJson y)
    | [Json.str "and", x, y] => return .and (← exprOfJson x) (← exprOfJson y)
    | [Json.str "or", x, y] => return .or (← exprOfJson x) (← exprOfJson y)
    | [Json.str "bitand", x, y] => return .bitand (← exprOfJson x) (← exprOfJson y)
    | [Json.str "not", x] => return .not (← exprOfJson x)
    | [Json.str "mod", x, m] => return .mod (← exprOfJson x) (← intOfJson m)
    | [Json.str "in", x, items] => return .isIn (← exprOfJson x) (← listOfJson jvalOfJson items)
    | [Json.str "isnone", x] => return .isNone (← exprOfJson x)
    | [Json.str "isnan", x] => return .npIsnan (← exprOfJson x)
    | [Json.str "isscalar", x] => return .npIsscalar (← exprOfJson x)
    | [Json.str "len", x] => return .len (← exprOfJson x)
    | _ => throw s!"bad expr {j.compress.take 80}"
  | _ => throw s!"bad expr {j.compress.take 80}"

def pyTypeOfString : String → Except String PyType
  | "int" => .ok .int | "float" => .ok .float | "str" => .ok .str | "bool" => .ok .bool
  | "dict" => .ok .dict | "list" => .ok .list
  | s => .error s!"bad type {s}"

mutual
partial def schemaOfJson (j : Json) : Except String Schema := do
  match j with
  | Json.arr a =>
    match a.toList with
    | [Json.str "type", Json.str t] => return .type (← pyTypeOfString t)
    | [Json.str "func", e] => return .func (← exprOfJson e)
    | [Json.str "oracle", Json.str n] => pure (.oracle n)
    | [Json.str "all", l] => return .all (← listOfJson schemaOfJson l)
    | [Json.str "any", l] => return .any (← listOfJson schemaOfJson l)
    | [Json.str "list", l] => return .listOf (← listOfJson schemaOfJson l)
    | [Json.str "dict", l] => return .dict (← entriesOfJson l)
    | _ => throw s!"bad schema {j.compress.take 80}"
  | _ => throw s!"bad schema {j.compress.take 80}"
partial def entriesOfJson (j : Json) : Except String (List (String × Bool × Schema)) :=
  listOfJson (fun e => do
    match e with
    | Json.arr #[Json.str k, Json.bool opt, s] => return (k, opt, ← schemaOfJson s)
    | _ => throw "bad schema entry") j
end

def errOfString : String → Except String Err
  | "value" => .ok .value | "type" => .ok .type | "attr" => .ok .attr | "key" => .ok .key
  | s => .error s!"bad error {s}"

def actionOfJson (j : Json) : Except String Action := do
  match j with
  | Json.arr a =>
    match a.toList with
    | [Json.str "default", Json.str k, v] => return .default k (← jvalOfJson v)
    | [Json.str "default_nan", Json.str k, v] => return .defaultElifNaN k (← jvalOfJson v)
    | [Json.str "guard_ne", Json.str k, v, Json.str e] => return .guardNe k (← jvalOfJson v) (← errOfString e)
    | [Json.str "refuse_grids"] => pure .refuseGrids
    | _ => throw s!"bad action {j.compress.take 80}"
  | _ => throw s!"bad action {j.compress.take 80}"

def classOfJson (j : Json) : Except String ClassDesc := do
  let className ← field j "className" >>= strOfJson
  let names ← field j "names" >>= listOfJson strOfJson
  let actions ← field j "actions" >>= listOfJson actionOfJson
  let schema ← field j "schema" >>= entriesOfJson
  return { className, names, actions, schema }

def kindOfJson (j : Json) : Except String KindDesc := do
  let kind ← field j "kind" >>= strOfJson
  let methodKey ← field j "methodKey" >>= strOfJson
  let unicodeBranch ← field j "unicodeBranch" >>= boolOfJson
  let classes ← field j "classes" >>= listOfJson classOfJson
  return { kind, methodKey, unicodeBranch, classes }

def registryOfJson (j : Json) : Except String (List KindDesc) := listOfJson kindOfJson j

def inputSchemasOfJson (j : Json) : Except String InputSchemas := do
  let e (k : String) := field j k >>= entriesOfJson
  let defaults ← field j "defaults" >>= fun d => do
    -- ordered [[k, value]…]
    listOfJson (fun kv => do
      match kv with
      | Json.arr #[Json.str k, v] => return (k, ← jvalOfJson v)
      | _ => throw "bad default entry") d
  return { baseLeft := ← e "baseLeft", baseRight := ← e "baseRight",
           integerLeft := ← e "integerLeft", integerRight := ← e "integerRight",
           gridNoneLeft := ← e "gridNoneLeft", gridNoneRight := ← e "gridNoneRight",
           gridGridLeft := ← e "gridGridLeft", gridGridRight := ← e "gridGridRight",
           defaults }

def optStrOfJson (j : Json) : Except String (Option String) :=
  match j with
  | Json.null => .ok none
  | Json.str s => .ok (some s)
  | _ => .error "expected a string or null"

def imgInfoOfJson (j : Json) : Except String ImgInfo := do
  let bands ← field j "bands" >>= listOfJson optStrOfJson
  let dispSource ← jvalOfJson (fieldD j "disp_source" Json.null)
  return { bands, dispSource }

def cstateOfJson (j : Json) : Except String CState := do
  let pipelineCfg ← dictOfJson (fieldD j "pipeline_cfg" (mkObj [("o", Json.arr #[])]))
  let rightDispMap ← boolOfJson (fieldD j "right_disp_map" (Json.bool false))
  let step ← jvalOfJson (fieldD j "step" (intToJson 1))
  return { pipelineCfg, rightDispMap, step }

def flagsOfJson (j : Json) : Except String MachineFlags := do
  let bandWhole ← boolOfJson (fieldD j "bandWhole" (Json.bool false))
  let resetPipelineCfg ← boolOfJson (fieldD j "resetPipelineCfg" (Json.bool false))
  let strictMerge ← boolOfJson (fieldD j "strictMerge" (Json.bool false))
  return { bandWhole, resetPipelineCfg, strictMerge }

def cstateToJson (m : CState) : Json :=
  mkObj [("pipeline_cfg", jvalToJson (.obj m.pipelineCfg)), ("right_disp_map", Json.bool m.rightDispMap),
         ("step", jvalToJson m.step)]

/-- files: `{path: {"width":…, "height":…, "count":…, "min_gt_max":…, "bands":[…]}}`; absent = unreadable -/
def filesOfJson (j : Json) : Except String Files := do
  match j with
  | Json.obj _ =>
    let tbl ← (match j.getObj? with
      | .ok o => o.toList.mapM (fun (kv : String × Json) => do
          let v := kv.2
          let width ← field v "width" >>= natOfJson
          let height ← field v "height" >>= natOfJson
          let count ← field v "count" >>= natOfJson
          let minGtMax ← boolOfJson (fieldD v "min_gt_max" (Json.bool false))
          let bands ← listOfJson optStrOfJson (fieldD v "bands" (Json.arr #[Json.null]))
          pure (kv.1, ({ width, height, count, minGtMax, bands } : FileInfo)))
      | .error e => throw e)
    return fun p => (tbl.find? (fun kv => kv.1 == p)).map (·.2)
  | _ => throw "files must be an object"

def resToJson {α} (f : α → Json) : Except Err α → Json
  | .ok a => mkObj [("ok", f a)]
  | .error e => mkObj [("err", Json.str e.pyName)]

def domToJson (d : Dom) : Json := Json.str d.name

end Pandora.Driver.ConfigJson
