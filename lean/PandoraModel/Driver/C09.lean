/- Line-protocol handlers for C09 (interval honoured, no leak into costs); reuses the C02 input decoding. -/
import PandoraModel.Driver.C02
import PandoraModel.Model.IntervalWta
import PandoraModel.Driver.C09Pipeline

namespace Pandora.Driver.C09
open Lean (Json)
open Pandora Pandora.MC Pandora.IntervalWta Pandora.Driver.C02

def vol3OfJson (j : Json) : Except String (Array (Array (Array Val))) := do
  let impl ← listOfJson (listOfJson (listOfJson valOfJson)) j
  return (impl.map (fun rw => (rw.map List.toArray).toArray)).toArray

def at3 (v : Array (Array (Array Val))) (r c j : Nat) : Option Val := do
  let a ← v[r]?
  let b ← a[c]?
  b[j]?

def valEq : Val → Val → Bool
  | .nan, .nan => true
  | .num a, .num b => decide (a = b)
  | _, _ => false

def inPixel (x : Input) (r c k : Int) : Bool :=
  decide (x.dminG r c * (x.sp : Int) ≤ k) && decide (k ≤ x.dmaxG r c * (x.sp : Int))

/-- two runs that differ only by the requested disparities: `j` = the first input (its `dmin`/`dmax`),
    `dmin2`/`dmax2` = the grids of the second run.  Evaluates, on the model volumes and on the observed volumes
    `impl1`/`impl2`: same cell wherever the disparity lies in the pixel's interval in both runs
    (`slice_of_larger`, `grid_inside_same`, `const_grid_eq_scalar`), NaN outside the pixel's interval
    (`grid_outside_nan`). -/
def pair (j : Json) : Except String Json := do
  let x ← inputOfJson j
  let dmin2 ← field j "dmin2" >>= arr2OfJson intOfJson
  let dmax2 ← field j "dmax2" >>= arr2OfJson intOfJson
  let y : Input := { x with dminG := fn2 dmin2 0, dmaxG := fn2 dmax2 0 }
  let dx := dims x
  let dy := dims y
  let impl1 ← field j "impl1" >>= vol3OfJson
  let impl2 ← field j "impl2" >>= vol3OfJson
  let withModel ← boolOfJson (fieldD j "with_model" (Json.bool true))
  let mx := costVolume x
  let my := costVolume y
  let mut nCompared := 0
  let mut nOutside := 0
  let mut badImplSame : Array Json := #[]
  let mut badImplOutside : Array Json := #[]
  let mut badModel : Array Json := #[]
  let mut nBadImplSame := 0
  let mut nBadImplOutside := 0
  let mut nBadModel := 0
  for r in List.range x.L.rows do
    for c in List.range x.L.cols do
      for jx in List.range dx.nd do
        let k := dx.gmin * (x.sp : Int) + jx
        let v1 := (at3 impl1 r c jx).getD Val.nan
        if !inPixel x r c k then
          nOutside := nOutside + 1
          if !valEq v1 Val.nan then
            nBadImplOutside := nBadImplOutside + 1
            if badImplOutside.size < 3 then
              badImplOutside := badImplOutside.push (mkObj [("run", natToJson 1), ("r", natToJson r), ("c", natToJson c), ("k", intToJson k), ("got", valToJson v1)])
        let jy := k - dy.gmin * (x.sp : Int)
        if 0 ≤ jy ∧ jy < dy.nd ∧ inPixel x r c k ∧ inPixel y r c k then
          nCompared := nCompared + 1
          let v2 := (at3 impl2 r c jy.toNat).getD Val.nan
          if !valEq v1 v2 then
            nBadImplSame := nBadImplSame + 1
            if badImplSame.size < 3 then
              badImplSame := badImplSame.push (mkObj [("r", natToJson r), ("c", natToJson c), ("k", intToJson k),
                ("run1", valToJson v1), ("run2", valToJson v2)])
          if withModel then
            if mx r c jx != my r c jy.toNat then
              nBadModel := nBadModel + 1
              if badModel.size < 3 then
                badModel := badModel.push (mkObj [("r", natToJson r), ("c", natToJson c), ("k", intToJson k),
                  ("model1", cellToJson (mx r c jx)), ("model2", cellToJson (my r c jy.toNat))])
      -- second run: NaN outside its own pixel interval
      for jy in List.range dy.nd do
        let k := dy.gmin * (x.sp : Int) + jy
        if !inPixel y r c k then
          nOutside := nOutside + 1
          let v2 := (at3 impl2 r c jy).getD Val.nan
          if !valEq v2 Val.nan then
            nBadImplOutside := nBadImplOutside + 1
            if badImplOutside.size < 3 then
              badImplOutside := badImplOutside.push (mkObj [("run", natToJson 2), ("r", natToJson r), ("c", natToJson c), ("k", intToJson k), ("got", valToJson v2)])
  return mkObj [
    ("wf1", Json.bool (wf x)), ("wf2", Json.bool (wf y)),
    ("gmin1", intToJson dx.gmin), ("gmax1", intToJson dx.gmax), ("nd1", natToJson dx.nd),
    ("gmin2", intToJson dy.gmin), ("gmax2", intToJson dy.gmax), ("nd2", natToJson dy.nd),
    ("n_compared", natToJson nCompared), ("n_outside", natToJson nOutside),
    ("n_bad_impl_same", natToJson nBadImplSame), ("bad_impl_same", Json.arr badImplSame),
    ("n_bad_impl_outside", natToJson nBadImplOutside), ("bad_impl_outside", Json.arr badImplOutside),
    ("n_bad_model", natToJson nBadModel), ("bad_model", Json.arr badModel)]

/-- a disparity map against the requested intervals.
    `disp[r][c]` exact rationals or "nan", `valid[r][c]` Bool (flag has no invalidating bit),
    `mode` = "pixel" (inside the pixel's own [min, max]) or "global" (inside [gmin, gmax]);
    with `cv` (observed cost volume) and `sample = true`: the disparity must be a sample of the range whose
    cost is a number; with `model_wta` the first-occurrence argmin/argmax of the observed costs is compared. -/
def inside (j : Json) : Except String Json := do
  let x ← inputOfJson j
  let d := dims x
  let disp ← field j "disp" >>= arr2OfJson valOfJson
  let valid ← field j "valid_px" >>= arr2OfJson boolOfJson
  let mode ← strOfJson (fieldD j "mode" (Json.str "pixel"))
  let sample ← boolOfJson (fieldD j "sample" (Json.bool false))
  let modelWta ← boolOfJson (fieldD j "model_wta" (Json.bool false))
  let cv ← match fieldD j "cv" Json.null with
    | Json.null => pure (#[] : Array (Array (Array Val)))
    | v => vol3OfJson v
  let s : Rat := ((x.sp : Int) : Rat)
  let mut nValid := 0
  let mut nBad := 0
  let mut bad : Array Json := #[]
  let mut nWtaBad := 0
  let mut wtaBad : Array Json := #[]
  let mut nAllNanValid := 0
  for r in List.range x.L.rows do
    for c in List.range x.L.cols do
      let v := fn2 disp Val.nan r c
      let ok := fn2 valid false r c
      let cells : Nat → Cell := fun jj => Cell.ofVal ((at3 cv r c jj).getD Val.nan)
      if ok then
        nValid := nValid + 1
        match v with
        | .nan =>
          nBad := nBad + 1
          if bad.size < 3 then bad := bad.push (mkObj [("r", natToJson r), ("c", natToJson c), ("why", Json.str "valid pixel with NaN disparity")])
        | .num q =>
          let lo : Rat := if mode == "pixel" then ((x.dminG r c : Int) : Rat) else ((d.gmin : Int) : Rat)
          let hi : Rat := if mode == "pixel" then ((x.dmaxG r c : Int) : Rat) else ((d.gmax : Int) : Rat)
          let mut why := ""
          if q < lo ∨ q > hi then why := "outside the interval"
          if sample ∧ why == "" then
            let kq := q * s
            if kq.den != 1 then why := "not a multiple of 1/subpix"
            else
              let jj := kq.num - d.gmin * (x.sp : Int)
              if jj < 0 ∨ jj ≥ d.nd then why := "not a sample of the range"
              else if (cells jj.toNat).isNan then why := "cost of the chosen disparity is NaN"
          if why != "" then
            nBad := nBad + 1
            if bad.size < 3 then
              bad := bad.push (mkObj [("r", natToJson r), ("c", natToJson c), ("disp", ratToJson q),
                ("lo", ratToJson lo), ("hi", ratToJson hi), ("why", Json.str why)])
          if modelWta then
            let better := if typeMeasure x.meas == "max" then numGt else numLt
            match wta better cells d.nd with
            | none => nAllNanValid := nAllNanValid + 1
            | some jj =>
              let want : Rat := (((d.gmin * (x.sp : Int) + jj : Int)) : Rat) / s
              if want != q then
                nWtaBad := nWtaBad + 1
                if wtaBad.size < 3 then
                  wtaBad := wtaBad.push (mkObj [("r", natToJson r), ("c", natToJson c), ("impl", ratToJson q), ("model", ratToJson want)])
  return mkObj [("gmin", intToJson d.gmin), ("gmax", intToJson d.gmax), ("nd", natToJson d.nd),
    ("n_valid", natToJson nValid), ("n_bad", natToJson nBad), ("bad", Json.arr bad),
    ("n_wta_bad", natToJson nWtaBad), ("wta_bad", Json.arr wtaBad), ("n_valid_all_nan", natToJson nAllNanValid)]

/-- Specification evaluated on observed products only (no model volume), for per-pixel grids with rational
    (non-integer) bounds: `dminq`/`dmaxq` are the requested bounds of every pixel, `coords` the disparity
    coordinates of the observed cost volume `cv` (may be absent), `disp` / `valid_px` an observed map (may be absent).
    * a cost at a coordinate outside the pixel's own `[min, max]` is NaN (`outside_pixel_interval_nan`);
    * a valid pixel's disparity lies inside its own `[min, max]`. -/
def fractional (j : Json) : Except String Json := do
  let dminq ← field j "dminq" >>= arr2OfJson ratOfJson
  let dmaxq ← field j "dmaxq" >>= arr2OfJson ratOfJson
  let coords ← match fieldD j "coords" Json.null with
    | Json.null => pure ([] : List Rat)
    | v => listOfJson ratOfJson v
  let cv ← match fieldD j "cv" Json.null with
    | Json.null => pure (#[] : Array (Array (Array Val)))
    | v => vol3OfJson v
  let disp ← match fieldD j "disp" Json.null with
    | Json.null => pure (#[] : Array (Array Val))
    | v => arr2OfJson valOfJson v
  let valid ← match fieldD j "valid_px" Json.null with
    | Json.null => pure (#[] : Array (Array Bool))
    | v => arr2OfJson boolOfJson v
  let rows := dminq.size
  let mut nOutside := 0
  let mut nInside := 0
  let mut nBadCost := 0
  let mut badCost : Array Json := #[]
  let mut nValid := 0
  let mut nBadDisp := 0
  let mut badDisp : Array Json := #[]
  for r in List.range rows do
    let cols := (dminq[r]?.getD #[]).size
    for c in List.range cols do
      let lo := fn2 dminq 0 r c
      let hi := fn2 dmaxq 0 r c
      let mut jj := 0
      for q in coords do
        let v := (at3 cv r c jj).getD Val.nan
        if q < lo ∨ q > hi then
          nOutside := nOutside + 1
          if !valEq v Val.nan then
            nBadCost := nBadCost + 1
            if badCost.size < 3 then
              badCost := badCost.push (mkObj [("r", natToJson r), ("c", natToJson c), ("disp", ratToJson q),
                ("lo", ratToJson lo), ("hi", ratToJson hi), ("got", valToJson v)])
        else
          nInside := nInside + 1
        jj := jj + 1
      if fn2 valid false r c then
        nValid := nValid + 1
        match fn2 disp Val.nan r c with
        | .nan =>
          nBadDisp := nBadDisp + 1
          if badDisp.size < 3 then badDisp := badDisp.push (mkObj [("r", natToJson r), ("c", natToJson c), ("why", Json.str "valid pixel with NaN disparity")])
        | .num q =>
          if q < lo ∨ q > hi then
            nBadDisp := nBadDisp + 1
            if badDisp.size < 3 then
              badDisp := badDisp.push (mkObj [("r", natToJson r), ("c", natToJson c), ("disp", ratToJson q), ("lo", ratToJson lo), ("hi", ratToJson hi)])
  return mkObj [("n_outside", natToJson nOutside), ("n_inside", natToJson nInside), ("n_bad_cost", natToJson nBadCost),
    ("bad_cost", Json.arr badCost), ("n_valid", natToJson nValid), ("n_bad_disp", natToJson nBadDisp), ("bad_disp", Json.arr badDisp)]

def handle (op : String) (j : Json) : Except String Json :=
  match op with
  | "C09.fractional" => fractional j
  | "C09.pair" => pair j
  | "C09.inside" => inside j
  | "C09.hyp" => Pandora.Driver.C09Pipeline.hyp j
  | _ => throw s!"unknown op {op}"

end Pandora.Driver.C09
