/- Line-protocol handlers for C17 (dataset and input-section checking): model and specification. -/
import PandoraModel.Driver.ConfigJson

namespace Pandora.Driver.C17
open Lean (Json)
open Pandora Pandora.Config Pandora.ConfigSpec Pandora.InputSpec Pandora.Driver.ConfigJson

def dsDescOfJson (j : Json) : Except String DsDesc := do
  let vars ← field j "vars" >>= listOfJson (fun v => do
    match v with
    | Json.arr #[Json.str n, sh] => return (n, ← listOfJson natOfJson sh)
    | _ => throw "bad var")
  let imAllNan ← boolOfJson (fieldD j "im_all_nan" (Json.bool false))
  let bandIm ← (match fieldD j "band_im" Json.null with
    | Json.null => pure none
    | b => do return some (← listOfJson boolOfJson b))
  let bandDisp ← (match fieldD j "band_disp" Json.null with
    | Json.null => pure none
    | b => do return some (← listOfJson strOfJson b))
  let dispMinGtMax ← boolOfJson (fieldD j "disp_min_gt_max" (Json.bool false))
  let attrs ← field j "attrs" >>= listOfJson strOfJson
  return { vars, imAllNan, bandIm, bandDisp, dispMinGtMax, attrs }

def unitRes : Except Err Unit → Json := resToJson (fun _ => Json.null)

/-- `check_datasets(left, right)` on the model + the well-formedness specification -/
def datasets (j : Json) : Except String Json := do
  let l ← field j "left" >>= dsDescOfJson
  let r ← field j "right" >>= dsDescOfJson
  return mkObj [("res", unitRes (checkDatasets l r)),
                ("res_left", unitRes (checkDataset l)),
                ("well_formed", Json.bool (datasetsWellFormed l r)),
                ("failing", listToJson Json.str (failingClauses (pairClauses l r)))]

/-- `check_input_section(user)` on the model + the documented forms -/
def input (j : Json) : Except String Json := do
  let sch ← field j "input_schemas" >>= inputSchemasOfJson
  let files ← field j "files" >>= filesOfJson
  let user ← field j "user" >>= dictOfJson
  let fl ← flagsOfJson (fieldD j "flags" (mkObj []))
  let res := checkInputSection files fl sch (getConfigInput user)
  let clauses := inputClauses files (Dict.lookup user "input")
  return mkObj [("res", resToJson (fun d => jvalToJson (.obj d)) res),
                ("verdict", domToJson (inputVerdict files (Dict.lookup user "input"))),
                ("rejecting", listToJson Json.str (rejectingClauses clauses)),
                ("clauses", Json.arr (clauses.map (fun c => Json.arr #[Json.str c.1, domToJson c.2])).toArray)]

def handle (op : String) (j : Json) : Except String Json :=
  match op with
  | "C17.datasets" => datasets j
  | "C17.input" => input j
  | _ => throw s!"unknown op {op}"

end Pandora.Driver.C17
