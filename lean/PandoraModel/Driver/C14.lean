/- Line-protocol handlers for C14 (occlusion / mismatch filling): model AND spec evaluation. -/
import PandoraModel.Model.Interp

namespace Pandora.Driver.C14
open Lean (Json)
open Pandora Pandora.Interp

/-- a map from two nested JSON arrays (cells outside the arrays read as NaN / 0) -/
def dmapOf (disp : Grid Val) (flag : Grid Nat) : DMap :=
  let da : Array (Array Val) := (disp.map List.toArray).toArray
  let fa : Array (Array Nat) := (flag.map List.toArray).toArray
  { rows := fa.size
    cols := (fa.getD 0 #[]).size
    disp := fun r c => (da.getD r #[]).getD c Val.nan
    flag := fun r c => (fa.getD r #[]).getD c 0 }

def dmapOfJson (j : Json) (kd kf : String) : Except String DMap := do
  let disp ← field j kd >>= gridOfJson valOfJson
  let flag ← field j kf >>= gridOfJson natOfJson
  if disp.length != flag.length || (disp.zip flag).any (fun p => p.1.length != p.2.length) then
    throw "disparity map and validity mask have different shapes"
  if flag.any (fun row => row.length != (flag.headD []).length) then throw "ragged map"
  return dmapOf disp flag

def tab {α} (m : DMap) (f : Nat → Nat → α) : Grid α :=
  (List.range m.rows).map fun r => (List.range m.cols).map fun c => f r c

/-- evaluate every cell once, so that the second pass does not re-run the first one per lookup -/
def materialise (m : DMap) : DMap := dmapOf (tab m m.disp) (tab m m.flag)

def dmapToJson (m : DMap) : List (String × Json) :=
  [("disp", gridToJson valToJson (tab m m.disp)), ("flag", gridToJson natToJson (tab m m.flag))]

def methodOfJson (j : Json) : Except String Method := do
  match ← field j "method" >>= strOfJson with
  | "mc-cnn" => pure .mccnn
  | "sgm" => pure .sgm
  | s => throw s!"unknown method {s}"

def wfJson (op : RaiseOp) (meth : Method) (off : Nat) (a : DMap) : Json :=
  mkObj [("valid_finite", Json.bool (validFinite a)), ("one_flag", Json.bool (oneFlag a)),
         ("no_stale_fill", Json.bool (noStaleFill meth a)), ("border_clean", Json.bool (borderClean off a)),
         ("wf", Json.bool (wf op meth off a))]

/-- which text of the kernels: "guard+or" (default, the current source), "guard+add", "noguard+or", "noguard+add" -/
def variantOfJson (j : Json) : Variant :=
  match fieldD j "variant" (Json.str "") with
  | Json.str "guard+add" => { guard := true, op := .add }
  | Json.str "noguard+or" => { guard := false, op := .or }
  | Json.str "noguard+add" => { guard := false, op := .add }
  | _ => { guard := true, op := .or }

/-- the whole `interpolated_disparity` of the model, the map between the two passes, the situation
    (`trigger`) of every pixel -/
def run (j : Json) : Except String Json := do
  let meth ← methodOfJson j
  let off ← field j "offset" >>= natOfJson
  let a ← dmapOfJson j "disp" "flag"
  let v := variantOfJson j
  let mid := materialise (firstPass v meth a)
  -- "direct": the function the theorems are about, evaluated as it stands.  "materialised": the first
  -- pass is tabulated once (same rows/cols, same cells inside the image) before the second pass runs;
  -- used for large maps, and compared with "direct" on the small ones by the harness.
  let via := match fieldD j "via" (Json.str "auto") with
    | Json.str "direct" => true
    | Json.str "materialised" => false
    | _ => a.rows * a.cols ≤ 120
  let out := if via then interpolate v meth off a else
    match meth with
    | .mccnn => maskBorder off (mismMc v mid)
    | .sgm => occlSgm v mid
  let trig := tab a fun r c => Json.str (triggerAt meth a mid r c)
  let kinds := tab a fun r c => Json.str (match kindOf meth a r c with
    | .none => "" | .occl => "occl" | .mism => "mism" | .mismAsOccl => "mism_as_occl")
  -- sgm: pixels whose second-lowest |d| is tied between +q and −q (the sign is fixed by the sort's stability only)
  let ties := tab a fun r c =>
    match meth, kindOf meth a r c, out.disp r c with
    | .sgm, .occl, .num q | .sgm, .mismAsOccl, .num q =>
      let src := nums (sourcesSgm mid r c)
      Json.bool (q != 0 && src.contains q && src.contains (-q))
    | _, _, _ => Json.bool false
  return mkObj (dmapToJson out ++
    [("sign_tie", gridToJson id ties), ("mid_disp", gridToJson valToJson (tab mid mid.disp)), ("mid_flag", gridToJson natToJson (tab mid mid.flag)),
     ("trigger", gridToJson id trig), ("kind", gridToJson id kinds), ("wf", wfJson v.op meth off a)])

/-- one numba kernel of the model on its own -/
def kernel (j : Json) : Except String Json := do
  let k ← field j "kernel" >>= strOfJson
  let a ← dmapOfJson j "disp" "flag"
  let v := variantOfJson j
  match k with
  | "occlusion_mc_cnn" => return mkObj (dmapToJson (occlMc v a))
  | "mismatch_mc_cnn" => return mkObj (dmapToJson (mismMc v a))
  | "mismatch_sgm" => return mkObj (dmapToJson (mismSgm v a))
  | "occlusion_sgm" => return mkObj (dmapToJson (occlSgm v a))
  | "find_valid_neighbors" =>
    return mkObj [("neighbors", Json.arr ((tab a fun r c => listToJson valToJson (findValidNeighbors a r c)).map
      (fun row => Json.arr row.toArray)).toArray)]
  | _ => throw s!"unknown kernel {k}"

/-- the specification evaluated on (input, output): failing clauses with their pixel and trigger,
    and how often each clause applied -/
def specOp (j : Json) : Except String Json := do
  let meth ← methodOfJson j
  let off ← field j "offset" >>= natOfJson
  let a ← dmapOfJson j "disp" "flag"
  let b ← dmapOfJson j "out_disp" "out_flag"
  let v := variantOfJson j
  let mid := materialise (firstPass v meth a)
  let mut fails : Array Json := #[]
  let mut hits : List (String × Nat) := []
  for r in List.range a.rows do
    for c in List.range a.cols do
      for cl in clausesAt meth off a b r c do
        if cl.applies then
          hits := match hits.find? (fun h => h.1 == cl.name) with
            | some _ => hits.map (fun h => if h.1 == cl.name then (h.1, h.2 + 1) else h)
            | none => hits ++ [(cl.name, 1)]
          if !cl.holds then
            fails := fails.push (mkObj [("clause", Json.str cl.name), ("r", natToJson r), ("c", natToJson c),
              ("trigger", Json.str (triggerAt meth a mid r c)),
              ("sources", listToJson ratToJson (sourcesOf meth a b r c)),
              ("in", Json.arr #[valToJson (a.disp r c), natToJson (a.flag r c)]),
              ("out", Json.arr #[valToJson (b.disp r c), natToJson (b.flag r c)])])
  let shapeOK := b.rows == a.rows && b.cols == a.cols
  return mkObj [("ok", Json.bool (spec meth off a b)), ("shape_ok", Json.bool shapeOK),
    ("failures", Json.arr fails), ("hits", mkObj (hits.map fun h => (h.1, natToJson h.2))),
    ("wf", wfJson v.op meth off a)]

def constants : Json :=
  mkObj [("PANDORA_MSK_PIXEL_INVALID", natToJson Flags.pixelInvalid),
         ("PANDORA_MSK_PIXEL_LEFT_NODATA_OR_BORDER", natToJson Flags.leftNodataOrBorder),
         ("PANDORA_MSK_PIXEL_FILLED_OCCLUSION", natToJson Flags.filledOcclusion),
         ("PANDORA_MSK_PIXEL_FILLED_MISMATCH", natToJson Flags.filledMismatch),
         ("PANDORA_MSK_PIXEL_OCCLUSION", natToJson Flags.occlusion),
         ("PANDORA_MSK_PIXEL_MISMATCH", natToJson Flags.mismatch),
         ("dirs16_doubled", listToJson (fun d : Int × Int => Json.arr #[intToJson d.1, intToJson d.2]) dirs16),
         ("dirs8", listToJson (fun d : Int × Int => Json.arr #[intToJson d.1, intToJson d.2]) dirs8)]

def handle (op : String) (j : Json) : Except String Json :=
  match op with
  | "C14.run" => run j
  | "C14.kernel" => kernel j
  | "C14.spec" => specOp j
  | "C14.constants" => pure constants
  | _ => throw s!"unknown op {op}"

end Pandora.Driver.C14
