/- Line-protocol handlers for C05 (configuration checking): model and specification evaluation. -/
import PandoraModel.Driver.ConfigJson

namespace Pandora.Driver.C05
open Lean (Json)
open Pandora Pandora.Config Pandora.ConfigSpec Pandora.Driver.ConfigJson

def oracleOf (j : Json) : Except String Oracle :=
  match j.getObjVal? "files" with
  | .ok f => do return fileOracle (← filesOfJson f)
  | .error _ => .ok noOracle

/-- `Schema.accepts` on a table of values (translator / json_checker cross-check) -/
def accepts (j : Json) : Except String Json := do
  let s ← field j "schema" >>= schemaOfJson
  let vs ← field j "values" >>= listOfJson jvalOfJson
  let o ← oracleOf j
  return Json.arr (vs.map (fun v => Json.bool (Schema.accepts o s v))).toArray

/-- `update_conf(default, user)` -/
def updateConfOp (j : Json) : Except String Json := do
  let d ← field j "default" >>= dictOfJson
  let u ← field j "user" >>= dictOfJson
  let fl ← flagsOfJson (fieldD j "flags" (mkObj []))
  return resToJson (fun r => jvalToJson (.obj r)) (updateConf fl.strictMerge d u)

/-- what the documentation says of each key of a step configuration given directly to the class
    (no `update_conf` rewrite happens at that level); a multiscale step refuses disparity grids -/
def docOfStep (kindName : String) (cfg : Dict) (grids : Bool) : Json :=
  match docTable.find? (fun c => c.kind == kindName) with
  | none => mkObj [("class", Json.null)]
  | some anyClass =>
    match Dict.lookup cfg anyClass.methodKey with
    | some (.str m) =>
      match docClass? kindName m with
      | none => mkObj [("class", Json.null)]
      | some c =>
        mkObj [("class", Json.str m),
               ("params", Json.arr (cfg.map (fun kv =>
                  Json.arr #[Json.str kv.1,
                    if kv.1 = c.methodKey then Json.str "accept"
                    else match c.param? kv.1 with
                      | none => Json.str "reject"
                      | some p => domToJson (p.dom.dom kv.2)])).toArray),
               ("verdict", domToJson (Dom.and (paramsVerdict c cfg)
                  (if kindName == "multiscale" && grids then Dom.reject else Dom.accept)))]
    | _ => mkObj [("class", Json.null)]

/-- `Abstract<Kind>(**cfg)` on the model, the documentation's view of the same step, and the
    specification of the returned dictionary -/
def constructOp (j : Json) : Except String Json := do
  let kd ← field j "kind" >>= kindOfJson
  let cfg ← field j "cfg" >>= dictOfJson
  let l ← imgInfoOfJson (fieldD j "left" (mkObj [("bands", Json.arr #[Json.null])]))
  let r ← imgInfoOfJson (fieldD j "right" (mkObj [("bands", Json.arr #[Json.null])]))
  let o ← oracleOf j
  let res := construct o kd l r cfg
  return mkObj [("res", resToJson (fun d => jvalToJson (.obj d)) res), ("doc", docOfStep kd.kind cfg (l.dispSource.isStr || r.dispSource.isStr))]

/-- the specification evaluated on a returned step dictionary -/
def specStep (j : Json) : Except String Json := do
  let kindName ← field j "kind" >>= strOfJson
  let user ← field j "user" >>= dictOfJson
  let result ← field j "result" >>= dictOfJson
  let kept := userKeysKept user result
  let cfg := user
  let defaults :=
    match docTable.find? (fun c => c.kind == kindName) with
    | none => true
    | some anyClass =>
      match Dict.lookup cfg anyClass.methodKey with
      | some (.str m) =>
        match docClass? kindName m with
        | some c => defaultsAdded c user result
        | none => true
      | _ => true
  return mkObj [("user_keys_kept", Json.bool kept), ("defaults_added", Json.bool defaults)]

def pipelineOp (j : Json) : Except String Json := do
  let reg ← field j "registry" >>= registryOfJson
  let user ← field j "user" >>= dictOfJson
  let l ← field j "left" >>= imgInfoOfJson
  let r ← field j "right" >>= imgInfoOfJson
  let m ← cstateOfJson (fieldD j "state" (mkObj []))
  let o ← oracleOf j
  let fl ← flagsOfJson (fieldD j "flags" (mkObj []))
  let res := checkPipelineSection o fl reg user l r m
  let verdict :=
    match Dict.lookup user "pipeline" with
    | none => Dom.accept
    | some (.obj p) => pipelineVerdict l r p
    | some _ => Dom.reject
  return mkObj [
    ("res", resToJson (fun (x : Dict × CState) =>
        mkObj [("cfg", jvalToJson (.obj x.1)), ("state", cstateToJson x.2)]) res),
    ("verdict", domToJson verdict)]

/-- `resultOk` on an implementation output -/
def specPipeline (j : Json) : Except String Json := do
  let user ← field j "user" >>= dictOfJson        -- the user's pipeline dictionary
  let result ← field j "result" >>= dictOfJson    -- the returned pipeline dictionary
  let perStep := user.map (fun kv =>
    match kv.2, Dict.lookup result kv.1 with
    | .obj ucfg, some (.obj rcfg) =>
      Json.arr #[Json.str kv.1, Json.bool (userKeysKept ucfg rcfg)]
    | _, _ => Json.arr #[Json.str kv.1, Json.bool false])
  return mkObj [("result_ok", Json.bool (resultOk user result)),
                ("same_steps", Json.bool (Dict.keys result == Dict.keys user)),
                ("kept", Json.arr perStep.toArray)]

def checkConfOp (j : Json) : Except String Json := do
  let reg ← field j "registry" >>= registryOfJson
  let sch ← field j "input_schemas" >>= inputSchemasOfJson
  let files ← field j "files" >>= filesOfJson
  let user ← field j "user" >>= dictOfJson
  let m ← cstateOfJson (fieldD j "state" (mkObj []))
  let fl ← flagsOfJson (fieldD j "flags" (mkObj []))
  let res := checkConf files sch fl reg user m
  return mkObj [
    ("res", resToJson (fun (x : Dict × CState) =>
        mkObj [("cfg", jvalToJson (.obj x.1)), ("state", cstateToJson x.2)]) res)]

/-- the documented table itself (for the evidence and the translator cross-check of the defaults) -/
def docTableOp : Json :=
  Json.arr (docTable.map (fun c =>
    mkObj [("kind", Json.str c.kind), ("methods", listToJson Json.str c.methods),
           ("params", Json.arr (c.params.map (fun p =>
              mkObj [("name", Json.str p.name),
                     ("default", match p.default with
                        | .value v => mkObj [("value", jvalToJson v)]
                        | .optional => Json.str "optional"
                        | .unsettled => Json.str "unsettled")])).toArray)])).toArray

/-- documented domain of one parameter on a table of values -/
def docDom (j : Json) : Except String Json := do
  let kindName ← field j "kind" >>= strOfJson
  let method ← field j "method" >>= strOfJson
  let param ← field j "param" >>= strOfJson
  let vs ← field j "values" >>= listOfJson jvalOfJson
  match docClass? kindName method with
  | none => throw s!"no documented class {kindName}/{method}"
  | some c =>
    match c.param? param with
    | none => throw s!"no documented parameter {param}"
    | some p => return Json.arr (vs.map (fun v => domToJson (p.dom.dom (rewriteLeaf v)))).toArray

def handle (op : String) (j : Json) : Except String Json :=
  match op with
  | "C05.accepts" => accepts j
  | "C05.update_conf" => updateConfOp j
  | "C05.construct" => constructOp j
  | "C05.spec_step" => specStep j
  | "C05.pipeline" => pipelineOp j
  | "C05.spec_pipeline" => specPipeline j
  | "C05.check_conf" => checkConfOp j
  | "C05.doc_table" => .ok docTableOp
  | "C05.doc_dom" => docDom j
  | _ => throw s!"unknown op {op}"

end Pandora.Driver.C05
