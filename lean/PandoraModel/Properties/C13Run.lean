/-
  C13 — ONE composed run of the step models, on their own arrays, for the chain
      matching cost → winner-takes-all → (refinement) → (median filter) → cross-checking
  and its identification with the composed function of `C13Pipeline.lean`.

    matching cost      `MC.costVolume`                    (C02: `compute_cost_volume` + `cv_masked`)
    validity flags     `C04C02.composedMask`              (C04: `criteria.py`, fed with the NaN pattern of that volume)
    winner-takes-all   `Wta.toDisp` on `wtaOfMc`          (C03, block loops included)
    refinement         `Refinement.loopRefinement`        (C06; may raise: the run then has no result)
    median filter      `Filter.medianFilterDisparity`     (C10, block loops included)
    right map          the same chain on the swapped pair, interval mirrored (`swapInput`)
    cross-checking     `CrossCheck.check`                 (C07)

  `afterFilter K x` is the left (disparity, flag) map, `fullRun K K' V CP x` the flag word and confidence cell
  of every pixel after cross-checking.  `afterFilter_is_filterStage` / `fullRun_is_ccStage` say that these
  arrays, seen as partial images, ARE the composed functions `filterStage` / `ccStage` of `C13Pipeline.lean`
  (without aggregation, with the criteria flags `pipeFlags`) applied to the partial image of the scene; hence
  **`run_crop_eq_whole`**: for the models' arrays, the run on a crop equals the run on the whole image on every
  pixel whose clipped cone lies in the crop.

  The wiring itself (which array is handed to which step in `pandora/state_machine.py`) is C08's subject; here
  the run is the composition of the step models in the order of the chain.
-/
import PandoraModel.Model.PipelineRun
import PandoraModel.Properties.C13Flags
import PandoraModel.Properties.C13PipelineCost
import PandoraModel.Properties.C13Wiring
import PandoraModel.Generated.Blocks

namespace Pandora.C13
open Pandora Pandora.Locality Pandora.MC

/-! ### small tools: tabulated grids, paired arrays -/

theorem tabulate_getElem? {β : Type} (rows cols : Nat) (g : Nat → Nat → β) (r : Nat) :
    (Blocks.tabulate rows cols g)[r]? = if r < rows then some ((List.range cols).map (g r)) else none := by
  unfold Blocks.tabulate
  by_cases h : r < rows
  · simp [h]
  · simp [h]

theorem range_map_getElem? {β : Type} (cols : Nat) (f : Nat → β) (c : Nat) :
    ((List.range cols).map f)[c]? = if c < cols then some (f c) else none := by
  by_cases h : c < cols
  · simp [h]
  · simp [h]

theorem gridImg_tabulate {β : Type} (rows cols : Nat) (g : Nat → Nat → β) :
    gridImg (Blocks.tabulate rows cols g) = toImg rows cols g := by
  funext p
  unfold gridImg toImg
  by_cases hp : 0 ≤ p.1 ∧ 0 ≤ p.2
  · rw [if_pos hp, tabulate_getElem?]
    by_cases hr : p.1.toNat < rows
    · rw [if_pos hr]
      simp only [Option.bind_some, range_map_getElem?]
      by_cases hc : p.2.toNat < cols
      · rw [if_pos hc, if_pos (by omega)]
      · rw [if_neg hc, if_neg (by omega)]
    · rw [if_neg hr, if_neg (by omega)]
      rfl
  · rw [if_neg hp, if_neg (by omega)]

theorem tabulate_getD {β : Type} (rows cols : Nat) (g : Nat → Nat → β) (d : β) (r c : Nat) (hr : r < rows)
    (hc : c < cols) : ((Blocks.tabulate rows cols g).getD r []).getD c d = g r c := by
  simp [List.getD_eq_getElem?_getD, tabulate_getElem?, hr, hc]

theorem pairStep_toImg {α β γ : Type} (f : Img α → Img β) (g : Img α → Img γ) (a : Img α) (ny nx : Nat)
    (u : Nat → Nat → β) (v : Nat → Nat → γ) (hf : f a = toImg ny nx u) (hg : g a = toImg ny nx v) :
    pairStep f g a = toImg ny nx (zipArr u v) := by
  funext p
  unfold pairStep
  rw [hf, hg]
  unfold toImg zipArr
  by_cases hp : 0 ≤ p.1 ∧ p.1 < ny ∧ 0 ≤ p.2 ∧ p.2 < nx
  · simp only [if_pos hp]
  · simp only [if_neg hp]

theorem map_toImg {β γ : Type} (ny nx : Nat) (u : Nat → Nat → β) (g : β → γ) (p : Px) :
    (toImg ny nx u p).map g = toImg ny nx (fun r c => g (u r c)) p := by
  unfold toImg
  by_cases hp : 0 ≤ p.1 ∧ p.1 < ny ∧ 0 ≤ p.2 ∧ p.2 < nx
  · simp only [if_pos hp, Option.map_some]
  · simp only [if_neg hp, Option.map_none]

theorem refinePixel_pm (P : Refinement.Params) (costs : List Val) (d : Val) (flag : Nat) (a b a' b' : Rat) :
    Refinement.refinePixel P ⟨costs, d, flag, a, b⟩ = Refinement.refinePixel P ⟨costs, d, flag, a', b'⟩ := rfl

/-! ### the run -/

/-- the configuration of the composed function of `C13Pipeline.lean` for this run -/
def cfgOf (K : RunCfg) (x : MC.Input) : PipeCfg where
  mc := paramsOf x
  gmin := gminOf x
  gmax := gmaxOf x
  n := nOf x
  ev := K.ev
  isMax := K.isMax
  disps := K.disps
  invalid := K.invalid
  refine := K.refine
  invalidMask := K.invalidMask
  fs := K.fs

/-! ### each stage of the composed function is the corresponding array of the run -/

/-- the hypotheses under which the matching-cost model is its specification (C02) -/
structure McOK (x : MC.Input) : Prop where
  wf : wfShape x = true
  zncc : x.meas = .zncc → ∀ k : Int, noTinyVariance x k = true

/-- the cost rows of the matching-cost stage (before any aggregation) are those of the model's cost volume -/
theorem mcStage_run (K : RunCfg) (x : MC.Input) (hx : McOK x) :
    mcStage (cfgOf K x) (toImg x.L.rows x.L.cols (mcScene x)) = toImg x.L.rows x.L.cols (costRow K x) := by
  funext p
  unfold mcStage
  simp only [cfgOf]
  rw [← costVolume_is_mcRowStep x hx.wf hx.zncc]
  unfold toImg
  by_cases hp : 0 ≤ p.1 ∧ p.1 < x.L.rows ∧ 0 ≤ p.2 ∧ p.2 < x.L.cols
  · simp only [if_pos hp, Option.map_some, costRow, wtaOfMc, List.map_map]
    rfl
  · simp only [if_neg hp, Option.map_none]

theorem costStage_run (K : RunCfg) (x : MC.Input) (hx : McOK x) :
    costStage (cfgOf K x) noAgg (toImg x.L.rows x.L.cols (mcScene x)) = toImg x.L.rows x.L.cols (costRow K x) := by
  funext p
  unfold costStage noAgg
  rw [pairStep_toImg _ _ _ _ _ (mcScene x) (costRow K x) rfl (mcStage_run K x hx), map_toImg]
  rfl

/-- `R` is what the cost stage (matching cost followed by the aggregation `agg`) computes for the pair `x` -/
def CostRows (K : RunCfg) (x : MC.Input) (agg : AggStep) (R : Nat → Nat → List Val) : Prop :=
  costStage (cfgOf K x) agg (toImg x.L.rows x.L.cols (mcScene x)) = toImg x.L.rows x.L.cols R

theorem wtaStage_runR (K : RunCfg) (x : MC.Input) {agg : AggStep} {R : Nat → Nat → List Val} (hR : CostRows K x agg R)
    (h0 : K.sW.beginY = 0 ∧ K.sW.beginX = 0) :
    wtaStage (cfgOf K x) agg (toImg x.L.rows x.L.cols (mcScene x)) = toImg x.L.rows x.L.cols (wtaMapR K x R) := by
  unfold wtaStage
  rw [hR]
  exact (toDisp_is_wtaStep K.sW h0 (wtaIn K x R)).symm

theorem flags_run (K : RunCfg) (x : MC.Input) (hx : McOK x) :
    pipeFlags (cfgOf K x) (toImg x.L.rows x.L.cols (mcScene x)) = toImg x.L.rows x.L.cols (C04C02.composedMask x) :=
  (composedMask_is_flagStep x (C02.shape_of_wf x hx.wf) (C02.gridOK_of_wf x hx.wf)).symm

/-- what the refinement stage reads: (cost row, disparity), flag — as one array -/
theorem refineIn_runR (K : RunCfg) (x : MC.Input) (hx : McOK x) {agg : AggStep} {R : Nat → Nat → List Val}
    (hR : CostRows K x agg R) (h0 : K.sW.beginY = 0 ∧ K.sW.beginX = 0) :
    pairStep (pairStep (costStage (cfgOf K x) agg) (wtaStage (cfgOf K x) agg)) (pipeFlags (cfgOf K x))
        (toImg x.L.rows x.L.cols (mcScene x))
      = toImg x.L.rows x.L.cols (zipArr (zipArr R (wtaMapR K x R)) (C04C02.composedMask x)) :=
  pairStep_toImg _ _ _ _ _ _ _
    (pairStep_toImg _ _ _ _ _ _ _ hR (wtaStage_runR K x hR h0)) (flags_run K x hx)

theorem mem_tabulate {β : Type} (rows cols : Nat) (g : Nat → Nat → β) (r c : Nat) (hr : r < rows) (hc : c < cols) :
    ∃ row ∈ Blocks.tabulate rows cols g, g r c ∈ row := by
  refine ⟨(List.range cols).map (g r), ?_, ?_⟩
  · unfold Blocks.tabulate
    exact List.mem_map.2 ⟨r, List.mem_range.2 hr, rfl⟩
  · exact List.mem_map.2 ⟨c, List.mem_range.2 hc, rfl⟩

/-- **The (disparity, flag) maps after the optional refinement are the stage `refineStage`.** -/
theorem afterRefineR_is_refineStage (K : RunCfg) (x : MC.Input) (hx : McOK x) {agg : AggStep}
    {R : Nat → Nat → List Val} (hR : CostRows K x agg R) (h0 : K.sW.beginY = 0 ∧ K.sW.beginX = 0)
    (m : Maps) (hm : afterRefineR K x R = some m) :
    refineStage (cfgOf K x) agg (pipeFlags (cfgOf K x)) K.doRefine (toImg x.L.rows x.L.cols (mcScene x))
      = toImg x.L.rows x.L.cols (zipArr m.disp m.flag) := by
  funext p
  unfold refineStage
  rw [refineIn_runR K x hx hR h0]
  by_cases hp : InImage x.L.rows x.L.cols p
  · obtain ⟨r, c, rfl, hr, hc⟩ : ∃ r c : Nat, p = ((r : Int), (c : Int)) ∧ r < x.L.rows ∧ c < x.L.cols := by
      unfold InImage at hp
      refine ⟨p.1.toNat, p.2.toNat, ?_, by omega, by omega⟩
      ext <;> simp <;> omega
    rw [toImg_some _ _ _ r c hr hc, toImg_some _ _ _ r c hr hc]
    simp only [Option.bind_some, zipArr]
    unfold afterRefineR at hm
    cases hdo : K.doRefine with
    | false =>
      rw [hdo] at hm
      simp only [Bool.false_eq_true, if_false, Option.some.injEq] at hm ⊢
      subst hm
      rfl
    | true =>
      rw [hdo] at hm
      simp only [if_true] at hm ⊢
      cases hl : Refinement.loopRefinement K.refine (refineGridR K x R) with
      | err e => rw [hl] at hm; cases hm
      | ok o =>
        rw [hl] at hm
        simp only [Option.some.injEq] at hm
        subst hm
        have hstep := congrFun (loopRefinement_is_refineStep K.refine (refineGridR K x R) o hl) ((r : Int), (c : Int))
        unfold refineGridR at hstep
        rw [gridImg_tabulate] at hstep
        unfold refineStep at hstep
        rw [toImg_some _ _ _ r c hr hc] at hstep
        simp only [Option.bind_some] at hstep
        -- the loop body returned on this pixel
        obtain ⟨row, hrow, hcell⟩ := mem_tabulate x.L.rows x.L.cols (fun r c =>
          (⟨R r c, wtaMapR K x R r c, C04C02.composedMask x r c,
            ((x.dminG (r : Int) (c : Int) : Int) : Rat), ((x.dmaxG (r : Int) (c : Int) : Int) : Rat)⟩ : Refinement.PixIn))
          r c hr hc
        obtain ⟨y, hy⟩ := (loopRefinement_ok_iff K.refine (refineGridR K x R)).1 ⟨o, hl⟩ row hrow _ hcell
        rw [hy] at hstep
        simp only [Res.toOption] at hstep
        simp only [hstep, mkPixIn, cfgOf]
        rw [refinePixel_pm K.refine _ _ _ 0 0 ((x.dminG (r : Int) (c : Int) : Int) : Rat)
          ((x.dmaxG (r : Int) (c : Int) : Int) : Rat), hy]
        rfl
  · rw [toImg_none _ _ _ p hp, toImg_none _ _ _ p hp]
    rfl

/-- what the parameters of the median filter must satisfy (hypotheses of C10's identification) -/
structure MedianOK (K : RunCfg) (x : MC.Input) : Prop where
  beginY : K.sM.beginY = K.fs / 2
  beginX : K.sM.beginX = K.fs / 2
  odd : K.fs % 2 = 1
  rows : K.fs ≤ x.L.rows
  cols : K.fs ≤ x.L.cols

/-- **The (disparity, flag) maps after the optional median filter are the stage `filterStage`.** -/
theorem afterFilterR_is_filterStage (K : RunCfg) (x : MC.Input) (hx : McOK x) {agg : AggStep}
    {R : Nat → Nat → List Val} (hR : CostRows K x agg R) (h0 : K.sW.beginY = 0 ∧ K.sW.beginX = 0)
    (hmed : K.doMedian = true → MedianOK K x) (m : Maps) (hm : afterFilterR K x R = some m) :
    filterStage (cfgOf K x) agg (pipeFlags (cfgOf K x)) K.doRefine K.doMedian (toImg x.L.rows x.L.cols (mcScene x))
      = toImg x.L.rows x.L.cols (zipArr m.disp m.flag) := by
  unfold afterFilterR at hm
  cases hr : afterRefineR K x R with
  | none => rw [hr] at hm; cases hm
  | some m1 =>
    rw [hr] at hm
    simp only [Option.map_some, Option.some.injEq] at hm
    have h1 := afterRefineR_is_refineStage K x hx hR h0 m1 hr
    unfold filterStage
    cases hdo : K.doMedian with
    | false =>
      rw [hdo] at hm
      simp only [Bool.false_eq_true, if_false] at hm ⊢
      subst hm
      exact h1
    | true =>
      rw [hdo] at hm
      simp only [if_true] at hm ⊢
      subst hm
      have ok := hmed hdo
      unfold medianStage
      apply pairStep_toImg
      · show medianStep (cfgOf K x).invalidMask (cfgOf K x).fs (refineStage _ _ _ _ _) = _
        rw [h1]
        exact (medianFilterDisparity_is_medianStep K.sM K.invalidMask K.fs x.L.rows x.L.cols m1.flag m1.disp
          ok.beginY ok.beginX ok.odd ok.rows ok.cols).symm
      · funext p
        rw [h1, map_toImg]
        rfl

theorem afterFilter_is_filterStage (K : RunCfg) (x : MC.Input) (hx : McOK x) (h0 : K.sW.beginY = 0 ∧ K.sW.beginX = 0)
    (hmed : K.doMedian = true → MedianOK K x) (m : Maps) (hm : afterFilter K x = some m) :
    filterStage (cfgOf K x) noAgg (pipeFlags (cfgOf K x)) K.doRefine K.doMedian (toImg x.L.rows x.L.cols (mcScene x))
      = toImg x.L.rows x.L.cols (zipArr m.disp m.flag) :=
  afterFilterR_is_filterStage K x hx (costStage_run K x hx) h0 hmed m hm

/-! ### the right map, cross-checking, the whole run -/

theorem mcScene_swapInput (x : MC.Input) (r c : Nat) : mcScene (swapInput x) r c = swapCell (mcScene x r c) := rfl

theorem swap_scene_img (x : MC.Input) (h : Shape x) :
    (fun q => (toImg x.L.rows x.L.cols (mcScene x) q).map swapCell)
      = toImg (swapInput x).L.rows (swapInput x).L.cols (mcScene (swapInput x)) := by
  funext q
  rw [map_toImg]
  show _ = toImg x.R.rows x.R.cols _ q
  rw [h.rows_eq, h.cols_eq]
  rfl

/-- **The right disparity map of the run (the same chain on the swapped pair) is `rightDisp`.** -/
theorem afterFilterR_swap_is_rightDisp (K' : RunCfg) (x : MC.Input) (h : Shape x) (hx' : McOK (swapInput x))
    {agg' : AggStep} {R' : Nat → Nat → List Val} (hR' : CostRows K' (swapInput x) agg' R')
    (h0' : K'.sW.beginY = 0 ∧ K'.sW.beginX = 0) (hmed' : K'.doMedian = true → MedianOK K' (swapInput x))
    (B : Maps) (hB : afterFilterR K' (swapInput x) R' = some B) :
    rightDisp (cfgOf K' (swapInput x)) agg' (pipeFlags (cfgOf K' (swapInput x))) K'.doRefine K'.doMedian
        (toImg x.L.rows x.L.cols (mcScene x))
      = toImg x.L.rows x.L.cols B.disp := by
  funext p
  unfold rightDisp
  rw [swap_scene_img x h, afterFilterR_is_filterStage K' (swapInput x) hx' hR' h0' hmed' B hB, map_toImg]
  show toImg x.R.rows x.R.cols _ p = _
  rw [h.rows_eq, h.cols_eq]
  rfl

theorem leftDataset_rect (rows cols : Nat) (A : Maps) (Bd : Nat → Nat → Val) :
    RectShapes rows cols (leftDataset rows cols A) { disp := Blocks.tabulate rows cols Bd, mask := [] } := by
  refine ⟨by simp [leftDataset, Blocks.tabulate], ?_⟩
  intro r hr
  refine ⟨(List.range cols).map (A.disp r), (List.range cols).map (Bd r), (List.range cols).map (A.flag r), ?_, ?_, ?_,
    by simp, by simp, by simp⟩
  · simp only [leftDataset, tabulate_getElem?, if_pos hr]
  · simp only [tabulate_getElem?, if_pos hr]
  · simp only [leftDataset, tabulate_getElem?, if_pos hr]

theorem ccScene_leftDataset (rows cols : Nat) (A : Maps) (Bd : Nat → Nat → Val) (r c : Nat) (hr : r < rows)
    (hc : c < cols) :
    ccScene (leftDataset rows cols A) { disp := Blocks.tabulate rows cols Bd, mask := [] } r c
      = (A.disp r c, A.flag r c, Bd r c) := by
  unfold ccScene leftDataset
  simp only [tabulate_getD _ _ _ _ r c hr hc]

/-- the hypothesis of C07's identification: every valid pixel of the left map has its rounded disparity in the
    interval cross-checking searches (what the disparity step guarantees — C09) -/
def LeftInInterval (CP : CrossCheck.Params) (rows cols : Nat) (A : Maps) : Prop :=
  ∀ r c, r < rows → c < cols → DispInInterval CP (A.disp r c) (A.flag r c)

theorem leftInInterval_dataset (CP : CrossCheck.Params) (rows cols : Nat) (A : Maps) (h : LeftInInterval CP rows cols A) :
    InInterval CP rows cols (leftDataset rows cols A) := by
  intro r c hr hc
  have := h r c hr hc
  unfold leftDataset
  simp only [tabulate_getD _ _ _ _ r c hr hc]
  exact this

/-- everything assumed of one run: the two matching-cost inputs are those of C02's theorem, the block splits
    start where C03 / C10 need them, the median filter is odd-sized and fits -/
structure RunOK (K K' : RunCfg) (x : MC.Input) : Prop where
  mc : McOK x
  mcR : McOK (swapInput x)
  wta : K.sW.beginY = 0 ∧ K.sW.beginX = 0
  wtaR : K'.sW.beginY = 0 ∧ K'.sW.beginX = 0
  med : K.doMedian = true → MedianOK K x
  medR : K'.doMedian = true → MedianOK K' (swapInput x)

/-- **The whole run of the models is the composed function `ccStage`** — for any aggregation steps `agg`, `agg'`
    whose cost stages compute the cost rows `R`, `R'` the run is given. -/
theorem fullRunR_is_ccStage (K K' : RunCfg) (V : CrossCheck.Variant) (CP : CrossCheck.Params) (x : MC.Input)
    (ok : RunOK K K' x) {agg agg' : AggStep} {R R' : Nat → Nat → List Val}
    (hR : CostRows K x agg R) (hR' : CostRows K' (swapInput x) agg' R')
    (out : Nat → Nat → CrossCheck.PixOut) (hout : fullRunR K K' V CP x R R' = some out)
    (hin : ∀ A, afterFilterR K x R = some A → LeftInInterval CP x.L.rows x.L.cols A) :
    toImg x.L.rows x.L.cols out
      = ccStage (cfgOf K x) agg (pipeFlags (cfgOf K x)) K.doRefine K.doMedian
          (rightDisp (cfgOf K' (swapInput x)) agg' (pipeFlags (cfgOf K' (swapInput x))) K'.doRefine K'.doMedian)
          V CP (toImg x.L.rows x.L.cols (mcScene x)) := by
  have hsh := C02.shape_of_wf x ok.mc.wf
  unfold fullRunR at hout
  cases hA : afterFilterR K x R with
  | none => rw [hA] at hout; cases hout
  | some A =>
    cases hB : afterFilterR K' (swapInput x) R' with
    | none => rw [hA, hB] at hout; cases hout
    | some B =>
      rw [hA, hB] at hout
      simp only [Option.some.injEq] at hout
      subst hout
      have hL := afterFilterR_is_filterStage K x ok.mc hR ok.wta ok.med A hA
      have hRt := afterFilterR_swap_is_rightDisp K' x hsh ok.mcR hR' ok.wtaR ok.medR B hB
      have hcc := check_is_ccStep V CP x.L.rows x.L.cols (leftDataset x.L.rows x.L.cols A)
        { disp := Blocks.tabulate x.L.rows x.L.cols B.disp, mask := [] }
        (leftDataset_rect _ _ A B.disp) (leftInInterval_dataset CP _ _ A (hin A hA))
      rw [hcc]
      unfold ccStage
      congr 1
      funext p
      rw [pairStep_toImg _ _ _ _ _ _ _ hL hRt, map_toImg]
      apply congrFun
      apply toImg_congr
      intro r c hr hc
      rw [ccScene_leftDataset _ _ A B.disp r c hr hc]
      rfl

/-- **The whole run of the models without aggregation is the composed function `ccStage`** (no aggregation, criteria
    flags, right map by the same chain on the swapped pair) **applied to the partial image of the scene**: flag word
    and confidence cell of every pixel, for every image size. -/
theorem fullRun_is_ccStage (K K' : RunCfg) (V : CrossCheck.Variant) (CP : CrossCheck.Params) (x : MC.Input)
    (ok : RunOK K K' x) (out : Nat → Nat → CrossCheck.PixOut) (hout : fullRun K K' V CP x = some out)
    (hin : ∀ A, afterFilter K x = some A → LeftInInterval CP x.L.rows x.L.cols A) :
    toImg x.L.rows x.L.cols out
      = ccStage (cfgOf K x) noAgg (pipeFlags (cfgOf K x)) K.doRefine K.doMedian
          (rightDisp (cfgOf K' (swapInput x)) noAgg (pipeFlags (cfgOf K' (swapInput x))) K'.doRefine K'.doMedian)
          V CP (toImg x.L.rows x.L.cols (mcScene x)) :=
  fullRunR_is_ccStage K K' V CP x ok (costStage_run K x ok.mc) (costStage_run K' (swapInput x) ok.mcR) out hout hin

/-- … and the left (disparity, flag) maps alone (pipelines without cross-checking) -/
theorem leftRun_is_filterStage (K : RunCfg) (x : MC.Input) (hx : McOK x) (h0 : K.sW.beginY = 0 ∧ K.sW.beginX = 0)
    (hmed : K.doMedian = true → MedianOK K x) (m : Maps) (hm : afterFilter K x = some m) :
    toImg x.L.rows x.L.cols (zipArr m.disp m.flag)
      = filterStage (cfgOf K x) noAgg (pipeFlags (cfgOf K x)) K.doRefine K.doMedian
          (toImg x.L.rows x.L.cols (mcScene x)) :=
  (afterFilter_is_filterStage K x hx h0 hmed m hm).symm

/-! ### crop run = whole run, on the arrays of the models -/

/-- `x'` is the crop of the scene of `x` starting at `(r0, c0)`, with the same configuration and the same global
    disparity ranges in both directions (a scalar interval) -/
structure CropRun (x x' : MC.Input) (r0 c0 : Nat) : Prop where
  params : paramsOf x' = paramsOf x
  scene : ∀ r c, r < x'.L.rows → c < x'.L.cols → mcScene x' r c = mcScene x (r + r0) (c + c0)
  fit : r0 + x'.L.rows ≤ x.L.rows ∧ c0 + x'.L.cols ≤ x.L.cols
  gmin : gminOf x' = gminOf x
  gmax : gmaxOf x' = gmaxOf x
  gminR : gminOf (swapInput x') = gminOf (swapInput x)
  gmaxR : gmaxOf (swapInput x') = gmaxOf (swapInput x)

theorem cfgOf_congr (K : RunCfg) {x x' : MC.Input} (hp : paramsOf x' = paramsOf x)
    (h1 : gminOf x' = gminOf x) (h2 : gmaxOf x' = gmaxOf x) : cfgOf K x' = cfgOf K x := by
  have hsp : x'.sp = x.sp := congrArg McParams.sp hp
  unfold gminOf at h1
  unfold gmaxOf at h2
  unfold cfgOf nOf gminOf gmaxOf
  rw [hp, h1, h2, hsp]

theorem paramsOf_swap_congr {x x' : MC.Input} (hp : paramsOf x' = paramsOf x) :
    paramsOf (swapInput x') = paramsOf (swapInput x) := by
  simp only [paramsOf, McParams.mk.injEq] at hp
  obtain ⟨p1, p2, p3, p4, p5, p6, p7, p8, p9⟩ := hp
  simp only [paramsOf, swapInput, McParams.mk.injEq]
  exact ⟨p1, p2, p3, p7, p8, p9, p4, p5, p6⟩

theorem cfgOf_crop (K : RunCfg) {x x' : MC.Input} {r0 c0 : Nat} (hc : CropRun x x' r0 c0) : cfgOf K x' = cfgOf K x := by
  have hsp : x'.sp = x.sp := congrArg McParams.sp hc.params
  have h1 := hc.gmin
  have h2 := hc.gmax
  unfold gminOf at h1
  unfold gmaxOf at h2
  unfold cfgOf nOf gminOf gmaxOf
  rw [hc.params, h1, h2, hsp]

theorem cfgOf_crop_swap (K' : RunCfg) {x x' : MC.Input} {r0 c0 : Nat} (hc : CropRun x x' r0 c0) :
    cfgOf K' (swapInput x') = cfgOf K' (swapInput x) := by
  have hp := hc.params
  simp only [paramsOf, McParams.mk.injEq] at hp
  obtain ⟨p1, p2, p3, p4, p5, p6, p7, p8, p9⟩ := hp
  have hps : paramsOf (swapInput x') = paramsOf (swapInput x) := by
    simp only [paramsOf, swapInput, McParams.mk.injEq]
    exact ⟨p1, p2, p3, p7, p8, p9, p4, p5, p6⟩
  have hsp : (swapInput x').sp = (swapInput x).sp := p3
  have h1 := hc.gminR
  have h2 := hc.gmaxR
  unfold gminOf at h1
  unfold gmaxOf at h2
  unfold cfgOf nOf gminOf gmaxOf
  rw [hps, h1, h2, hsp]

/-- the samples of the run's cost volume lie in its global interval -/
theorem run_samples_le (K : RunCfg) (x : MC.Input) (hx : McOK x) :
    ∀ j : Nat, j < (cfgOf K x).n →
      (cfgOf K x).gmin * ((cfgOf K x).mc.sp : Int) + j ≤ (cfgOf K x).gmax * ((cfgOf K x).mc.sp : Int) := by
  intro j hj
  have hsh := C02.shape_of_wf x hx.wf
  have hg := C02.gridOK_of_wf x hx.wf
  show gridMin x.dminG x.L.rows x.L.cols * (x.sp : Int) + j ≤ gridMax x.dmaxG x.L.rows x.L.cols * (x.sp : Int)
  have hj' : j < nDisp (gridMin x.dminG x.L.rows x.L.cols) (gridMax x.dmaxG x.L.rows x.L.cols) x.sp := hj
  rw [nDisp_eq _ _ _ hsh.sp_pos hg] at hj'
  have hs' : (0 : Int) ≤ (x.sp : Int) := Int.natCast_nonneg _
  have hnn : 0 ≤ (gridMax x.dmaxG x.L.rows x.L.cols - gridMin x.dminG x.L.rows x.L.cols) * (x.sp : Int) :=
    Int.mul_nonneg (by omega) hs'
  have : (j : Int) ≤ (gridMax x.dmaxG x.L.rows x.L.cols - gridMin x.dminG x.L.rows x.L.cols) * (x.sp : Int) := by
    omega
  rw [Int.sub_mul] at this
  omega

/-- the cone of the whole run: the left chain (matching cost ⊔ flags, + median), joined with the right chain,
    + the interval of cross-checking -/
def runCone (K K' : RunCfg) (CP : CrossCheck.Params) (x : MC.Input) : Cone :=
  pipeCone (cfgOf K x) Cone.zero (mcCone (cfgOf K x).mc (cfgOf K x).gmin (cfgOf K x).gmax)
    (filterCone (cfgOf K' (swapInput x)) Cone.zero
      (mcCone (cfgOf K' (swapInput x)).mc (cfgOf K' (swapInput x)).gmin (cfgOf K' (swapInput x)).gmax) K'.doMedian)
    K.doMedian CP

/-- **Crop run = whole run, for the arrays of the models.**  `out` is the result (flag word and confidence cell of
    every pixel) of the composed run of the step models — matching cost, criteria flags, winner-takes-all,
    refinement, median filter, the same chain on the swapped pair, cross-checking — on the whole pair `x`, `out'`
    the result of the same run on the crop `x'` starting at `(r0, c0)`.  Every pixel `(r, c)` of the crop whose cone
    `runCone` — clipped to the image — lies in the crop gets the same flag word and confidence cell in both runs,
    wherever the crop starts, whatever the block splits.
    Hypotheses: `RunOK` for both runs (C02's well-formedness, block splits, odd median that fits); both runs return
    (no refinement raised); `LeftInInterval` for both left maps (C07's hypothesis: valid disparities round into the
    interval cross-checking searches). -/
theorem run_crop_eq_whole (K K' : RunCfg) (V : CrossCheck.Variant) (CP : CrossCheck.Params) (x x' : MC.Input)
    (r0 c0 : Nat) (hc : CropRun x x' r0 c0) (ok : RunOK K K' x) (ok' : RunOK K K' x')
    (out out' : Nat → Nat → CrossCheck.PixOut)
    (hout : fullRun K K' V CP x = some out) (hout' : fullRun K K' V CP x' = some out')
    (hin : ∀ A, afterFilter K x = some A → LeftInInterval CP x.L.rows x.L.cols A)
    (hin' : ∀ A, afterFilter K x' = some A → LeftInInterval CP x'.L.rows x'.L.cols A)
    (r c : Nat) (hr : r < x'.L.rows) (hcl : c < x'.L.cols)
    (hcone : ∀ q, inCone (runCone K K' CP x) ((r : Int) + r0, (c : Int) + c0) q →
      InRect r0 c0 x'.L.rows x'.L.cols q ∨ ¬ InImage x.L.rows x.L.cols q) :
    out' r c = out (r + r0) (c + c0) := by
  have h1 := fullRun_is_ccStage K K' V CP x' ok' out' hout' hin'
  have h2 := fullRun_is_ccStage K K' V CP x ok out hout hin
  rw [cfgOf_crop K hc, cfgOf_crop_swap K' hc] at h1
  have hsh := C02.shape_of_wf x ok.mc.wf
  have hshR := C02.shape_of_wf (swapInput x) ok.mcR.wf
  have h3 := pipeline_crop_eq_whole_flags (cfgOf K x) hsh.sp_pos (run_samples_le K x ok.mc)
    noAgg_local noAgg_equivariant K.doRefine K.doMedian
    (rightDisp_local (cfgOf K' (swapInput x)) hshR.sp_pos (run_samples_le K' (swapInput x) ok.mcR) noAgg_local
      (flagStep_local (cfgOf K' (swapInput x)).mc hshR.sp_pos _ _ _ (run_samples_le K' (swapInput x) ok.mcR))
      K'.doRefine K'.doMedian)
    (rightDisp_equivariant (cfgOf K' (swapInput x)) noAgg_equivariant
      (flagStep_equivariant (cfgOf K' (swapInput x)).mc _ _ _) K'.doRefine K'.doMedian)
    V CP x.L.rows x.L.cols r0 c0 x'.L.rows x'.L.cols (mcScene x) hc.fit ((r : Int), (c : Int)) hcone
  have h4 : toImg x'.L.rows x'.L.cols (mcScene x') = toImg x'.L.rows x'.L.cols (cropArr r0 c0 (mcScene x)) :=
    toImg_congr _ _ _ _ hc.scene
  have hfit := hc.fit
  rw [← h4] at h3
  have h3' : toImg x'.L.rows x'.L.cols out' ((r : Int), (c : Int))
      = toImg x.L.rows x.L.cols out ((r : Int) + r0, (c : Int) + c0) := by
    rw [h1, h2]; exact h3
  rw [toImg_some _ _ _ r c hr hcl] at h3'
  have e : (((r : Int) + (r0 : Int), (c : Int) + (c0 : Int)) : Px) = (((r + r0 : Nat) : Int), ((c + c0 : Nat) : Int)) := by
    ext <;> simp
  rw [e, toImg_some _ _ _ (r + r0) (c + c0) (by omega) (by omega)] at h3'
  exact Option.some.inj h3'

/-- **Crop run = whole run for a run with aggregation**, from the cones `Rc`, `Rc'` of the two cost stages
    (`C13PipelineCost.lean`): `R`, `R'` (`Rx`, `Rx'`) are the cost rows the cost stages `[matching cost; agg]`,
    `[matching cost; agg']` compute for the pair and the swapped pair (for the crop and its swapped pair). -/
theorem runR_crop_eq_whole (K K' : RunCfg) (V : CrossCheck.Variant) (CP : CrossCheck.Params) (x x' : MC.Input)
    (r0 c0 : Nat) (hc : CropRun x x' r0 c0) (ok : RunOK K K' x) (ok' : RunOK K K' x')
    {agg agg' : AggStep} {Rc Rc' : Cone}
    (hC : Local Rc (costStage (cfgOf K x) agg)) (hAe : Equivariant agg)
    (hC' : Local Rc' (costStage (cfgOf K' (swapInput x)) agg')) (hAe' : Equivariant agg')
    {R R' Rx Rx' : Nat → Nat → List Val}
    (hR : CostRows K x agg R) (hR' : CostRows K' (swapInput x) agg' R')
    (hRx : CostRows K x' agg Rx) (hRx' : CostRows K' (swapInput x') agg' Rx')
    (out out' : Nat → Nat → CrossCheck.PixOut)
    (hout : fullRunR K K' V CP x R R' = some out) (hout' : fullRunR K K' V CP x' Rx Rx' = some out')
    (hin : ∀ A, afterFilterR K x R = some A → LeftInInterval CP x.L.rows x.L.cols A)
    (hin' : ∀ A, afterFilterR K x' Rx = some A → LeftInInterval CP x'.L.rows x'.L.cols A)
    (r c : Nat) (hr : r < x'.L.rows) (hcl : c < x'.L.cols)
    (hcone : ∀ q, inCone (pipeConeOf (cfgOf K x) Rc (mcCone (cfgOf K x).mc (cfgOf K x).gmin (cfgOf K x).gmax)
        (filterConeOf (cfgOf K' (swapInput x)) Rc'
          (mcCone (cfgOf K' (swapInput x)).mc (cfgOf K' (swapInput x)).gmin (cfgOf K' (swapInput x)).gmax) K'.doMedian)
        K.doMedian CP) ((r : Int) + r0, (c : Int) + c0) q →
      InRect r0 c0 x'.L.rows x'.L.cols q ∨ ¬ InImage x.L.rows x.L.cols q) :
    out' r c = out (r + r0) (c + c0) := by
  have h1 := fullRunR_is_ccStage K K' V CP x' ok' hRx hRx' out' hout' hin'
  have h2 := fullRunR_is_ccStage K K' V CP x ok hR hR' out hout hin
  rw [cfgOf_crop K hc, cfgOf_crop_swap K' hc] at h1
  have hsh := C02.shape_of_wf x ok.mc.wf
  have hshR := C02.shape_of_wf (swapInput x) ok.mcR.wf
  have h3 := pipeline_crop_eq_whole_of_cost (cfgOf K x) hC hAe
    (flagStep_local (cfgOf K x).mc hsh.sp_pos _ _ _ (run_samples_le K x ok.mc))
    (flagStep_equivariant (cfgOf K x).mc _ _ _) K.doRefine K.doMedian
    (rightDisp_local_of_cost (cfgOf K' (swapInput x)) hC'
      (flagStep_local (cfgOf K' (swapInput x)).mc hshR.sp_pos _ _ _ (run_samples_le K' (swapInput x) ok.mcR))
      K'.doRefine K'.doMedian)
    (rightDisp_equivariant (cfgOf K' (swapInput x)) hAe'
      (flagStep_equivariant (cfgOf K' (swapInput x)).mc _ _ _) K'.doRefine K'.doMedian)
    V CP x.L.rows x.L.cols r0 c0 x'.L.rows x'.L.cols (mcScene x) hc.fit ((r : Int), (c : Int)) hcone
  have h4 : toImg x'.L.rows x'.L.cols (mcScene x') = toImg x'.L.rows x'.L.cols (cropArr r0 c0 (mcScene x)) :=
    toImg_congr _ _ _ _ hc.scene
  have hfit := hc.fit
  rw [← h4] at h3
  have h3' : toImg x'.L.rows x'.L.cols out' ((r : Int), (c : Int))
      = toImg x.L.rows x.L.cols out ((r : Int) + r0, (c : Int) + c0) := by
    rw [h1, h2]; exact h3
  rw [toImg_some _ _ _ r c hr hcl] at h3'
  have e : (((r : Int) + (r0 : Int), (c : Int) + (c0 : Int)) : Px) = (((r + r0 : Nat) : Int), ((c + c0 : Nat) : Int)) := by
    ext <;> simp
  rw [e, toImg_some _ _ _ (r + r0) (c + c0) (by omega) (by omega)] at h3'
  exact Option.some.inj h3'

/-- … and for the left (disparity, flag) maps of a run without cross-checking -/
theorem leftRun_crop_eq_whole (K : RunCfg) (x x' : MC.Input) (r0 c0 : Nat) (hc : CropRun x x' r0 c0)
    (hx : McOK x) (hx' : McOK x') (h0 : K.sW.beginY = 0 ∧ K.sW.beginX = 0)
    (hmed : K.doMedian = true → MedianOK K x) (hmed' : K.doMedian = true → MedianOK K x')
    (m m' : Maps) (hm : afterFilter K x = some m) (hm' : afterFilter K x' = some m')
    (r c : Nat) (hr : r < x'.L.rows) (hcl : c < x'.L.cols)
    (hcone : ∀ q, inCone (filterCone (cfgOf K x) Cone.zero (mcCone (cfgOf K x).mc (cfgOf K x).gmin (cfgOf K x).gmax)
        K.doMedian) ((r : Int) + r0, (c : Int) + c0) q →
      InRect r0 c0 x'.L.rows x'.L.cols q ∨ ¬ InImage x.L.rows x.L.cols q) :
    m'.disp r c = m.disp (r + r0) (c + c0) ∧ m'.flag r c = m.flag (r + r0) (c + c0) := by
  have h1 := leftRun_is_filterStage K x' hx' h0 hmed' m' hm'
  have h2 := leftRun_is_filterStage K x hx h0 hmed m hm
  rw [cfgOf_crop K hc] at h1
  have hsh := C02.shape_of_wf x hx.wf
  have h3 := filter_crop_eq_whole_flags (cfgOf K x) hsh.sp_pos (run_samples_le K x hx)
    noAgg_local noAgg_equivariant K.doRefine K.doMedian
    x.L.rows x.L.cols r0 c0 x'.L.rows x'.L.cols (mcScene x) hc.fit ((r : Int), (c : Int)) hcone
  have h4 : toImg x'.L.rows x'.L.cols (mcScene x') = toImg x'.L.rows x'.L.cols (cropArr r0 c0 (mcScene x)) :=
    toImg_congr _ _ _ _ hc.scene
  have hfit := hc.fit
  rw [← h4, ← h1, ← h2, toImg_some _ _ _ r c hr hcl] at h3
  have e : (((r : Int) + (r0 : Int), (c : Int) + (c0 : Int)) : Px) = (((r + r0 : Nat) : Int), ((c + c0 : Nat) : Int)) := by
    ext <;> simp
  rw [e, toImg_some _ _ _ (r + r0) (c + c0) (by omega) (by omega)] at h3
  have h5 := Option.some.inj h3
  unfold zipArr at h5
  exact ⟨congrArg Prod.fst h5, congrArg Prod.snd h5⟩

/-- **The cone of the run is the documented one**: same window and filter size on both sides, mirrored interval
    on the right, cross-checking searching the interval of the pipeline without border offset: rows within
    `w/2 + filter_size/2`; columns within that, extended by the disparity interval once for the pipeline and once
    more for cross-checking. -/
theorem runCone_documented (K K' : RunCfg) (CP : CrossCheck.Params) (x : MC.Input) (hoff : CP.offset = 0)
    (hK : K.doMedian = true)
    (hw : MC.half (swapInput x).w = MC.half x.w) (hfs : K'.fs = K.fs)
    (hmin : gminOf (swapInput x) = -gmaxOf x) (hmax : gmaxOf (swapInput x) = -gminOf x) :
    Cone.le (runCone K K' CP x)
      ⟨MC.half x.w + K.fs / 2, MC.half x.w + K.fs / 2,
       MC.half x.w + K.fs / 2 + max (-gminOf x).toNat (gmaxOf x).toNat + (-CP.dmin).toNat,
       MC.half x.w + K.fs / 2 + max (-gminOf x).toNat (gmaxOf x).toNat + CP.dmax.toNat⟩ := by
  have h := pipeCone_documented (cfgOf K x) 0 CP hoff
    (mcCone (cfgOf K x).mc (cfgOf K x).gmin (cfgOf K x).gmax)
    (filterCone (cfgOf K' (swapInput x)) Cone.zero
      (mcCone (cfgOf K' (swapInput x)).mc (cfgOf K' (swapInput x)).gmin (cfgOf K' (swapInput x)).gmax) K'.doMedian)
    (flagCone_le_costCone _ _)
    (by
      unfold Cone.le filterCone refineCone costCone mcCone Cone.add Cone.sup Cone.square Cone.zero
      simp only [cfgOf, paramsOf] at *
      rw [hmin, hmax]
      cases K'.doMedian <;> simp only [if_true, Bool.false_eq_true, if_false, hfs] <;>
        (have : MC.half (swapInput x).w = MC.half x.w := hw) <;> omega)
  unfold runCone
  rw [hK]
  have e : Cone.square 0 = Cone.zero := rfl
  rw [e] at h
  simpa only [cfgOf, paramsOf, Nat.add_zero] using h

/-! ### Non-vacuity: a 3 × 9 pair (sad, window 3, interval [-1, 0], vfit, median 3, the block splits read from the
    source) and its 3 × 8 crop starting at column 1 satisfy every hypothesis of `run_crop_eq_whole`; pixel (1, 4) of
    the crop — (1, 5) of the whole — has its clipped cone (4 columns to the left, 3 to the right) inside the crop -/

theorem leftInInterval_of_B (CP : CrossCheck.Params) (rows cols : Nat) (A : Maps)
    (h : leftInIntervalB CP rows cols A = true) : LeftInInterval CP rows cols A := by
  intro r c hr hc
  unfold leftInIntervalB at h
  simp only [List.all_eq_true, List.mem_range] at h
  have := h r hr c hc
  unfold DispInInterval
  cases hf : Flags.isInvalid (A.flag r c) with
  | true => exact Or.inl rfl
  | false =>
    rw [hf] at this
    right
    cases hd : A.disp r c with
    | nan => exact Or.inl rfl
    | num v =>
      rw [hd] at this
      simp only [Bool.false_or, decide_eq_true_eq] at this
      exact Or.inr ⟨v, rfl, this⟩

namespace RunExample

def exL : MC.Img := { rows := 3, cols := 9, px := fun r c => ((r * c + 2 * c : Int) : Rat) }
def exR : MC.Img := { rows := 3, cols := 9, px := fun r c => ((r * c + 2 * c + r - 2 : Int) : Rat) }
def noMask : MC.Mask := { present := false, code := fun _ _ => 0, valid := 0, nodata := 1 }

def exWhole : MC.Input where
  meas := .sad
  w := 3
  sp := 1
  L := exL
  R := exR
  mL := noMask
  mR := noMask
  dminG := fun _ _ => -1
  dmaxG := fun _ _ => 0

def exCrop : MC.Input :=
  { exWhole with
    L := { rows := 3, cols := 8, px := fun r c => exL.px r (c + 1) }
    R := { rows := 3, cols := 8, px := fun r c => exR.px r (c + 1) } }

def numOnly : MC.Cell → Val
  | .num q => .num q
  | _ => .nan

def exK : RunCfg where
  ev := numOnly
  isMax := false
  disps := [-1, 0]
  invalid := .nan
  refine := { method := .vfit, isMax := false, subpix := 1, dmin := -1, dmax := 0 }
  invalidMask := Flags.pixelInvalid
  fs := 3
  doRefine := true
  doMedian := true
  sW := Generated.Blocks.wtaArgmin
  sM := Generated.Blocks.median 3

/-- the right chain: the mirrored interval `[0, 1]` -/
def exK' : RunCfg :=
  { exK with disps := [0, 1],
             refine := { method := .vfit, isMax := false, subpix := 1, dmin := 0, dmax := 1 } }

def exCP : CrossCheck.Params := { threshold := 1, dmin := -1, dmax := 0, offset := 0 }

theorem exCropRun : CropRun exWhole exCrop 0 1 := by
  refine ⟨rfl, ?_, by decide, by decide +kernel, by decide +kernel, by decide +kernel, by decide +kernel⟩
  intro r c _ _
  simp only [mcScene, exCrop, exWhole, exL, exR, noMask, Nat.add_zero]
  push_cast
  rfl

theorem exOK (x : MC.Input) (hm : x.meas = .sad) (hwf : wfShape x = true) (hwfR : wfShape (swapInput x) = true)
    (hrows : 3 ≤ x.L.rows ∧ 3 ≤ x.L.cols) (hrowsR : 3 ≤ x.R.rows ∧ 3 ≤ x.R.cols) : RunOK exK exK' x :=
  { mc := ⟨hwf, by intro h; rw [hm] at h; cases h⟩
    mcR := ⟨hwfR, by intro h; have : x.meas = .zncc := h; rw [hm] at this; cases this⟩
    wta := ⟨rfl, rfl⟩
    wtaR := ⟨rfl, rfl⟩
    med := fun _ => ⟨rfl, rfl, by decide, hrows.1, hrows.2⟩
    medR := fun _ => ⟨rfl, rfl, by decide, hrowsR.1, hrowsR.2⟩ }


theorem exCone : runCone exK exK' exCP exWhole = ⟨2, 2, 4, 3⟩ := by decide +kernel

/-- both runs return (no refinement raises) -/
example : (fullRun exK exK' .asIs exCP exWhole).isSome = true ∧ (fullRun exK exK' .asIs exCP exCrop).isSome = true := by
  constructor <;> decide +kernel

theorem exIn : (afterFilter exK exWhole).all (leftInIntervalB exCP 3 9) = true
    ∧ (afterFilter exK exCrop).all (leftInIntervalB exCP 3 8) = true := by
  constructor <;> decide +kernel

/-- every hypothesis of `run_crop_eq_whole` holds of the pair and its crop, at crop pixel (1, 4) -/
example (out out' : Nat → Nat → CrossCheck.PixOut)
    (hout : fullRun exK exK' .asIs exCP exWhole = some out) (hout' : fullRun exK exK' .asIs exCP exCrop = some out') :
    out' 1 4 = out (1 + 0) (4 + 1) :=
  run_crop_eq_whole exK exK' .asIs exCP exWhole exCrop 0 1 exCropRun
    (exOK exWhole rfl (by decide) (by decide) ⟨by decide, by decide⟩ ⟨by decide, by decide⟩)
    (exOK exCrop rfl (by decide) (by decide) ⟨by decide, by decide⟩ ⟨by decide, by decide⟩)
    out out' hout hout'
    (fun A hA => leftInInterval_of_B _ _ _ A (by have := exIn.1; rw [hA] at this; exact this))
    (fun A hA => leftInInterval_of_B _ _ _ A (by have := exIn.2; rw [hA] at this; exact this))
    1 4 (by decide) (by decide)
    (by
      intro q hq
      rw [exCone] at hq
      unfold inCone at hq
      unfold InRect InImage
      simp only [exCrop, exWhole, exL] at *
      omega)

end RunExample

end Pandora.C13
