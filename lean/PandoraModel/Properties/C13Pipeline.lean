/-
  C13 — composition: the cone of a pipeline is the sum of the cones of its steps.

  The pipeline `[matching cost; (aggregation); winner-takes-all; (refinement); (median filter);
  (cross-checking)]` is assembled on partial images from the step functions of `C13Steps`,
  `C13MatchingCost`, `C13Refinement`, `C13Median`, `C13CrossCheck` — each of which is proved equal to its step
  model (`toDisp_is_wtaStep`, `costVolume_is_mcRowStep`, `loopRefinement_is_refineStep`,
  `medianFilterDisparity_is_medianStep`, `check_is_ccStep`) — with `Local.comp` (cones add) and
  `Local.pair` (cones join).  Three ingredients stay abstract, as hypotheses of the theorems:
    * `agg`   — the aggregation step on (scene, cost rows), local with a cone `Ra` (`noAgg`: `Cone.zero`; cbca: not
                yet exhibited as a local step on partial images — see DESIGN_NOTES/C13.md);
    * `flagL` — the validity flags before refinement (criteria of the matching cost / disparity steps,
                C04), local with cone `Rf`;
    * `dispR` — the right disparity map, local with cone `Rr` (it is the same pipeline run on the swapped
                pair: `leftDisp_local` with the mirrored interval gives its cone).
  An optional step is switched off by taking the identity for it (`Cone.zero`): the statements cover every
  sub-pipeline.
-/
import PandoraModel.Properties.C13MatchingCost
import PandoraModel.Properties.C13Refinement
import PandoraModel.Properties.C13Median
import PandoraModel.Properties.C13Bilateral
import PandoraModel.Properties.C13CrossCheck

namespace Pandora.C13
open Pandora Pandora.Locality

/-! ### combinators -/

theorem Local.map {α β γ : Type} {R : Cone} {f : Img α → Img β} (hf : Local R f) (g : β → γ) :
    Local R (fun a p => (f a p).map g) := by
  intro a b p hab
  simp only [hf a b p hab]

theorem Local.bind {α β γ : Type} {R : Cone} {f : Img α → Img β} (hf : Local R f) (g : β → Option γ) :
    Local R (fun a p => (f a p).bind g) := by
  intro a b p hab
  simp only [hf a b p hab]

theorem Equivariant.map {α β γ : Type} {f : Img α → Img β} (hf : Equivariant f) (g : β → γ) :
    Equivariant (fun a p => (f a p).map g) := by
  intro t a
  funext p
  simp only [hf t a, shift]

theorem Equivariant.bind {α β γ : Type} {f : Img α → Img β} (hf : Equivariant f) (g : β → Option γ) :
    Equivariant (fun a p => (f a p).bind g) := by
  intro t a
  funext p
  simp only [hf t a, shift]

/-- two steps side by side -/
def pairStep {α β γ : Type} (f : Img α → Img β) (g : Img α → Img γ) : Img α → Img (β × γ) :=
  fun a p => match f a p, g a p with
    | some x, some y => some (x, y)
    | _, _ => none

theorem pairStep_local {α β γ : Type} {R S : Cone} {f : Img α → Img β} {g : Img α → Img γ}
    (hf : Local R f) (hg : Local S g) : Local (R.sup S) (pairStep f g) := Local.pair hf hg

theorem pairStep_equivariant {α β γ : Type} {f : Img α → Img β} {g : Img α → Img γ}
    (hf : Equivariant f) (hg : Equivariant g) : Equivariant (pairStep f g) := by
  intro t a
  funext p
  simp only [pairStep, hf t a, hg t a, shift]

theorem id_local {α : Type} : Local Cone.zero (fun (a : Img α) => a) := by
  intro a b p hab
  exact hab p (inCone_self _ p)

theorem id_equivariant {α : Type} : Equivariant (fun (a : Img α) => a) := fun _ _ => rfl

/-- componentwise order on cones -/
def Cone.le (R S : Cone) : Prop := R.up ≤ S.up ∧ R.down ≤ S.down ∧ R.left ≤ S.left ∧ R.right ≤ S.right

theorem Local.mono' {α β : Type} {R S : Cone} {f : Img α → Img β} (hf : Local R f) (h : Cone.le R S) : Local S f :=
  Local.mono h hf

/-! ### the left pipeline up to the filtered disparity -/

/-- configuration of the left pipeline -/
structure PipeCfg where
  mc : McParams
  gmin : Int
  gmax : Int
  /-- number of disparity samples of the cost volume -/
  n : Nat
  /-- float value of a cost cell (identity on numbers; the quotient of a zncc cell) -/
  ev : MC.Cell → Val
  isMax : Bool
  disps : List Rat
  invalid : Val
  refine : Refinement.Params
  invalidMask : Nat
  fs : Nat

/-- an aggregation step reads the scene (cbca: the two images and masks) and the cost rows -/
abbrev AggStep := Img (McCell × List Val) → Img (List Val)

/-- no aggregation -/
def noAgg : AggStep := fun a p => (a p).map (fun x => x.2)

theorem noAgg_local : Local Cone.zero noAgg := Local.map id_local _
theorem noAgg_equivariant : Equivariant noAgg := Equivariant.map id_equivariant _

/-- the cost rows of the matching-cost step, as float values -/
def mcStage (C : PipeCfg) : Img McCell → Img (List Val) :=
  fun a p => (mcRowStep C.mc C.gmin C.n a p).map (List.map C.ev)

/-- cost rows after matching cost and aggregation -/
def costStage (C : PipeCfg) (agg : AggStep) : Img McCell → Img (List Val) :=
  fun a => agg (pairStep (fun a => a) (mcStage C) a)

/-- disparity after winner-takes-all -/
def wtaStage (C : PipeCfg) (agg : AggStep) : Img McCell → Img Val :=
  fun a => wtaStep C.isMax C.disps C.invalid (costStage C agg a)

/-- what refinement reads at a pixel: its cost row, its disparity, its flag (`pmin`/`pmax` are read by the
    specification of C06 only) -/
def mkPixIn : (List Val × Val) × Nat → Refinement.PixIn := fun x => ⟨x.1.1, x.1.2, x.2, 0, 0⟩

/-- (coefficient, disparity, flag) after refinement; `doRefine = false`: the step is absent -/
def refineStage (C : PipeCfg) (agg : AggStep) (flagL : Img McCell → Img Nat)
    (doRefine : Bool) : Img McCell → Img (Val × Nat) :=
  fun a p =>
    (pairStep (pairStep (costStage C agg) (wtaStage C agg)) flagL a p).bind fun x =>
      if doRefine then
        (Res.toOption (Refinement.refinePixel C.refine (mkPixIn x))).map fun o => (o.d, o.flag)
      else some (x.1.2, x.2)

/-- (disparity, flag) after the median filter (the filter does not write the flags) -/
def medianStage (C : PipeCfg) (agg : AggStep) (flagL : Img McCell → Img Nat)
    (doRefine : Bool) : Img McCell → Img (Val × Nat) :=
  pairStep (medianStep C.invalidMask C.fs ∘ refineStage C agg flagL doRefine)
    (fun a p => (refineStage C agg flagL doRefine a p).map (fun x => x.2))

/-- (disparity, flag) after the optional median filter; `doMedian = false`: the step is absent -/
def filterStage (C : PipeCfg) (agg : AggStep) (flagL : Img McCell → Img Nat)
    (doRefine doMedian : Bool) : Img McCell → Img (Val × Nat) :=
  if doMedian then medianStage C agg flagL doRefine else refineStage C agg flagL doRefine

/-- the cone of the cost stage: matching cost + aggregation -/
def costCone (C : PipeCfg) (Ra : Cone) : Cone := (mcCone C.mc C.gmin C.gmax).add Ra

theorem costStage_local (C : PipeCfg) (hsp : 0 < C.mc.sp)
    (hn : ∀ j : Nat, j < C.n → C.gmin * (C.mc.sp : Int) + j ≤ C.gmax * (C.mc.sp : Int))
    {agg : AggStep} {Ra : Cone} (hA : Local Ra agg) :
    Local (costCone C Ra) (costStage C agg) := by
  have h := Local.comp (pairStep_local id_local
    (Local.map (mcRowStep_local C.mc hsp C.gmin C.gmax C.n hn) (List.map C.ev))) hA
  refine Local.mono ?_ h
  simp [costCone, Cone.sup, Cone.zero, Cone.add]

theorem costStage_equivariant (C : PipeCfg) {agg : AggStep} (hA : Equivariant agg) :
    Equivariant (costStage C agg) :=
  Equivariant.comp (pairStep_equivariant id_equivariant
    (Equivariant.map (mcRowStep_equivariant C.mc C.gmin C.n) (List.map C.ev))) hA

theorem wtaStage_local (C : PipeCfg) (hsp : 0 < C.mc.sp)
    (hn : ∀ j : Nat, j < C.n → C.gmin * (C.mc.sp : Int) + j ≤ C.gmax * (C.mc.sp : Int))
    {agg : AggStep} {Ra : Cone} (hA : Local Ra agg) :
    Local (costCone C Ra) (wtaStage C agg) := by
  have h := Local.comp (costStage_local C hsp hn hA) (wtaStep_local C.isMax C.disps C.invalid)
  refine Local.mono ?_ h
  simp [Cone.add, Cone.zero]

theorem wtaStage_equivariant (C : PipeCfg) {agg : AggStep} (hA : Equivariant agg) :
    Equivariant (wtaStage C agg) :=
  Equivariant.comp (costStage_equivariant C hA) (wtaStep_equivariant C.isMax C.disps C.invalid)

/-- the cone before the filter: the cost cone, joined with the cone of the flags -/
def refineCone (C : PipeCfg) (Ra Rf : Cone) : Cone := (costCone C Ra).sup Rf

theorem refineStage_local (C : PipeCfg) (hsp : 0 < C.mc.sp)
    (hn : ∀ j : Nat, j < C.n → C.gmin * (C.mc.sp : Int) + j ≤ C.gmax * (C.mc.sp : Int))
    {agg : AggStep} {Ra : Cone} (hA : Local Ra agg)
    {flagL : Img McCell → Img Nat} {Rf : Cone} (hF : Local Rf flagL) (doRefine : Bool) :
    Local (refineCone C Ra Rf) (refineStage C agg flagL doRefine) := by
  have h1 := pairStep_local (pairStep_local (costStage_local C hsp hn hA) (wtaStage_local C hsp hn hA)) hF
  have h2 := Local.bind h1 (fun x =>
      if doRefine then
        (Res.toOption (Refinement.refinePixel C.refine (mkPixIn x))).map fun o => (o.d, o.flag)
      else some (x.1.2, x.2))
  refine Local.mono ?_ h2
  simp [refineCone, Cone.sup]

theorem refineStage_equivariant (C : PipeCfg) {agg : AggStep} (hA : Equivariant agg)
    {flagL : Img McCell → Img Nat} (hF : Equivariant flagL) (doRefine : Bool) :
    Equivariant (refineStage C agg flagL doRefine) :=
  Equivariant.bind (pairStep_equivariant
    (pairStep_equivariant (costStage_equivariant C hA) (wtaStage_equivariant C hA)) hF) _

/-- the cone of the filtered disparity: rows and columns `w/2 + (aggregation) + filter_size/2`, columns
    extended by the interval -/
def filterCone (C : PipeCfg) (Ra Rf : Cone) (doMedian : Bool) : Cone :=
  if doMedian then (refineCone C Ra Rf).add (Cone.square (C.fs / 2)) else refineCone C Ra Rf

theorem filterStage_local (C : PipeCfg) (hsp : 0 < C.mc.sp)
    (hn : ∀ j : Nat, j < C.n → C.gmin * (C.mc.sp : Int) + j ≤ C.gmax * (C.mc.sp : Int))
    {agg : AggStep} {Ra : Cone} (hA : Local Ra agg)
    {flagL : Img McCell → Img Nat} {Rf : Cone} (hF : Local Rf flagL) (doRefine doMedian : Bool) :
    Local (filterCone C Ra Rf doMedian) (filterStage C agg flagL doRefine doMedian) := by
  have hr := refineStage_local C hsp hn hA hF doRefine
  cases doMedian with
  | false =>
    unfold filterCone filterStage
    simp only [Bool.false_eq_true, if_false]
    exact hr
  | true =>
    have hm := Local.comp hr (medianStep_local C.invalidMask C.fs)
    have h2 := Local.map hr (fun (x : Val × Nat) => x.2)
    have h := pairStep_local hm h2
    unfold filterCone filterStage medianStage
    simp only [if_true]
    refine Local.mono ?_ h
    simp [Cone.sup, Cone.add, Cone.square]

theorem filterStage_equivariant (C : PipeCfg) {agg : AggStep} (hA : Equivariant agg)
    {flagL : Img McCell → Img Nat} (hF : Equivariant flagL) (doRefine doMedian : Bool) :
    Equivariant (filterStage C agg flagL doRefine doMedian) := by
  have hr := refineStage_equivariant C hA hF doRefine
  cases doMedian with
  | false =>
    unfold filterStage
    simp only [Bool.false_eq_true, if_false]
    exact hr
  | true =>
    have hm := Equivariant.comp hr (medianStep_equivariant C.invalidMask C.fs)
    have h2 := Equivariant.map hr (fun (x : Val × Nat) => x.2)
    unfold filterStage medianStage
    simp only [if_true]
    exact pairStep_equivariant hm h2

/-! ### cross-checking on top -/

/-- the whole pipeline: flag word and confidence cell after cross-checking the filtered left map against
    the right disparity map -/
def ccStage (C : PipeCfg) (agg : AggStep) (flagL : Img McCell → Img Nat)
    (doRefine doMedian : Bool) (dispR : Img McCell → Img Val) (V : CrossCheck.Variant) (CP : CrossCheck.Params) :
    Img McCell → Img CrossCheck.PixOut :=
  fun a => ccStep V CP (fun p =>
    (pairStep (filterStage C agg flagL doRefine doMedian) dispR a p).map fun x => (x.1.1, x.1.2, x.2))

/-- the cone of the whole pipeline: (left cone ⊔ right cone) + the interval of cross-checking -/
def pipeCone (C : PipeCfg) (Ra Rf Rr : Cone) (doMedian : Bool) (CP : CrossCheck.Params) : Cone :=
  ((filterCone C Ra Rf doMedian).sup Rr).add (ccCone CP)

/-- **Composition.**  The pipeline `[matching cost; aggregation; wta; (refinement); (median); cross-checking]`
    is local, its cone being the sum of the step cones (joined with the cone of the right map). -/
theorem ccStage_local (C : PipeCfg) (hsp : 0 < C.mc.sp)
    (hn : ∀ j : Nat, j < C.n → C.gmin * (C.mc.sp : Int) + j ≤ C.gmax * (C.mc.sp : Int))
    {agg : AggStep} {Ra : Cone} (hA : Local Ra agg)
    {flagL : Img McCell → Img Nat} {Rf : Cone} (hF : Local Rf flagL) (doRefine doMedian : Bool)
    {dispR : Img McCell → Img Val} {Rr : Cone} (hR : Local Rr dispR)
    (V : CrossCheck.Variant) (CP : CrossCheck.Params) :
    Local (pipeCone C Ra Rf Rr doMedian CP) (ccStage C agg flagL doRefine doMedian dispR V CP) := by
  have h1 := pairStep_local (filterStage_local C hsp hn hA hF doRefine doMedian) hR
  have h2 := Local.map h1 (fun (x : (Val × Nat) × Val) => ((x.1.1, x.1.2, x.2) : CcCell))
  exact Local.comp h2 (ccStep_local V CP)

theorem ccStage_equivariant (C : PipeCfg) {agg : AggStep} (hA : Equivariant agg)
    {flagL : Img McCell → Img Nat} (hF : Equivariant flagL) (doRefine doMedian : Bool)
    {dispR : Img McCell → Img Val} (hR : Equivariant dispR) (V : CrossCheck.Variant) (CP : CrossCheck.Params) :
    Equivariant (ccStage C agg flagL doRefine doMedian dispR V CP) :=
  Equivariant.comp (Equivariant.map (pairStep_equivariant (filterStage_equivariant C hA hF doRefine doMedian) hR)
    (fun (x : (Val × Nat) × Val) => ((x.1.1, x.1.2, x.2) : CcCell))) (ccStep_equivariant V CP)

/-- **Crop run = whole run for the whole pipeline**, on any scene array: every pixel of the crop whose
    (clipped) pipeline cone lies in the crop gets the flag word and confidence cell of the whole run,
    wherever the crop starts. -/
theorem pipeline_crop_eq_whole (C : PipeCfg) (hsp : 0 < C.mc.sp)
    (hn : ∀ j : Nat, j < C.n → C.gmin * (C.mc.sp : Int) + j ≤ C.gmax * (C.mc.sp : Int))
    {agg : AggStep} {Ra : Cone} (hA : Local Ra agg) (hAe : Equivariant agg)
    {flagL : Img McCell → Img Nat} {Rf : Cone} (hF : Local Rf flagL) (hFe : Equivariant flagL)
    (doRefine doMedian : Bool)
    {dispR : Img McCell → Img Val} {Rr : Cone} (hR : Local Rr dispR) (hRe : Equivariant dispR)
    (V : CrossCheck.Variant) (CP : CrossCheck.Params)
    (ny nx r0 c0 ny' nx' : Nat) (scene : Nat → Nat → McCell) (hfit : r0 + ny' ≤ ny ∧ c0 + nx' ≤ nx) (p : Px)
    (hcone : ∀ q, inCone (pipeCone C Ra Rf Rr doMedian CP) (p.1 + r0, p.2 + c0) q →
      InRect r0 c0 ny' nx' q ∨ ¬ InImage ny nx q) :
    ccStage C agg flagL doRefine doMedian dispR V CP (toImg ny' nx' (cropArr r0 c0 scene)) p
      = ccStage C agg flagL doRefine doMedian dispR V CP (toImg ny nx scene) (p.1 + r0, p.2 + c0) :=
  crop_run_eq_whole (ccStage_local C hsp hn hA hF doRefine doMedian hR V CP)
    (ccStage_equivariant C hAe hFe doRefine doMedian hRe V CP) ny nx r0 c0 ny' nx' scene hfit p hcone

/-- … and for the filtered left disparity and flags (pipelines without cross-checking) -/
theorem filter_crop_eq_whole (C : PipeCfg) (hsp : 0 < C.mc.sp)
    (hn : ∀ j : Nat, j < C.n → C.gmin * (C.mc.sp : Int) + j ≤ C.gmax * (C.mc.sp : Int))
    {agg : AggStep} {Ra : Cone} (hA : Local Ra agg) (hAe : Equivariant agg)
    {flagL : Img McCell → Img Nat} {Rf : Cone} (hF : Local Rf flagL) (hFe : Equivariant flagL)
    (doRefine doMedian : Bool)
    (ny nx r0 c0 ny' nx' : Nat) (scene : Nat → Nat → McCell) (hfit : r0 + ny' ≤ ny ∧ c0 + nx' ≤ nx) (p : Px)
    (hcone : ∀ q, inCone (filterCone C Ra Rf doMedian) (p.1 + r0, p.2 + c0) q →
      InRect r0 c0 ny' nx' q ∨ ¬ InImage ny nx q) :
    filterStage C agg flagL doRefine doMedian (toImg ny' nx' (cropArr r0 c0 scene)) p
      = filterStage C agg flagL doRefine doMedian (toImg ny nx scene) (p.1 + r0, p.2 + c0) :=
  crop_run_eq_whole (filterStage_local C hsp hn hA hF doRefine doMedian)
    (filterStage_equivariant C hAe hFe doRefine doMedian) ny nx r0 c0 ny' nx' scene hfit p hcone

/-! ### the documented radii -/

/-- **The cone of the pipeline is the documented one**: with aggregation cone `square A`, flags within the
    cost cone, a right map within the mirrored cone, and no `mask_border` offset in cross-checking: rows
    within `w/2 + A + filter_size/2`; columns within that, extended by the disparity interval once for the
    pipeline and once more for cross-checking. -/
theorem pipeCone_documented (C : PipeCfg) (A : Nat) (CP : CrossCheck.Params) (hoff : CP.offset = 0)
    (Rf Rr : Cone) (hRf : Cone.le Rf (costCone C (Cone.square A)))
    (hRr : Cone.le Rr ⟨MC.half C.mc.w + A + C.fs / 2, MC.half C.mc.w + A + C.fs / 2,
      MC.half C.mc.w + A + C.fs / 2 + C.gmax.toNat, MC.half C.mc.w + A + C.fs / 2 + (-C.gmin).toNat⟩) :
    Cone.le (pipeCone C (Cone.square A) Rf Rr true CP)
      ⟨MC.half C.mc.w + A + C.fs / 2, MC.half C.mc.w + A + C.fs / 2,
       MC.half C.mc.w + A + C.fs / 2 + max (-C.gmin).toNat C.gmax.toNat + (-CP.dmin).toNat,
       MC.half C.mc.w + A + C.fs / 2 + max (-C.gmin).toNat C.gmax.toNat + CP.dmax.toNat⟩ := by
  unfold Cone.le at *
  simp only [pipeCone, filterCone, refineCone, costCone, mcCone, ccCone, Cone.add, Cone.sup, Cone.square,
    if_true, hoff] at *
  omega

/-! ### any other local filter in place of the median (bilateral), any left map under cross-checking -/

/-- (disparity, flag) after a disparity filter `filt` that does not write the flags -/
def filtStage (C : PipeCfg) (agg : AggStep) (flagL : Img McCell → Img Nat)
    (doRefine : Bool) (filt : Img (Val × Nat) → Img Val) : Img McCell → Img (Val × Nat) :=
  pairStep (filt ∘ refineStage C agg flagL doRefine)
    (fun a p => (refineStage C agg flagL doRefine a p).map (fun x => x.2))

theorem filtStage_local (C : PipeCfg) (hsp : 0 < C.mc.sp)
    (hn : ∀ j : Nat, j < C.n → C.gmin * (C.mc.sp : Int) + j ≤ C.gmax * (C.mc.sp : Int))
    {agg : AggStep} {Ra : Cone} (hA : Local Ra agg)
    {flagL : Img McCell → Img Nat} {Rf : Cone} (hF : Local Rf flagL) (doRefine : Bool)
    {filt : Img (Val × Nat) → Img Val} {Rm : Cone} (hM : Local Rm filt) :
    Local ((refineCone C Ra Rf).add Rm) (filtStage C agg flagL doRefine filt) := by
  have hr := refineStage_local C hsp hn hA hF doRefine
  have h := pairStep_local (Local.comp hr hM) (Local.map hr (fun (x : Val × Nat) => x.2))
  refine Local.mono ?_ h
  simp [Cone.sup, Cone.add]

theorem filtStage_equivariant (C : PipeCfg) {agg : AggStep} (hA : Equivariant agg)
    {flagL : Img McCell → Img Nat} (hF : Equivariant flagL) (doRefine : Bool)
    {filt : Img (Val × Nat) → Img Val} (hM : Equivariant filt) :
    Equivariant (filtStage C agg flagL doRefine filt) := by
  have hr := refineStage_equivariant C hA hF doRefine
  exact pairStep_equivariant (Equivariant.comp hr hM) (Equivariant.map hr (fun (x : Val × Nat) => x.2))

/-- **The pipeline with the bilateral filter**: cone = cost cone (⊔ flags) + the window of the filter. -/
theorem bilateralStage_local (C : PipeCfg) (hsp : 0 < C.mc.sp)
    (hn : ∀ j : Nat, j < C.n → C.gmin * (C.mc.sp : Int) + j ≤ C.gmax * (C.mc.sp : Int))
    {agg : AggStep} {Ra : Cone} (hA : Local Ra agg)
    {flagL : Img McCell → Img Nat} {Rf : Cone} (hF : Local Rf flagL) (doRefine : Bool)
    (wts : Filter.Weights) (w : Nat) (hw : 0 < w) :
    Local ((refineCone C Ra Rf).add (bilateralCone w))
      (filtStage C agg flagL doRefine (bilateralStep wts C.invalidMask w)) :=
  filtStage_local C hsp hn hA hF doRefine (bilateralStep_local wts C.invalidMask w hw)

/-- cross-checking of any left (disparity, flag) map against any right disparity map -/
def ccOn (left : Img McCell → Img (Val × Nat)) (dispR : Img McCell → Img Val) (V : CrossCheck.Variant)
    (CP : CrossCheck.Params) : Img McCell → Img CrossCheck.PixOut :=
  fun a => ccStep V CP (fun p => (pairStep left dispR a p).map fun x => (x.1.1, x.1.2, x.2))

theorem ccOn_local {left : Img McCell → Img (Val × Nat)} {RL : Cone} (hL : Local RL left)
    {dispR : Img McCell → Img Val} {Rr : Cone} (hR : Local Rr dispR)
    (V : CrossCheck.Variant) (CP : CrossCheck.Params) :
    Local ((RL.sup Rr).add (ccCone CP)) (ccOn left dispR V CP) :=
  Local.comp (Local.map (pairStep_local hL hR) (fun (x : (Val × Nat) × Val) => ((x.1.1, x.1.2, x.2) : CcCell)))
    (ccStep_local V CP)

theorem ccOn_equivariant {left : Img McCell → Img (Val × Nat)} (hL : Equivariant left)
    {dispR : Img McCell → Img Val} (hR : Equivariant dispR) (V : CrossCheck.Variant) (CP : CrossCheck.Params) :
    Equivariant (ccOn left dispR V CP) :=
  Equivariant.comp (Equivariant.map (pairStep_equivariant hL hR)
    (fun (x : (Val × Nat) × Val) => ((x.1.1, x.1.2, x.2) : CcCell))) (ccStep_equivariant V CP)

/-! ### the exact cone under cross-checking: left ⊔ (right + interval) -/

/-- the scene of cross-checking built on the domain of the right map (equal to the paired scene whenever the
    two maps are defined on the same pixels: `ccOnT_eq_ccOn`) -/
def ccInT (left : Img McCell → Img (Val × Nat)) (dispR : Img McCell → Img Val) : Img McCell → Img CcCell :=
  fun a p => (dispR a p).map fun dr =>
    match left a p with
    | some x => (x.1, x.2, dr)
    | none => (.nan, 0, dr)

def ccOnT (left : Img McCell → Img (Val × Nat)) (dispR : Img McCell → Img Val) (V : CrossCheck.Variant)
    (CP : CrossCheck.Params) : Img McCell → Img CrossCheck.PixOut :=
  fun a => ccStep V CP (ccInT left dispR a)

theorem ccOnT_eq_ccOn (left : Img McCell → Img (Val × Nat)) (dispR : Img McCell → Img Val) (V : CrossCheck.Variant)
    (CP : CrossCheck.Params) (a : Img McCell) (hdom : ∀ q, (left a q).isSome = (dispR a q).isSome) :
    ccOnT left dispR V CP a = ccOn left dispR V CP a := by
  unfold ccOnT ccOn
  congr 1
  funext q
  unfold ccInT pairStep
  have := hdom q
  cases hl : left a q <;> cases hr : dispR a q <;> simp [hl, hr] at this ⊢

/-- **Cross-checking on top of a left map with cone `RL` and a right map with cone `Rr`: the cone is
    `RL ⊔ (Rr + interval)`** — the left map is read at the pixel only. -/
theorem ccOnT_local {left : Img McCell → Img (Val × Nat)} {RL : Cone} (hL : Local RL left)
    {dispR : Img McCell → Img Val} {Rr : Cone} (hR : Local Rr dispR)
    (V : CrossCheck.Variant) (CP : CrossCheck.Params) :
    Local (RL.sup (Rr.add (ccCone CP))) (ccOnT left dispR V CP) := by
  intro a b p hab
  unfold ccOnT
  have hr : ∀ q, inCone (ccCone CP) p q → dispR a q = dispR b q := by
    intro q hq
    apply hR
    intro r hr
    apply hab
    unfold inCone Cone.sup Cone.add at *
    simp only at *
    omega
  apply ccStep_congr
  · unfold ccInT
    rw [hr p (inCone_self _ p)]
    have : left a p = left b p := by
      apply hL
      intro r hr'
      apply hab
      unfold inCone Cone.sup at *
      simp only at *
      omega
    rw [this]
  · intro q hq
    unfold ccInT
    rw [hr q hq]
    simp only [Option.map_map]
    congr 1
    funext dr
    simp only [Function.comp]
    cases left a q <;> cases left b q <;> rfl

theorem ccOnT_equivariant {left : Img McCell → Img (Val × Nat)} (hL : Equivariant left)
    {dispR : Img McCell → Img Val} (hR : Equivariant dispR) (V : CrossCheck.Variant) (CP : CrossCheck.Params) :
    Equivariant (ccOnT left dispR V CP) := by
  have h : Equivariant (ccInT left dispR) := by
    intro t a
    funext p
    simp only [ccInT, hL t a, hR t a, shift]
  exact Equivariant.comp h (ccStep_equivariant V CP)

/-- **The exact documented cone of the full pipeline**: rows `w/2 + A + filter_size/2`; columns that radius
    extended by the whole extent of the disparity interval on both sides ("twice": once for the pipeline, once
    for cross-checking), when cross-checking searches the interval of the pipeline and has no border offset. -/
theorem pipeConeT_documented (C : PipeCfg) (A : Nat) (CP : CrossCheck.Params) (hoff : CP.offset = 0)
    (hmin : CP.dmin = C.gmin) (hmax : CP.dmax = C.gmax)
    (Rf Rr : Cone) (hRf : Cone.le Rf (costCone C (Cone.square A)))
    (hRr : Cone.le Rr ⟨MC.half C.mc.w + A + C.fs / 2, MC.half C.mc.w + A + C.fs / 2,
      MC.half C.mc.w + A + C.fs / 2 + C.gmax.toNat, MC.half C.mc.w + A + C.fs / 2 + (-C.gmin).toNat⟩) :
    Cone.le ((filterCone C (Cone.square A) Rf true).sup (Rr.add (ccCone CP)))
      ⟨MC.half C.mc.w + A + C.fs / 2, MC.half C.mc.w + A + C.fs / 2,
       MC.half C.mc.w + A + C.fs / 2 + (-C.gmin).toNat + C.gmax.toNat,
       MC.half C.mc.w + A + C.fs / 2 + (-C.gmin).toNat + C.gmax.toNat⟩ := by
  unfold Cone.le at *
  simp only [filterCone, refineCone, costCone, mcCone, ccCone, Cone.add, Cone.sup, Cone.square,
    if_true, hoff, hmin, hmax] at *
  omega

/-! ### the right map is the same pipeline on the swapped pair -/

/-- the scene seen from the right image: images and masks swapped, interval mirrored -/
def swapCell : McCell → McCell := fun s => ⟨s.r, s.l, s.mr, s.ml, -s.dmax, -s.dmin⟩

/-- the right disparity map: the left pipeline (configuration `C'`: mirrored interval) on the swapped scene -/
def rightDisp (C' : PipeCfg) (agg : AggStep) (flagR : Img McCell → Img Nat)
    (doRefine doMedian : Bool) : Img McCell → Img Val :=
  fun a p => (filterStage C' agg flagR doRefine doMedian (fun q => (a q).map swapCell) p).map (fun x => x.1)

/-- **The hypothesis on the right map is met by the pipeline itself**: its cone is the cone of the
    mirrored configuration. -/
theorem rightDisp_local (C' : PipeCfg) (hsp : 0 < C'.mc.sp)
    (hn : ∀ j : Nat, j < C'.n → C'.gmin * (C'.mc.sp : Int) + j ≤ C'.gmax * (C'.mc.sp : Int))
    {agg : AggStep} {Ra : Cone} (hA : Local Ra agg)
    {flagR : Img McCell → Img Nat} {Rf : Cone} (hF : Local Rf flagR) (doRefine doMedian : Bool) :
    Local (filterCone C' Ra Rf doMedian) (rightDisp C' agg flagR doRefine doMedian) := by
  have h0 : Local Cone.zero (fun (a : Img McCell) q => (a q).map swapCell) := Local.map id_local swapCell
  have h := Local.map (Local.comp h0 (filterStage_local C' hsp hn hA hF doRefine doMedian)) (fun (x : Val × Nat) => x.1)
  refine Local.mono ?_ h
  simp [Cone.add, Cone.zero]

theorem rightDisp_equivariant (C' : PipeCfg) {agg : AggStep} (hA : Equivariant agg)
    {flagR : Img McCell → Img Nat} (hF : Equivariant flagR) (doRefine doMedian : Bool) :
    Equivariant (rightDisp C' agg flagR doRefine doMedian) :=
  Equivariant.map (Equivariant.comp (Equivariant.map id_equivariant swapCell)
    (filterStage_equivariant C' hA hF doRefine doMedian)) (fun (x : Val × Nat) => x.1)

/-! ### Non-vacuity: the configuration of C02's example pair (window 3, subpix 2, interval [-1, 1], five
    samples), sad, wta, vfit, median 3, without aggregation (identity) and with constant flags, satisfies
    every hypothesis of `filter_crop_eq_whole` -/

def exCfg : PipeCfg where
  mc := paramsOf (C02.Example.exIn .sad)
  gmin := -1
  gmax := 1
  n := 5
  ev := fun c => match c with | .num q => .num q | _ => .nan
  isMax := false
  disps := [-1, -1/2, 0, 1/2, 1]
  invalid := .nan
  refine := { method := .vfit, isMax := false, subpix := 2, dmin := -1, dmax := 1 }
  invalidMask := Flags.pixelInvalid
  fs := 3

example (ny nx r0 c0 ny' nx' : Nat) (scene : Nat → Nat → McCell) (hfit : r0 + ny' ≤ ny ∧ c0 + nx' ≤ nx) (p : Px)
    (hcone : ∀ q, inCone (filterCone exCfg Cone.zero Cone.zero true) (p.1 + r0, p.2 + c0) q →
      InRect r0 c0 ny' nx' q ∨ ¬ InImage ny nx q) :
    filterStage exCfg noAgg (fun a q => (a q).map fun _ => 0) true true (toImg ny' nx' (cropArr r0 c0 scene)) p
      = filterStage exCfg noAgg (fun a q => (a q).map fun _ => 0) true true (toImg ny nx scene)
          (p.1 + r0, p.2 + c0) :=
  filter_crop_eq_whole exCfg (by decide) (by intro j hj; have h5 : j < 5 := hj; show (-1 : Int) * ((2 : Nat) : Int) + (j : Int) ≤ 1 * ((2 : Nat) : Int); omega)
    noAgg_local noAgg_equivariant (Local.map id_local _) (Equivariant.map id_equivariant _) true true
    ny nx r0 c0 ny' nx' scene hfit p hcone

example : filterCone exCfg Cone.zero Cone.zero true = ⟨2, 2, 3, 3⟩ := by decide

end Pandora.C13
