/-
  C13 — vertical flip: "all windows being odd-sized, flipping both images vertically flips the outputs".

  Vocabulary and the simple steps.
    * `VFlip f`   : `f (vflip a) = vflip (f a)` for every partial image `a`;
    * `RectDom a` : the domain of `a` is a product (set of rows) × (set of columns) — true of every array;
    * `VFlipOn f` : `f` commutes with the flip on images with a rectangular domain (the matching-cost step tests
      two opposite corners of its window: on a non-rectangular domain the flipped test is a different test);
    * combinators: identity, composition, `pairStep`, `map`, `bind`;
    * arrays: `flipArr ny data r c = data (ny - 1 - r) c`, `toImg_flipArr` (the partial image of the flipped
      array is the flipped partial image, re-indexed), and `flip_run_eq`: for a translation-equivariant step
      that commutes with the flip, running it on the flipped array gives at row `r` what the run on the array
      gives at row `ny - 1 - r`;
    * steps: winner-takes-all and refinement (pointwise), cross-checking (the two vertical `mask_border`
      probes are exchanged; the test is symmetric in them), median filter of odd size (the window listed
      bottom-up is a permutation of the window; `nanmedian` sorts its values).
-/
import PandoraModel.Properties.C13Pipeline

namespace Pandora.C13
open Pandora Pandora.Locality

/-! ### vocabulary -/

/-- the step commutes with the vertical flip -/
def VFlip {α β : Type} (f : Img α → Img β) : Prop := ∀ a, f (vflip a) = vflip (f a)

/-- the image's domain is a product of a set of rows and a set of columns (true of every array) -/
def RectDom {α : Type} (a : Img α) : Prop :=
  ∃ (Rr Cc : Int → Prop), ∀ i j, (a (i, j)).isSome = true ↔ (Rr i ∧ Cc j)

/-- the step commutes with the vertical flip on images with a rectangular domain -/
def VFlipOn {α β : Type} (f : Img α → Img β) : Prop := ∀ a, RectDom a → f (vflip a) = vflip (f a)

/-- `b` is defined exactly where `a` is -/
def SameDom {α β : Type} (a : Img α) (b : Img β) : Prop := ∀ p, (b p).isSome = (a p).isSome

theorem vflip_vflip {α : Type} (a : Img α) : vflip (vflip a) = a := by
  funext p
  show a (- -p.1, p.2) = a p
  rw [Int.neg_neg]

theorem vflip_apply {α : Type} (a : Img α) (i j : Int) : vflip a (i, j) = a (-i, j) := rfl

theorem rectDom_toImg {α : Type} (ny nx : Nat) (data : Nat → Nat → α) : RectDom (toImg ny nx data) := by
  refine ⟨fun i => 0 ≤ i ∧ i < ny, fun j => 0 ≤ j ∧ j < nx, ?_⟩
  intro i j
  unfold toImg
  by_cases h : 0 ≤ i ∧ i < ny ∧ 0 ≤ j ∧ j < nx
  · simp only [h, and_self, if_true, Option.isSome_some]
  · simp only [h, if_false, Option.isSome_none, Bool.false_eq_true, false_iff]
    omega

theorem RectDom.vflip {α : Type} {a : Img α} (h : RectDom a) : RectDom (vflip a) := by
  obtain ⟨Rr, Cc, h⟩ := h
  exact ⟨fun i => Rr (-i), Cc, fun i j => h (-i) j⟩

theorem RectDom.shift {α : Type} {a : Img α} (h : RectDom a) (t : Px) : RectDom (shift t a) := by
  obtain ⟨Rr, Cc, h⟩ := h
  exact ⟨fun i => Rr (i + t.1), fun j => Cc (j + t.2), fun i j => h (i + t.1) (j + t.2)⟩

theorem RectDom.of_sameDom {α β : Type} {a : Img α} {b : Img β} (h : RectDom a) (hd : SameDom a b) :
    RectDom b := by
  obtain ⟨Rr, Cc, h⟩ := h
  exact ⟨Rr, Cc, fun i j => by rw [hd (i, j)]; exact h i j⟩

theorem sameDom_map {α β : Type} (a : Img α) (g : α → β) : SameDom a (fun p => (a p).map g) := by
  intro p
  simp only [Option.isSome_map]

theorem RectDom.map {α β : Type} {a : Img α} (h : RectDom a) (g : α → β) :
    RectDom (fun p => (a p).map g) := h.of_sameDom (sameDom_map a g)

theorem SameDom.trans {α β γ : Type} {a : Img α} {b : Img β} {c : Img γ} (h1 : SameDom a b) (h2 : SameDom b c) :
    SameDom a c := fun p => (h2 p).trans (h1 p)

/-- pairing two images defined where `a` is gives an image defined where `a` is -/
theorem sameDom_pair {α β γ : Type} {a : Img α} {f : Img α → Img β} {g : Img α → Img γ}
    (hf : SameDom a (f a)) (hg : SameDom a (g a)) : SameDom a (pairStep f g a) := by
  intro p
  have h1 := hf p
  have h2 := hg p
  unfold pairStep
  cases hfa : f a p <;> cases hga : g a p <;> cases hap : a p <;> simp_all

/-! ### combinators -/

theorem VFlip.toOn {α β : Type} {f : Img α → Img β} (h : VFlip f) : VFlipOn f := fun a _ => h a

theorem id_vflip {α : Type} : VFlip (fun (a : Img α) => a) := fun _ => rfl

theorem VFlip.comp {α β γ : Type} {f : Img α → Img β} {g : Img β → Img γ} (hf : VFlip f) (hg : VFlip g) :
    VFlip (g ∘ f) := by
  intro a
  simp only [Function.comp, hf a, hg (f a)]

/-- a step that commutes with the flip on rectangular domains, followed by one that always does -/
theorem VFlipOn.comp_vflip {α β γ : Type} {f : Img α → Img β} {g : Img β → Img γ} (hf : VFlipOn f)
    (hg : VFlip g) : VFlipOn (g ∘ f) := by
  intro a ha
  simp only [Function.comp, hf a ha, hg (f a)]

/-- two steps that commute with the flip on rectangular domains, the first keeping domains rectangular -/
theorem VFlipOn.comp {α β γ : Type} {f : Img α → Img β} {g : Img β → Img γ} (hf : VFlipOn f)
    (hd : ∀ a, RectDom a → RectDom (f a)) (hg : VFlipOn g) : VFlipOn (g ∘ f) := by
  intro a ha
  simp only [Function.comp, hf a ha, hg (f a) (hd a ha)]

theorem VFlip.pair {α β γ : Type} {f : Img α → Img β} {g : Img α → Img γ} (hf : VFlip f) (hg : VFlip g) :
    VFlip (pairStep f g) := by
  intro a
  funext p
  simp only [pairStep, hf a, hg a, vflip]

theorem VFlipOn.pair {α β γ : Type} {f : Img α → Img β} {g : Img α → Img γ} (hf : VFlipOn f) (hg : VFlipOn g) :
    VFlipOn (pairStep f g) := by
  intro a ha
  funext p
  simp only [pairStep, hf a ha, hg a ha, vflip]

theorem VFlip.map {α β γ : Type} {f : Img α → Img β} (hf : VFlip f) (g : β → γ) :
    VFlip (fun a p => (f a p).map g) := by
  intro a
  funext p
  simp only [hf a, vflip]

theorem VFlip.bind {α β γ : Type} {f : Img α → Img β} (hf : VFlip f) (g : β → Option γ) :
    VFlip (fun a p => (f a p).bind g) := by
  intro a
  funext p
  simp only [hf a, vflip]

theorem VFlipOn.map {α β γ : Type} {f : Img α → Img β} (hf : VFlipOn f) (g : β → γ) :
    VFlipOn (fun a p => (f a p).map g) := by
  intro a ha
  funext p
  simp only [hf a ha, vflip]

theorem VFlipOn.bind {α β γ : Type} {f : Img α → Img β} (hf : VFlipOn f) (g : β → Option γ) :
    VFlipOn (fun a p => (f a p).bind g) := by
  intro a ha
  funext p
  simp only [hf a ha, vflip]

/-! ### arrays -/

/-- the array listed bottom-up -/
def flipArr {α : Type} (ny : Nat) (data : Nat → Nat → α) : Nat → Nat → α := fun r c => data (ny - 1 - r) c

theorem flipArr_flipArr {α : Type} (ny : Nat) (data : Nat → Nat → α) (r c : Nat) (hr : r < ny) :
    flipArr ny (flipArr ny data) r c = data r c := by
  unfold flipArr
  congr 1
  omega

/-- **The partial image of the flipped array is the flipped partial image**, re-indexed so that its rows
    are `0 … ny-1` again. -/
theorem toImg_flipArr {α : Type} (ny nx : Nat) (data : Nat → Nat → α) :
    toImg ny nx (flipArr ny data) = shift (-((ny : Int) - 1), 0) (vflip (toImg ny nx data)) := by
  funext q
  unfold shift vflip toImg flipArr
  simp only
  by_cases h : 0 ≤ q.1 ∧ q.1 < ny ∧ 0 ≤ q.2 ∧ q.2 < nx
  · have h' : 0 ≤ -(q.1 + -((ny : Int) - 1)) ∧ -(q.1 + -((ny : Int) - 1)) < ny ∧ 0 ≤ q.2 + 0 ∧ q.2 + 0 < nx := by
      omega
    rw [if_pos h, if_pos h']
    have e1 : (-(q.1 + -((ny : Int) - 1))).toNat = ny - 1 - q.1.toNat := by omega
    have e2 : (q.2 + 0).toNat = q.2.toNat := by omega
    rw [e1, e2]
  · have h' : ¬ (0 ≤ -(q.1 + -((ny : Int) - 1)) ∧ -(q.1 + -((ny : Int) - 1)) < ny ∧ 0 ≤ q.2 + 0 ∧ q.2 + 0 < nx) := by
      omega
    rw [if_neg h, if_neg h']

/-- **Flipped run = run, read bottom-up.**  For a translation-equivariant step `f` that commutes with the
    flip (on rectangular domains), running `f` on the array listed bottom-up gives at pixel `(r, c)` what
    running it on the array gives at `(ny - 1 - r, c)`. -/
theorem flip_run_eq {α β : Type} {f : Img α → Img β} (hf : Equivariant f) (hv : VFlipOn f)
    (ny nx : Nat) (data : Nat → Nat → α) (p : Px) :
    f (toImg ny nx (flipArr ny data)) p = f (toImg ny nx data) ((ny : Int) - 1 - p.1, p.2) := by
  rw [toImg_flipArr, hf, hv _ (rectDom_toImg ny nx data)]
  unfold shift vflip
  simp only
  congr 1
  ext
  · simp only; omega
  · simp only; omega

/-! ### pointwise steps -/

/-- **Winner-takes-all commutes with the flip** (pointwise). -/
theorem wtaStep_vflip (isMax : Bool) (disps : List Rat) (invalid : Val) : VFlip (wtaStep isMax disps invalid) :=
  fun _ => rfl

/-- **Refinement commutes with the flip** (pointwise). -/
theorem refineStep_vflip (P : Refinement.Params) : VFlip (refineStep P) := fun _ => rfl

/-! ### cross-checking -/

/-- the test of `mask_border` is symmetric in the two vertical probes -/
theorem ccG_swap (V : CrossCheck.Variant) (P : CrossCheck.Params) (x b1 b2 b3 b4 : Option CcCell)
    (rs : List (Option CcCell)) :
    ccG V P (x :: b1 :: b2 :: b3 :: b4 :: rs) = ccG V P (x :: b2 :: b1 :: b3 :: b4 :: rs) := by
  cases x with
  | none => rfl
  | some x =>
    obtain ⟨dl, flag, dr⟩ := x
    simp only [ccG]
    have hc : (P.offset > 0 ∧ (b1.isNone = true ∨ b2.isNone = true ∨ b3.isNone = true ∨ b4.isNone = true)) ↔
        (P.offset > 0 ∧ (b2.isNone = true ∨ b1.isNone = true ∨ b3.isNone = true ∨ b4.isNone = true)) := by
      rw [or_left_comm]
    simp only [hc]

/-- **Cross-checking commutes with the flip**: it reads the pixel's own row, and the two vertical
    `mask_border` probes `(-offset, 0)`, `(offset, 0)` are exchanged. -/
theorem ccStep_vflip (V : CrossCheck.Variant) (P : CrossCheck.Params) : VFlip (ccStep V P) := by
  intro a
  unfold ccStep
  apply stencil_vflip
  intro a p
  unfold ccOffs
  simp only [List.map_cons, List.map_map, Int.add_zero, Int.sub_zero, Int.sub_neg]
  have e : (p.1 - (P.offset : Int)) = p.1 + -(P.offset : Int) := by omega
  have hrs : List.map ((fun d : Px => a (p.1 + d.1, p.2 + d.2)) ∘ fun d => ((0 : Int), d)) (CrossCheck.arange P.dmin P.dmax)
      = List.map ((fun d : Px => a (p.1 - d.1, p.2 + d.2)) ∘ fun d => ((0 : Int), d)) (CrossCheck.arange P.dmin P.dmax) := by
    apply List.map_congr_left
    intro d _
    simp only [Function.comp, Int.add_zero, Int.sub_zero]
  rw [hrs, e]
  exact ccG_swap V P _ _ _ _ _ _

/-! ### median filter -/

/-- counting down is listing the range backwards -/
theorem range_map_sub_eq_reverse (w : Nat) : (List.range w).map (fun a => w - 1 - a) = (List.range w).reverse := by
  rw [List.range_eq_range', List.reverse_range']
  simp only [Nat.zero_add]
  rw [← List.range_eq_range']

theorem any_range_reverse (n : Nat) (f : Nat → Bool) :
    (List.range n).any (fun i => f (n - 1 - i)) = (List.range n).any f := by
  have h : (List.range n).any (fun i => f (n - 1 - i)) = ((List.range n).map (fun a => n - 1 - a)).any f := by
    rw [List.any_map]
    rfl
  rw [h, range_map_sub_eq_reverse, List.any_reverse]

open Filter in
/-- the rows of the window listed bottom-up: a permutation of the window -/
theorem cells_flipRows_perm (w : Nat) :
    List.Perm ((cells w).map fun p => (w - 1 - p.1, p.2)) (cells w) := by
  unfold cells
  rw [List.map_flatMap]
  simp only [List.map_map]
  have h1 : ((List.range w).flatMap fun a => List.map ((fun p : Nat × Nat => (w - 1 - p.1, p.2)) ∘ fun b => (a, b)) (List.range w))
      = ((List.range w).map (fun a => w - 1 - a)).flatMap (fun a => (List.range w).map fun b => (a, b)) := by
    rw [List.flatMap_map]
    rfl
  rw [h1, range_map_sub_eq_reverse]
  exact (List.reverse_perm _).flatMap_right _

/-- negating the row offsets of an odd window = listing its rows bottom-up -/
theorem winOffs_negRows (fs : Nat) (hodd : fs % 2 = 1) :
    (winOffs fs (fs / 2)).map (fun d => ((-d.1 : Int), d.2))
      = ((Filter.cells fs).map fun p => (fs - 1 - p.1, p.2)).map
          fun p => ((p.1 : Int) - ((fs / 2 : Nat) : Int), (p.2 : Int) - ((fs / 2 : Nat) : Int)) := by
  unfold winOffs
  rw [List.map_map, List.map_map]
  apply List.map_congr_left
  intro p hp
  have := (C10.mem_cells fs p.1 p.2).1 hp
  simp only [Function.comp]
  ext
  · simp only; omega
  · rfl

/-- the window read with negated row offsets is a permutation of the window -/
theorem window_neg_perm {α : Type} (fs : Nat) (hodd : fs % 2 = 1) (a : Img α) (p : Px) :
    List.Perm ((winOffs fs (fs / 2)).map fun d => a (p.1 - d.1, p.2 + d.2))
      ((winOffs fs (fs / 2)).map fun d => a (p.1 + d.1, p.2 + d.2)) := by
  have h1 : (winOffs fs (fs / 2)).map (fun d => a (p.1 - d.1, p.2 + d.2))
      = ((winOffs fs (fs / 2)).map (fun d => ((-d.1 : Int), d.2))).map fun d => a (p.1 + d.1, p.2 + d.2) := by
    rw [List.map_map]
    apply List.map_congr_left
    intro d _
    simp only [Function.comp]
    rfl
  rw [h1, winOffs_negRows fs hodd]
  have h2 : winOffs fs (fs / 2) = (Filter.cells fs).map
      fun p => ((p.1 : Int) - ((fs / 2 : Nat) : Int), (p.2 : Int) - ((fs / 2 : Nat) : Int)) := rfl
  rw [h2]
  exact ((cells_flipRows_perm fs).map _).map _

/-- `np.nanmedian` does not depend on the order of the window -/
theorem nanmedian_perm {l₁ l₂ : List Val} (h : List.Perm l₁ l₂) : Filter.nanmedian l₁ = Filter.nanmedian l₂ := by
  unfold Filter.nanmedian
  congr 1
  have hp : List.Perm (Filter.sortRat (Filter.nums l₁)) (Filter.sortRat (Filter.nums l₂)) :=
    ((Filter.sortRat_perm _).trans (h.filterMap _)).trans (Filter.sortRat_perm _).symm
  exact hp.eq_of_pairwise (le := fun (a b : Rat) => a ≤ b) (fun a b _ _ h1 h2 => Rat.le_antisymm h1 h2)
    (Filter.sortRat_sorted _) (Filter.sortRat_sorted _)

theorem all_perm {α : Type} {l₁ l₂ : List α} (h : List.Perm l₁ l₂) (q : α → Bool) : l₁.all q = l₂.all q := by
  rw [Bool.eq_iff_iff, List.all_eq_true, List.all_eq_true]
  exact ⟨fun H x hx => H x (h.mem_iff.2 hx), fun H x hx => H x (h.mem_iff.1 hx)⟩

/-- the function of the median stencil does not depend on the order of the window -/
theorem medianG_perm (invalidMask : Nat) (x : Option (Val × Nat)) {w₁ w₂ : List (Option (Val × Nat))}
    (h : List.Perm w₁ w₂) : medianG invalidMask (x :: w₁) = medianG invalidMask (x :: w₂) := by
  cases x with
  | none => rfl
  | some x =>
    obtain ⟨d, f⟩ := x
    simp only [medianG]
    rw [all_perm h, nanmedian_perm (h.map (maskedOpt invalidMask))]

/-- **The median filter of odd size commutes with the flip**: the window listed bottom-up is a permutation
    of the window, and the median (and the "whole window in the image" test) does not depend on the order. -/
theorem medianStep_vflip (invalidMask fs : Nat) (hodd : fs % 2 = 1) : VFlip (medianStep invalidMask fs) := by
  intro a
  unfold medianStep
  apply stencil_vflip
  intro a p
  simp only [List.map_cons, Int.add_zero, Int.sub_zero]
  exact (medianG_perm invalidMask _ (window_neg_perm fs hodd a p)).symm

/-! ### Non-vacuity -/

/-- a 3 × 2 array and its flip: row 0 of the flipped array is row 2 of the array -/
example : flipArr 3 (fun r c => 10 * r + c) 0 1 = 21 := by decide

example : RectDom (toImg 3 2 (fun r c => 10 * r + c)) := rectDom_toImg _ _ _

/-- `flip_run_eq` applies to the median filter of size 3 on any array -/
example (ny nx : Nat) (data : Nat → Nat → Val × Nat) (p : Px) :
    medianStep 1 3 (toImg ny nx (flipArr ny data)) p = medianStep 1 3 (toImg ny nx data) ((ny : Int) - 1 - p.1, p.2) :=
  flip_run_eq (medianStep_equivariant 1 3) (medianStep_vflip 1 3 (by decide)).toOn ny nx data p

/-- a domain that is not a product: the two pixels (0,0) and (1,1) only -/
example : ¬ RectDom (fun (p : Px) => if p = (0, 0) ∨ p = (1, 1) then some () else none) := by
  rintro ⟨Rr, Cc, h⟩
  have h00 := (h 0 0).1 (by decide)
  have h11 := (h 1 1).1 (by decide)
  have h01 := (h 0 1).2 ⟨h00.1, h11.2⟩
  exact absurd h01 (by decide)

end Pandora.C13
