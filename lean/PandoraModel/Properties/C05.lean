/-
  C05 — Configuration checking completes, preserves and polices every parameter.

  The theorems are about the executable model `Model/Config.lean` instantiated with the tables the
  translator regenerated from the step modules on this run (`Generated/Schemas.lean`), and about
  the hand-written documentation tables of `Model/ConfigSpec.lean`.

  Contents
    1. dictionaries (`d[k] = v`, lookup)
    2. the default-insertion sequence of any class (`runActions`): lookup table of the result,
       key order of the result, idempotence — for every action list satisfying `wfActions`
    3. `classCheck`: user keys kept, defaults added, idempotent, accepted iff guards + schema
    4. the generated tables: well-formed, defaults = documented defaults            (`decide`)
    5. every generated schema entry against its documented domain, for ALL values
    6. counterexamples (findings): NaN inside a list, multi-character band names,
       a reused machine
    7. from entries to whole steps: a step the documentation refuses is refused, a step the
       documentation accepts is accepted — for every class, every configuration
    8. the defaults of the input section
    9. `PandoraMachine.check_conf` on a fresh machine: `pipeline_cfg` = the configured steps, in
       order, each with what its class returned (both rounds)
   10. `update_conf` on a dictionary of leaves: user values stored (rewritten) at their keys,
       defaults kept, positions
-/
import PandoraModel.Model.ConfigSpec
import PandoraModel.Generated.Schemas

namespace Pandora.C05
open Pandora Pandora.Config Pandora.ConfigSpec

/-! ### Dictionaries -/

theorem hasKey_iff_mem_keys (d : Dict) (k : String) : Dict.hasKey d k = true ↔ k ∈ Dict.keys d := by
  induction d with
  | nil => simp [Dict.hasKey, Dict.lookup, Dict.keys]
  | cons kv rest ih =>
    obtain ⟨k', v⟩ := kv
    by_cases h : k' = k
    · simp [Dict.hasKey, Dict.lookup, Dict.keys, h]
    · have : Dict.hasKey ((k', v) :: rest) k = Dict.hasKey rest k := by
        simp [Dict.hasKey, Dict.lookup, h]
      rw [this, ih]
      simp [Dict.keys, List.mem_cons, Ne.symm h]

theorem lookup_none_iff (d : Dict) (k : String) : Dict.lookup d k = none ↔ k ∉ Dict.keys d := by
  rw [← hasKey_iff_mem_keys]
  simp [Dict.hasKey]

theorem setKey_absent (d : Dict) (k : String) (v : JVal) (h : Dict.lookup d k = none) :
    Dict.setKey d k v = d ++ [(k, v)] := by
  induction d with
  | nil => simp [Dict.setKey]
  | cons kv rest ih =>
    obtain ⟨k', v'⟩ := kv
    by_cases hk : k' = k
    · simp [Dict.lookup, hk] at h
    · simp [Dict.lookup, hk] at h
      simp [Dict.setKey, hk, ih h]

theorem keys_setKey_present (d : Dict) (k : String) (v : JVal) (h : Dict.lookup d k ≠ none) :
    Dict.keys (Dict.setKey d k v) = Dict.keys d := by
  induction d with
  | nil => simp [Dict.lookup] at h
  | cons kv rest ih =>
    obtain ⟨k', v'⟩ := kv
    by_cases hk : k' = k
    · simp [Dict.setKey, hk, Dict.keys]
    · simp [Dict.lookup, hk] at h
      have := ih h
      simp [Dict.setKey, hk, Dict.keys] at this ⊢
      exact this

theorem lookup_setKey (d : Dict) (k k' : String) (v : JVal) :
    Dict.lookup (Dict.setKey d k v) k' = if k = k' then some v else Dict.lookup d k' := by
  induction d with
  | nil =>
    by_cases h : k = k' <;> simp [Dict.setKey, Dict.lookup, h]
  | cons kv rest ih =>
    obtain ⟨k0, v0⟩ := kv
    by_cases h0 : k0 = k
    · subst h0
      by_cases h : k0 = k' <;> simp [Dict.setKey, Dict.lookup, h]
    · by_cases h : k = k'
      · subst h
        simp [Dict.setKey, Dict.lookup, h0, ih]
      · by_cases h1 : k0 = k'
        · subst h1
          simp [Dict.setKey, Dict.lookup, h0, h]
        · simp [Dict.setKey, Dict.lookup, h0, h1, ih, h]


/-! ### The default-insertion sequence of a class's `check_conf` -/

/-- keys a default is inserted for, in order -/
def defaultKeys : List Action → List String
  | [] => []
  | .default k _ :: r => k :: defaultKeys r
  | .defaultElifNaN k _ :: r => k :: defaultKeys r
  | _ :: r => defaultKeys r

/-- keys whose user value `"NaN"` is replaced by the float -/
def nanKeys : List Action → List String
  | [] => []
  | .defaultElifNaN k _ :: r => k :: nanKeys r
  | _ :: r => nanKeys r

/-- the default the sequence inserts for `k` -/
def defaultOf : List Action → String → Option JVal
  | [], _ => none
  | .default k v :: r, key => if k = key then some v else defaultOf r key
  | .defaultElifNaN k v :: r, key => if k = key then some v else defaultOf r key
  | _ :: r, key => defaultOf r key

/-- what a user value becomes -/
def nanFix (acts : List Action) (k : String) (v : JVal) : JVal :=
  if (nanKeys acts).contains k && pyEq v (.str "NaN") then .float .nan else v

/-- well-formed action list: one default per key, the value of a `"NaN"`-rewriting default is not
    itself `"NaN"`, and a guard `cfg[k] != v` is compatible with what follows it (no later rewrite
    of `k`, a later default of `k` passes the guard) -/
def wfActions : List Action → Bool
  | [] => true
  | .default k _ :: r => !(defaultKeys r).contains k && wfActions r
  | .defaultElifNaN k v :: r => !(defaultKeys r).contains k && !(pyEq v (.str "NaN")) && wfActions r
  | .guardNe k v _ :: r =>
    !(nanKeys r).contains k && (match defaultOf r k with | some d => pyEq d v | none => true) && wfActions r
  | .refuseGrids :: r => wfActions r

theorem nanKeys_sub_defaultKeys (acts : List Action) (k : String) (h : k ∈ nanKeys acts) :
    k ∈ defaultKeys acts := by
  induction acts with
  | nil => simp [nanKeys] at h
  | cons a r ih =>
    cases a <;> simp [nanKeys, defaultKeys] at h ⊢
    · exact Or.inr (ih h)
    · rcases h with h | h
      · exact Or.inl h
      · exact Or.inr (ih h)
    · exact ih h
    · exact ih h

theorem defaultOf_none_of_not_mem (acts : List Action) (k : String) (h : k ∉ defaultKeys acts) :
    defaultOf acts k = none := by
  induction acts with
  | nil => simp [defaultOf]
  | cons a r ih =>
    cases a <;> simp [defaultKeys] at h <;> simp [defaultOf, *]
    · rename_i k0 v0; intro e; exact absurd e.symm h.1
    · rename_i k0 v0; intro e; exact absurd e.symm h.1

theorem pyEq_nan_NaN : pyEq (.float .nan) (.str "NaN") = false := by
  simp [pyEq, JVal.toNum?]

theorem nanFix_nil (k : String) (v : JVal) : nanFix [] k v = v := by simp [nanFix, nanKeys]

theorem nanFix_of_not_mem (acts : List Action) (k : String) (v : JVal) (h : k ∉ nanKeys acts) :
    nanFix acts k v = v := by simp [nanFix, h]

@[simp] theorem nanFix_default (k0 : String) (v0 : JVal) (rest : List Action) (k : String) (u : JVal) :
    nanFix (.default k0 v0 :: rest) k u = nanFix rest k u := by simp [nanFix, nanKeys]

@[simp] theorem nanFix_guard (k0 : String) (v0 : JVal) (e : Err) (rest : List Action) (k : String) (u : JVal) :
    nanFix (.guardNe k0 v0 e :: rest) k u = nanFix rest k u := by simp [nanFix, nanKeys]

@[simp] theorem nanFix_refuse (rest : List Action) (k : String) (u : JVal) :
    nanFix (.refuseGrids :: rest) k u = nanFix rest k u := by simp [nanFix, nanKeys]

theorem nanFix_elif_ne (k0 : String) (v0 : JVal) (rest : List Action) (k : String) (u : JVal) (h : k0 ≠ k) :
    nanFix (.defaultElifNaN k0 v0 :: rest) k u = nanFix rest k u := by
  have : ¬ k = k0 := fun e => h e.symm
  simp [nanFix, nanKeys, this]

theorem nanFix_elif_self_nan (k0 : String) (v0 : JVal) (rest : List Action) (u : JVal)
    (h : pyEq u (.str "NaN") = true) : nanFix (.defaultElifNaN k0 v0 :: rest) k0 u = .float .nan := by
  simp [nanFix, nanKeys, h]

theorem nanFix_elif_self_not (k0 : String) (v0 : JVal) (rest : List Action) (u : JVal)
    (h : ¬ pyEq u (.str "NaN") = true) : nanFix (.defaultElifNaN k0 v0 :: rest) k0 u = u := by
  simp [nanFix, nanKeys, h]

theorem runActions_ok_cons {l r : ImgInfo} {a : Action} {rest : List Action} {cfg out : Dict}
    (h : runActions l r (a :: rest) cfg = .ok out) :
    ∃ cfg', runAction l r cfg a = .ok cfg' ∧ runActions l r rest cfg' = .ok out := by
  simp only [runActions] at h
  cases hA : runAction l r cfg a with
  | error e => simp [hA] at h
  | ok cfg' => exact ⟨cfg', rfl, by simpa [hA] using h⟩

/-- every user key keeps its value (up to the `"NaN"` rewrite) and every omitted key gets the
    default of the sequence — as a lookup table -/
theorem runActions_lookup (l r : ImgInfo) (acts : List Action) :
    ∀ (cfg out : Dict), wfActions acts = true → runActions l r acts cfg = .ok out → ∀ k,
      Dict.lookup out k =
        match Dict.lookup cfg k with
        | some u => some (nanFix acts k u)
        | none => defaultOf acts k := by
  induction acts with
  | nil =>
    intro cfg out _ h k
    simp [runActions] at h
    subst h
    cases Dict.lookup cfg k <;> simp [nanFix_nil, defaultOf]
  | cons a rest ih =>
    intro cfg out hwf h k
    obtain ⟨cfg', hA, hR⟩ := runActions_ok_cons h
    cases a with
    | default k0 v0 =>
      simp only [wfActions, Bool.and_eq_true, Bool.not_eq_true', List.contains_eq_mem,
        decide_eq_false_iff_not] at hwf
      have hnd : k0 ∉ defaultKeys rest := by simpa using hwf.1
      have hnn : k0 ∉ nanKeys rest := fun hm => hnd (nanKeys_sub_defaultKeys rest k0 hm)
      have ih' := ih cfg' out hwf.2 hR k
      simp only [runAction] at hA
      by_cases hk : Dict.hasKey cfg k0 = true
      · simp [hk] at hA; subst hA
        rw [ih']
        cases hl : Dict.lookup cfg k with
        | some u => simp
        | none =>
          have : k0 ≠ k := by
            intro e; subst e; simp [Dict.hasKey, hl] at hk
          simp [defaultOf, this]
      · simp [hk] at hA; subst hA
        rw [ih', lookup_setKey]
        by_cases e : k0 = k
        · subst e
          have hl : Dict.lookup cfg k0 = none := by
            simpa [Dict.hasKey] using hk
          simp [hl, defaultOf, nanFix_of_not_mem rest k0 v0 hnn]
        · simp [e, defaultOf]
    | defaultElifNaN k0 v0 =>
      simp only [wfActions, Bool.and_eq_true, Bool.not_eq_true', List.contains_eq_mem,
        decide_eq_false_iff_not] at hwf
      have hnd : k0 ∉ defaultKeys rest := by simpa using hwf.1.1
      have hnn : k0 ∉ nanKeys rest := fun hm => hnd (nanKeys_sub_defaultKeys rest k0 hm)
      have ih' := ih cfg' out hwf.2 hR k
      simp only [runAction] at hA
      cases hl0 : Dict.lookup cfg k0 with
      | none =>
        simp [hl0] at hA; subst hA
        rw [ih', lookup_setKey]
        by_cases e : k0 = k
        · subst e
          simp [hl0, defaultOf, nanFix_of_not_mem rest k0 v0 hnn]
        · simp [e, defaultOf]
          cases Dict.lookup cfg k <;> simp [nanFix_elif_ne _ _ _ _ _ e]
      | some cur =>
        simp [hl0] at hA
        by_cases hp : pyEq cur (.str "NaN") = true
        · simp [hp] at hA; subst hA
          rw [ih', lookup_setKey]
          by_cases e : k0 = k
          · subst e
            simp [hl0, nanFix_elif_self_nan _ _ _ _ hp, nanFix_of_not_mem rest k0 _ hnn]
          · simp [e]
            cases Dict.lookup cfg k <;> simp [nanFix_elif_ne _ _ _ _ _ e, defaultOf, e]
        · simp [hp] at hA; subst hA
          rw [ih']
          by_cases e : k0 = k
          · subst e
            simp [hl0, nanFix_elif_self_not _ _ _ _ hp, nanFix_of_not_mem rest k0 _ hnn]
          · cases Dict.lookup cfg k <;> simp [nanFix_elif_ne _ _ _ _ _ e, defaultOf, e]
    | guardNe k0 v0 e0 =>
      simp only [wfActions, Bool.and_eq_true] at hwf
      have ih' := ih cfg' out hwf.2 hR k
      have : cfg' = cfg := by
        simp only [runAction] at hA
        cases hl0 : Dict.lookup cfg k0 with
        | none => simp [hl0] at hA; exact hA.symm
        | some cur =>
          simp [hl0] at hA
          by_cases hp : pyEq cur v0 = true
          · simp [hp] at hA; exact hA.symm
          · simp [hp] at hA
      subst this
      rw [ih']
      cases Dict.lookup cfg' k <;> simp [defaultOf]
    | refuseGrids =>
      simp only [wfActions] at hwf
      have ih' := ih cfg' out hwf hR k
      have : cfg' = cfg := by
        simp only [runAction] at hA
        by_cases hg : (l.dispSource.isStr || r.dispSource.isStr) = true
        · simp [hg] at hA
        · simp [hg] at hA; exact hA.symm
      subst this
      rw [ih']
      cases Dict.lookup cfg' k <;> simp [defaultOf]

/-- the keys of the result: the user's keys in the user's order, then the omitted defaulted keys
    in the order of the sequence -/
theorem runActions_keys (l r : ImgInfo) (acts : List Action) :
    ∀ (cfg out : Dict), wfActions acts = true → runActions l r acts cfg = .ok out →
      Dict.keys out = Dict.keys cfg ++ (defaultKeys acts).filter (fun k => !(Dict.keys cfg).contains k) := by
  induction acts with
  | nil =>
    intro cfg out _ h
    simp [runActions] at h
    subst h
    simp [defaultKeys]
  | cons a rest ih =>
    intro cfg out hwf h
    obtain ⟨cfg', hA, hR⟩ := runActions_ok_cons h
    cases a with
    | default k0 v0 =>
      simp only [wfActions, Bool.and_eq_true, Bool.not_eq_true', List.contains_eq_mem,
        decide_eq_false_iff_not] at hwf
      have hnd : k0 ∉ defaultKeys rest := by simpa using hwf.1
      have ih' := ih cfg' out hwf.2 hR
      simp only [runAction] at hA
      by_cases hk : Dict.hasKey cfg k0 = true
      · simp [hk] at hA; subst hA
        have hm : k0 ∈ Dict.keys cfg := (hasKey_iff_mem_keys cfg k0).1 hk
        rw [ih']
        simp [defaultKeys, hm]
      · simp [hk] at hA; subst hA
        have hl : Dict.lookup cfg k0 = none := by simpa [Dict.hasKey] using hk
        have hm : k0 ∉ Dict.keys cfg := (lookup_none_iff cfg k0).1 hl
        rw [ih', setKey_absent cfg k0 v0 hl]
        simp only [Dict.keys, List.map_append, List.map_cons, List.map_nil, defaultKeys, List.filter_cons]
        simp only [Dict.keys] at hm
        simp [hm]
        apply List.filter_congr
        intro x hx
        have : x ≠ k0 := fun e => hnd (e ▸ hx)
        simp [this]
    | defaultElifNaN k0 v0 =>
      simp only [wfActions, Bool.and_eq_true, Bool.not_eq_true', List.contains_eq_mem,
        decide_eq_false_iff_not] at hwf
      have hnd : k0 ∉ defaultKeys rest := by simpa using hwf.1.1
      have ih' := ih cfg' out hwf.2 hR
      simp only [runAction] at hA
      cases hl0 : Dict.lookup cfg k0 with
      | none =>
        simp [hl0] at hA; subst hA
        have hm : k0 ∉ Dict.keys cfg := (lookup_none_iff cfg k0).1 hl0
        rw [ih', setKey_absent cfg k0 v0 hl0]
        simp only [Dict.keys, List.map_append, List.map_cons, List.map_nil, defaultKeys, List.filter_cons]
        simp only [Dict.keys] at hm
        simp [hm]
        apply List.filter_congr
        intro x hx
        have : x ≠ k0 := fun e => hnd (e ▸ hx)
        simp [this]
      | some cur =>
        have hm : k0 ∈ Dict.keys cfg := by
          rw [← hasKey_iff_mem_keys]; simp [Dict.hasKey, hl0]
        have hkeys : Dict.keys cfg' = Dict.keys cfg := by
          simp [hl0] at hA
          by_cases hp : pyEq cur (.str "NaN") = true
          · simp [hp] at hA; subst hA
            exact keys_setKey_present cfg k0 _ (by simp [hl0])
          · simp [hp] at hA; subst hA; rfl
        rw [ih', hkeys]
        simp [defaultKeys, hm]
    | guardNe k0 v0 e0 =>
      simp only [wfActions, Bool.and_eq_true] at hwf
      have ih' := ih cfg' out hwf.2 hR
      have : cfg' = cfg := by
        simp only [runAction] at hA
        cases hl0 : Dict.lookup cfg k0 with
        | none => simp [hl0] at hA; exact hA.symm
        | some cur =>
          simp [hl0] at hA
          by_cases hp : pyEq cur v0 = true
          · simp [hp] at hA; exact hA.symm
          · simp [hp] at hA
      subst this
      rw [ih']; simp [defaultKeys]
    | refuseGrids =>
      simp only [wfActions] at hwf
      have ih' := ih cfg' out hwf hR
      have : cfg' = cfg := by
        simp only [runAction] at hA
        by_cases hg : (l.dispSource.isStr || r.dispSource.isStr) = true
        · simp [hg] at hA
        · simp [hg] at hA; exact hA.symm
      subst this
      rw [ih']; simp [defaultKeys]

/-- running the sequence again on its own result changes nothing -/
theorem runActions_idem (l r : ImgInfo) (acts : List Action) :
    ∀ (cfg out : Dict), wfActions acts = true → runActions l r acts cfg = .ok out →
      runActions l r acts out = .ok out := by
  induction acts with
  | nil => intro cfg out _ _; simp [runActions]
  | cons a rest ih =>
    intro cfg out hwf h
    obtain ⟨cfg', hA, hR⟩ := runActions_ok_cons h
    have hwfr : wfActions rest = true := by
      cases a <;> simp only [wfActions, Bool.and_eq_true] at hwf
      · exact hwf.2
      · exact hwf.2
      · exact hwf.2
      · exact hwf
    have ihR := ih cfg' out hwfr hR
    have hlook := runActions_lookup l r rest cfg' out hwfr hR
    suffices hS : runAction l r out a = .ok out by
      simp [runActions, hS, ihR]
    cases a with
    | default k0 v0 =>
      -- cfg' has the key, hence out has it
      have hc : Dict.hasKey cfg' k0 = true := by
        simp only [runAction] at hA
        by_cases hk : Dict.hasKey cfg k0 = true
        · simp [hk] at hA; subst hA; exact hk
        · simp [hk] at hA; subst hA
          simp [Dict.hasKey, lookup_setKey]
      have : Dict.hasKey out k0 = true := by
        have := hlook k0
        simp only [Dict.hasKey] at hc ⊢
        cases hl : Dict.lookup cfg' k0 with
        | none => simp [hl] at hc
        | some u => simp [hl] at this; simp [this]
      simp [runAction, this]
    | defaultElifNaN k0 v0 =>
      simp only [wfActions, Bool.and_eq_true, Bool.not_eq_true', List.contains_eq_mem,
        decide_eq_false_iff_not] at hwf
      have hnd : k0 ∉ defaultKeys rest := by simpa using hwf.1.1
      have hnn : k0 ∉ nanKeys rest := fun hm => hnd (nanKeys_sub_defaultKeys rest k0 hm)
      have hv0 : pyEq v0 (.str "NaN") = false := hwf.1.2
      -- the value of k0 in cfg' is not "NaN"
      have hc : ∃ x, Dict.lookup cfg' k0 = some x ∧ pyEq x (.str "NaN") = false := by
        simp only [runAction] at hA
        cases hl0 : Dict.lookup cfg k0 with
        | none =>
          simp [hl0] at hA; subst hA
          exact ⟨v0, by simp [lookup_setKey], hv0⟩
        | some cur =>
          simp [hl0] at hA
          by_cases hp : pyEq cur (.str "NaN") = true
          · simp [hp] at hA; subst hA
            exact ⟨.float .nan, by simp [lookup_setKey], pyEq_nan_NaN⟩
          · simp [hp] at hA; subst hA
            exact ⟨cur, hl0, by simpa using hp⟩
      obtain ⟨x, hx, hxn⟩ := hc
      have := hlook k0
      simp [hx, nanFix_of_not_mem rest k0 x hnn] at this
      simp [runAction, this, hxn]
    | guardNe k0 v0 e0 =>
      simp only [wfActions, Bool.and_eq_true, Bool.not_eq_true', List.contains_eq_mem,
        decide_eq_false_iff_not] at hwf
      have hnn : k0 ∉ nanKeys rest := by simpa using hwf.1.1
      have hpass : cfg' = cfg ∧ (∀ cur, Dict.lookup cfg k0 = some cur → pyEq cur v0 = true) := by
        simp only [runAction] at hA
        cases hl0 : Dict.lookup cfg k0 with
        | none => simp [hl0] at hA; exact ⟨hA.symm, by intro cur hc; simp at hc⟩
        | some cur =>
          simp [hl0] at hA
          by_cases hp : pyEq cur v0 = true
          · simp [hp] at hA; exact ⟨hA.symm, by intro c hc; simp at hc; subst hc; exact hp⟩
          · simp [hp] at hA
      obtain ⟨hcfg, hp⟩ := hpass
      subst hcfg
      have := hlook k0
      cases hl0 : Dict.lookup cfg' k0 with
      | some cur =>
        simp [hl0, nanFix_of_not_mem rest k0 cur hnn] at this
        simp [runAction, this, hp cur hl0]
      | none =>
        simp [hl0] at this
        cases hd : defaultOf rest k0 with
        | none => simp [hd] at this; simp [runAction, this]
        | some d =>
          have hdv : pyEq d v0 = true := by
            have := hwf.1.2; simp [hd] at this; exact this
          simp [hd] at this
          simp [runAction, this, hdv]
    | refuseGrids =>
      have : cfg' = cfg := by
        simp only [runAction] at hA
        by_cases hg : (l.dispSource.isStr || r.dispSource.isStr) = true
        · simp [hg] at hA
        · simp [hg] at hA; exact hA.symm
      simp only [runAction] at hA ⊢
      by_cases hg : (l.dispSource.isStr || r.dispSource.isStr) = true
      · simp [hg] at hA
      · simp [hg]

/-! ### 3. `classCheck` -/

theorem classCheck_ok {o : Oracle} {c : ClassDesc} {l r : ImgInfo} {cfg out : Dict}
    (h : classCheck o c l r cfg = .ok out) :
    runActions l r c.actions cfg = .ok out ∧ Schema.accepts o (.dict c.schema) (.obj out) = true := by
  unfold classCheck at h
  cases hA : runActions l r c.actions cfg with
  | error e => simp [hA] at h
  | ok cfg' =>
    simp [hA] at h
    by_cases hs : Schema.accepts o (.dict c.schema) (.obj cfg') = true
    · simp [hs] at h; subst h; exact ⟨rfl, hs⟩
    · simp [hs] at h

/-- acceptance is exactly: the guards pass and the completed dictionary validates -/
theorem classCheck_ok_iff (o : Oracle) (c : ClassDesc) (l r : ImgInfo) (cfg out : Dict) :
    classCheck o c l r cfg = .ok out ↔
      runActions l r c.actions cfg = .ok out ∧ Schema.accepts o (.dict c.schema) (.obj out) = true := by
  constructor
  · exact classCheck_ok
  · intro ⟨h1, h2⟩
    simp [classCheck, h1, h2]

/-- **user keys kept**: every key the user supplied is in the result with its value (the string
    `"NaN"` of a NaN-rewriting key becomes the float) … -/
theorem classCheck_user_values_kept {o : Oracle} {c : ClassDesc} {l r : ImgInfo} {cfg out : Dict}
    (hwf : wfActions c.actions = true) (h : classCheck o c l r cfg = .ok out) (k : String) (u : JVal)
    (hk : Dict.lookup cfg k = some u) : Dict.lookup out k = some (nanFix c.actions k u) := by
  have := runActions_lookup l r c.actions cfg out hwf (classCheck_ok h).1 k
  simpa [hk] using this

/-- … and at its position: the user's keys, in the user's order, are the first keys of the result -/
theorem classCheck_user_positions_kept {o : Oracle} {c : ClassDesc} {l r : ImgInfo} {cfg out : Dict}
    (hwf : wfActions c.actions = true) (h : classCheck o c l r cfg = .ok out) :
    (Dict.keys out).take (Dict.keys cfg).length = Dict.keys cfg := by
  rw [runActions_keys l r c.actions cfg out hwf (classCheck_ok h).1]
  simp

/-- **defaults added**: every omitted key with a default appears with that default, after the
    user's keys, in the order of the sequence; nothing else is added -/
theorem classCheck_defaults_added {o : Oracle} {c : ClassDesc} {l r : ImgInfo} {cfg out : Dict}
    (hwf : wfActions c.actions = true) (h : classCheck o c l r cfg = .ok out) :
    (∀ k, Dict.lookup cfg k = none → Dict.lookup out k = defaultOf c.actions k) ∧
    Dict.keys out = Dict.keys cfg ++ (defaultKeys c.actions).filter (fun k => !(Dict.keys cfg).contains k) := by
  refine ⟨?_, runActions_keys l r c.actions cfg out hwf (classCheck_ok h).1⟩
  intro k hk
  have := runActions_lookup l r c.actions cfg out hwf (classCheck_ok h).1 k
  simpa [hk] using this

/-- **idempotent**: checking the returned dictionary again returns it unchanged -/
theorem classCheck_idempotent {o : Oracle} {c : ClassDesc} {l r : ImgInfo} {cfg out : Dict}
    (hwf : wfActions c.actions = true) (h : classCheck o c l r cfg = .ok out) :
    classCheck o c l r out = .ok out := by
  obtain ⟨h1, h2⟩ := classCheck_ok h
  simp [classCheck, runActions_idem l r c.actions cfg out hwf h1, h2]

/-! ### 4. The generated tables -/

open Pandora.Generated.Schemas

/-- every built-in class of the source, with its step kind -/
def allClasses : List (String × ClassDesc) :=
  registry.flatMap (fun k => k.classes.map (fun c => (k.kind, c)))

/-- the default sequences of the source are well-formed (so the theorems of §2–§3 apply) -/
theorem generated_wf : allClasses.all (fun kc => wfActions kc.2.actions) = true := by decide

theorem generated_wf_of_mem {kc : String × ClassDesc} (h : kc ∈ allClasses) :
    wfActions kc.2.actions = true := by
  have := generated_wf
  rw [List.all_eq_true] at this
  exact this kc h

/-- the class of the source and the documented class agree on: the parameter set, which
    parameters have a default, the documented default values, the optional key, the method key -/
def defaultsAgree (c : ClassDesc) (d : DocClass) : Bool :=
  d.params.all (fun p =>
    match p.default with
    | .value v => defaultOf c.actions p.name == some v
    | .optional => (defaultOf c.actions p.name).isNone && c.schema.any (fun e => e.1 == p.name && e.2.1)
    | .unsettled => (defaultOf c.actions p.name).isSome) &&
  (defaultKeys c.actions).all (fun k => d.params.any (fun p => p.name == k)) &&
  c.schema.all (fun e => e.1 == d.methodKey || d.params.any (fun p => p.name == e.1)) &&
  d.params.all (fun p => c.schema.any (fun e => e.1 == p.name)) &&
  c.schema.any (fun e => e.1 == d.methodKey && !e.2.1)

/-- **defaults documented**: window_size 5, subpix 1, cbca 30.0/5, invalid_disparity −9999,
    filter_size 3, sigma 2.0/6.0, eta 0.7/0.01, cross_checking_threshold 1.0, num_scales 2,
    scale_factor 2, marge 1 (and the others of the user guide): what the source inserts is what
    the documentation table says, for every registered method of every class -/
theorem generated_defaults_documented :
    allClasses.all (fun kc => kc.2.names.all (fun m =>
      match docClass? kc.1 m with
      | some d => defaultsAgree kc.2 d
      | none => false)) = true := by decide

/-- every documented method is a registered one (no documented method is missing in the source) -/
theorem documented_methods_registered :
    docTable.all (fun d => d.methods.all (fun m =>
      allClasses.any (fun kc => kc.1 == d.kind && kc.2.names.contains m))) = true := by decide

/-- the method-name entry of a class's schema accepts the names the class is registered under -/
theorem method_entry_accepts_names :
    registry.all (fun k => k.classes.all (fun c => c.names.all (fun m =>
      Schema.accepts noOracle (.dict (c.schema.filter (fun e => e.1 == k.methodKey)))
        (.obj [(k.methodKey, .str m)])))) = true := by decide

/-! ### 5. Every schema entry against its documented domain, for all values -/

/-- what "the check agrees with the documentation on this value" means -/
def Agrees (b : Bool) : Dom → Prop
  | .accept => b = true
  | .reject => b = false
  | .undecided => True

/-- the schema of key `k` in class `c` (the unsatisfiable `Or()` when absent) -/
def entry (c : ClassDesc) (k : String) : Schema :=
  match c.schema.find? (fun e => e.1 == k) with
  | some e => e.2.2
  | none => .any []

macro "schema_simp" : tactic => `(tactic|
  simp [entry, List.find?, Schema.accepts, Schema.acceptsAll, Schema.acceptsAny, Schema.keptByOr,
    PyType.isInstance, PyType.isExactly, Expr.holds, Expr.eval, pyCmp, pyMod, pyBitand, pyEq, cmpNum,
    JVal.toNum?, JVal.truthy, JVal.isNull, Num.lt, Num.le, Num.eq, DomKind.dom, Agrees, ofBool,
    npIsnanTruth, npArray, fIsNan, npIsscalarVal, FVal.lt, FVal.le, FVal.eq, FVal.ofInt, fPos, fUnitOpen,
    fUnitClosed, fGeOne])

theorem shape_oddPositiveInt (v : JVal) :
    Agrees (Schema.accepts noOracle (entry SadSsd "window_size") v) (DomKind.oddPositiveInt.dom v) := by
  cases v <;> simp only [SadSsd] <;> schema_simp
  rename_i i
  by_cases h1 : 0 < i <;> by_cases h2 : i % 2 = 0 <;> by_cases h3 : (1 ≤ i ∧ i % 2 = 1) <;>
    simp [h1, h2, h3] <;> omega

theorem shape_filterSize (v : JVal) :
    Agrees (Schema.accepts noOracle (entry MedianFilter "filter_size") v) (DomKind.oddPositiveInt.dom v) := by
  cases v <;> simp only [MedianFilter] <;> schema_simp
  rename_i i
  by_cases h1 : 1 ≤ i <;> by_cases h2 : i % 2 = 0 <;> by_cases h3 : (1 ≤ i ∧ i % 2 = 1) <;>
    simp [h1, h2, h3] <;> omega

theorem shape_census35 (v : JVal) :
    Agrees (Schema.accepts noOracle (entry Census "window_size") v) (DomKind.census35.dom v) := by
  cases v <;> simp only [Census] <;> schema_simp
  rename_i i
  by_cases h1 : i = 3 <;> by_cases h2 : i = 5 <;> simp [h1, h2]

theorem shape_subpix (v : JVal) :
    Agrees (Schema.accepts noOracle (entry SadSsd "subpix") v) (DomKind.subpix.dom v) := by
  cases v <;> simp only [SadSsd] <;> schema_simp
  rename_i i
  by_cases h1 : 0 < i <;> by_cases h2 : i % 2 = 0 <;> by_cases h3 : i = 1 <;> by_cases h4 : i = 2 <;>
    by_cases h5 : i = 4 <;> simp [h1, h2, h3, h4, h5] <;> omega

theorem shape_strOrNone (v : JVal) :
    Agrees (Schema.accepts noOracle (entry SadSsd "band") v) (DomKind.strOrNone.dom v) := by
  cases v <;> simp only [SadSsd] <;> schema_simp

theorem shape_positiveFloat (v : JVal) :
    Agrees (Schema.accepts noOracle (entry CrossBasedCostAggregation "cbca_intensity") v)
      (DomKind.positiveFloat.dom v) := by
  cases v <;> simp only [CrossBasedCostAggregation] <;> schema_simp
  rename_i f
  cases f <;> schema_simp
  rename_i q
  by_cases h1 : 0 < q <;> simp [h1]

theorem shape_positiveInt (v : JVal) :
    Agrees (Schema.accepts noOracle (entry CrossBasedCostAggregation "cbca_distance") v)
      (DomKind.positiveInt.dom v) := by
  cases v <;> simp only [CrossBasedCostAggregation] <;> schema_simp
  rename_i i
  by_cases h1 : 0 < i <;> simp [h1] <;> omega

theorem shape_anyStr (v : JVal) :
    Agrees (Schema.accepts noOracle (entry MedianForIntervalsFilter "interval_indicator") v)
      (DomKind.anyStr.dom v) := by
  cases v <;> simp only [MedianForIntervalsFilter] <;> schema_simp

theorem shape_anyBool (v : JVal) :
    Agrees (Schema.accepts noOracle (entry MedianForIntervalsFilter "regularization") v)
      (DomKind.anyBool.dom v) := by
  cases v <;> simp only [MedianForIntervalsFilter] <;> schema_simp

theorem shape_ambiguityThreshold (v : JVal) :
    Agrees (Schema.accepts noOracle (entry MedianForIntervalsFilter "ambiguity_threshold") v)
      (DomKind.ambiguityThreshold.dom v) := by
  cases v <;> simp only [MedianForIntervalsFilter] <;> schema_simp
  rename_i f
  cases f <;> schema_simp
  rename_i q
  by_cases h1 : 0 < q <;> by_cases h2 : q < 1 <;> by_cases h3 : 0 ≤ q <;> by_cases h4 : q ≤ 1 <;>
    by_cases h5 : q = 0 <;> by_cases h6 : q = 1 <;> simp [h1, h2, h3, h4, h5, h6] <;> grind

theorem shape_unitClosedFloat (v : JVal) :
    Agrees (Schema.accepts noOracle (entry MedianForIntervalsFilter "quantile_regularization") v)
      (DomKind.unitClosedFloat.dom v) := by
  cases v <;> simp only [MedianForIntervalsFilter] <;> schema_simp
  rename_i f
  cases f <;> schema_simp
  rename_i q
  by_cases h3 : 0 ≤ q <;> by_cases h4 : q ≤ 1 <;> simp [h3, h4]

theorem shape_kernelSize (v : JVal) :
    Agrees (Schema.accepts noOracle (entry MedianForIntervalsFilter "ambiguity_kernel_size") v)
      (DomKind.kernelSize.dom v) := by
  cases v <;> simp only [MedianForIntervalsFilter] <;> schema_simp
  rename_i i
  by_cases h1 : 0 < i <;> by_cases h2 : i % 2 = 1 <;> by_cases h3 : i < 0 <;>
    simp [h1, h2, h3] <;> omega

theorem shape_intGe0 (v : JVal) :
    Agrees (Schema.accepts noOracle (entry MedianForIntervalsFilter "vertical_depth") v)
      ((DomKind.intGe 0).dom v) := by
  cases v <;> simp only [MedianForIntervalsFilter] <;> schema_simp
  rename_i i
  by_cases h1 : 0 ≤ i <;> simp [h1] <;> omega

theorem shape_intGe2 (v : JVal) :
    Agrees (Schema.accepts noOracle (entry FixedZoomPyramid "num_scales") v)
      ((DomKind.intGe 2).dom v) := by
  cases v <;> simp only [FixedZoomPyramid] <;> schema_simp
  rename_i i
  by_cases h1 : 1 < i <;> by_cases h2 : 2 ≤ i <;> simp [h1, h2] <;> omega

theorem shape_number (v : JVal) :
    Agrees (Schema.accepts noOracle (entry CrossCheckingAccurate "cross_checking_threshold") v)
      (DomKind.number.dom v) := by
  cases v <;> simp only [CrossCheckingAccurate] <;> schema_simp

theorem shape_interpolation (v : JVal) :
    Agrees (Schema.accepts noOracle (entry CrossCheckingAccurate "interpolated_disparity") v)
      (DomKind.interpolation.dom v) := by
  cases v <;> simp only [CrossCheckingAccurate] <;> schema_simp
  rename_i s
  by_cases h1 : s = "sgm" <;> by_cases h2 : s = "mc-cnn" <;> by_cases h3 : s = "mc_cnn" <;>
    simp [h1, h2, h3]

theorem shape_etaFloat (v : JVal) :
    Agrees (Schema.accepts noOracle (entry Ambiguity "eta_max") v) (DomKind.etaFloat.dom v) := by
  cases v <;> simp only [Ambiguity] <;> schema_simp
  rename_i f
  cases f <;> schema_simp
  rename_i q
  by_cases h1 : 0 < q <;> by_cases h2 : q < 1 <;> by_cases h3 : 1 ≤ q <;>
    simp [h1, h2, h3] <;> grind

/-- `invalid_disparity`: `Or(int, float, lambda x: np.isnan(x))`.
    Full-strength statement (FALSE of the code, see `nan_in_list_counterexample`):
      ∀ v, Agrees (accepts (entry WinnerTakesAll "invalid_disparity") v) (DomKind.numberOrNaN.dom v)
    Proved: the same for every value that is not a list.  A (nested) list holding exactly one
    number, a NaN, makes `np.isnan(v)` truthy and is accepted although the documentation only
    allows numbers (known finding `nan_in_list`). -/
theorem shape_numberOrNaN_partial (v : JVal) (hv : v.isList = false) :
    Agrees (Schema.accepts noOracle (entry WinnerTakesAll "invalid_disparity") v)
      (DomKind.numberOrNaN.dom v) := by
  cases v <;> simp only [WinnerTakesAll] <;> schema_simp
  all_goals simp [JVal.isList] at hv

/-- the entry as it is written in the tree the finding was made on -/
def bareIsnanEntry : Schema := .any [.type .int, .type .float, .func (.npIsnan .var)]

theorem nan_in_list_counterexample :
    Schema.accepts noOracle bareIsnanEntry (.list [.float .nan]) = true ∧
    Schema.accepts noOracle bareIsnanEntry (.list [.list [.float .nan]]) = true ∧
    DomKind.numberOrNaN.dom (.list [.float .nan]) = Dom.reject := by decide

/-- with the proposed fix (`np.isscalar(x) and np.isnan(x)`) the list is refused and numbers keep
    their verdict -/
theorem nan_in_list_fixed :
    let fixed : Schema := .any [.type .int, .type .float,
      .func (.and (.npIsscalar .var) (.npIsnan .var))]
    Schema.accepts noOracle fixed (.list [.float .nan]) = false ∧
    Schema.accepts noOracle fixed (.float .nan) = true ∧
    Schema.accepts noOracle fixed (.int (-9999)) = true ∧
    Schema.accepts noOracle fixed (.str "x") = false := by decide

/-- `step`: the guard `cfg["step"] != 1` and the schema entry together against "only 1" -/
theorem shape_stepOne (v : JVal) :
    Agrees (pyEq v (.int 1) && Schema.accepts noOracle (entry SadSsd "step") v) (DomKind.stepOne.dom v) := by
  cases v <;> simp only [SadSsd] <;> schema_simp
  rename_i i
  by_cases h1 : i = 1 <;> simp [h1]

/-- the distinct (schema, documented domain) pairs of the source, one representative each -/
def shapes : List (Schema × DomKind) := [
  (entry SadSsd "window_size", .oddPositiveInt),
  (entry MedianFilter "filter_size", .oddPositiveInt),
  (entry Census "window_size", .census35),
  (entry SadSsd "subpix", .subpix),
  (entry SadSsd "band", .strOrNone),
  (entry CrossBasedCostAggregation "cbca_intensity", .positiveFloat),
  (entry CrossBasedCostAggregation "cbca_distance", .positiveInt),
  (entry MedianForIntervalsFilter "interval_indicator", .anyStr),
  (entry MedianForIntervalsFilter "regularization", .anyBool),
  (entry MedianForIntervalsFilter "ambiguity_threshold", .ambiguityThreshold),
  (entry MedianForIntervalsFilter "quantile_regularization", .unitClosedFloat),
  (entry MedianForIntervalsFilter "ambiguity_kernel_size", .kernelSize),
  (entry MedianForIntervalsFilter "vertical_depth", .intGe 0),
  (entry FixedZoomPyramid "num_scales", .intGe 2),
  (entry CrossCheckingAccurate "cross_checking_threshold", .number),
  (entry CrossCheckingAccurate "interpolated_disparity", .interpolation),
  (entry Ambiguity "eta_max", .etaFloat),
  (entry WinnerTakesAll "invalid_disparity", .numberOrNaN)]

/-- the one place where the code is known to accept more than documented -/
def nanListException (d : DomKind) (v : JVal) : Bool := d == .numberOrNaN && v.isList

theorem shapes_agree (sd : Schema × DomKind) (h : sd ∈ shapes) (v : JVal)
    (hex : nanListException sd.2 v = false) :
    Agrees (Schema.accepts noOracle sd.1 v) (sd.2.dom v) := by
  simp only [shapes, List.mem_cons, List.mem_nil_iff, or_false] at h
  rcases h with rfl | rfl | rfl | rfl | rfl | rfl | rfl | rfl | rfl | rfl | rfl | rfl | rfl | rfl | rfl | rfl | rfl | rfl
  · exact shape_oddPositiveInt v
  · exact shape_filterSize v
  · exact shape_census35 v
  · exact shape_subpix v
  · exact shape_strOrNone v
  · exact shape_positiveFloat v
  · exact shape_positiveInt v
  · exact shape_anyStr v
  · exact shape_anyBool v
  · exact shape_ambiguityThreshold v
  · exact shape_unitClosedFloat v
  · exact shape_kernelSize v
  · exact shape_intGe0 v
  · exact shape_intGe2 v
  · exact shape_number v
  · exact shape_interpolation v
  · exact shape_etaFloat v
  · exact shape_numberOrNaN_partial v (by simpa [nanListException] using hex)

/-- every (class, registered method, documented parameter) of the source, with the schema entry
    the source gives it and the domain the documentation gives it (`step` is treated with its
    guard in `shape_stepOne` / `step_rows`) -/
def rows : List (Schema × DomKind) :=
  allClasses.flatMap fun kc => kc.2.names.flatMap fun m =>
    match docClass? kc.1 m with
    | some d => (d.params.filter (fun p => p.name != "step")).map (fun p => (entry kc.2 p.name, p.dom))
    | none => []

theorem rows_are_shapes : rows.all (fun r => decide (r ∈ shapes)) = true := by decide

/-- the `step` entries of all classes are the one of `shape_stepOne` -/
theorem step_rows :
    allClasses.all (fun kc => !(kc.2.schema.any (fun e => e.1 == "step")) ||
      decide (entry kc.2 "step" = entry SadSsd "step")) = true := by decide

/-- **parameters policed**: for every parameter of every built-in method and EVERY value, the
    schema of the source accepts the value when the documentation says it is legal and refuses it
    when the documentation says it is not (wrong type included) — except the finding above. -/
theorem parameters_policed (r : Schema × DomKind) (hr : r ∈ rows) (v : JVal)
    (hex : nanListException r.2 v = false) :
    Agrees (Schema.accepts noOracle r.1 v) (r.2.dom v) := by
  have h := rows_are_shapes
  rw [List.all_eq_true] at h
  exact shapes_agree r (by simpa using h r hr) v hex

/-- the table is not empty -/
theorem rows_count : rows.length = 47 := by decide

/-! ### 6. Non-vacuity and counterexamples (findings) -/

deriving instance DecidableEq for Except

def monoL : ImgInfo := { bands := [none], dispSource := .list [.int (-2), .int 2] }
def monoR : ImgInfo := { bands := [none], dispSource := .null }

/-- a concrete completion: user keys first (value and position kept), then the defaults -/
example :
    classCheck noOracle SadSsd monoL monoR
      [("window_size", .int 3), ("matching_cost_method", .str "sad")] =
    .ok [("window_size", .int 3), ("matching_cost_method", .str "sad"), ("subpix", .int 1),
         ("band", .null), ("step", .int 1)] := by decide

example :
    classCheck noOracle WinnerTakesAll monoL monoR
      [("disparity_method", .str "wta"), ("invalid_disparity", .str "NaN")] =
    .ok [("disparity_method", .str "wta"), ("invalid_disparity", .float .nan)] := by decide

example : classCheck noOracle SadSsd monoL monoR
    [("matching_cost_method", .str "sad"), ("window_size", .int 4)] = .error .checker := by decide

example : classCheck noOracle SadSsd monoL monoR
    [("matching_cost_method", .str "sad"), ("step", .int 2)] = .error .value := by decide

def isOk {α} : Except Err α → Bool
  | .ok _ => true
  | .error _ => false

def pipelineOf : Except Err (Dict × CState) → Option Dict
  | .ok (cfg, _) => some cfg
  | .error _ => none

/-- a whole pipeline on a fresh machine: every step completed, in the user's order -/
example :
    pipelineOf (checkPipelineSection noOracle {} registry
      [("pipeline", .obj [
        ("matching_cost", .obj [("matching_cost_method", .str "zncc")]),
        ("disparity", .obj [("disparity_method", .str "wta"), ("invalid_disparity", .str "NaN")]),
        ("filter", .obj [("filter_method", .str "median")])])] monoL monoR {}) =
    some [("pipeline", .obj [
      ("matching_cost", .obj [("matching_cost_method", .str "zncc"), ("window_size", .int 5),
        ("subpix", .int 1), ("band", .null), ("step", .int 1)]),
      ("disparity", .obj [("disparity_method", .str "wta"), ("invalid_disparity", .float .nan)]),
      ("filter", .obj [("filter_method", .str "median"), ("filter_size", .int 3)])])] := by decide

/-- Finding `band_multichar`.  Full-strength statement (FALSE of the code): a `band` that names a
    band of both images is accepted.  `check_band_pipeline` iterates over the *characters* of the
    band name, so "red" is looked up as "r", "e", "d" and refused although both images have a band
    "red" and the documentation's verdict is `accept`. -/
theorem band_multichar_counterexample :
    let l : ImgInfo := { bands := [some "red", some "nir"], dispSource := .list [.int (-1), .int 1] }
    let r : ImgInfo := { bands := [some "red", some "nir"], dispSource := .null }
    let p : Dict := [("matching_cost", .obj [("matching_cost_method", .str "zncc"), ("band", .str "red")])]
    pipelineVerdict l r p = Dom.accept ∧
    isOk (checkPipelineSection noOracle {} registry [("pipeline", .obj p)] l r {}) = false ∧
    -- the same pipeline with the one-letter name "r" on images with bands r, g is accepted
    isOk (checkPipelineSection noOracle {} registry
      [("pipeline", .obj [("matching_cost", .obj [("matching_cost_method", .str "zncc"), ("band", .str "r")])])]
      { bands := [some "r", some "g"], dispSource := .list [.int (-1), .int 1] }
      { bands := [some "r", some "g"], dispSource := .null } {}) = true ∧
    -- with the proposed fix (the string is one band name) the pipeline is accepted
    isOk (checkPipelineSection noOracle { bandWhole := true } registry [("pipeline", .obj p)] l r {}) = true := by
  decide

def pipeA : Dict := [("pipeline", .obj [
  ("matching_cost", .obj [("matching_cost_method", .str "zncc")]),
  ("aggregation", .obj [("aggregation_method", .str "cbca")]),
  ("disparity", .obj [("disparity_method", .str "wta")])])]

def pipeB : Dict := [("pipeline", .obj [
  ("matching_cost", .obj [("matching_cost_method", .str "sad")]),
  ("disparity", .obj [("disparity_method", .str "wta")])])]

/-- check `pipeA`, then `pipeB` on the same machine, then the configuration returned for `pipeB`
    on a fresh machine -/
def reusedMachineWitness (fl : MachineFlags) : Option (List String) × Bool :=
  match checkPipelineSection noOracle fl registry pipeA monoL monoR {} with
  | .ok (_, m1) =>
    match checkPipelineSection noOracle fl registry pipeB monoL monoR m1 with
    | .ok (out, _) =>
      (match Dict.lookup out "pipeline" with
       | some (.obj p) => some (Dict.keys p)
       | _ => none,
       isOk (checkPipelineSection noOracle fl registry out monoL monoR {}))
    | .error _ => (none, true)
  | .error _ => (none, true)

/-- Finding `reused_machine_stale_steps`.  Full-strength statement (FALSE of the code on a reused
    machine): checking the returned configuration again returns it unchanged.  The machine keeps
    `pipeline_cfg` from one `check_conf` to the next, so the steps of an earlier configuration are
    merged into the configuration returned for a later one — here `aggregation` lands after
    `disparity` and the returned configuration is itself refused. -/
theorem reused_machine_counterexample :
    reusedMachineWitness {} = (some ["matching_cost", "disparity", "aggregation"], false) ∧
    -- with the proposed fix (`check_conf` empties `pipeline_cfg` first) only the steps of the
    -- second configuration come back, and checking them again succeeds
    reusedMachineWitness { resetPipelineCfg := true } = (some ["matching_cost", "disparity"], true) := by
  decide

/-- on a fresh machine the same second configuration is returned with its own steps only -/
example :
    (pipelineOf (checkPipelineSection noOracle {} registry pipeB monoL monoR {})).map
      (fun c => match Dict.lookup c "pipeline" with | some (.obj p) => Dict.keys p | _ => []) =
    some ["matching_cost", "disparity"] := by decide

/-! ### 7. From schema entries to whole steps -/

theorem acceptsEntries_iff (o : Oracle) (entries : List (String × Bool × Schema)) (kvs : Dict) :
    Schema.acceptsEntries o entries kvs = true ↔
      ∀ e ∈ entries, (match Dict.lookup kvs e.1 with
                      | some v => Schema.accepts o e.2.2 v = true
                      | none => e.2.1 = true) := by
  induction entries with
  | nil => simp [Schema.acceptsEntries]
  | cons e rest ih =>
    obtain ⟨k, opt, s⟩ := e
    simp only [Schema.acceptsEntries, Bool.and_eq_true, ih, List.mem_cons, forall_eq_or_imp]
    constructor
    · intro ⟨h1, h2⟩
      refine ⟨?_, h2⟩
      cases hl : Dict.lookup kvs k <;> simp_all
    · intro ⟨h1, h2⟩
      refine ⟨?_, h2⟩
      cases hl : Dict.lookup kvs k <;> simp_all

/-- `Checker(schema).validate(cfg)` for a dictionary schema: every named key validates (an absent
    one must be optional) and the dictionary has no other key -/
theorem dict_accepts_iff (o : Oracle) (entries : List (String × Bool × Schema)) (kvs : Dict) :
    Schema.accepts o (.dict entries) (.obj kvs) = true ↔
      (∀ e ∈ entries, (match Dict.lookup kvs e.1 with
                       | some v => Schema.accepts o e.2.2 v = true
                       | none => e.2.1 = true)) ∧
      (∀ kv ∈ kvs, ∃ e ∈ entries, e.1 = kv.1) := by
  have h : Schema.accepts o (.dict entries) (.obj kvs) =
      (Schema.acceptsEntries o entries kvs && kvs.all (fun kv => entries.any (fun e => e.1 == kv.1))) := by
    rw [Schema.accepts]
  rw [h]
  simp only [Bool.and_eq_true, acceptsEntries_iff, List.all_eq_true, List.any_eq_true, beq_iff_eq]


theorem lookup_of_mem_nodup (d : Dict) (k : String) (v : JVal) (hnd : Dict.nodup d = true) (h : (k, v) ∈ d) :
    Dict.lookup d k = some v := by
  induction d with
  | nil => simp at h
  | cons kv rest ih =>
    obtain ⟨k', v'⟩ := kv
    simp only [Dict.nodup, Bool.and_eq_true, Bool.not_eq_true'] at hnd
    simp only [List.mem_cons, Prod.mk.injEq] at h
    rcases h with ⟨rfl, rfl⟩ | h
    · simp [Dict.lookup]
    · have hne : k' ≠ k := by
        intro e; subst e
        have : Dict.hasKey rest k' = true := by
          rw [hasKey_iff_mem_keys]; exact List.mem_map_of_mem (f := (·.1)) h
        simp [this] at hnd
      simp [Dict.lookup, hne, ih hnd.2 h]

theorem mem_of_lookup (d : Dict) (k : String) (v : JVal) (h : Dict.lookup d k = some v) : (k, v) ∈ d := by
  induction d with
  | nil => simp [Dict.lookup] at h
  | cons kv rest ih =>
    obtain ⟨k', v'⟩ := kv
    by_cases e : k' = k
    · subst e; simp [Dict.lookup] at h; subst h; simp
    · simp [Dict.lookup, e] at h; exact List.mem_cons_of_mem _ (ih h)

theorem pyEq_str_NaN (v : JVal) (h : rewriteLeaf v = v) : pyEq v (.str "NaN") = false := by
  have hne : v ≠ .str "NaN" := by
    intro e; subst e; simp [rewriteLeaf] at h
  cases v <;> simp [pyEq, JVal.toNum?]
  rename_i s
  intro e; exact hne (by rw [e])

theorem Dom.and_eq_reject (a b : Dom) : Dom.and a b = .reject ↔ a = .reject ∨ b = .reject := by
  cases a <;> cases b <;> simp [Dom.and]

theorem Dom.and_eq_accept (a b : Dom) : Dom.and a b = .accept ↔ a = .accept ∧ b = .accept := by
  cases a <;> cases b <;> simp [Dom.and]

/-- a step is documented as refused exactly when some key is neither the method key nor a
    parameter, or some parameter value is outside its documented domain -/
theorem paramsVerdict_reject (d : DocClass) (cfg : Dict) (h : paramsVerdict d cfg = .reject) :
    ∃ k v, (k, v) ∈ cfg ∧ k ≠ d.methodKey ∧
      (d.param? k = none ∨ ∃ p, d.param? k = some p ∧ p.dom.dom v = .reject) := by
  induction cfg with
  | nil => simp [paramsVerdict] at h
  | cons kv rest ih =>
    obtain ⟨k, v⟩ := kv
    simp only [paramsVerdict, Dom.and_eq_reject] at h
    rcases h with h | h
    · by_cases hk : k = d.methodKey
      · simp [hk] at h
      · simp only [hk, if_false] at h
        refine ⟨k, v, by simp, hk, ?_⟩
        cases hp : d.param? k with
        | none => exact Or.inl rfl
        | some p => simp [hp] at h; exact Or.inr ⟨p, rfl, h⟩
    · obtain ⟨k', v', hm, hr⟩ := ih h
      exact ⟨k', v', List.mem_cons_of_mem _ hm, hr⟩

/-- a guard is respected: when the user supplies the guarded key (and it is not a NaN-rewriting
    key), a successful run means the user's value passed the guard -/
theorem guard_respected (l r : ImgInfo) (acts : List Action) :
    ∀ (cfg out : Dict) (k : String) (g u : JVal) (e : Err),
      runActions l r acts cfg = .ok out → Action.guardNe k g e ∈ acts → k ∉ nanKeys acts →
      Dict.lookup cfg k = some u → pyEq u g = true := by
  induction acts with
  | nil => intro cfg out k g u e _ hm; simp at hm
  | cons a rest ih =>
    intro cfg out k g u e h hm hn hl
    obtain ⟨cfg', hA, hR⟩ := runActions_ok_cons h
    -- the lookup of k survives the head action
    have hl' : a ≠ Action.guardNe k g e → Dict.lookup cfg' k = some u ∧ Action.guardNe k g e ∈ rest ∧ k ∉ nanKeys rest := by
      intro hne
      have hmr : Action.guardNe k g e ∈ rest := by
        rcases List.mem_cons.1 hm with h0 | h0
        · exact absurd h0.symm hne
        · exact h0
      cases a with
      | default k0 v0 =>
        simp only [runAction] at hA
        refine ⟨?_, hmr, by simpa [nanKeys] using hn⟩
        by_cases hk : Dict.hasKey cfg k0 = true
        · simp [hk] at hA; subst hA; exact hl
        · simp [hk] at hA; subst hA
          rw [lookup_setKey]
          have : k0 ≠ k := by intro e0; subst e0; simp [Dict.hasKey, hl] at hk
          simp [this, hl]
      | defaultElifNaN k0 v0 =>
        have hk0 : k0 ≠ k := by intro e0; subst e0; simp [nanKeys] at hn
        have hnr : k ∉ nanKeys rest := by
          simp [nanKeys] at hn; exact hn.2
        refine ⟨?_, hmr, hnr⟩
        simp only [runAction] at hA
        cases hl0 : Dict.lookup cfg k0 with
        | none => simp [hl0] at hA; subst hA; rw [lookup_setKey]; simp [hk0, hl]
        | some cur =>
          simp [hl0] at hA
          by_cases hp : pyEq cur (.str "NaN") = true
          · simp [hp] at hA; subst hA; rw [lookup_setKey]; simp [hk0, hl]
          · simp [hp] at hA; subst hA; exact hl
      | guardNe k0 v0 e0 =>
        refine ⟨?_, hmr, by simpa [nanKeys] using hn⟩
        simp only [runAction] at hA
        cases hl0 : Dict.lookup cfg k0 with
        | none => simp [hl0] at hA; subst hA; exact hl
        | some cur =>
          simp [hl0] at hA
          by_cases hp : pyEq cur v0 = true
          · simp [hp] at hA; subst hA; exact hl
          · simp [hp] at hA
      | refuseGrids =>
        refine ⟨?_, hmr, by simpa [nanKeys] using hn⟩
        simp only [runAction] at hA
        by_cases hg : (l.dispSource.isStr || r.dispSource.isStr) = true
        · simp [hg] at hA
        · simp [hg] at hA; subst hA; exact hl
    by_cases hhead : a = Action.guardNe k g e
    · subst hhead
      simp only [runAction, hl] at hA
      by_cases hp : pyEq u g = true
      · exact hp
      · simp [hp] at hA
    · obtain ⟨h1, h2, h3⟩ := hl' hhead
      exact ih cfg' out k g u e hR h2 h3 h1


def isStepGuard : Action → Bool
  | .guardNe k v _ => k == "step" && decide (v = .int 1)
  | _ => false

/-- further facts about a class of the source and its documented class, read off the tables -/
def stepFacts (c : ClassDesc) (d : DocClass) : Bool :=
  d.params.all (fun p => p.name != "step" ||
    (decide (p.dom = .stepOne) && decide (entry c "step" = entry SadSsd "step") &&
     c.actions.any isStepGuard && !(nanKeys c.actions).contains "step"))

theorem generated_step_facts :
    allClasses.all (fun kc => kc.2.names.all (fun m =>
      match docClass? kc.1 m with
      | some d => stepFacts kc.2 d
      | none => false)) = true := by decide

theorem facts_of_mem {kind : String} {c : ClassDesc} {m : String} {d : DocClass}
    (hkc : (kind, c) ∈ allClasses) (hm : m ∈ c.names) (hd : docClass? kind m = some d) :
    defaultsAgree c d = true ∧ stepFacts c d = true := by
  have h1 := generated_defaults_documented
  have h2 := generated_step_facts
  rw [List.all_eq_true] at h1 h2
  have a1 := h1 (kind, c) hkc
  have a2 := h2 (kind, c) hkc
  rw [List.all_eq_true] at a1 a2
  have b1 := a1 m hm
  have b2 := a2 m hm
  simp only [hd] at b1 b2
  exact ⟨b1, b2⟩

theorem row_of_mem {kind : String} {c : ClassDesc} {m : String} {d : DocClass} {p : DocParam}
    (hkc : (kind, c) ∈ allClasses) (hm : m ∈ c.names) (hd : docClass? kind m = some d)
    (hp : p ∈ d.params) (hs : p.name ≠ "step") : (entry c p.name, p.dom) ∈ rows := by
  unfold rows
  rw [List.mem_flatMap]
  refine ⟨(kind, c), hkc, ?_⟩
  rw [List.mem_flatMap]
  refine ⟨m, hm, ?_⟩
  simp only [hd]
  rw [List.mem_map]
  refine ⟨p, ?_, rfl⟩
  rw [List.mem_filter]
  exact ⟨hp, by simpa using hs⟩

theorem param_mem {d : DocClass} {k : String} {p : DocParam} (h : d.param? k = some p) :
    p ∈ d.params ∧ p.name = k := by
  unfold DocClass.param? at h
  have := List.find?_some h
  exact ⟨List.mem_of_find?_eq_some h, by simpa using this⟩

theorem entry_mem {c : ClassDesc} {k : String} (h : ∃ e ∈ c.schema, e.1 = k) :
    ∃ e ∈ c.schema, e.1 = k ∧ e.2.2 = entry c k := by
  unfold entry
  cases hf : c.schema.find? (fun e => e.1 == k) with
  | none =>
    obtain ⟨e, he, hk⟩ := h
    rw [List.find?_eq_none] at hf
    exact absurd (by simpa using hk) (by simpa using hf e he)
  | some e =>
    exact ⟨e, List.mem_of_find?_eq_some hf, by simpa using List.find?_some hf, rfl⟩

/-- **a step the documentation refuses is refused**: for every built-in class of the source and
    its documented class, a step configuration (as `update_conf` delivers it: the three magic
    strings already rewritten; no list-valued parameter, which sets the `nan_in_list` finding aside)
    whose documented verdict is `reject` — an unknown key, or a parameter value outside its
    documented domain, wrong type included, or `step ≠ 1` — never passes the class's `check_conf`. -/
theorem step_refused_of_documented_reject {kind : String} {c : ClassDesc} {m : String} {d : DocClass}
    (hkc : (kind, c) ∈ allClasses) (hm : m ∈ c.names) (hd : docClass? kind m = some d)
    (l r : ImgInfo) (cfg : Dict) (hnd : Dict.nodup cfg = true)
    (hrw : ∀ kv ∈ cfg, rewriteLeaf kv.2 = kv.2) (hnl : ∀ kv ∈ cfg, kv.2.isList = false)
    (hv : paramsVerdict d cfg = .reject) (out : Dict) :
    classCheck noOracle c l r cfg ≠ .ok out := by
  intro hok
  obtain ⟨hrun, hacc⟩ := classCheck_ok hok
  obtain ⟨hagree, hstep⟩ := facts_of_mem hkc hm hd
  have hwf : wfActions c.actions = true := generated_wf_of_mem hkc
  obtain ⟨k, v, hmem, hkm, hcase⟩ := paramsVerdict_reject d cfg hv
  have hl : Dict.lookup cfg k = some v := lookup_of_mem_nodup cfg k v hnd hmem
  have hnan : pyEq v (.str "NaN") = false := pyEq_str_NaN v (hrw (k, v) hmem)
  have hout : Dict.lookup out k = some v := by
    have := classCheck_user_values_kept hwf hok k v hl
    simpa [nanFix, hnan] using this
  rw [dict_accepts_iff] at hacc
  obtain ⟨hentries, hkeys⟩ := hacc
  simp only [defaultsAgree, Bool.and_eq_true, List.all_eq_true, List.any_eq_true, Bool.or_eq_true,
    beq_iff_eq] at hagree
  obtain ⟨⟨⟨⟨_, _⟩, hschemaKeys⟩, hparamsInSchema⟩, _⟩ := hagree
  rcases hcase with hnone | ⟨p, hp, hrej⟩
  · -- not a parameter: the key is not in the schema, but it is in the result
    obtain ⟨e, he, hek⟩ := hkeys (k, v) (mem_of_lookup out k v hout)
    have hek' : e.1 = k := hek
    rcases hschemaKeys e he with h1 | ⟨p, hpm, hpn⟩
    · exact hkm (by rw [← hek', h1])
    · unfold DocClass.param? at hnone
      rw [List.find?_eq_none] at hnone
      have := hnone p hpm
      simp at this
      exact this (by rw [hpn, hek'])
  · obtain ⟨hpm, hpn⟩ := param_mem hp
    obtain ⟨e, he, hek, hee⟩ := entry_mem (c := c) (k := k) (by
      obtain ⟨e, he, hen⟩ := hparamsInSchema p hpm
      exact ⟨e, he, by rw [hen, hpn]⟩)
    have hacc_e := hentries e he
    rw [hek, hout] at hacc_e
    simp only [hee] at hacc_e
    by_cases hs : p.name = "step"
    · -- step: guard and schema together
      simp only [stepFacts, List.all_eq_true] at hstep
      have hf := hstep p hpm
      simp only [hs, bne_self_eq_false, Bool.false_or, Bool.and_eq_true, decide_eq_true_eq,
        List.any_eq_true, Bool.not_eq_true', List.contains_eq_mem, decide_eq_false_iff_not] at hf
      obtain ⟨⟨⟨hdom, hent⟩, ⟨a, ham, hag⟩⟩, hnn⟩ := hf
      have hk : k = "step" := by rw [← hpn, hs]
      subst hk
      have hshape := shape_stepOne v
      rw [hdom] at hrej
      rw [hrej] at hshape
      simp only [Agrees, Bool.and_eq_false_iff] at hshape
      rcases hshape with h1 | h1
      · -- the guard refuses
        cases a with
        | guardNe k0 g e0 =>
          simp only [isStepGuard, Bool.and_eq_true, beq_iff_eq, decide_eq_true_eq] at hag
          obtain ⟨rfl, rfl⟩ := hag
          have := guard_respected l r c.actions cfg out "step" (.int 1) v e0 hrun ham hnn hl
          rw [this] at h1; exact Bool.noConfusion h1
        | default _ _ => simp [isStepGuard] at hag
        | defaultElifNaN _ _ => simp [isStepGuard] at hag
        | refuseGrids => simp [isStepGuard] at hag
      · rw [hent] at hacc_e; rw [hacc_e] at h1; exact Bool.noConfusion h1
    · have hrow := row_of_mem hkc hm hd hpm hs
      have hpol := parameters_policed _ hrow v (by
        simp [nanListException, hnl (k, v) hmem])
      simp only at hpol
      rw [hrej] at hpol
      simp only [Agrees] at hpol
      rw [hpn] at hpol
      rw [hacc_e] at hpol; exact Bool.noConfusion hpol


/-! the accept direction -/

/-- the guards of a sequence are compatible with a configuration: the user's value passes, the
    guarded key is not NaN-rewritten, the default the sequence would insert passes; and no disparity
    grid is given when the sequence refuses grids -/
def GuardsCompatible (l r : ImgInfo) (acts : List Action) (cfg : Dict) : Prop :=
  (∀ k g e, Action.guardNe k g e ∈ acts →
    (∀ u, Dict.lookup cfg k = some u → pyEq u g = true) ∧ k ∉ nanKeys acts ∧
    (∀ dflt, defaultOf acts k = some dflt → pyEq dflt g = true)) ∧
  (Action.refuseGrids ∈ acts → (l.dispSource.isStr || r.dispSource.isStr) = false)

theorem defaultOf_cons_of_ne (a : Action) (rest : List Action) (k : String)
    (h : ∀ k0 v0, a = .default k0 v0 ∨ a = .defaultElifNaN k0 v0 → k0 ≠ k) :
    defaultOf (a :: rest) k = defaultOf rest k := by
  cases a with
  | default k0 v0 => simp [defaultOf, h k0 v0 (Or.inl rfl)]
  | defaultElifNaN k0 v0 => simp [defaultOf, h k0 v0 (Or.inr rfl)]
  | guardNe _ _ _ => simp [defaultOf]
  | refuseGrids => simp [defaultOf]

/-- a well-formed sequence whose guards are compatible with the configuration runs to the end -/
theorem runActions_succeeds (l r : ImgInfo) (acts : List Action) :
    ∀ cfg : Dict, wfActions acts = true → GuardsCompatible l r acts cfg →
      ∃ out, runActions l r acts cfg = .ok out := by
  induction acts with
  | nil => intro cfg _ _; exact ⟨cfg, rfl⟩
  | cons a rest ih =>
    intro cfg hwf hG
    obtain ⟨hguards, hrefuse⟩ := hG
    -- the head action succeeds
    have hhead : ∃ cfg', runAction l r cfg a = .ok cfg' := by
      cases a with
      | default k0 v0 => exact ⟨_, rfl⟩
      | defaultElifNaN k0 v0 =>
        simp only [runAction]
        cases Dict.lookup cfg k0 <;> exact ⟨_, rfl⟩
      | guardNe k0 g e0 =>
        simp only [runAction]
        cases hl : Dict.lookup cfg k0 with
        | none => exact ⟨_, rfl⟩
        | some cur =>
          have := (hguards k0 g e0 (by simp)).1 cur hl
          simp [this]
      | refuseGrids =>
        simp only [runAction]
        have := hrefuse (by simp)
        simp [this]
    obtain ⟨cfg', hA⟩ := hhead
    have hwfr : wfActions rest = true := by
      cases a <;> simp only [wfActions, Bool.and_eq_true] at hwf
      · exact hwf.2
      · exact hwf.2
      · exact hwf.2
      · exact hwf
    -- the invariant holds for the rest
    have hG' : GuardsCompatible l r rest cfg' := by
      refine ⟨?_, fun hm => hrefuse (List.mem_cons_of_mem _ hm)⟩
      intro k g e hm
      obtain ⟨hu, hn, hd⟩ := hguards k g e (List.mem_cons_of_mem _ hm)
      have hnr : k ∉ nanKeys rest := by
        intro hx; apply hn
        cases a <;> simp [nanKeys, hx]
      refine ⟨?_, hnr, ?_⟩
      · intro u hlu
        cases a with
        | default k0 v0 =>
          simp only [runAction] at hA
          by_cases hk : Dict.hasKey cfg k0 = true
          · simp [hk] at hA; subst hA; exact hu u hlu
          · simp [hk] at hA; subst hA
            rw [lookup_setKey] at hlu
            by_cases e0 : k0 = k
            · subst e0
              simp at hlu; subst hlu
              exact hd v0 (by simp [defaultOf])
            · simp [e0] at hlu; exact hu u hlu
        | defaultElifNaN k0 v0 =>
          have hk0 : k0 ≠ k := by intro e0; subst e0; simp [nanKeys] at hn
          simp only [runAction] at hA
          cases hl0 : Dict.lookup cfg k0 with
          | none =>
            simp [hl0] at hA; subst hA
            rw [lookup_setKey] at hlu; simp [hk0] at hlu; exact hu u hlu
          | some cur =>
            simp [hl0] at hA
            by_cases hp : pyEq cur (.str "NaN") = true
            · simp [hp] at hA; subst hA
              rw [lookup_setKey] at hlu; simp [hk0] at hlu; exact hu u hlu
            · simp [hp] at hA; subst hA; exact hu u hlu
        | guardNe k0 g0 e0 =>
          simp only [runAction] at hA
          cases hl0 : Dict.lookup cfg k0 with
          | none => simp [hl0] at hA; subst hA; exact hu u hlu
          | some cur =>
            simp [hl0] at hA
            by_cases hp : pyEq cur g0 = true
            · simp [hp] at hA; subst hA; exact hu u hlu
            · simp [hp] at hA
        | refuseGrids =>
          simp only [runAction] at hA
          by_cases hg : (l.dispSource.isStr || r.dispSource.isStr) = true
          · simp [hg] at hA
          · simp [hg] at hA; subst hA; exact hu u hlu
      · intro dflt hdr
        -- a default of k in the rest is the default of k in the whole list (one default per key)
        apply hd dflt
        cases a with
        | default k0 v0 =>
          simp only [wfActions, Bool.and_eq_true, Bool.not_eq_true', List.contains_eq_mem,
            decide_eq_false_iff_not] at hwf
          have hnd : k0 ∉ defaultKeys rest := by simpa using hwf.1
          have : k0 ≠ k := by
            intro e0; subst e0
            rw [defaultOf_none_of_not_mem rest k0 hnd] at hdr; cases hdr
          simp [defaultOf, this, hdr]
        | defaultElifNaN k0 v0 =>
          have hk0 : k0 ≠ k := by intro e0; subst e0; simp [nanKeys] at hn
          simp [defaultOf, hk0, hdr]
        | guardNe _ _ _ => simp [defaultOf, hdr]
        | refuseGrids => simp [defaultOf, hdr]
    obtain ⟨out, hR⟩ := ih cfg' hwfr hG'
    exact ⟨out, by simp [runActions, hA, hR]⟩


/-- more table facts: the only guards are `step != 1`; one schema entry per key; the inserted
    defaults validate; a key without default is optional or the method key; the method entry accepts
    the registered names -/
def acceptFacts (c : ClassDesc) (d : DocClass) : Bool :=
  c.actions.all (fun a => match a with
    | .guardNe k v _ => k == "step" && decide (v = .int 1)
    | _ => true) &&
  (c.schema.map (·.1)).Nodup &&
  c.schema.all (fun e =>
    match defaultOf c.actions e.1 with
    | some dflt => Schema.accepts noOracle e.2.2 dflt
    | none => e.2.1 || e.1 == d.methodKey) &&
  c.names.all (fun m => c.schema.all (fun e => e.1 != d.methodKey || Schema.accepts noOracle e.2.2 (.str m))) &&
  (match defaultOf c.actions "step" with | some dflt => pyEq dflt (.int 1) | none => true) &&
  d.methodKey != "step" && !(nanKeys c.actions).contains "step"

theorem generated_accept_facts :
    allClasses.all (fun kc => kc.2.names.all (fun m =>
      match docClass? kc.1 m with
      | some d => acceptFacts kc.2 d
      | none => false)) = true := by decide

theorem accept_facts_of_mem {kind : String} {c : ClassDesc} {m : String} {d : DocClass}
    (hkc : (kind, c) ∈ allClasses) (hm : m ∈ c.names) (hd : docClass? kind m = some d) :
    acceptFacts c d = true := by
  have h1 := generated_accept_facts
  rw [List.all_eq_true] at h1
  have a1 := h1 (kind, c) hkc
  rw [List.all_eq_true] at a1
  have b1 := a1 m hm
  simpa only [hd] using b1

theorem paramsVerdict_accept (d : DocClass) (cfg : Dict) (h : paramsVerdict d cfg = .accept) :
    ∀ k v, (k, v) ∈ cfg → k = d.methodKey ∨ ∃ p, d.param? k = some p ∧ p.dom.dom v = .accept := by
  induction cfg with
  | nil => intro k v hm; simp at hm
  | cons kv rest ih =>
    obtain ⟨k0, v0⟩ := kv
    simp only [paramsVerdict, Dom.and_eq_accept] at h
    intro k v hm
    rcases List.mem_cons.1 hm with e | hm'
    · cases e
      by_cases hk : k0 = d.methodKey
      · exact Or.inl hk
      · right
        have h1 := h.1
        simp only [hk, if_false] at h1
        cases hp : d.param? k0 with
        | none => simp [hp] at h1
        | some p => simp [hp] at h1; exact ⟨p, rfl, h1⟩
    · exact ih h.2 k v hm'

theorem eq_of_nodup_map {α β : Type} (f : α → β) (l : List α) (h : (l.map f).Nodup) {a b : α}
    (ha : a ∈ l) (hb : b ∈ l) (hf : f a = f b) : a = b := by
  induction l with
  | nil => simp at ha
  | cons x xs ih =>
    simp only [List.map_cons, List.nodup_cons, List.mem_map, not_exists, not_and] at h
    rcases List.mem_cons.1 ha with rfl | ha'
    · rcases List.mem_cons.1 hb with rfl | hb'
      · rfl
      · exact absurd hf.symm (h.1 b hb')
    · rcases List.mem_cons.1 hb with rfl | hb'
      · exact absurd hf (h.1 a ha')
      · exact ih h.2 ha' hb'

theorem nodup_entry_unique {c : ClassDesc} (hnd : (c.schema.map (·.1)).Nodup) {e : String × Bool × Schema}
    (he : e ∈ c.schema) : e.2.2 = entry c e.1 := by
  unfold entry
  cases hf : c.schema.find? (fun x => x.1 == e.1) with
  | none =>
    rw [List.find?_eq_none] at hf
    exact absurd (by simp) (hf e he)
  | some e' =>
    have hm' : e' ∈ c.schema := List.mem_of_find?_eq_some hf
    have hk' : e'.1 = e.1 := by simpa using List.find?_some hf
    have : e' = e := by
      -- two entries with the same key in a list without duplicate keys are equal
      exact eq_of_nodup_map (·.1) c.schema hnd hm' he hk'
    rw [this]


theorem dom_accept_not_exception (dk : DomKind) (v : JVal) (h : dk.dom v = .accept) :
    nanListException dk v = false := by
  cases v <;> simp [nanListException, JVal.isList]
  intro e; subst e; simp [DomKind.dom] at h

theorem stepOne_accept (v : JVal) (h : DomKind.stepOne.dom v = .accept) : v = .int 1 := by
  cases v <;> simp [DomKind.dom, ofBool] at h
  rename_i i
  by_cases hi : i = 1
  · rw [hi]
  · simp [hi] at h

/-- **a step the documentation accepts is accepted**: for every built-in class of the source and
    its documented class, a step configuration (as `update_conf` delivers it) naming a registered
    method, in which every other key is a documented parameter with a value inside its documented
    domain, passes the class's `check_conf` (no disparity grid being given to a class that refuses
    grids). -/
theorem step_accepted_of_documented_accept {kind : String} {c : ClassDesc} {m : String} {d : DocClass}
    (hkc : (kind, c) ∈ allClasses) (hm : m ∈ c.names) (hd : docClass? kind m = some d)
    (l r : ImgInfo) (cfg : Dict) (hnd : Dict.nodup cfg = true)
    (hrw : ∀ kv ∈ cfg, rewriteLeaf kv.2 = kv.2)
    (hmk : Dict.lookup cfg d.methodKey = some (.str m))
    (hgr : (l.dispSource.isStr || r.dispSource.isStr) = false)
    (hv : paramsVerdict d cfg = .accept) :
    ∃ out, classCheck noOracle c l r cfg = .ok out := by
  obtain ⟨hagree, hstep⟩ := facts_of_mem hkc hm hd
  have hfacts := accept_facts_of_mem hkc hm hd
  have hwf : wfActions c.actions = true := generated_wf_of_mem hkc
  have hacc := paramsVerdict_accept d cfg hv
  simp only [acceptFacts, Bool.and_eq_true, List.all_eq_true, decide_eq_true_eq, bne_iff_ne, ne_eq,
    Bool.not_eq_true', List.contains_eq_mem, decide_eq_false_iff_not] at hfacts
  obtain ⟨⟨⟨⟨⟨⟨hguards, hsnd⟩, hdefaults⟩, hmethod⟩, hstepDefault⟩, hmkStep⟩, hstepNan⟩ := hfacts
  simp only [defaultsAgree, Bool.and_eq_true, List.all_eq_true, List.any_eq_true, Bool.or_eq_true,
    beq_iff_eq] at hagree
  obtain ⟨⟨⟨⟨hdocDefaults, hdefaultKeysDoc⟩, hschemaKeys⟩, hparamsInSchema⟩, hmethodInSchema⟩ := hagree
  -- what the Dom-accept hypothesis says about a looked-up key
  have hlookupAcc : ∀ k v, Dict.lookup cfg k = some v →
      k = d.methodKey ∨ ∃ p, d.param? k = some p ∧ p.dom.dom v = .accept :=
    fun k v hl => hacc k v (mem_of_lookup cfg k v hl)
  -- 1. the sequence runs
  have hG : GuardsCompatible l r c.actions cfg := by
    refine ⟨?_, fun _ => hgr⟩
    intro k g e hmem
    have hg := hguards _ hmem
    simp only [Bool.and_eq_true, beq_iff_eq, decide_eq_true_eq] at hg
    obtain ⟨rfl, rfl⟩ := hg
    refine ⟨?_, hstepNan, ?_⟩
    · intro u hl
      rcases hlookupAcc "step" u hl with hk | ⟨p, hp, hpa⟩
      · exact absurd hk.symm hmkStep
      · obtain ⟨hpm, hpn⟩ := param_mem hp
        simp only [stepFacts, List.all_eq_true] at hstep
        have hf := hstep p hpm
        simp only [hpn, bne_self_eq_false, Bool.false_or, Bool.and_eq_true, decide_eq_true_eq] at hf
        rw [hf.1.1.1] at hpa
        rw [stepOne_accept u hpa]; simp [pyEq, JVal.toNum?, Num.eq]
    · intro dflt hdf
      rw [hdf] at hstepDefault; exact hstepDefault
  obtain ⟨out, hrun⟩ := runActions_succeeds l r c.actions cfg hwf hG
  refine ⟨out, ?_⟩
  rw [classCheck_ok_iff]
  refine ⟨hrun, ?_⟩
  rw [dict_accepts_iff]
  have hlook := runActions_lookup l r c.actions cfg out hwf hrun
  have hkeysEq := runActions_keys l r c.actions cfg out hwf hrun
  constructor
  · -- 2. every schema entry validates on the completed dictionary
    intro e he
    rw [hlook e.1]
    cases hl : Dict.lookup cfg e.1 with
    | some u =>
      have hnan : pyEq u (.str "NaN") = false :=
        pyEq_str_NaN u (hrw (e.1, u) (mem_of_lookup cfg e.1 u hl))
      simp only [nanFix, hnan, Bool.and_false, Bool.false_eq_true, if_false]
      rcases hlookupAcc e.1 u hl with hk | ⟨p, hp, hpa⟩
      · rw [hk, hmk] at hl
        cases hl
        have := hmethod m hm e he
        simpa [hk] using this
      · obtain ⟨hpm, hpn⟩ := param_mem hp
        rw [nodup_entry_unique hsnd he]
        by_cases hs : p.name = "step"
        · simp only [stepFacts, List.all_eq_true] at hstep
          have hf := hstep p hpm
          simp only [hs, bne_self_eq_false, Bool.false_or, Bool.and_eq_true, decide_eq_true_eq] at hf
          rw [hf.1.1.1] at hpa
          have hu := stepOne_accept u hpa
          subst hu
          have hshape := shape_stepOne (.int 1)
          have hd1 : DomKind.stepOne.dom (.int 1) = .accept := by decide
          rw [hd1] at hshape
          simp only [Agrees, Bool.and_eq_true] at hshape
          rw [← hpn, hs, hf.1.1.2]
          exact hshape.2
        · have hrow := row_of_mem hkc hm hd hpm hs
          have hpol := parameters_policed _ hrow u (dom_accept_not_exception _ _ hpa)
          simp only at hpol
          rw [hpa] at hpol
          simp only [Agrees] at hpol
          rw [hpn] at hpol
          exact hpol
    | none =>
      have hdf := hdefaults e he
      cases hdo : defaultOf c.actions e.1 with
      | some dflt => simp only [hdo] at hdf ⊢; exact hdf
      | none =>
        simp only [hdo, Bool.or_eq_true, beq_iff_eq] at hdf ⊢
        rcases hdf with h | h
        · exact h
        · rw [h, hmk] at hl; cases hl
  · -- 3. no key outside the schema
    intro kv hkv
    have hk : kv.1 ∈ Dict.keys out := List.mem_map_of_mem (f := (·.1)) hkv
    rw [hkeysEq] at hk
    have hparamKey : ∀ p ∈ d.params, ∃ e ∈ c.schema, e.1 = p.name := hparamsInSchema
    rcases List.mem_append.1 hk with h | h
    · obtain ⟨⟨k', v'⟩, hm', hk'⟩ := List.mem_map.1 h
      simp only at hk'
      rcases hacc k' v' hm' with hkm | ⟨p, hp, _⟩
      · obtain ⟨e, he, hek, _⟩ := hmethodInSchema
        exact ⟨e, he, by rw [hek, ← hkm, hk']⟩
      · obtain ⟨hpm, hpn⟩ := param_mem hp
        obtain ⟨e, he, hen⟩ := hparamKey p hpm
        exact ⟨e, he, by rw [hen, hpn, hk']⟩
    · have hdk : kv.1 ∈ defaultKeys c.actions := (List.mem_filter.1 h).1
      obtain ⟨p, hpm, hpn⟩ := hdefaultKeysDoc kv.1 hdk
      obtain ⟨e, he, hen⟩ := hparamKey p hpm
      exact ⟨e, he, by rw [hen, hpn]⟩


/-! ### 8. The input-section defaults -/

/-- `default_short_configuration_input`: nodata −9999, mask / classif / segm `None` on both sides,
    right disparity `None` -/
theorem input_defaults_documented :
    inputSchemas.defaults =
      [("input", .obj [
        ("left", .obj [("nodata", .int (-9999)), ("mask", .null), ("classif", .null), ("segm", .null)]),
        ("right", .obj [("nodata", .int (-9999)), ("mask", .null), ("classif", .null), ("segm", .null),
                        ("disp", .null)])])] := by decide


/-! ### 9. The machine's loop on a fresh machine -/

theorem stepCallback_ok {o : Oracle} {fl : MachineFlags} {reg : List KindDesc} {kind : Machine.Kind}
    {name : String} {stepCfg : JVal} {l r : ImgInfo} {m m' : CState}
    (h : stepCallback o fl reg kind name stepCfg l r m = .ok m') :
    ∃ cfg kd out, stepCfg = .obj cfg ∧ kindDesc? reg kind.name = some kd ∧
      construct o kd l r cfg = .ok out ∧
      m'.pipelineCfg = Dict.setKey m.pipelineCfg name (.obj out) := by
  unfold stepCallback at h
  cases stepCfg with
  | obj cfg =>
    simp only at h
    cases hk : kindDesc? reg kind.name with
    | none => simp [hk] at h
    | some kd =>
      simp only [hk] at h
      cases hc : construct o kd l r cfg with
      | error e => cases kind <;> simp [hc] at h <;> (try split at h) <;> simp_all
      | ok out =>
        refine ⟨cfg, kd, out, rfl, rfl, hc, ?_⟩
        cases kind <;> simp only [hc] at h
        all_goals (try split at h)
        all_goals (try (cases h; rfl))
        all_goals (try simp at h)
        all_goals (try (split at h <;> first | (cases h; rfl) | simp at h))
  | _ => simp at h


theorem setKey_same (d : Dict) (k : String) (v : JVal) (h : Dict.lookup d k = some v) :
    Dict.setKey d k v = d := by
  induction d with
  | nil => simp [Dict.lookup] at h
  | cons kv rest ih =>
    obtain ⟨k', v'⟩ := kv
    by_cases e : k' = k
    · subst e; simp [Dict.lookup] at h; subst h; simp [Dict.setKey]
    · simp [Dict.lookup, e] at h; simp [Dict.setKey, e, ih h]

/-- what the first round of the loop leaves in `pipeline_cfg` when the steps are new to it: the
    steps, appended in the order of the configuration, each holding what `Abstract<Kind>(**cfg)`
    returned -/
theorem checkLoop_stores (o : Oracle) (fl : MachineFlags) (reg : List KindDesc) (pipeline : Dict)
    (l r : ImgInfo) :
    ∀ (names : List String) (st : Machine.St) (m m' : CState),
      checkLoop o fl reg pipeline l r st names m = .ok m' → names.Nodup →
      (∀ n ∈ names, Dict.lookup m.pipelineCfg n = none) →
      Dict.keys m'.pipelineCfg = Dict.keys m.pipelineCfg ++ names ∧
      (∀ k, k ∉ names → Dict.lookup m'.pipelineCfg k = Dict.lookup m.pipelineCfg k) ∧
      (∀ n ∈ names, ∃ kind cfg kd out,
        Machine.Kind.ofName? (Machine.kindOf n) = some kind ∧
        Dict.lookup pipeline n = some (.obj cfg) ∧ kindDesc? reg kind.name = some kd ∧
        construct o kd l r cfg = .ok out ∧ Dict.lookup m'.pipelineCfg n = some (.obj out)) := by
  intro names
  induction names with
  | nil =>
    intro st m m' h _ _
    simp [checkLoop] at h
    subst h
    simp
  | cons n ns ih =>
    intro st m m' h hnd hfresh
    simp only [checkLoop] at h
    cases hk : Machine.Kind.ofName? (Machine.kindOf n) with
    | none => simp [hk] at h
    | some kind =>
      simp only [hk] at h
      cases hdoc : Machine.documented st kind with
      | none => simp [hdoc] at h
      | some st' =>
        simp only [hdoc] at h
        cases hcb : stepCallback o fl reg kind n ((Dict.lookup pipeline n).getD .null) l r m with
        | error e => simp [hcb] at h
        | ok m1 =>
          simp only [hcb] at h
          obtain ⟨cfg, kd, out, hobj, hkd, hcons, hpc⟩ := stepCallback_ok hcb
          have hnd' : ns.Nodup := (List.nodup_cons.1 hnd).2
          have hnn : n ∉ ns := (List.nodup_cons.1 hnd).1
          have hln : Dict.lookup m.pipelineCfg n = none := hfresh n (by simp)
          have hm1 : m1.pipelineCfg = m.pipelineCfg ++ [(n, .obj out)] := by
            rw [hpc, setKey_absent _ _ _ hln]
          have hfresh1 : ∀ x ∈ ns, Dict.lookup m1.pipelineCfg x = none := by
            intro x hx
            rw [hpc, lookup_setKey]
            have : n ≠ x := fun e => hnn (e ▸ hx)
            simp [this, hfresh x (List.mem_cons_of_mem _ hx)]
          obtain ⟨hkeys, hother, hsteps⟩ := ih st' m1 m' h hnd' hfresh1
          have hlp : Dict.lookup pipeline n = some (.obj cfg) := by
            cases hl : Dict.lookup pipeline n with
            | none => simp [hl] at hobj
            | some v => simp [hl] at hobj; rw [hobj]
          refine ⟨?_, ?_, ?_⟩
          · rw [hkeys, hm1]; simp [Dict.keys]
          · intro k hk'
            simp only [List.mem_cons, not_or] at hk'
            rw [hother k hk'.2, hpc, lookup_setKey]
            simp [Ne.symm hk'.1]
          · intro x hx
            rcases List.mem_cons.1 hx with rfl | hx'
            · refine ⟨kind, cfg, kd, out, hk, hlp, hkd, hcons, ?_⟩
              rw [hother _ hnn, hpc, lookup_setKey]; simp
            · exact hsteps x hx'


/-! the right/left round checks the same steps with the images swapped: nothing depends on which
    image is which except the refusal of grids, which is symmetric -/

theorem runAction_swap (l r : ImgInfo) (cfg : Dict) (a : Action) :
    runAction l r cfg a = runAction r l cfg a := by
  cases a <;> simp [runAction, Bool.or_comm]

theorem runActions_swap (l r : ImgInfo) (acts : List Action) :
    ∀ cfg, runActions l r acts cfg = runActions r l acts cfg := by
  induction acts with
  | nil => intro cfg; rfl
  | cons a rest ih =>
    intro cfg
    simp only [runActions, runAction_swap l r cfg a]
    cases runAction r l cfg a with
    | error e => rfl
    | ok cfg' => exact ih cfg'

theorem construct_swap (o : Oracle) (kd : KindDesc) (l r : ImgInfo) (cfg : Dict) :
    construct o kd l r cfg = construct o kd r l cfg := by
  have hc : ∀ c : ClassDesc, classCheck o c l r cfg = classCheck o c r l cfg := by
    intro c; simp only [classCheck, runActions_swap l r]
  unfold construct
  simp only [hc]

/-- a round over steps whose completed configuration is already stored leaves `pipeline_cfg` as it is -/
theorem checkLoop_same (o : Oracle) (fl : MachineFlags) (reg : List KindDesc) (pipeline : Dict)
    (l r : ImgInfo) :
    ∀ (names : List String) (st : Machine.St) (m m' : CState),
      checkLoop o fl reg pipeline l r st names m = .ok m' →
      (∀ n ∈ names, ∀ kind cfg kd out, Machine.Kind.ofName? (Machine.kindOf n) = some kind →
        Dict.lookup pipeline n = some (.obj cfg) → kindDesc? reg kind.name = some kd →
        construct o kd l r cfg = .ok out → Dict.lookup m.pipelineCfg n = some (.obj out)) →
      m'.pipelineCfg = m.pipelineCfg := by
  intro names
  induction names with
  | nil =>
    intro st m m' h _
    simp [checkLoop] at h
    subst h; rfl
  | cons n ns ih =>
    intro st m m' h hstored
    simp only [checkLoop] at h
    cases hk : Machine.Kind.ofName? (Machine.kindOf n) with
    | none => simp [hk] at h
    | some kind =>
      simp only [hk] at h
      cases hdoc : Machine.documented st kind with
      | none => simp [hdoc] at h
      | some st' =>
        simp only [hdoc] at h
        cases hcb : stepCallback o fl reg kind n ((Dict.lookup pipeline n).getD .null) l r m with
        | error e => simp [hcb] at h
        | ok m1 =>
          simp only [hcb] at h
          obtain ⟨cfg, kd, out, hobj, hkd, hcons, hpc⟩ := stepCallback_ok hcb
          have hlp : Dict.lookup pipeline n = some (.obj cfg) := by
            cases hl : Dict.lookup pipeline n with
            | none => simp [hl] at hobj
            | some v => simp [hl] at hobj; rw [hobj]
          have hsame : m1.pipelineCfg = m.pipelineCfg := by
            rw [hpc]
            exact setKey_same _ _ _ (hstored n (by simp) kind cfg kd out hk hlp hkd hcons)
          have := ih st' m1 m' h (by
            intro x hx kind' cfg' kd' out' h1 h2 h3 h4
            rw [hsame]
            exact hstored x (List.mem_cons_of_mem _ hx) kind' cfg' kd' out' h1 h2 h3 h4)
          rw [this, hsame]

/-- **`PandoraMachine.check_conf` on a fresh machine** (or one that empties `pipeline_cfg` first):
    after both rounds `pipeline_cfg` holds exactly the configured steps, in the configured order,
    each with the dictionary its class returned -/
theorem machineCheck_fresh (o : Oracle) (fl : MachineFlags) (reg : List KindDesc) (pipeline : Dict)
    (l r : ImgInfo) (m m' : CState)
    (hfresh : m.pipelineCfg = [] ∨ fl.resetPipelineCfg = true)
    (hnd : (Dict.keys pipeline).Nodup)
    (h : machineCheck o fl reg pipeline l r m = .ok m') :
    Dict.keys m'.pipelineCfg = Dict.keys pipeline ∧
    (∀ n ∈ Dict.keys pipeline, ∃ kind cfg kd out,
      Machine.Kind.ofName? (Machine.kindOf n) = some kind ∧
      Dict.lookup pipeline n = some (.obj cfg) ∧ kindDesc? reg kind.name = some kd ∧
      construct o kd l r cfg = .ok out ∧ Dict.lookup m'.pipelineCfg n = some (.obj out)) := by
  unfold machineCheck at h
  -- the machine state the first round starts from has an empty pipeline_cfg
  have hm0 : (if fl.resetPipelineCfg = true then { m with pipelineCfg := [] } else m).pipelineCfg = [] := by
    rcases hfresh with h0 | h0
    · by_cases hr : fl.resetPipelineCfg = true <;> simp [hr, h0]
    · simp [h0]
  generalize (if fl.resetPipelineCfg = true then { m with pipelineCfg := [] } else m) = m0 at h hm0
  simp only at h
  cases h1 : checkLoop o fl reg pipeline l r .begin (Dict.keys pipeline) m0 with
  | error e => simp [h1] at h
  | ok m1 =>
    simp only [h1] at h
    obtain ⟨hkeys, _, hsteps⟩ := checkLoop_stores o fl reg pipeline l r (Dict.keys pipeline) .begin m0 m1 h1 hnd
      (by intro n _; simp [hm0, Dict.lookup])
    rw [hm0] at hkeys
    simp only [Dict.keys, List.map_nil, List.nil_append] at hkeys
    by_cases hr : m1.rightDispMap = true
    · simp only [hr, if_true] at h
      have hsame := checkLoop_same o fl reg pipeline r l (Dict.keys pipeline) .begin m1 m' h (by
        intro n hn kind cfg kd out hk hlp hkd hcons
        obtain ⟨kind', cfg', kd', out', hk', hlp', hkd', hcons', hlook'⟩ := hsteps n hn
        rw [hk] at hk'; cases hk'
        rw [hlp] at hlp'; cases hlp'
        rw [hkd] at hkd'; cases hkd'
        rw [construct_swap, hcons'] at hcons; cases hcons
        exact hlook')
      rw [hsame]
      exact ⟨hkeys, hsteps⟩
    · simp only [hr] at h
      cases h
      exact ⟨hkeys, hsteps⟩


/-! ### 10. `update_conf` -/

/-- a value `update_conf` stores as it is: not a dictionary, not one of the three magic strings -/
def fixedLeaf (v : JVal) : Bool := !v.isObj && decide (rewriteLeaf v = v)

theorem updateVal_fixedLeaf (g : Bool) (dv : Option JVal) (v : JVal) (h : fixedLeaf v = true) :
    updateVal g dv v = .ok v := by
  simp only [fixedLeaf, Bool.and_eq_true, Bool.not_eq_true', decide_eq_true_eq] at h
  cases v <;> simp [JVal.isObj] at h <;> simp [updateVal, h]

theorem rewriteLeaf_idem (v : JVal) : rewriteLeaf (rewriteLeaf v) = rewriteLeaf v := by
  unfold rewriteLeaf
  by_cases h1 : v = .str "NaN"
  · simp [h1]
  · by_cases h2 : v = .str "inf"
    · simp [h2]
    · by_cases h3 : v = .str "-inf"
      · simp [h3]
      · simp [h1, h2, h3]

/-- a leaf of the user's dictionary is stored rewritten (`"NaN"`, `"inf"`, `"-inf"` → floats) -/
theorem updateVal_leaf (g : Bool) (dv : Option JVal) (v : JVal) (h : v.isObj = false) :
    updateVal g dv v = .ok (rewriteLeaf v) := by
  cases v <;> simp [JVal.isObj] at h <;> simp [updateVal]

/-- two dictionaries without duplicate keys, with the same keys in the same order and the same
    lookups, are equal -/
theorem dict_ext : ∀ (a b : Dict), Dict.keys a = Dict.keys b → (Dict.keys a).Nodup →
    (∀ k, Dict.lookup a k = Dict.lookup b k) → a = b := by
  intro a
  induction a with
  | nil => intro b hk _ _; cases b <;> simp [Dict.keys] at hk ⊢
  | cons x xs ih =>
    intro b hk hnd hl
    cases b with
    | nil => simp [Dict.keys] at hk
    | cons y ys =>
      obtain ⟨k, v⟩ := x
      obtain ⟨k', v'⟩ := y
      simp only [Dict.keys, List.map_cons, List.cons.injEq] at hk
      obtain ⟨rfl, hk2⟩ := hk
      simp only [Dict.keys, List.map_cons, List.nodup_cons] at hnd
      have hv : v = v' := by
        have := hl k
        simpa [Dict.lookup] using this
      subst hv
      have : xs = ys := by
        apply ih ys hk2 hnd.2
        intro q
        by_cases e : k = q
        · subst e
          have h1 : Dict.lookup xs k = none := (lookup_none_iff xs k).2 hnd.1
          have h2 : Dict.lookup ys k = none := by
            apply (lookup_none_iff ys k).2
            have : Dict.keys ys = Dict.keys xs := hk2.symm
            rw [this]; exact hnd.1
          rw [h1, h2]
        · have := hl q
          simpa [Dict.lookup, e] using this
      rw [this]

/-- **`update_conf` on a dictionary of leaves**: the default's keys keep their position, the user's
    new keys are appended in the user's order, every user value is stored (rewritten), every
    default the user did not override is kept -/
theorem updateConf_leaves (g : Bool) :
    ∀ (items cur : Dict), (∀ kv ∈ items, kv.2.isObj = false) → (Dict.keys items).Nodup →
      ∃ out, updateConf g cur items = .ok out ∧
        Dict.keys out = Dict.keys cur ++ (Dict.keys items).filter (fun k => !(Dict.keys cur).contains k) ∧
        (∀ k, Dict.lookup out k =
          match Dict.lookup items k with
          | some v => some (rewriteLeaf v)
          | none => Dict.lookup cur k) := by
  intro items
  induction items with
  | nil => intro cur _ _; exact ⟨cur, by simp [updateConf], by simp [Dict.keys], by simp [Dict.lookup]⟩
  | cons kv rest ih =>
    intro cur hleaf hnd
    obtain ⟨k, v⟩ := kv
    have hv : v.isObj = false := hleaf (k, v) (by simp)
    simp only [Dict.keys, List.map_cons, List.nodup_cons] at hnd
    obtain ⟨out, hrun, hkeys, hlook⟩ := ih (Dict.setKey cur k (rewriteLeaf v))
      (fun kv h => hleaf kv (List.mem_cons_of_mem _ h)) hnd.2
    refine ⟨out, by simp [updateConf, updateVal_leaf g _ v hv, hrun], ?_, ?_⟩
    · rw [hkeys]
      cases hl : Dict.lookup cur k with
      | none =>
        have hm : k ∉ Dict.keys cur := (lookup_none_iff cur k).1 hl
        rw [setKey_absent cur k _ hl]
        simp only [Dict.keys, List.map_append, List.map_cons, List.map_nil, List.filter_cons]
        simp only [Dict.keys] at hm
        simp [hm]
        apply List.filter_congr
        intro x hx
        have : x ≠ k := fun e => hnd.1 (e ▸ hx)
        simp [this]
      | some old =>
        have hm : k ∈ Dict.keys cur := by rw [← hasKey_iff_mem_keys]; simp [Dict.hasKey, hl]
        rw [keys_setKey_present cur k _ (by simp [hl])]
        simp only [Dict.keys, List.map_cons, List.filter_cons]
        simp only [Dict.keys] at hm
        simp [hm]
    · intro q
      rw [hlook q]
      by_cases e : k = q
      · subst e
        have : Dict.lookup rest k = none := (lookup_none_iff rest k).2 hnd.1
        simp [this, Dict.lookup, lookup_setKey]
      · simp [Dict.lookup, e, lookup_setKey]


end Pandora.C05
