/- C05 — theorems (placeholder until the property is built). -/
