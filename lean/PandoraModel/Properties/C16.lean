/- C16 — theorems (placeholder until the property is built). -/
