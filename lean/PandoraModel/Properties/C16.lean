/-
  C16 — Image datasets faithfully encode input rasters, masks, nodata and ROI.

  Theorems about the executable model `Model/Dataset.lean` of `pandora/img_tools.py`, instantiated
  (section 6) with the comparison operators and constants the translator regenerated from the source
  on this run (`Generated/ImgTools.lean`).

  What is proved, for every raster size, band count, sample values (NaN / ±inf included), nodata
  value, mask raster (any integers), disparity pair or grids, classification / segmentation rasters,
  every ROI and margin 4-tuple with `first ≤ last` and non-negative margins:
    * `getWindow_eq_spec`    the window computed by `get_window` is the product of the closed
                             intervals [first − m, last + m] ∩ [0, size − 1], and the ROI is refused
                             exactly when one of them is empty;
    * `read_spec`            every per-read clause of the specification holds of the model's dataset;
    * `roi_spec`             a ROI read is the crop of the full read to that window, coordinates
                             included, refused iff outside, and satisfies the per-read clauses with
                             respect to the cropped input.
  Two hypotheses depend on what the source says (they are `true` for the repaired source):
    * `edgeFree`  with the strict comparisons `col_off > width`, `… < 0` of today's source the ROI
                  must not start exactly one past the last column/row nor end exactly at −1
                  (`getWindow_current_counterexample`: otherwise an empty window is returned);
    * `maskOk`    with `input_mask > 0` the input mask must have no negative value
                  (`mask_current_counterexample`: a negative value is treated as valid).
  Modelled, not verified: rasterio (a windowed read is the crop of the full read; `out_dtype`
  conversions), float32 representation of the samples, xarray.
-/
import PandoraModel.Model.Dataset
import PandoraModel.Generated.ImgTools

namespace Pandora.C16
open Pandora.Dataset


/-! ### 1. The window (`get_window`) -/

theorem offTest_iff (s : Bool) (off size : Int) :
    offTest s off size = true ↔ (if s then off > size else off ≥ size) := by
  cases s <;> simp [offTest]

theorem endTest_iff (s : Bool) (e : Int) :
    endTest s e = true ↔ (if s then e < 0 else e ≤ 0) := by
  cases s <;> simp [endTest]

/-- one axis: refusal -/
theorem axis_refused (sOff sEnd : Bool) (first last mLo mHi size : Int)
    (h1 : first ≤ last) (h2 : 0 ≤ mLo) (h3 : 0 ≤ mHi) (hs : 0 < size)
    (e1 : sOff = true → first - mLo ≠ size) (e2 : sEnd = true → last + mHi ≠ -1) :
    (offTest sOff (max (first - mLo) 0) size = true ∨
      endTest sEnd (max (first - mLo) 0 + (last - max (first - mLo) 0 + mHi + 1)) = true)
      ↔ clipAxis first last mLo mHi size = none := by
  rw [offTest_iff, endTest_iff]
  simp only [clipAxis]
  cases sOff <;> cases sEnd <;> simp at e1 e2 ⊢ <;> omega

theorem axis_kept (first last mLo mHi size : Int) (lo hi : Int)
    (h : clipAxis first last mLo mHi size = some (lo, hi)) :
    lo = max (first - mLo) 0 ∧
    (if lo + (last - lo + mHi + 1) > size then size - lo else last - lo + mHi + 1) = hi - lo + 1 := by
  simp only [clipAxis] at h
  split at h
  · simp at h
    obtain ⟨rfl, rfl⟩ := h
    refine ⟨rfl, ?_⟩
    split <;> omega
  · simp at h

theorem getWindow_eq_spec (p : Params) (roi : Roi) (width height : Int)
    (hwf : roi.wf = true) (hw : 0 < width) (hh : 0 < height)
    (hedge : edgeFree p roi width height = true) :
    getWindow p roi width height = windowSpec roi width height := by
  obtain ⟨cf, cl, rf, rl, ml, mu, mr, md⟩ := roi
  simp only [Roi.wf, Bool.and_eq_true, decide_eq_true_eq] at hwf
  obtain ⟨⟨⟨⟨⟨h1, h2⟩, h3⟩, h4⟩, h5⟩, h6⟩ := hwf
  simp only [edgeFree, Bool.and_eq_true, Bool.or_eq_true, Bool.not_eq_true', decide_eq_true_eq] at hedge
  obtain ⟨⟨⟨e1, e2⟩, e3⟩, e4⟩ := hedge
  have hc := axis_refused p.colOffStrict p.colEndStrict cf cl ml mr width h1 h3 h5 hw
    (fun h => by rcases e1 with e | e; · rw [h] at e; cases e
                 · exact e)
    (fun h => by rcases e3 with e | e; · rw [h] at e; cases e
                 · exact e)
  have hr := axis_refused p.rowOffStrict p.rowEndStrict rf rl mu md height h2 h4 h6 hh
    (fun h => by rcases e2 with e | e; · rw [h] at e; cases e
                 · exact e)
    (fun h => by rcases e4 with e | e; · rw [h] at e; cases e
                 · exact e)
  simp only [getWindow, windowSpec]
  cases hcc : clipAxis cf cl ml mr width with
  | none =>
    have := hc.2 hcc
    rw [if_pos]
    rcases this with t | t <;> simp [t]
  | some cw =>
    obtain ⟨c0, c1⟩ := cw
    cases hrr : clipAxis rf rl mu md height with
    | none =>
      have := hr.2 hrr
      rw [if_pos]
      rcases this with t | t <;> simp [t]
    | some rw_ =>
      obtain ⟨r0, r1⟩ := rw_
      have nc : ¬ _ := fun h => by have := hc.1 h; rw [hcc] at this; cases this
      have nr : ¬ _ := fun h => by have := hr.1 h; rw [hrr] at this; cases this
      simp only [not_or, Bool.not_eq_true] at nc nr
      rw [if_neg (by simp [nc.1, nc.2, nr.1, nr.2])]
      obtain ⟨hc0, hc1⟩ := axis_kept _ _ _ _ _ _ _ hcc
      obtain ⟨hr0, hr1⟩ := axis_kept _ _ _ _ _ _ _ hrr
      subst hc0 hr0
      simp only [hc1, hr1]

/-! ### 2. Bounded quantifiers, nodata detection, one mask cell -/

theorem allB_iff (n : Nat) (f : Nat → Bool) : allB n f = true ↔ ∀ i, i < n → f i = true := by
  simp [allB, List.all_eq_true, List.mem_range]

theorem anyB_iff (n : Nat) (f : Nat → Bool) : anyB n f = true ↔ ∃ i, i < n ∧ f i = true := by
  simp [anyB, List.any_eq_true, List.mem_range]

theorem allRC_iff (rows cols : Nat) (f : Nat → Nat → Bool) :
    allRC rows cols f = true ↔ ∀ r, r < rows → ∀ c, c < cols → f r c = true := by
  simp [allRC, List.all_eq_true, List.mem_range]

theorem anyRC_iff (rows cols : Nat) (f : Nat → Nat → Bool) :
    anyRC rows cols f = true ↔ ∃ r, r < rows ∧ ∃ c, c < cols ∧ f r c = true := by
  simp [anyRC, List.any_eq_true, List.mem_range]

theorem anyRC_false_iff (rows cols : Nat) (f : Nat → Nat → Bool) :
    anyRC rows cols f = false ↔ ∀ r, r < rows → ∀ c, c < cols → f r c = false := by
  rw [← Bool.not_eq_true, anyRC_iff]
  constructor
  · intro h r hr c hc
    cases hf : f r c with
    | false => rfl
    | true => exact absurd ⟨r, hr, c, hc, hf⟩ h
  · rintro h ⟨r, hr, c, hc, hf⟩
    rw [h r hr c hc] at hf
    cases hf

theorem anyB_congr (n : Nat) (f g : Nat → Bool) (h : ∀ i, i < n → f i = g i) : anyB n f = anyB n g := by
  cases hg : anyB n g with
  | true =>
    obtain ⟨i, hi, hgi⟩ := (anyB_iff n g).1 hg
    exact (anyB_iff n f).2 ⟨i, hi, by rw [h i hi]; exact hgi⟩
  | false =>
    cases hf : anyB n f with
    | false => rfl
    | true =>
      obtain ⟨i, hi, hfi⟩ := (anyB_iff n f).1 hf
      have : anyB n g = true := (anyB_iff n g).2 ⟨i, hi, by rw [← h i hi]; exact hfi⟩
      rw [hg] at this
      cases this

theorem detect_eq_same (nodata s : FVal) : detect nodata s = sameAsNodata nodata s := by
  cases nodata <;> cases s <;> simp [detect, sameAsNodata, FVal.isNan, FVal.isInf, FVal.npEq]
  rename_i a b
  by_cases h : a = b
  · simp [h]
  · have : ¬ b = a := fun e => h e.symm
    simp [h, this]

theorem cropInput_zero (inp : Input) : cropInput inp 0 0 inp.rows inp.cols = inp := by
  obtain ⟨rows, cols, nb, bn, im, nd, mask, disp, classif, segm⟩ := inp
  cases mask <;> cases disp <;> cases classif <;> cases segm <;> rfl

/-- the mask cell by cases -/
theorem mskValue_cases (p : Params) (hk : p.known = true) (mv : Option Int) (hit : Bool)
    (hm : p.maskCmp = .gt → 0 ≤ mv.getD 0) :
    (mskValue p mv hit = 1 ↔ hit = true) ∧
    ((mskValue p mv hit ≠ 0 ∧ mskValue p mv hit ≠ 1) ↔ (mv.getD 0 ≠ 0 ∧ hit = false)) ∧
    (mskValue p mv hit = 0 ↔ (mv.getD 0 = 0 ∧ hit = false)) := by
  simp only [Params.known, Bool.and_eq_true, decide_eq_true_eq] at hk
  obtain ⟨⟨hv, hn⟩, _⟩ := hk
  cases hit <;> cases mv with
  | none => simp [mskValue, hv, hn]
  | some v =>
    simp only [Option.getD_some] at hm
    cases hc : p.maskCmp with
    | ne =>
      by_cases h0 : v = 0 <;> simp [mskValue, hv, hn, hc, maskTest, Params.invalidValue, h0]
    | gt =>
      have := hm hc
      by_cases h0 : v = 0
      · simp [mskValue, hv, hn, hc, maskTest, h0]
      · have : v > 0 := by omega
        simp [mskValue, hv, hn, hc, maskTest, Params.invalidValue, h0, this]

/-! ### 3. One read: every clause of the specification -/

section Read
variable (p : Params) (inp : Input) (ro co rows cols : Nat)

/-- the model's per-pixel nodata hit is the specification's "some band carries the nodata value" -/
theorem hit_eq (r c : Nat) :
    (anyB inp.nbands fun b => detect inp.nodata (inp.im b (r + ro) (c + co)))
      = (cropInput inp ro co rows cols).noDataAt r c := by
  unfold Input.noDataAt
  apply anyB_congr
  intro b _
  rw [detect_eq_same]
  rfl

theorem hit_eq_fun :
    (fun r c => anyB inp.nbands fun b => detect inp.nodata (inp.im b (r + ro) (c + co)))
      = (cropInput inp ro co rows cols).noDataAt := by
  funext r c
  exact hit_eq inp ro co rows cols r c

theorem read_samples : specSamples (cropInput inp ro co rows cols) (readDS p inp ro co rows cols) = true := by
  simp only [specSamples, Bool.and_eq_true, beq_iff_eq, allB_iff, allRC_iff, Bool.or_eq_true, decide_eq_true_eq]
  refine ⟨⟨⟨rfl, rfl⟩, rfl⟩, ?_⟩
  intro b _ r _ c _
  show _ ∨ (readDS p inp ro co rows cols).im b r c = inp.im b (r + ro) (c + co)
  simp only [readDS]
  split
  · rename_i h
    left
    simp only [Bool.and_eq_true] at h
    obtain ⟨⟨_, hnf⟩, hd⟩ := h
    rw [detect_eq_same] at hd
    exact ⟨hnf, hd⟩
  · right; rfl

theorem read_bandNames : specBandNames (cropInput inp ro co rows cols) (readDS p inp ro co rows cols) = true := by
  simp only [specBandNames, readDS, cropInput]
  split <;> simp

theorem read_replaced (hk : p.known = true) :
    specReplaced (cropInput inp ro co rows cols) (readDS p inp ro co rows cols) = true := by
  simp only [Params.known, Bool.and_eq_true, decide_eq_true_eq] at hk
  simp only [specReplaced, allB_iff, allRC_iff, Bool.or_eq_true, Bool.not_eq_true', decide_eq_true_eq]
  intro b hb r hr c hc
  cases hs : (nonFinite (cropInput inp ro co rows cols).nodata &&
      sameAsNodata (cropInput inp ro co rows cols).nodata ((cropInput inp ro co rows cols).im b r c)) with
  | false => left; rfl
  | true =>
    right
    simp only [Bool.and_eq_true] at hs
    obtain ⟨hnf, hsame⟩ := hs
    have hd : detect inp.nodata (inp.im b (r + ro) (c + co)) = true := by rw [detect_eq_same]; exact hsame
    have hany : anyRC rows cols (fun r c => anyB inp.nbands fun b => detect inp.nodata (inp.im b (r + ro) (c + co))) = true :=
      (anyRC_iff _ _ _).2 ⟨r, hr, c, hc, (anyB_iff _ _).2 ⟨b, hb, hd⟩⟩
    simp only [readDS, hany, Bool.true_and]
    have : (inp.nodata.isNan || inp.nodata.isInf) = true := hnf
    rw [this, hd]
    simp [hk.2]
end Read

section Mask
variable (p : Params) (inp : Input) (ro co rows cols : Nat)

theorem maskAt_crop (r c : Nat) :
    (cropInput inp ro co rows cols).maskAt r c = (inp.mask.map fun mf => mf (r + ro) (c + co)).getD 0 := by
  unfold Input.maskAt cropInput
  cases inp.mask <;> rfl

theorem anyHit_eq :
    anyRC rows cols (fun r c => anyB inp.nbands fun b => detect inp.nodata (inp.im b (r + ro) (c + co)))
      = anyRC rows cols (cropInput inp ro co rows cols).noDataAt := by
  rw [hit_eq_fun inp ro co rows cols]

theorem read_mskView (r c : Nat) :
    (readDS p inp ro co rows cols).mskView r c =
      if (inp.mask.isNone && !anyRC rows cols (cropInput inp ro co rows cols).noDataAt) = true then 0
      else mskValue p (inp.mask.map fun mf => mf (r + ro) (c + co)) ((cropInput inp ro co rows cols).noDataAt r c) := by
  simp only [DS.mskView, readDS, hit_eq inp ro co rows cols]
  by_cases h : (inp.mask.isNone && !anyRC rows cols (cropInput inp ro co rows cols).noDataAt) = true
  · rw [if_pos h, if_pos h]
  · rw [if_neg h, if_neg h]

theorem read_msk_isNone :
    (readDS p inp ro co rows cols).msk.isNone
      = (inp.mask.isNone && !anyRC rows cols (cropInput inp ro co rows cols).noDataAt) := by
  simp only [readDS, anyHit_eq inp ro co rows cols]
  split <;> simp_all

/-- the three classes of a mask cell -/
theorem read_msk_cell (hk : p.known = true) (hm : maskOk p (cropInput inp ro co rows cols) = true)
    (r c : Nat) (hr : r < rows) (hc : c < cols) :
    let inp' := cropInput inp ro co rows cols
    let v := (readDS p inp ro co rows cols).mskView r c
    (v = 1 ↔ inp'.noDataAt r c = true) ∧
    ((v ≠ 0 ∧ v ≠ 1) ↔ (inp'.maskAt r c ≠ 0 ∧ inp'.noDataAt r c = false)) ∧
    (v = 0 ↔ (inp'.maskAt r c = 0 ∧ inp'.noDataAt r c = false)) := by
  intro inp' v
  have hv : v = _ := read_mskView p inp ro co rows cols r c
  by_cases hnone : (inp.mask.isNone && !anyRC rows cols inp'.noDataAt) = true
  · rw [if_pos hnone] at hv
    simp only [Bool.and_eq_true, Bool.not_eq_true', Option.isNone_iff_eq_none] at hnone
    obtain ⟨hmn, hany⟩ := hnone
    have hnd : inp'.noDataAt r c = false := (anyRC_false_iff _ _ _).1 hany r hr c hc
    have hma : inp'.maskAt r c = 0 := by
      rw [maskAt_crop, hmn]; rfl
    rw [hv, hnd, hma]
    simp
  · rw [if_neg hnone] at hv
    rw [hv, maskAt_crop]
    apply mskValue_cases p hk
    intro hgt
    rw [← maskAt_crop inp ro co rows cols]
    simp only [maskOk, hgt, allRC_iff, decide_eq_true_eq] at hm
    exact hm r hr c hc

theorem read_nodataIff (hk : p.known = true) (hm : maskOk p (cropInput inp ro co rows cols) = true) :
    specNodataIff (cropInput inp ro co rows cols) (readDS p inp ro co rows cols) = true := by
  simp only [specNodataIff, allRC_iff, beq_iff_eq]
  intro r hr c hc
  have h := (read_msk_cell p inp ro co rows cols hk hm r c hr hc).1
  cases hn : (cropInput inp ro co rows cols).noDataAt r c with
  | true => simpa using h.2 hn
  | false =>
    simp only [decide_eq_false_iff_not]
    intro hv
    rw [h.1 hv] at hn
    cases hn

theorem read_invalidIff (hk : p.known = true) (hm : maskOk p (cropInput inp ro co rows cols) = true) :
    specInvalidIff (cropInput inp ro co rows cols) (readDS p inp ro co rows cols) = true := by
  simp only [specInvalidIff, allRC_iff, beq_iff_eq]
  intro r hr c hc
  have h := (read_msk_cell p inp ro co rows cols hk hm r c hr hc).2.1
  rw [Bool.eq_iff_iff]
  simp only [Bool.and_eq_true, decide_eq_true_eq, Bool.not_eq_true']
  exact h

theorem read_validOtherwise (hk : p.known = true) (hm : maskOk p (cropInput inp ro co rows cols) = true) :
    specValidOtherwise (cropInput inp ro co rows cols) (readDS p inp ro co rows cols) = true := by
  simp only [specValidOtherwise, allRC_iff, beq_iff_eq]
  intro r hr c hc
  have h := (read_msk_cell p inp ro co rows cols hk hm r c hr hc).2.2
  rw [Bool.eq_iff_iff]
  simp only [Bool.and_eq_true, decide_eq_true_eq, Bool.not_eq_true']
  exact h

theorem read_noMask : specNoMask (cropInput inp ro co rows cols) (readDS p inp ro co rows cols) = true := by
  simp only [specNoMask, read_msk_isNone]
  have hdim : (cropInput inp ro co rows cols).rows = rows ∧ (cropInput inp ro co rows cols).cols = cols := ⟨rfl, rfl⟩
  have hmask : (cropInput inp ro co rows cols).mask.isNone = inp.mask.isNone := by
    unfold cropInput; cases inp.mask <;> rfl
  rw [hdim.1, hdim.2, hmask]
  cases hmn : inp.mask.isNone <;> cases hany : anyRC rows cols (cropInput inp ro co rows cols).noDataAt <;> simp
  -- mask none, no nodata: nothing to flag
  rw [anyRC_false_iff] at hany ⊢
  intro r hr c hc
  have hma : (cropInput inp ro co rows cols).maskAt r c = 0 := by
    rw [maskAt_crop]
    rw [Option.isNone_iff_eq_none] at hmn
    rw [hmn]; rfl
  simp [hany r hr c hc, hma]
end Mask

section Rest
variable (p : Params) (inp : Input) (ro co rows cols : Nat)

theorem read_disparity : specDisparity (cropInput inp ro co rows cols) (readDS p inp ro co rows cols) = true := by
  unfold specDisparity
  have hd : (cropInput inp ro co rows cols).disp =
      match inp.disp with
      | .grid g => .grid fun k r c => g k (r + ro) (c + co)
      | d => d := rfl
  rw [hd]
  simp only [readDS]
  cases inp.disp with
  | absent => rfl
  | null => rfl
  | pair a b => simp [allRC_iff]
  | grid g => simp [allB_iff, allRC_iff]

theorem read_classifSegm : specClassifSegm (cropInput inp ro co rows cols) (readDS p inp ro co rows cols) = true := by
  unfold specClassifSegm
  simp only [readDS, cropInput]
  cases inp.classif <;> cases inp.segm <;> simp [allB_iff, allRC_iff]

theorem read_coords : specCoords ro co (readDS p inp ro co rows cols) = true := by
  simp [specCoords, readDS, allB_iff]

/-- **Every per-read clause holds of the model** (any window position and size). -/
theorem read_spec_window (hk : p.known = true) (hm : maskOk p (cropInput inp ro co rows cols) = true) :
    specRead (cropInput inp ro co rows cols) ro co (readDS p inp ro co rows cols) = true := by
  simp only [specRead, specReadClauses, List.all_cons, List.all_nil, Bool.and_true, Bool.and_eq_true]
  exact ⟨read_samples p inp ro co rows cols, read_bandNames p inp ro co rows cols,
    read_replaced p inp ro co rows cols hk, read_nodataIff p inp ro co rows cols hk hm,
    read_invalidIff p inp ro co rows cols hk hm, read_validOtherwise p inp ro co rows cols hk hm,
    read_noMask p inp ro co rows cols, read_disparity p inp ro co rows cols,
    read_classifSegm p inp ro co rows cols, read_coords p inp ro co rows cols⟩
end Rest

/-- **Full read.** -/
theorem read_spec (p : Params) (inp : Input) (hk : p.known = true) (hm : maskOk p inp = true) :
    specRead inp 0 0 (readDS p inp 0 0 inp.rows inp.cols) = true := by
  have h := read_spec_window p inp 0 0 inp.rows inp.cols hk (by rw [cropInput_zero]; exact hm)
  rw [cropInput_zero] at h
  exact h

/-! ### 4. A ROI read is the crop of the full read -/

section Crop
variable (p : Params) (inp : Input) (ro co rows cols : Nat)

theorem noDataAt_shift (r c : Nat) :
    (cropInput inp 0 0 inp.rows inp.cols).noDataAt (r + ro) (c + co) = (cropInput inp ro co rows cols).noDataAt r c := rfl

theorem anyHit_mono (hr : ro + rows ≤ inp.rows) (hc : co + cols ≤ inp.cols)
    (h : anyRC rows cols (cropInput inp ro co rows cols).noDataAt = true) :
    anyRC inp.rows inp.cols (cropInput inp 0 0 inp.rows inp.cols).noDataAt = true := by
  obtain ⟨r, hr', c, hc', hh⟩ := (anyRC_iff _ _ _).1 h
  exact (anyRC_iff _ _ _).2 ⟨r + ro, by omega, c + co, by omega, hh⟩

theorem crop_im (hr : ro + rows ≤ inp.rows) (hc : co + cols ≤ inp.cols)
    (b r c : Nat) (hb : b < inp.nbands) (hr' : r < rows) (hc' : c < cols) :
    (readDS p inp ro co rows cols).im b r c = (readDS p inp 0 0 inp.rows inp.cols).im b (r + ro) (c + co) := by
  simp only [readDS, Nat.add_zero]
  cases hd : detect inp.nodata (inp.im b (r + ro) (c + co)) with
  | false => simp
  | true =>
    have h1 : anyRC rows cols (fun r c => anyB inp.nbands fun b => detect inp.nodata (inp.im b (r + ro) (c + co))) = true :=
      (anyRC_iff _ _ _).2 ⟨r, hr', c, hc', (anyB_iff _ _).2 ⟨b, hb, hd⟩⟩
    have h2 : anyRC inp.rows inp.cols (fun r c => anyB inp.nbands fun b => detect inp.nodata (inp.im b r c)) = true :=
      (anyRC_iff _ _ _).2 ⟨r + ro, by omega, c + co, by omega, (anyB_iff _ _).2 ⟨b, hb, hd⟩⟩
    rw [h1, h2]

theorem crop_mskView (hk : p.known = true) (hr : ro + rows ≤ inp.rows) (hc : co + cols ≤ inp.cols)
    (r c : Nat) (hr' : r < rows) (hc' : c < cols) :
    (readDS p inp ro co rows cols).mskView r c = (readDS p inp 0 0 inp.rows inp.cols).mskView (r + ro) (c + co) := by
  rw [read_mskView, read_mskView]
  simp only [Nat.add_zero, noDataAt_shift inp ro co rows cols]
  cases hmn : inp.mask.isNone with
  | false => simp
  | true =>
    simp only [Bool.true_and, Bool.not_eq_true']
    cases ho : anyRC rows cols (cropInput inp ro co rows cols).noDataAt with
    | true =>
      rw [anyHit_mono inp ro co rows cols hr hc ho]
    | false =>
      have hnd : (cropInput inp ro co rows cols).noDataAt r c = false := (anyRC_false_iff _ _ _).1 ho r hr' c hc'
      rw [Option.isNone_iff_eq_none] at hmn
      simp only [Params.known, Bool.and_eq_true, decide_eq_true_eq] at hk
      cases anyRC inp.rows inp.cols (cropInput inp 0 0 inp.rows inp.cols).noDataAt <;>
        simp [hnd, hmn, mskValue, hk.1.1]

theorem read_crop (hk : p.known = true) (hr : ro + rows ≤ inp.rows) (hc : co + cols ≤ inp.cols) :
    specCrop ⟨(co : Int), (ro : Int), (cols : Int), (rows : Int)⟩
      (readDS p inp 0 0 inp.rows inp.cols) (readDS p inp ro co rows cols) = true := by
  simp only [specCrop, Int.toNat_natCast, Bool.and_eq_true, decide_eq_true_eq, beq_iff_eq, allB_iff, allRC_iff]
  refine ⟨⟨⟨⟨⟨⟨⟨⟨⟨⟨rfl, rfl⟩, rfl⟩, rfl⟩, ?_⟩, ?_⟩, ?_⟩, ?_⟩, ?_⟩, ?_⟩, ?_⟩
  · intro b hb r hr' c hc'
    exact crop_im p inp ro co rows cols hr hc b r c hb hr' hc'
  · intro r hr' c hc'
    exact crop_mskView p inp ro co rows cols hk hr hc r c hr' hc'
  · simp only [readDS]
    cases inp.disp <;> simp [allB_iff, allRC_iff]
  · simp only [readDS]
    cases inp.classif <;> simp [allB_iff, allRC_iff]
  · simp only [readDS]
    cases inp.segm <;> simp [allRC_iff]
  · intro i _
    simp only [readDS]
    omega
  · intro j _
    simp only [readDS]
    omega
end Crop

theorem windowSpec_inside (roi : Roi) (W H : Int) (w : Window) (h : windowSpec roi W H = some w) :
    0 ≤ w.colOff ∧ 0 ≤ w.rowOff ∧ 0 < w.width ∧ 0 < w.height ∧ w.colOff + w.width ≤ W ∧ w.rowOff + w.height ≤ H := by
  simp only [windowSpec, clipAxis] at h
  split at h
  · rename_i c0 c1 r0 r1 hc hr
    simp only [Option.some.injEq] at h
    subst h
    split at hc <;> simp only [Option.some.injEq, Prod.mk.injEq, reduceCtorEq] at hc
    split at hr <;> simp only [Option.some.injEq, Prod.mk.injEq, reduceCtorEq] at hr
    obtain ⟨rfl, rfl⟩ := hc
    obtain ⟨rfl, rfl⟩ := hr
    simp only
    omega
  · cases h

theorem maskOk_crop (p : Params) (inp : Input) (ro co rows cols : Nat)
    (hr : ro + rows ≤ inp.rows) (hc : co + cols ≤ inp.cols) (hm : maskOk p inp = true) :
    maskOk p (cropInput inp ro co rows cols) = true := by
  unfold maskOk at hm ⊢
  cases hcmp : p.maskCmp with
  | ne => rfl
  | gt =>
    simp only [hcmp, allRC_iff, decide_eq_true_eq] at hm ⊢
    intro r hr' c hc'
    have hr'' : r < rows := hr'
    have hc'' : c < cols := hc'
    have := hm (r + ro) (by omega) (c + co) (by omega)
    rw [maskAt_crop]
    unfold Input.maskAt at this
    cases hmk : inp.mask with
    | none => simp
    | some mf => rw [hmk] at this; simpa using this


/-- **`roi_eq_crop`, `roi_coords`, `roi_outside_refused`.** -/
theorem roi_spec (p : Params) (inp : Input) (roi : Roi) (hk : p.known = true)
    (hin : inp.wf = true) (hwf : roi.wf = true)
    (hedge : edgeFree p roi inp.cols inp.rows = true) (hm : maskOk p inp = true) :
    specRoi inp roi (readDS p inp 0 0 inp.rows inp.cols) (createDataset p inp (some roi)) = true := by
  simp only [Input.wf, Bool.and_eq_true, decide_eq_true_eq, beq_iff_eq] at hin
  obtain ⟨⟨⟨_, _⟩, hrows⟩, hcols⟩ := hin
  have hw := getWindow_eq_spec p roi inp.cols inp.rows hwf (by omega) (by omega) hedge
  simp only [specRoi, specRoiClauses, createDataset, hw]
  cases hs : windowSpec roi inp.cols inp.rows with
  | none => simp
  | some w =>
    obtain ⟨h1, h2, h3, h4, h5, h6⟩ := windowSpec_inside roi _ _ w hs
    simp only [List.all_cons, List.all_append, Bool.true_and, Bool.and_eq_true]
    have hro : ((w.rowOff.toNat : Nat) : Int) = w.rowOff := Int.toNat_of_nonneg h2
    have hco : ((w.colOff.toNat : Nat) : Int) = w.colOff := Int.toNat_of_nonneg h1
    have hhh : ((w.height.toNat : Nat) : Int) = w.height := Int.toNat_of_nonneg (by omega)
    have hww : ((w.width.toNat : Nat) : Int) = w.width := Int.toNat_of_nonneg (by omega)
    have hr : w.rowOff.toNat + w.height.toNat ≤ inp.rows := by omega
    have hc : w.colOff.toNat + w.width.toNat ≤ inp.cols := by omega
    refine ⟨?_, ?_⟩
    · have := read_crop p inp w.rowOff.toNat w.colOff.toNat w.height.toNat w.width.toNat hk hr hc
      rw [hro, hco, hhh, hww] at this
      exact ⟨this, rfl⟩
    · exact read_spec_window p inp _ _ _ _ hk (maskOk_crop p inp _ _ _ _ hr hc hm)

/-! ### 5. The two source-dependent hypotheses: vacuous after the repair, needed today -/

theorem edgeFree_fixed (roi : Roi) (w h : Int) : edgeFree Params.fixed roi w h = true := rfl
theorem maskOk_fixed (inp : Input) : maskOk Params.fixed inp = true := rfl

theorem getWindow_current_counterexample :
    (⟨6, 7, 0, 2, 0, 0, 0, 0⟩ : Roi).wf = true ∧
    getWindow Params.current ⟨6, 7, 0, 2, 0, 0, 0, 0⟩ 6 5 = some ⟨6, 0, 0, 3⟩ ∧
    windowSpec ⟨6, 7, 0, 2, 0, 0, 0, 0⟩ 6 5 = none ∧
    getWindow Params.current ⟨-3, -1, 0, 2, 0, 0, 0, 0⟩ 6 5 = some ⟨0, 0, 0, 3⟩ ∧
    windowSpec ⟨-3, -1, 0, 2, 0, 0, 0, 0⟩ 6 5 = none := by decide

def exInput : Input :=
  { rows := 2, cols := 3, nbands := 2, bandNames := [some "r", some "g"],
    im := fun b r c => if b = 1 ∧ r = 0 ∧ c = 2 then .nan else .num (b + 2 * r + c : Nat),
    nodata := .nan,
    mask := some fun r c => if r = 1 ∧ c = 0 then 3 else 0,
    disp := .pair (-2) 3, classif := none, segm := some fun r c => r + c }

example : exInput.wf = true ∧ maskOk Params.current exInput = true := by decide

def negMaskInput : Input :=
  { rows := 1, cols := 2, nbands := 1, bandNames := [none],
    im := fun _ _ c => .num (c : Nat), nodata := .num (-9999),
    mask := some fun _ c => if c = 0 then -1 else 0,
    disp := .absent, classif := none, segm := none }

theorem mask_current_counterexample :
    negMaskInput.wf = true ∧
    (readDS Params.current negMaskInput 0 0 1 2).mskView 0 0 = 0 ∧
    specInvalidIff negMaskInput (readDS Params.current negMaskInput 0 0 1 2) = false ∧
    specInvalidIff negMaskInput (readDS Params.fixed negMaskInput 0 0 1 2) = true := by decide

/-- the specification is not trivially true: a dataset whose mask ignores the NaN sample is rejected -/
example : specNodataIff exInput { readDS Params.current exInput 0 0 2 3 with msk := none } = false := by decide
example : specRead exInput 0 0 (readDS Params.current exInput 0 0 2 3) = true := by decide
example : (⟨1, 3, 1, 4, 1, 0, 2, 1⟩ : Roi).wf = true ∧ edgeFree Params.current ⟨1, 3, 1, 4, 1, 0, 2, 1⟩ 3 2 = true ∧
    windowSpec ⟨1, 3, 1, 4, 1, 0, 2, 1⟩ 3 2 = some ⟨0, 1, 3, 1⟩ := by decide
example : specRoi exInput ⟨1, 3, 1, 4, 1, 0, 2, 1⟩ (readDS Params.current exInput 0 0 2 3)
    (createDataset Params.current exInput (some ⟨1, 3, 1, 4, 1, 0, 2, 1⟩)) = true := by decide

/-! ### 6. The source, as regenerated on this run -/

/-- the constants of the source are the documented ones (valid 0, no-data 1, replacement −9999) -/
theorem source_params_known : Generated.imgToolsParams.known = true := by decide

/-- `get_window` of the source: the clipped window, refused iff outside (today: for ROIs not exactly
    at the image edge — `edgeFree` is `true` for every ROI once the comparisons are non-strict) -/
theorem source_getWindow (roi : Roi) (width height : Int)
    (hwf : roi.wf = true) (hw : 0 < width) (hh : 0 < height)
    (hedge : edgeFree Generated.imgToolsParams roi width height = true) :
    getWindow Generated.imgToolsParams roi width height = windowSpec roi width height :=
  getWindow_eq_spec _ roi width height hwf hw hh hedge

/-- `create_dataset_from_inputs` of the source without ROI satisfies every per-read clause -/
theorem source_read_spec (inp : Input) (hm : maskOk Generated.imgToolsParams inp = true) :
    specRead inp 0 0 (readDS Generated.imgToolsParams inp 0 0 inp.rows inp.cols) = true :=
  read_spec _ inp source_params_known hm

/-- `create_dataset_from_inputs` of the source with a ROI -/
theorem source_roi_spec (inp : Input) (roi : Roi) (hin : inp.wf = true) (hwf : roi.wf = true)
    (hedge : edgeFree Generated.imgToolsParams roi inp.cols inp.rows = true)
    (hm : maskOk Generated.imgToolsParams inp = true) :
    specRoi inp roi (readDS Generated.imgToolsParams inp 0 0 inp.rows inp.cols)
      (createDataset Generated.imgToolsParams inp (some roi)) = true :=
  roi_spec _ inp roi source_params_known hin hwf hedge hm

/-- the repaired source (`proposed_fixes/C16-*.diff`) satisfies the full-strength statements -/
theorem fixed_getWindow (roi : Roi) (width height : Int)
    (hwf : roi.wf = true) (hw : 0 < width) (hh : 0 < height) :
    getWindow Params.fixed roi width height = windowSpec roi width height :=
  getWindow_eq_spec _ roi width height hwf hw hh rfl

theorem fixed_read_spec (inp : Input) :
    specRead inp 0 0 (readDS Params.fixed inp 0 0 inp.rows inp.cols) = true :=
  read_spec _ inp rfl rfl

theorem fixed_roi_spec (inp : Input) (roi : Roi) (hin : inp.wf = true) (hwf : roi.wf = true) :
    specRoi inp roi (readDS Params.fixed inp 0 0 inp.rows inp.cols) (createDataset Params.fixed inp (some roi)) = true :=
  roi_spec _ inp roi rfl hin hwf rfl rfl

/-- the hypotheses `edgeFree` / `maskOk` cost nothing exactly when the source uses the non-strict
    comparisons / `!=`: then the source theorems above are the full-strength statements -/
theorem source_hyps_vacuous_when_fixed (h : Generated.imgToolsParams = Params.fixed)
    (roi : Roi) (w ht : Int) (inp : Input) :
    edgeFree Generated.imgToolsParams roi w ht = true ∧ maskOk Generated.imgToolsParams inp = true := by
  rw [h]; exact ⟨rfl, rfl⟩

end Pandora.C16
