/- C12 — theorems (placeholder until the property is built). -/
