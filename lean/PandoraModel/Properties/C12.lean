/-
  C12 — Confidence bands follow their definitions, bracket the winner, only add bands.

  Theorems about the executable model `Model/Confidence.lean` (which follows the algorithms of
  pandora/cost_volume_confidence/*.py and pandora/interval_tools.py) against the declarative
  specification `Confidence.Spec`, for ALL inputs: any volume size, any number of disparities, any eta
  grid, any threshold, any image size, any list of steps.  The band stems, the band prefix and the
  indicator rule are the ones the translator regenerated from the source text (`Generated/Confidence`).

  Lemma files: Lemmas/C12Layout (flat repeat/reshape layout, ambiguity), C12Risk, C12Bounds, C12Regul,
  C12Frame (bands, names, normalisation), C12Std.

  Conventions of the specification (DESIGN_NOTES/C12.md): "best" = smallest finite cost for a min measure,
  largest for a max measure; a NaN cost counts as within eta of the best; exact rational arithmetic
  (floating point is modelled, not verified).

  Findings established here as counterexample theorems:
    F10  `ambiguity_max_counterexample`        ambiguity/risk take the minimum as best on a max measure
    F11  `ambiguity_normalised_counterexample` a constant clipped ambiguity map normalises to NaN
    F11b `indicator_two_dots_counterexample`   a step name with two dots gets no suffix
-/
import PandoraModel.Lemmas.C12Fix
import PandoraModel.Generated.Confidence

namespace Pandora.C12
open Pandora Pandora.Confidence

/-! ### 0. Tie to the source: band stems, prefix and indicator rule regenerated from the source text -/

def methodKey : Method → Name
  | .ambiguity .. => "ambiguity".toList
  | .risk .. => "risk".toList
  | .intervalBounds .. => "interval_bounds".toList
  | .stdIntensity => "std_intensity".toList

/-- the band stems of the specification are the ones the source allocates, in the same order -/
theorem stems_from_source :
    Generated.Confidence.stems =
      [(methodKey (.ambiguity [] false), Spec.stems (.ambiguity [] false)),
       (methodKey (.risk []), Spec.stems (.risk [])),
       (methodKey (.intervalBounds 0 none), Spec.stems (.intervalBounds 0 none)),
       (methodKey .stdIntensity, Spec.stems .stdIntensity)] := by decide

theorem prefix_from_source : Generated.Confidence.bandPrefix = confPrefix := by decide

/-- the rule found in `cost_volume_confidence_run` is the one `indicatorOf` implements:
    `indicator = ""; if len(step.split(".")) == 2: indicator = "." + step.split(".")[1]`
    — or the same with `split(".", 1)`, which is the repair proposed in proposed_fixes/C12-indicator-suffix.diff
    (it differs only on names with two dots or more, where it yields the specification's suffix; the
    correspondence accepts exactly these two behaviours, and `indicatorOf` is to be replaced by
    `Spec.suffixOf` once the repair is merged) -/
theorem indicator_rule_from_source :
    Generated.Confidence.indicatorRule = ⟨['.'], none, 2, ['.'], 1, []⟩
    ∨ Generated.Confidence.indicatorRule = ⟨['.'], some 1, 2, ['.'], 1, []⟩ := by decide

/-! ### 1. Well-formedness (explicit, decidable) -/

/-- the quantifier of the property: the cost volume holds at least two distinct finite costs -/
def WFVol (v : Volume) : Bool :=
  match globalMin v, globalMax v with
  | some mn, some mx => mn != mx
  | _, _ => false

/-- an eta grid as `np.arange(0, eta_max, eta_step)` produces for `0 < eta_max`, `0 < eta_step`:
    non-empty, non-negative samples -/
def WFEtas (etas : List Rat) : Bool := !etas.isEmpty && etas.all (fun e => decide (0 ≤ e))

theorem wfVol_iff (v : Volume) : WFVol v = true ↔ ∃ mn mx, globalMin v = some mn ∧ globalMax v = some mx ∧ mn < mx := by
  unfold WFVol
  cases hmn : globalMin v with
  | none => simp
  | some mn =>
    cases hmx : globalMax v with
    | none => simp
    | some mx =>
      have hle : mn ≤ mx := by
        unfold globalMin at hmn; unfold globalMax at hmx
        exact le_trans (lmin_le _ _ hmn mn (lmin_mem _ _ hmn)) (lmax_ge _ _ hmx mn (lmin_mem _ _ hmn))
      simp only [bne_iff_ne, ne_eq, Option.some.injEq, exists_and_left, exists_eq_left']
      constructor
      · intro h; exact lt_of_le_of_ne hle h
      · intro h; exact ne_of_lt h

theorem wfEtas_iff (etas : List Rat) : WFEtas etas = true ↔ etas ≠ [] ∧ ∀ e ∈ etas, 0 ≤ e := by
  unfold WFEtas
  cases etas <;> simp

theorem arange_wf (stop step : Rat) (h1 : 0 < stop) (h2 : 0 < step) : WFEtas (arange 0 stop step) = true := by
  rw [wfEtas_iff]
  unfold arange
  simp only [not_le.2 h2, if_false]
  have hpos : 0 < (stop - 0) / step := by simp; exact div_pos h1 h2
  have hceil : 0 < ((stop - 0) / step).ceil := by
    have h : (0 : Rat) < ((((stop - 0) / step).ceil : Int) : Rat) := lt_of_lt_of_le hpos Rat.le_ceil
    exact_mod_cast h
  constructor
  · intro h
    have hlen := congrArg List.length h
    simp only [List.length_map, List.length_range, List.length_nil] at hlen
    omega
  · intro e he
    obtain ⟨i, _, rfl⟩ := List.mem_map.1 he
    have : (0 : Rat) ≤ (i : Rat) := by exact_mod_cast Nat.zero_le i
    have := mul_nonneg this (le_of_lt h2)
    linarith

/-! ### 2. Ambiguity -/

/-- **ambiguity_def**: for every cost volume with two distinct finite costs and every eta grid,
    `compute_ambiguity` returns, at every pixel, the number of (eta, disparity) pairs whose normalised cost
    is within eta of the pixel's smallest cost (NaN costs counted) — `min` measure -/
theorem ambiguity_def (etas : List Rat) (v : Volume) (h : WFVol v = true) :
    ∃ mn mx, globalMin v = some mn ∧ globalMax v = some mx ∧
      computeAmbiguity etas v = some (mapVolume (Spec.ambCount false mn mx etas) v)
      ∧ computeSampled etas v = some (mapVolume (fun c => etas.map (Spec.ambAt false mn mx c)) v) := by
  obtain ⟨mn, mx, hmn, hmx, hlt⟩ := (wfVol_iff v).1 h
  refine ⟨mn, mx, hmn, hmx, ?_, ?_⟩
  · unfold computeAmbiguity
    rw [hmn, hmx]
    simp only [mapVolume]
    congr 1
    apply List.map_congr_left; intro row _
    apply List.map_congr_left; intro c _
    exact pixelAmbiguity_spec mn mx etas c (ne_of_gt hlt)
  · unfold computeSampled
    rw [hmn, hmx]
    simp only [mapVolume]
    congr 1
    apply List.map_congr_left; intro row _
    apply List.map_congr_left; intro c _
    exact pixelSampled_spec mn mx etas c (ne_of_gt hlt)

theorem mem_chunks {α} (k : Nat) : ∀ (n : Nat) (l : List α) (row : List α), row ∈ chunks k n l → ∀ x ∈ row, x ∈ l := by
  intro n
  induction n with
  | zero => intro l row h; simp [chunks] at h
  | succ n ih =>
    intro l row h x hx
    rw [chunks, List.mem_cons] at h
    rcases h with rfl | h
    · exact List.mem_of_mem_take hx
    · exact List.mem_of_mem_drop (ih _ _ h x hx)

/-- **ambiguity_normalised_range**: when the percentile-clipped ambiguity map takes two distinct values,
    every cell of the normalised confidence band is a finite number of `[0, 1]` -/
theorem ambiguity_normalised_range (etas : List Rat) (v : Volume) (amb : Grid Nat) (band : Grid Val)
    (hamb : computeAmbiguity etas v = some amb)
    (hband : ambiguityBand etas true 1 v = some band)
    (hd : ∃ x ∈ clipped 1 (amb.flatten.map (fun (n : Nat) => (n : Rat))),
          ∃ y ∈ clipped 1 (amb.flatten.map (fun (n : Nat) => (n : Rat))), x ≠ y) :
    ∀ row ∈ band, ∀ x ∈ row, Spec.inUnit x = true := by
  unfold ambiguityBand at hband
  rw [hamb] at hband
  simp only [if_true, Option.some.injEq] at hband
  subst hband
  intro row hrow x hx
  have hmem := mem_chunks _ _ _ row hrow x hx
  obtain ⟨y, hy, rfl⟩ := List.mem_map.1 hmem
  exact (normalize_unit 1 _ hd y hy).2

/-! ### 3. Risk -/

/-- **risk_def** and **risk_order**: `compute_risk` returns at every pixel the eta-means of the disparity
    spread and of `1 + spread − count` (NaN for a pixel without finite cost), and `0 ≤ risk_min ≤ risk_max` -/
theorem risk_def (etas : List Rat) (v : Volume) (h : WFVol v = true) (he : WFEtas etas = true) :
    ∃ mn mx, globalMin v = some mn ∧ globalMax v = some mx ∧
      computeRisk etas v = some (mapVolume (fun c => riskVals (Spec.risk false mn mx etas c)) v) := by
  obtain ⟨mn, mx, hmn, hmx, hlt⟩ := (wfVol_iff v).1 h
  obtain ⟨hne, hpos⟩ := (wfEtas_iff etas).1 he
  refine ⟨mn, mx, hmn, hmx, ?_⟩
  unfold computeRisk
  rw [hmn, hmx]
  simp only [mapVolume]
  congr 1
  apply List.map_congr_left; intro row _
  apply List.map_congr_left; intro c _
  exact pixelRisk_spec mn mx etas c (ne_of_gt hlt) hpos hne

theorem risk_order (etas : List Rat) (v : Volume) (h : WFVol v = true) (he : WFEtas etas = true)
    (g : Grid (Val × Val)) (hg : computeRisk etas v = some g) :
    ∀ row ∈ g, ∀ p ∈ row, (p = (Val.nan, Val.nan)) ∨ (∃ a b, p = (Val.num a, Val.num b) ∧ 0 ≤ b ∧ b ≤ a) := by
  obtain ⟨mn, mx, _, _, hr⟩ := risk_def etas v h he
  obtain ⟨_, hpos⟩ := (wfEtas_iff etas).1 he
  rw [hr] at hg
  simp only [Option.some.injEq] at hg
  subst hg
  intro row hrow p hp
  simp only [mapVolume, List.mem_map] at hrow
  obtain ⟨vrow, _, rfl⟩ := hrow
  obtain ⟨c, _, rfl⟩ := List.mem_map.1 hp
  cases hs : Spec.risk false mn mx etas c with
  | none => left; rfl
  | some ab =>
    obtain ⟨a, b⟩ := ab
    right
    exact ⟨a, b, rfl, risk_order_spec mn mx etas c hpos a b hs⟩

/-! ### 4. Interval bounds -/

/-- **bounds_def**: at every pixel `(inf, sup)` are the disparities of the first / last index whose
    possibility `1 − |c − best|/(max − min)` reaches the threshold, widened by one sample at a best;
    both measure types -/
theorem bounds_def (isMax : Bool) (thr : Rat) (disp : List Rat) (v : Volume) (h : WFVol v = true) (hthr : thr ≤ 1) :
    ∃ mn mx g, globalMin v = some mn ∧ globalMax v = some mx ∧ computeBounds isMax thr disp v = some g ∧
      g = mapVolume (pixelBounds mn mx (typeFactor isMax) thr disp) v ∧
      ∀ row ∈ v, ∀ c ∈ row,
        Spec.boundsOk isMax mn mx thr disp c (pixelBounds mn mx (typeFactor isMax) thr disp c).1
          (pixelBounds mn mx (typeFactor isMax) thr disp c).2 = true := by
  obtain ⟨mn, mx, hmn, hmx, hlt⟩ := (wfVol_iff v).1 h
  refine ⟨mn, mx, _, hmn, hmx, ?_, rfl, ?_⟩
  · unfold computeBounds; rw [hmn, hmx]
  · intro row _ c _
    exact pixelBounds_def isMax mn mx thr disp c hlt hthr

/-- **bounds_bracket_wta**: for every pixel that has a finite cost, the winner-takes-all disparity of the
    later disparity step lies in `[inf, sup]` — ascending disparity coordinate, threshold `≤ 1` -/
theorem bounds_bracket_wta (isMax : Bool) (thr : Rat) (disp : List Rat) (v : Volume) (h : WFVol v = true)
    (hthr : thr ≤ 1) (hdisp : disp.Pairwise (· ≤ ·)) :
    ∃ mn mx, globalMin v = some mn ∧ globalMax v = some mx ∧
      ∀ row ∈ v, ∀ c ∈ row, disp.length = c.length → ∀ w, wtaIdx isMax c = some w →
        Spec.bracket (pixelBounds mn mx (typeFactor isMax) thr disp c).1
          (pixelBounds mn mx (typeFactor isMax) thr disp c).2 (disp.getD w 0) = true := by
  obtain ⟨mn, mx, hmn, hmx, hlt⟩ := (wfVol_iff v).1 h
  refine ⟨mn, mx, hmn, hmx, ?_⟩
  intro row _ c _ hlen w hw
  obtain ⟨hwlt, b, hb, hcw⟩ := wtaIdx_best isMax c w hw
  exact pixelBounds_bracket isMax mn mx thr disp c hlt hthr hdisp hlen b hb w hwlt hcw

/-! ### 5. Non-vacuity: concrete inputs satisfying the hypotheses, with NaN holes, ties, an all-NaN pixel -/

def exVol : Volume :=
  [[[.nan, .num 1, .num 3], [.num 4, .num 1, .num 1], [.nan, .nan, .nan]],
   [[.num 5, .nan, .num 0], [.num 2, .num 2, .num 2], [.num 0, .num 8, .num 0]]]

example : WFVol exVol = true := by decide +kernel
example : WFEtas (arange 0 (3/4) (1/4)) = true := by decide +kernel
example : arange 0 (3/4) (1/4) = [0, 1/4, 1/2] := by decide +kernel
example : computeAmbiguity [0, 1/4, 1/2] exVol = some [[8, 7, 9], [6, 9, 6]] := by decide +kernel
example : computeRisk [0, 1/2] exVol
    = some [[(.num (3/2), .num 0), (.num (3/2), .num 0), (.nan, .nan)],
            [(.num 1, .num 0), (.num 2, .num 0), (.num 2, .num 1)]] := by decide +kernel
example : computeBounds false (3/4) [-1, 0, 1] exVol
    = some [[(.num (-1), .num 1), (.num (-1), .num 1), (.nan, .nan)],
            [(.num 0, .num 1), (.num (-1), .num 1), (.num (-1), .num 1)]] := by decide +kernel
example : wtaMap false [-1, 0, 1] exVol = [[some 0, some 0, none], [some 1, some (-1), some (-1)]] := by decide +kernel
example : ([-1, 0, 1] : List Rat).Pairwise (· ≤ ·) := by decide +kernel

/-! ### 6. Regularisation, bands, std_intensity: statements proved in the lemma files, instantiated

  * `intervalRegularization_widens` (Lemmas/C12Regul): for any bound grids, ambiguity map, threshold, kernel
    size and depth, with quantile 1 every finite `inf` stays finite and does not increase, every finite `sup`
    stays finite and does not decrease.
  * `runSteps_frame`, `later_disparity_same` (Lemmas/C12Frame): any list of steps leaves the cost volume and the
    later winner-takes-all map unchanged and appends exactly the bands `steps.flatMap modelNames` after the
    existing ones; `indicatorOf_eq_suffix`: the suffix is the part of the step name from its first dot when the
    name has at most one dot (`indicator_two_dots_counterexample` otherwise).
  * `stdBandSq_spec` (Lemmas/C12Std): the std_intensity band squared is the population variance of the centred
    window, NaN on the frame.
-/

/-- **existing_bands_same / bands_appended_named** in the form used by the check: after any list of steps the
    old bands are a prefix of the new list, in place and unchanged -/
theorem existing_bands_prefix (steps : List Step) (st st' : CState) (h : runSteps st steps = some st') :
    (st.cvBands.getD []) <+: (st'.cvBands.getD []) := by
  obtain ⟨_, _, _, _, _, new, _, hb⟩ := runSteps_frame steps st st' h
  exact ⟨new, hb.symm⟩

/-- the names appended by well-formed step names (at most one dot each) are the specification's -/
theorem names_as_specified (s : Step) (kind sfx : List Char) (hk : ∀ c ∈ kind, c ≠ '.') (hs : ∀ c ∈ sfx, c ≠ '.')
    (hname : s.name = kind ++ '.' :: sfx ∨ s.name = kind) : modelNames s = Spec.expectedNames s := by
  unfold modelNames Spec.expectedNames
  have := indicatorOf_eq_suffix kind sfx hk hs
  rcases hname with h | h
  · rw [h, this.1]; simp [List.append_assoc]
  · rw [h, this.2]; simp [List.append_assoc]

def exInf : Grid Val := [[.num 0, .num (-1), .num 2, .nan], [.num 1, .num 1, .num 0, .num 3]]
def exSup : Grid Val := [[.num 1, .num 2, .num 2, .nan], [.num 1, .num 4, .num 2, .num 3]]
def exAmb : Grid Val := [[.num (1/8), .num (1/4), .num 1, .num 1], [.num 1, .num (1/2), .num (1/8), .num 1]]

example : borders (5/8) 1 exAmb = ([(0, 0), (1, 1)], [(0, 1), (1, 2)]) := by decide +kernel
example : intervalRegularization exInf exSup exAmb (5/8) 1 1 1
    = ([[.num (-1), .num (-1), .num 2, .nan], [.num 1, .num (-1), .num (-1), .num 3]],
       [[.num 4, .num 4, .num 2, .nan], [.num 1, .num 4, .num 4, .num 3]]) := by decide +kernel
example : Spec.widened exInf exSup (intervalRegularization exInf exSup exAmb (5/8) 1 1 1).1
    (intervalRegularization exInf exSup exAmb (5/8) 1 1 1).2 = true := by decide +kernel

def exState : CState :=
  { cost := exVol, isMax := false, disp := [-1, 0, 1], img := [[1, 2, 3], [4, 6, 5]], window := 1,
    cvBands := none, dispDS := .ds none }

def exSteps : List Step :=
  [⟨"cost_volume_confidence.amb".toList, .ambiguity [0, 1/2] false⟩,
   ⟨"cost_volume_confidence".toList, .risk [0, 1/2]⟩,
   ⟨"cost_volume_confidence.std".toList, .stdIntensity⟩,
   ⟨"cost_volume_confidence.b".toList, .intervalBounds (3/4) none⟩]

example : ((runSteps exState exSteps).map (fun st => (st.cvBands.getD []).map (fun b => String.ofList b.name)))
    = some ["confidence_from_ambiguity.amb", "confidence_from_risk_max", "confidence_from_risk_min",
            "confidence_from_intensity_std.std", "confidence_from_interval_bounds_inf.b",
            "confidence_from_interval_bounds_sup.b"] := by decide +kernel
example : exSteps.flatMap modelNames = exSteps.flatMap Spec.expectedNames := by decide +kernel

example : stdBandSq 3 [[1, 2, 3, 4], [4, 6, 5, 0], [7, 8, 9, 1]]
    = [[.nan, .nan, .nan, .nan], [.nan, .num (20/3), .num (680/81), .nan], [.nan, .nan, .nan, .nan]] := by
  decide +kernel
example : Spec.windowVar 3 [[1, 2, 3, 4], [4, 6, 5, 0], [7, 8, 9, 1]] 0 1 = 680/81 := by decide +kernel

end Pandora.C12
