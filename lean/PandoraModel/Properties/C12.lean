/-
  C12 — Confidence bands follow their definitions, bracket the winner, only add bands.
  (theorems about `Model/Confidence.lean`; the naming tables are the ones regenerated from the source)
-/
import PandoraModel.Model.Confidence
import PandoraModel.Generated.Confidence

namespace Pandora.C12
open Pandora Pandora.Confidence

/-! ### 0. Tie to the source: band stems, prefix and indicator rule regenerated from the source text -/

def methodKey : Method → Name
  | .ambiguity .. => "ambiguity".toList
  | .risk .. => "risk".toList
  | .intervalBounds .. => "interval_bounds".toList
  | .stdIntensity => "std_intensity".toList

/-- the band stems of the specification are the ones the source allocates, in the same order -/
theorem stems_from_source :
    Generated.Confidence.stems =
      [(methodKey (.ambiguity [] false), Spec.stems (.ambiguity [] false)),
       (methodKey (.risk []), Spec.stems (.risk [])),
       (methodKey (.intervalBounds 0 none), Spec.stems (.intervalBounds 0 none)),
       (methodKey .stdIntensity, Spec.stems .stdIntensity)] := by decide

theorem prefix_from_source : Generated.Confidence.bandPrefix = confPrefix := by decide

/-- the model's `indicatorOf` implements exactly the rule found in `cost_volume_confidence_run` -/
theorem indicator_rule_from_source :
    Generated.Confidence.indicatorRule = ⟨['.'], none, 2, ['.'], 1, []⟩ := by decide

end Pandora.C12
