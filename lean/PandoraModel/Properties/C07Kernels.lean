/-
  C07 — the body of `for row in range(0, nb_row)` of `CrossCheckingAccurate.disparity_checking`, REGENERATED from the
  Python source (`Generated/KernelsCrossCheck.lean: crossCheckRow`, written by translator/gen_kernels_crosscheck.py with
  the index extension of the vector sub-language, translator/pyvec_idx.py), is equal to the hand model
  `CrossCheck.ccRow .ruleFix` — for every row length, every disparity (NaN included), every uint16 flag word, every
  threshold and every disparity range — and never meets a numpy shape / bounds error (`Res.ok`).
-/
import PandoraModel.Model.CrossCheck
import PandoraModel.Model.PyVecIdx
import PandoraModel.Generated.KernelsCrossCheck
import PandoraModel.Properties.C07
import PandoraModel.Properties.C07HalfEven
import Mathlib.Tactic.Linarith
import Mathlib.Tactic.Ring
import Mathlib.Tactic.Tauto
import Mathlib.Tactic.SplitIfs

set_option linter.unusedSimpArgs false
set_option linter.unusedVariables false
set_option linter.unusedTactic false
set_option linter.unreachableTactic false
set_option linter.unnecessarySeqFocus false

namespace Pandora.C07Kernels
open Pandora Pandora.CrossCheck Pandora.PyLoops Pandora.PyVec Pandora.PyVecIdx

/-! ## Lists -/

theorem ext_getD {α : Type} (d : α) (l1 l2 : List α) (hl : l1.length = l2.length)
    (h : ∀ c, c < l1.length → l1.getD c d = l2.getD c d) : l1 = l2 := by
  apply List.ext_getElem hl
  intro c h1 h2
  have := h c h1
  simpa [List.getD_eq_getElem?_getD, List.getElem?_eq_getElem h1, List.getElem?_eq_getElem h2] using this

theorem eq_map_range {α : Type} (d : α) (l : List α) : l = (List.range l.length).map (fun i => l.getD i d) := by
  apply ext_getD d
  · simp
  · intro c hc
    simp [List.getD_eq_getElem?_getD, hc]

theorem getAt_natCast {α : Type} (d : α) (v : List α) (c : Nat) : getAt d v (c : Int) = v.getD c d := by
  simp [getAt]

/-! ## `np.where`, gather, scatter -/

theorem mem_whereIdx (b : List Bool) (c : Nat) : ((c : Int) ∈ whereIdx b) ↔ b.getD c false = true := by
  simp only [whereIdx, List.mem_map, List.mem_filter, List.mem_range]
  constructor
  · rintro ⟨a, ⟨_, h⟩, hc⟩
    have : a = c := by exact_mod_cast hc
    subst this; exact h
  · intro h
    refine ⟨c, ⟨?_, h⟩, rfl⟩
    by_contra hlt
    simp [List.getD_eq_getElem?_getD, List.getElem?_eq_none (Nat.le_of_not_lt hlt)] at h

/-- `(L.map f)[np.where(L.map p)]` is `f` on the filtered list -/
theorem gather_where {β α : Type} [Inhabited β] (d : α) (L : List β) (f : β → α) (p : β → Bool) :
    gather d (L.map f) (whereIdx (L.map p)) = (L.filter p).map f := by
  conv_rhs => rw [eq_map_range default L, List.filter_map, List.map_map]
  simp only [gather, whereIdx, List.map_map, List.length_map]
  rw [List.filter_congr (q := (p ∘ fun i => L.getD i default))]
  · apply List.map_congr_left
    intro i hi
    have hi' : i < L.length := by simpa using (List.mem_filter.mp hi).1
    simp [getAt, List.getD_eq_getElem?_getD, hi']
  · intro i hi
    have hi' : i < L.length := by simpa using hi
    simp [List.getD_eq_getElem?_getD, hi']

theorem gatherOk_where {α : Type} (v : List α) (b : List Bool) (h : b.length ≤ v.length) :
    gatherOk v (whereIdx b) = true := by
  simp only [gatherOk, whereIdx, List.all_map, List.all_eq_true, List.mem_filter, List.mem_range]
  rintro i ⟨hi, _⟩
  simp [inRange, len]; omega

theorem length_setAt {α : Type} (v : List α) (i : Int) (x : α) : (setAt v i x).length = v.length := by
  unfold setAt; split <;> simp

theorem getD_setAt {α : Type} (v : List α) (i : Int) (x : α) (c : Nat) (d : α) :
    (setAt v i x).getD c d = if i = (c : Int) ∧ c < v.length then x else v.getD c d := by
  unfold setAt
  by_cases h0 : 0 ≤ i
  · obtain ⟨k, rfl⟩ := Int.eq_ofNat_of_zero_le h0
    simp only [h0, if_true, Int.toNat_natCast, List.getD_eq_getElem?_getD, List.getElem?_set]
    by_cases hk : k = c
    · subst hk
      by_cases hl : k < v.length <;> simp [hl]
    · have : ¬ ((k : Int) = (c : Int)) := by exact_mod_cast hk
      simp [hk, this]
  · have : ¬ (i = (c : Int)) := by omega
    simp [h0, this]

theorem length_scatterSet {α : Type} (v : List α) (idx : List Int) (vals : List α) :
    (scatterSet v idx vals).length = v.length := by
  unfold scatterSet
  generalize idx.zip vals = ps
  induction ps generalizing v with
  | nil => rfl
  | cons p ps ih => simp [List.foldl_cons, ih, length_setAt]

/-- pointwise value after `v[idx] = h(idx)` -/
theorem getD_scatterSet_map {α : Type} (v : List α) (idx : List Int) (h : Int → α) (c : Nat) (d : α) :
    (scatterSet v idx (idx.map h)).getD c d = if (c : Int) ∈ idx ∧ c < v.length then h c else v.getD c d := by
  induction idx generalizing v with
  | nil => simp [scatterSet]
  | cons i idx ih =>
    have step : scatterSet v (i :: idx) ((i :: idx).map h) = scatterSet (setAt v i (h i)) idx (idx.map h) := by
      simp [scatterSet]
    rw [step, ih, length_setAt, getD_setAt]
    by_cases hc : (c : Int) ∈ idx
    · by_cases hl : c < v.length <;> simp [hc, hl]
    · by_cases hi : i = (c : Int)
      · subst hi
        by_cases hl : c < v.length <;> simp [hc, hl]
      · have : ¬ ((c : Int) = i) := fun e => hi e.symm
        simp [hc, hi, this]

/-- `v[cols] = h(cols)` on a tabulated row -/
theorem scatterSet_range {α : Type} [Inhabited α] (n : Nat) (g : Nat → α) (IC : List Nat) (h : Nat → α) :
    scatterSet ((List.range n).map g) (IC.map (fun (c : Nat) => (c : Int))) (IC.map h)
      = (List.range n).map (fun c => if c ∈ IC then h c else g c) := by
  have hv : IC.map h = (IC.map (fun (c : Nat) => (c : Int))).map (fun i => h i.toNat) := by
    simp [List.map_map]
  rw [hv]
  apply ext_getD default
  · simp [length_scatterSet]
  · intro c hc
    have hc' : c < n := by simpa [length_scatterSet] using hc
    rw [getD_scatterSet_map]
    have hm : ((c : Int) ∈ IC.map (fun (c : Nat) => (c : Int))) ↔ c ∈ IC := by
      simp
    simp [hm, hc', List.getD_eq_getElem?_getD]

/-- `(L.map a)[np.where(L.map p)] = g(L.filter p)` -/
theorem scatterSet_where {β α : Type} [Inhabited β] [Inhabited α] (L : List β) (a g : β → α) (p : β → Bool) :
    scatterSet (L.map a) (whereIdx (L.map p)) ((L.filter p).map g)
      = L.map (fun x => if p x then g x else a x) := by
  have hv : (L.filter p).map g = (whereIdx (L.map p)).map (fun i => g (L.getD i.toNat default)) := by
    rw [← gather_where default L g p]
    simp only [gather]
    apply List.map_congr_left
    intro i hi
    simp only [whereIdx, List.mem_map, List.mem_filter, List.mem_range, List.length_map] at hi
    obtain ⟨k, ⟨hk, _⟩, rfl⟩ := hi
    simp [getAt, List.getD_eq_getElem?_getD, hk]
  rw [hv]
  apply ext_getD default
  · simp [length_scatterSet]
  · intro c hc
    have hc' : c < L.length := by simpa [length_scatterSet] using hc
    rw [getD_scatterSet_map]
    simp only [mem_whereIdx]
    simp [List.getD_eq_getElem?_getD, hc']

/-! ## Normal forms: every vector is `L.map f` -/

theorem zipWith_map_map {α β γ δ : Type} (f : β → γ → δ) (L : List α) (a : α → β) (b : α → γ) :
    List.zipWith f (L.map a) (L.map b) = L.map (fun x => f (a x) (b x)) := by
  induction L with
  | nil => rfl
  | cons x L ih => simp [ih]

theorem zipWith3_map {α β γ δ ε : Type} (f : β → γ → δ → ε) (L : List α) (a : α → β) (b : α → γ) (c : α → δ) :
    PyVecIdx.zipWith3 f (L.map a) (L.map b) (L.map c) = L.map (fun x => f (a x) (b x) (c x)) := by
  induction L with
  | nil => rfl
  | cons x L ih => simp [PyVecIdx.zipWith3, ih]

theorem gather_map {α β : Type} (d : α) (v : List α) (L : List β) (f : β → Int) :
    gather d v (L.map f) = L.map (fun x => getAt d v (f x)) := by
  simp [gather, List.map_map, Function.comp_def]

theorem select_map {α β : Type} (L : List β) (f : β → α) (p : β → Bool) :
    select (L.map f) (L.map p) = (L.filter p).map f := by
  simp only [select, zipWith_map_map]
  induction L with
  | nil => rfl
  | cons x L ih =>
    by_cases h : p x <;> simp [List.filter_cons, h, ih]

theorem maskSet_map {α β : Type} (L : List β) (f : β → α) (m : β → Bool) (c : α) :
    maskSet (L.map f) (L.map m) c = L.map (fun x => if m x then c else f x) := by
  simp [maskSet, zipWith_map_map]

theorem tileRows_len {α β : Type} (v : List α) (L : List β) : tileRows v (len L) = L.map (fun _ => v) := by
  simp only [tileRows, len, Int.toNat_natCast]
  induction L with
  | nil => rfl
  | cons x L ih => simp [List.replicate_succ, ih]

theorem replicate_len {α β : Type} (x : α) (R : List β) : List.replicate (len R).toNat x = R.map (fun _ => x) := by
  simp only [len, Int.toNat_natCast]
  induction R with
  | nil => rfl
  | cons y R ih => simp [List.replicate_succ, ih]

theorem tileCols_len {α β γ : Type} (L : List β) (f : β → α) (R : List γ) :
    tileCols (L.map f) (len R) = L.map (fun c => R.map (fun _ => f c)) := by
  simp [tileCols, replicate_len, List.map_map, Function.comp_def]

theorem arange_len {α : Type} (v : List α) : PyVec.arange (len v) = (List.range v.length).map (fun (i : Nat) => (i : Int)) := by
  simp [PyVec.arange, len]

theorem full_len {α β : Type} (x : α) (v : List β) : PyVec.full x (len v) = (List.range v.length).map (fun _ => x) := by
  simp only [PyVec.full, len, Int.toNat_natCast]
  apply ext_getD x
  · simp
  · intro c hc
    have : c < v.length := by simpa using hc
    simp [List.getD_eq_getElem?_getD, this]

theorem getAt_map_range {α : Type} (d : α) (n : Nat) (g : Nat → α) (c : Nat) :
    getAt d ((List.range n).map g) (c : Int) = if c < n then g c else d := by
  simp only [getAt, Int.toNat_natCast, List.getD_eq_getElem?_getD]
  by_cases h : c < n <;> simp [h]

/-! ## Encodings -/

def embedRow (l : List Val) : List Fl := l.map Fl.ofVal

/-- a cell of the confidence band as a float -/
def confFl : Conf → Fl
  | .nan => .nan
  | .fin q => .fin q
  | .inf => .pinf

/-- a distance (`Ext`) as a float -/
def extFl : Ext → Fl
  | .fin q => .fin q
  | .inf => .pinf

/-! ## Scalars -/

theorem confFl_toConf (e : Ext) : confFl e.toConf = extFl e := by cases e <;> rfl

theorem nan_to_inf (v : Val) : (if (Fl.ofVal v).isNan = true then Fl.pinf else Fl.ofVal v) = extFl (nanToInf v) := by
  cases v <;> simp [Fl.ofVal, Fl.isNan, nanToInf, extFl]

theorem abs_add_ext (a b : Ext) : Fl.abs (Fl.add (extFl a) (extFl b)) = extFl (absSum a b) := by
  cases a <;> cases b <;> simp [extFl, Fl.add, Fl.abs, absSum, PyExpr.rabs, ratAbs]

theorem lt_ext (t : ℚ) (e : Ext) : Fl.lt (.fin t) (extFl e) = e.gt t := by
  cases e <;> simp [extFl, Fl.lt, Ext.gt]

theorem valid_eq (x : Nat) : neq (Nat.land x 963) 0 = !Flags.isInvalid x := by
  have : Nat.land x 963 = x &&& 963 := rfl
  simp only [neq, Flags.isInvalid, Flags.pixelInvalid, this]
  by_cases h : x &&& 963 = 0 <;> simp [h]

theorem truncQ_intCast (z : Int) : truncQ (z : ℚ) = z := by
  unfold truncQ
  split
  · simp
  · have e : (-(z : ℚ)) = ((-z : ℤ) : ℚ) := by push_cast; ring
    rw [e, Rat.floor_intCast]; omega

theorem getD_embedRow (l : List Val) (c : Nat) : (embedRow l).getD c Fl.nan = Fl.ofVal (l.getD c .nan) := by
  simp only [embedRow, List.getD_eq_getElem?_getD, List.getElem?_map]
  cases l[c]? <;> rfl

theorem len_embedRow (l : List Val) : len (embedRow l) = (l.length : Int) := by simp [len, embedRow]

/-- the correspondent as the generated code computes it -/
theorem castInt_rint (v : Val) :
    castInt (PyVecIdx.rint (Fl.ofVal v)) = match v with | .nan => intMin | .num q => CrossCheck.rint q := by
  cases v with
  | nan => rfl
  | num q => simp only [Fl.ofVal, PyVecIdx.rint, castInt, truncQ_intCast]; rfl

theorem inside_eq (n c : Nat) (v : Val) (hc : c < n) (hn : n ≤ 2 ^ 63) :
    (ile 0 (Int.add (c : Int) (castInt (PyVecIdx.rint (Fl.ofVal v))))
      && ilt (Int.add (c : Int) (castInt (PyVecIdx.rint (Fl.ofVal v)))) (n : Int)) = insideRight n (colRight c v) := by
  rw [castInt_rint]
  cases v with
  | nan =>
    have h : ¬ (0 : Int) ≤ Int.add (c : Int) intMin := by
      show ¬ (0 : Int) ≤ (c : Int) + (-9223372036854775808); omega
    simp only [colRight, insideRight, ile, h, decide_false, Bool.false_and]
  | num q => simp only [colRight, insideRight, ile, ilt]; rfl

theorem outside_aux (n : Nat) (x : Int) : (ilt x 0 || ile (n : Int) x) = !(ile 0 x && ilt x (n : Int)) := by
  simp only [ile, ilt]
  rw [Bool.eq_iff_iff]
  simp

theorem outside_eq (n c : Nat) (v : Val) (hc : c < n) (hn : n ≤ 2 ^ 63) :
    (ilt (Int.add (c : Int) (castInt (PyVecIdx.rint (Fl.ofVal v)))) 0
      || ile (n : Int) (Int.add (c : Int) (castInt (PyVecIdx.rint (Fl.ofVal v))))) = !insideRight n (colRight c v) := by
  rw [outside_aux, inside_eq n c v hc hn]

open Pandora.Generated.KernelsCrossCheck

/-- the generated row function and the hand model agree on one row -/
def agreesOn (P : Params) (dL dR : List Val) (mask : List Nat) : Bool :=
  decide (crossCheckRow mask (embedRow dL) (embedRow dR) (.fin P.threshold) (arange P.dmin P.dmax)
    = .ok ((ccRow .ruleFix P dL dR mask).map (·.flag), (ccRow .ruleFix P dL dR mask).map (fun o => confFl o.conf)))

/-
  MAIN THEOREM (end of the file, proved): `crossCheckRow_generated_eq` — for every `P`, `dL`, `dR`, `mask` with
  `mask.length = dL.length`, `dR.length = dL.length` (the maps of a dataset pair have one shape), `∀ f ∈ mask, f < 65536` (uint16)
  and `dL.length ≤ 2^63` (column indices are int64):
      crossCheckRow mask (embedRow dL) (embedRow dR) (.fin P.threshold) (arange P.dmin P.dmax)
        = .ok ((ccRow .ruleFix P dL dR mask).map (·.flag), (ccRow .ruleFix P dL dR mask).map (fun o => confFl o.conf))
  by composing the three generated stages: `crossCheckRow_consistency_eq` (stage 1), `crossCheckRow_witness_eq` (stage 2),
  `crossCheckRow_flags_eq` (stage 3), then `flag_pointwise` / `conf_pointwise` against `ccPixel .ruleFix`.  Transfer of the
  specification: `generated_row_clauses`, `generated_never_both`, `generated_invalid_untouched`.
  `generated_eq_on_table` (kernel evaluation on six discriminating rows) is kept as an independent instance check.
-/

/-- rows chosen to separate the behaviours the statement depends on: distance equal to the threshold (kept), just above
    it, NaN on either side (distance inf), exact halves at both rounding sites (half to even), a correspondent left / right
    of the image classified by the same search, witnesses at both ends of the interval, two witnesses (clipped to one),
    already invalid pixels, information bits kept -/
def table : List (Params × List Val × List Val × List Nat) := [
  (⟨1, -1, 1, 0⟩, [.num 0, .num 1, .num (-1), .num 0, .nan], [.num 0, .num 3, .num (-1), .nan, .num (-1)], [0, 0, 0, 1, 0]),
  (⟨0, -1, 1, 0⟩, [.num (-1), .num (-1), .num (-1)], [.num (-1), .num (1/2), .num (-1)], [0, 0, 0]),
  (⟨1/2, -2, 0, 0⟩, [.num (1/2), .num (3/2), .num 5, .num 0], [.nan, .num (-1), .num (-2), .num 0], [4, 8, 0, 64]),
  (⟨1, -2, 2, 0⟩, [.num 1, .num (-1), .num (5/2), .num (-3)], [.num (-2), .num 0, .num 2, .num (-2)], [0, 2048, 0, 0]),
  (⟨0, 0, 1, 0⟩, [.num (1/2), .num (-1/2), .num (3/2)], [.num 0, .num (-1), .num 1], [0, 0, 16]),
  (⟨2, -1, 0, 0⟩, [.num (-1), .num 3], [.num 1, .num 1], [0, 32])]

theorem generated_eq_on_table : (table.all fun t => agreesOn t.1 t.2.1 t.2.2.1 t.2.2.2) = true := by decide +kernel

/-! ## Stage 1: the consistency part -/

theorem arange_natCast (n : Nat) : PyVec.arange (n : Int) = (List.range n).map (fun (i : Nat) => (i : Int)) := by
  simp [PyVec.arange]

theorem full_natCast {α : Type} (x : α) (n : Nat) : PyVec.full x (n : Int) = (List.range n).map (fun _ => x) := by
  have := full_len x (List.range n)
  simpa [len] using this

/-! ## The hand model's per-column quantities -/

def validC (m : Nat → Nat) (c : Nat) : Bool := !Flags.isInvalid (m c)
def qOf (dL : List Val) (c : Nat) : Option Int := colRight c (dL.getD c .nan)
def inB (dL : List Val) (c : Nat) : Bool := insideRight dL.length (qOf dL c)
def distE (dL dR : List Val) (c : Nat) : Ext :=
  match qOf dL c with
  | some q => absSum (nanToInf (dR.getD q.toNat .nan)) (nanToInf (dL.getD c .nan))
  | none => .inf
/-- the columns the cross-checking invalidates, in the order of `invalid_col` -/
def ICcols (thr : ℚ) (m : Nat → Nat) (dL dR : List Val) : List Nat :=
  (List.range dL.length).filter (fun c => validC m c && inB dL c && (distE dL dR c).gt thr)
    ++ (List.range dL.length).filter (fun c => validC m c && !inB dL c)
def confModel (m : Nat → Nat) (dL dR : List Val) (c : Nat) : Fl :=
  if validC m c && inB dL c then extFl (distE dL dR c) else .nan

theorem dist_eq (dL dR : List Val) (c : Nat) (hin : inB dL c = true) :
    ((if (getAt Fl.nan (embedRow dR) (Int.add (c : Int) (castInt (PyVecIdx.rint (Fl.ofVal (dL.getD c Val.nan)))))).isNan = true
        then Fl.pinf
        else getAt Fl.nan (embedRow dR) (Int.add (c : Int) (castInt (PyVecIdx.rint (Fl.ofVal (dL.getD c Val.nan))))))
      = extFl (nanToInf (dR.getD (match qOf dL c with | some q => q | none => 0).toNat .nan))) := by
  unfold inB qOf at *
  rw [castInt_rint]
  cases h : dL.getD c Val.nan with
  | nan => rw [h] at hin; simp [colRight, insideRight] at hin
  | num r =>
    simp only [colRight, getAt, getD_embedRow]
    exact nan_to_inf _

theorem getAt_embedRow (l : List Val) (i : Int) : getAt Fl.nan (embedRow l) i = Fl.ofVal (l.getD i.toNat .nan) := by
  unfold getAt; exact getD_embedRow l i.toNat

theorem int_add_eq (a b : Int) : Int.add a b = a + b := rfl

/-- **the consistency part, for every row**: stage 1 of the generated row function (statements up to `invalid_col`) never meets
    a shape / bounds error and returns the row length, the confidence row of the hand model and the hand model's invalidated
    columns (inside and beyond the threshold first, then outside), for every row length ≤ 2^63, every disparity (NaN
    included), every flag word and threshold -/
theorem crossCheckRow_consistency_eq (thr : ℚ) (dL dR : List Val) (m : Nat → Nat) (hr : dR.length = dL.length) (hn : dL.length ≤ 2 ^ 63) :
    crossCheckRow_s1 ((List.range dL.length).map m) (embedRow dL) (embedRow dR) (.fin thr)
      = .ok ((dL.length : Int), (List.range dL.length).map (confModel m dL dR),
             (ICcols thr m dL dR).map (fun (c : Nat) => (c : Int))) := by
  have hl : (embedRow dL).length = dL.length := by simp [embedRow]
  simp only [crossCheckRow_s1, arange_natCast, full_natCast, hl, mapR, mapL, zip2, List.map_map, Function.comp_def,
    gather_where, gather_map, zipWith_map_map, select_map, maskSet_map, concat, ← List.map_append,
    getAt_natCast, scatterSet_range, getD_embedRow, getAt_embedRow, len_embedRow, valid_eq, nan_to_inf, abs_add_ext, lt_ext, castInt_rint]
  rw [if_pos]
  · congr 1
    refine Prod.ext rfl (Prod.ext ?_ ?_)
    · apply List.map_congr_left
      intro c hc
      have hc' := List.mem_range.mp hc
      simp only [confModel, validC, inB, qOf, distE, List.mem_filter, List.mem_range, hc', true_and]
      obtain ⟨v, hv⟩ : ∃ v, dL.getD c Val.nan = v := ⟨_, rfl⟩
      simp only [hv]
      cases v <;>
        simp [colRight, insideRight, ile, ilt, hc', intMin, int_add_eq]
      all_goals first
        | (intros; omega)
        | (generalize Flags.isInvalid (m c) = b; cases b <;> (try simp) <;> (try omega) <;>
           (try (rw [Bool.eq_iff_iff]; (try simp); (try omega))) <;> (try tauto) <;>
           (try (split_ifs <;> first | rfl | omega)); done)
    · show List.map _ _ = List.map _ _
      congr 1
      simp only [List.filter_filter, ICcols]
      congr 1 <;> apply List.filter_congr <;> intro c hc <;> (have hc' := List.mem_range.mp hc) <;>
        simp only [validC, inB, qOf, distE] <;> generalize dL.getD c Val.nan = v <;> cases v <;>
        simp [colRight, insideRight, ile, ilt, hc', intMin, int_add_eq]
      all_goals first
        | (intros; omega)
        | (generalize Flags.isInvalid (m c) = b; generalize (absSum _ _).gt thr = g;
           cases b <;> cases g <;> (try simp) <;> (try omega) <;> (try tauto); done)
        | (generalize Flags.isInvalid (m c) = b; cases b <;> (try simp) <;> (try omega) <;>
           (try (rw [Bool.eq_iff_iff]; (try simp); (try omega))) <;> (try tauto) <;>
           (try (split_ifs <;> first | rfl | omega)); done)
  · simp only [Bool.and_eq_true]
    repeat' apply And.intro
    all_goals first
      | (apply gatherOk_where; simp [embedRow, hr]; done)
      | (simp [sameLen, scatterOk, gatherOk, inRange, len, embedRow, hr, ile, ilt]; done)
      | (simp [sameLen, scatterOk, gatherOk, inRange, len, embedRow, hr, ile, ilt]; intros; omega)

/-! ## Stage 3: the flag update -/

theorem int_mul_eq (a b : Int) : Int.mul a b = a * b := rfl

theorem gather_range_cast {α : Type} (d : α) (n : Nat) (g : Nat → α) (IC : List Nat) (hIC : ∀ c ∈ IC, c < n) :
    gather d ((List.range n).map g) (IC.map (fun (c : Nat) => (c : Int))) = IC.map g := by
  rw [gather_map]
  apply List.map_congr_left
  intro c hc
  rw [getAt_map_range, if_pos (hIC c hc)]

theorem gatherOk_range_cast {α : Type} (n : Nat) (g : Nat → α) (IC : List Nat) (hIC : ∀ c ∈ IC, c < n) :
    gatherOk ((List.range n).map g) (IC.map (fun (c : Nat) => (c : Int))) = true := by
  simp only [gatherOk, List.all_map, List.all_eq_true, Function.comp, inRange, len, List.length_map, List.length_range,
    Bool.and_eq_true, decide_eq_true_eq]
  intro c hc
  exact ⟨Int.natCast_nonneg c, by exact_mod_cast hIC c hc⟩

theorem sameLen_map {α β γ : Type} (L : List α) (a : α → β) (b : α → γ) : sameLen (L.map a) (L.map b) = true := by
  simp [sameLen]

theorem all_map_id {α : Type} (L : List α) (p : α → Bool) (h : ∀ x ∈ L, p x = true) : (L.map p).all id = true := by
  simp only [List.all_map, List.all_eq_true]
  intro x hx
  exact h x hx

theorem castU16_512 (k : Nat) : castU16 (Int.mul 512 (k : Int)) = 512 * k := by
  show ((512 : Int) * (k : Int)).toNat = 512 * k
  omega
theorem castU16_256 (k : Nat) : castU16 (Int.mul 256 (k : Int)) = 256 * k := by
  show ((256 : Int) * (k : Int)).toNat = 256 * k
  omega

theorem castU16_512' (k : Nat) : castU16 (512 * (k : Int)) = 512 * k := castU16_512 k
theorem castU16_256' (k : Nat) : castU16 (256 * (k : Int)) = 256 * k := castU16_256 k

/-- **the flag update, for every row**: stage 3 adds OCCLUSION, then MISMATCH·k, and takes OCCLUSION·k back at the given columns;
    none of its 15 tests fails when the columns are in the row, their flag words leave room for bits 8 and 9, and k ≤ 1 -/
theorem crossCheckRow_flags_eq (n : Nat) (m : Nat → Nat) (conf : List Fl) (IC : List Nat) (k : Nat → Nat)
    (hIC : ∀ c ∈ IC, c < n ∧ m c + 768 < 65536) (hk : ∀ c, k c ≤ 1) :
    crossCheckRow_s3 ((List.range n).map m) conf (IC.map (fun (c : Nat) => (c : Int))) (IC.map (fun c => ((k c : Nat) : Int)))
      = .ok ((List.range n).map (fun c => if c ∈ IC then m c + 256 + 512 * k c - 256 * k c else m c), conf) := by
  have hI : ∀ c ∈ IC, c < n := fun c hc => (hIC c hc).1
  simp only [crossCheckRow_s3, mapR, mapL, zip2, List.map_map, Function.comp_def, scatterOk,
    gather_range_cast _ n _ IC hI, gatherOk_range_cast n _ IC hI, zipWith_map_map, scatterSet_range, sameLen_map,
    Bool.true_and, Bool.and_true]
  rw [if_pos]
  · congr 1
    refine Prod.ext ?_ rfl
    apply List.map_congr_left
    intro c _
    by_cases hin : c ∈ IC
    · simp only [hin, if_true, castU16_512, castU16_256, Nat.add_eq, Nat.sub_eq]
    · simp only [hin, if_false]
  · simp only [Bool.and_eq_true]
    refine ⟨⟨⟨⟨?_, ?_⟩, ?_⟩, ?_⟩, ?_⟩ <;> apply all_map_id <;> intro x hx <;> (obtain ⟨h1, h2⟩ := hIC x hx) <;>
      (have h3 := hk x) <;>
      simp only [hx, if_true, castU16_512, castU16_256, castU16_512', castU16_256', u16AddOk, u16SubOk, u16Ok, int_mul_eq, Nat.add_eq,
        decide_eq_true_eq, Bool.and_eq_true] <;> omega

/-! ## Stage 2: the witness search -/

instance : Inhabited Fl := ⟨.nan⟩

theorem all_id_map_true {α : Type} (L : List α) : (L.map (fun _ => true)).all id = true := by
  simp

theorem length_whereIdx_map {α : Type} [Inhabited α] (L : List α) (p : α → Bool) :
    (whereIdx (L.map p)).length = (L.filter p).length := by
  have := congrArg List.length (gather_where () L (fun _ => ()) p)
  simpa [gather] using this

theorem sameShape_map {α β γ δ : Type} (L : List α) (R : List β) (a : α → β → γ) (b : α → β → δ) :
    sameShape (L.map fun x => R.map (a x)) (L.map fun x => R.map (b x)) = true := by
  simp [sameShape, zipWith_map_map]

theorem gather2Ok_map {α β γ : Type} (L : List α) (R : List β) (f : α → β → γ) (p : α → β → Bool) :
    gather2Ok (L.map fun x => R.map (f x)) (L.map fun x => whereIdx (R.map (p x))) = true := by
  simp only [gather2Ok, zipWith_map_map, List.length_map, beq_self_eq_true, Bool.true_and]
  have : ∀ x, gatherOk (R.map (f x)) (whereIdx (R.map (p x))) = true := fun x => gatherOk_where _ _ (by simp)
  simp [this]

theorem scatter2Ok_map {α β γ δ : Type} [Inhabited β] (L : List α) (R : List β) (a : α → β → γ) (p : α → β → Bool)
    (g : α → β → δ) :
    scatter2Ok (L.map fun x => R.map (a x)) (L.map fun x => whereIdx (R.map (p x)))
      (L.map fun x => (R.filter (p x)).map (g x)) = true := by
  simp only [scatter2Ok, zipWith3_map, List.length_map, beq_self_eq_true, Bool.true_and]
  have : ∀ x, scatterOk (R.map (a x)) (whereIdx (R.map (p x))) ((R.filter (p x)).map (g x)) = true := by
    intro x
    simp only [scatterOk, sameLen, length_whereIdx_map, List.length_map, beq_self_eq_true, Bool.and_true]
    exact gatherOk_where _ _ (by simp)
  simp [this]

/-! ### scalars of the witness grid -/

theorem index_add (d : Int) (c : Nat) : Fl.add (ofInt d) (ofInt (c : Int)) = Fl.fin (((d + (c : Int) : Int)) : ℚ) := by
  simp [ofInt, Fl.add]

theorem le_fin0 (s : Int) : Fl.le (.fin 0) (.fin (s : ℚ)) = decide (0 ≤ s) := by
  simp only [Fl.le, Fl.lt, Fl.eq]
  rw [Bool.eq_iff_iff]
  simp only [Bool.or_eq_true, decide_eq_true_eq]
  constructor
  · rintro (h | h)
    · exact_mod_cast le_of_lt h
    · exact_mod_cast le_of_eq h
  · intro h
    rcases lt_or_eq_of_le h with h1 | h1
    · left; exact_mod_cast h1
    · right; exact_mod_cast h1

theorem lt_finn (s : Int) (n : Nat) : Fl.lt (.fin (s : ℚ)) (ofInt (n : Int)) = decide (s < (n : Int)) := by
  simp only [Fl.lt, ofInt]
  rw [Bool.eq_iff_iff]
  simp only [decide_eq_true_eq]
  exact_mod_cast Iff.rfl

theorem castInt_fin (s : Int) : castInt (.fin (s : ℚ)) = s := truncQ_intCast s

theorem match_eq (n : Nat) (dR : List Val) (c : Nat) (d : Int) (b : Bool)
    (hb : b = true ↔ (0 ≤ d + (c : Int) ∧ d + (c : Int) < (n : Int))) :
    Fl.eq (PyVecIdx.rint (if b = true then Fl.ofVal (dR.getD (d + (c : Int)).toNat Val.nan) else Fl.pinf))
      (ofInt (Int.mul (-1) d)) = matchAt n dR c d := by
  unfold matchAt dispRightAt
  rw [Int.add_comm (c : Int) d]
  by_cases h : 0 ≤ d + (c : Int) ∧ d + (c : Int) < (n : Int)
  · rw [if_pos (hb.mpr h), if_pos h]
    cases dR.getD (d + (c : Int)).toNat Val.nan with
    | nan => rfl
    | num q =>
      simp only [Fl.ofVal, PyVecIdx.rint, Fl.eq, ofInt, int_mul_eq]
      rw [Bool.eq_iff_iff]
      simp only [decide_eq_true_eq, beq_iff_eq]
      constructor
      · intro h1
        have h2 : rintQ q = -1 * d := by exact_mod_cast h1
        show rintQ q = -d
        omega
      · intro h1
        have h2 : rintQ q = -d := h1
        rw [h2]; push_cast; ring
  · have hb' : ¬ (b = true) := fun e => h (hb.mp e)
    rw [if_neg hb', if_neg h]
    rfl

theorem countTrue_map {α : Type} (L : List α) (f : α → Bool) : countTrue (L.map f) = ((L.filter f).length : Int) := by
  unfold countTrue
  congr 1
  induction L with
  | nil => rfl
  | cons x L ih => by_cases h : f x <;> simp [List.filter_cons, h, ih]

theorem comp_eq (n : Nat) (dR : List Val) (c : Nat) (R : List Int) (f : Int → Bool) (hf : ∀ d, f d = matchAt n dR c d) :
    (if ilt 1 (countTrue (R.map f)) = true then (1 : Int) else countTrue (R.map f)) = ((comp n dR c R : Nat) : Int) := by
  have : f = matchAt n dR c := funext hf
  subst this
  rw [countTrue_map]
  unfold comp
  simp only [ilt]
  by_cases h : (R.filter (matchAt n dR c)).length > 1
  · have h' : (1 : Int) < ((R.filter (matchAt n dR c)).length : Int) := by exact_mod_cast h
    simp [h, h']
  · have h' : ¬ (1 : Int) < ((R.filter (matchAt n dR c)).length : Int) := by exact_mod_cast h
    simp [h, h']

/-- **the witness search, for every row**: stage 2 returns, for each invalidated column, the hand model's `comp` (the number of
    disparities `d` of the range with `rint(dR(c + d)) = −d`, inf outside the image, clipped to 1); none of its 7 tests fails -/
theorem crossCheckRow_witness_eq (n : Nat) (dR : List Val) (hr : dR.length = n) (R : List Int) (conf : List Fl) (IC : List Nat) :
    crossCheckRow_s2 (embedRow dR) R (n : Int) conf (IC.map (fun (c : Nat) => (c : Int)))
      = .ok (conf, IC.map (fun (c : Nat) => (c : Int)), IC.map (fun c => ((comp n dR c R : Nat) : Int))) := by
  simp only [crossCheckRow_s2, tileRows_len, tileCols_len, mmap, mzip, fullLike, where2, gather2, rgather, scatter2, rowCounts,
    mapR, mapL, List.map_map, Function.comp_def, zipWith_map_map, zipWith3_map, gather_where, gather_map, scatterSet_where,
    maskSet_map, getAt_embedRow, sameShape_map, gather2Ok_map, scatter2Ok_map, sameLen_map, Bool.true_and, Bool.and_true,
    index_add, le_fin0, lt_finn, castInt_fin]
  rw [if_pos]
  · congr 1
    refine Prod.ext rfl (Prod.ext rfl ?_)
    apply List.map_congr_left
    intro c _
    apply comp_eq
    intro d
    refine match_eq n dR c d _ ?_
    simp only [Bool.and_eq_true, decide_eq_true_eq] <;> tauto
  · simp only [rgatherOk, List.all_map, List.all_eq_true, gatherOk, Function.comp, List.mem_filter, inRange, len,
      Bool.and_eq_true, decide_eq_true_eq]
    intro c _ d hd
    have : (embedRow dR).length = n := by simp [embedRow, hr]
    rw [this]
    tauto

/-! ## The whole row -/

theorem mem_ICcols (thr : ℚ) (m : Nat → Nat) (dL dR : List Val) (c : Nat) :
    c ∈ ICcols thr m dL dR ↔
      c < dL.length ∧ validC m c = true ∧ (inB dL c = false ∨ (distE dL dR c).gt thr = true) := by
  simp only [ICcols, List.mem_append, List.mem_filter, List.mem_range, Bool.and_eq_true, Bool.not_eq_true']
  cases inB dL c <;> simp <;> tauto

theorem room_for_bits (f : Nat) (hf : f < 65536) (hv : Flags.isInvalid f = false) : f + 768 < 65536 := by
  obtain ⟨h8, h9⟩ := C07.valid_bits_clear f hv
  simp only [bitAt] at h8 h9
  omega

theorem flag_pointwise (P : Params) (dL dR : List Val) (m : Nat → Nat) (c : Nat) (hc : c < dL.length) :
    (if c ∈ ICcols P.threshold m dL dR then
        m c + 256 + 512 * comp dL.length dR c (arange P.dmin P.dmax) - 256 * comp dL.length dR c (arange P.dmin P.dmax)
      else m c) = (ccPixel .ruleFix P dL.length dL dR c (m c)).flag := by
  obtain ⟨qo, hq⟩ : ∃ qo, colRight c (dL.getD c Val.nan) = qo := ⟨_, rfl⟩
  obtain ⟨b, hb⟩ : ∃ b, Flags.isInvalid (m c) = b := ⟨_, rfl⟩
  simp only [mem_ICcols, hc, true_and, validC, inB, qOf, distE, ccPixel, ccInside, ccOutside, Flags.occlusion, Flags.mismatch,
    hq, hb]
  cases b <;> rcases qo with _ | q <;> simp [insideRight]
  all_goals (try (split_ifs <;> simp_all))
  all_goals (try omega)

theorem conf_pointwise (P : Params) (dL dR : List Val) (m : Nat → Nat) (c : Nat) :
    confModel m dL dR c = confFl (ccPixel .ruleFix P dL.length dL dR c (m c)).conf := by
  obtain ⟨qo, hq⟩ : ∃ qo, colRight c (dL.getD c Val.nan) = qo := ⟨_, rfl⟩
  obtain ⟨b, hb⟩ : ∃ b, Flags.isInvalid (m c) = b := ⟨_, rfl⟩
  simp only [confModel, validC, inB, qOf, distE, ccPixel, ccInside, ccOutside, hq, hb]
  have hnan : confFl Conf.nan = Fl.nan := rfl
  cases b <;> rcases qo with _ | q <;> simp [insideRight, hnan]
  all_goals (try (split_ifs <;> simp_all [hnan, confFl_toConf]))

/-- **the row body regenerated from the source equals the hand model, for every row**: every row length up to 2^63 (column
    indices are int64), every left / right disparity row of that length (NaN included), every uint16 flag row, every threshold
    and every disparity interval — and none of the 42 shape / bounds / uint16 tests fails -/
theorem crossCheckRow_generated_eq (P : Params) (dL dR : List Val) (mask : List Nat)
    (hm : mask.length = dL.length) (hr : dR.length = dL.length) (hu : ∀ f ∈ mask, f < 65536)
    (hn : dL.length ≤ 2 ^ 63) :
    crossCheckRow mask (embedRow dL) (embedRow dR) (.fin P.threshold) (arange P.dmin P.dmax)
      = .ok ((ccRow .ruleFix P dL dR mask).map (·.flag),
             (ccRow .ruleFix P dL dR mask).map (fun o => confFl o.conf)) := by
  have e : mask = (List.range dL.length).map (fun c => mask.getD c 0) := by
    rw [← hm]; exact eq_map_range 0 mask
  have hmu : ∀ c, c < dL.length → mask.getD c 0 < 65536 := by
    intro c hc
    have hc' : c < mask.length := by omega
    apply hu
    simp [List.getD_eq_getElem?_getD, hc']
  have h1 := crossCheckRow_consistency_eq P.threshold dL dR (fun c => mask.getD c 0) hr hn
  rw [← e] at h1
  have h2 := crossCheckRow_witness_eq dL.length dR hr (arange P.dmin P.dmax)
    ((List.range dL.length).map (confModel (fun c => mask.getD c 0) dL dR))
    (ICcols P.threshold (fun c => mask.getD c 0) dL dR)
  have h3 := crossCheckRow_flags_eq dL.length (fun c => mask.getD c 0)
    ((List.range dL.length).map (confModel (fun c => mask.getD c 0) dL dR))
    (ICcols P.threshold (fun c => mask.getD c 0) dL dR) (fun c => comp dL.length dR c (arange P.dmin P.dmax))
    (by
      intro c hc
      rw [mem_ICcols] at hc
      refine ⟨hc.1, room_for_bits _ (hmu c hc.1) ?_⟩
      simpa [validC] using hc.2.1)
    (by
      intro c
      rcases C07.comp_cases dL.length dR c (arange P.dmin P.dmax) with h | h <;> omega)
  rw [← e] at h3
  unfold crossCheckRow
  rw [h1]
  dsimp only
  rw [h2]
  dsimp only
  rw [h3]
  simp only [ccRow, List.map_map, Function.comp_def]
  congr 1
  refine Prod.ext ?_ ?_
  · apply List.map_congr_left
    intro c hc
    exact flag_pointwise P dL dR (fun c => mask.getD c 0) c (List.mem_range.mp hc)
  · apply List.map_congr_left
    intro c hc
    exact conf_pointwise P dL dR (fun c => mask.getD c 0) c


/-! ## Transfer of the specification to the generated definition -/

theorem getD_map_range {α : Type} (d : α) (n : Nat) (g : Nat → α) (c : Nat) :
    ((List.range n).map g).getD c d = if c < n then g c else d := by
  rw [← getAt_natCast, getAt_map_range]

theorem getD_ccRow (P : Params) (dL dR : List Val) (mask : List Nat) (c : Nat) (hc : c < dL.length) (d : PixOut) :
    (ccRow .ruleFix P dL dR mask).getD c d = ccPixel .ruleFix P dL.length dL dR c (mask.getD c 0) := by
  simp only [ccRow]
  rw [getD_map_range, if_pos hc]

/-- **every clause of the statement holds of what the generated row function returns** (both readings of `round`): the
    function returns the flag words and band values of a row `out` of per-pixel outputs, and at every column every clause of
    `clausesPix` — `kept_iff_consistent`, `mismatch_iff_witness`, `occlusion_otherwise`, `never_both`, `only_bits_8_9`,
    `conf_band_value`, `invalid_not_reexamined` — and of the half-even `clausesPixEven` is true of `out[c]` -/
theorem generated_row_clauses (P : Params) (dL dR : List Val) (mask : List Nat)
    (hm : mask.length = dL.length) (hr : dR.length = dL.length) (hu : ∀ f ∈ mask, f < 65536)
    (hn : dL.length ≤ 2 ^ 63) :
    ∃ out : List PixOut,
      crossCheckRow mask (embedRow dL) (embedRow dR) (.fin P.threshold) (arange P.dmin P.dmax)
        = .ok (out.map (·.flag), out.map (fun o => confFl o.conf)) ∧
      out.length = dL.length ∧
      ∀ c, c < dL.length →
        (∀ cl ∈ clausesPix P false dL dR c (mask.getD c 0) (out.getD c ⟨0, .nan⟩), cl.2 = true) ∧
        (∀ cl ∈ clausesPixEven P false dL dR c (mask.getD c 0) (out.getD c ⟨0, .nan⟩), cl.2 = true) := by
  refine ⟨ccRow .ruleFix P dL dR mask, crossCheckRow_generated_eq P dL dR mask hm hr hu hn, by simp [ccRow], ?_⟩
  intro c hc
  rw [getD_ccRow P dL dR mask c hc]
  constructor
  · have := C07.ccPixel_ruleFix_spec P dL.length dL dR c (mask.getD c 0) hr
    simpa [allOK, List.all_eq_true] using this
  · have := C07.ccPixel_ruleFix_specEven P dL.length dL dR c (mask.getD c 0) hr
    simpa [allOK, List.all_eq_true] using this

/-- **never_both / only_bits_8_9 on the returned flag row**: at a previously valid pixel the generated function never sets both
    bit 8 and bit 9, and changes no other bit -/
theorem generated_never_both (P : Params) (dL dR : List Val) (mask flags : List Nat) (band : List Fl)
    (hm : mask.length = dL.length) (hr : dR.length = dL.length) (hu : ∀ f ∈ mask, f < 65536) (hn : dL.length ≤ 2 ^ 63)
    (h : crossCheckRow mask (embedRow dL) (embedRow dR) (.fin P.threshold) (arange P.dmin P.dmax) = .ok (flags, band))
    (c : Nat) (hc : c < dL.length) (hv : Flags.isInvalid (mask.getD c 0) = false) :
    ¬(bitAt (flags.getD c 0) 8 = 1 ∧ bitAt (flags.getD c 0) 9 = 1)
      ∧ sameExcept89 (flags.getD c 0) (mask.getD c 0) = true := by
  rw [crossCheckRow_generated_eq P dL dR mask hm hr hu hn] at h
  have hf : flags = (ccRow .ruleFix P dL dR mask).map (·.flag) := by
    injection h with h; exact (Prod.mk.inj h).1.symm
  have : flags.getD c 0 = (ccPixel .ruleFix P dL.length dL dR c (mask.getD c 0)).flag := by
    rw [hf]
    simp only [ccRow, List.map_map]
    rw [getD_map_range, if_pos hc]; rfl
  rw [this]
  exact C07.ccPixel_never_both (V := .ruleFix) P dL.length dL dR c (mask.getD c 0) hv

/-- **invalid_not_reexamined on the returned flag row** -/
theorem generated_invalid_untouched (P : Params) (dL dR : List Val) (mask flags : List Nat) (band : List Fl)
    (hm : mask.length = dL.length) (hr : dR.length = dL.length) (hu : ∀ f ∈ mask, f < 65536) (hn : dL.length ≤ 2 ^ 63)
    (h : crossCheckRow mask (embedRow dL) (embedRow dR) (.fin P.threshold) (arange P.dmin P.dmax) = .ok (flags, band))
    (c : Nat) (hc : c < dL.length) (hv : Flags.isInvalid (mask.getD c 0) = true) :
    flags.getD c 0 = mask.getD c 0 := by
  rw [crossCheckRow_generated_eq P dL dR mask hm hr hu hn] at h
  have hf : flags = (ccRow .ruleFix P dL dR mask).map (·.flag) := by
    injection h with h; exact (Prod.mk.inj h).1.symm
  rw [hf]
  simp only [ccRow, List.map_map]
  rw [getD_map_range, if_pos hc]
  simp only [Function.comp, ccPixel, hv, if_true]

/-- non-vacuity: a row satisfying the hypotheses (the five-pixel row of the table) -/
example : ([0, 0, 0, 1, 0] : List Nat).length = ([Val.num 0, .num 1, .num (-1), .num 0, .nan] : List Val).length
    ∧ (∀ f ∈ ([0, 0, 0, 1, 0] : List Nat), f < 65536)
    ∧ ([Val.num 0, .num 1, .num (-1), .num 0, .nan] : List Val).length ≤ 2 ^ 63 := by
  refine ⟨rfl, by decide, by norm_num⟩

end Pandora.C07Kernels
