/-
  C13 — vertical flip of the criteria flags (`flagStep` of `C13Flags.lean`), and the pipeline theorems of
  `C13FlipPipeline.lean` with the hypothesis on the flags discharged.

  The flag word of a pixel reads the image re-centred on the pixel: the four `mask_border` probes (the two
  vertical ones are exchanged by the flip), the pixel's row (unchanged), the nodata cells of the left window
  (rows met bottom-up: an `any`), and whether all the costs are NaN (the matching-cost row, which commutes
  with the flip on product domains: `mcRowStep_vflip`).
-/
import PandoraModel.Properties.C13Flags
import PandoraModel.Properties.C13FlipPipeline

namespace Pandora.C13
open Pandora Pandora.Locality Pandora.MC

theorem shift_vflip {α : Type} (p : Px) (a : Img α) : shift p (vflip a) = vflip (shift (-p.1, p.2) a) := by
  funext q
  unfold shift vflip
  simp only
  congr 1
  ext
  · simp only; omega
  · rfl

/-- a step defined on the re-centred image commutes with the flip as soon as its function does not see the
    flip (on product domains) -/
theorem atOrigin_vflipOn {α β : Type} (G : Img α → Option β) (h : ∀ b, RectDom b → G (vflip b) = G b) :
    VFlipOn (atOrigin G) := by
  intro a ha
  funext p
  show G (shift p (vflip a)) = G (shift (-p.1, p.2) a)
  rw [shift_vflip]
  exact h _ (ha.shift _)

theorem border0_vflip (o : Nat) (b : Img McCell) : border0 o (vflip b) = border0 o b := by
  unfold border0 isIn0 vflip
  simp only [Int.neg_neg, Int.neg_zero]
  rw [Bool.and_comm (b ((o : Int), 0)).isSome (b (-(o : Int), 0)).isSome]

theorem inIdx0_vflip (o : Nat) (b : Img McCell) : inIdx0 o (vflip b) = inIdx0 o b := by
  funext d
  unfold inIdx0 isIn0 vflip
  simp only [Int.neg_zero]

theorem rInv0_vflip (P : McParams) (b : Img McCell) : rInv0 P (vflip b) = rInv0 P b := by
  funext d
  unfold rInv0 vflip
  simp only [Int.neg_zero]

/-- a nodata cell of the left mask -/
def nodataCell (nodata : Int) : Option McCell → Bool
  | some s => decide (s.ml = nodata)
  | none => false

theorem nodataNear0_eq_cells (o : Nat) (nodata : Int) (c : Img McCell) :
    nodataNear0 o nodata c = (List.range (2 * o + 1)).any fun di => (List.range (2 * o + 1)).any fun dj =>
      nodataCell nodata (c (-(o : Int) + (di : Int), -(o : Int) + (dj : Int))) := by
  unfold nodataNear0
  apply any_congr_mem
  intro di _
  apply any_congr_mem
  intro dj _
  unfold nodataCell
  rfl

theorem nodataNear0_vflip (o : Nat) (nodata : Int) (b : Img McCell) :
    nodataNear0 o nodata (vflip b) = nodataNear0 o nodata b := by
  rw [nodataNear0_eq_cells, nodataNear0_eq_cells]
  rw [← any_range_reverse (2 * o + 1) (fun di => (List.range (2 * o + 1)).any fun dj =>
    nodataCell nodata (b (-(o : Int) + (di : Int), -(o : Int) + (dj : Int))))]
  apply any_congr_mem
  intro di hdi
  have hdi' := List.mem_range.1 hdi
  have e : -(-(o : Int) + (di : Int)) = -(o : Int) + ((2 * o + 1 - 1 - di : Nat) : Int) := by omega
  simp only [vflip, e]

theorem flagWord0_vflip (P : McParams) (gmin gmax : Int) (b : Img McCell) (s : McCell) (allNan : Bool) :
    flagWord0 P gmin gmax (vflip b) s allNan = flagWord0 P gmin gmax b s allNan := by
  unfold flagWord0
  rw [border0_vflip, nodataNear0_vflip, inIdx0_vflip, rInv0_vflip]

theorem flagG_vflip (P : McParams) (gmin gmax : Int) (n : Nat) (b : Img McCell) (hb : RectDom b) :
    flagG P gmin gmax n (vflip b) = flagG P gmin gmax n b := by
  unfold flagG
  have h0 : vflip b (0, 0) = b (0, 0) := rfl
  have h1 : mcRowStep P gmin n (vflip b) (0, 0) = mcRowStep P gmin n b (0, 0) := by
    rw [mcRowStep_vflip P gmin n b hb]
    rfl
  rw [h0, h1]
  simp only [flagWord0_vflip]

/-- **The criteria flags commute with the flip** on images whose domain is a product rows × columns. -/
theorem flagStep_vflip (P : McParams) (gmin gmax : Int) (n : Nat) : VFlipOn (flagStep P gmin gmax n) :=
  atOrigin_vflipOn _ (flagG_vflip P gmin gmax n)

theorem pipeFlags_vflip (C : PipeCfg) : VFlipOn (pipeFlags C) := flagStep_vflip C.mc C.gmin C.gmax C.n

/-- the flags of the array listed bottom-up are the flags of the array, read bottom-up -/
theorem flags_flip_run (P : McParams) (gmin gmax : Int) (n : Nat) (ny nx : Nat) (scene : Nat → Nat → McCell) (p : Px) :
    flagStep P gmin gmax n (toImg ny nx (flipArr ny scene)) p
      = flagStep P gmin gmax n (toImg ny nx scene) ((ny : Int) - 1 - p.1, p.2) :=
  flip_run_eq (flagStep_equivariant P gmin gmax n) (flagStep_vflip P gmin gmax n) ny nx scene p

/-! ### the pipeline with the criteria flags -/

/-- **Vertical flip of the whole pipeline with the criteria flags**: only the aggregation step and the right
    map keep a hypothesis. -/
theorem pipeline_flip_flags (C : PipeCfg) {agg : AggStep} (hAe : Equivariant agg) (hA : VFlipOn agg)
    (doRefine doMedian : Bool) (hodd : doMedian = true → C.fs % 2 = 1)
    {dispR : Img McCell → Img Val} (hRe : Equivariant dispR) (hR : VFlipOn dispR)
    (V : CrossCheck.Variant) (CP : CrossCheck.Params)
    (ny nx : Nat) (scene : Nat → Nat → McCell) (p : Px) :
    ccStage C agg (pipeFlags C) doRefine doMedian dispR V CP (toImg ny nx (flipArr ny scene)) p
      = ccStage C agg (pipeFlags C) doRefine doMedian dispR V CP (toImg ny nx scene) ((ny : Int) - 1 - p.1, p.2) :=
  pipeline_flip C hAe hA (flagStep_equivariant C.mc C.gmin C.gmax C.n) (pipeFlags_vflip C) doRefine doMedian hodd
    hRe hR V CP ny nx scene p

/-- **… the right map being the same pipeline on the swapped pair** (configuration `C'`), with its criteria
    flags: only the aggregation step stays abstract. -/
theorem pipeline_flip_flags_both (C C' : PipeCfg) {agg : AggStep} (hAe : Equivariant agg) (hA : VFlipOn agg)
    (doRefine doMedian : Bool) (hodd : doMedian = true → C.fs % 2 = 1) (hodd' : doMedian = true → C'.fs % 2 = 1)
    (V : CrossCheck.Variant) (CP : CrossCheck.Params)
    (ny nx : Nat) (scene : Nat → Nat → McCell) (p : Px) :
    ccStage C agg (pipeFlags C) doRefine doMedian (rightDisp C' agg (pipeFlags C') doRefine doMedian) V CP
        (toImg ny nx (flipArr ny scene)) p
      = ccStage C agg (pipeFlags C) doRefine doMedian (rightDisp C' agg (pipeFlags C') doRefine doMedian) V CP
        (toImg ny nx scene) ((ny : Int) - 1 - p.1, p.2) :=
  pipeline_flip_lr C C' hAe hA (flagStep_equivariant C.mc C.gmin C.gmax C.n) (pipeFlags_vflip C)
    (flagStep_equivariant C'.mc C'.gmin C'.gmax C'.n) (pipeFlags_vflip C') doRefine doMedian hodd hodd'
    V CP ny nx scene p

/-- the filtered left map with the criteria flags (pipelines without cross-checking) -/
theorem filter_flip_flags (C : PipeCfg) {agg : AggStep} (hAe : Equivariant agg) (hA : VFlipOn agg)
    (doRefine doMedian : Bool) (hodd : doMedian = true → C.fs % 2 = 1)
    (ny nx : Nat) (scene : Nat → Nat → McCell) (p : Px) :
    filterStage C agg (pipeFlags C) doRefine doMedian (toImg ny nx (flipArr ny scene)) p
      = filterStage C agg (pipeFlags C) doRefine doMedian (toImg ny nx scene) ((ny : Int) - 1 - p.1, p.2) :=
  filter_flip C hAe hA (flagStep_equivariant C.mc C.gmin C.gmax C.n) (pipeFlags_vflip C) doRefine doMedian hodd
    ny nx scene p

/-! ### Non-vacuity: `exCfg` (sad, window 3, subpix 2, interval [-1, 1], vfit, median 3), no aggregation, criteria
    flags on both sides, cross-checking: no hypothesis is left, for every scene array -/

example (ny nx : Nat) (scene : Nat → Nat → McCell) (p : Px) :
    ccStage exCfg noAgg (pipeFlags exCfg) true true (rightDisp exCfg noAgg (pipeFlags exCfg) true true)
        .ruleFix C07.exParams (toImg ny nx (flipArr ny scene)) p
      = ccStage exCfg noAgg (pipeFlags exCfg) true true (rightDisp exCfg noAgg (pipeFlags exCfg) true true)
        .ruleFix C07.exParams (toImg ny nx scene) ((ny : Int) - 1 - p.1, p.2) :=
  pipeline_flip_flags_both exCfg exCfg noAgg_equivariant noAgg_vflip.toOn true true
    (fun _ => by decide) (fun _ => by decide) .ruleFix C07.exParams ny nx scene p

end Pandora.C13
