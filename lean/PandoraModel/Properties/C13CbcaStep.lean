/-
  C13 — cross-based cost aggregation as a `Local`, `Equivariant` step on partial images (clipped cones).

  "Window" construction.  For a partial image `a` (scene cell and cost row per pixel, `none` = outside the image) and a
  pixel `p`, the WINDOW is the cone of `p` clipped where the image stops: `u` rows are available above `p` (at most
  `Rv`), `dn` below, `l` columns to the left (at most `Rv + (−gmin)⁺`), `r` to the right (at most `Rv + gmax⁺`).  The
  window is a `Cbca.Input` of size `(u + 1 + dn) × (l + 1 + r)` and the step returns the prescribed aggregated costs
  (`specAgg`, C13CbcaClip) of the window's pixel `(u, l)`.  The border rules of the model (arm room up to the border of
  the aggregated area, copied one-pixel border of the 3×3 pre-filter, untouched margin, right images of width `W − 1`,
  no facing column) are those of the model itself, applied to the window.

    Rv = armBound dist + max 1 off   (`armBound dist = max (dist − 1) 1`, `off = offset_row_col`)
    cbcaCone Q = ⟨Rv, Rv, Rv + (−gmin)⁺, Rv + gmax⁺⟩

  * `cbcaStep_local`, `cbcaStep_equivariant`;
  * `cbcaStep_congr`         the COSTS are read only inside `Cone.square (armBound dist)`;
  * `aggregate_is_cbcaStep`  the step IS `Cbca.aggregate`, for every array size (through `specAgg_crop_eq_whole`);
  * `cbca_crop_run_eq_whole` crop run = whole run on arrays, clipped cones; the pipeline instances.
-/
import PandoraModel.Properties.C13CbcaClip
import PandoraModel.Properties.C13Pipeline

namespace Pandora.C13
open Pandora Pandora.Locality

/-! ### configuration, cone -/

/-- the configuration of the aggregation step (what is not per pixel): `offset_row_col`, `cbca_distance`,
    `cbca_intensity`, `subpix`, the minimum rule, the masks' conventions, the disparity samples (`n` of them, all in
    `[gmin, gmax]`) -/
structure CbcaParams where
  off : Nat
  dist : Nat
  I : Rat
  subpix : Nat
  mr : Cbca.MinRule
  hasMskL : Bool
  validL : Int
  hasMskR : Bool
  validR : Int
  disp : Nat → Rat
  n : Nat
  gmin : Int
  gmax : Int

/-- rows: the longest arm, plus the margin (or the 3×3 pre-filter when there is no margin) -/
def cbcaRv (Q : CbcaParams) : Nat := armBound Q.dist + max 1 Q.off

/-- **the cone of cross-based aggregation as a stand-alone step** -/
def cbcaCone (Q : CbcaParams) : Cone :=
  ⟨cbcaRv Q, cbcaRv Q, cbcaRv Q + (-Q.gmin).toNat, cbcaRv Q + Q.gmax.toNat⟩

/-- what the step reads at a pixel: the scene cell (images, masks) and the pixel's cost row -/
abbrev CbcaCell := McCell × List Val

/-! ### the view from a pixel, the window -/

/-- the image seen from a pixel: offset ↦ cell -/
abbrev View := Int → Int → Option CbcaCell

def view (a : Locality.Img CbcaCell) (p : Px) : View := fun di dj => a (p.1 + di, p.2 + dj)

/-- number of `k ∈ [1, n]` with `f k` -/
def avail (f : Nat → Bool) : Nat → Nat
  | 0 => 0
  | n + 1 => avail f n + (if f (n + 1) then 1 else 0)

theorem avail_le (f : Nat → Bool) : ∀ n, avail f n ≤ n := by
  intro n
  induction n with
  | zero => simp [avail]
  | succ n ih => unfold avail; split <;> omega

theorem avail_congr (f g : Nat → Bool) : ∀ n, (∀ k, 1 ≤ k → k ≤ n → f k = g k) → avail f n = avail g n := by
  intro n
  induction n with
  | zero => intro _; rfl
  | succ n ih =>
    intro h
    unfold avail
    rw [ih (fun k h1 h2 => h k h1 (by omega)), h (n + 1) (by omega) (by omega)]

theorem avail_eq_min (f : Nat → Bool) (m : Nat) :
    ∀ n, (∀ k, 1 ≤ k → k ≤ n → (f k = true ↔ k ≤ m)) → avail f n = min n m := by
  intro n
  induction n with
  | zero => intro _; simp [avail]
  | succ n ih =>
    intro h
    unfold avail
    rw [ih (fun k h1 h2 => h k h1 (by omega))]
    have := h (n + 1) (by omega) (by omega)
    by_cases hm : n + 1 ≤ m
    · rw [if_pos (this.2 hm)]; omega
    · rw [if_neg (fun hf => hm (this.1 hf))]; omega

/-- rows available above the pixel, at most `Rv` -/
def vUp (Q : CbcaParams) (v : View) : Nat := avail (fun k => (v (-(k : Int)) 0).isSome) (cbcaRv Q)
/-- rows available below -/
def vDn (Q : CbcaParams) (v : View) : Nat := avail (fun k => (v (k : Int) 0).isSome) (cbcaRv Q)
/-- columns available to the left, at most `Rv + (−gmin)⁺` -/
def vLf (Q : CbcaParams) (v : View) : Nat :=
  avail (fun k => (v 0 (-(k : Int))).isSome) (cbcaRv Q + (-Q.gmin).toNat)
/-- columns available to the right, at most `Rv + gmax⁺` -/
def vRt (Q : CbcaParams) (v : View) : Nat := avail (fun k => (v 0 (k : Int)).isSome) (cbcaRv Q + Q.gmax.toNat)

/-- cell `(i, j)` of the `H × W` window whose cell `(u, l)` is the pixel; nothing is read outside the window -/
def winCell (v : View) (u l H W i j : Nat) : Option CbcaCell :=
  if i < H ∧ j < W then v ((i : Int) - u) ((j : Int) - l) else none

def winScene (v : View) (u l H W i j : Nat) : McCell :=
  match winCell v u l H W i j with
  | some c => c.1
  | none => ⟨0, 0, 0, 0, 0, 0⟩

def winCv (v : View) (u l H W i j dsp : Nat) : Val :=
  match winCell v u l H W i j with
  | some c => c.2.getD dsp .nan
  | none => .nan

/-- an input of the model from a configuration, a size, a scene and a cost volume -/
def mkInp (Q : CbcaParams) (H W : Nat) (sc : Nat → Nat → McCell) (cv : Nat → Nat → Nat → Val) : Cbca.Input where
  H := H
  W := W
  off := Q.off
  imL := fun i j => (sc i j).l
  hasMskL := Q.hasMskL
  mskL := fun i j => (sc i j).ml
  validL := Q.validL
  imR := fun i j => (sc i j).r
  hasMskR := Q.hasMskR
  mskR := fun i j => (sc i j).mr
  validR := Q.validR
  dist := Q.dist
  I := Q.I
  subpix := Q.subpix
  disp := Q.disp
  cv := cv
  mr := Q.mr

/-- the window of a pixel as an input of the model -/
def windowInput (Q : CbcaParams) (v : View) : Cbca.Input :=
  mkInp Q (vUp Q v + 1 + vDn Q v) (vLf Q v + 1 + vRt Q v)
    (winScene v (vUp Q v) (vLf Q v) (vUp Q v + 1 + vDn Q v) (vLf Q v + 1 + vRt Q v))
    (winCv v (vUp Q v) (vLf Q v) (vUp Q v + 1 + vDn Q v) (vLf Q v + 1 + vRt Q v))

/-- the aggregated cost row of the pixel the view is taken from -/
def cbcaAt (Q : CbcaParams) (v : View) : List Val :=
  (List.range Q.n).map fun dsp => specAgg (windowInput Q v) (vUp Q v) (vLf Q v) dsp

/-- **Cross-based cost aggregation on partial images.** -/
def cbcaStep (Q : CbcaParams) : AggStep := fun a p => (a p).map fun _ => cbcaAt Q (view a p)

/-! ### what the step reads -/

/-- the offset lies in the cone -/
def InView (Q : CbcaParams) (di dj : Int) : Prop :=
  -(cbcaRv Q : Int) ≤ di ∧ di ≤ cbcaRv Q ∧ -((cbcaRv Q + (-Q.gmin).toNat : Nat) : Int) ≤ dj ∧
    dj ≤ ((cbcaRv Q + Q.gmax.toNat : Nat) : Int)

theorem isSome_of_map_fst {v w : Option CbcaCell} (h : v.map Prod.fst = w.map Prod.fst) : v.isSome = w.isSome := by
  have := congrArg Option.isSome h
  simpa using this

/-- **What the step reads, exactly**: the scene cells and "is in the image" inside the cone; the cost rows inside
    the square of radius `armBound dist`. -/
theorem cbcaAt_congr (Q : CbcaParams) (v w : View)
    (h1 : ∀ di dj, InView Q di dj → (v di dj).map Prod.fst = (w di dj).map Prod.fst)
    (h2 : ∀ di dj : Int, -(armBound Q.dist : Int) ≤ di → di ≤ armBound Q.dist → -(armBound Q.dist : Int) ≤ dj →
      dj ≤ armBound Q.dist → v di dj = w di dj) :
    cbcaAt Q v = cbcaAt Q w := by
  have hu : vUp Q v = vUp Q w := by
    unfold vUp
    apply avail_congr
    intro k hk1 hk2
    exact isSome_of_map_fst (h1 _ _ (by unfold InView; omega))
  have hd : vDn Q v = vDn Q w := by
    unfold vDn
    apply avail_congr
    intro k hk1 hk2
    exact isSome_of_map_fst (h1 _ _ (by unfold InView; omega))
  have hl : vLf Q v = vLf Q w := by
    unfold vLf
    apply avail_congr
    intro k hk1 hk2
    exact isSome_of_map_fst (h1 _ _ (by unfold InView; omega))
  have hr : vRt Q v = vRt Q w := by
    unfold vRt
    apply avail_congr
    intro k hk1 hk2
    exact isSome_of_map_fst (h1 _ _ (by unfold InView; omega))
  have bu := avail_le (fun k => (w (-(k : Int)) 0).isSome) (cbcaRv Q)
  have bd := avail_le (fun k => (w (k : Int) 0).isSome) (cbcaRv Q)
  have bl := avail_le (fun k => (w 0 (-(k : Int))).isSome) (cbcaRv Q + (-Q.gmin).toNat)
  have br := avail_le (fun k => (w 0 (k : Int)).isSome) (cbcaRv Q + Q.gmax.toNat)
  change vUp Q w ≤ _ at bu
  change vDn Q w ≤ _ at bd
  change vLf Q w ≤ _ at bl
  change vRt Q w ≤ _ at br
  unfold cbcaAt windowInput
  rw [hu, hd, hl, hr]
  generalize vUp Q w = u at *
  generalize vDn Q w = dn at *
  generalize vLf Q w = l at *
  generalize vRt Q w = r at *
  have hsc : winScene v u l (u + 1 + dn) (l + 1 + r) = winScene w u l (u + 1 + dn) (l + 1 + r) := by
    funext i j
    unfold winScene winCell
    by_cases hg : i < u + 1 + dn ∧ j < l + 1 + r
    · rw [if_pos hg, if_pos hg]
      have := h1 ((i : Int) - u) ((j : Int) - l) (by unfold InView; omega)
      cases hv : v ((i : Int) - u) ((j : Int) - l) <;> cases hw : w ((i : Int) - u) ((j : Int) - l) <;>
        simp [hv, hw] at this ⊢
      exact this
    · rw [if_neg hg, if_neg hg]
  rw [hsc]
  apply List.map_congr_left
  intro dsp _
  apply specAgg_cv_congr (mkInp Q (u + 1 + dn) (l + 1 + r) (winScene w u l (u + 1 + dn) (l + 1 + r))
    (winCv v u l (u + 1 + dn) (l + 1 + r))) (winCv w u l (u + 1 + dn) (l + 1 + r)) dsp u l
  intro i j hi1 hi2 hj1 hj2
  show winCv v u l (u + 1 + dn) (l + 1 + r) i j dsp = winCv w u l (u + 1 + dn) (l + 1 + r) i j dsp
  change u - armBound Q.dist ≤ i at hi1
  change i ≤ u + armBound Q.dist at hi2
  change l - armBound Q.dist ≤ j at hj1
  change j ≤ l + armBound Q.dist at hj2
  unfold winCv winCell
  by_cases hg : i < u + 1 + dn ∧ j < l + 1 + r
  · rw [if_pos hg, if_pos hg, h2 ((i : Int) - u) ((j : Int) - l) (by omega) (by omega) (by omega) (by omega)]
  · rw [if_neg hg, if_neg hg]

theorem armBound_le_cbcaRv (Q : CbcaParams) : armBound Q.dist ≤ cbcaRv Q := by unfold cbcaRv; omega

/-- **Cross-based aggregation is local**, with the cone `cbcaCone`. -/
theorem cbcaStep_local (Q : CbcaParams) : Local (cbcaCone Q) (cbcaStep Q) := by
  intro a b p hab
  unfold cbcaStep
  rw [hab p (inCone_self _ p)]
  congr 1
  funext _
  have hb := armBound_le_cbcaRv Q
  apply cbcaAt_congr
  · intro di dj hin
    unfold view
    rw [hab (p.1 + di, p.2 + dj) (by unfold InView at hin; unfold inCone cbcaCone; simp only; omega)]
  · intro di dj h1 h2 h3 h4
    unfold view
    rw [hab (p.1 + di, p.2 + dj) (by unfold inCone cbcaCone; simp only; omega)]

/-- **The costs are read only inside the square of radius `armBound dist`**: two inputs that have the same scene
    cells (images, masks) and the same domain inside `cbcaCone`, and the same cells, cost rows included, inside
    `Cone.square (armBound dist)`, give the same aggregated cost row at the pixel. -/
theorem cbcaStep_congr (Q : CbcaParams) (a b : Locality.Img CbcaCell) (p : Px)
    (h1 : ∀ q, inCone (cbcaCone Q) p q → (a q).map Prod.fst = (b q).map Prod.fst)
    (h2 : ∀ q, inCone (Cone.square (armBound Q.dist)) p q → a q = b q) :
    cbcaStep Q a p = cbcaStep Q b p := by
  unfold cbcaStep
  rw [h2 p (inCone_self _ p)]
  congr 1
  funext _
  apply cbcaAt_congr
  · intro di dj hin
    unfold view
    exact h1 (p.1 + di, p.2 + dj) (by unfold InView at hin; unfold inCone cbcaCone; simp only; omega)
  · intro di dj h1' h2' h3 h4
    unfold view
    exact h2 (p.1 + di, p.2 + dj) (by unfold inCone Cone.square; simp only; omega)

theorem view_shift (t : Px) (a : Locality.Img CbcaCell) (p : Px) :
    view (shift t a) p = view a (p.1 + t.1, p.2 + t.2) := by
  funext di dj
  unfold view shift
  congr 1
  ext <;> simp <;> omega

/-- **Cross-based aggregation does not look at absolute positions.** -/
theorem cbcaStep_equivariant (Q : CbcaParams) : Equivariant (cbcaStep Q) := by
  intro t a
  funext p
  unfold cbcaStep
  rw [view_shift]
  rfl

/-! ### identification with the model -/

/-- the scene of an input of the model as an array of cells (the disparity interval fields of `McCell` are not read) -/
def cbcaScene (inp : Cbca.Input) (n : Nat) : Nat → Nat → CbcaCell := fun y x =>
  (⟨inp.imL y x, inp.imR y x, inp.mskL y x, inp.mskR y x, 0, 0⟩, (List.range n).map (inp.cv y x))

/-- the configuration read off an input of the model -/
def cbcaParamsOf (inp : Cbca.Input) (n : Nat) (gmin gmax : Int) : CbcaParams :=
  ⟨inp.off, inp.dist, inp.I, inp.subpix, inp.mr, inp.hasMskL, inp.validL, inp.hasMskR, inp.validR, inp.disp, n,
    gmin, gmax⟩

theorem view_toImg {α : Type} (H W : Nat) (sc : Nat → Nat → α) (y x u l i j : Nat) (hu : u ≤ y) (hl : l ≤ x)
    (hi : i + (y - u) < H) (hj : j + (x - l) < W) :
    toImg H W sc ((y : Int) + ((i : Int) - u), (x : Int) + ((j : Int) - l)) = some (sc (i + (y - u)) (j + (x - l))) := by
  have e : (((y : Int) + ((i : Int) - u), (x : Int) + ((j : Int) - l)) : Px)
      = (((i + (y - u) : Nat) : Int), ((j + (x - l) : Nat) : Int)) := by
    ext <;> simp <;> omega
  rw [e, toImg_some _ _ _ _ _ hi hj]

theorem toImg_isSome_iff {α : Type} (H W : Nat) (sc : Nat → Nat → α) (q : Px) :
    (toImg H W sc q).isSome = true ↔ (0 ≤ q.1 ∧ q.1 < H ∧ 0 ≤ q.2 ∧ q.2 < W) := by
  unfold toImg
  by_cases h : 0 ≤ q.1 ∧ q.1 < H ∧ 0 ≤ q.2 ∧ q.2 < W <;> simp [h]

/-- the window sizes of an array pixel: the cone clipped by the array -/
theorem window_sizes (Q : CbcaParams) (H W : Nat) (sc : Nat → Nat → CbcaCell) (y x : Nat) (hy : y < H) (hx : x < W) :
    vUp Q (view (toImg H W sc) ((y : Int), (x : Int))) = min (cbcaRv Q) y ∧
    vDn Q (view (toImg H W sc) ((y : Int), (x : Int))) = min (cbcaRv Q) (H - 1 - y) ∧
    vLf Q (view (toImg H W sc) ((y : Int), (x : Int))) = min (cbcaRv Q + (-Q.gmin).toNat) x ∧
    vRt Q (view (toImg H W sc) ((y : Int), (x : Int))) = min (cbcaRv Q + Q.gmax.toNat) (W - 1 - x) := by
  refine ⟨?_, ?_, ?_, ?_⟩
  · unfold vUp
    apply avail_eq_min
    intro k _ _
    unfold view
    rw [toImg_isSome_iff]
    simp only
    omega
  · unfold vDn
    apply avail_eq_min
    intro k _ _
    unfold view
    rw [toImg_isSome_iff]
    simp only
    omega
  · unfold vLf
    apply avail_eq_min
    intro k _ _
    unfold view
    rw [toImg_isSome_iff]
    simp only
    omega
  · unfold vRt
    apply avail_eq_min
    intro k _ _
    unfold view
    rw [toImg_isSome_iff]
    simp only
    omega

/-- a fractional disparity `d ≤ gmax` (it uses an interpolated right image) has `⌊d⌋ + 1 ≤ gmax` -/
theorem floor_add_frac_le (subpix : Nat) (d : ℚ) (gmax : Int) (h : d ≤ (gmax : ℚ)) :
    d.floor + (fracK (Cbca.iRight subpix d) : Nat) ≤ gmax := by
  have hfl : d.floor ≤ gmax := by
    have := Rat.floor_le d
    have h' : ((d.floor : Int) : ℚ) ≤ (gmax : ℚ) := le_trans this h
    exact_mod_cast h'
  unfold fracK
  split
  · simpa using hfl
  · rename_i hne
    by_contra hcon
    have heq : d.floor = gmax := by push_cast at hcon; omega
    have hd : d = (d.floor : ℚ) := by
      have := Rat.floor_le d
      rw [heq] at this ⊢
      exact le_antisymm h this
    apply hne
    unfold Cbca.iRight
    rw [show d - (d.floor : ℚ) = 0 by linarith]
    simp only [zero_mul]
    decide

/-- the window of an array pixel is a crop of the array's input -/
theorem window_cropOf (inp : Cbca.Input) (n : Nat) (gmin gmax : Int) (y x u dn l r : Nat)
    (hu : u ≤ y) (hl : l ≤ x) (hdn : y + dn < inp.H) (hr : x + r < inp.W) (v : View)
    (hv : ∀ i j, i < u + 1 + dn → j < l + 1 + r →
      v ((i : Int) - u) ((j : Int) - l) = some (cbcaScene inp n (i + (y - u)) (j + (x - l)))) :
    CropOf inp (mkInp (cbcaParamsOf inp n gmin gmax) (u + 1 + dn) (l + 1 + r)
      (winScene v u l (u + 1 + dn) (l + 1 + r)) (winCv v u l (u + 1 + dn) (l + 1 + r))) (y - u) (x - l) := by
  have hsc : ∀ i j, i < u + 1 + dn → j < l + 1 + r →
      winScene v u l (u + 1 + dn) (l + 1 + r) i j = (cbcaScene inp n (i + (y - u)) (j + (x - l))).1 := by
    intro i j hi hj
    unfold winScene winCell
    rw [if_pos ⟨hi, hj⟩, hv i j hi hj]
  refine ⟨rfl, rfl, rfl, rfl, rfl, rfl, rfl, rfl, rfl, ?_, ?_, ?_, ?_, ?_, ?_⟩
  · show y - u + (u + 1 + dn) ≤ inp.H
    omega
  · show x - l + (l + 1 + r) ≤ inp.W
    omega
  · intro i j hi hj
    show (winScene v u l (u + 1 + dn) (l + 1 + r) i j).l = _
    rw [hsc i j hi hj]; rfl
  · intro i j hi hj
    show (winScene v u l (u + 1 + dn) (l + 1 + r) i j).ml = _
    rw [hsc i j hi hj]; rfl
  · intro i j hi hj
    show (winScene v u l (u + 1 + dn) (l + 1 + r) i j).r = _
    rw [hsc i j hi hj]; rfl
  · intro i j hi hj
    show (winScene v u l (u + 1 + dn) (l + 1 + r) i j).mr = _
    rw [hsc i j hi hj]; rfl

/-- the window of an array pixel, with the side conditions of `specAgg_crop_eq_whole`, has at its pixel `(u, l)` the
    prescribed aggregated cost of the array's pixel -/
theorem window_specAgg (inp : Cbca.Input) (n : Nat) (gmin gmax : Int) (y x u dn l r : Nat)
    (hu : u ≤ y) (hl : l ≤ x) (hdn : y + dn < inp.H) (hr : x + r < inp.W) (v : View)
    (hv : ∀ i j, i < u + 1 + dn → j < l + 1 + r →
      v ((i : Int) - u) ((j : Int) - l) = some (cbcaScene inp n (i + (y - u)) (j + (x - l))))
    (dsp : Nat) (hdsp : dsp < n)
    (sT : y - u = 0 ∨ armBound inp.dist + max 1 inp.off ≤ u)
    (sB : y - u + (u + 1 + dn) = inp.H ∨ u + armBound inp.dist + max 1 inp.off < u + 1 + dn)
    (sL : x - l = 0 ∨ armBound inp.dist + max 1 inp.off + (-(inp.disp dsp).floor).toNat ≤ l)
    (sR : x - l + (l + 1 + r) = inp.W ∨ l + armBound inp.dist + max 1 inp.off
      + ((inp.disp dsp).floor + (fracK (Cbca.iRight inp.subpix (inp.disp dsp)) : Nat)).toNat < l + 1 + r) :
    specAgg (mkInp (cbcaParamsOf inp n gmin gmax) (u + 1 + dn) (l + 1 + r)
      (winScene v u l (u + 1 + dn) (l + 1 + r)) (winCv v u l (u + 1 + dn) (l + 1 + r))) u l dsp
      = specAgg inp y x dsp := by
  have hc := window_cropOf inp n gmin gmax y x u dn l r hu hl hdn hr v hv
  have key := specAgg_crop_eq_whole inp _ _ _ hc dsp dsp rfl
    (by
      intro i j hi hj
      show winCv _ _ _ _ _ i j dsp = _
      unfold winCv winCell
      change i < u + 1 + dn at hi
      change j < l + 1 + r at hj
      rw [if_pos ⟨hi, hj⟩, hv i j hi hj]
      simp only [cbcaScene]
      simp [List.getD_eq_getElem?_getD, hdsp])
    u l (by show u < u + 1 + dn; omega) (by show l < l + 1 + r; omega) sT sB sL sR
  rw [key]
  congr 1 <;> omega

/-! arithmetic of the window of an array pixel: the side conditions of `specAgg_crop_eq_whole` hold by construction -/

theorem win_lo (R p : Nat) : min R p ≤ p ∧ (p - min R p = 0 ∨ R ≤ min R p) := by omega

theorem win_hi (R n p : Nat) (hp : p < n) :
    p + min R (n - 1 - p) < n ∧ (p + 1 + min R (n - 1 - p) = n ∨ R ≤ min R (n - 1 - p)) := by omega

theorem win_conv_lo (p u R R' : Nat) (h : p - u = 0 ∨ R ≤ u) (hR : R' ≤ R) : p - u = 0 ∨ R' ≤ u := by omega

theorem win_conv_hi (p u r n R R' : Nat) (hu : u ≤ p) (h : p + 1 + r = n ∨ R ≤ r) (hR : R' ≤ R) :
    p - u + (u + 1 + r) = n ∨ u + R' < u + 1 + r := by omega

/-- **The step IS the model**, for every array size: `Cbca.aggregate` (all planes `dsp < n`) on an `H × W` input is
    `cbcaStep` on the partial image of its scene and cost rows.  Hypotheses: `nanOutside` for every plane (hypothesis
    of C11's theorem: the costs are NaN where the disparity has no facing column), every sampled disparity in
    `[gmin, gmax]`. -/
theorem aggregate_is_cbcaStep (inp : Cbca.Input) (n : Nat) (gmin gmax : Int)
    (hN : ∀ dsp, dsp < n → Cbca.nanOutside (inp.plane dsp) = true)
    (hg : ∀ dsp, dsp < n → (gmin : ℚ) ≤ inp.disp dsp ∧ inp.disp dsp ≤ (gmax : ℚ)) :
    toImg inp.H inp.W (fun y x => (List.range n).map (Cbca.aggregate inp y x))
      = cbcaStep (cbcaParamsOf inp n gmin gmax) (toImg inp.H inp.W (cbcaScene inp n)) := by
  funext p
  unfold cbcaStep
  by_cases hp : 0 ≤ p.1 ∧ p.1 < inp.H ∧ 0 ≤ p.2 ∧ p.2 < inp.W
  · obtain ⟨y, hy⟩ : ∃ y : Nat, p.1 = (y : Int) := ⟨p.1.toNat, by omega⟩
    obtain ⟨x, hx⟩ : ∃ x : Nat, p.2 = (x : Int) := ⟨p.2.toNat, by omega⟩
    have hpe : p = ((y : Int), (x : Int)) := by ext <;> simp [hy, hx]
    subst hpe
    have hyH : y < inp.H := by omega
    have hxW : x < inp.W := by omega
    rw [toImg_some _ _ _ y x hyH hxW, toImg_some _ _ _ y x hyH hxW]
    simp only [Option.map_some]
    congr 1
    unfold cbcaAt windowInput
    obtain ⟨eu, ed, el, er⟩ := window_sizes (cbcaParamsOf inp n gmin gmax) inp.H inp.W (cbcaScene inp n) y x hyH hxW
    rw [eu, ed, el, er]
    have hRv : cbcaRv (cbcaParamsOf inp n gmin gmax) = armBound inp.dist + max 1 inp.off := rfl
    have hgm : (cbcaParamsOf inp n gmin gmax).gmin = gmin := rfl
    have hgM : (cbcaParamsOf inp n gmin gmax).gmax = gmax := rfl
    rw [hgm, hgM, hRv]
    clear eu ed el er
    obtain ⟨hu, sT⟩ := win_lo (armBound inp.dist + max 1 inp.off) y
    obtain ⟨hdn, sB⟩ := win_hi (armBound inp.dist + max 1 inp.off) inp.H y hyH
    obtain ⟨hl, sL⟩ := win_lo (armBound inp.dist + max 1 inp.off + (-gmin).toNat) x
    obtain ⟨hr, sR⟩ := win_hi (armBound inp.dist + max 1 inp.off + gmax.toNat) inp.W x hxW
    have hv : ∀ u l i j : Nat, u ≤ y → l ≤ x → i + (y - u) < inp.H → j + (x - l) < inp.W →
        view (toImg inp.H inp.W (cbcaScene inp n)) ((y : Int), (x : Int)) ((i : Int) - u) ((j : Int) - l)
          = some (cbcaScene inp n (i + (y - u)) (j + (x - l))) := by
      intro u l i j h1 h2 h3 h4
      unfold view
      exact view_toImg _ _ _ y x u l i j h1 h2 h3 h4
    generalize view (toImg inp.H inp.W (cbcaScene inp n)) ((y : Int), (x : Int)) = v at *
    generalize min (armBound inp.dist + max 1 inp.off) y = u at *
    generalize min (armBound inp.dist + max 1 inp.off) (inp.H - 1 - y) = dn at *
    generalize min (armBound inp.dist + max 1 inp.off + (-gmin).toNat) x = l at *
    generalize min (armBound inp.dist + max 1 inp.off + gmax.toNat) (inp.W - 1 - x) = r at *
    apply List.map_congr_left
    intro dsp hdsp
    rw [List.mem_range] at hdsp
    rw [aggregate_eq_specAgg inp dsp (hN dsp hdsp)]
    have hfl : gmin ≤ (inp.disp dsp).floor := Rat.le_floor_iff.mpr (hg dsp hdsp).1
    have hfr := floor_add_frac_le inp.subpix (inp.disp dsp) gmax (hg dsp hdsp).2
    have sB' := win_conv_hi y u dn inp.H _ (armBound inp.dist + max 1 inp.off) hu sB (Nat.le_refl _)
    have sL' := win_conv_lo x l _ (armBound inp.dist + max 1 inp.off + (-(inp.disp dsp).floor).toNat) sL (by omega)
    have sR' := win_conv_hi x l r inp.W _ (armBound inp.dist + max 1 inp.off
      + ((inp.disp dsp).floor + (fracK (Cbca.iRight inp.subpix (inp.disp dsp)) : Nat)).toNat) hl sR (by omega)
    exact (window_specAgg inp n gmin gmax y x u dn l r hu hl hdn hr v
      (fun i j hi hj => hv u l i j hu hl (by omega) (by omega)) dsp hdsp sT
      (by clear sT sB sL sR sL' sR'; omega) sL'
      (by clear sT sB sL sR sL' sB'; omega)).symm
  · rw [toImg_none _ _ _ p hp, toImg_none _ _ _ p hp]
    rfl

/-! ### crop run = whole run on arrays, clipped cones -/

theorem cbcaScene_crop (inp inp' : Cbca.Input) (n r0 c0 : Nat) (hc : CropOf inp inp' r0 c0)
    (hcv : ∀ y x dsp, y < inp'.H → x < inp'.W → dsp < n → inp'.cv y x dsp = inp.cv (y + r0) (x + c0) dsp) :
    toImg inp'.H inp'.W (cbcaScene inp' n) = toImg inp'.H inp'.W (cropArr r0 c0 (cbcaScene inp n)) := by
  apply toImg_congr
  intro r c hr hc'
  unfold cropArr cbcaScene
  rw [hc.imL r c hr hc', hc.imR r c hr hc', hc.mskL r c hr hc', hc.mskR r c hr hc']
  congr 1
  apply List.map_congr_left
  intro dsp hdsp
  exact hcv r c dsp hr hc' (List.mem_range.1 hdsp)

theorem cbcaParamsOf_crop (inp inp' : Cbca.Input) (n : Nat) (gmin gmax : Int) (r0 c0 : Nat)
    (hc : CropOf inp inp' r0 c0) (hdisp : inp'.disp = inp.disp) :
    cbcaParamsOf inp' n gmin gmax = cbcaParamsOf inp n gmin gmax := by
  unfold cbcaParamsOf
  rw [hc.off, hc.dist, hc.I, hc.subpix, hc.mr, hc.hasMskL, hc.validL, hc.hasMskR, hc.validR, hdisp]

/-- **Cross-based aggregation, crop run = whole run on arrays** (the model `Cbca.aggregate` on both sides), through
    the step: `inp'` is the crop `[r0, r0 + H') × [c0, c0 + W')` of `inp` (same configuration, same disparity samples,
    same costs), `nanOutside` for the planes of both, every sample in `[gmin, gmax]`.  Every pixel `(r, c)` of the crop
    whose cone `cbcaCone`, clipped to the image, lies in the crop gets the aggregated cost row of the whole run. -/
theorem cbca_crop_run_eq_whole (inp inp' : Cbca.Input) (n : Nat) (gmin gmax : Int) (r0 c0 : Nat)
    (hc : CropOf inp inp' r0 c0) (hdisp : inp'.disp = inp.disp)
    (hcv : ∀ y x dsp, y < inp'.H → x < inp'.W → dsp < n → inp'.cv y x dsp = inp.cv (y + r0) (x + c0) dsp)
    (hN : ∀ dsp, dsp < n → Cbca.nanOutside (inp.plane dsp) = true)
    (hN' : ∀ dsp, dsp < n → Cbca.nanOutside (inp'.plane dsp) = true)
    (hg : ∀ dsp, dsp < n → (gmin : ℚ) ≤ inp.disp dsp ∧ inp.disp dsp ≤ (gmax : ℚ))
    (r c : Nat) (hr : r < inp'.H) (hcW : c < inp'.W)
    (hcone : ∀ q, inCone (cbcaCone (cbcaParamsOf inp n gmin gmax)) ((r : Int) + r0, (c : Int) + c0) q →
      InRect r0 c0 inp'.H inp'.W q ∨ ¬ InImage inp.H inp.W q)
    (dsp : Nat) (hdsp : dsp < n) :
    Cbca.aggregate inp' r c dsp = Cbca.aggregate inp (r + r0) (c + c0) dsp := by
  have h1 := congrFun (aggregate_is_cbcaStep inp' n gmin gmax hN' (by rw [hdisp]; exact hg)) ((r : Int), (c : Int))
  have h2 := congrFun (aggregate_is_cbcaStep inp n gmin gmax hN hg) (((r + r0 : Nat) : Int), ((c + c0 : Nat) : Int))
  have h3 := crop_run_eq_whole (cbcaStep_local (cbcaParamsOf inp n gmin gmax))
    (cbcaStep_equivariant (cbcaParamsOf inp n gmin gmax)) inp.H inp.W r0 c0 inp'.H inp'.W (cbcaScene inp n)
    ⟨hc.fitH, hc.fitW⟩ ((r : Int), (c : Int)) hcone
  have hfH := hc.fitH
  have hfW := hc.fitW
  rw [cbcaParamsOf_crop inp inp' n gmin gmax r0 c0 hc hdisp, cbcaScene_crop inp inp' n r0 c0 hc hcv, h3,
    toImg_some _ _ _ r c hr hcW] at h1
  rw [toImg_some _ _ _ (r + r0) (c + c0) (by omega) (by omega)] at h2
  have e : ((((r : Int), (c : Int)) : Px).1 + (r0 : Int), (((r : Int), (c : Int)) : Px).2 + (c0 : Int))
      = ((((r + r0 : Nat) : Int)), (((c + c0 : Nat) : Int))) := by
    ext <;> simp
  rw [e, ← h2] at h1
  have h4 := Option.some.inj h1
  exact List.map_inj_left.1 h4 dsp (List.mem_range.2 hdsp)

/-! ### the pipeline with cross-based aggregation -/

/-- **`agg := cbcaStep Q` in the pipeline theorem**: crop run = whole run for
    `[matching cost; cbca; wta; (refinement); (median); cross-checking]`, aggregation cone `cbcaCone Q`. -/
theorem pipeline_cbca_crop_eq_whole (C : PipeCfg) (hsp : 0 < C.mc.sp)
    (hn : ∀ j : Nat, j < C.n → C.gmin * (C.mc.sp : Int) + j ≤ C.gmax * (C.mc.sp : Int)) (Q : CbcaParams)
    {flagL : Locality.Img McCell → Locality.Img Nat} {Rf : Cone} (hF : Local Rf flagL) (hFe : Equivariant flagL)
    (doRefine doMedian : Bool)
    {dispR : Locality.Img McCell → Locality.Img Val} {Rr : Cone} (hR : Local Rr dispR) (hRe : Equivariant dispR)
    (V : CrossCheck.Variant) (CP : CrossCheck.Params)
    (ny nx r0 c0 ny' nx' : Nat) (scene : Nat → Nat → McCell) (hfit : r0 + ny' ≤ ny ∧ c0 + nx' ≤ nx) (p : Px)
    (hcone : ∀ q, inCone (pipeCone C (cbcaCone Q) Rf Rr doMedian CP) (p.1 + r0, p.2 + c0) q →
      InRect r0 c0 ny' nx' q ∨ ¬ InImage ny nx q) :
    ccStage C (cbcaStep Q) flagL doRefine doMedian dispR V CP (toImg ny' nx' (cropArr r0 c0 scene)) p
      = ccStage C (cbcaStep Q) flagL doRefine doMedian dispR V CP (toImg ny nx scene) (p.1 + r0, p.2 + c0) :=
  pipeline_crop_eq_whole C hsp hn (cbcaStep_local Q) (cbcaStep_equivariant Q) hF hFe doRefine doMedian hR hRe V CP
    ny nx r0 c0 ny' nx' scene hfit p hcone

/-- … and for the filtered left disparity and flags (pipelines without cross-checking) -/
theorem filter_cbca_crop_eq_whole (C : PipeCfg) (hsp : 0 < C.mc.sp)
    (hn : ∀ j : Nat, j < C.n → C.gmin * (C.mc.sp : Int) + j ≤ C.gmax * (C.mc.sp : Int)) (Q : CbcaParams)
    {flagL : Locality.Img McCell → Locality.Img Nat} {Rf : Cone} (hF : Local Rf flagL) (hFe : Equivariant flagL)
    (doRefine doMedian : Bool)
    (ny nx r0 c0 ny' nx' : Nat) (scene : Nat → Nat → McCell) (hfit : r0 + ny' ≤ ny ∧ c0 + nx' ≤ nx) (p : Px)
    (hcone : ∀ q, inCone (filterCone C (cbcaCone Q) Rf doMedian) (p.1 + r0, p.2 + c0) q →
      InRect r0 c0 ny' nx' q ∨ ¬ InImage ny nx q) :
    filterStage C (cbcaStep Q) flagL doRefine doMedian (toImg ny' nx' (cropArr r0 c0 scene)) p
      = filterStage C (cbcaStep Q) flagL doRefine doMedian (toImg ny nx scene) (p.1 + r0, p.2 + c0) :=
  filter_crop_eq_whole C hsp hn (cbcaStep_local Q) (cbcaStep_equivariant Q) hF hFe doRefine doMedian
    ny nx r0 c0 ny' nx' scene hfit p hcone

/-! ### matching cost + cbca: the composed cone is NOT the sum of the cones (the costs are read within `armBound`) -/

/-- the cone of `[matching cost; cbca]`: the scene inside `cbcaCone`, the costs — hence the scene inside the
    matching-cost cone — of the pixels within `armBound dist` -/
def cbcaCostCone (C : PipeCfg) (Q : CbcaParams) : Cone :=
  (cbcaCone Q).sup ((mcCone C.mc C.gmin C.gmax).add (Cone.square (armBound Q.dist)))

theorem pairStep_id_fst {α β : Type} (g : Locality.Img α → Locality.Img β) (a : Locality.Img α) (q : Px)
    (hdom : (g a q).isSome = (a q).isSome) :
    (pairStep (fun a => a) g a q).map Prod.fst = a q := by
  unfold pairStep
  cases ha : a q <;> cases hg : g a q <;> simp [ha, hg] at hdom ⊢

theorem mcStage_isSome (C : PipeCfg) (a : Locality.Img McCell) (q : Px) : (mcStage C a q).isSome = (a q).isSome := by
  unfold mcStage mcRowStep
  simp

/-- **Matching cost followed by cross-based aggregation is local with `cbcaCone ⊔ (mcCone + square (armBound dist))`**
    (from `cbcaStep_congr`), smaller than the sum `mcCone + cbcaCone` given by `costStage_local`. -/
theorem costStage_cbca_local (C : PipeCfg) (hsp : 0 < C.mc.sp)
    (hn : ∀ j : Nat, j < C.n → C.gmin * (C.mc.sp : Int) + j ≤ C.gmax * (C.mc.sp : Int)) (Q : CbcaParams) :
    Local (cbcaCostCone C Q) (costStage C (cbcaStep Q)) := by
  intro a b p hab
  unfold costStage
  apply cbcaStep_congr
  · intro q hq
    have hq' : a q = b q := hab q (inCone_mono (by simp [cbcaCostCone, Cone.sup]) hq)
    rw [pairStep_id_fst _ a q (mcStage_isSome C a q), pairStep_id_fst _ b q (mcStage_isSome C b q), hq']
  · intro q hq
    have hl := pairStep_local (id_local (α := McCell))
      (Local.map (mcRowStep_local C.mc hsp C.gmin C.gmax C.n hn) (List.map C.ev))
    apply hl
    intro r hr
    apply hab
    unfold inCone cbcaCostCone Cone.sup Cone.add Cone.square Cone.zero at *
    simp only at *
    omega

/-- **The documented composed cone `w/2 + armBound dist + 1`**: with `offset_row_col = w/2` and the interval of the
    matching cost, `[matching cost; cbca]` reads rows within `w/2 + armBound dist + 1`, columns within that extended
    by the interval. -/
theorem cbcaCostCone_documented (C : PipeCfg) (Q : CbcaParams) (hoff : Q.off = MC.half C.mc.w)
    (hmin : Q.gmin = C.gmin) (hmax : Q.gmax = C.gmax) :
    Cone.le (cbcaCostCone C Q)
      ⟨MC.half C.mc.w + armBound Q.dist + 1, MC.half C.mc.w + armBound Q.dist + 1,
       MC.half C.mc.w + armBound Q.dist + 1 + (-C.gmin).toNat, MC.half C.mc.w + armBound Q.dist + 1 + C.gmax.toNat⟩ := by
  unfold Cone.le cbcaCostCone cbcaCone cbcaRv mcCone Cone.sup Cone.add Cone.square
  simp only [hoff, hmin, hmax]
  omega

/-- the stand-alone cone is within `off + armBound dist + 1` (rows), extended by the interval (columns) -/
theorem cbcaCone_le (Q : CbcaParams) :
    Cone.le (cbcaCone Q) ⟨Q.off + armBound Q.dist + 1, Q.off + armBound Q.dist + 1,
      Q.off + armBound Q.dist + 1 + (-Q.gmin).toNat, Q.off + armBound Q.dist + 1 + Q.gmax.toNat⟩ := by
  unfold Cone.le cbcaCone cbcaRv
  simp only
  omega

/-! ### Non-vacuity -/

/-- `cbcaStep_congr` on arrays: changing the cost volume anywhere outside the square of radius `armBound dist` around
    a pixel does not change the pixel's aggregated cost row -/
theorem cbcaStep_costs_outside_irrelevant (Q : CbcaParams) (inp : Cbca.Input) (cv2 : Nat → Nat → Nat → Val) (n y x : Nat)
    (h : ∀ i j dsp : Nat, (y : Int) - armBound Q.dist ≤ i → (i : Int) ≤ y + armBound Q.dist →
      (x : Int) - armBound Q.dist ≤ j → (j : Int) ≤ x + armBound Q.dist → inp.cv i j dsp = cv2 i j dsp) :
    cbcaStep Q (toImg inp.H inp.W (cbcaScene inp n)) ((y : Int), (x : Int))
      = cbcaStep Q (toImg inp.H inp.W (cbcaScene { inp with cv := cv2 } n)) ((y : Int), (x : Int)) := by
  apply cbcaStep_congr
  · intro q _
    unfold toImg
    by_cases hq : 0 ≤ q.1 ∧ q.1 < inp.H ∧ 0 ≤ q.2 ∧ q.2 < inp.W
    · rw [if_pos hq, if_pos hq]; rfl
    · rw [if_neg hq, if_neg hq]
  · intro q hq
    unfold inCone Cone.square at hq
    simp only at hq
    unfold toImg
    by_cases hq' : 0 ≤ q.1 ∧ q.1 < inp.H ∧ 0 ≤ q.2 ∧ q.2 < inp.W
    · rw [if_pos hq', if_pos hq']
      unfold cbcaScene
      congr 2
      apply List.map_congr_left
      intro dsp _
      exact h q.1.toNat q.2.toNat dsp (by omega) (by omega) (by omega) (by omega)
    · rw [if_neg hq', if_neg hq']

/-- the configuration of the 6 × 8 scene of `C13Cbca` (distance 2, no margin, one disparity sample `0`):
    `armBound = 1`, cone of radius 2 -/
example : cbcaCone (cbcaParamsOf exWhole 1 0 0) = ⟨2, 2, 2, 2⟩ := by decide

/-- a margin of 2 and the interval `[-3, 1]`: rows `armBound + 2`, columns extended by the interval -/
example : cbcaCone ⟨2, 3, 5, 1, .loopVar, false, 0, false, 0, fun _ => 0, 5, -3, 1⟩ = ⟨4, 4, 7, 5⟩ := by decide

theorem exWhole_nanOutside : ∀ dsp, dsp < 1 → Cbca.nanOutside (exWhole.plane dsp) = true := by
  intro dsp h
  have : dsp = 0 := by omega
  subst this
  decide +kernel

theorem exWhole_interval : ∀ dsp, dsp < 1 → (((0 : Int) : ℚ) ≤ exWhole.disp dsp ∧ exWhole.disp dsp ≤ ((0 : Int) : ℚ)) := by
  intro dsp _
  show ((0 : Int) : ℚ) ≤ 0 ∧ (0 : ℚ) ≤ ((0 : Int) : ℚ)
  simp

/-- the hypotheses of `aggregate_is_cbcaStep` are satisfiable: the 6 × 8 scene -/
example : toImg 6 8 (fun y x => (List.range 1).map (Cbca.aggregate exWhole y x))
    = cbcaStep (cbcaParamsOf exWhole 1 0 0) (toImg 6 8 (cbcaScene exWhole 1)) :=
  aggregate_is_cbcaStep exWhole 1 0 0 exWhole_nanOutside exWhole_interval

/-- a 4 × 6 crop of the 6 × 8 scene starting at `(0, 2)`: its top side is the image's border -/
def exCrop2 : Cbca.Input :=
  { exWhole with
    H := 4, W := 6
    imL := fun y x => exWhole.imL y (x + 2)
    mskL := fun y x => exWhole.mskL y (x + 2)
    imR := fun y x => exWhole.imR y (x + 2)
    mskR := fun y x => exWhole.mskR y (x + 2)
    cv := fun y x d => exWhole.cv y (x + 2) d }

theorem exCropOf2 : CropOf exWhole exCrop2 0 2 :=
  ⟨rfl, rfl, rfl, rfl, rfl, rfl, rfl, rfl, rfl, by decide, by decide,
   fun _ _ _ _ => rfl, fun _ _ _ _ => rfl, fun _ _ _ _ => rfl, fun _ _ _ _ => rfl⟩

/-- the BORDER pixel `(0, 2)` of the crop (= pixel `(0, 4)` of the scene): its cone `⟨2, 2, 2, 2⟩` clipped to the image
    (rows 0 … 2, columns 2 … 6 of the scene) lies in the crop; every hypothesis of `cbca_crop_run_eq_whole` holds -/
example : Cbca.aggregate exCrop2 0 2 0 = Cbca.aggregate exWhole (0 + 0) (2 + 2) 0 :=
  cbca_crop_run_eq_whole exWhole exCrop2 1 0 0 0 2 exCropOf2 rfl (fun _ _ _ _ _ _ => rfl)
    exWhole_nanOutside
    (by intro dsp h; have : dsp = 0 := by omega
        subst this; decide +kernel)
    exWhole_interval 0 2 (by decide) (by decide)
    (by
      intro q hq
      have hc : cbcaCone (cbcaParamsOf exWhole 1 0 0) = ⟨2, 2, 2, 2⟩ := by decide
      rw [hc] at hq
      unfold inCone at hq
      simp only at hq
      unfold InRect InImage
      show ((0 : Nat) : Int) ≤ q.1 ∧ q.1 < ((0 : Nat) : Int) + ((4 : Nat) : Int) ∧ ((2 : Nat) : Int) ≤ q.2 ∧
        q.2 < ((2 : Nat) : Int) + ((6 : Nat) : Int) ∨ ¬ (0 ≤ q.1 ∧ q.1 < ((6 : Nat) : Int) ∧ 0 ≤ q.2 ∧ q.2 < ((8 : Nat) : Int))
      omega)
    0 (by decide)

/-- the pipeline `[matching cost; cbca; wta; vfit; median 3]` with the configuration of `C13Pipeline.exCfg` and cbca of
    distance 3, intensity 5, margin `w/2 = 1`: every hypothesis of `filter_cbca_crop_eq_whole` is satisfiable -/
def exQ : CbcaParams := ⟨1, 3, 5, 2, .loopVar, false, 0, false, 0, fun j => -1 + (j : ℚ) / 2, 5, -1, 1⟩

example (ny nx r0 c0 ny' nx' : Nat) (scene : Nat → Nat → McCell) (hfit : r0 + ny' ≤ ny ∧ c0 + nx' ≤ nx) (p : Px)
    (hcone : ∀ q, inCone (filterCone exCfg (cbcaCone exQ) Cone.zero true) (p.1 + r0, p.2 + c0) q →
      InRect r0 c0 ny' nx' q ∨ ¬ InImage ny nx q) :
    filterStage exCfg (cbcaStep exQ) (fun a q => (a q).map fun _ => 0) true true (toImg ny' nx' (cropArr r0 c0 scene)) p
      = filterStage exCfg (cbcaStep exQ) (fun a q => (a q).map fun _ => 0) true true (toImg ny nx scene)
          (p.1 + r0, p.2 + c0) :=
  filter_cbca_crop_eq_whole exCfg (by decide)
    (by intro j hj; have h5 : j < 5 := hj; show (-1 : Int) * ((2 : Nat) : Int) + (j : Int) ≤ 1 * ((2 : Nat) : Int); omega)
    exQ (Local.map id_local _) (Equivariant.map id_equivariant _) true true
    ny nx r0 c0 ny' nx' scene hfit p hcone

example : cbcaCone exQ = ⟨3, 3, 4, 4⟩ := by decide
example : cbcaCostCone exCfg exQ = ⟨3, 3, 4, 4⟩ := by decide
example : filterCone exCfg (cbcaCone exQ) Cone.zero true = ⟨5, 5, 7, 7⟩ := by decide

end Pandora.C13
