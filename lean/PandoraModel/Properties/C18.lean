/-
  C18 — Runs are reproducible and side-effect free whatever the threading (the part that is logic).

  (i)   every `prange` nest of the source (regenerated table) is a map over its own cells, and such a
        map gives the same result under every schedule (`order_independent`, for any permutation of the
        iterations — unbounded);
  (ii)  every machine attribute a run callback reads is written by `run_prepare` or by a callback that
        necessarily ran before it in the same run, so a run does not depend on leftovers of a previous
        run (`rerun_agree`, for any effect list — unbounded);
  (iii) the matching-cost classes that share one class-level schema dictionary all assign the same
        keys before validating, so the order in which classes were used cannot leak into a check.
  Numba's scheduler, the CPU memory model and floating-point reassociation are outside the model:
  that half is sampled by the harness (thread counts, parallel on/off, repeated runs).
-/
import PandoraModel.Model.Threading
import PandoraModel.Model.Wiring
import PandoraModel.Generated.Threading
import PandoraModel.Generated.Wiring
import PandoraModel.Generated.Transitions
import PandoraModel.Generated.Globals

namespace Pandora.C18
open Pandora.Threading

/-! ### (i) parallel loops -/

/-- every parallel nest of the numba kernels writes own cells only (or constants nobody reads, or the
    white-listed segment ranges) and reads only own cells of the arrays it writes -/
theorem prange_nests_safe : Generated.Threading.nests.all safeNest = true := by decide

/-- the kernels covered: the nine parallel functions named in the property's anchors -/
theorem prange_nests_listed :
    (Generated.Threading.nests.map (·.func)).eraseDups =
      ["loop_refinement", "loop_approximate_refinement", "compute_ambiguity",
       "compute_ambiguity_and_sampled_ambiguity", "compute_risk", "compute_risk_and_sampled_risk",
       "compute_interval_bounds", "create_connected_graph", "graph_regularization"] := by decide

/-- the only stores that are not own-cell stores -/
theorem non_own_cell_stores :
    (Generated.Threading.nests.flatMap fun n =>
        (n.stores.filter fun s => !ownCell s).map fun s => (n.func, s.array)).eraseDups =
      [("create_connected_graph", "connection_graph"),
       ("graph_regularization", "interval_inf_reg"), ("graph_regularization", "interval_sup_reg"),
       ("graph_regularization", "mask_regularization")] := by decide

theorem step_comm {ι β : Type} [DecidableEq ι] (body : ι → β → β) (a : ι → β) (x y : ι) :
    (fun j => if j = y then body y ((fun j => if j = x then body x (a x) else a j) y)
              else (fun j => if j = x then body x (a x) else a j) j)
    = (fun j => if j = x then body x ((fun j => if j = y then body y (a y) else a j) x)
              else (fun j => if j = y then body y (a y) else a j) j) ∨ x = y := by
  by_cases h : x = y
  · exact Or.inr h
  · left
    funext j
    have h' : ¬ y = x := fun e => h e.symm
    by_cases hx : j = x <;> by_cases hy : j = y <;> simp_all

/-- **Own-cell parallel loops are schedule independent**: whatever order the iterations run in (any
    permutation, any number of iterations), the resulting array is the same. -/
theorem order_independent {ι β : Type} [DecidableEq ι] (body : ι → β → β) (o1 o2 : List ι)
    (hp : o1.Perm o2) (a : ι → β) : runOrder body o1 a = runOrder body o2 a := by
  unfold runOrder
  apply List.Perm.foldl_eq' hp
  intro x _ y _ z
  rcases step_comm body z x y with h | h
  · exact h
  · subst h; rfl

/-- the result of an own-cell loop, cell by cell: iterations that run once rewrite their own cell -/
theorem runOrder_cell {ι β : Type} [DecidableEq ι] (body : ι → β → β) :
    ∀ (o : List ι) (a : ι → β) (j : ι), o.Nodup →
      runOrder body o a j = if j ∈ o then body j (a j) else a j := by
  intro o
  induction o with
  | nil => intro a j _; simp [runOrder]
  | cons i is ih =>
    intro a j hnd
    have hnd' := (List.nodup_cons.mp hnd)
    have := ih (fun j => if j = i then body i (a i) else a j) j hnd'.2
    simp only [runOrder, List.foldl_cons] at this ⊢
    rw [this]
    by_cases hji : j = i
    · subst hji; simp [hnd'.1]
    · simp [hji]

/-- **Constant stores into cells nobody reads are schedule independent** (`connection_graph[i, k] =
    connection_graph[k, i] = True`): the result only depends on which cells some iteration names. -/
theorem const_store_cell {ι κ β : Type} [DecidableEq κ] (cells : ι → List κ) (c : β) :
    ∀ (o : List ι) (a : κ → β) (j : κ),
      runConst cells c o a j = if o.any (fun i => (cells i).contains j) then c else a j := by
  intro o
  induction o with
  | nil => intro a j; simp [runConst]
  | cons i is ih =>
    intro a j
    have := ih (fun j => if (cells i).contains j then c else a j) j
    simp only [runConst, List.foldl_cons] at this ⊢
    rw [this, List.any_cons]
    cases h1 : (cells i).contains j <;> cases h2 : is.any (fun i => (cells i).contains j) <;> simp

theorem const_store_order_independent {ι κ β : Type} [DecidableEq κ] (cells : ι → List κ) (c : β)
    (o1 o2 : List ι) (hp : o1.Perm o2) (a : κ → β) : runConst cells c o1 a = runConst cells c o2 a := by
  funext j
  rw [const_store_cell, const_store_cell]
  have : o1.any (fun i => (cells i).contains j) = o2.any (fun i => (cells i).contains j) := by
    rw [Bool.eq_iff_iff]
    simp only [List.any_eq_true]
    constructor
    · rintro ⟨i, hi, h⟩; exact ⟨i, hp.subset hi, h⟩
    · rintro ⟨i, hi, h⟩; exact ⟨i, hp.symm.subset hi, h⟩
  rw [this]

/-! ### (ii) no leftovers: what a run reads, it (or `run_prepare`) wrote before -/

open Pandora.Wiring in
/-- two stores agree on a set of attributes -/
def AgreeOn {V : Type} (names : List String) (s1 s2 : Store V) : Prop := ∀ n ∈ names, s1 n = s2 n

open Pandora.Wiring in
theorem assignFrom_agree {V : Type} (f : Nat → V) : ∀ (ts : List String) (i : Nat) (s1 s2 : Store V) (n : String),
    (n ∈ ts ∨ s1 n = s2 n) → assignFrom s1 f i ts n = assignFrom s2 f i ts n := by
  intro ts
  induction ts with
  | nil => intro i s1 s2 n h; simpa [assignFrom] using h
  | cons t ts ih =>
    intro i s1 s2 n h
    simp only [assignFrom]
    apply ih
    by_cases hm : n ∈ ts
    · exact Or.inl hm
    · right
      by_cases hnt : n = t
      · simp [hnt]
      · simp only [hnt, if_false]
        rcases h with h | h
        · simp only [List.mem_cons] at h
          rcases h with h | h
          · exact absurd h hnt
          · exact absurd h hm
        · exact h

open Pandora.Wiring in
/-- one effect whose arguments are all agreed upon: afterwards the stores also agree on its targets -/
theorem exec_agree {V : Type} (sem : Sem V) (e : Effect) (names : List String) (s1 s2 : Store V)
    (hargs : ∀ a ∈ e.args, a ∈ names) (h : AgreeOn names s1 s2) :
    AgreeOn (e.targets ++ names) (exec sem e s1) (exec sem e s2) := by
  intro n hn
  unfold exec
  have hmap : e.args.map s1 = e.args.map s2 :=
    List.map_congr_left (fun a ha => h a (hargs a ha))
  simp only [hmap]
  apply assignFrom_agree
  simp only [List.mem_append] at hn
  rcases hn with hn | hn
  · exact Or.inl hn
  · exact Or.inr (h n hn)

open Pandora.Wiring in
/-- every effect of the list reads only attributes that are agreed upon initially or were written by
    an earlier effect of the list -/
def ReadsInitialised : List Effect → List String → Bool
  | [], _ => true
  | e :: es, names => e.args.all (fun a => names.contains a) && ReadsInitialised es (e.targets ++ names)

open Pandora.Wiring in
def allTargets : List Effect → List String
  | [] => []
  | e :: es => allTargets es ++ e.targets

open Pandora.Wiring in
/-- **A run does not depend on leftovers.** Two machines that agree on what `run_prepare` sets (and on
    the check-phase attributes) and execute the same effects, each of which reads only what was
    agreed upon or written earlier in the run, end up agreeing on everything the run wrote — whatever
    else their attributes contained before. -/
theorem rerun_agree {V : Type} (sem : Sem V) : ∀ (es : List Effect) (names : List String) (s1 s2 : Store V),
    ReadsInitialised es names = true → AgreeOn names s1 s2 →
    AgreeOn (allTargets es ++ names) (execs sem es s1) (execs sem es s2) := by
  intro es
  induction es with
  | nil => intro names s1 s2 _ h; simpa [allTargets, execs] using h
  | cons e es ih =>
    intro names s1 s2 hr h
    simp only [ReadsInitialised, Bool.and_eq_true, List.all_eq_true, List.contains_eq_mem,
      decide_eq_true_eq] at hr
    have h1 := exec_agree sem e names s1 s2 hr.1 h
    have h2 := ih (e.targets ++ names) _ _ hr.2 h1
    intro n hn
    simp only [execs, List.foldl_cons]
    apply h2
    simp only [allTargets, List.mem_append] at hn ⊢
    rcases hn with (hn | hn) | hn
    · exact Or.inl hn
    · exact Or.inr (Or.inl hn)
    · exact Or.inr (Or.inr hn)

/-- attributes set outside the run phase that the run callbacks may read: `right_disp_map` and `step`
    come from the check phase (or keep their constructor defaults) -/
def checkPhaseAttrs : List String := ["right_disp_map", "step"]

/-- what must have been written in this run before a callback can fire, by the state its transition
    starts from (C01: `cost_volume` is only reachable through the matching cost step, `disp_map` only
    through the disparity step) -/
def guaranteedBefore (cb : String) : List String :=
  let src := (Generated.transitionsRun.filter (fun t => t.after.contains cb || t.prepare.contains cb)).map (·.source)
  let w (name : String) : List String :=
    (Generated.Threading.callbackAttrs.filter (fun c => c.name == name)).flatMap (·.writes)
  -- `prepare` callbacks of the transition run before its `after` callbacks
  let samePrepare := (Generated.transitionsRun.filter (fun t => t.after.contains cb)).flatMap (·.prepare)
  let pre := samePrepare.flatMap w
  if src.all (· == "begin") then pre
  else if src.all (· == "cost_volume") then pre ++ w "matching_cost_prepare" ++ w "matching_cost_run"
  else pre ++ w "matching_cost_prepare" ++ w "matching_cost_run" ++ w "disparity_run"

/-- every attribute a run callback reads is written by `run_prepare` (on every path; for
    `run_multiscale`, which only fires when there are several scales, on the multi-scale path), or by
    a callback that necessarily ran earlier in the same run, or by the callback itself before the read
    (`matching_cost_prepare` creates `matching_cost_`), or is a check-phase attribute -/
theorem run_reads_initialised :
    Generated.Threading.callbackAttrs.all (fun c =>
      c.reads.all (fun a =>
        Generated.Threading.prepareAlways.contains a
        || checkPhaseAttrs.contains a
        || (guaranteedBefore c.name).contains a
        || (c.name == "run_multiscale" && Generated.Threading.prepareMulti.contains a)
        || (c.name == "matching_cost_prepare" && (a == "matching_cost_" || a == "left_cv" || a == "right_cv")))) = true := by
  decide

open Pandora.Wiring in
/-- the same fact on the data-flow effects of every callback (the form `rerun_agree` consumes): with
    what `run_prepare`, the check phase and the necessarily-earlier callbacks provide, every effect of
    the callback reads only initialised attributes -/
theorem callback_effects_initialised :
    Generated.Wiring.callbacks.all (fun cb =>
      ReadsInitialised (effectsOf cb true true)
        (Generated.Threading.prepareAlways ++ checkPhaseAttrs ++ guaranteedBefore cb.name
          ++ (if cb.name == "run_multiscale" then Generated.Threading.prepareMulti else []))) = true := by
  decide

/-! ### (iii) the class-level schema dictionary shared by the matching-cost classes -/

/-- every matching-cost class overwrites the same keys of the shared dictionary before validating, and
    none of them touches the base keys: whichever class ran before, the validated schema is the same -/
theorem shared_schema_keys_uniform :
    Generated.Threading.schemaClassKeys.all (fun p => p.2 == ["matching_cost_method", "window_size"]) = true
    ∧ Generated.Threading.schemaClassKeys.map (·.1) = ["SadSsd", "Census", "Zncc"]
    ∧ Generated.Threading.schemaBaseKeys.all (fun k => k != "matching_cost_method" && k != "window_size") = true := by
  decide

/-! ### Non-vacuity -/

example : runOrder (fun i (x : Nat) => x + i) [0, 1, 2] (fun _ => 10) 2 = 12 := by decide
example : runOrder (fun i (x : Nat) => x + i) [2, 0, 1] (fun _ => 10) = runOrder (fun i (x : Nat) => x + i) [0, 1, 2] (fun _ => 10) :=
  order_independent _ _ _ (by decide) _


/-- **No state in the process besides the plugin registries.** The only module-level or class-level mutable
    containers that a function of the package writes are the eleven `*_methods_avail` registries filled by
    `register_subclass` at import time, and no function is memoised: nothing a run computes can be remembered
    by the process and reach a later run (what `rerun_agree` needs of the code, beyond the machine's attributes). -/
theorem process_state_is_the_plugin_registries :
    Generated.Globals.processStateWrites =
      [("pandora/aggregation/aggregation.py", "AbstractAggregation.aggreg_methods_avail", "store"),
       ("pandora/cost_volume_confidence/cost_volume_confidence.py", "AbstractCostVolumeConfidence.confidence_methods_avail", "store"),
       ("pandora/disparity/disparity.py", "AbstractDisparity.disparity_methods_avail", "store"),
       ("pandora/filter/filter.py", "AbstractFilter.filter_methods_avail", "store"),
       ("pandora/matching_cost/matching_cost.py", "AbstractMatchingCost.matching_cost_methods_avail", "store"),
       ("pandora/multiscale/multiscale.py", "AbstractMultiscale.multiscale_methods_avail", "store"),
       ("pandora/optimization/optimization.py", "AbstractOptimization.optimization_methods_avail", "store"),
       ("pandora/refinement/refinement.py", "AbstractRefinement.subpixel_methods_avail", "store"),
       ("pandora/semantic_segmentation/semantic_segmentation.py", "AbstractSemanticSegmentation.segmentation_methods_avail", "store"),
       ("pandora/validation/interpolated_disparity.py", "AbstractInterpolation.interpolation_methods_avail", "store"),
       ("pandora/validation/validation.py", "AbstractValidation.validation_methods_avail", "store")]
    ∧ Generated.Globals.memoised = [] := by decide

end Pandora.C18
