/- C18 — theorems (placeholder until the property is built). -/
