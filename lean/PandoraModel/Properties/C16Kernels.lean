/-
  C16 — `get_window` REGENERATED from the Python source (`Generated/KernelsGlue.lean`, written by
  translator/gen_kernels_glue.py with the expression-level translator translator/pyexpr.py) is equal, for ALL
  integer inputs (no well-formedness hypothesis), to the hand-written model `Dataset.getWindow`:

    * `getWindow_eq_fixed`   at the parameters `Params.fixed` (the non-strict "outside" comparisons);
    * `getWindow_eq_source`  at the parameters `Generated.imgToolsParams` translator/gen_imgtools.py read on this run
                             (it reads the four comparison operators off the pinned text, or — when the text of the
                             function is no longer the pinned one — off the translated function at the four image
                             edges: this theorem is what makes that choice sound);
    * `getWindow_eq_spec`    hence (composition with `C16.getWindow_eq_spec`) the translated function IS the
                             specification `windowSpec` for well-formed ROIs on a non-empty image.

  A harmless rewrite of the Python function still proves; a change of its meaning (an operator, a margin index,
  a dropped `+ 1`, the exception raised) breaks these proofs.
-/
import PandoraModel.Model.Dataset
import PandoraModel.Model.PyExpr
import PandoraModel.Generated.ImgTools
import PandoraModel.Generated.KernelsGlue
import PandoraModel.Generated.KernelsGlueSelfTest  -- the translator's own glue test functions, checked by evaluation
import PandoraModel.Properties.C16
import Mathlib.Tactic.SplitIfs

namespace Pandora.C16Kernels
open Pandora Pandora.Dataset Pandora.PyExpr

/-- the generated result type, from the model's: `Window(col_off, row_off, width, height)` as the tuple of its
    arguments, `none` (the refusal) as the `ValueError` of the function.  rasterio's `Window` validates its lengths
    itself (negative width / height: its own `ValueError`, kept apart as `"Window: ValueError"`): the model hands
    the four numbers over as they are, so that test sits here — it never fires on a well-formed ROI
    (`getWindow_eq_spec`, `encWindow_spec`) -/
def encWindow : Option Window → PyOut (Int × Int × Int × Int)
  | some w => if w.width < 0 ∨ w.height < 0 then .raised "Window: ValueError"
              else .ok (w.colOff, w.rowOff, w.width, w.height)
  | none => .raised "ValueError"

/-- the plain encoding: window ↔ `ok`, refusal ↔ `ValueError` -/
def encWindow' : Option Window → PyOut (Int × Int × Int × Int)
  | some w => .ok (w.colOff, w.rowOff, w.width, w.height)
  | none => .raised "ValueError"

theorem imax_eq (a b : Int) : imax a b = max a b := by unfold imax; omega
theorem imin_eq (a b : Int) : imin a b = min a b := by unfold imin; omega

/-- the generated function applied to the fields of a `Roi` -/
def pyGetWindow (roi : Roi) (width height : Int) : PyOut (Int × Int × Int × Int) :=
  Generated.KernelsGlue.getWindow roi.colFirst roi.colLast roi.rowFirst roi.rowLast
    roi.mLeft roi.mUp roi.mRight roi.mDown width height

/-- unfold both sides to `if` trees over `Int`, split every `if`, close each leaf by linear integer arithmetic —
    nothing is closed by syntactic identity of the two texts -/
macro "window_eq" : tactic => `(tactic| (
  intro roi width height
  obtain ⟨cf, cl, rf, rl, ml, mu, mr, md⟩ := roi
  simp only [pyGetWindow, Generated.KernelsGlue.getWindow, Dataset.getWindow, Params.fixed, Generated.imgToolsParams,
    offTest, endTest, encWindow, imax_eq, imin_eq, iabs,
    Bool.or_eq_true, Bool.and_eq_true, decide_eq_true_eq, Bool.false_eq_true, if_false, if_true, ite_true, ite_false,
    Bool.not_eq_true', decide_eq_false_iff_not]
  split_ifs <;>
    first
      | rfl
      | (exfalso; omega)
      | (dsimp only
         split_ifs <;>
           first
             | rfl
             | (exfalso; omega)
             | (simp only [PyOut.ok.injEq, Prod.mk.injEq]; refine ⟨?_, ?_, ?_, ?_⟩ <;> first | trivial | omega)
             | (simp only [PyOut.ok.injEq, Prod.mk.injEq, true_and, and_true]; omega)
             | (simp_all; omega))))

/-- **the translated `get_window` is the hand model** (non-strict comparisons), for all integers -/
theorem getWindow_eq_fixed : ∀ (roi : Roi) (width height : Int),
    pyGetWindow roi width height = encWindow (Dataset.getWindow Params.fixed roi width height) := by
  window_eq

/-- … and it is the hand model at the parameters the translator read in the source on this run -/
theorem getWindow_eq_source : ∀ (roi : Roi) (width height : Int),
    pyGetWindow roi width height = encWindow (Dataset.getWindow Generated.imgToolsParams roi width height) := by
  window_eq

/-- the function's own `ValueError` ("Roi specified is outside the image") ↔ the model's refusal `none` -/
theorem getWindow_raises_iff (roi : Roi) (width height : Int) :
    pyGetWindow roi width height = .raised "ValueError" ↔ Dataset.getWindow Params.fixed roi width height = none := by
  rw [getWindow_eq_fixed]
  cases h : Dataset.getWindow Params.fixed roi width height with
  | none => simp [encWindow]
  | some w => simp only [encWindow]; split_ifs <;> simp

/-- a window of the specification has positive lengths: on it the two encodings coincide -/
theorem encWindow_spec (roi : Roi) (width height : Int) :
    encWindow (windowSpec roi width height) = encWindow' (windowSpec roi width height) := by
  unfold windowSpec clipAxis
  split
  · rename_i c0 c1 r0 r1 hc hr
    simp only at hc hr
    split_ifs at hc hr
    simp only [Option.some.injEq, Prod.mk.injEq] at hc hr
    obtain ⟨rfl, rfl⟩ := hc
    obtain ⟨rfl, rfl⟩ := hr
    simp only [encWindow, encWindow']
    rw [if_neg (by omega)]
  · rfl

/-- **the translated `get_window` is the specification**: the ROI enlarged by its margins, clipped to the image;
    `ValueError` exactly when it does not meet the image (hypotheses: those of `C16.getWindow_eq_spec`) -/
theorem getWindow_eq_spec (roi : Roi) (width height : Int)
    (hwf : roi.wf = true) (hw : 0 < width) (hh : 0 < height) :
    pyGetWindow roi width height = encWindow' (windowSpec roi width height) := by
  rw [getWindow_eq_fixed, Pandora.C16.fixed_getWindow roi width height hwf hw hh, encWindow_spec]

/-- non-vacuity: a ROI clipped on two sides, and one refused -/
example : pyGetWindow ⟨4, 9, -1, 2, 1, 0, 0, 1⟩ 6 5 = .ok (3, 0, 3, 4) := by decide
example : pyGetWindow ⟨6, 7, 1, 2, 0, 0, 0, 0⟩ 6 5 = .raised "ValueError" := by decide
/-- an ill-formed ROI (last row before the first one) reaches rasterio's own validation -/
example : pyGetWindow ⟨1, 2, 3, 0, 0, 0, 0, 0⟩ 6 5 = .raised "Window: ValueError" := by decide

end Pandora.C16Kernels
