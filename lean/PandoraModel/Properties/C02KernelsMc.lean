/-
  C02 — the per-disparity index decisions of `Census / SadSsd / Zncc.compute_cost_volume`, REGENERATED from the Python
  source (`Generated/KernelsMc.lean`, written by translator/gen_kernels_mc.py with translator/pyexpr.py), are the ones
  the hand model `MC.rawSadSsd / rawCensus / rawZncc` uses — for every integer numerator, every positive subpix, every
  odd window and every interval.

    * `iRightCensus_eq`, `iRightSadSsd_eq`, `iRightZncc_eq`
          `i_right = int((disp % 1) * self._subpix)` at `disp = k / sp` is `MC.iRight k sp = (k % sp).toNat`
          (Python's `%` takes the sign of the divisor: for a NEGATIVE disparity `-5/4` the shifted image is number 3, not 1)
    * `iRight_lt`   … and it is a valid index into the `sp` shifted right images
    * `pStd_mem`, `qStd_eq`   zncc: a column lies in `point_p[0] : p_std[1]` exactly when the model's test
          `pq.p0 ≤ c ∧ c < pq.p1 - 2 * half w` holds; `q_std[0] = point_q[0]`
    * `shapes_eq_model`   which interval / shifted image / plane each loop combines with which (read off the `ast`) is the
          wiring the model implements — a table of source strings, compared by evaluation
-/
import PandoraModel.Model.MatchingCost
import PandoraModel.Model.PyExpr
import PandoraModel.Generated.KernelsMc
import PandoraModel.Properties.C02Kernels
import Mathlib.Data.Rat.Floor
import Mathlib.Tactic.Linarith
import Mathlib.Tactic.Ring
import Mathlib.Tactic.FieldSimp
import Mathlib.Tactic.SplitIfs

set_option linter.unusedSimpArgs false
set_option linter.unusedVariables false
set_option linter.unreachableTactic false
set_option linter.unusedTactic false

namespace Pandora.C02KernelsMc
open Pandora Pandora.MC Pandora.PyExpr Pandora.C02Kernels
open Pandora.Generated

/-! ### `i_right = int((disp % 1) * self._subpix)` -/

/-- Python's `(k/sp) % 1`, times `sp`, truncated: the remainder of the Euclidean division of `k` by `sp` -/
theorem iRight_core (k : Int) (sp : Nat) (hs : 0 < sp) :
    rtrunc (((k : ℚ) / (sp : ℚ) - (((rfloor ((k : ℚ) / (sp : ℚ) / (1 : ℚ))) : Int) : ℚ) * (1 : ℚ)) * (((sp : Int)) : ℚ))
      = k % (sp : Int) := by
  have hs' : (sp : ℚ) ≠ 0 := by exact_mod_cast (Nat.pos_iff_ne_zero.mp hs)
  rw [div_one, rfloor_div k sp]
  unfold fdiv
  have h : ((k : ℚ) / (sp : ℚ) - (((k / (sp : Int) : Int)) : ℚ) * (1 : ℚ)) * (((sp : Int)) : ℚ) = ((k % (sp : Int) : Int) : ℚ) := by
    have e : k % (sp : Int) = k - (sp : Int) * (k / (sp : Int)) := Int.emod_def k sp
    rw [e]
    push_cast
    field_simp
  rw [h, rtrunc_intCast]

theorem iRight_core_comm (k : Int) (sp : Nat) (hs : 0 < sp) :
    rtrunc ((((sp : Int)) : ℚ) * ((k : ℚ) / (sp : ℚ) - (((rfloor ((k : ℚ) / (sp : ℚ) / (1 : ℚ))) : Int) : ℚ) * (1 : ℚ)))
      = k % (sp : Int) := by
  rw [mul_comm]; exact iRight_core k sp hs

theorem iRight_model (k : Int) (sp : Nat) (hs : 0 < sp) : ((MC.iRight k sp : Nat) : Int) = k % (sp : Int) := by
  unfold MC.iRight
  have : 0 ≤ k % (sp : Int) := Int.emod_nonneg k (by exact_mod_cast (Nat.pos_iff_ne_zero.mp hs))
  omega

theorem iRightCensus_eq (k : Int) (sp : Nat) (hs : 0 < sp) :
    KernelsMc.iRightCensus ((k : ℚ) / (sp : ℚ)) (sp : Int) = ((MC.iRight k sp : Nat) : Int) := by
  rw [iRight_model k sp hs]; unfold KernelsMc.iRightCensus
  first | exact iRight_core k sp hs | exact iRight_core_comm k sp hs

theorem iRightSadSsd_eq (k : Int) (sp : Nat) (hs : 0 < sp) :
    KernelsMc.iRightSadSsd ((k : ℚ) / (sp : ℚ)) (sp : Int) = ((MC.iRight k sp : Nat) : Int) := by
  rw [iRight_model k sp hs]; unfold KernelsMc.iRightSadSsd
  first | exact iRight_core k sp hs | exact iRight_core_comm k sp hs

theorem iRightZncc_eq (k : Int) (sp : Nat) (hs : 0 < sp) :
    KernelsMc.iRightZncc ((k : ℚ) / (sp : ℚ)) (sp : Int) = ((MC.iRight k sp : Nat) : Int) := by
  rw [iRight_model k sp hs]; unfold KernelsMc.iRightZncc
  first | exact iRight_core k sp hs | exact iRight_core_comm k sp hs

/-- the index is inside the list of the `sp` shifted right images -/
theorem iRight_lt (k : Int) (sp : Nat) (hs : 0 < sp) : MC.iRight k sp < sp := by
  have h := iRight_model k sp hs
  have : k % (sp : Int) < (sp : Int) := Int.emod_lt_of_pos k (by exact_mod_cast hs)
  omega

/-- negative disparities: the shifted image is chosen by the remainder towards −∞, not by the fractional digits -/
example : KernelsMc.iRightSadSsd ((-5 : ℚ) / 4) 4 = 3 ∧ MC.iRight (-5) 4 = 3 := by decide +kernel

/-! ### zncc: `p_std`, `q_std` -/

theorem rtrunc_half (w : Nat) : rtrunc (((w : Int) : ℚ) / (2 : ℚ)) = (w : Int) / 2 := by
  have h0 : ¬ (((w : Int) : ℚ) / (2 : ℚ) < 0) := by
    have : (0 : ℚ) ≤ ((w : Int) : ℚ) := by exact_mod_cast Int.natCast_nonneg w
    have : (0 : ℚ) ≤ ((w : Int) : ℚ) / 2 := by positivity
    linarith
  unfold rtrunc
  rw [if_neg h0]
  have := rfloor_div (w : Int) 2
  unfold rfloor fdiv at this
  simpa using this

/-- a left column is stored by the zncc loop (`cv_crop[disp_index, point_p[0] : p_std[1], :]`) exactly when the model's
    test holds (odd window `w`, any interval) -/
theorem pStd_mem (p0 p1 q0 q1 c : Int) (w : Nat) (hw : w % 2 = 1) :
    (KernelsMc.pStd0 p0 p1 q0 q1 w ≤ c ∧ c < KernelsMc.pStd1 p0 p1 q0 q1 w) ↔ (p0 ≤ c ∧ c < p1 - 2 * (MC.half w : Nat)) := by
  unfold KernelsMc.pStd0 KernelsMc.pStd1 imax MC.half
  rw [rtrunc_half]
  split_ifs <;> omega

theorem qStd_eq (p0 p1 q0 q1 : Int) (w : Nat) (hw : w % 2 = 1) :
    KernelsMc.qStd0 p0 p1 q0 q1 w = q0 ∧ KernelsMc.qStd1 p0 p1 q0 q1 w = max (q1 - 2 * (MC.half w : Nat)) q0 := by
  unfold KernelsMc.qStd0 KernelsMc.qStd1 imax MC.half
  rw [rtrunc_half]
  refine ⟨rfl, ?_⟩
  split_ifs <;> omega

/-- the two slices have the same length whenever the two intervals have (the product `std_l * std_r` is well formed) -/
theorem std_lengths (p0 p1 q0 q1 : Int) (w : Nat) (hw : w % 2 = 1) (hlen : p1 - p0 = q1 - q0) :
    KernelsMc.pStd1 p0 p1 q0 q1 w - KernelsMc.pStd0 p0 p1 q0 q1 w = KernelsMc.qStd1 p0 p1 q0 q1 w - KernelsMc.qStd0 p0 p1 q0 q1 w := by
  unfold KernelsMc.pStd0 KernelsMc.pStd1 KernelsMc.qStd0 KernelsMc.qStd1 imax
  split_ifs <;> omega

example : KernelsMc.pStd1 0 7 2 9 3 = 5 ∧ (7 : Int) - 2 * (MC.half 3 : Nat) = 5 := by decide +kernel

/-! ### the shape of the loops -/

/-- The wiring the model implements, in the words of the source:
    * every loop asks `point_interval` for the LEFT image first and the shifted right image number `i_right` second, at `disp`
      (`MC.pointInterval L.cols Rk.cols k sp` with `Rk = shiftRight R sp (iRight k sp)`);
    * it stores at plane `disp_index` (the position of `disp` in the disparity axis: `rawPlane x k` for the `k` of
      `dispRange`), columns `point_p[0] : point_p[1]` (zncc: `: p_std[1]`) — `pq.p0 ≤ c ∧ c < pq.p1`;
    * the pixel-wise functions read the left image on `point_p`, the right one on `point_q`
      (`L.px r c` against `Rk.px r (pq.q0 + (c - pq.p0))`), each with the band index looked up in ITS OWN image. -/
def expectedShapes : List (String × List (String × List String)) := [
  ("Census", [("point_interval", ["(point_p, point_q)", "left", "img_right_shift[i_right]", "disp"]),
              ("store", ["cv_crop", "disp_index", "point_p[0]:point_p[1]", ":"]),
              ("value", ["self.census_cost", "point_p", "point_q", "left", "img_right_shift[i_right]"])]),
  ("SadSsd", [("point_interval", ["(point_p, point_q)", "img_left", "img_right_shift[i_right]", "disp"]),
              ("store", ["cv", "disp_index", "point_p[0]:point_p[1]", ":"]),
              ("value", ["self._pixel_wise_methods[self._method]", "point_p", "point_q", "img_left", "img_right_shift[i_right]"])]),
  ("Zncc", [("point_interval", ["(point_p, point_q)", "img_left", "img_right_shift[i_right]", "disp"]),
            ("store", ["cv_crop", "disp_index", "point_p[0]:p_std[1]", ":"]),
            ("value", ["zncc_"])]),
  ("ad_cost", [("slices", ["img_left['im'].data[(:, point_p[0]:point_p[1])]",
                           "img_left['im'].data[(band_index_left, :, point_p[0]:point_p[1])]",
                           "img_right['im'].data[(:, point_q[0]:point_q[1])]",
                           "img_right['im'].data[(band_index_right, :, point_q[0]:point_q[1])]"]),
               ("bands", ["band_index_left = list(img_left.band_im.data).index(self._band)",
                          "band_index_right = list(img_right.band_im.data).index(self._band)"])]),
  ("sd_cost", [("slices", ["img_left['im'].data[(:, point_p[0]:point_p[1])]",
                           "img_left['im'].data[(band_index_left, :, point_p[0]:point_p[1])]",
                           "img_right['im'].data[(:, point_q[0]:point_q[1])]",
                           "img_right['im'].data[(band_index_right, :, point_q[0]:point_q[1])]"]),
               ("bands", ["band_index_left = list(img_left.band_im.data).index(self._band)",
                          "band_index_right = list(img_right.band_im.data).index(self._band)"])]),
  ("census_cost", [("slices", ["img_left['im'].data[(:, point_p[0]:point_p[1])]",
                               "img_right['im'].data[(:, point_q[0]:point_q[1])]"]),
                   ("bands", [])])
]

/-- what the loops combine with what, as read from the source now, is the wiring of the model (a textual pin: a renamed
    local is a failing proof with no failing input; a swapped interval, image or band lookup is a failing proof AND a
    failing input of the differential check) -/
theorem shapes_eq_model : KernelsMc.shapes = expectedShapes := by decide +kernel

end Pandora.C02KernelsMc
