/-
  C07 — the half-even reading of `round`.

  The statement of C07 writes `q = p + round(dL(p))` and `round(dR(p + d)) = -d`.  `Properties/C07.lean` reads
  `round` as "a nearest integer" and accepts, on an exact half, an outcome that is right for either neighbour
  (`clausesPix`).  Python's `round` and `np.rint` both round an exact half to the even neighbour; this file reads
  `round` that way at BOTH rounding sites (`clausesPixEven`: single correspondent `p + rintEven(dL(p))`, witness
  test `rintEven(dR(p + d)) = -d`, no alternatives) and proves

    * `rintEven_eq_rint`: the definition of round-half-to-even written for the specification (`⌊x + 1/2⌋`, minus
      one on an odd integer) is numpy's `rint` of the model, with its characterisation `rintEven_spec`
      (nearest integer; even when there are two);
    * the model satisfies the half-even clauses under the same hypotheses as the loose ones
      (`ccPixel_specEven_partial`, `ccPixel_ruleFix_specEven`, `check_specEven_partial`,
      `check_specEven_ruleFix`, `source_check_specEven`, and — the source being the repaired step today —
      `source_check_specEven_full` without any hypothesis on the correspondents);
    * the half-even clauses refine the loose ones: clause by clause for one correspondent
      (`clausesValid_of_even`), and for the pixel (`clausesPix_of_even`), so the two can never be in conflict;
    * where the readings differ (`tie_readings_differ`, `seeded_tie_counterexample`).
-/
import PandoraModel.Properties.C07

namespace Pandora.C07
open Pandora Pandora.CrossCheck

/-! ## Rounding -/

theorem floor_unique (x : ℚ) (n : Int) (h0 : (n : ℚ) ≤ x) (h1 : x < (n : ℚ) + 1) : x.floor = n := by
  have h2 := Rat.floor_le x
  have h3 := Rat.lt_floor_add_one x
  push_cast at h3
  have a : ((x.floor : Int) : ℚ) < ((n + 1 : Int) : ℚ) := by push_cast; linarith
  have b : ((n : Int) : ℚ) < ((x.floor + 1 : Int) : ℚ) := by push_cast; linarith
  have a' : x.floor < n + 1 := by exact_mod_cast a
  have b' : n < x.floor + 1 := by exact_mod_cast b
  omega

/-- **the specification's round-half-to-even is the model's `np.rint`** -/
theorem rintEven_eq_rint (x : ℚ) : rintEven x = rint x := by
  obtain ⟨h0, h1⟩ := floor_frac x
  unfold rintEven rint
  simp only
  by_cases hlt : x - (x.floor : ℚ) < 1 / 2
  · -- below the half: `⌊x + 1/2⌋ = ⌊x⌋`, and `x + 1/2` is not an integer
    have hf : (x + 1 / 2).floor = x.floor := floor_unique _ _ (by linarith) (by linarith)
    rw [hf, if_pos hlt]
    rw [if_neg]
    rintro ⟨he, -⟩
    linarith
  · rw [if_neg hlt]
    have hf : (x + 1 / 2).floor = x.floor + 1 :=
      floor_unique _ _ (by push_cast; linarith) (by push_cast; linarith)
    rw [hf]
    by_cases hgt : 1 / 2 < x - (x.floor : ℚ)
    · rw [if_pos hgt]
      rw [if_neg]
      rintro ⟨he, -⟩
      push_cast at he
      linarith
    · rw [if_neg hgt]
      have heq : x - (x.floor : ℚ) = 1 / 2 := le_antisymm (not_lt.mp hgt) (not_lt.mp hlt)
      have hint : ((x.floor + 1 : Int) : ℚ) = x + 1 / 2 := by push_cast; linarith
      by_cases hev : x.floor % 2 = 0
      · rw [if_pos hev, if_pos ⟨hint, by omega⟩]
        omega
      · rw [if_neg hev, if_neg]
        rintro ⟨-, hodd⟩
        omega

/-- what round-half-to-even means: a nearest integer, and the even one when there are two -/
theorem rintEven_spec (x : ℚ) :
    |x - (rintEven x : ℚ)| ≤ 1 / 2 ∧ (|x - (rintEven x : ℚ)| = 1 / 2 → rintEven x % 2 = 0) := by
  rw [rintEven_eq_rint]
  refine ⟨rint_nearest x, fun h => ?_⟩
  obtain ⟨h0, h1⟩ := floor_frac x
  by_cases htie : x - (x.floor : ℚ) = 1 / 2
  · exact rint_even_on_tie x htie
  · -- not a tie: the distance to `rint x` is strictly below 1/2
    exfalso
    unfold rint at h
    simp only at h
    by_cases hlt : x - (x.floor : ℚ) < 1 / 2
    · rw [if_pos hlt, abs_of_nonneg h0] at h
      exact htie h
    · rw [if_neg hlt] at h
      have hgt : 1 / 2 < x - (x.floor : ℚ) := lt_of_le_of_ne (not_lt.mp hlt) (Ne.symm htie)
      rw [if_pos hgt] at h
      push_cast at h
      rw [abs_of_nonpos (by linarith)] at h
      apply htie
      linarith

/-- it is the only function with that meaning -/
theorem rintEven_unique (x : ℚ) (n : Int) (hn : |x - (n : ℚ)| ≤ 1 / 2)
    (he : |x - (n : ℚ)| = 1 / 2 → n % 2 = 0) : n = rintEven x := by
  obtain ⟨hr, hre⟩ := rintEven_spec x
  rw [abs_le] at hn hr
  -- two nearest integers differ by at most one
  have hd : ((n - rintEven x : Int) : ℚ) ≤ 1 ∧ (-1 : ℚ) ≤ ((n - rintEven x : Int) : ℚ) := by
    push_cast; constructor <;> linarith [hn.1, hn.2, hr.1, hr.2]
  have hd1 : n - rintEven x ≤ 1 := by exact_mod_cast hd.1
  have hd2 : -1 ≤ n - rintEven x := by exact_mod_cast hd.2
  have : n - rintEven x = 0 ∨ n - rintEven x = 1 ∨ n - rintEven x = -1 := by omega
  rcases this with h | h | h
  · omega
  · -- `n = r + 1`: both are at distance exactly 1/2, so both are even — impossible
    exfalso
    have hc : (n : ℚ) = (rintEven x : ℚ) + 1 := by
      have : ((n - rintEven x : Int) : ℚ) = 1 := by rw [h]; norm_num
      push_cast at this; linarith
    have e1 : x - (rintEven x : ℚ) = 1 / 2 := by linarith [hn.1, hr.2]
    have e2 : x - (n : ℚ) = -(1 / 2) := by linarith
    have p1 := hre (by rw [e1]; norm_num)
    have p2 := he (by rw [e2]; norm_num)
    omega
  · exfalso
    have hc : (n : ℚ) = (rintEven x : ℚ) - 1 := by
      have : ((n - rintEven x : Int) : ℚ) = -1 := by rw [h]; norm_num
      push_cast at this; linarith
    have e1 : x - (rintEven x : ℚ) = -(1 / 2) := by linarith [hn.2, hr.1]
    have e2 : x - (n : ℚ) = 1 / 2 := by linarith
    have p1 := hre (by rw [e1]; norm_num)
    have p2 := he (by rw [e2]; norm_num)
    omega

theorem rintEven_mem_nearest (x : ℚ) : rintEven x ∈ nearestInts x := by
  rw [rintEven_eq_rint]; exact rint_mem_nearest x

/-- the half-even correspondent is the model's `col_right`, and one of the loose candidates -/
theorem correspondentEven_eq_colRight (dL : List Val) (c : Nat) :
    correspondentEven dL c = colRight c (dL.getD c .nan) := by
  unfold correspondentEven colRight
  cases dL.getD c .nan with
  | nan => rfl
  | num d => simp only [rintEven_eq_rint]

theorem correspondentEven_mem (dL : List Val) (c : Nat) (q : Int) (h : correspondentEven dL c = some q) :
    q ∈ correspondents dL c := by
  unfold correspondentEven at h
  unfold correspondents
  cases hd : dL.getD c .nan with
  | nan => rw [hd] at h; cases h
  | num d =>
    rw [hd] at h
    simp only [Option.some.injEq] at h
    simp only [List.mem_map]
    exact ⟨rintEven d, rintEven_mem_nearest d, h⟩

theorem correspondentEven_none (dL : List Val) (c : Nat) (h : correspondentEven dL c = none) :
    correspondents dL c = [] := by
  unfold correspondentEven at h
  unfold correspondents
  cases hd : dL.getD c .nan with
  | nan => rfl
  | num d => rw [hd] at h; cases h

/-! ## The witness: strict ⇒ half-even ⇒ loose -/

theorem witnessEven_of_strict (P : Params) (dR : List Val) (c : Nat) (h : witness true P dR c = true) :
    witnessEven P dR c = true := by
  simp only [witness, witnessEven, List.any_eq_true] at *
  obtain ⟨d, hd, hm⟩ := h
  refine ⟨d, hd, ?_⟩
  cases hc : cell dR ((c : Int) + d) with
  | none => rw [hc] at hm; cases hm
  | some v =>
    cases v with
    | nan => rw [hc] at hm; cases hm
    | num v =>
      rw [hc] at hm
      simp only [↓reduceIte, beq_iff_eq] at hm
      simp only [beq_iff_eq, rintEven_eq_rint]
      exact rint_of_singleton v (-d) hm

theorem witness_loose_of_even (P : Params) (dR : List Val) (c : Nat) (h : witnessEven P dR c = true) :
    witness false P dR c = true := by
  simp only [witness, witnessEven, List.any_eq_true] at *
  obtain ⟨d, hd, hm⟩ := h
  refine ⟨d, hd, ?_⟩
  cases hc : cell dR ((c : Int) + d) with
  | none => rw [hc] at hm; cases hm
  | some v =>
    cases v with
    | nan => rw [hc] at hm; cases hm
    | num v =>
      rw [hc] at hm
      simp only [beq_iff_eq] at hm
      simp only [Bool.false_eq_true, ↓reduceIte, List.contains_eq_mem, decide_eq_true_eq]
      rw [← hm]
      exact rintEven_mem_nearest v

/-- **the search of the code decides the half-even witness exactly** (both directions — the loose reading
    only had `strict ⇒ found ⇒ loose`) -/
theorem comp_eq_one_iff_witnessEven (P : Params) (ncol : Nat) (dR : List Val) (c : Nat) (h : dR.length = ncol) :
    comp ncol dR c (arange P.dmin P.dmax) = 1 ↔ witnessEven P dR c = true := by
  rw [comp_eq_one_iff]
  simp only [witnessEven, List.any_eq_true]
  constructor
  · rintro ⟨d, hd, hm⟩
    refine ⟨d, hd, ?_⟩
    simp only [matchAt, dispRightAt_eq_cell _ _ _ h] at hm
    cases hc : cell dR ((c : Int) + d) with
    | none => rw [hc] at hm; cases hm
    | some v =>
      cases v with
      | nan => rw [hc] at hm; cases hm
      | num v => rw [hc] at hm; simpa only [rintEven_eq_rint] using hm
  · rintro ⟨d, hd, hm⟩
    refine ⟨d, hd, ?_⟩
    simp only [matchAt, dispRightAt_eq_cell _ _ _ h]
    cases hc : cell dR ((c : Int) + d) with
    | none => rw [hc] at hm; cases hm
    | some v =>
      cases v with
      | nan => rw [hc] at hm; cases hm
      | num v => rw [hc] at hm; simpa only [rintEven_eq_rint] using hm

/-! ## One pixel -/

/-- `flagged_clauses` for the half-even clauses -/
theorem flagged_clausesEven (P : Params) (ncol : Nat) (dL dR : List Val) (c flag : Nat) (conf : Conf) (q : Option Int)
    (hlen : dR.length = ncol) (hv : Flags.isInvalid flag = false)
    (hcons : consistentOpt P dL dR c q = false)
    (hconf : confOKOpt dL dR c conf q = true) :
    allOK (clausesValidEven P dL dR c flag
      ⟨flag + Flags.occlusion + Flags.mismatch * comp ncol dR c (arange P.dmin P.dmax)
        - Flags.occlusion * comp ncol dR c (arange P.dmin P.dmax), conf⟩ q) = true := by
  obtain ⟨h8, h9⟩ := valid_bits_clear flag hv
  have hk := comp_cases ncol dR c (arange P.dmin P.dmax)
  obtain ⟨b9, b8, hsame⟩ := flag_arith flag _ h8 h9 hk
  have hiff := comp_eq_one_iff_witnessEven P ncol dR c hlen
  simp only [clausesValidEven, hcons, Bool.false_eq_true, ↓reduceIte, allOK, List.all_cons, List.all_nil, Bool.and_true,
    Bool.and_eq_true, hsame, hconf, b9, b8]
  rcases hk with hk | hk
  · have hw : witnessEven P dR c = false := by
      by_contra hw
      have := hiff.mpr (by simpa using hw)
      omega
    simp [hk, hw]
  · have hw := hiff.mp hk
    simp [hk, hw]

/-- `ccInside_clauses` for the half-even clauses -/
theorem ccInside_clausesEven (P : Params) (ncol : Nat) (dL dR : List Val) (c flag : Nat) (qi : Int)
    (hlen : dR.length = ncol) (hv : Flags.isInvalid flag = false) (h0 : 0 ≤ qi) (h1 : qi < (ncol : Int)) :
    allOK (clausesValidEven P dL dR c flag (ccInside P ncol dL dR c flag qi) (some qi)) = true := by
  have hcell : cell dR qi = some (dR.getD qi.toNat .nan) := cell_inrange dR qi h0 (by rw [hlen]; exact h1)
  have hdist : distance dL dR c qi
      = some (absSum (nanToInf (dR.getD qi.toNat .nan)) (nanToInf (dL.getD c .nan))) := by
    simp only [distance, hcell]
  unfold ccInside
  simp only
  cases hx : absSum (nanToInf (dR.getD qi.toNat .nan)) (nanToInf (dL.getD c .nan)) with
  | inf =>
    simp only [Ext.gt, ↓reduceIte]
    apply flagged_clausesEven P ncol dL dR c flag _ (some qi) hlen hv
    · simp only [consistentOpt, consistentAt, hdist, hx]
    · simp only [confOKOpt, hdist, hx, beq_self_eq_true]
  | fin x =>
    simp only [Ext.gt]
    by_cases hgt : P.threshold < x
    · simp only [hgt, decide_true, ↓reduceIte]
      apply flagged_clausesEven P ncol dL dR c flag _ (some qi) hlen hv
      · simp only [consistentOpt, consistentAt, hdist, hx, decide_eq_false_iff_not, not_le]; exact hgt
      · simp only [confOKOpt, hdist, hx, beq_self_eq_true]
    · have hle : x ≤ P.threshold := not_lt.mp hgt
      simp only [hgt, decide_false, Bool.false_eq_true, ↓reduceIte]
      have hcons : consistentOpt P dL dR c (some qi) = true := by
        simp only [consistentOpt, consistentAt, hdist, hx, decide_eq_true_eq]; exact hle
      simp only [clausesValidEven, hcons, ↓reduceIte, allOK, List.all_cons, List.all_nil, Bool.and_true,
        beq_self_eq_true, confOKOpt, hdist, hx]

/-- **C07 half-even, one pixel whose correspondent is in the image (or that was already invalid)**, any variant:
    same hypotheses as `ccPixel_spec_partial`. -/
theorem ccPixel_specEven_partial (V : Variant) (P : Params) (ncol : Nat) (dL dR : List Val) (c flag : Nat)
    (hlen : dR.length = ncol)
    (hin : Flags.isInvalid flag = false → insideRight ncol (colRight c (dL.getD c .nan)) = true) :
    allOK (clausesPixEven P false dL dR c flag (ccPixel V P ncol dL dR c flag)) = true := by
  by_cases hv : Flags.isInvalid flag = true
  · simp [clausesPixEven, ccPixel, hv, allOK]
  · have hv' : Flags.isInvalid flag = false := by simpa using hv
    have hi := hin hv'
    cases hd : dL.getD c .nan with
    | nan => rw [hd] at hi; simp [colRight, insideRight] at hi
    | num d =>
      rw [hd] at hi
      simp only [colRight, insideRight, Bool.and_eq_true, decide_eq_true_eq] at hi
      have hmodel : ccPixel V P ncol dL dR c flag = ccInside P ncol dL dR c flag ((c : Int) + rint d) := by
        simp only [ccPixel, hv', Bool.false_eq_true, ↓reduceIte, hd, colRight, insideRight, hi.1, hi.2, decide_true,
          Bool.and_self]
      have hq : correspondentEven dL c = some ((c : Int) + rint d) := by
        simp only [correspondentEven, hd, rintEven_eq_rint]
      rw [hmodel]
      simp only [clausesPixEven, Bool.false_eq_true, ↓reduceIte, hv', hq]
      exact ccInside_clausesEven P ncol dL dR c flag _ hlen hv' hi.1 hi.2

/-- **C07 half-even, one pixel, repaired code (`ruleFix` — the source today): every clause, for every input**;
    same hypotheses as `ccPixel_ruleFix_spec`. -/
theorem ccPixel_ruleFix_specEven (P : Params) (ncol : Nat) (dL dR : List Val) (c flag : Nat) (hlen : dR.length = ncol) :
    allOK (clausesPixEven P false dL dR c flag (ccPixel .ruleFix P ncol dL dR c flag)) = true := by
  by_cases hin : Flags.isInvalid flag = false → insideRight ncol (colRight c (dL.getD c .nan)) = true
  · exact ccPixel_specEven_partial .ruleFix P ncol dL dR c flag hlen hin
  · simp only [Classical.not_imp, Bool.not_eq_true] at hin
    obtain ⟨hv, hout⟩ := hin
    have hmodel : ccPixel .ruleFix P ncol dL dR c flag
        = ⟨flag + Flags.occlusion + Flags.mismatch * comp ncol dR c (arange P.dmin P.dmax)
            - Flags.occlusion * comp ncol dR c (arange P.dmin P.dmax), .nan⟩ := by
      simp only [ccPixel, ccOutside, hv, Bool.false_eq_true, ↓reduceIte, hout]
    rw [hmodel]
    cases hd : dL.getD c .nan with
    | nan =>
      have hq : correspondentEven dL c = none := by simp only [correspondentEven, hd]
      simp only [clausesPixEven, Bool.false_eq_true, ↓reduceIte, hv, hq]
      exact flagged_clausesEven P ncol dL dR c flag .nan none hlen hv rfl rfl
    | num d =>
      rw [hd] at hout
      simp only [colRight, insideRight, Bool.and_eq_false_iff, decide_eq_false_iff_not] at hout
      have hout' : ¬(0 ≤ (c : Int) + rint d ∧ (c : Int) + rint d < (ncol : Int)) := by
        rintro ⟨h0, h1⟩
        rcases hout with h | h
        · exact h h0
        · exact h h1
      obtain ⟨hnc, hcf⟩ := outside_not_consistent P ncol dL dR c .nan _ hlen hout'
      have hq : correspondentEven dL c = some ((c : Int) + rint d) := by
        simp only [correspondentEven, hd, rintEven_eq_rint]
      simp only [clausesPixEven, Bool.false_eq_true, ↓reduceIte, hv, hq]
      exact flagged_clausesEven P ncol dL dR c flag .nan (some _) hlen hv hnc hcf

/-! ## The whole map -/

/-- the per-cell step from a per-pixel theorem to the map (border and non-border cells) -/
theorem check_specEven_of_pixel (V : Variant) (P : Params) (A B : Dataset)
    (r c : Nat) (dL dR : List Val) (mL : List Nat)
    (hA : A.disp[r]? = some dL) (hB : B.disp[r]? = some dR) (hM : A.mask[r]? = some mL) (hc : c < dL.length)
    (hpix : ¬(P.offset > 0 ∧ isBorder P.offset A.disp.length dL.length r c = true) →
      allOK (clausesPixEven P false dL dR c (mL.getD c 0) (ccPixel V P dL.length dL dR c (mL.getD c 0))) = true) :
    allOK (clausesPixEven P (decide (P.offset > 0) && isBorder P.offset A.disp.length dL.length r c)
      dL dR c (mL.getD c 0) (outPix (check V P A B) r c)) = true := by
  rw [check_pix V P A B r c dL dR mL hA hB hM hc]
  by_cases hb : P.offset > 0 ∧ isBorder P.offset A.disp.length dL.length r c = true
  · have : (decide (P.offset > 0) && isBorder P.offset A.disp.length dL.length r c) = true := by
      simp [hb.1, hb.2]
    simp [clausesPixEven, hb, allOK]
  · have hb' : (decide (P.offset > 0) && isBorder P.offset A.disp.length dL.length r c) = false := by
      by_contra hcon
      simp only [Bool.not_eq_false, Bool.and_eq_true, decide_eq_true_eq] at hcon
      exact hb hcon
    rw [hb']
    simp only [hb, ↓reduceIte]
    exact hpix hb

/-- **C07 half-even, the whole map — partial** (any variant; same hypotheses as `check_spec_partial`).
    Full-strength statement (false of `asIs` / `orFix`, finding C07-F1; true of `ruleFix`,
    `check_specEven_ruleFix`): the same without `hin`. -/
theorem check_specEven_partial (V : Variant) (P : Params) (A B : Dataset) (hw : WfShapes A B)
    (hin : ∀ (r c : Nat) (dL : List Val) (mL : List Nat), A.disp[r]? = some dL → A.mask[r]? = some mL → c < dL.length →
      ¬(P.offset > 0 ∧ isBorder P.offset A.disp.length dL.length r c = true) →
      Flags.isInvalid (mL.getD c 0) = false → insideRight dL.length (colRight c (dL.getD c .nan)) = true)
    (r c : Nat) (dL dR : List Val) (mL : List Nat)
    (hA : A.disp[r]? = some dL) (hB : B.disp[r]? = some dR) (hM : A.mask[r]? = some mL) (hc : c < dL.length) :
    allOK (clausesPixEven P (decide (P.offset > 0) && isBorder P.offset A.disp.length dL.length r c)
      dL dR c (mL.getD c 0) (outPix (check V P A B) r c)) = true := by
  obtain ⟨-, -, hrows⟩ := hw
  obtain ⟨hlenR, -⟩ := hrows r dL dR mL hA hB hM
  exact check_specEven_of_pixel V P A B r c dL dR mL hA hB hM hc fun hb =>
    ccPixel_specEven_partial V P dL.length dL dR c (mL.getD c 0) hlenR (fun hv => hin r c dL mL hA hM hc hb hv)

/-- **C07 half-even, the whole map, repaired code: every clause at every cell of every map**
    (same hypotheses as `check_spec_ruleFix`). -/
theorem check_specEven_ruleFix (P : Params) (A B : Dataset) (hw : WfShapes A B)
    (r c : Nat) (dL dR : List Val) (mL : List Nat)
    (hA : A.disp[r]? = some dL) (hB : B.disp[r]? = some dR) (hM : A.mask[r]? = some mL) (hc : c < dL.length) :
    allOK (clausesPixEven P (decide (P.offset > 0) && isBorder P.offset A.disp.length dL.length r c)
      dL dR c (mL.getD c 0) (outPix (check .ruleFix P A B) r c)) = true := by
  obtain ⟨-, -, hrows⟩ := hw
  obtain ⟨hlenR, -⟩ := hrows r dL dR mL hA hB hM
  exact check_specEven_of_pixel .ruleFix P A B r c dL dR mL hA hB hM hc fun _ =>
    ccPixel_ruleFix_specEven P dL.length dL dR c (mL.getD c 0) hlenR

/-- **C07 half-even for the source as it is now** (variant regenerated from the source text; same hypotheses as
    `source_check_spec`). -/
theorem source_check_specEven (P : Params) (A B : Dataset) (hw : WfShapes A B)
    (hin : ∀ (r c : Nat) (dL : List Val) (mL : List Nat), A.disp[r]? = some dL → A.mask[r]? = some mL → c < dL.length →
      ¬(P.offset > 0 ∧ isBorder P.offset A.disp.length dL.length r c = true) →
      Flags.isInvalid (mL.getD c 0) = false → insideRight dL.length (colRight c (dL.getD c .nan)) = true)
    (r c : Nat) (dL dR : List Val) (mL : List Nat)
    (hA : A.disp[r]? = some dL) (hB : B.disp[r]? = some dR) (hM : A.mask[r]? = some mL) (hc : c < dL.length) :
    allOK (clausesPixEven P (decide (P.offset > 0) && isBorder P.offset A.disp.length dL.length r c)
      dL dR c (mL.getD c 0) (outPix (check sourceVariant P A B) r c)) = true :=
  check_specEven_partial sourceVariant P A B hw hin r c dL dR mL hA hB hM hc

/-- the source read today carries the repair of C07-F1 (`Generated/RefineCC.lean`, regenerated on every run: this
    stops building if the source goes back to `&` or stops searching the outside pixels) -/
theorem source_is_ruleFix : sourceVariant = .ruleFix := by decide

/-- **C07 half-even for the source as it is now, the statement without exception**: every clause at every cell
    of every map, no hypothesis on where the correspondents fall. -/
theorem source_check_specEven_full (P : Params) (A B : Dataset) (hw : WfShapes A B)
    (r c : Nat) (dL dR : List Val) (mL : List Nat)
    (hA : A.disp[r]? = some dL) (hB : B.disp[r]? = some dR) (hM : A.mask[r]? = some mL) (hc : c < dL.length) :
    allOK (clausesPixEven P (decide (P.offset > 0) && isBorder P.offset A.disp.length dL.length r c)
      dL dR c (mL.getD c 0) (outPix (check sourceVariant P A B) r c)) = true := by
  rw [source_is_ruleFix]
  exact check_specEven_ruleFix P A B hw r c dL dR mL hA hB hM hc

/-! ## The half-even clauses refine the loose ones -/

/-- **clause by clause, for one correspondent**: a loose clause that fails has a half-even clause of the same
    name that fails — the half-even reading never accepts what the loose one rejects -/
theorem clausesValid_of_even (P : Params) (dL dR : List Val) (c flag : Nat) (o : PixOut) (q : Option Int)
    (name : String) (h : (name, false) ∈ clausesValid P dL dR c flag o q) :
    (name, false) ∈ clausesValidEven P dL dR c flag o q := by
  unfold clausesValid at h
  unfold clausesValidEven
  by_cases hcons : consistentOpt P dL dR c q = true
  · rw [if_pos hcons] at h ⊢; exact h
  · rw [if_neg hcons] at h ⊢
    have ws : witness true P dR c = true → witnessEven P dR c = true := witnessEven_of_strict P dR c
    have wl : witnessEven P dR c = true → witness false P dR c = true := witness_loose_of_even P dR c
    simp only [List.mem_cons, Prod.mk.injEq, List.not_mem_nil, or_false] at h ⊢
    rcases h with h | h | h | h | h | h
    · exact Or.inl h
    · refine Or.inr (Or.inl ⟨h.1, ?_⟩)
      have h2 := h.2
      revert h2 ws wl
      cases witness true P dR c <;> cases witness false P dR c <;> cases witnessEven P dR c <;>
        cases (bitAt o.flag 9 == 1) <;> simp
    · refine Or.inr (Or.inr (Or.inl ⟨h.1, ?_⟩))
      have h2 := h.2
      revert h2 ws wl
      cases witness true P dR c <;> cases witness false P dR c <;> cases witnessEven P dR c <;>
        cases (bitAt o.flag 8 == 1) <;> simp
    · exact Or.inr (Or.inr (Or.inr (Or.inl h)))
    · exact Or.inr (Or.inr (Or.inr (Or.inr (Or.inl h))))
    · exact Or.inr (Or.inr (Or.inr (Or.inr (Or.inr h))))

theorem allOK_iff_no_false (l : List (String × Bool)) : allOK l = true ↔ ∀ name, (name, false) ∉ l := by
  unfold allOK
  rw [List.all_eq_true]
  constructor
  · intro h name hm
    have := h _ hm
    simp at this
  · intro h x hx
    cases hb : x.2 with
    | true => rfl
    | false => exact absurd (by rw [← hb]; exact hx) (h x.1)

theorem clausesValid_allOK_of_even (P : Params) (dL dR : List Val) (c flag : Nat) (o : PixOut) (q : Option Int)
    (h : allOK (clausesValidEven P dL dR c flag o q) = true) : allOK (clausesValid P dL dR c flag o q) = true := by
  rw [allOK_iff_no_false] at h ⊢
  exact fun name hm => h name (clausesValid_of_even P dL dR c flag o q name hm)

/-- **for the pixel**: an output that satisfies the half-even clauses satisfies the loose ones (the half-even
    correspondent is one of the admissible candidates) — any output, any input -/
theorem clausesPix_of_even (P : Params) (border : Bool) (dL dR : List Val) (c flag : Nat) (o : PixOut)
    (h : allOK (clausesPixEven P border dL dR c flag o) = true) : allOK (clausesPix P border dL dR c flag o) = true := by
  cases border with
  | true => simpa [clausesPixEven, clausesPix] using h
  | false =>
    by_cases hv : Flags.isInvalid flag = true
    · simpa [clausesPixEven, clausesPix, hv] using h
    · have hv' : Flags.isInvalid flag = false := by simpa using hv
      simp only [clausesPixEven, Bool.false_eq_true, ↓reduceIte, hv'] at h
      have h' := clausesValid_allOK_of_even P dL dR c flag o _ h
      cases hq : correspondentEven dL c with
      | none =>
        rw [hq] at h'
        simp only [clausesPix, Bool.false_eq_true, ↓reduceIte, hv', correspondentEven_none dL c hq]
        exact h'
      | some q =>
        rw [hq] at h'
        exact clausesPix_of_candidate P dL dR c flag o q hv' (correspondentEven_mem dL c q hq) h'

/-- in the driver's terms: no failing half-even clause ⇒ no failing loose clause -/
theorem failingPix_nil_of_even (P : Params) (border : Bool) (dL dR : List Val) (c flag : Nat) (o : PixOut)
    (h : failingPixEven P border dL dR c flag o = []) : failingPix P border dL dR c flag o = [] := by
  have conv : ∀ l : List (String × Bool), (l.filter (fun x => !x.2)).map (·.1) = [] ↔ allOK l = true := by
    intro l
    simp [allOK, List.filter_eq_nil_iff]
  unfold failingPix failingPixEven at *
  rw [conv] at h ⊢
  exact clausesPix_of_even P border dL dR c flag o h

/-- away from ties the two readings are the same clauses: when `dL(p)` has a single nearest integer and the strict
    and loose witnesses agree, every half-even clause has the truth value of the loose clause of the same
    position — nothing new can fail at such a pixel -/
theorem clausesPixEven_eq_of_no_tie (P : Params) (border : Bool) (dL dR : List Val) (c flag : Nat) (o : PixOut)
    (h : isTiePix P dL dR c = false) :
    (clausesPixEven P border dL dR c flag o).map (·.2) = (clausesPix P border dL dR c flag o).map (·.2)
    ∧ (clausesPixEven P border dL dR c flag o).map (·.1) = (clausesPix P border dL dR c flag o).map (·.1) := by
  simp only [isTiePix, Bool.or_eq_false_iff, decide_eq_false_iff_not, bne_eq_false_iff_eq] at h
  obtain ⟨hlen, hw⟩ := h
  have hwe : witnessEven P dR c = witness true P dR c := by
    cases hs : witness true P dR c with
    | true => exact witnessEven_of_strict P dR c hs
    | false =>
      cases he : witnessEven P dR c with
      | false => rfl
      | true => rw [witness_loose_of_even P dR c he, hs] at hw; cases hw
  have hval : ∀ q, (clausesValidEven P dL dR c flag o q).map (·.2) = (clausesValid P dL dR c flag o q).map (·.2)
      ∧ (clausesValidEven P dL dR c flag o q).map (·.1) = (clausesValid P dL dR c flag o q).map (·.1) := by
    intro q
    unfold clausesValidEven clausesValid
    split
    · exact ⟨rfl, rfl⟩
    · simp only [hwe, hw, List.map_cons, List.map_nil, List.cons.injEq, and_true, true_and]
      cases witness true P dR c <;> cases (bitAt o.flag 9 == 1) <;> cases (bitAt o.flag 8 == 1) <;> simp
  unfold clausesPixEven clausesPix
  split
  · exact ⟨rfl, rfl⟩
  · split
    · exact ⟨rfl, rfl⟩
    · cases hq : correspondentEven dL c with
      | none => rw [correspondentEven_none dL c hq]; exact hval none
      | some q =>
        have hm := correspondentEven_mem dL c q hq
        cases hl : correspondents dL c with
        | nil => rw [hl] at hm; cases hm
        | cons q' qs =>
          cases qs with
          | nil =>
            rw [hl] at hm
            simp only [List.mem_singleton] at hm
            subst hm
            exact hval (some q)
          | cons q'' qs' => rw [hl] at hlen; simp at hlen

/-! ## Non-vacuity; where the two readings differ -/

/-- the hypotheses of `check_specEven_ruleFix` are satisfiable by a non-trivial input: the map of
    `Properties/C07.lean` (kept pixel, mismatch, occlusion, kept tie `dL = 1/2`, invalid pixel) is well-shaped, and
    every cell satisfies the half-even clauses — computed -/
example : WfShapes exA exB
    ∧ ((List.range 5).all fun c =>
        allOK (clausesPixEven exParams false [.num 0, .num 1, .num (-1), .num (1/2), .num 0]
          [.num 1, .num 3, .num 2, .num 0, .num 0] c ([0, 0, 4, 0, 2].getD c 0)
          (outPix (check .ruleFix exParams exA exB) 0 c))) = true := by
  refine ⟨⟨rfl, rfl, ?_⟩, by decide +kernel⟩
  intro r dL dR mL hA hB hM
  cases r with
  | zero =>
    simp only [exA, exB, List.getElem?_cons_zero, Option.some.injEq] at hA hB hM
    subst hA hB hM
    exact ⟨rfl, rfl⟩
  | succ r => simp [exA] at hA

/-- the seeded situation: three columns, interval `[-1, 1]`, threshold 1/2; `dL(1) = 0` and `dR(1) = -1`: pixel 1
    is inconsistent; `dR(0) = 1/2` is an exact tie between 0 and 1 and `d = -1` asks for `round(1/2) = 1` -/
def tieParams : Params := { threshold := 1 / 2, dmin := -1, dmax := 1, offset := 0 }
def tieL : List Val := [.num 0, .num 0, .num 0]
def tieR : List Val := [.num (1/2), .num (-1), .num 0]

/-- **an exact tie where the two readings differ.**  Half-even: `round(1/2) = 0 ≠ 1`, no witness, pixel 1 is an
    *occlusion* — what the model (the code) answers: 256.  An output of 512 (*mismatch* — what a search testing
    `rint(dR(p+d) + d) = 0` answers, since `rint(1/2 - 1) = -0`) satisfies every loose clause (1 is *a* nearest
    integer of 1/2) and fails the half-even clauses `mismatch_iff_witness` and `occlusion_otherwise`. -/
theorem tie_readings_differ :
    witness true tieParams tieR 1 = false ∧ witness false tieParams tieR 1 = true
    ∧ witnessEven tieParams tieR 1 = false
    ∧ isTiePix tieParams tieL tieR 1 = true
    ∧ triggerOfEven tieParams false tieL tieR 1 0 = "half_integer_tie"
    ∧ ccPixel .ruleFix tieParams 3 tieL tieR 1 0 = ⟨256, .fin 1⟩
    ∧ failingPix tieParams false tieL tieR 1 0 ⟨256, .fin 1⟩ = []
    ∧ failingPixEven tieParams false tieL tieR 1 0 ⟨256, .fin 1⟩ = []
    ∧ failingPix tieParams false tieL tieR 1 0 ⟨512, .fin 1⟩ = []
    ∧ failingPixEven tieParams false tieL tieR 1 0 ⟨512, .fin 1⟩ = ["mismatch_iff_witness", "occlusion_otherwise"] := by
  decide +kernel

/-- **the other rounding site**: `dL(0) = 1/2` (tie between columns 0 and 1).  Half-even: the correspondent is
    column 0, where `dR = -1/2`: distance 0, the pixel is kept — what the model answers.  An output computed
    from the odd neighbour (column 1, `dR = 5`: flagged occlusion with 11/2 in the band) satisfies the loose
    clauses and fails the half-even ones. -/
theorem tie_correspondent_differs :
    correspondents [.num (1/2), .num 0] 0 = [0, 1] ∧ correspondentEven [.num (1/2), .num 0] 0 = some 0
    ∧ ccPixel .ruleFix tieParams 2 [.num (1/2), .num 0] [.num (-1/2), .num 5] 0 0 = ⟨0, .fin 0⟩
    ∧ failingPixEven tieParams false [.num (1/2), .num 0] [.num (-1/2), .num 5] 0 0 ⟨0, .fin 0⟩ = []
    ∧ failingPix tieParams false [.num (1/2), .num 0] [.num (-1/2), .num 5] 0 0 ⟨256, .fin (11/2)⟩ = []
    ∧ failingPixEven tieParams false [.num (1/2), .num 0] [.num (-1/2), .num 5] 0 0 ⟨256, .fin (11/2)⟩
        = ["kept_iff_consistent", "conf_band_value"] := by
  decide +kernel

/-- `rintEven` on ties and around them (`-3/2 ↦ -2`, `-1/2 ↦ 0`, `1/2 ↦ 0`, `3/2 ↦ 2`, `5/2 ↦ 2`) -/
example : [(-3/2 : Rat), -1/2, 1/2, 3/2, 5/2, 7/16, 9/16, -9/16, 2].map rintEven = [-2, 0, 0, 2, 2, 0, 1, -1, 2] := by
  decide +kernel

end Pandora.C07
