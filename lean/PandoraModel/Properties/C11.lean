/- C11 — theorems (placeholder until the property is built). -/
