/-
  C11 — Cross-based aggregation averages costs over the combined support region.

  Model and specification: `Model/Cbca.lean`.  What the source says now: `Generated/Cbca.lean`
  (translator/gen_cbca.py: the "minimum 1" rule of `cross_support`, the statements of steps 1–4).

  Theorems (all for unbounded image sizes, any masks, any cost volume, any disparity list):

  1. arms            `armCoded_eq_armRef`, `crossSupport_eq_crossRef` : the four arm loops as coded compute the
                     declarative arm `armRef` for every `cbca_distance ≥ 2` (and every distance ≥ 1 with the
                     repaired minimum rule); `armOk_iff` : `armRef` is the unique arm length satisfying the five
                     sub-clauses stop_masked / stop_distance / stop_intensity / min_one / maximal;
                     `arms_counterexample_distance_one` : with distance 1 the coded rule crosses a masked pixel.
  2. prefix sums     `s1At_diff` : S(x + r) − S(x − l − 1) = Σ_{x−l … x+r}, including the `-1 → sentinel` wrap.
  3. steps           `step2_eq_rowsum`, `step4_eq_colsum`, `step4_eq_regionsum`, `sum4_eq_card`;
                     `mem_region`, `nodup_region` : the region list is exactly the set of pixels reached by the
                     vertical arm and then the horizontal arms, each once.
  4. cells           `aggOut_spec`, `aggOut_isNan`.
  5. whole step      `crossSupport_in_image`, `cbca_spec`, `cbca_spec_source`, `nan_stays`, `no_new_nan`,
                     `plane_independent`, `median3_isNan`, `filteredL_isNan`, `filteredR_isNan`.

  Modelled, not verified: IEEE rounding (the theorems are over ℚ), `np.nanmedian`, scipy `zoom` (linear
  interpolation), numpy slicing.  Hypothesis `nanOutside`: input costs are NaN where the disparity has no
  facing right column (true of every cost volume the matching-cost step produces; sampled by the harness).
-/
import PandoraModel.Model.Cbca
import PandoraModel.Generated.Cbca
import Mathlib.Tactic.Ring
import Mathlib.Tactic.Linarith
import Mathlib.Data.List.Nodup

namespace Pandora.C11
open Pandora Pandora.Cbca

/-! ## 1. Arms -/

/-- number of consecutive offsets `k+1, k+2, …` (at most `fuel`) without a jump -/
def cnt (I : Rat) (px : Nat → Val) : Nat → Nat → Nat
  | 0, _ => 0
  | fuel + 1, k => if jump I (px 0) (px (k + 1)) then 0 else 1 + cnt I px fuel (k + 1)

theorem cnt_le (I px) : ∀ fuel k, cnt I px fuel k ≤ fuel := by
  intro fuel
  induction fuel with
  | zero => intro k; simp [cnt]
  | succ n ih =>
    intro k
    unfold cnt
    split
    · omega
    · have := ih (k + 1); omega

theorem cnt_nojump (I px) : ∀ fuel k j, j < cnt I px fuel k → jump I (px 0) (px (k + j + 1)) = false := by
  intro fuel
  induction fuel with
  | zero => intro k j h; simp [cnt] at h
  | succ n ih =>
    intro k j h
    unfold cnt at h
    split at h
    · omega
    · rename_i hj
      cases j with
      | zero => simpa using hj
      | succ j =>
        have := ih (k + 1) j (by omega)
        have e : k + 1 + j + 1 = k + (j + 1) + 1 := by omega
        rw [e] at this; exact this

theorem cnt_stop (I px) : ∀ fuel k, cnt I px fuel k < fuel → jump I (px 0) (px (k + cnt I px fuel k + 1)) = true := by
  intro fuel
  induction fuel with
  | zero => intro k h; simp [cnt] at h
  | succ n ih =>
    intro k h
    unfold cnt at h ⊢
    split
    · rename_i hj; simpa using hj
    · rename_i hj
      simp only [hj] at h
      have := ih (k + 1) (by simp at h; omega)
      have e : k + 1 + cnt I px n (k + 1) + 1 = k + (1 + cnt I px n (k + 1)) + 1 := by omega
      rw [e] at this; exact this

/-- `cnt` is determined by: no jump before `m`, and a jump at `m` unless the fuel is exhausted -/
theorem cnt_unique (I px) : ∀ fuel k m, m ≤ fuel → (∀ j, j < m → jump I (px 0) (px (k + j + 1)) = false) →
    (m < fuel → jump I (px 0) (px (k + m + 1)) = true) → cnt I px fuel k = m := by
  intro fuel
  induction fuel with
  | zero => intro k m h _ _; simp [cnt]; omega
  | succ n ih =>
    intro k m hm hno hstop
    unfold cnt
    cases m with
    | zero =>
      have := hstop (by omega)
      simp at this
      simp [this]
    | succ m =>
      have h0 := hno 0 (by omega)
      simp at h0
      simp only [h0]
      have := ih (k + 1) m (by omega)
        (fun j hj => by have := hno (j + 1) (by omega); rw [show k + (j + 1) + 1 = k + 1 + j + 1 by omega] at this; exact this)
        (fun hlt => by have := hstop (by omega); rw [show k + (m + 1) + 1 = k + 1 + m + 1 by omega] at this; exact this)
      simp [this]; omega

theorem armLoop_eq (I px) : ∀ fuel k, armLoop I px fuel k =
    (k + cnt I px fuel k, if cnt I px fuel k < fuel then k + cnt I px fuel k + 1 else k + cnt I px fuel k) := by
  intro fuel
  induction fuel with
  | zero => intro k; simp [armLoop, cnt]
  | succ n ih =>
    intro k
    unfold armLoop cnt
    split
    · simp
    · rw [ih (k + 1)]
      have := cnt_le I px n (k + 1)
      ext
      · simp; omega
      · simp only
        split <;> split <;> omega

theorem takeWhile_range_length (I px) :
    ∀ n k, ((List.range n).takeWhile (fun j => !jump I (px 0) (px (j + k + 1)))).length = cnt I px n k := by
  intro n
  induction n with
  | zero => intro k; simp [cnt]
  | succ n ih =>
    intro k
    rw [List.range_succ_eq_map, List.takeWhile_cons]
    unfold cnt
    by_cases hj : jump I (px 0) (px (k + 1)) = true
    · simp [hj]
    · simp only [Bool.not_eq_true] at hj
      simp only [Nat.zero_add, hj, Bool.not_false, ↓reduceIte, List.length_cons, Bool.false_eq_true]
      rw [List.takeWhile_map, List.length_map]
      have := ih (k + 1)
      have e : ((fun j => !jump I (px 0) (px (j + k + 1))) ∘ Nat.succ) = (fun j => !jump I (px 0) (px (j + (k + 1) + 1))) := by
        funext j; simp [Function.comp]; congr 2; omega
      rw [e, this]; omega

theorem runLen_eq_cnt (I px n) : runLen I px n = cnt I px n 0 := by
  unfold runLen
  have := takeWhile_range_length I px n 0
  simpa using this


/-! ### the arms as coded are the specified arms -/

theorem jump_nan_right (I : Rat) (a b : Val) (h : b.isNum = false) : jump I a b = true := by
  cases a <;> cases b <;> simp_all [jump, Val.isNum, Val.isNan]

theorem armCoded_eq_armRef (mr : MinRule) (I : Rat) (px : Nat → Val) (dist room : Nat)
    (h : mr = .neighbour ∨ 2 ≤ dist) (h0 : (px 0).isNum = true) :
    armCoded mr I px dist room = armRef I px dist room := by
  unfold armCoded armRef iters
  rw [armLoop_eq, runLen_eq_cnt]
  simp only [h0, ↓reduceIte, Nat.zero_add]
  generalize hn : min (dist - 1) room = n
  have hle := cnt_le I px n 0
  rcases h with h | h
  · subst h; rfl
  · cases mr with
    | neighbour => rfl
    | loopVar =>
      simp only
      by_cases hr : 1 ≤ room
      · have hn1 : 1 ≤ n := by omega
        by_cases hc : cnt I px n 0 = 0
        · -- the loop broke at the first neighbour: the loop variable is the neighbour
          simp [hc, show 0 < n by omega]
        · -- at least one pixel was accepted: the minimum rule adds nothing on either side
          have hc1 : 1 ≤ cnt I px n 0 := by omega
          have e1 : ∀ b : Bool, max (cnt I px n 0) (if b then 1 else 0) = cnt I px n 0 := by
            intro b; cases b <;> simp; omega
          rw [e1, e1]
      · simp [hr]

theorem crossSupport_eq_crossRef (mr : MinRule) (H W dist : Nat) (I : Rat) (img : Img)
    (h : mr = .neighbour ∨ 2 ≤ dist) (y x : Nat) :
    crossSupport mr H W dist I img y x = crossRef H W dist I img y x := by
  unfold crossSupport crossRef
  by_cases h0 : (img y x).isNum = true
  · simp only [h0, ↓reduceIte]
    have e1 := armCoded_eq_armRef mr I (fun k => img y (x - k)) dist x h (by simpa using h0)
    have e2 := armCoded_eq_armRef mr I (fun k => img y (x + k)) dist (W - 1 - x) h (by simpa using h0)
    have e3 := armCoded_eq_armRef mr I (fun k => img (y - k) x) dist y h (by simpa using h0)
    have e4 := armCoded_eq_armRef mr I (fun k => img (y + k) x) dist (H - 1 - y) h (by simpa using h0)
    rw [e1, e2, e3, e4]
  · simp only [h0, Bool.false_eq_true, ↓reduceIte]
    simp [armRef, h0]

/-- With `cbca_distance = 1` the arm loops never run and the rule as coded (`loopVar`) tests the anchor
    itself: row `[1, 1, masked, 1, 1]`, anchor at column 1, right arm: 1 as coded, 0 as specified. -/
def f9Row : Img := fun _ x => if x = 2 then .nan else .num 1

theorem arms_counterexample_distance_one :
    (crossSupport .loopVar 1 5 1 5 f9Row 0 1).right = 1 ∧ (crossRef 1 5 1 5 f9Row 0 1).right = 0
    ∧ (crossSupport .neighbour 1 5 1 5 f9Row 0 1).right = 0 := by decide


/-! ### the declarative arm is characterised by the five sub-clauses -/

theorem nojump_isNum (I : Rat) (a b : Val) (h : jump I a b = false) : b.isNum = true := by
  cases a <;> cases b <;> simp_all [jump, Val.isNum, Val.isNan]

theorem armRef_ok (I : Rat) (px : Nat → Val) (dist room : Nat) :
    armOk I px dist room (armRef I px dist room) = true := by
  unfold armOk armRef armMaximal
  rw [runLen_eq_cnt]
  generalize hn : min (dist - 1) room = n
  by_cases h0 : (px 0).isNum = true
  · simp only [h0, ↓reduceIte]
    generalize hc : cnt I px n 0 = c
    have hle : c ≤ n := hc ▸ cnt_le I px n 0
    have hno : ∀ j, j < c → jump I (px 0) (px (j + 1)) = false := by
      intro j hj; have := cnt_nojump I px n 0 j (hc ▸ hj); simpa using this
    have hstop : c < n → jump I (px 0) (px (c + 1)) = true := by
      intro h; have := cnt_stop I px n 0 (hc ▸ h); simpa [hc] using this
    generalize hb : (decide (1 ≤ room) && (px 1).isNum) = b
    cases b with
    | false =>
      have hL : max c (if false = true then 1 else 0) = c := by simp
      rw [hL]
      simp only [armStopMasked, armStopDistance, armStopIntensity, armMinOne, h0, ↓reduceIte,
        Bool.and_eq_true, Bool.or_eq_true, decide_eq_true_eq, List.all_eq_true, List.mem_range, Bool.not_eq_true',
        Bool.not_true, Bool.false_eq_true, false_or]
      refine ⟨⟨⟨⟨⟨by omega, fun j hj => nojump_isNum I _ _ (hno j hj)⟩, by omega⟩, ?_⟩, ?_⟩, ?_⟩
      · by_cases h1 : c ≤ 1
        · exact Or.inl h1
        · exact Or.inr (fun j hj => by simp [hno j hj])
      · by_cases hc1 : 1 ≤ c
        · exact Or.inr hc1
        · left
          have : (decide (1 ≤ room) && (px 1).isNum) = false := hb
          simpa [h0] using this
      · by_cases hlt : c < n
        · right
          have hs := hstop hlt
          by_cases hc0 : c = 0
          · subst hc0; simpa using hs
          · by_cases hc1 : c = 1
            · subst hc1; simp; right; simpa using hs
            · simp [hc0, hc1, hs]
        · left; simpa using hlt
    | true =>
      have hb' : 1 ≤ room ∧ (px 1).isNum = true := by simpa using hb
      by_cases hc0 : c = 0
      · subst hc0
        have hL : max 0 (if true = true then 1 else 0) = 1 := by simp
        rw [hL]
        simp only [armStopMasked, armStopDistance, armStopIntensity, armMinOne, h0, ↓reduceIte,
          Bool.and_eq_true, Bool.or_eq_true, decide_eq_true_eq, List.all_eq_true, List.mem_range, Bool.not_eq_true',
          Bool.not_true, Bool.false_eq_true, false_or]
        refine ⟨⟨⟨⟨⟨hb'.1, fun j hj => ?_⟩, by omega⟩, Or.inl (by omega)⟩, Or.inr (by omega)⟩, ?_⟩
        · have : j = 0 := by omega
          subst this; simpa using hb'.2
        · by_cases hlt : 1 < n
          · right
            have := hstop (by omega)
            simp at this
            simp [this]
          · left; simpa using hlt
      · have hL : max c (if true = true then 1 else 0) = c := by simp; omega
        rw [hL]
        simp only [armStopMasked, armStopDistance, armStopIntensity, armMinOne, h0, ↓reduceIte,
          Bool.and_eq_true, Bool.or_eq_true, decide_eq_true_eq, List.all_eq_true, List.mem_range, Bool.not_eq_true',
          Bool.not_true, Bool.false_eq_true, false_or]
        refine ⟨⟨⟨⟨⟨by omega, fun j hj => nojump_isNum I _ _ (hno j hj)⟩, by omega⟩, ?_⟩, Or.inr (by omega)⟩, ?_⟩
        · by_cases h1 : c ≤ 1
          · exact Or.inl h1
          · exact Or.inr (fun j hj => by simp [hno j hj])
        · by_cases hlt : c < n
          · right
            have hs := hstop hlt
            by_cases hc1 : c = 1
            · subst hc1; simp; right; simpa using hs
            · simp [hc0, hc1, hs]
          · left; simpa using hlt
  · have h0' : (px 0).isNum = false := by simpa using h0
    simp [h0', armStopMasked, armStopDistance, armStopIntensity, armMinOne]


theorem armOk_unique (I : Rat) (px : Nat → Val) (dist room L : Nat)
    (h : armOk I px dist room L = true) : L = armRef I px dist room := by
  unfold armOk armMaximal at h
  unfold armRef
  rw [runLen_eq_cnt]
  generalize hn : min (dist - 1) room = n at h ⊢
  by_cases h0 : (px 0).isNum = true
  · simp only [armStopMasked, armStopDistance, armStopIntensity, armMinOne, h0, ↓reduceIte,
      Bool.and_eq_true, Bool.or_eq_true, decide_eq_true_eq, List.all_eq_true, List.mem_range, Bool.not_eq_true',
      Bool.not_true, Bool.false_eq_true, false_or, Bool.true_and] at h
    obtain ⟨⟨⟨⟨⟨hroom, hnum⟩, hdist⟩, hint⟩, hmin⟩, hmax⟩ := h
    simp only [h0, ↓reduceIte]
    have hmax' : L < n → (if L = 0 then jump I (px 0) (px 1)
        else if L = 1 then jump I (px 0) (px 1) || jump I (px 0) (px 2) else jump I (px 0) (px (L + 1))) = true := by
      intro hlt
      rcases hmax with hmax | hmax
      · simp at hmax; omega
      · exact hmax
    by_cases hL0 : L = 0
    · subst hL0
      have hb : (decide (1 ≤ room) && (px 1).isNum) = false := by
        rcases hmin with hmin | hmin
        · simpa using hmin
        · omega
      have hc : cnt I px n 0 = 0 := by
        apply cnt_unique I px n 0 0 (by omega) (fun j hj => by omega)
        intro hlt
        have := hmax' hlt
        simpa using this
      simp [hb, hc]
    · by_cases hL1 : L = 1
      · subst hL1
        have hb : (decide (1 ≤ room) && (px 1).isNum) = true := by
          have := hnum 0 (by omega)
          simp at this
          simp [this]; omega
        have hc : cnt I px n 0 ≤ 1 := by
          by_contra hgt
          have hgt : 2 ≤ cnt I px n 0 := by omega
          have hle := cnt_le I px n 0
          have j1 := cnt_nojump I px n 0 0 (by omega)
          have j2 := cnt_nojump I px n 0 1 (by omega)
          have := hmax' (by omega)
          simp at j1 j2
          simp [j1, j2] at this
        simp only [hb, ↓reduceIte]
        omega
      · have hL2 : 2 ≤ L := by omega
        have hLn : L ≤ n := by omega
        have hnj : ∀ j, j < L → jump I (px 0) (px (0 + j + 1)) = false := by
          intro j hj
          rcases hint with hint | hint
          · omega
          · have := hint j hj; simpa using this
        have hc : cnt I px n 0 = L := by
          apply cnt_unique I px n 0 L hLn hnj
          intro hlt
          have := hmax' hlt
          simpa [hL0, hL1] using this
        rw [hc]
        split <;> omega
  · have h0' : (px 0).isNum = false := by simpa using h0
    simp only [armStopMasked, h0', Bool.false_eq_true, ↓reduceIte, Bool.and_eq_true, decide_eq_true_eq, beq_iff_eq] at h
    simp [h0']
    omega

theorem armOk_iff (I : Rat) (px : Nat → Val) (dist room L : Nat) :
    armOk I px dist room L = true ↔ L = armRef I px dist room :=
  ⟨armOk_unique I px dist room L, fun h => h ▸ armRef_ok I px dist room⟩

/-! ## 2–4. Prefix sums, steps, cells -/

/-! ### prefix sums -/

/-- `Σ_{i < n} f (a + i)` -/
def sumRange (f : Nat → Rat) (a : Nat) : Nat → Rat
  | 0 => 0
  | n + 1 => sumRange f a n + f (a + n)

theorem sumRange_split (f : Nat → Rat) (a m : Nat) : ∀ n, sumRange f a (m + n) = sumRange f a m + sumRange f (a + m) n := by
  intro n
  induction n with
  | zero => simp [sumRange]
  | succ n ih =>
    rw [← Nat.add_assoc]
    simp only [sumRange, ih]
    rw [Nat.add_assoc a m n]
    ring

theorem sumRange_congr (f g : Nat → Rat) (a : Nat) : ∀ n, (∀ i, i < n → f (a + i) = g (a + i)) → sumRange f a n = sumRange g a n := by
  intro n
  induction n with
  | zero => intro _; rfl
  | succ n ih =>
    intro h
    simp only [sumRange]
    rw [ih (fun i hi => h i (by omega)), h n (by omega)]

theorem step1_eq (row : Nat → Val) : ∀ k, step1 row k = sumRange (fun x => c0 (row x)) 0 (k + 1) := by
  intro k
  induction k with
  | zero => simp [step1, sumRange]
  | succ k ih => simp only [step1, ih, sumRange]; simp

/-- reading the integral image at `x + r` (inside) -/
theorem s1At_hi (W : Nat) (row : Nat → Val) (x r : Nat) (h : x + r < W) :
    s1At W row ((x : Int) + (r : Int)) = step1 row (x + r) := by
  unfold s1At
  have h1 : ¬ ((x : Int) + (r : Int) < 0) := by omega
  simp only [h1, ↓reduceIte]
  have h2 : (0 : Int) ≤ (x : Int) + (r : Int) ∧ (x : Int) + (r : Int) < (W : Int) := by omega
  simp only [h2, and_self, ↓reduceIte]
  congr 1

/-- reading the integral image at `x - l - 1`: index `-1` wraps to the zero sentinel column -/
theorem s1At_lo (W : Nat) (row : Nat → Val) (x l : Nat) (hl : l ≤ x) (hx : x < W) :
    s1At W row ((x : Int) - (l : Int) - 1) = if l = x then 0 else step1 row (x - l - 1) := by
  unfold s1At
  by_cases h : l = x
  · subst h
    have h1 : ((l : Int) - (l : Int) - 1 < 0) := by omega
    simp only [h1, ↓reduceIte]
    have h2 : ¬ ((0 : Int) ≤ (l : Int) - (l : Int) - 1 + ((W : Int) + 1) ∧ (l : Int) - (l : Int) - 1 + ((W : Int) + 1) < (W : Int)) := by omega
    simp
  · have h1 : ¬ ((x : Int) - (l : Int) - 1 < 0) := by omega
    simp only [h1, ↓reduceIte, h]
    have h2 : (0 : Int) ≤ (x : Int) - (l : Int) - 1 ∧ (x : Int) - (l : Int) - 1 < (W : Int) := by omega
    simp only [h2, and_self, ↓reduceIte]
    congr 1
    omega

/-- the prefix-sum identity behind step 2: `S(x + r) − S(x − l − 1) = Σ_{x' = x − l}^{x + r} f x'` -/
theorem s1At_diff (W : Nat) (row : Nat → Val) (x l r : Nat) (hl : l ≤ x) (hr : x + r < W) :
    s1At W row ((x : Int) + (r : Int)) - s1At W row ((x : Int) - (l : Int) - 1)
      = sumRange (fun x' => c0 (row x')) (x - l) (l + r + 1) := by
  rw [s1At_hi W row x r hr, s1At_lo W row x l hl (by omega), step1_eq]
  by_cases h : l = x
  · subst h
    simp only [↓reduceIte, Nat.sub_self]
    rw [show l + r + 1 = l + r + 1 from rfl]
    ring_nf
  · simp only [h, ↓reduceIte]
    rw [step1_eq]
    have e : x + r + 1 = (x - l - 1 + 1) + (l + r + 1) := by omega
    rw [e, sumRange_split]
    have e2 : 0 + (x - l - 1 + 1) = x - l := by omega
    rw [e2]
    ring


/-! ### steps 2–4 -/

/-- arms of one pixel inside the image -/
def ArmsIn (H W : Nat) (a : Arms) (y x : Nat) : Prop := a.left ≤ x ∧ x + a.right < W ∧ a.top ≤ y ∧ y + a.bot < H

theorem armsInImage_spec {H W : Nat} {arms : Nat → Nat → Arms} (h : armsInImage H W arms = true)
    {y x : Nat} (hy : y < H) (hx : x < W) : ArmsIn H W (arms y x) y x := by
  unfold armsInImage at h
  simp only [List.all_eq_true, List.mem_range, Bool.and_eq_true, decide_eq_true_eq] at h
  have := h y hy x hx
  exact ⟨this.1.1.1, this.1.1.2, this.1.2, this.2⟩

theorem comb_some {P : Plane} {y x : Nat} {a : Arms} (h : comb P y x = some a) :
    ∃ xr, rightCol P.d P.Wr x = some xr ∧
      a = ⟨min (P.armsL y x).left (P.armsR y xr).left, min (P.armsL y x).right (P.armsR y xr).right,
           min (P.armsL y x).top (P.armsR y xr).top, min (P.armsL y x).bot (P.armsR y xr).bot⟩ := by
  unfold comb at h
  split at h
  · cases h
  · rename_i xr hxr
    exact ⟨xr, hxr, by simpa using h.symm⟩

/-- the facing column depends on the column only: every pixel of column `x` is visited when one is -/
theorem comb_isSome_col {P : Plane} {y x : Nat} {a : Arms} (h : comb P y x = some a) (y' : Nat) :
    ∃ a', comb P y' x = some a' := by
  obtain ⟨xr, hxr, _⟩ := comb_some h
  unfold comb
  simp [hxr]

theorem comb_in {P : Plane} {y x : Nat} {a : Arms} (h : comb P y x = some a)
    (hin : ArmsIn P.H P.W (P.armsL y x) y x) : ArmsIn P.H P.W a y x := by
  obtain ⟨xr, _, rfl⟩ := comb_some h
  obtain ⟨h1, h2, h3, h4⟩ := hin
  refine ⟨?_, ?_, ?_, ?_⟩ <;> simp only <;> omega

/-- `step2_eq_rowsum`: step 2 is the sum of the computable costs of row `y` over the combined horizontal arm -/
theorem step2_eq_rowsum (P : Plane) (y x : Nat) (a : Arms) (h : comb P y x = some a)
    (hl : a.left ≤ x) (hr : x + a.right < P.W) :
    step2 P y x = sumRange (fun x' => c0 (P.cv y x')) (x - a.left) (a.left + a.right + 1) := by
  unfold step2
  simp only [h]
  exact s1At_diff P.W (P.cv y) x a.left a.right hl hr

theorem step3_eq (P : Plane) (x : Nat) : ∀ y, step3 P x y = sumRange (fun y' => step2 P y' x) 0 (y + 1) := by
  intro y
  induction y with
  | zero => simp [step3, sumRange]
  | succ y ih => simp only [step3, ih, sumRange]; simp

theorem s3At_hi (P : Plane) (x y b : Nat) (h : y + b < P.H) :
    s3At P x ((y : Int) + (b : Int)) = step3 P x (y + b) := by
  unfold s3At
  have h1 : ¬ ((y : Int) + (b : Int) < 0) := by omega
  simp only [h1, ↓reduceIte]
  have h2 : (0 : Int) ≤ (y : Int) + (b : Int) ∧ (y : Int) + (b : Int) < (P.H : Int) := by omega
  simp only [h2, and_self, ↓reduceIte]
  congr 1

theorem s3At_lo (P : Plane) (x y t : Nat) (ht : t ≤ y) (hy : y < P.H) :
    s3At P x ((y : Int) - (t : Int) - 1) = if t = y then 0 else step3 P x (y - t - 1) := by
  unfold s3At
  by_cases h : t = y
  · subst h
    have h1 : ((t : Int) - (t : Int) - 1 < 0) := by omega
    simp only [h1, ↓reduceIte]
    simp
  · have h1 : ¬ ((y : Int) - (t : Int) - 1 < 0) := by omega
    simp only [h1, ↓reduceIte, h]
    have h2 : (0 : Int) ≤ (y : Int) - (t : Int) - 1 ∧ (y : Int) - (t : Int) - 1 < (P.H : Int) := by omega
    simp only [h2, and_self, ↓reduceIte]
    congr 1
    omega

/-- step 4 is the sum of step 2 over the combined vertical arm -/
theorem step4_eq_colsum (P : Plane) (y x : Nat) (a : Arms) (h : comb P y x = some a)
    (ht : a.top ≤ y) (hb : y + a.bot < P.H) :
    step4 P y x = sumRange (fun y' => step2 P y' x) (y - a.top) (a.top + a.bot + 1) := by
  unfold step4
  simp only [h]
  rw [s3At_hi P x y a.bot hb, s3At_lo P x y a.top ht (by omega), step3_eq]
  by_cases h' : a.top = y
  · simp only [h', ↓reduceIte, Nat.sub_self]
    ring_nf
  · simp only [h', ↓reduceIte]
    rw [step3_eq]
    have e : y + a.bot + 1 = (y - a.top - 1 + 1) + (a.top + a.bot + 1) := by omega
    rw [e, sumRange_split]
    have e2 : 0 + (y - a.top - 1 + 1) = y - a.top := by omega
    rw [e2]
    ring


/-! ### the region as a list of pixels -/

theorem sum_map_range (f : Nat → Rat) (a : Nat) : ∀ n, ((List.range n).map (fun j => f (a + j))).sum = sumRange f a n := by
  intro n
  induction n with
  | zero => simp [sumRange]
  | succ n ih => rw [List.range_succ, List.map_append, List.sum_append, ih]; simp [sumRange]

theorem sum_flatMap_range {α : Type} (F : Nat → List α) (g : α → Rat) :
    ∀ n, (((List.range n).flatMap F).map g).sum = sumRange (fun i => ((F i).map g).sum) 0 n := by
  intro n
  induction n with
  | zero => simp [sumRange]
  | succ n ih => rw [List.range_succ, List.flatMap_append, List.map_append, List.sum_append, ih]; simp [sumRange]

theorem length_flatMap_range {α : Type} (F : Nat → List α) :
    ∀ n, ((List.range n).flatMap F).length = sumRangeN (fun i => (F i).length) 0 n := by
  intro n
  induction n with
  | zero => simp [sumRangeN]
  | succ n ih => rw [List.range_succ, List.flatMap_append, List.length_append, ih]; simp [sumRangeN]

theorem sumRange_shift (f : Nat → Rat) (a : Nat) : ∀ n, sumRange (fun i => f (a + i)) 0 n = sumRange f a n := by
  intro n
  induction n with
  | zero => rfl
  | succ n ih => simp only [sumRange, ih]; simp

theorem sumRangeN_shift (f : Nat → Nat) (a : Nat) : ∀ n, sumRangeN (fun i => f (a + i)) 0 n = sumRangeN f a n := by
  intro n
  induction n with
  | zero => rfl
  | succ n ih => simp only [sumRangeN, ih]; simp

theorem sumRangeN_split (f : Nat → Nat) (a m : Nat) : ∀ n, sumRangeN f a (m + n) = sumRangeN f a m + sumRangeN f (a + m) n := by
  intro n
  induction n with
  | zero => simp [sumRangeN]
  | succ n ih =>
    rw [← Nat.add_assoc]
    simp only [sumRangeN, ih]
    rw [Nat.add_assoc a m n]
    omega

theorem sumRangeN_congr (f g : Nat → Nat) (a : Nat) : ∀ n, (∀ i, i < n → f (a + i) = g (a + i)) → sumRangeN f a n = sumRangeN g a n := by
  intro n
  induction n with
  | zero => intro _; rfl
  | succ n ih =>
    intro h
    simp only [sumRangeN]
    rw [ih (fun i hi => h i (by omega)), h n (by omega)]

/-- the sum of any function over the region, as nested sums: rows of the vertical arm, then each row's
    horizontal arm -/
theorem sum_region (g : Nat × Nat → Rat) (top bot : Nat) (l r : Nat → Nat) (y x : Nat) :
    ((region top bot l r y x).map g).sum
      = sumRange (fun y' => sumRange (fun x' => g (y', x')) (x - l y') (l y' + r y' + 1)) (y - top) (top + bot + 1) := by
  unfold region
  rw [sum_flatMap_range]
  rw [← sumRange_shift (fun y' => sumRange (fun x' => g (y', x')) (x - l y') (l y' + r y' + 1)) (y - top)]
  apply sumRange_congr
  intro i _
  simp only [Nat.zero_add, List.map_map]
  exact sum_map_range (fun x' => g (y - top + i, x')) (x - l (y - top + i)) _

/-- the number of pixels of the region -/
theorem length_region (top bot : Nat) (l r : Nat → Nat) (y x : Nat) :
    (region top bot l r y x).length = sumRangeN (fun y' => l y' + r y' + 1) (y - top) (top + bot + 1) := by
  unfold region
  rw [length_flatMap_range]
  rw [← sumRangeN_shift (fun y' => l y' + r y' + 1) (y - top)]
  apply sumRangeN_congr
  intro i _
  simp

/-- membership: the region is exactly the set of pixels reached by the vertical arm and then the horizontal arms -/
theorem mem_region (top bot : Nat) (l r : Nat → Nat) (y x : Nat) (ht : top ≤ y) (hl : ∀ y', l y' ≤ x) (q : Nat × Nat) :
    q ∈ region top bot l r y x ↔
      (y - top ≤ q.1 ∧ q.1 ≤ y + bot) ∧ (x - l q.1 ≤ q.2 ∧ q.2 ≤ x + r q.1) := by
  unfold region
  simp only [List.mem_flatMap, List.mem_range, List.mem_map]
  constructor
  · rintro ⟨i, hi, j, hj, rfl⟩
    have := hl (y - top + i)
    simp only
    omega
  · rintro ⟨⟨h1, h2⟩, h3, h4⟩
    obtain ⟨q1, q2⟩ := q
    simp only at h1 h2 h3 h4
    have hq := hl q1
    refine ⟨q1 - (y - top), by omega, q2 - (x - l q1), ?_, ?_⟩
    · have : y - top + (q1 - (y - top)) = q1 := by omega
      rw [this]; omega
    · have : y - top + (q1 - (y - top)) = q1 := by omega
      rw [this]
      congr 1
      omega

/-- no pixel is listed twice -/
theorem nodup_region (top bot : Nat) (l r : Nat → Nat) (y x : Nat) : (region top bot l r y x).Nodup := by
  unfold region
  rw [List.nodup_flatMap]
  constructor
  · intro i _
    apply List.Nodup.map
    · intro a b hab
      simp only [Prod.mk.injEq, true_and] at hab
      omega
    · exact List.nodup_range
  · apply List.Pairwise.imp _ (List.nodup_range (n := top + bot + 1))
    intro i j hij
    simp only [Function.onFun, List.disjoint_left, List.mem_map, List.mem_range]
    rintro q ⟨a, _, rfl⟩ ⟨b, _, hb⟩
    simp only [Prod.mk.injEq] at hb
    omega


/-! ### step 4 is the region sum, `sum4` is the region size -/

theorem hLeft_of_comb {P : Plane} {x y' : Nat} {a' : Arms} (h : comb P y' x = some a') : hLeft P x y' = a'.left := by
  simp [hLeft, h]

theorem hRight_of_comb {P : Plane} {x y' : Nat} {a' : Arms} (h : comb P y' x = some a') : hRight P x y' = a'.right := by
  simp [hRight, h]

theorem sum2_eq (P : Plane) (x y' : Nat) : sum2 P y' x = hRight P x y' + hLeft P x y' := by
  unfold sum2 hRight hLeft
  cases comb P y' x <;> simp

/-- `step4_eq_regionsum`: step 4 = sum of the computable costs over the combined support region -/
theorem step4_eq_regionsum (P : Plane) (hA : armsInImage P.H P.W P.armsL = true) (y x : Nat) (hy : y < P.H) (hx : x < P.W)
    (a : Arms) (h : comb P y x = some a) : step4 P y x = specSum P y x := by
  have hin := comb_in h (armsInImage_spec hA hy hx)
  obtain ⟨_, _, ht, hb⟩ := hin
  unfold specSum regionOf
  simp only [h]
  rw [sum_region (fun q => c0 (P.cv q.1 q.2)), step4_eq_colsum P y x a h ht hb]
  apply sumRange_congr
  intro i hi
  have hy' : y - a.top + i < P.H := by omega
  obtain ⟨a', ha'⟩ := comb_isSome_col h (y - a.top + i)
  have hin' := comb_in ha' (armsInImage_spec hA hy' hx)
  rw [step2_eq_rowsum P _ x a' ha' hin'.1 hin'.2.1, hLeft_of_comb ha', hRight_of_comb ha']

theorem sumRangeN_add_one (f : Nat → Nat) (a : Nat) : ∀ n, sumRangeN (fun i => f i + 1) a n = sumRangeN f a n + n := by
  intro n
  induction n with
  | zero => rfl
  | succ n ih => simp only [sumRangeN, ih]; omega

theorem sumRangeN_one (f : Nat → Nat) (a : Nat) : sumRangeN f a 1 = f a := by
  simp [sumRangeN]

/-- `sum4_eq_card`: the divisor is the number of pixels of the region -/
theorem sum4_eq_card (P : Plane) (hA : armsInImage P.H P.W P.armsL = true) (y x : Nat) (hy : y < P.H) (hx : x < P.W)
    (a : Arms) (h : comb P y x = some a) : sum4 P y x = specCount P y x := by
  have hin := comb_in h (armsInImage_spec hA hy hx)
  obtain ⟨_, _, ht, _⟩ := hin
  unfold specCount regionOf
  simp only [h]
  rw [length_region]
  have e : (fun y' => hLeft P x y' + hRight P x y' + 1) = (fun y' => sum2 P y' x + 1) := by
    funext y'; rw [sum2_eq]; omega
  rw [e, sumRangeN_add_one]
  have e2 : a.top + a.bot + 1 = a.top + (1 + a.bot) := by omega
  rw [e2, sumRangeN_split, sumRangeN_split, sumRangeN_one]
  have e3 : y - a.top + a.top = y := by omega
  rw [e3]
  unfold sum4
  simp only [h]
  have e4 : (if a.top ≠ 0 then sumRangeN (fun y' => sum2 P y' x) (y - a.top) a.top else 0)
      = sumRangeN (fun y' => sum2 P y' x) (y - a.top) a.top := by
    by_cases h0 : a.top = 0
    · simp [h0, sumRangeN]
    · simp [h0]
  have e5 : (if a.bot ≠ 0 then sumRangeN (fun y' => sum2 P y' x) (y + 1) a.bot else 0)
      = sumRangeN (fun y' => sum2 P y' x) (y + 1) a.bot := by
    by_cases h0 : a.bot = 0
    · simp [h0, sumRangeN]
    · simp [h0]
  rw [e4, e5]
  ring

theorem sum4_pos (P : Plane) (y x : Nat) : sum4 P y x ≠ 0 := by
  unfold sum4; omega

theorem valEq_refl (v : Val) : valEq v v = true := by
  cases v <;> simp [valEq]

/-- NaN stays NaN and nothing else becomes NaN — for every plane, with no hypothesis -/
theorem aggOut_isNan (P : Plane) (y x : Nat) : (aggOut P y x).isNan = (P.cv y x).isNan := by
  unfold aggOut
  cases hcv : P.cv y x with
  | nan => rfl
  | num q => simp [fdiv, sum4_pos, Val.isNan]

/-- **Main theorem for one disparity plane.**  If the left arms stay inside the image and costs are NaN where
    the disparity has no facing right column, then every cell of the aggregated plane satisfies the property:
    NaN stays NaN, any other cost becomes (sum of the non-NaN costs over the region) / (size of the region). -/
theorem aggOut_spec (P : Plane) (hA : armsInImage P.H P.W P.armsL = true) (hN : nanOutside P = true)
    (y x : Nat) (hy : y < P.H) (hx : x < P.W) : specCell P y x (aggOut P y x) = true := by
  unfold specCell aggOut
  cases hcv : P.cv y x with
  | nan => rfl
  | num q =>
    simp only
    cases hc : comb P y x with
    | none =>
      exfalso
      unfold nanOutside at hN
      simp only [List.all_eq_true, List.mem_range, Bool.or_eq_true] at hN
      have := hN y hy x hx
      unfold comb at hc
      rcases this with h1 | h1
      · cases hr : rightCol P.d P.Wr x with
        | none => simp [hr] at h1
        | some xr => simp [hr] at hc
      · simp [hcv, Val.isNan] at h1
    | some a =>
      rw [← step4_eq_regionsum P hA y x hy hx a hc, ← sum4_eq_card P hA y x hy hx a hc]
      simp only [fdiv, sum4_pos, ↓reduceIte, Rat.zero_add]
      exact valEq_refl _

/-! ## 5. The whole step -/

/-! ### the arms as coded stay inside the image -/

theorem armCoded_le_room (mr : MinRule) (I : Rat) (px : Nat → Val) (dist room : Nat) :
    armCoded mr I px dist room ≤ room := by
  unfold armCoded iters
  rw [armLoop_eq]
  have := cnt_le I px (min (dist - 1) room) 0
  simp only [Nat.zero_add]
  by_cases hr : 1 ≤ room
  · generalize (decide (1 ≤ room) && _) = b
    cases b <;> simp <;> omega
  · simp [hr]; omega

theorem crossSupport_in_image (mr : MinRule) (H W dist : Nat) (I : Rat) (img : Img) :
    armsInImage H W (crossSupport mr H W dist I img) = true := by
  unfold armsInImage
  simp only [List.all_eq_true, List.mem_range, Bool.and_eq_true, decide_eq_true_eq]
  intro y hy x hx
  unfold crossSupport
  by_cases h0 : (img y x).isNum = true
  · simp only [h0, ↓reduceIte]
    have h1 := armCoded_le_room mr I (fun k => img y (x - k)) dist x
    have h2 := armCoded_le_room mr I (fun k => img y (x + k)) dist (W - 1 - x)
    have h3 := armCoded_le_room mr I (fun k => img (y - k) x) dist y
    have h4 := armCoded_le_room mr I (fun k => img (y + k) x) dist (H - 1 - y)
    refine ⟨⟨⟨h1, ?_⟩, h3⟩, ?_⟩ <;> omega
  · simp only [h0, Bool.false_eq_true, ↓reduceIte]
    omega

/-! ### the whole step -/

theorem inArea_spec {inp : Input} {y x : Nat} (h : inArea inp y x = true) :
    y - inp.off < inp.h ∧ x - inp.off < inp.w := by
  unfold inArea at h
  simp only [decide_eq_true_eq] at h
  omega

/-- The model, with the arms as coded, satisfies the cell property for the region built from those arms —
    for every input, every `cbca_distance`, both variants of the minimum rule. -/
theorem aggregate_spec_coded (inp : Input) (dsp : Nat) (hN : nanOutside (inp.plane dsp) = true) (y x : Nat)
    (hA : inArea inp y x = true) :
    specCell (inp.plane dsp) (y - inp.off) (x - inp.off) (aggregate inp y x dsp) = true := by
  unfold aggregate aggregateWith
  simp only [hA, ↓reduceIte]
  obtain ⟨hy, hx⟩ := inArea_spec hA
  exact aggOut_spec (inp.plane dsp) (crossSupport_in_image inp.mr inp.h inp.w inp.dist inp.I _) hN _ _ hy hx

theorem plane_eq_planeRef (inp : Input) (h : inp.mr = .neighbour ∨ 2 ≤ inp.dist) (dsp : Nat) :
    inp.plane dsp = inp.planeRef dsp := by
  unfold Input.plane Input.planeRef
  have eL : inp.crossL = inp.crossLRef := by
    funext y x; exact crossSupport_eq_crossRef inp.mr inp.h inp.w inp.dist inp.I _ h y x
  have eR : inp.crossR = inp.crossRRef := by
    funext k y x; exact crossSupport_eq_crossRef inp.mr inp.h (inp.wr k) inp.dist inp.I _ h y x
  rw [eL, eR]

/-- **C11, the whole step.**  For every image pair, masks, cost volume, offset, sub-pixel precision, intensity
    and every `cbca_distance ≥ 2` (every `cbca_distance ≥ 1` once the minimum rule tests the adjacent pixel):
    every cell of the cost volume after aggregation satisfies the property for the combined support region
    built from the declarative arms (`armRef`) — provided the input costs are NaN where the disparity has no
    facing right column, which is what the matching-cost step produces. -/
theorem cbca_spec (inp : Input) (h : inp.mr = .neighbour ∨ 2 ≤ inp.dist) (dsp : Nat)
    (hN : nanOutside (inp.planeRef dsp) = true) (y x : Nat) :
    specAt inp y x dsp (aggregate inp y x dsp) = true := by
  unfold specAt
  by_cases hA : inArea inp y x = true
  · simp only [hA, ↓reduceIte]
    rw [← plane_eq_planeRef inp h dsp] at hN ⊢
    exact aggregate_spec_coded inp dsp hN y x hA
  · simp only [hA, Bool.false_eq_true, ↓reduceIte]
    unfold aggregate aggregateWith
    simp only [hA, Bool.false_eq_true, ↓reduceIte]
    exact valEq_refl _

/-- the same statement about the rule the translator read in `cbca.py` on this run -/
theorem cbca_spec_source (inp : Input) (hs : inp.mr = Generated.Cbca.minRule)
    (h : Generated.Cbca.minRule = .neighbour ∨ 2 ≤ inp.dist) (dsp : Nat)
    (hN : nanOutside (inp.planeRef dsp) = true) (y x : Nat) :
    specAt inp y x dsp (aggregate inp y x dsp) = true :=
  cbca_spec inp (hs ▸ h) dsp hN y x

/-- NaN stays NaN; no other cost becomes NaN — every input, no hypothesis -/
theorem nan_stays (inp : Input) (y x dsp : Nat) (h : (inp.cv y x dsp).isNan = true) :
    (aggregate inp y x dsp).isNan = true := by
  unfold aggregate aggregateWith
  by_cases hA : inArea inp y x = true
  · simp only [hA, ↓reduceIte]
    rw [aggOut_isNan]
    unfold inArea at hA
    simp only [decide_eq_true_eq] at hA
    simp only [Input.planeWith]
    have e1 : y - inp.off + inp.off = y := by omega
    have e2 : x - inp.off + inp.off = x := by omega
    rw [e1, e2]; exact h
  · simp only [hA, Bool.false_eq_true, ↓reduceIte]; exact h

theorem no_new_nan (inp : Input) (y x dsp : Nat) (h : (inp.cv y x dsp).isNan = false) :
    (aggregate inp y x dsp).isNan = false := by
  unfold aggregate aggregateWith
  by_cases hA : inArea inp y x = true
  · simp only [hA, ↓reduceIte]
    rw [aggOut_isNan]
    unfold inArea at hA
    simp only [decide_eq_true_eq] at hA
    simp only [Input.planeWith]
    have e1 : y - inp.off + inp.off = y := by omega
    have e2 : x - inp.off + inp.off = x := by omega
    rw [e1, e2]; exact h
  · simp only [hA, Bool.false_eq_true, ↓reduceIte]; exact h

/-- each disparity plane is aggregated independently of the others: changing the other planes of the input
    cost volume does not change plane `dsp` of the output -/
theorem plane_independent (inp : Input) (cv' : Nat → Nat → Nat → Val) (dsp : Nat)
    (h : ∀ y x, cv' y x dsp = inp.cv y x dsp) (y x : Nat) :
    aggregate { inp with cv := cv' } y x dsp = aggregate inp y x dsp := by
  unfold aggregate aggregateWith
  have e : ({ inp with cv := cv' } : Input).planeWith ({ inp with cv := cv' } : Input).crossL ({ inp with cv := cv' } : Input).crossR dsp
      = inp.planeWith inp.crossL inp.crossR dsp := by
    unfold Input.planeWith
    simp only [h]
    rfl
  rw [e]
  show (if inArea inp y x = true then _ else cv' y x dsp) = _
  rw [h]

/-! ### the median pre-filter keeps masked pixels masked and nothing else -/

theorem length_insertSorted (a : Rat) : ∀ l, (insertSorted a l).length = l.length + 1 := by
  intro l
  induction l with
  | nil => rfl
  | cons b t ih =>
    unfold insertSorted
    split
    · simp
    · simp [ih]

theorem length_sortR : ∀ l, (sortR l).length = l.length := by
  intro l
  induction l with
  | nil => rfl
  | cons a t ih => simp [sortR, length_insertSorted, ih]

theorem finites_length_pos : ∀ (l : List Val) (v : Val), v ∈ l → v.isNum = true → 0 < (finites l).length := by
  intro l
  induction l with
  | nil => intro v hv; simp at hv
  | cons a t ih =>
    intro v hv hnum
    cases a with
    | num q => simp [finites]
    | nan =>
      simp only [finites]
      rcases List.mem_cons.mp hv with h | h
      · subst h; simp [Val.isNum, Val.isNan] at hnum
      · exact ih v h hnum

theorem nanmedian_isNum (l : List Val) (v : Val) (hv : v ∈ l) (hnum : v.isNum = true) : (nanmedian l).isNum = true := by
  unfold nanmedian
  have := finites_length_pos l v hv hnum
  rw [← length_sortR] at this
  simp only
  split
  · omega
  · split <;> simp [Val.isNum, Val.isNan]

theorem median3_isNan (H W : Nat) (g : Img) (y x : Nat) : (median3 H W g y x).isNan = (g y x).isNan := by
  unfold median3
  cases hg : g y x with
  | nan => simp [Val.isNan]
  | num q =>
    simp only [Val.isNan, Bool.false_eq_true, ↓reduceIte]
    by_cases hc : 1 ≤ y ∧ y + 1 < H ∧ 1 ≤ x ∧ x + 1 < W
    · simp only [hc, and_self, ↓reduceIte]
      have := nanmedian_isNum (window3 g y x) (g y x) (by simp [window3]) (by simp [hg, Val.isNum, Val.isNan])
      cases hm : nanmedian (window3 g y x) with
      | nan => simp [hm, Val.isNum, Val.isNan] at this
      | num _ => rfl
    · simp only [hc, ↓reduceIte]

/-- a pixel of the filtered left image is non-finite exactly when the mask says it is not valid -/
theorem filteredL_isNan (inp : Input) (y x : Nat) :
    (inp.filteredL y x).isNan = (inp.hasMskL && inp.mskL y x != inp.validL) := by
  unfold Input.filteredL
  rw [median3_isNan]
  unfold maskedImg
  split <;> simp_all [Val.isNan]

/-- the same for the right image; a shifted right image is masked where either source column is -/
theorem filteredR_isNan (inp : Input) (k y x : Nat) :
    (inp.filteredR k y x).isNan =
      if k = 0 then (inp.hasMskR && inp.mskR y x != inp.validR)
      else (inp.hasMskR && (inp.mskR y x != inp.validR || inp.mskR y (x + 1) != inp.validR)) := by
  unfold Input.filteredR
  by_cases hk : k = 0
  · simp only [hk, ↓reduceIte]
    rw [median3_isNan]
    unfold maskedImg
    split <;> simp_all [Val.isNan]
  · simp only [hk, ↓reduceIte]
    rw [median3_isNan]
    unfold shiftedImg
    split <;> simp_all [Val.isNan]

/-! ### non-vacuity: a concrete input satisfies the hypotheses, and the aggregated values are non-trivial -/

namespace Example

/-- 3 × 4 image pair with an intensity step, a masked left pixel, two disparities -/
def img : Nat → Nat → Rat := fun y x => if x < 2 then 10 else (if y = 1 then 31 else 30)

def inp : Input :=
  { H := 3, W := 4, off := 0
    imL := img, hasMskL := true, mskL := fun y x => if y = 2 ∧ x = 3 then 1 else 0, validL := 0
    imR := img, hasMskR := false, mskR := fun _ _ => 0, validR := 0
    dist := 3, I := 5, subpix := 1
    disp := fun k => if k = 0 then -1 else 0
    cv := fun y x k => if k = 0 ∧ x = 0 then .nan else if y = 2 ∧ x = 3 then .nan else .num (y + 2 * x + k : Nat)
    mr := Generated.Cbca.minRule }

example : (2 : Nat) ≤ inp.dist := by decide
example : nanOutside (inp.planeRef 0) = true := by decide +kernel
example : nanOutside (inp.planeRef 1) = true := by decide +kernel

/-- cell (1, 2) at disparity 0: the region has 8 pixels — the one-pixel minimum crosses the intensity step on
    the left, the masked pixel (2, 3) is left out — and the aggregated cost is their mean 45/8 -/
example : aggregate inp 1 2 1 = .num (specSum (inp.planeRef 1) 1 2 / specCount (inp.planeRef 1) 1 2) := by decide +kernel
example : specCount (inp.planeRef 1) 1 2 = 8 ∧ specSum (inp.planeRef 1) 1 2 = 45
    ∧ aggregate inp 1 2 1 = .num ((45 : Rat) / 8) := by decide +kernel
example : regionOf (inp.planeRef 1) 1 2 = [(0, 1), (0, 2), (0, 3), (1, 1), (1, 2), (1, 3), (2, 1), (2, 2)] := by decide +kernel

end Example

end Pandora.C11
