/-
  C13 — locality of the bilateral filter (model of C10: `Filter.bilateralFilterDisparity`, block loops
  included), for a given window width `w` (`min(ny, nx, int(3·sigma_space + 1))` in the code: the same for a
  crop and the whole image as soon as the crop is at least `int(3·sigma_space + 1)` in both directions).

  On partial images the step reads the pixel's own (disparity, flag) and the `w × w` window that starts
  `w / 2` cells before the pixel (an even window has two radii: `w / 2` before, `w - 1 - w / 2` after);
  a window cell outside the image makes the pixel keep its disparity.
-/
import PandoraModel.Properties.C13Median

namespace Pandora.C13
open Pandora Pandora.Locality Pandora.Filter

/-- the kernel only reads the `w × w` cells of its window -/
theorem bilateralKernel_congr (wts : Weights) (w off : Nat) (win win' : Nat → Nat → Val) (hoff : off < w)
    (h : ∀ a b, a < w → b < w → win a b = win' a b) :
    bilateralKernel wts w off win = bilateralKernel wts w off win' := by
  have hc : win off off = win' off off := h _ _ hoff hoff
  have e1 : (cells w).map (cellWeight wts win (win off off)) = (cells w).map (cellWeight wts win' (win' off off)) := by
    apply List.map_congr_left
    intro p hp
    have hp' := (C10.mem_cells w p.1 p.2).1 hp
    unfold cellWeight
    rw [h p.1 p.2 hp'.1 hp'.2, hc]
  have e2 : (cells w).map (fun p => win p.1 p.2 * cellWeight wts win (win off off) p)
      = (cells w).map (fun p => win' p.1 p.2 * cellWeight wts win' (win' off off) p) := by
    apply List.map_congr_left
    intro p hp
    have hp' := (C10.mem_cells w p.1 p.2).1 hp
    unfold cellWeight
    rw [h p.1 p.2 hp'.1 hp'.2, hc]
  unfold bilateralKernel
  simp only
  rw [e1, e2]

/-- the masked window of a pixel of a partial image, indexed from the window's first cell -/
def winOf (invalidMask w : Nat) (a : Locality.Img (Val × Nat)) (p : Px) : Nat → Nat → Val :=
  fun i j => maskedOpt invalidMask (a (p.1 - ((w / 2 : Nat) : Int) + (i : Int), p.2 - ((w / 2 : Nat) : Int) + (j : Int)))

/-- the window lies in the partial image: its first and last cells do -/
def winIn (w : Nat) (a : Locality.Img (Val × Nat)) (p : Px) : Prop :=
  (a (p.1 - ((w / 2 : Nat) : Int), p.2 - ((w / 2 : Nat) : Int))).isSome = true ∧
  (a (p.1 + ((w - 1 - w / 2 : Nat) : Int), p.2 + ((w - 1 - w / 2 : Nat) : Int))).isSome = true

instance (w : Nat) (a : Locality.Img (Val × Nat)) (p : Px) : Decidable (winIn w a p) := by
  unfold winIn; infer_instance

/-- **The bilateral-filter step on partial images.** -/
def bilateralStep (wts : Weights) (invalidMask w : Nat) : Locality.Img (Val × Nat) → Locality.Img Val :=
  fun a p => (a p).map fun x =>
    if (maskCell invalidMask x.2 x.1).isNum then
      (if winIn w a p then bilateralKernel wts w (w / 2) (winOf invalidMask w a p) else x.1)
    else x.1

/-- the cone of the bilateral filter of window width `w` -/
def bilateralCone (w : Nat) : Cone := ⟨w / 2, w - 1 - w / 2, w / 2, w - 1 - w / 2⟩

/-- **Bilateral filter: local**, cone `w / 2` up/left, `w - 1 - w / 2` down/right. -/
theorem bilateralStep_local (wts : Weights) (invalidMask w : Nat) (hw : 0 < w) :
    Local (bilateralCone w) (bilateralStep wts invalidMask w) := by
  intro a b p hab
  have hq : ∀ i j : Int, p.1 - ((w / 2 : Nat) : Int) ≤ i → i ≤ p.1 + ((w - 1 - w / 2 : Nat) : Int) →
      p.2 - ((w / 2 : Nat) : Int) ≤ j → j ≤ p.2 + ((w - 1 - w / 2 : Nat) : Int) → a (i, j) = b (i, j) := by
    intro i j h1 h2 h3 h4
    apply hab
    unfold inCone bilateralCone
    simp only
    omega
  unfold bilateralStep
  rw [hq p.1 p.2 (by omega) (by omega) (by omega) (by omega)]
  congr 1
  funext x
  have hw' : winIn w a p ↔ winIn w b p := by
    unfold winIn
    rw [hq _ _ (by omega) (by omega) (by omega) (by omega), hq _ _ (by omega) (by omega) (by omega) (by omega)]
  have hk : bilateralKernel wts w (w / 2) (winOf invalidMask w a p)
      = bilateralKernel wts w (w / 2) (winOf invalidMask w b p) := by
    apply bilateralKernel_congr wts w (w / 2) _ _ (by omega)
    intro i j hi hj
    unfold winOf
    rw [hq _ _ (by omega) (by omega) (by omega) (by omega)]
  by_cases h : winIn w a p
  · rw [if_pos h, if_pos (hw'.1 h), hk]
  · rw [if_neg h, if_neg (fun h' => h (hw'.2 h'))]

/-- **Bilateral filter: no dependence on absolute position.** -/
theorem bilateralStep_equivariant (wts : Weights) (invalidMask w : Nat) :
    Equivariant (bilateralStep wts invalidMask w) := by
  intro t a
  funext p
  unfold bilateralStep
  show ((a (p.1 + t.1, p.2 + t.2)).map fun x => _) = ((a (p.1 + t.1, p.2 + t.2)).map fun x => _)
  congr 1
  funext x
  have hw' : winIn w (shift t a) p ↔ winIn w a (p.1 + t.1, p.2 + t.2) := by
    unfold winIn shift
    simp only
    have e1 : p.1 - ((w / 2 : Nat) : Int) + t.1 = p.1 + t.1 - ((w / 2 : Nat) : Int) := by omega
    have e2 : p.2 - ((w / 2 : Nat) : Int) + t.2 = p.2 + t.2 - ((w / 2 : Nat) : Int) := by omega
    have e3 : p.1 + ((w - 1 - w / 2 : Nat) : Int) + t.1 = p.1 + t.1 + ((w - 1 - w / 2 : Nat) : Int) := by omega
    have e4 : p.2 + ((w - 1 - w / 2 : Nat) : Int) + t.2 = p.2 + t.2 + ((w - 1 - w / 2 : Nat) : Int) := by omega
    rw [e1, e2, e3, e4]
  have hk : winOf invalidMask w (shift t a) p = winOf invalidMask w a (p.1 + t.1, p.2 + t.2) := by
    funext i j
    unfold winOf shift
    simp only
    have e1 : p.1 - ((w / 2 : Nat) : Int) + (i : Int) + t.1 = p.1 + t.1 - ((w / 2 : Nat) : Int) + (i : Int) := by omega
    have e2 : p.2 - ((w / 2 : Nat) : Int) + (j : Int) + t.2 = p.2 + t.2 - ((w / 2 : Nat) : Int) + (j : Int) := by omega
    rw [e1, e2]
  by_cases h : winIn w (shift t a) p
  · rw [if_pos h, if_pos (hw'.1 h), hk]
  · rw [if_neg h, if_neg (fun h' => h (hw'.2 h'))]

/-- **The model of `BilateralFilter.filter_disparity` is the step `bilateralStep`**, for every block split
    whose offsets start at `w / 2`, every window width and every map at least as large as the window. -/
theorem bilateralFilterDisparity_is_bilateralStep (s : Blocks.Split) (wts : Weights) (invalidMask w ny nx : Nat)
    (flags : Nat → Nat → Nat) (disp : Filter.Img)
    (hy : s.beginY = w / 2) (hx : s.beginX = w / 2) (hw : 0 < w) (hny : w ≤ ny) (hnx : w ≤ nx) :
    toImg ny nx (bilateralFilterDisparity s wts invalidMask w ny nx flags disp)
      = bilateralStep wts invalidMask w (toImg ny nx (zipArr disp flags)) := by
  funext q
  by_cases hq : InImage ny nx q
  · obtain ⟨r, c, rfl, hr, hc⟩ : ∃ r c : Nat, q = ((r : Int), (c : Int)) ∧ r < ny ∧ c < nx := by
      unfold InImage at hq
      refine ⟨q.1.toNat, q.2.toNat, ?_, by omega, by omega⟩
      ext <;> simp <;> omega
    rw [toImg_some ny nx _ r c hr hc]
    unfold bilateralStep
    rw [toImg_some ny nx _ r c hr hc]
    simp only [Option.map_some, zipArr]
    congr 1
    unfold bilateralFilterDisparity
    rw [C10.bilateralFilter_eq_direct s wts w ny nx _ hy hx hw hny hnx]
    have hm : masked invalidMask flags disp r c = maskCell invalidMask (flags r c) (disp r c) := rfl
    rw [hm]
    by_cases hnum : (maskCell invalidMask (flags r c) (disp r c)).isNum = true
    · have hnan : (maskCell invalidMask (flags r c) (disp r c)).isNan = false := by
        simpa [Val.isNum] using hnum
      simp only [hnum, hnan, if_true, Bool.false_eq_true, if_false]
      have hiff : interior (w / 2) (w - 1 - w / 2) ny nx r c = true
          ↔ winIn w (toImg ny nx (zipArr disp flags)) ((r : Int), (c : Int)) := by
        unfold winIn
        simp only [interior, Bool.and_eq_true, decide_eq_true_eq, Option.isSome_iff_ne_none, ne_eq,
          toImg_eq_none_iff, InImage, Decidable.not_not]
        omega
      by_cases hi : interior (w / 2) (w - 1 - w / 2) ny nx r c = true
      · rw [if_pos hi, if_pos (hiff.1 hi)]
        apply bilateralKernel_congr wts w (w / 2) _ _ (by omega)
        intro i j hiw hjw
        simp only [interior, Bool.and_eq_true, decide_eq_true_eq] at hi
        unfold winOf
        have e1 : (r : Int) - ((w / 2 : Nat) : Int) + (i : Int) = ((r - w / 2 + i : Nat) : Int) := by omega
        have e2 : (c : Int) - ((w / 2 : Nat) : Int) + (j : Int) = ((c - w / 2 + j : Nat) : Int) := by omega
        rw [e1, e2, toImg_some ny nx _ _ _ (by omega) (by omega)]
        rfl
      · rw [if_neg hi, if_neg (fun h => hi (hiff.2 h))]
        unfold maskCell at hnum ⊢
        split
        · rename_i h; simp [h, Val.isNum, Val.isNan] at hnum
        · rfl
    · simp only [hnum, if_false, Bool.false_eq_true]
  · rw [toImg_none ny nx _ q hq]
    unfold bilateralStep
    rw [toImg_none ny nx _ q hq]
    rfl

/-- **Bilateral filter: crop run = whole run** (same window width in both runs). -/
theorem bilateral_crop_eq_whole (s s' : Blocks.Split) (wts : Weights) (invalidMask w ny nx r0 c0 ny' nx' : Nat)
    (flags : Nat → Nat → Nat) (disp : Filter.Img)
    (hy : s.beginY = w / 2) (hx : s.beginX = w / 2) (hy' : s'.beginY = w / 2) (hx' : s'.beginX = w / 2)
    (hw : 0 < w) (hny : w ≤ ny') (hnx : w ≤ nx') (hfit : r0 + ny' ≤ ny ∧ c0 + nx' ≤ nx)
    (r c : Nat) (hr : r < ny') (hc : c < nx')
    (hcone : ∀ q, inCone (bilateralCone w) ((r : Int) + r0, (c : Int) + c0) q →
      InRect r0 c0 ny' nx' q ∨ ¬ InImage ny nx q) :
    bilateralFilterDisparity s' wts invalidMask w ny' nx' (cropArr r0 c0 flags) (cropArr r0 c0 disp) r c
      = bilateralFilterDisparity s wts invalidMask w ny nx flags disp (r + r0) (c + c0) := by
  have h1 := bilateralFilterDisparity_is_bilateralStep s' wts invalidMask w ny' nx' (cropArr r0 c0 flags)
    (cropArr r0 c0 disp) hy' hx' hw hny hnx
  have h2 := bilateralFilterDisparity_is_bilateralStep s wts invalidMask w ny nx flags disp hy hx hw
    (by omega) (by omega)
  have h3 := crop_run_eq_whole (bilateralStep_local wts invalidMask w hw) (bilateralStep_equivariant wts invalidMask w)
    ny nx r0 c0 ny' nx' (zipArr disp flags) hfit ((r : Int), (c : Int)) hcone
  rw [cropArr_zipArr, ← h1, ← h2, toImg_some ny' nx' _ r c hr hc] at h3
  have e : (((r : Int) + (r0 : Int), (c : Int) + (c0 : Int)) : Px) = (((r + r0 : Nat) : Int), ((c + c0 : Nat) : Int)) := by
    ext <;> simp
  rw [e, toImg_some ny nx _ (r + r0) (c + c0) (by omega) (by omega)] at h3
  exact Option.some.inj h3

example : bilateralCone 4 = ⟨2, 1, 2, 1⟩ := by decide

end Pandora.C13
