/-
  C02, zncc — the algebra behind the zero-mean normalised cross-correlation, over ℚ, for the window sums the
  model uses, and what it implies for the cells of the model's cost volume.

  1. `boxSum n m f r c` is the sum of `f` over the `n × m` block whose top-left corner is `(r, c)` (the sums of
     `meanRaster` / `winSum` are instances); `mean` divides it by `n·m`.
  2. `cov_eq_centred`   E[XY] − E[X]·E[Y] = E[(X − EX)(Y − EY)]   (any non-empty block)
     `var_eq_centred`   E[X²] − E[X]²     = E[(X − EX)²]
     `var_nonneg`, `var_eq_zero_iff` (the variance vanishes exactly on a uniform block)
  3. `boxSum_cauchy_schwarz` (Σuv)² ≤ Σu²·Σv², hence `cov_sq_le_var_mul_var`: cov² ≤ var X · var Y,
     and `corr_sq_le_one`: cov² / (var X · var Y) ≤ 1 when the product of the variances is positive.
  4. the specification's zncc value (written with E[XY] − E[X]E[Y]) equals the textbook centred form:
     `valueSpec_zncc_eq_centred`.
  5. the model: the zncc cell is stored symbolically as `Cell.zn cov vv` (meaning `cov / √vv`, no root is taken
     in Lean) — `rawZncc_cellOK` / `zncc_costVolume_cellOK`: every cell of the model's zncc volume is NaN, the
     number `0` (a variance vanished or fell under the `1e-15` threshold of `compute_std_raster`), or
     `zn cov vv` with `0 < vv` and `cov² ≤ vv`, i.e. `(cov/√vv)² = cov²/vv ≤ 1`.  No hypothesis on the variance
     threshold is needed (`cmax_bound_zncc` of Properties/C02.lean assumes `noTinyVariance`): a positive
     product of the two thresholded radicands forces both to be the plain variances.
-/
import PandoraModel.Properties.C02

namespace Pandora.C02
open Pandora Pandora.MC

/-! ### 1. block sums -/

/-- `Σ_{a = r}^{r+n-1} Σ_{b = c}^{c+m-1} f a b` -/
def boxSum (n m : Nat) (f : Int → Int → Rat) (r c : Int) : Rat :=
  sumZ (0 : Rat) (fun a => sumZ (0 : Rat) (fun b => f a b) c m) r n

/-- the block mean `E[f]` -/
def mean (n m : Nat) (f : Int → Int → Rat) (r c : Int) : Rat :=
  boxSum n m f r c / ((n * m : Nat) : Rat)

/-- the window sum of the specification is a block sum -/
theorem winSum_eq_boxSum (o : Nat) (f : Int → Int → Rat) (r c : Int) :
    winSum o f r c = boxSum (2 * o + 1) (2 * o + 1) f (r - o) (c - o) := rfl

/-- `compute_mean_raster` (two cumulative sums, two differences, `/ w²`) is the block mean -/
theorem meanRaster_eq_mean (w : Nat) (f : Int → Int → Rat) (i j : Int) (hi : 0 ≤ i) (hj : 0 ≤ j) :
    meanRaster w f i j = mean w w f i j :=
  meanRaster_eq w f i j hi hj

theorem boxSum_congr (n m : Nat) (f g : Int → Int → Rat) (r c : Int) (h : ∀ a b, f a b = g a b) :
    boxSum n m f r c = boxSum n m g r c := by
  have : f = g := by funext a b; exact h a b
  rw [this]

theorem boxSum_add (n m : Nat) (f g : Int → Int → Rat) (r c : Int) :
    boxSum n m (fun a b => f a b + g a b) r c = boxSum n m f r c + boxSum n m g r c := by
  unfold boxSum
  simp only [sumZ_add_fun]

theorem boxSum_mul_const (n m : Nat) (f : Int → Int → Rat) (k : Rat) (r c : Int) :
    boxSum n m (fun a b => f a b * k) r c = boxSum n m f r c * k := by
  unfold boxSum
  simp only [sumZ_mul_const]

theorem boxSum_const (n m : Nat) (k : Rat) (r c : Int) :
    boxSum n m (fun _ _ => k) r c = (n : Rat) * ((m : Rat) * k) := by
  unfold boxSum
  simp only [sumZ_const]

theorem boxSum_nonneg (n m : Nat) (f : Int → Int → Rat) (r c : Int) (h : ∀ a b, 0 ≤ f a b) :
    0 ≤ boxSum n m f r c := by
  unfold boxSum
  exact sumZ_nonneg _ _ _ (fun a => sumZ_nonneg _ _ _ (fun b => h a b))

theorem mean_nonneg (n m : Nat) (f : Int → Int → Rat) (r c : Int) (h : ∀ a b, 0 ≤ f a b) :
    0 ≤ mean n m f r c := by
  unfold mean
  exact div_nonneg (boxSum_nonneg n m f r c h) (by exact_mod_cast Nat.zero_le _)

theorem sumZ_eq_zero_iff (f : Int → Rat) (lo : Int) (n : Nat) (h : ∀ i, 0 ≤ f i) :
    sumZ (0 : Rat) f lo n = 0 ↔ ∀ i : Nat, i < n → f (lo + i) = 0 := by
  induction n with
  | zero => simp [sumZ]
  | succ n ih =>
    simp only [sumZ]
    have h1 := sumZ_nonneg f lo n h
    have h2 := h (lo + n)
    constructor
    · intro hs i hi
      have a : sumZ (0 : Rat) f lo n = 0 := by linarith
      have b : f (lo + n) = 0 := by linarith
      by_cases hin : i = n
      · subst hin; exact b
      · exact ih.mp a i (by omega)
    · intro hall
      rw [ih.mpr (fun i hi => hall i (by omega)), hall n (by omega)]
      ring

/-- a block sum of non-negative terms vanishes exactly when every term of the block vanishes -/
theorem boxSum_eq_zero_iff (n m : Nat) (f : Int → Int → Rat) (r c : Int) (h : ∀ a b, 0 ≤ f a b) :
    boxSum n m f r c = 0 ↔ ∀ i j : Nat, i < n → j < m → f (r + i) (c + j) = 0 := by
  unfold boxSum
  rw [sumZ_eq_zero_iff _ _ _ (fun a => sumZ_nonneg _ _ _ (fun b => h a b))]
  constructor
  · intro H i j hi hj
    exact (sumZ_eq_zero_iff (fun b => f (r + i) b) c m (fun b => h _ b)).mp (H i hi) j hj
  · intro H i hi
    exact (sumZ_eq_zero_iff (fun b => f (r + i) b) c m (fun b => h _ b)).mpr (fun j hj => H i j hi hj)

/-- expansion of a centred product under the block sum -/
theorem boxSum_centred (n m : Nat) (X Y : Int → Int → Rat) (μ ν : Rat) (r c : Int) :
    boxSum n m (fun a b => (X a b - μ) * (Y a b - ν)) r c
      = boxSum n m (fun a b => X a b * Y a b) r c - ν * boxSum n m X r c - μ * boxSum n m Y r c
        + (n : Rat) * (m : Rat) * (μ * ν) := by
  have e : ∀ a b, (X a b - μ) * (Y a b - ν)
      = X a b * Y a b + (X a b * (-ν) + (Y a b * (-μ) + μ * ν)) := by intro a b; ring
  have h1 := boxSum_add n m (fun a b => X a b * Y a b) (fun a b => X a b * (-ν) + (Y a b * (-μ) + μ * ν)) r c
  have h2 := boxSum_add n m (fun a b => X a b * (-ν)) (fun a b => Y a b * (-μ) + μ * ν) r c
  have h3 := boxSum_add n m (fun a b => Y a b * (-μ)) (fun _ _ => μ * ν) r c
  have h4 := boxSum_mul_const n m X (-ν) r c
  have h5 := boxSum_mul_const n m Y (-μ) r c
  have h6 := boxSum_const n m (μ * ν) r c
  rw [boxSum_congr n m _ _ r c e, h1, h2, h3, h4, h5, h6]
  ring

/-! ### 2. covariance and variance: the two forms agree -/

/-- **`E[XY] − E[X]·E[Y] = E[(X − EX)(Y − EY)]`** over any non-empty block -/
theorem cov_eq_centred (n m : Nat) (hn : 0 < n) (hm : 0 < m) (X Y : Int → Int → Rat) (r c : Int) :
    mean n m (fun a b => X a b * Y a b) r c - mean n m X r c * mean n m Y r c
      = mean n m (fun a b => (X a b - mean n m X r c) * (Y a b - mean n m Y r c)) r c := by
  have hNpos : (0 : Rat) < ((n * m : Nat) : Rat) := by exact_mod_cast Nat.mul_pos hn hm
  have hN0 : ((n * m : Nat) : Rat) ≠ 0 := ne_of_gt hNpos
  have hN : (n : Rat) * (m : Rat) = ((n * m : Nat) : Rat) := (Nat.cast_mul n m).symm
  have hX : boxSum n m X r c = mean n m X r c * ((n * m : Nat) : Rat) := by unfold mean; field_simp
  have hY : boxSum n m Y r c = mean n m Y r c * ((n * m : Nat) : Rat) := by unfold mean; field_simp
  generalize mean n m X r c = μ at hX ⊢
  generalize mean n m Y r c = ν at hY ⊢
  unfold mean
  rw [boxSum_centred, hX, hY, hN]
  field_simp
  ring

/-- `E[X²] − E[X]² = E[(X − EX)²]` -/
theorem var_eq_centred (n m : Nat) (hn : 0 < n) (hm : 0 < m) (X : Int → Int → Rat) (r c : Int) :
    mean n m (fun a b => X a b * X a b) r c - mean n m X r c * mean n m X r c
      = mean n m (fun a b => (X a b - mean n m X r c) * (X a b - mean n m X r c)) r c :=
  cov_eq_centred n m hn hm X X r c

/-- the variance (in the `E[X²] − E[X]²` form the code and the specification use) is non-negative -/
theorem var_nonneg (n m : Nat) (hn : 0 < n) (hm : 0 < m) (X : Int → Int → Rat) (r c : Int) :
    0 ≤ mean n m (fun a b => X a b * X a b) r c - mean n m X r c * mean n m X r c := by
  rw [var_eq_centred n m hn hm X r c]
  exact mean_nonneg n m _ r c (fun a b => mul_self_nonneg _)

/-- the variance vanishes exactly when the block is uniform (every cell equals the mean) -/
theorem var_eq_zero_iff (n m : Nat) (hn : 0 < n) (hm : 0 < m) (X : Int → Int → Rat) (r c : Int) :
    mean n m (fun a b => X a b * X a b) r c - mean n m X r c * mean n m X r c = 0
      ↔ ∀ i j : Nat, i < n → j < m → X (r + i) (c + j) = mean n m X r c := by
  have hNpos : (0 : Rat) < ((n * m : Nat) : Rat) := by exact_mod_cast Nat.mul_pos hn hm
  rw [var_eq_centred n m hn hm X r c]
  generalize mean n m X r c = μ
  unfold mean
  rw [div_eq_zero_iff, boxSum_eq_zero_iff n m _ r c (fun a b => mul_self_nonneg _)]
  constructor
  · rintro (H | H)
    · intro i j hi hj
      have := H i j hi hj
      have := mul_self_eq_zero.mp this
      linarith
    · exact absurd H (ne_of_gt hNpos)
  · intro H
    left
    intro i j hi hj
    rw [H i j hi hj]; ring

/-! ### 3. Cauchy–Schwarz -/

/-- a quadratic `A − 2tC + t²B` that is non-negative for every `t` has a non-positive discriminant -/
theorem discriminant_le (A B C : Rat) (hB : 0 ≤ B) (key : ∀ t : Rat, 0 ≤ A - 2 * t * C + t * t * B) :
    C * C ≤ A * B := by
  by_cases hB0 : B = 0
  · have hC : C = 0 := by
      by_contra hC
      have h1 := key ((A + 1) / (2 * C))
      rw [hB0] at h1
      have : 2 * ((A + 1) / (2 * C)) * C = A + 1 := by field_simp
      linarith
    rw [hC, hB0]; simp
  · have hBpos : 0 < B := lt_of_le_of_ne hB (Ne.symm hB0)
    have h1 := key (C / B)
    have e : A - 2 * (C / B) * C + C / B * (C / B) * B = A - C * C / B := by field_simp; ring
    rw [e] at h1
    have : C * C / B ≤ A := by linarith
    have := (div_le_iff₀ hBpos).mp this
    linarith

/-- **Cauchy–Schwarz** for block sums: `(Σ uv)² ≤ Σ u² · Σ v²` -/
theorem boxSum_cauchy_schwarz (n m : Nat) (u v : Int → Int → Rat) (r c : Int) :
    boxSum n m (fun a b => u a b * v a b) r c * boxSum n m (fun a b => u a b * v a b) r c
      ≤ boxSum n m (fun a b => u a b * u a b) r c * boxSum n m (fun a b => v a b * v a b) r c := by
  apply discriminant_le
  · exact boxSum_nonneg n m _ r c (fun a b => mul_self_nonneg _)
  · intro t
    have h := boxSum_nonneg n m (fun a b => (u a b - v a b * t) * (u a b - v a b * t)) r c
      (fun a b => mul_self_nonneg _)
    have e : ∀ a b, (u a b - v a b * t) * (u a b - v a b * t)
        = u a b * u a b + (u a b * v a b * (-(2 * t)) + v a b * v a b * (t * t)) := by intro a b; ring
    have h1 := boxSum_add n m (fun a b => u a b * u a b)
      (fun a b => u a b * v a b * (-(2 * t)) + v a b * v a b * (t * t)) r c
    have h2 := boxSum_add n m (fun a b => u a b * v a b * (-(2 * t))) (fun a b => v a b * v a b * (t * t)) r c
    have h3 := boxSum_mul_const n m (fun a b => u a b * v a b) (-(2 * t)) r c
    have h4 := boxSum_mul_const n m (fun a b => v a b * v a b) (t * t) r c
    rw [boxSum_congr n m _ _ r c e, h1, h2, h3, h4] at h
    linarith

/-- **squared covariance ≤ product of the variances** (both in the `E[XY] − E[X]E[Y]` form) -/
theorem cov_sq_le_var_mul_var (n m : Nat) (hn : 0 < n) (hm : 0 < m) (X Y : Int → Int → Rat) (r c : Int) :
    (mean n m (fun a b => X a b * Y a b) r c - mean n m X r c * mean n m Y r c)
        * (mean n m (fun a b => X a b * Y a b) r c - mean n m X r c * mean n m Y r c)
      ≤ (mean n m (fun a b => X a b * X a b) r c - mean n m X r c * mean n m X r c)
        * (mean n m (fun a b => Y a b * Y a b) r c - mean n m Y r c * mean n m Y r c) := by
  have hNpos : (0 : Rat) < ((n * m : Nat) : Rat) := by exact_mod_cast Nat.mul_pos hn hm
  rw [cov_eq_centred n m hn hm X Y r c, var_eq_centred n m hn hm X r c, var_eq_centred n m hn hm Y r c]
  generalize mean n m X r c = μ
  generalize mean n m Y r c = ν
  have hcs := boxSum_cauchy_schwarz n m (fun a b => X a b - μ) (fun a b => Y a b - ν) r c
  unfold mean
  rw [div_mul_div_comm, div_mul_div_comm]
  exact div_le_div_of_nonneg_right hcs (le_of_lt (mul_pos hNpos hNpos))

/-- the squared correlation coefficient is at most 1 wherever it is defined (no square root involved:
    `(cov / √(vX·vY))² = cov² / (vX·vY)`) -/
theorem corr_sq_le_one (n m : Nat) (hn : 0 < n) (hm : 0 < m) (X Y : Int → Int → Rat) (r c : Int)
    (hpos : 0 < (mean n m (fun a b => X a b * X a b) r c - mean n m X r c * mean n m X r c)
        * (mean n m (fun a b => Y a b * Y a b) r c - mean n m Y r c * mean n m Y r c)) :
    (mean n m (fun a b => X a b * Y a b) r c - mean n m X r c * mean n m Y r c)
        * (mean n m (fun a b => X a b * Y a b) r c - mean n m X r c * mean n m Y r c)
      / ((mean n m (fun a b => X a b * X a b) r c - mean n m X r c * mean n m X r c)
        * (mean n m (fun a b => Y a b * Y a b) r c - mean n m Y r c * mean n m Y r c)) ≤ 1 :=
  (div_le_iff₀ hpos).mpr (by rw [one_mul]; exact cov_sq_le_var_mul_var n m hn hm X Y r c)

/-! ### 4. the specification's zncc value in the textbook (centred) form -/

/-- the window mean of the specification (`winSum … / w²`) is the block mean of the `w × w` window -/
theorem winMean_eq (x : Input) (h : Shape x) (f : Int → Int → Rat) (r c : Int) :
    winSum (half x.w) f r c / ((x.w * x.w : Nat) : Rat)
      = mean x.w x.w f (r - (half x.w : Nat)) (c - (half x.w : Nat)) := by
  unfold mean boxSum winSum
  rw [← window_eq x h]

/-- zncc written as in the textbooks: `E[(L − EL)(R̃ − ER̃)] / √(E[(L − EL)²]·E[(R̃ − ER̃)²])`, `0` when a
    centred second moment vanishes -/
def valueZnccCentred (x : Input) (r c k : Int) : Cell :=
  let o := half x.w
  let n : Rat := ((x.w * x.w : Nat) : Rat)
  let lf := x.L.px
  let rt := fun (a b : Int) => interpR x.R x.sp k a b
  let eL := winSum o lf r c / n
  let eR := winSum o rt r c / n
  let cov := winSum o (fun a b => (lf a b - eL) * (rt a b - eR)) r c / n
  let vL := winSum o (fun a b => (lf a b - eL) * (lf a b - eL)) r c / n
  let vR := winSum o (fun a b => (rt a b - eR) * (rt a b - eR)) r c / n
  if vL = 0 ∨ vR = 0 then .num 0 else .zn cov (vL * vR)

/-- **the `E[XY] − E[X]E[Y]` form the specification uses is the textbook centred form** -/
theorem valueSpec_zncc_eq_centred (x : Input) (h : Shape x) (hm : x.meas = .zncc) (r c k : Int) :
    valueSpec x r c k = valueZnccCentred x r c k := by
  have hw : 0 < x.w := by have := h.odd; omega
  unfold valueSpec valueZnccCentred
  simp only [hm, winMean_eq x h]
  rw [cov_eq_centred x.w x.w hw hw x.L.px (fun a b => interpR x.R x.sp k a b),
    var_eq_centred x.w x.w hw hw x.L.px, var_eq_centred x.w x.w hw hw (fun a b => interpR x.R x.sp k a b)]

/-! ### 5. the cells of the model's zncc volume -/

/-- what a zncc cell can be: NaN, the number `0`, or the symbolic quotient `cov / √vv` with `vv > 0` and
    `cov² ≤ vv` (so that its square `cov² / vv` is at most 1) -/
def znccCellOK : Cell → Prop
  | .nan => True
  | .num q => q = 0
  | .zn cov vv => 0 < vv ∧ cov * cov ≤ vv

/-- the radicand of `compute_std_raster` is `0` (threshold fired) or the plain `E[x²] − E[x]²` -/
theorem varRaster_cases (w : Nat) (f : Int → Int → Rat) (i j : Int) :
    varRaster w f i j = 0 ∨
      varRaster w f i j = meanRaster w (fun r c => f r c * f r c) i j - meanRaster w f i j * meanRaster w f i j := by
  unfold varRaster
  simp only
  split
  · exact Or.inl rfl
  · exact Or.inr rfl

/-- **every cell of a zncc plane of the model** (before masking) is NaN, `0`, or `zn cov vv` with
    `0 < vv ∧ cov² ≤ vv` — without any hypothesis on the `1e-15` variance threshold -/
theorem rawZncc_cellOK (x : Input) (h : Shape x) (k r c : Int) : znccCellOK (rawZncc x k r c) := by
  have hs := h.sp_pos
  have hw : 0 < x.w := by have := h.odd; omega
  set o := half x.w with ho
  set Rk := shiftRight x.R x.sp (iRight k x.sp) with hRk
  have hclosed := pointInterval_closed (x.L.cols : Int) (Rk.cols : Int) k x.sp hs
  unfold rawZncc
  simp only [← ho, ← hRk]
  split
  · rename_i hguard
    obtain ⟨g1, g2, g3, g4, g5, g6⟩ := hguard
    set p0 := (pointInterval (x.L.cols : Int) (Rk.cols : Int) k x.sp).p0 with hp0
    set q0 := (pointInterval (x.L.cols : Int) (Rk.cols : Int) k x.sp).q0 with hq0
    have hp0nn : 0 ≤ p0 := by rw [hp0, hclosed]; simp only; omega
    have hq0nn : 0 ≤ q0 := by rw [hq0, hclosed]; simp only; omega
    split
    · rename_i hpos
      -- both windows over the same index block: `Y a b = Rk a (b + δ)`
      set δ : Int := q0 - p0 with hδ
      set X : Int → Int → Rat := x.L.px with hX
      set Y : Int → Int → Rat := fun a b => Rk.px a (b + δ) with hY
      have e1 : p0 + (c - (o : Int) - p0) = c - o := by ring
      have e2 : q0 + (c - (o : Int) - p0) = (c - o) + δ := by rw [hδ]; ring
      rw [e1, e2] at hpos ⊢
      have hmR : meanRaster x.w Rk.px (r - o) (c - o + δ) = meanRaster x.w Y (r - o) (c - o) :=
        meanRaster_shift_col x.w Rk.px δ (r - o) (c - o) g1 g3 (by omega)
      have hvR : varRaster x.w Rk.px (r - o) (c - o + δ) = varRaster x.w Y (r - o) (c - o) :=
        varRaster_shift_col x.w Rk.px δ (r - o) (c - o) g1 g3 (by omega)
      have hmP : meanRaster x.w (fun r c' => X r (p0 + c') * Rk.px r (q0 + c')) (r - o) (c - o - p0)
          = meanRaster x.w (fun a b => X a b * Y a b) (r - o) (c - o) := by
        have hfun : (fun (r : Int) (c' : Int) => X r (p0 + c') * Rk.px r (q0 + c'))
            = (fun a b => (fun a b => X a b * Y a b) a (b + p0)) := by
          funext a b
          simp only [hY]
          have a1 : p0 + b = b + p0 := by ring
          have a2 : q0 + b = b + p0 + δ := by rw [hδ]; ring
          rw [a1, a2]
        rw [hfun, ← meanRaster_shift_col x.w (fun a b => X a b * Y a b) p0 (r - o) (c - o - p0) g1 (by omega) (by omega)]
        have : c - (o : Int) - p0 + p0 = c - o := by ring
        rw [this]
      rw [hmP, hmR, hvR]
      rw [hvR] at hpos
      rw [meanRaster_eq_mean x.w _ _ _ g1 g3, meanRaster_eq_mean x.w X _ _ g1 g3, meanRaster_eq_mean x.w Y _ _ g1 g3]
      refine ⟨hpos, ?_⟩
      rcases varRaster_cases x.w X (r - o) (c - o) with hL | hL
      · rw [hL] at hpos; simp at hpos
      · rcases varRaster_cases x.w Y (r - o) (c - o) with hR | hR
        · rw [hR] at hpos; simp at hpos
        · rw [hL, hR]
          rw [meanRaster_eq_mean x.w _ _ _ g1 g3, meanRaster_eq_mean x.w X _ _ g1 g3,
            meanRaster_eq_mean x.w _ _ _ g1 g3, meanRaster_eq_mean x.w Y _ _ g1 g3]
          exact cov_sq_le_var_mul_var x.w x.w hw hw X Y (r - o) (c - o)
    · rfl
  · trivial

/-- a zncc plane of the model is NaN exactly where one of the two windows leaves its image — a vanished
    variance gives the number `0`, never NaN -/
theorem rawZncc_isNan_iff (x : Input) (h : Shape x) (k r c : Int) :
    (rawZncc x k r c).isNan = true ↔ ¬ (LeftInside x r c ∧ RightInside x c k) := by
  have hs := h.sp_pos
  set o := half x.w with ho
  set Rk := shiftRight x.R x.sp (iRight k x.sp) with hRk
  have hf0 := fracBit_nonneg k x.sp
  have hf1 := fracBit_le_one k x.sp
  have hclosed := pointInterval_closed (x.L.cols : Int) (Rk.cols : Int) k x.sp hs
  have hguard : (0 ≤ r - (o : Int) ∧ r - (o : Int) < (x.L.rows : Int) - 2 * (o : Int) ∧ 0 ≤ c - (o : Int) ∧
        c - (o : Int) < (x.L.cols : Int) - 2 * (o : Int) ∧
        (pointInterval (x.L.cols : Int) (Rk.cols : Int) k x.sp).p0 ≤ c - (o : Int) ∧
        c - (o : Int) < (pointInterval (x.L.cols : Int) (Rk.cols : Int) k x.sp).p1 - 2 * (o : Int))
      ↔ (LeftInside x r c ∧ RightInside x c k) := by
    unfold LeftInside RightInside
    rw [hclosed, h.cols_eq]
    simp only [← ho]
    omega
  unfold rawZncc
  simp only [← ho, ← hRk]
  split
  · rename_i hg
    have hin := hguard.mp hg
    split <;> simp [Cell.isNan, hin]
  · rename_i hg
    have hin : ¬ (LeftInside x r c ∧ RightInside x c k) := fun hc => hg (hguard.mpr hc)
    simp [Cell.isNan, hin]

/-! ### the whole volume: masking only turns cells into NaN -/

theorem addMask_cases (c : Cell) (m : Val) : c.addMask m = .nan ∨ c.addMask m = c := by
  cases m
  · exact Or.inl rfl
  · exact Or.inr rfl

/-- every cell of the model's cost volume is NaN or the cell of the plane computed for its disparity:
    `cv_masked` and the per-pixel interval masking never change a number -/
theorem costVolume_nan_or_raw (x : Input) (hs : 0 < x.sp)
    (hg : gridMin x.dminG x.L.rows x.L.cols ≤ gridMax x.dmaxG x.L.rows x.L.cols) (r c : Int) (j : Nat)
    (hj : j < nDisp (gridMin x.dminG x.L.rows x.L.cols) (gridMax x.dmaxG x.L.rows x.L.cols) x.sp) :
    costVolume x r c j = .nan ∨
      costVolume x r c j = rawPlane x (gridMin x.dminG x.L.rows x.L.cols * (x.sp : Int) + j) r c := by
  unfold costVolume intervalMask
  simp only
  set gmin := gridMin x.dminG x.L.rows x.L.cols with hgmin
  set gmax := gridMax x.dmaxG x.L.rows x.L.cols with hgmax
  set k : Int := gmin * (x.sp : Int) + j with hk
  have hn := nDisp_eq gmin gmax x.sp hs hg
  have hget := dispRange_getD gmin gmax x.sp hs hg j hj
  rw [dispRange_eq gmin gmax x.sp hs hg] at *
  have hjn : j < ((gmax - gmin) * (x.sp : Int)).toNat + 1 := by omega
  split
  · exact Or.inl rfl
  · rw [fold_steps x gmin _ _ r c j, if_pos hjn]
    unfold cvMaskedStep
    simp only
    split
    · rw [hget]
      split
      · rcases addMask_cases (rawPlane x k r c) (maskRaster x.w x.L.rows x.L.cols x.mL r c) with h1 | h1
        · rw [h1]; left; exact addMask_nan _
        · rw [h1]; exact addMask_cases _ _
      · exact addMask_cases _ _
    · right; rw [hget]

/-- **every cell of the model's zncc cost volume** is NaN, `0`, or `zn cov vv` with `0 < vv` and `cov² ≤ vv` -/
theorem zncc_costVolume_cellOK (x : Input) (h : Shape x) (hm : x.meas = .zncc)
    (hg : gridMin x.dminG x.L.rows x.L.cols ≤ gridMax x.dmaxG x.L.rows x.L.cols) (r c : Int) (j : Nat)
    (hj : j < nDisp (gridMin x.dminG x.L.rows x.L.cols) (gridMax x.dmaxG x.L.rows x.L.cols) x.sp) :
    znccCellOK (costVolume x r c j) := by
  rcases costVolume_nan_or_raw x h.sp_pos hg r c j hj with h1 | h1
  · rw [h1]; trivial
  · rw [h1]
    unfold rawPlane
    simp only [hm]
    exact rawZncc_cellOK x h _ r c

/-- **`|zncc| ≤ 1` without a square root and without the variance-threshold hypothesis**: a symbolic cell
    `cov / √vv` of the model's zncc volume has `vv > 0` and `(cov/√vv)² = cov² / vv ≤ 1`; a numeric cell is `0` -/
theorem zncc_sq_le_one (x : Input) (hwf : wfShape x = true) (hm : x.meas = .zncc) (r c : Int) (j : Nat)
    (hj : j < nDisp (gridMin x.dminG x.L.rows x.L.cols) (gridMax x.dmaxG x.L.rows x.L.cols) x.sp) :
    (∀ cov vv, costVolume x r c j = .zn cov vv → 0 < vv ∧ cov * cov / vv ≤ 1)
    ∧ (∀ q, costVolume x r c j = .num q → q * q ≤ 1) := by
  have hok := zncc_costVolume_cellOK x (shape_of_wf x hwf) hm (gridOK_of_wf x hwf) r c j hj
  constructor
  · intro cov vv hq
    rw [hq] at hok
    exact ⟨hok.1, (div_le_iff₀ hok.1).mpr (by rw [one_mul]; exact hok.2)⟩
  · intro q hq
    rw [hq] at hok
    have : q = 0 := hok
    rw [this]; norm_num

/-! ### non-vacuity -/

namespace ZnccExample

def X : Int → Int → Rat := fun a b => ((a + b : Int) : Rat)
def Y : Int → Int → Rat := fun a b => ((2 * b - a : Int) : Rat)

/-- a 2 × 3 block of a concrete pair: both forms of the covariance are `13/12`, the variances `11/12` and
    `35/12`, and `(13/12)² < 11/12 · 35/12` -/
example : mean 2 3 (fun a b => X a b * Y a b) 0 0 - mean 2 3 X 0 0 * mean 2 3 Y 0 0 = 13 / 12 := by
  simp only [mean, boxSum, sumZ, X, Y]; norm_num
example : mean 2 3 (fun a b => (X a b - mean 2 3 X 0 0) * (Y a b - mean 2 3 Y 0 0)) 0 0 = 13 / 12 := by
  simp only [mean, boxSum, sumZ, X, Y]; norm_num
example : mean 2 3 (fun a b => X a b * X a b) 0 0 - mean 2 3 X 0 0 * mean 2 3 X 0 0 = 11 / 12 := by
  simp only [mean, boxSum, sumZ, X]; norm_num
example : mean 2 3 (fun a b => Y a b * Y a b) 0 0 - mean 2 3 Y 0 0 * mean 2 3 Y 0 0 = 35 / 12 := by
  simp only [mean, boxSum, sumZ, Y]; norm_num

def noMask : Mask := { present := false, code := fun _ _ => 0, valid := 0, nodata := 1 }

/-- 3 × 5 pair that is not an affine copy of itself, window 3, subpix 2, interval `[-1, 1]` -/
def exZ : Input where
  meas := .zncc
  w := 3
  sp := 2
  L := { rows := 3, cols := 5, px := fun r c => ((r * r + 2 * c : Int) : Rat) }
  R := { rows := 3, cols := 5, px := fun r c => ((r * c + c * c : Int) : Rat) }
  mL := noMask
  mR := noMask
  dminG := fun _ _ => -1
  dmaxG := fun _ _ => 1

example : wf exZ = true := by decide
example : Shape exZ := shape_of_wf _ (by decide)
/-- a symbolic cell at the fractional disparity `-1/2`: `cov² = 1452/27 < 1925/27 = vv` -/
example : costVolume exZ 1 2 1 = .zn (22 / 3) (1925 / 27) := by decide +kernel
/-- the pair `R = L − 1` of Properties/C02.lean attains the bound: `cov² = vv` -/
example : costVolume (Example.exIn .zncc) 1 1 2 = .zn (50 / 9) (2500 / 81) := by decide +kernel
example : costVolume (Example.exIn .zncc) 0 1 2 = .nan := by decide
/-- a uniform left image: the variance vanishes and the cell is the number `0`, not NaN -/
example : costVolume { exZ with L := { rows := 3, cols := 5, px := fun _ _ => 7 } } 1 2 2 = .num 0 := by
  decide +kernel

end ZnccExample

end Pandora.C02
