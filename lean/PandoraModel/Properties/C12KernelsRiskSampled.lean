/-
  C12 — `Risk.compute_risk_and_sampled_risk` REGENERATED from the Python source
  (`Generated/KernelsConf.lean: computeRiskSampledPx`) is equal, for every cost curve, eta grid, sampled-ambiguity vector of
  the grid's length and pair of global extremes with `max_cost ≠ min_cost`, to the hand model's
  `(pixelRisk, pixelSampledRisk)`: the two means and the two per-eta vectors.
-/
import PandoraModel.Properties.C12Kernels

set_option linter.unusedSimpArgs false
set_option linter.unusedVariables false

namespace Pandora.C12Kernels
open Pandora Pandora.Confidence Pandora.PyLoops Pandora.PyVec Pandora.C12
open Pandora.Generated.KernelsConf

theorem optNan_ofVal (o : Option ℚ) : optNan o = Fl.ofVal (optVal o) := by cases o <;> rfl

theorem optNan_eq (l : List (Option ℚ)) : l.map optNan = (l.map optVal).map Fl.ofVal := by
  rw [List.map_map]
  apply List.map_congr_left
  intro o _
  cases o <;> rfl

/-- `np.zeros(n)[...] += v` -/
theorem zeros_add_embed (l : List (Option ℚ)) (n : Nat) (h : n = l.length) :
    zip2 Fl.add (full (Fl.fin 0) (n : Int)) (l.map optNan) = l.map optNan := by
  subst h
  simp only [zip2, full, Int.toNat_natCast]
  induction l with
  | nil => rfl
  | cons o l ih =>
    simp only [List.length_cons, List.replicate_succ, List.map_cons, List.zipWith_cons_cons, ih]
    cases o <;> simp [optNan, Fl.add]

/-- the mean of the per-eta vectors is the risk: `pixelRisk` is `nanmean` of `pixelSampledRisk` (model level) -/
theorem pixelRisk_eq_mean (mn mx : ℚ) (etas : List ℚ) (c : Curve) (sampled : List Nat) (m : ℚ)
    (hm : pixelBest mn mx c = some m) :
    ∃ spread : List (Option ℚ),
      (pixelSampledRisk mn mx etas c sampled).1 = spread.map optVal ∧
      (pixelRisk mn mx etas c sampled).1 = nanMean spread := by
  simp only [pixelSampledRisk, pixelRisk, hm]
  exact ⟨_, rfl, rfl⟩

/-- **`compute_risk_and_sampled_risk`: the generated per-pixel function is the hand model.** -/
theorem computeRiskSampled_generated_eq (mn mx : ℚ) (etas : List ℚ) (c : Curve) (sampled : List Nat)
    (hr : mx ≠ mn) (hc : c ≠ []) (hs : sampled.length = etas.length) :
    computeRiskSampledPx (embedCurve c) (embedQ (sampled.map (fun (a : Nat) => (a : ℚ)))) (Fl.fin mn) (Fl.fin mx) (embedQ etas)
      = .ok (Fl.ofVal (pixelRisk mn mx etas c sampled).1, Fl.ofVal (pixelRisk mn mx etas c sampled).2,
             (pixelSampledRisk mn mx etas c sampled).1.map Fl.ofVal, (pixelSampledRisk mn mx etas c sampled).2.map Fl.ofVal) := by
  have hlen : 0 < c.length := List.length_pos_iff.mpr hc
  have h0 : mx - mn ≠ 0 := sub_ne_zero.mpr hr
  have hnd : PyVec.len (embedCurve c) = (c.length : Int) := by simp [PyVec.len, embedCurve]
  have hne : PyVec.len (embedQ etas) = (etas.length : Int) := by simp [PyVec.len, embedQ]
  have hnonempty : nonEmpty (embedCurve c) = true := by
    cases c with
    | nil => exact absurd rfl hc
    | cons a l => rfl
  have hfull : ∀ x : Fl, PyVec.len (full x (etas.length : Int)) = (etas.length : Int) := by intro x; simp [PyVec.len, full]
  simp only [computeRiskSampledPx, hnd, hne, hfull, twoDim_embed etas c.length hlen, nanmin_embed, sub_fin, hnonempty]
  simp only [pixelRisk, pixelSampledRisk, pixelBest]
  cases hm : lmin (numsOf c) with
  | none =>
    simp [optNan, Fl.isNan, reshapeRowsOk, length_repeatEach, embedQ, hlen, Fl.ofVal, full]
  | some m =>
    have e1 : ((c.length : Int) * (etas.length : Int)) = ((c.length * etas.length : Nat) : Int) := by push_cast; ring
    have hresh : reshape2 ((dispCvHand mn mx etas c m).map optNatFl) (c.length : Int) (etas.length : Int)
        = (Confidence.chunks etas.length c.length (dispCvHand mn mx etas c m)).map (List.map optNatFl) := by
      simp [reshape2, chunks_map]
    simp only [optNan, sub_fin, fdiv_fin _ _ h0, Fl.isNan, Bool.false_eq_true, if_false, hr, normalizedCv_embed mn mx c hr,
      e1, gt_embed mn mx etas c m hr hlen, disp0_embed, disp2_embed, hresh, spreads_embed, riskMin_embed, nanmean_embed]
    have hcol : ∀ i : Nat, nonEmpty (PyVec.column Fl.nan
        ((Confidence.chunks etas.length c.length (dispCvHand mn mx etas c m)).map (List.map optNatFl)) (i : Int)) = true := by
      intro i
      have : 0 < (Confidence.chunks etas.length c.length (dispCvHand mn mx etas c m)).length := by
        rw [length_chunks]; exact hlen
      cases hM : Confidence.chunks etas.length c.length (dispCvHand mn mx etas c m) with
      | nil => rw [hM] at this; simp at this
      | cons r M => rfl
    rw [zeros_add_embed _ _ (by simp), zeros_add_embed _ _ (by simp [hs])]
    simp [reshapeRowsOk, reshapeOk, length_repeatEach, sameLen, full, embedQ, zip2, hlen, length_twoDimEtas, mapR, mapL, maskSet,
      length_pixelCmp mn mx etas c m hlen, length_dispCvHand mn mx etas c m hlen, Nat.mul_comm, toNat_mul_cast, allRange, hcol,
      inRange, tabulate, hs, length_npRepeat, optNan_eq]
    refine ⟨rfl, rfl, fun a _ => optNan_ofVal _, ?_⟩
    have hf : (fun (x : Option ℚ) (y : Nat) => optNan (Option.map (fun s => 1 + s - (y : ℚ)) x))
        = (fun (x : Option ℚ) (y : Nat) => Fl.ofVal (optVal (Option.map (fun s => 1 + s - (y : ℚ)) x))) := by
      funext x y; exact optNan_ofVal _
    rw [hf]
    rfl

end Pandora.C12Kernels
