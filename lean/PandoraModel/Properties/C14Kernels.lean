/-
  C14 — the filling kernels REGENERATED from the Python source (`Generated/KernelsInterp.lean`, written by
  translator/gen_kernels_interp.py with the statement-level translator translator/pyloops.py + pyloops_ext.py, T14) are
  equal, for every map size, every map, every pixel (and every direction table), to the hand model of
  `Model/Interp.lean` — and never read outside their arrays (`Res.ok`).

  The numpy reductions (`nanmedian`, `argsort(abs)`, `argmax`, `sum(isfinite)`) are NAMED functions on both sides
  (`Model/PyInterp.lean` takes their meaning from `Model/Interp.lean`): modelled, not verified.  What is proved here is
  control flow, indexing, bounds, guards and flag arithmetic.
-/
import PandoraModel.Model.Interp
import PandoraModel.Model.PyLoops
import PandoraModel.Model.PyInterp
import PandoraModel.Generated.KernelsInterp
import PandoraModel.Lemmas.InterpBits
import Mathlib.Tactic.Linarith
import Mathlib.Tactic.Ring
import Mathlib.Tactic.NormNum
import Mathlib.Tactic.IntervalCases
import Mathlib.Data.Rat.Lemmas

set_option linter.unusedSimpArgs false

namespace Pandora.C14Kernels
open Pandora Pandora.Interp Pandora.Flags Pandora.PyLoops Pandora.PyExpr Pandora.PyInterp

/-! ## Encodings: a `DMap` as the arrays the kernels are called with -/

/-- the float32 disparity map (`disp[r, c]`), indices as `Int` -/
def embedDisp (m : DMap) : Int → Int → Val := fun i j => m.disp i.toNat j.toNat

/-- the uint16 validity mask -/
def embedFlag (m : DMap) : Int → Int → Int := fun i j => ((m.flag i.toNat j.toNat : Nat) : Int)

/-! ## Support lemmas -/

theorem inb_of {n i : Int} (h0 : 0 ≤ i) (h1 : i < n) : inb n i = true := by
  have : ¬ i < 0 := by omega
  simp [inb, wrap, this, h0, h1]

theorem inb2_of {n0 n1 i j : Int} (hi0 : 0 ≤ i) (hi1 : i < n0) (hj0 : 0 ≤ j) (hj1 : j < n1) :
    inb2 n0 n1 i j = true := by
  simp [inb2, inb_of hi0 hi1, inb_of hj0 hj1]

theorem get2_of {α : Type} (a : Int → Int → α) (n0 n1 : Int) {i j : Int} (hi : 0 ≤ i) (hj : 0 ≤ j) :
    get2 a n0 n1 i j = a i j := by
  simp [get2, wrap, Int.not_lt.mpr hi, Int.not_lt.mpr hj]

/-- `flag & c` on the `Int` reading is the `Nat` one -/
theorem band_natCast (f c : Nat) : band (f : Int) (c : Int) = ((f &&& c : Nat) : Int) := by
  simp [band]

theorem embedFlag_nonneg (m : DMap) (i j : Int) : 0 ≤ embedFlag m i j := by
  simp [embedFlag]

/-- the validity test of the kernels on the `Int` reading of the mask is `DMap.validAt` -/
theorem valid_test (m : DMap) (p : Int × Int) :
    decide (band (embedFlag m p.1 p.2) 963 = 0) = m.validAt p := by
  have h : (963 : Int) = ((963 : Nat) : Int) := rfl
  rw [embedFlag, h, band_natCast]
  simp only [DMap.validAt, DMap.valid, pixelInvalid]
  by_cases h0 : (m.flag p.1.toNat p.2.toNat &&& 963) = 0
  · simp [h0]
  · have : ¬ (((m.flag p.1.toNat p.2.toNat &&& 963 : Nat) : Int) = 0) := by exact_mod_cast h0
    simp [h0, this]

/-! ## `find_valid_neighbors` -/

/-- A generated loop whose body — whatever its text — adds the direction to the position, leaves with NaN outside
    the image, leaves with the disparity on a valid pixel and otherwise goes on, computes `Interp.scanAcc`.
    State of the loop: (all reads inside, the output cell, `tmp_row` = second index, `tmp_col` = first index). -/
theorem forLoop_scanAcc (m : DMap) (d : Int × Int)
    (body : Int → Bool × Val × Int × Int → Bool × (Bool × Val × Int × Int)) (s : Int)
    (h : ∀ (i : Int) (ok : Bool) (out : Val) (tr tc : Int), body i (ok, out, tr, tc) =
      if !m.inside (tc + d.2, tr + d.1) then (true, (ok, Val.nan, tr + d.1, tc + d.2))
      else if m.validAt (tc + d.2, tr + d.1) then (true, (ok, m.dispAt (tc + d.2, tr + d.1), tr + d.1, tc + d.2))
      else (false, (ok, out, tr + d.1, tc + d.2))) :
    ∀ (n : Nat) (i : Int) (ok : Bool) (tr tc : Int),
      (forLoop body s n i (ok, Val.num 0, tr, tc)).1 = ok
      ∧ (forLoop body s n i (ok, Val.num 0, tr, tc)).2.1 = scanAcc m d n (tc, tr) := by
  intro n
  induction n with
  | zero => intro i ok tr tc; simp [forLoop, scanAcc]
  | succ n ih =>
    intro i ok tr tc
    simp only [forLoop, h, scanAcc]
    by_cases hin : m.inside (tc + d.2, tr + d.1) = true
    · by_cases hv : m.validAt (tc + d.2, tr + d.1) = true
      · simp [hin, hv]
      · simp only [hin, hv, Bool.not_true, Bool.false_eq_true, if_false]
        exact ih (i + s) ok (tr + d.1) (tc + d.2)
    · simp [hin]

theorem forRange_scanAcc_ok (m : DMap) (d : Int × Int) (a b s : Int)
    (body : Int → Bool × Val × Int × Int → Bool × (Bool × Val × Int × Int)) (tr tc : Int)
    (h : ∀ (i : Int) (ok : Bool) (out : Val) (tr tc : Int), body i (ok, out, tr, tc) =
      if !m.inside (tc + d.2, tr + d.1) then (true, (ok, Val.nan, tr + d.1, tc + d.2))
      else if m.validAt (tc + d.2, tr + d.1) then (true, (ok, m.dispAt (tc + d.2, tr + d.1), tr + d.1, tc + d.2))
      else (false, (ok, out, tr + d.1, tc + d.2))) :
    (forRange a b s body (true, Val.num 0, tr, tc)).1 = true :=
  (forLoop_scanAcc m d body s h _ a true tr tc).1

theorem forRange_scanAcc_val (m : DMap) (d : Int × Int) (a b s : Int)
    (body : Int → Bool × Val × Int × Int → Bool × (Bool × Val × Int × Int)) (tr tc : Int)
    (h : ∀ (i : Int) (ok : Bool) (out : Val) (tr tc : Int), body i (ok, out, tr, tc) =
      if !m.inside (tc + d.2, tr + d.1) then (true, (ok, Val.nan, tr + d.1, tc + d.2))
      else if m.validAt (tc + d.2, tr + d.1) then (true, (ok, m.dispAt (tc + d.2, tr + d.1), tr + d.1, tc + d.2))
      else (false, (ok, out, tr + d.1, tc + d.2))) :
    (forRange a b s body (true, Val.num 0, tr, tc)).2.1 = scanAcc m d (rangeLen a b s) (tc, tr) :=
  (forLoop_scanAcc m d body s h _ a true tr tc).2

theorem rangeLen_upto (n : Int) : rangeLen 0 n 1 = n.toNat := by
  simp [rangeLen]

open Pandora.Generated.KernelsInterp

/-- **One cell of `find_valid_neighbors`, as the source defines it today, is the hand model's scan** — for every map,
    every start pixel, every direction table `dirs` (of shape `n0 × n1`, `n1 ≥ 2`) and every direction `k` in it; and
    `Res.ok`: no read outside `dirs`, `disp`, `valid`, no bit operation on a negative number. -/
theorem findValidNeighborsAt_generated_eq (m : DMap) (dirs : Int → Int → Int) (n0 n1 : Int) (r c : Nat) (k : Int)
    (hk0 : 0 ≤ k) (hk : k < n0) (hn1 : 2 ≤ n1) :
    findValidNeighborsAt dirs n0 n1 (embedDisp m) m.rows m.cols (embedFlag m) m.rows m.cols c r k
      = .ok (scanAcc m (dirs k 0, dirs k 1) (max m.cols m.rows) ((r : Int), (c : Int))) := by
  have hd0 : get2 dirs n0 n1 k 0 = dirs k 0 := get2_of dirs n0 n1 hk0 (by omega)
  have hd1 : get2 dirs n0 n1 k 1 = dirs k 1 := get2_of dirs n0 n1 hk0 (by omega)
  have hi0 : inb2 n0 n1 k 0 = true := inb2_of hk0 hk (by omega) (by omega)
  have hi1 : inb2 n0 n1 k 1 = true := inb2_of hk0 hk (by omega) (by omega)
  have hlen : rangeLen 0 (imax (m.cols : Int) (m.rows : Int)) 1 = max m.cols m.rows := by
    rw [rangeLen_upto]; unfold imax; split <;> omega
  simp only [findValidNeighborsAt]
  rw [forRange_scanAcc_val m (dirs k 0, dirs k 1) _ _ _ _ _ _ ?body,
      forRange_scanAcc_ok m (dirs k 0, dirs k 1) _ _ _ _ _ _ ?body]
  · simp [hlen]
  case body =>
    -- whatever the order of the four edge tests and the names of the locals
    intro i ok out tr tc
    simp only [hd0, hd1, hi0, hi1, Bool.and_true]
    by_cases hin : m.inside (tc + dirs k 1, tr + dirs k 0) = true
    · have hin' := hin
      simp only [DMap.inside, Bool.and_eq_true, decide_eq_true_eq] at hin'
      obtain ⟨⟨⟨h1, h2⟩, h3⟩, h4⟩ := hin'
      have hv := valid_test m (tc + dirs k 1, tr + dirs k 0)
      by_cases hval : m.validAt (tc + dirs k 1, tr + dirs k 0) = true
      · simp only [hin, hval, Bool.not_true, Bool.false_eq_true, if_false, if_true]
        split
        · rename_i hc; simp only [Bool.or_eq_true, decide_eq_true_eq] at hc; omega
        · simp [get2_of (embedFlag m) _ _ h1 h3, get2_of (embedDisp m) _ _ h1 h3, inb2_of h1 h2 h3 h4,
            embedFlag_nonneg, hv, hval, DMap.dispAt, embedDisp]
      · simp only [hin, hval, Bool.not_true, Bool.false_eq_true, if_false]
        split
        · rename_i hc; simp only [Bool.or_eq_true, decide_eq_true_eq] at hc; omega
        · simp [get2_of (embedFlag m) _ _ h1 h3, inb2_of h1 h2 h3 h4, embedFlag_nonneg, hv, hval]
    · simp only [hin, Bool.not_false, if_true]
      split
      · rfl
      · rename_i hc
        simp only [DMap.inside, Bool.and_eq_true, decide_eq_true_eq] at hin
        simp only [Bool.or_eq_true, decide_eq_true_eq, not_or] at hc
        omega

/-! ### the whole array -/

theorem collectFrom_ok {α : Type} (f : Int → Res α) (g : Int → α) :
    ∀ (n s : Nat), (∀ j : Nat, s ≤ j → j < s + n → f (j : Int) = .ok (g (j : Int))) →
      collectFrom f n (s : Int) = .ok ((List.range' s n).map fun (j : Nat) => g (j : Int)) := by
  intro n
  induction n with
  | zero => intro s _; simp [collectFrom]
  | succ n ih =>
    intro s h
    have h0 := h s (Nat.le_refl s) (by omega)
    have h1 := ih (s + 1) (fun j hj1 hj2 => h j (by omega) (by omega))
    rw [show (((s + 1 : Nat) : Int)) = (s : Int) + 1 by push_cast; rfl] at h1
    simp only [collectFrom, h0, h1, List.range'_succ, List.map_cons]

theorem collect_ok {α : Type} (f : Int → Res α) (g : Int → α) (n : Nat)
    (h : ∀ j : Nat, j < n → f (j : Int) = .ok (g (j : Int))) :
    collect n f = .ok ((List.range n).map fun (j : Nat) => g (j : Int)) := by
  have := collectFrom_ok f g n 0 (fun j _ hj => h j (by omega))
  simp only [Nat.cast_zero] at this
  simp only [collect, this, List.range_eq_range']

/-- **`find_valid_neighbors` as the source defines it today**, for every direction table with at least 8 rows and 2
    columns: the list of the 8 scans of the hand model, no read out of bounds. -/
theorem findValidNeighbors_generated_eq_table (m : DMap) (dirs : Int → Int → Int) (n0 n1 : Int) (r c : Nat)
    (h8 : 8 ≤ n0) (hn1 : 2 ≤ n1) :
    Generated.KernelsInterp.findValidNeighbors dirs n0 n1 (embedDisp m) m.rows m.cols (embedFlag m) m.rows m.cols c r
      = .ok ((List.range 8).map fun (k : Nat) =>
          scanAcc m (dirs k 0, dirs k 1) (max m.cols m.rows) ((r : Int), (c : Int))) := by
  unfold Generated.KernelsInterp.findValidNeighbors
  exact collect_ok _ (fun k => scanAcc m (dirs k 0, dirs k 1) (max m.cols m.rows) ((r : Int), (c : Int))) 8
    (fun j hj => findValidNeighborsAt_generated_eq m dirs n0 n1 r c j (by omega) (by omega) hn1)

/-- the direction table of the sgm kernels, as the literal `np.array([[0, 1], …])` is translated -/
def sgmDirs : List (List Int) := [[0, 1], [-1, 1], [-1, 0], [-1, -1], [0, -1], [1, -1], [1, 0], [1, 1]]

/-- … with the 8 directions of the sgm kernels it is `Interp.findValidNeighbors` -/
theorem findValidNeighbors_generated_eq (m : DMap) (r c : Nat) :
    Generated.KernelsInterp.findValidNeighbors (tab2 0 sgmDirs) 8 2 (embedDisp m) m.rows m.cols (embedFlag m) m.rows m.cols c r
      = .ok (Interp.findValidNeighbors m r c) := by
  rw [findValidNeighbors_generated_eq_table m _ 8 2 r c (by omega) (by omega)]
  rfl

/-! ## `interpolate_occlusion_sgm` -/

/-- `valid[col, row] & c != 0` on the `Int` reading of the mask -/
theorem flag_test (m : DMap) (r c : Nat) (bit : Nat) :
    (!decide (band (embedFlag m (r : Int) (c : Int)) (bit : Int) = 0)) = ((m.flag r c &&& bit) != 0) := by
  rw [embedFlag, band_natCast]
  simp only [Int.toNat_natCast]
  by_cases h0 : (m.flag r c &&& bit) = 0
  · simp [h0]
  · have : ¬ (((m.flag r c &&& bit : Nat) : Int) = 0) := by exact_mod_cast h0
    simp [h0, this]

/-- a flag word carrying bit `2^k` is at least `2^k` -/
theorem le_of_and_two_pow {f k : Nat} (h : (f &&& 2 ^ k) != 0) : 2 ^ k ≤ f := by
  have h1 : f &&& 2 ^ k ≤ f := Nat.and_le_left
  rw [Interp.and_two_pow] at h h1
  by_cases hb : f.testBit k = true
  · simpa [hb] using h1
  · simp [hb] at h

theorem sub_bor (f a b : Nat) (h : a ≤ f) :
    bor ((f : Int) - (a : Int)) (b : Int) = (((f - a) ||| b : Nat) : Int) := by
  rw [show (f : Int) - (a : Int) = ((f - a : Nat) : Int) by omega]
  simp [bor]

theorem findValidNeighbors_length (m : DMap) (r c : Nat) : (Interp.findValidNeighbors m r c).length = 8 := by
  simp [Interp.findValidNeighbors, dirs8]

/-- **One pixel of `interpolate_occlusion_sgm`, as the source defines it today, is the hand model's `occlSgmPixel`**
    (guarded text, bit raised with `|=`), for every map and every pixel inside it; `Res.ok`: every read inside the
    arrays, every bit operation on non-negative words, the call of `find_valid_neighbors` in bounds too. -/
theorem occlusionSgm_generated_eq (m : DMap) (r c : Nat) (hr : r < m.rows) (hc : c < m.cols) :
    occlusionSgmPx (embedDisp m) m.rows m.cols (embedFlag m) m.rows m.cols r c
      = .ok ((occlSgmPixel ⟨true, .or⟩ m r c).1, (((occlSgmPixel ⟨true, .or⟩ m r c).2 : Nat) : Int)) := by
  have hr0 : (0 : Int) ≤ r := Int.natCast_nonneg r
  have hc0 : (0 : Int) ≤ c := Int.natCast_nonneg c
  have hrR : (r : Int) < m.rows := by exact_mod_cast hr
  have hcC : (c : Int) < m.cols := by exact_mod_cast hc
  have hcall := findValidNeighbors_generated_eq m r c
  simp only [sgmDirs] at hcall
  have h256 : (256 : Int) = ((256 : Nat) : Int) := rfl
  have h16 : (16 : Int) = ((16 : Nat) : Int) := rfl
  have hlen := findValidNeighbors_length m r c
  simp only [occlusionSgmPx, get2_of (embedFlag m) _ _ hr0 hc0, get2_of (embedDisp m) _ _ hr0 hc0,
    inb2_of hr0 hrR hc0 hcC, embedFlag_nonneg, decide_true, Bool.and_true, hcall, Res.isOk, Res.getD]
  rw [h256, flag_test m r c 256]
  have hoc : occlusion = 256 := rfl
  have hfo : filledOcclusion = 16 := rfl
  unfold occlSgmPixel
  simp only [hoc, hfo]
  by_cases hocc : ((m.flag r c &&& 256) != 0) = true
  · have hle : 256 ≤ m.flag r c := le_of_and_two_pow (k := 8) hocc
    have hnn : (0 : Int) ≤ embedFlag m (r : Int) (c : Int) - ((256 : Nat) : Int) := by
      simp only [embedFlag, Int.toNat_natCast]; omega
    have hbor := sub_bor (m.flag r c) 256 16 hle
    simp only [hocc, if_true, countFinite, sortedAbsGet, vget, vinb, hlen, hnn, decide_true, Bool.and_true, h16]
    by_cases hg : (nums (Interp.findValidNeighbors m r c)).length < 2
    · have : ¬ ((nums (Interp.findValidNeighbors m r c)).length : Int) ≥ 2 := by omega
      simp [hg, this, embedDisp, embedFlag]
    · have : ((nums (Interp.findValidNeighbors m r c)).length : Int) ≥ 2 := by omega
      have hb : embedFlag m (r : Int) (c : Int) = ((m.flag r c : Nat) : Int) := by simp [embedFlag]
      simp only [hg, this, decide_true, if_true, Bool.true_and, decide_false, Bool.false_eq_true, if_false, hb, hbor]
      simp [secondLowestAbs, raise, filledOcclusion, inb, wrap, Interp.isort]
  · simp [hocc, embedDisp, embedFlag]

/-! ## `interpolate_mismatch_sgm` -/

theorem clipIdx_natCast {n a : Nat} (h : a ≤ n) : clipIdx (n : Int) (a : Int) = a := by
  have h1 : ¬ ((a : Int) < 0) := by omega
  have h2 : ¬ ((n : Int) < (a : Int)) := by omega
  simp [clipIdx, h1, h2]

theorem sum_natCast (l : List Nat) (f : Nat → Nat) :
    (((l.map f).sum : Nat) : Int) = (l.map fun x => ((f x : Nat) : Int)).sum := by
  induction l with
  | nil => simp
  | cons x t ih => simp only [List.map_cons, List.sum_cons, Nat.cast_add, ih]

theorem allNonneg2_embedFlag (m : DMap) (n0 n1 lo0 hi0 lo1 hi1 : Int) :
    allNonneg2 (embedFlag m) n0 n1 lo0 hi0 lo1 hi1 = true := by
  simp [allNonneg2, embedFlag_nonneg]

/-- the clipped 3×3 slice sum of the source, whatever the text of its four bounds, is the hand model's
    `occlusionSum3x3` as soon as the bounds have the values `max(0, i-1)` / `min(n-1, i+1) + 1` -/
theorem sumBand2_eq (m : DMap) (r c : Nat) (lo0 hi0 lo1 hi1 : Int) (hr : r < m.rows) (hc : c < m.cols)
    (e0 : lo0 = ((r - 1 : Nat) : Int)) (e1 : hi0 = ((min (m.rows - 1) (r + 1) + 1 : Nat) : Int))
    (e2 : lo1 = ((c - 1 : Nat) : Int)) (e3 : hi1 = ((min (m.cols - 1) (c + 1) + 1 : Nat) : Int)) :
    sumBand2 (embedFlag m) m.rows m.cols lo0 hi0 lo1 hi1 256 = ((occlusionSum3x3 m r c : Nat) : Int) := by
  subst e0 e1 e2 e3
  have h256 : (256 : Int) = ((256 : Nat) : Int) := rfl
  simp only [sumBand2, sliceIdx, occlusionSum3x3, occlusion,
    clipIdx_natCast (show r - 1 ≤ m.rows by omega), clipIdx_natCast (show min (m.rows - 1) (r + 1) + 1 ≤ m.rows by omega),
    clipIdx_natCast (show c - 1 ≤ m.cols by omega), clipIdx_natCast (show min (m.cols - 1) (c + 1) + 1 ≤ m.cols by omega)]
  rw [sum_natCast]
  congr 1
  apply List.map_congr_left
  intro i _
  rw [sum_natCast]
  congr 1

/-- bounds of the 3×3 window written with `max` / `min` in any order -/
macro "window_bound" : tactic => `(tactic| (
  simp only [imax, imin]
  (repeat' split) <;> omega))

/-- **One pixel of `interpolate_mismatch_sgm`, as the source defines it today, is the hand model's `mismSgmPixel`**
    (guarded text, bits raised with `|=`): the clipped 3×3 occlusion test, the conversion mismatch → occlusion, the
    call of `find_valid_neighbors`, the guard and the `nanmedian` fill — for every map and every pixel inside it. -/
theorem mismatchSgm_generated_eq (m : DMap) (r c : Nat) (hr : r < m.rows) (hc : c < m.cols) :
    mismatchSgmPx (embedDisp m) m.rows m.cols (embedFlag m) m.rows m.cols r c
      = .ok ((mismSgmPixel ⟨true, .or⟩ m r c).1, (((mismSgmPixel ⟨true, .or⟩ m r c).2 : Nat) : Int)) := by
  have hr0 : (0 : Int) ≤ r := Int.natCast_nonneg r
  have hc0 : (0 : Int) ≤ c := Int.natCast_nonneg c
  have hrR : (r : Int) < m.rows := by exact_mod_cast hr
  have hcC : (c : Int) < m.cols := by exact_mod_cast hc
  have hcall := findValidNeighbors_generated_eq m r c
  simp only [sgmDirs] at hcall
  have h512 : (512 : Int) = ((512 : Nat) : Int) := rfl
  have h256 : (256 : Int) = ((256 : Nat) : Int) := rfl
  have h32 : (32 : Int) = ((32 : Nat) : Int) := rfl
  have hb : embedFlag m (r : Int) (c : Int) = ((m.flag r c : Nat) : Int) := by simp [embedFlag]
  simp only [mismatchSgmPx, get2_of (embedFlag m) _ _ hr0 hc0, get2_of (embedDisp m) _ _ hr0 hc0,
    inb2_of hr0 hrR hc0 hcC, embedFlag_nonneg, decide_true, Bool.and_true, hcall, Res.isOk, Res.getD,
    allNonneg2_embedFlag]
  rw [sumBand2_eq m r c _ _ _ _ hr hc ?e0 ?e1 ?e2 ?e3]
  · rw [h512, flag_test m r c 512]
    have hmi : mismatch = 512 := rfl
    have hoc : occlusion = 256 := rfl
    have hfm : filledMismatch = 32 := rfl
    unfold mismSgmPixel
    simp only [hmi, hoc, hfm]
    by_cases hmis : ((m.flag r c &&& 512) != 0) = true
    · have hle : 512 ≤ m.flag r c := le_of_and_two_pow (k := 9) hmis
      have hnn : (0 : Int) ≤ ((m.flag r c : Nat) : Int) - ((512 : Nat) : Int) := by omega
      have hbor1 := sub_bor (m.flag r c) 512 256 hle
      have hbor2 := sub_bor (m.flag r c) 512 32 hle
      simp only [hmis, if_true, hb, hnn, decide_true, Bool.and_true, h256, h32, hbor1, hbor2]
      by_cases hs : occlusionSum3x3 m r c = 0
      · by_cases hg : (nums (Interp.findValidNeighbors m r c)).isEmpty = true
        · simp [hs, hg, anyFinite, embedDisp]
        · simp [hs, hg, anyFinite, PyInterp.nanmedian, raise]
      · have : ¬ (((occlusionSum3x3 m r c : Nat) : Int) = 0) := by exact_mod_cast hs
        simp [hs, this, raise, embedDisp]
    · simp [hmis, embedDisp, embedFlag]
  all_goals window_bound

/-! ## `interpolate_occlusion_mc_cnn` -/

theorem wrap_nonneg {n i : Int} (h : 0 ≤ i) : wrap n i = i := by
  have : ¬ i < 0 := by omega
  simp [wrap, this]

/-- `(valid[r, a:b] & INVALID) == 0` on the `Int` reading of the mask is the list of `DMap.valid` over columns `a … b-1`,
    whatever the text of the index and of the two bounds (their values are what matters) -/
theorem rowMask_eq (m : DMap) (r a b : Nat) (i lo hi : Int) (hr : r < m.rows)
    (ei : i = (r : Int)) (elo : lo = (a : Int)) (ehi : hi = (b : Int)) (hab : a ≤ b) (hb : b ≤ m.cols) :
    rowMaskZero (embedFlag m) m.rows m.cols i lo hi 963 = (List.range' a (b - a)).map fun j => m.valid r j := by
  subst ei elo ehi
  simp only [rowMaskZero, rowSlice, clipIdx_natCast (show a ≤ m.cols by omega), clipIdx_natCast hb, List.map_map,
    wrap_nonneg (Int.natCast_nonneg r)]
  apply List.map_congr_left
  intro j _
  have := valid_test m ((r : Int), (j : Int))
  simpa [DMap.validAt] using this

theorem rowNonneg_embedFlag (m : DMap) (n0 n1 i lo hi : Int) : rowNonneg (embedFlag m) n0 n1 i lo hi = true := by
  simp [rowNonneg, rowSlice, embedFlag_nonneg]

theorem argmaxBool_lt (l : List Bool) (h : 0 < l.length) : argmaxBool l < l.length := by
  unfold argmaxBool
  simp only
  split
  · assumption
  · exact h

theorem vget_natCast {α : Type} (d : α) (v : List α) (k : Nat) : vget d v (k : Int) = v.getD k d := by
  simp [vget, wrap_nonneg (Int.natCast_nonneg k)]

theorem vinb_natCast {α : Type} (v : List α) (k : Nat) (h : k < v.length) : vinb v (k : Int) = true := by
  simp only [vinb]
  exact inb_of (Int.natCast_nonneg k) (by exact_mod_cast h)

theorem range'_map_shift {β : Type} (c n : Nat) (f : Nat → β) :
    (List.range' c n).map f = (List.range n).map fun k => f (c + k) := by
  rw [List.range'_eq_map_range, List.map_map]
  rfl

/-- `out_val -= OCC * found; out_val |= FILLED_OCC * found` on a word carrying the occlusion bit -/
theorem flag_update (f : Nat) (b : Bool) (hle : 256 ≤ f) :
    bor ((f : Int) - 256 * b2i b) (16 * b2i b) = ((raise .or (f - 256 * b2n b) (16 * b2n b) : Nat) : Int)
    ∧ 0 ≤ (f : Int) - 256 * b2i b ∧ (0 : Int) ≤ 16 * b2i b := by
  cases b with
  | true =>
    have := sub_bor f 256 16 hle
    simp only [b2i, b2n, if_true, Int.mul_one, Nat.mul_one, raise]
    refine ⟨by simpa using this, by omega, by omega⟩
  | false =>
    simp [b2i, b2n, raise, bor]

/-- **One pixel of `interpolate_occlusion_mc_cnn`, as the source defines it today, is the hand model's `occlMcPixel`**:
    the mask of the row up to the pixel, reversed, its `argmax`, the second mask to the right when nothing is found,
    `msk[arg_valid]`, the flag update multiplied by it and the disparity copied from `row ∓ arg_valid` — every read
    inside the arrays, no `argmax` of an empty mask. -/
theorem occlusionMcCnn_generated_eq (m : DMap) (r c : Nat) (hr : r < m.rows) (hc : c < m.cols) :
    occlusionMcCnnPx (embedDisp m) m.rows m.cols (embedFlag m) m.rows m.cols r c
      = .ok ((occlMcPixel ⟨true, .or⟩ m r c).1, (((occlMcPixel ⟨true, .or⟩ m r c).2 : Nat) : Int)) := by
  have hr0 : (0 : Int) ≤ r := Int.natCast_nonneg r
  have hc0 : (0 : Int) ≤ c := Int.natCast_nonneg c
  have hrR : (r : Int) < m.rows := by exact_mod_cast hr
  have hcC : (c : Int) < m.cols := by exact_mod_cast hc
  have h256 : (256 : Int) = ((256 : Nat) : Int) := rfl
  have hb : embedFlag m (r : Int) (c : Int) = ((m.flag r c : Nat) : Int) := by simp [embedFlag]
  have hL := rowMask_eq m r 0 (c + 1) (r : Int) 0 ((c : Int) + 1) hr rfl rfl (by push_cast; rfl) (by omega) (by omega)
  have hR := rowMask_eq m r c m.cols (r : Int) (c : Int) (m.cols : Int) hr rfl rfl rfl (by omega) (by omega)
  rw [Nat.sub_zero, ← List.range_eq_range'] at hL
  rw [range'_map_shift] at hR
  simp only [occlusionMcCnnPx, get2_of (embedFlag m) _ _ hr0 hc0, get2_of (embedDisp m) _ _ hr0 hc0,
    inb2_of hr0 hrR hc0 hcC, inb_of hr0 hrR, embedFlag_nonneg, decide_true, Bool.and_true, Bool.true_and,
    rowNonneg_embedFlag, hL, hR]
  have hft := flag_test m r c 256
  rw [show ((256 : Nat) : Int) = 256 from rfl] at hft
  rw [hft]
  have hoc : occlusion = 256 := rfl
  have hfo : filledOcclusion = 16 := rfl
  unfold occlMcPixel occlMcCore
  simp only [hoc, hfo]
  by_cases hocc : ((m.flag r c &&& 256) != 0) = true
  · have hle : 256 ≤ m.flag r c := le_of_and_two_pow (k := 8) hocc
    generalize hLdef : ((List.range (c + 1)).map fun j => m.valid r j).reverse = L
    generalize hRdef : ((List.range (m.cols - c)).map fun k => m.valid r (c + k)) = R
    have hLlen : L.length = c + 1 := by rw [← hLdef]; simp
    have hRlen : R.length = m.cols - c := by rw [← hRdef]; simp
    have haL := argmaxBool_lt L (by omega)
    have haR := argmaxBool_lt R (by omega)
    have hLne : L.isEmpty = false := by cases L with | nil => simp at hLlen | cons _ _ => rfl
    have hRne : R.isEmpty = false := by cases R with | nil => simp at hRlen; omega | cons _ _ => rfl
    simp only [hocc, if_true, PyInterp.argmax, hLne, hRne, Bool.not_false, Bool.and_true, vget_natCast,
      vinb_natCast L _ haL, vinb_natCast R _ haR, hb]
    by_cases ha0 : argmaxBool L = 0
    · have hd : (((argmaxBool L : Nat) : Int) = 0) := by exact_mod_cast ha0
      generalize R.getD (argmaxBool R) false = found
      obtain ⟨f1, f2, f3⟩ := flag_update (m.flag r c) found hle
      -- whatever the text of the index (`row + arg_valid`, `arg_valid + row`, …): its value is what matters
      have hin : ∀ j : Int, j = (c : Int) + ((argmaxBool R : Nat) : Int) →
          inb2 (m.rows : Int) (m.cols : Int) (r : Int) j = true := by
        intro j hj; subst hj; exact inb2_of hr0 hrR (by omega) (by omega)
      have hget : ∀ j : Int, j = (c : Int) + ((argmaxBool R : Nat) : Int) →
          get2 (embedDisp m) (m.rows : Int) (m.cols : Int) (r : Int) j = m.disp r (c + argmaxBool R) := by
        intro j hj; subst hj
        rw [get2_of _ _ _ hr0 (by omega)]
        simp only [embedDisp, Int.toNat_natCast]
        congr 1
      simp (disch := omega) only [hd, ha0, Nat.cast_zero, f1, f2, f3, hin, hget, decide_true, if_true, Bool.and_true, Bool.and_self, beq_self_eq_true]
    · have hd : ¬ (((argmaxBool L : Nat) : Int) = 0) := by exact_mod_cast ha0
      generalize L.getD (argmaxBool L) false = found
      obtain ⟨f1, f2, f3⟩ := flag_update (m.flag r c) found hle
      have hin : ∀ j : Int, j = (c : Int) - ((argmaxBool L : Nat) : Int) →
          inb2 (m.rows : Int) (m.cols : Int) (r : Int) j = true := by
        intro j hj; subst hj; exact inb2_of hr0 hrR (by omega) (by omega)
      have hget : ∀ j : Int, j = (c : Int) - ((argmaxBool L : Nat) : Int) →
          get2 (embedDisp m) (m.rows : Int) (m.cols : Int) (r : Int) j = m.disp r (c - argmaxBool L) := by
        intro j hj; subst hj
        rw [get2_of _ _ _ hr0 (by omega)]
        simp only [embedDisp, Int.toNat_natCast]
        congr 1
        omega
      have hbeq : (argmaxBool L == 0) = false := by simp [ha0]
      simp (disch := omega) only [hd, hbeq, f1, f2, f3, hin, hget, decide_true, decide_false, Bool.false_eq_true, if_false, if_true, Bool.and_true, Bool.and_self]
  · simp [hocc, embedDisp, embedFlag]

/-! ## `interpolate_mismatch_mc_cnn` -/

/-- Python `int(q)` of `q = (n / 2) * i` is the hand model's `truncHalf n i` (`Int.tdiv (n * i) 2`) -/
theorem truncRat_half (n i : Int) : truncRat (((n : Rat) / 2) * (i : Rat)) = Int.tdiv (n * i) 2 := by
  have e : ((n : Rat) / 2) * (i : Rat) = (((n * i : Int)) : Rat) / (((2 : Int)) : Rat) := by push_cast; ring
  rw [e]
  obtain ⟨g, h1, h2⟩ := Rat.exists_eq_mul_div_num_and_eq_mul_div_den (n * i) (d := 2) (by norm_num)
  have hden : (0 : Int) < (((((n * i : Int)) : Rat) / (((2 : Int)) : Rat)).den : Int) := by
    exact_mod_cast Rat.den_pos _
  have hg : 0 < g := by
    by_contra hneg
    have : g ≤ 0 := by omega
    nlinarith
  unfold truncRat
  calc Int.tdiv ((((n * i : Int)) : Rat) / (((2 : Int)) : Rat)).num (((((n * i : Int)) : Rat) / (((2 : Int)) : Rat)).den : Int)
      = Int.tdiv (g * ((((n * i : Int)) : Rat) / (((2 : Int)) : Rat)).num) (g * (((((n * i : Int)) : Rat) / (((2 : Int)) : Rat)).den : Int)) := by
        rw [Int.mul_tdiv_mul_of_pos _ _ hg]
    _ = Int.tdiv (n * i) 2 := by rw [← h1, ← h2]

/-- A generated loop whose body — whatever its text — leaves with NaN outside the image, leaves with the disparity on
    a valid pixel and otherwise goes on, at the position `pos i` of its iteration `i`, computes `Interp.scanLoop`
    (accumulator cell initialised with NaN). -/
theorem forLoop_scanLoop (m : DMap) (pos : Nat → Int × Int) (body : Int → Bool × Val → Bool × (Bool × Val))
    (h : ∀ (i : Nat) (ok : Bool) (out : Val), body (i : Int) (ok, out) =
      if !m.inside (pos i) then (true, (ok, Val.nan))
      else if m.validAt (pos i) then (true, (ok, m.dispAt (pos i)))
      else (false, (ok, out))) :
    ∀ (n i : Nat) (ok : Bool), forLoop body 1 n (i : Int) (ok, Val.nan) = (ok, scanLoop Val.nan m pos n i) := by
  intro n
  induction n with
  | zero => intro i ok; simp [forLoop, scanLoop]
  | succ n ih =>
    intro i ok
    simp only [forLoop, h, scanLoop]
    by_cases hin : m.inside (pos i) = true
    · by_cases hv : m.validAt (pos i) = true
      · simp [hin, hv]
      · simp only [hin, hv, Bool.not_true, Bool.false_eq_true, if_false]
        have := ih (i + 1) ok
        rw [show (((i + 1 : Nat)) : Int) = (i : Int) + 1 by push_cast; rfl] at this
        exact this
    · simp [hin]

theorem forRange_scanLoop (m : DMap) (pos : Nat → Int × Int) (b : Int) (body : Int → Bool × Val → Bool × (Bool × Val))
    (h : ∀ (i : Nat) (ok : Bool) (out : Val), body (i : Int) (ok, out) =
      if !m.inside (pos i) then (true, (ok, Val.nan))
      else if m.validAt (pos i) then (true, (ok, m.dispAt (pos i)))
      else (false, (ok, out))) :
    forRange 1 b 1 body (true, Val.nan) = (true, scanLoop Val.nan m pos (rangeLen 1 b 1) 1) := by
  have := forLoop_scanLoop m pos body h (rangeLen 1 b 1) 1 true
  simpa [forRange] using this

/-- the 16 directions of the mc-cnn mismatch kernel, as the literal `np.array([[0.0, 1.0], [-0.5, 1.0], …])` is translated -/
def mcDirs : List (List Rat) :=
  [[(0 : Rat), (1 : Rat)], [((-1 : Rat) / 2), (1 : Rat)], [(-1 : Rat), (1 : Rat)], [(-1 : Rat), ((1 : Rat) / 2)], [(-1 : Rat), (0 : Rat)], [(-1 : Rat), ((-1 : Rat) / 2)], [(-1 : Rat), (-1 : Rat)], [((-1 : Rat) / 2), (-1 : Rat)], [(0 : Rat), (-1 : Rat)], [((1 : Rat) / 2), (-1 : Rat)], [(1 : Rat), (-1 : Rat)], [(1 : Rat), ((-1 : Rat) / 2)], [(1 : Rat), (0 : Rat)], [(1 : Rat), ((1 : Rat) / 2)], [(1 : Rat), (1 : Rat)], [((1 : Rat) / 2), (1 : Rat)]]

/-- every entry of the source's table is half the hand model's (doubled, integer) `dirs16` entry -/
theorem mcDirs_half (k : Nat) (hk : k < 16) :
    get2 (tab2 (0 : Rat) mcDirs) 16 2 (k : Int) 0 = (((dirs16.getD k (0, 0)).1 : Int) : Rat) / 2
    ∧ get2 (tab2 (0 : Rat) mcDirs) 16 2 (k : Int) 1 = (((dirs16.getD k (0, 0)).2 : Int) : Rat) / 2 := by
  interval_cases k <;> (simp [get2, wrap, tab2, mcDirs, dirs16]; try norm_num)

/-- **One pixel of `interpolate_mismatch_mc_cnn`, as the source defines it today, is the hand model's `mismMcPixel`**
    (guarded text: accumulator initialised with NaN, filled only when a finite source is in sight; `|=`): the 16 scans
    along `int(dir * i)`, `i = 1 … max(nrow, ncol) - 1`, the edge test, the first valid pixel, the guard and the
    `nanmedian` — for every map and every pixel inside it, every read inside the arrays. -/
theorem mismatchMcCnn_generated_eq (m : DMap) (r c : Nat) (hr : r < m.rows) (hc : c < m.cols) :
    mismatchMcCnnPx (embedDisp m) m.rows m.cols (embedFlag m) m.rows m.cols r c
      = .ok ((mismMcPixel ⟨true, .or⟩ m r c).1, (((mismMcPixel ⟨true, .or⟩ m r c).2 : Nat) : Int)) := by
  have hr0 : (0 : Int) ≤ r := Int.natCast_nonneg r
  have hc0 : (0 : Int) ≤ c := Int.natCast_nonneg c
  have hrR : (r : Int) < m.rows := by exact_mod_cast hr
  have hcC : (c : Int) < m.cols := by exact_mod_cast hc
  have hb : embedFlag m (r : Int) (c : Int) = ((m.flag r c : Nat) : Int) := by simp [embedFlag]
  have h32 : (32 : Int) = ((32 : Nat) : Int) := rfl
  have hft := flag_test m r c 512
  rw [show ((512 : Nat) : Int) = 512 from rfl] at hft
  have hlen : rangeLen 1 (imax (m.cols : Int) (m.rows : Int)) 1 = max m.cols m.rows - 1 := by
    simp only [rangeLen]; unfold imax; split <;> simp <;> omega
  have htab := mcDirs_half
  simp only [mcDirs] at htab
  have hmi : mismatch = 512 := rfl
  have hfm : filledMismatch = 32 := rfl
  simp only [mismatchMcCnnPx, get2_of (embedFlag m) _ _ hr0 hc0, get2_of (embedDisp m) _ _ hr0 hc0,
    inb2_of hr0 hrR hc0 hcC, embedFlag_nonneg, decide_true, Bool.and_true]
  rw [hft]
  -- the 16 cells of the accumulator: each is the hand model's scan along its direction
  rw [collect_ok _ (fun k => scanLoop Val.nan m (posMc r c (dirs16.getD k.toNat (0, 0))) (max m.cols m.rows - 1) 1) 16 ?cells]
  · have hmap : ((List.range 16).map fun (j : Nat) =>
          (fun (k : Int) => scanLoop Val.nan m (posMc r c (dirs16.getD k.toNat (0, 0))) (max m.cols m.rows - 1) 1) (j : Int))
        = dirs16.map fun d => scanLoop Val.nan m (posMc r c d) (max m.cols m.rows - 1) 1 := by
      simp only [Int.toNat_natCast]
      rfl
    rw [hmap]
    unfold mismMcPixel
    simp only [hmi, hfm, Res.isOk, Res.getD, Bool.and_true, if_true]
    generalize (dirs16.map fun d => scanLoop Val.nan m (posMc r c d) (max m.cols m.rows - 1) 1) = V
    by_cases hmis : ((m.flag r c &&& 512) != 0) = true
    · have hle : 512 ≤ m.flag r c := le_of_and_two_pow (k := 9) hmis
      have hnn : (0 : Int) ≤ ((m.flag r c : Nat) : Int) - ((512 : Nat) : Int) := by omega
      have hbor := sub_bor (m.flag r c) 512 32 hle
      simp only [hmis, if_true, hb, h32]
      by_cases hg : (nums V).isEmpty = true
      · simp [hg, anyFinite, embedDisp]
      · have hbor' : bor (((m.flag r c : Nat) : Int) - 512) 32 = (((m.flag r c - 512) ||| 32 : Nat) : Int) := by
          simpa using hbor
        simp [hg, anyFinite, PyInterp.nanmedian, raise, hle, hbor']
    · simp [hmis, embedDisp, embedFlag]
  case cells =>
    intro j hj
    obtain ⟨t0, t1⟩ := htab j hj
    have hj0 : (0 : Int) ≤ (j : Int) := Int.natCast_nonneg j
    have hj16 : (j : Int) < 16 := by exact_mod_cast hj
    simp only [Int.toNat_natCast]
    rw [forRange_scanLoop m (posMc r c (dirs16.getD j (0, 0))) _ _ ?body]
    · simp [hlen]
    case body =>
      intro i ok out
      simp only [t0, t1, truncRat_half, inb2_of hj0 hj16 (show (0 : Int) ≤ 0 by omega) (show (0 : Int) < 2 by omega),
        inb2_of hj0 hj16 (show (0 : Int) ≤ 1 by omega) (show (1 : Int) < 2 by omega), Bool.and_true, posMc, truncHalf]
      obtain ⟨dr, hdr⟩ : ∃ dr : Int, Int.tdiv ((dirs16.getD j (0, 0)).1 * (i : Int)) 2 = dr := ⟨_, rfl⟩
      obtain ⟨dc, hdc⟩ : ∃ dc : Int, Int.tdiv ((dirs16.getD j (0, 0)).2 * (i : Int)) 2 = dc := ⟨_, rfl⟩
      simp only [hdr, hdc]
      by_cases hin : m.inside ((r : Int) + dc, (c : Int) + dr) = true
      · have hin' := hin
        simp only [DMap.inside, Bool.and_eq_true, decide_eq_true_eq] at hin'
        obtain ⟨⟨⟨h1, h2⟩, h3⟩, h4⟩ := hin'
        have hv := valid_test m ((r : Int) + dc, (c : Int) + dr)
        by_cases hval : m.validAt ((r : Int) + dc, (c : Int) + dr) = true
        · simp only [hin, hval, Bool.not_true, Bool.false_eq_true, if_false, if_true]
          split
          · rename_i hcnd; simp only [Bool.or_eq_true, decide_eq_true_eq] at hcnd; omega
          · simp [get2_of (embedFlag m) _ _ h1 h3, get2_of (embedDisp m) _ _ h1 h3, inb2_of h1 h2 h3 h4,
              embedFlag_nonneg, hv, hval, DMap.dispAt, embedDisp]
        · simp only [hin, hval, Bool.not_true, Bool.false_eq_true, if_false]
          split
          · rename_i hcnd; simp only [Bool.or_eq_true, decide_eq_true_eq] at hcnd; omega
          · simp [get2_of (embedFlag m) _ _ h1 h3, inb2_of h1 h2 h3 h4, embedFlag_nonneg, hv, hval]
      · simp only [hin, Bool.not_false, if_true]
        split
        · rfl
        · rename_i hcnd
          simp only [DMap.inside, Bool.and_eq_true, decide_eq_true_eq] at hin
          simp only [Bool.or_eq_true, decide_eq_true_eq, not_or] at hcnd
          omega

/-! ## `interpolate_nodata_sgm` (pandora/img_tools.py) -/

/-- **One pixel of `interpolate_nodata_sgm`, as the source defines it today, is `Interp.nodataSgmPixel`**: an invalid
    pixel takes the `nanmedian` of `find_valid_neighbors` along the 8 sgm directions and the flag word FILLED_NODATA. -/
theorem nodataSgm_generated_eq (m : DMap) (r c : Nat) (hr : r < m.rows) (hc : c < m.cols) :
    nodataSgmPx (embedDisp m) m.rows m.cols (embedFlag m) m.rows m.cols r c
      = .ok ((nodataSgmPixel m r c).1, (((nodataSgmPixel m r c).2 : Nat) : Int)) := by
  have hr0 : (0 : Int) ≤ r := Int.natCast_nonneg r
  have hc0 : (0 : Int) ≤ c := Int.natCast_nonneg c
  have hrR : (r : Int) < m.rows := by exact_mod_cast hr
  have hcC : (c : Int) < m.cols := by exact_mod_cast hc
  have hcall := findValidNeighbors_generated_eq m r c
  simp only [sgmDirs] at hcall
  have hft := flag_test m r c 963
  rw [show ((963 : Nat) : Int) = 963 from rfl] at hft
  have hpi : pixelInvalid = 963 := rfl
  have hfn : filledNodata = 1024 := rfl
  simp only [nodataSgmPx, get2_of (embedFlag m) _ _ hr0 hc0, get2_of (embedDisp m) _ _ hr0 hc0,
    inb2_of hr0 hrR hc0 hcC, embedFlag_nonneg, decide_true, Bool.and_true, hcall, Res.isOk, Res.getD, hft]
  unfold nodataSgmPixel
  simp only [hpi, hfn]
  by_cases hinv : ((m.flag r c &&& 963) != 0) = true
  · simp [hinv, PyInterp.nanmedian]
  · simp [hinv, embedDisp, embedFlag]

/-! ## Non-vacuity -/

def exMap : DMap :=
  { rows := 3, cols := 3,
    disp := fun r c => if r = 1 ∧ c = 1 then .nan else .num (3 * r + c + 1),
    flag := fun r c => if r = 1 ∧ c = 1 then 256 else if r = 0 ∧ c = 0 then 1 else 0 }

example : Generated.KernelsInterp.findValidNeighbors (tab2 0 sgmDirs) 8 2 (embedDisp exMap) 3 3 (embedFlag exMap) 3 3 1 1
    = .ok [.num 8, .num 7, .num 4, .nan, .num 2, .num 3, .num 6, .num 9] := by decide +kernel
example : Interp.findValidNeighbors exMap 1 1 = [.num 8, .num 7, .num 4, .nan, .num 2, .num 3, .num 6, .num 9] := by
  decide +kernel
example : occlusionSgmPx (embedDisp exMap) 3 3 (embedFlag exMap) 3 3 1 1 = .ok (.num 3, 16) := by decide +kernel
example : occlSgmPixel ⟨true, .or⟩ exMap 1 1 = (.num 3, 16) := by decide +kernel

/-- a mismatch next to an occlusion (converted) and one away from it (median of its neighbours) -/
def exMap2 : DMap :=
  { rows := 1, cols := 5,
    disp := fun _ c => if c = 1 ∨ c = 3 then .nan else .num (c + 2),
    flag := fun _ c => if c = 0 then 256 else if c = 1 ∨ c = 3 then 512 else 0 }

example : mismatchSgmPx (embedDisp exMap2) 1 5 (embedFlag exMap2) 1 5 0 1 = .ok (.nan, 256) := by decide +kernel
example : mismatchSgmPx (embedDisp exMap2) 1 5 (embedFlag exMap2) 1 5 0 3 = .ok (.num 5, 32) := by decide +kernel
example : mismSgmPixel ⟨true, .or⟩ exMap2 0 3 = (.num 5, 32) := by decide +kernel

-- occlusion at column 0 of `exMap2` (nothing valid on the left: filled from the right), and a row without valid pixel
example : occlusionMcCnnPx (embedDisp exMap2) 1 5 (embedFlag exMap2) 1 5 0 0 = .ok (.num 4, 16) := by decide +kernel
example : occlMcPixel ⟨true, .or⟩ exMap2 0 0 = (.num 4, 16) := by decide +kernel

/-- a mismatch seen from (1, 2) of a 3×5 map: half-step directions reach different pixels than the sgm ones -/
def exMap3 : DMap :=
  { rows := 3, cols := 5,
    disp := fun r c => if r = 1 ∧ c = 2 then .nan else .num (5 * r + c),
    flag := fun r c => if r = 1 ∧ c = 2 then 512 else if r = 0 ∧ c = 4 then 2 else 0 }

example : mismatchMcCnnPx (embedDisp exMap3) 3 5 (embedFlag exMap3) 3 5 1 2 = .ok (.num 7, 32) := by decide +kernel
example : mismMcPixel ⟨true, .or⟩ exMap3 1 2 = (.num 7, 32) := by decide +kernel

example : nodataSgmPx (embedDisp exMap) 3 3 (embedFlag exMap) 3 3 1 1 = .ok (.num 6, 1024) := by decide +kernel
example : nodataSgmPixel exMap 1 1 = (.num 6, 1024) := by decide +kernel

end Pandora.C14Kernels
