/-
  C08 ∘ C07 — the two cross-checking facts the mirror theorem of C08 assumes (`CrossCheckFacts`) are
  theorems about the cross-checking model of C07 (`CrossCheck.check`): the mirror theorem therefore holds
  with that model as the meaning of `disparity_checking`, whatever the other steps compute.
-/
import PandoraModel.Properties.C08
import PandoraModel.Properties.C07

namespace Pandora.C08
open Pandora.Wiring Pandora.CrossCheck

/-- a disparity dataset as the machine stores it: the products and the interval attribute the
    cross-check reads from the dataset it checks -/
structure DispData where
  params : Params
  out : Out
  deriving Repr

def DispData.toDataset (d : DispData) : Dataset := { disp := d.out.disp, mask := d.out.mask }

/-- meaning of the operations: `disparity_checking` is the C07 model (any variant of the source), every
    other operation is an arbitrary function `other` -/
def semWith (V : Variant) (other : Sem DispData) : Sem DispData := fun fn idx args =>
  if fn = "disparity_checking" ∧ idx = 0 then
    match args with
    | [a, b] => { params := a.params, out := check V a.params a.toDataset b.toDataset }
    | _ => other fn idx args
  else other fn idx args

/-- **The cross-checking facts hold of the C07 model**: the result depends on the other side only
    through its disparity map (`check_other_mask_irrelevant`), and the checked side keeps its own
    disparity map (`check_disp_unchanged`). -/
theorem crossCheckFacts_of_model (V : Variant) (other : Sem DispData) :
    CrossCheckFacts (semWith V other) (fun d : DispData => d.out.disp) where
  reads_disp_only := by
    intro a b b' h
    simp only [semWith, and_self, if_true]
    congr 1
    have e1 := C07.check_other_mask_irrelevant (V := V) a.params a.toDataset b.toDataset b'.toDataset.mask
    have e2 : ({ disp := b.toDataset.disp, mask := b'.toDataset.mask } : Dataset) = b'.toDataset := by
      simp only [DispData.toDataset] at h ⊢
      rw [h]
    rw [e1, e2]
  keeps_disp := by
    intro a b
    simp only [semWith, and_self, if_true]
    rfl

/-- **Mirror theorem with the cross-checking model of C07 plugged in**: no hypothesis left about
    cross-checking. -/
theorem mirror_with_crossCheck_model (V : Variant) (other : Sem DispData)
    (seq : List (Callback × Bool))
    (hsrc : ∀ p ∈ seq, p.1 ∈ Generated.Wiring.callbacks ∧ p.1.name ≠ "semantic_segmentation_run")
    (s : Store DispData) :
    runSeq (semWith V other) seq (swapStore s) = swapStore (runSeq (semWith V other) seq s) :=
  mirror (semWith V other) (fun d : DispData => d.out.disp) (crossCheckFacts_of_model V other) seq hsrc s

end Pandora.C08
