/-
  C13 — vertical flip of the composed run of the step models (`fullRun`, `C13Run.lean`): the run on the pair listed
  bottom-up gives at row `r` what the run on the pair gives at row `rows - 1 - r` — all windows being odd-sized.
  Consequence of `fullRun_is_ccStage` (the run is the composed function `ccStage`) and of the flip theorems of the
  composed function (`C13FlipPipeline.lean`, `C13FlipFlags.lean`).
-/
import PandoraModel.Properties.C13Run
import PandoraModel.Properties.C13FlipFlags

namespace Pandora.C13
open Pandora Pandora.Locality Pandora.MC

/-- `xF` is the pair `x` listed bottom-up, with the same configuration and the same global disparity ranges -/
structure FlipRun (x xF : MC.Input) : Prop where
  params : paramsOf xF = paramsOf x
  rows : xF.L.rows = x.L.rows
  cols : xF.L.cols = x.L.cols
  scene : ∀ r c, r < x.L.rows → c < x.L.cols → mcScene xF r c = mcScene x (x.L.rows - 1 - r) c
  gmin : gminOf xF = gminOf x
  gmax : gmaxOf xF = gmaxOf x
  gminR : gminOf (swapInput xF) = gminOf (swapInput x)
  gmaxR : gmaxOf (swapInput xF) = gmaxOf (swapInput x)

/-- **Vertical flip of a run with aggregation**: `agg`, `agg'` are the aggregation steps of the two chains (local
    steps that commute with the flip), `R`, `R'` (`RF`, `RF'`) the cost rows their cost stages compute for the pair and
    the swapped pair (for the pair listed bottom-up). -/
theorem runR_flip (K K' : RunCfg) (V : CrossCheck.Variant) (CP : CrossCheck.Params) (x xF : MC.Input)
    (hf : FlipRun x xF) (ok : RunOK K K' x) (okF : RunOK K K' xF)
    {agg agg' : AggStep} (hAe : Equivariant agg) (hA : VFlipOn agg) (hAe' : Equivariant agg') (hA' : VFlipOn agg')
    {R R' RF RF' : Nat → Nat → List Val}
    (hR : CostRows K x agg R) (hR' : CostRows K' (swapInput x) agg' R')
    (hRF : CostRows K xF agg RF) (hRF' : CostRows K' (swapInput xF) agg' RF')
    (out outF : Nat → Nat → CrossCheck.PixOut)
    (hout : fullRunR K K' V CP x R R' = some out) (houtF : fullRunR K K' V CP xF RF RF' = some outF)
    (hin : ∀ A, afterFilterR K x R = some A → LeftInInterval CP x.L.rows x.L.cols A)
    (hinF : ∀ A, afterFilterR K xF RF = some A → LeftInInterval CP xF.L.rows xF.L.cols A)
    (r c : Nat) (hr : r < x.L.rows) (hc : c < x.L.cols) :
    outF r c = out (x.L.rows - 1 - r) c := by
  have h1 := fullRunR_is_ccStage K K' V CP xF okF hRF hRF' outF houtF hinF
  have h2 := fullRunR_is_ccStage K K' V CP x ok hR hR' out hout hin
  rw [cfgOf_congr K hf.params hf.gmin hf.gmax,
    cfgOf_congr K' (paramsOf_swap_congr hf.params) hf.gminR hf.gmaxR, hf.rows, hf.cols] at h1
  have h4 : toImg x.L.rows x.L.cols (mcScene xF) = toImg x.L.rows x.L.cols (flipArr x.L.rows (mcScene x)) :=
    toImg_congr _ _ _ _ hf.scene
  have h3 := pipeline_flip_flags (cfgOf K x) hAe hA K.doRefine K.doMedian
    (fun h => (ok.med h).odd)
    (rightDisp_equivariant (cfgOf K' (swapInput x)) hAe'
      (flagStep_equivariant (cfgOf K' (swapInput x)).mc _ _ _) K'.doRefine K'.doMedian)
    (rightDisp_vflip (cfgOf K' (swapInput x)) hA' (pipeFlags_vflip _) K'.doRefine K'.doMedian
      (fun h => (ok.medR h).odd))
    V CP x.L.rows x.L.cols (mcScene x) ((r : Int), (c : Int))
  rw [← h4] at h3
  have h3' : toImg x.L.rows x.L.cols outF ((r : Int), (c : Int))
      = toImg x.L.rows x.L.cols out ((x.L.rows : Int) - 1 - (r : Int), (c : Int)) := by
    rw [h1, h2]; exact h3
  rw [toImg_some _ _ _ r c hr hc] at h3'
  have e : (((x.L.rows : Int) - 1 - (r : Int), (c : Int)) : Px) = (((x.L.rows - 1 - r : Nat) : Int), (c : Int)) := by
    ext
    · simp only; omega
    · rfl
  rw [e, toImg_some _ _ _ (x.L.rows - 1 - r) c (by omega) hc] at h3'
  exact Option.some.inj h3'

/-- **Vertical flip of the run of the models.**  `out` is the result of the composed run (matching cost, criteria
    flags, winner-takes-all, refinement, median filter, the same chain on the swapped pair, cross-checking) on the
    pair `x`, `outF` the result on the pair listed bottom-up: every pixel `(r, c)` gets in the flipped run the flag
    word and confidence cell pixel `(rows - 1 - r, c)` gets in the run.  The matching-cost window is odd (`Shape`), the
    median filter is odd (`MedianOK`); both runs return and satisfy C07's hypothesis. -/
theorem run_flip (K K' : RunCfg) (V : CrossCheck.Variant) (CP : CrossCheck.Params) (x xF : MC.Input)
    (hf : FlipRun x xF) (ok : RunOK K K' x) (okF : RunOK K K' xF)
    (out outF : Nat → Nat → CrossCheck.PixOut)
    (hout : fullRun K K' V CP x = some out) (houtF : fullRun K K' V CP xF = some outF)
    (hin : ∀ A, afterFilter K x = some A → LeftInInterval CP x.L.rows x.L.cols A)
    (hinF : ∀ A, afterFilter K xF = some A → LeftInInterval CP xF.L.rows xF.L.cols A)
    (r c : Nat) (hr : r < x.L.rows) (hc : c < x.L.cols) :
    outF r c = out (x.L.rows - 1 - r) c :=
  runR_flip K K' V CP x xF hf ok okF noAgg_equivariant noAgg_vflip.toOn noAgg_equivariant noAgg_vflip.toOn
    (costStage_run K x ok.mc) (costStage_run K' (swapInput x) ok.mcR)
    (costStage_run K xF okF.mc) (costStage_run K' (swapInput xF) okF.mcR)
    out outF hout houtF hin hinF r c hr hc

/-! ### Non-vacuity: the 3 × 9 pair of `C13Run.lean` and the same pair listed bottom-up -/

namespace RunExample

def exFlip : MC.Input :=
  { exWhole with
    L := { rows := 3, cols := 9, px := fun r c => exL.px (2 - r) c }
    R := { rows := 3, cols := 9, px := fun r c => exR.px (2 - r) c } }

theorem exFlipRun : FlipRun exWhole exFlip := by
  refine ⟨rfl, rfl, rfl, ?_, by decide +kernel, by decide +kernel, by decide +kernel, by decide +kernel⟩
  intro r c hr _
  have hr' : r < 3 := hr
  simp only [mcScene, exFlip, exWhole, exL, exR, noMask]
  have e : ((3 - 1 - r : Nat) : Int) = 2 - (r : Int) := by omega
  rw [e]

example : (fullRun exK exK' .asIs exCP exFlip).isSome = true := by decide +kernel

theorem exInF : (afterFilter exK exFlip).all (leftInIntervalB exCP 3 9) = true := by decide +kernel

example (out outF : Nat → Nat → CrossCheck.PixOut)
    (hout : fullRun exK exK' .asIs exCP exWhole = some out) (houtF : fullRun exK exK' .asIs exCP exFlip = some outF) :
    outF 0 4 = out (3 - 1 - 0) 4 :=
  run_flip exK exK' .asIs exCP exWhole exFlip exFlipRun
    (exOK exWhole rfl (by decide) (by decide) ⟨by decide, by decide⟩ ⟨by decide, by decide⟩)
    (exOK exFlip rfl (by decide) (by decide) ⟨by decide, by decide⟩ ⟨by decide, by decide⟩)
    out outF hout houtF
    (fun A hA => leftInInterval_of_B _ _ _ A (by have := exIn.1; rw [hA] at this; exact this))
    (fun A hA => leftInInterval_of_B _ _ _ A (by have := exInF; rw [hA] at this; exact this))
    0 4 (by decide) (by decide)

end RunExample

end Pandora.C13
