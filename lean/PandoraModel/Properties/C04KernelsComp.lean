/-
  C04 — the GENERATED pieces of `pandora/criteria.py` (`Generated/KernelsCriteria.lean`) composed the way the source
  composes them, and proved equal to the hand model as a whole:

    * `genRightLoop`     the `for dsp in range(LO, HI)` loop of `allocate_right_mask`: a fold, over the range whose bounds
                         are the generated `rightLoopBounds`, of the generated loop body `rightIterPx`, from the counters
                         `(0, 0)`; the right cells are read at the generated gathered column, the cell of `r_mask` is the
                         generated `rightMaskCell`.  In the source the two `== len(range(…))` tests and `+= 128` / `+= 2`
                         sit INSIDE the loop (that is how the translator reads the indentation: they are part of
                         `rightIterPx`), so the fold runs them at every iteration.
      `genRightLoop_eq`  = `Criteria.allocRight` for every interval (empty included), row, column, flag word and mask
      `genRightLoop_closed`  hence (`allocRight_eq`, loop invariant `stateAfter`: a counter is at most the number of
                         iterations done, so `== len` can hold at the last iteration only) the loop adds 128 exactly once
                         iff the column is not in bit_1 and every disparity is outside or masked, 2 exactly once iff … nodata
    * `genStage1`        `validityMaskCol` → (`"msk" in img_left`) `allocLeftPx` → (`"msk" in img_right`) `genRightLoop`
      `genStage1_eq`     = `Criteria.stage1`
    * `genFinalMask`     … → `maskInvalidPx` on the pixels whose costs are all NaN → `maskBorderPx` when `offset > 0`
      `genFinalMask_eq`  = `Criteria.finalMask` for every pixel of the image
    * `genFinalMask_spec`, `genFinalMask_interior`  the specification of the property (every clause of
      `failingClauses`: bit 0/1/2/6/7 ⇔ their causes as set statements, border = 1, invalid ⇔ all NaN, no other bit) holds
      of the GENERATED composition

  What is still the hand model's in the composition: scipy's dilation (`dilated`), the two `if "msk" in …` guards of
  `validity_mask` and the `if offset > 0` guard of `cv_masked` (written here as in `stage1` / `maskBorder`), the classes of
  the mask codes (`Codes`, `Agree`), and numpy's index rule for the gathered column (`Int.toNat`: the cell is only read
  under `valid_index`, where the column is not negative).  Counters are unbounded integers: numpy's default int64 agrees with
  that below 2^63 iterations (the allocation `np.full(shape, 0)` is pinned by the translator, a narrow dtype is refused).
-/
import PandoraModel.Properties.C04Kernels
import PandoraModel.Properties.C04

set_option linter.unusedSimpArgs false
set_option linter.unusedVariables false
set_option linter.unusedTactic false

namespace Pandora.C04Kernels
open Pandora Pandora.Criteria Pandora.Flags Pandora.C04 Pandora.PyExpr
open Pandora.Generated.KernelsCriteria

/-- the two input masks as the code sees them: integer codes and the two special values of each image -/
structure Codes where
  codeL : Nat → Nat → Int
  ndL : Int
  vL : Int
  codeR : Nat → Nat → Int
  ndR : Int
  vR : Int

/-- the classes of the model are the classes of the codes -/
def Agree (I : Input) (K : Codes) : Prop :=
  (∀ r c, I.mL r c = clsOfCode (K.codeL r c) K.ndL K.vL) ∧ (∀ r c, I.mR r c = clsOfCode (K.codeR r c) K.ndR K.vR)

/-! ### the loop of `allocate_right_mask` as a fold of the generated body -/

/-- `range(lo, hi)` -/
def pyRange (lo hi : Int) : List Int := (List.range (hi - lo).toNat).map fun (i : Nat) => lo + (i : Int)

/-- the column the generated body gathers the right cells from (its 4th component; it does not depend on the state) -/
def gatherCol (I : Input) (c : Nat) (dsp : Int) : Int :=
  (rightIterPx (c : Int) 0 ((I.cols : Int) - 1) dsp (I.off : Int) I.dmin I.dmax false 0 false 0 0 0).2.2.2

/-- one iteration: read `r_mask` / `dil` at the gathered column, run the generated body -/
def genStep (I : Input) (K : Codes) (r c : Nat) (bit1 : Bool) (s : Int × Int × Int) (dsp : Int) : Int × Int × Int :=
  let g := (gatherCol I c dsp).toNat
  let o := rightIterPx (c : Int) 0 ((I.cols : Int) - 1) dsp (I.off : Int) I.dmin I.dmax bit1
    (rightMaskCell (K.codeR r g) K.ndR K.vR) (dilated I.rows I.cols I.off I.mR r g) s.1 s.2.1 s.2.2
  (o.1, o.2.1, o.2.2.1)

/-- the whole loop, from the counters (0, 0) and the flag word `f`: the flag word after the loop -/
def genRightLoop (I : Input) (K : Codes) (r c : Nat) (bit1 : Bool) (f : Int) : Int :=
  ((pyRange (rightLoopBounds I.dmin I.dmax).1 (rightLoopBounds I.dmin I.dmax).2).foldl (genStep I K r c bit1) (0, 0, f)).2.2

theorem pyRange_bounds (a b : Int) : pyRange (rightLoopBounds a b).1 (rightLoopBounds a b).2 = dispList a b := by
  unfold rightLoopBounds pyRange dispList
  dsimp only []
  have h : (b + 1 - a) = (b - a + 1) := by omega
  have h' : ((1 : Int) + b - a) = (b - a + 1) := by omega
  first | rfl | (simp only [h]; done) | (simp only [h']; done)

theorem gatherCol_eq (I : Input) (c : Nat) (dsp : Int) : gatherCol I c dsp = (c : Int) + dsp := by
  unfold gatherCol rightIterPx
  (try dsimp only []) <;> (try omega)

theorem rightMaskCell_eq (m nd v : Int) :
    rightMaskCell m nd v = if (clsOfCode m nd v == Cls.invalid) = true then 1 else 0 := by
  have h := rightMaskedPred_eq m nd v
  unfold rightMaskedPred at h
  unfold rightMaskCell
  dsimp only []
  rw [h]

/-- one iteration of the composed generated loop is one iteration of the model's loop -/
theorem genStep_eq (I : Input) (K : Codes) (r c : Nat) (hR : ∀ r x, I.mR r x = clsOfCode (K.codeR r x) K.ndR K.vR)
    (st : RState) (dsp : Int) :
    genStep I K r c (vmBit1 I c) ((st.b27 : Int), (st.ndr : Int), (st.flag : Int)) dsp
      = (((rightIter I r c (dispList I.dmin I.dmax).length st dsp).b27 : Int),
         ((rightIter I r c (dispList I.dmin I.dmax).length st dsp).ndr : Int),
         ((rightIter I r c (dispList I.dmin I.dmax).length st dsp).flag : Int)) := by
  have h := rightIterPx_eq I r c st dsp
  unfold genStep
  dsimp only []
  rw [gatherCol_eq, rightMaskCell_eq, ← hR]
  have e1 : (I.mR r ((c : Int) + dsp).toNat == Cls.invalid) = rInvAt I r ((c : Int) + dsp) := rfl
  have e2 : dilated I.rows I.cols I.off I.mR r ((c : Int) + dsp).toNat = rDilAt I r ((c : Int) + dsp) := rfl
  rw [e1, e2, h]

theorem genFold_eq (I : Input) (K : Codes) (r c : Nat) (hR : ∀ r x, I.mR r x = clsOfCode (K.codeR r x) K.ndR K.vR)
    (ds : List Int) (st : RState) :
    ds.foldl (genStep I K r c (vmBit1 I c)) ((st.b27 : Int), (st.ndr : Int), (st.flag : Int))
      = (((ds.foldl (rightIter I r c (dispList I.dmin I.dmax).length) st).b27 : Int),
         ((ds.foldl (rightIter I r c (dispList I.dmin I.dmax).length) st).ndr : Int),
         ((ds.foldl (rightIter I r c (dispList I.dmin I.dmax).length) st).flag : Int)) := by
  induction ds generalizing st with
  | nil => rfl
  | cons d ds ih =>
    rw [List.foldl_cons, List.foldl_cons, genStep_eq I K r c hR st d]
    exact ih _

/-- **the generated loop of `allocate_right_mask` is the model's**, for every interval (an empty one included), pixel,
    flag word and right mask: range bounds, counters from 0, body with the tests inside, gathered cells -/
theorem genRightLoop_eq (I : Input) (K : Codes) (r c f : Nat)
    (hR : ∀ r x, I.mR r x = clsOfCode (K.codeR r x) K.ndR K.vR) :
    genRightLoop I K r c (vmBit1 I c) (f : Int) = (allocRight I f r c : Int) := by
  unfold genRightLoop allocRight
  rw [pyRange_bounds]
  have h : (dispList I.dmin I.dmax).foldl (genStep I K r c (vmBit1 I c)) ((0 : Int), (0 : Int), (f : Int)) = _ :=
    genFold_eq I K r c hR (dispList I.dmin I.dmax) ⟨0, 0, f⟩
  rw [h]

/-- although the `== len(range(…))` tests run at every iteration, each constant is added at most once, and exactly
    when the documented cause holds: a counter is at most the number of iterations done (`stateAfter`, Lemmas/C04Criteria) -/
theorem genRightLoop_closed (I : Input) (K : Codes) (r c f : Nat) (hd : I.dmin ≤ I.dmax)
    (hR : ∀ r x, I.mR r x = clsOfCode (K.codeR r x) K.ndR K.vR) :
    genRightLoop I K r c (vmBit1 I c) (f : Int)
      = (f : Int) + (if right7 I r c then 128 else 0) + (if rightN I r c then 2 else 0) := by
  rw [genRightLoop_eq I K r c f hR, allocRight_eq I f r c hd]
  unfold inValidityMaskRight rightNodataOrRangeMissing
  cases right7 I r c <;> cases rightN I r c <;> simp <;> omega

/-! ### `validity_mask` as a whole, then `cv_masked`'s two calls -/

/-- the mask `validity_mask` returns, composed from the generated pieces -/
def genStage1 (I : Input) (K : Codes) (r c : Nat) : Int :=
  let vm := validityMaskCol (I.colAt c) (I.colAt 0) I.colLast I.dmin I.dmax (I.off : Int)
  let f := vm.1
  let f := if I.hasL then allocLeftPx f (dilated I.rows I.cols I.off I.mL r c) (K.codeL r c) K.ndL K.vL else f
  if I.hasR then genRightLoop I K r c vm.2 f else f

theorem genStage1_eq (I : Input) (K : Codes) (h : Agree I K) (r c : Nat) :
    genStage1 I K r c = (stage1 I r c : Int) := by
  unfold genStage1 stage1
  dsimp only []
  rw [validityMaskCol_eq]
  dsimp only []
  cases hL : I.hasL <;> cases hRr : I.hasR <;> simp only [if_true, if_false, Bool.false_eq_true]
  · exact genRightLoop_eq I K r c _ h.2
  · exact allocLeftPx_eq I _ r c _ _ _ (h.1 r c)
  · rw [allocLeftPx_eq I _ r c _ _ _ (h.1 r c)]
    exact genRightLoop_eq I K r c _ h.2

/-- the mask after `cv_masked`: `mask_invalid_variable_disparity_range` on the all-NaN pixels, `mask_border` if offset > 0 -/
def genFinalMask (I : Input) (K : Codes) (allNan : Nat → Nat → Bool) (r c : Nat) : Int :=
  let f := genStage1 I K r c
  let f := if allNan r c then maskInvalidPx f else f
  if 0 < I.off then maskBorderPx (r : Int) (c : Int) (I.rows : Int) (I.cols : Int) (I.off : Int) f else f

/-- **the generated composition is the model's mask**, for every pixel of the image -/
theorem genFinalMask_eq (I : Input) (K : Codes) (h : Agree I K) (allNan : Nat → Nat → Bool) (r c : Nat)
    (hr : r < I.rows) (hc : c < I.cols) :
    genFinalMask I K allNan r c = (finalMask I allNan r c : Int) := by
  unfold genFinalMask finalMask
  dsimp only []
  rw [genStage1_eq I K h]
  have h1 : (if allNan r c = true then maskInvalidPx (stage1 I r c : Int) else (stage1 I r c : Int))
      = (maskInvalidVar (allNan r c) (stage1 I r c) : Int) := by
    cases allNan r c
    · simp [maskInvalidVar]
    · simp only [if_true]; exact maskInvalidPx_eq _
  rw [h1]
  by_cases ho : 0 < I.off
  · rw [if_pos ho]; exact maskBorderPx_eq I _ r c ho hr hc
  · rw [if_neg ho]; unfold maskBorder; rw [if_neg ho]

/-- **the specification of the property holds of the generated composition**: no clause of `failingClauses` fails
    (bits 0, 1, 2, 6, 7 ⇔ their causes as set statements over the interval, border pixels = 1, an invalidating bit ⇔
    every cost NaN, no undocumented bit) -/
theorem genFinalMask_spec (J : CvInput) (K : Codes) (h : Agree J.toInput K) (invalid : Val) (r c : Nat)
    (hd : J.dmin ≤ J.dmax) (hr : r < J.rows) (hc : c < J.cols) :
    ∃ f : Nat, genFinalMask J.toInput K (allNanOf J) r c = (f : Int)
      ∧ failingClauses J invalid r c f (allNanOf J r c) none = [] :=
  ⟨modelMask J r c, genFinalMask_eq J.toInput K h (allNanOf J) r c hr hc, criteria_spec J invalid r c hd hr hc⟩

/-- … spelled out for an interior pixel: the word the generated composition computes has bit 1 ⇔ no computable cost,
    bit 2 ⇔ part of the interval inside and part outside, bit 7 ⇔ every in-image candidate masked, bit 0 / 6 ⇔ left
    nodata in the window / left centre masked -/
theorem genFinalMask_interior (J : CvInput) (K : Codes) (h : Agree J.toInput K) (r c : Nat)
    (hd : J.dmin ≤ J.dmax) (hi : Interior J.toInput r c) (hr : r < J.rows) (hc : c < J.cols) :
    ∃ f : Nat, genFinalMask J.toInput K (allNanOf J) r c = (f : Int)
      ∧ hasBit f leftNodataOrBorder = specBit0 J.toInput r c
      ∧ hasBit f inValidityMaskLeft = specBit6 J.toInput r c
      ∧ hasBit f rightNodataOrRangeMissing = specBit1 J r c
      ∧ hasBit f rightIncompleteRange = specBit2 J.toInput r c
      ∧ hasBit f inValidityMaskRight = specBit7 J.toInput r c
      ∧ isInvalidPre f = allNanOf J r c := by
  obtain ⟨k0, k6, k1, k2, k7, kinv, _⟩ := criteria_interior J r c hd hi
  exact ⟨modelMask J r c, genFinalMask_eq J.toInput K h (allNanOf J) r c hr hc, k0, k6, k1, k2, k7, kinv⟩

/-! ### non-vacuity: the example of Properties/C04Kernels.lean with codes (0 valid, 1 nodata, anything else invalid) -/

/-- as `exI`, with the right mask invalid on columns 0..2: pixel (1, 3) has its two in-image candidates masked -/
def exI2 : Input := { exI with mR := fun r c => if c ≤ 2 then Cls.invalid else Cls.valid }

def exK : Codes :=
  { codeL := fun r c => if (r, c) = (1, 2) then 9 else 0, ndL := 1, vL := 0,
    codeR := fun r c => if c ≤ 2 then 7 else 0, ndR := 1, vR := 0 }

example : Agree exI2 exK := by
  constructor <;> intro r c <;> simp only [exI2, exI, exK, clsOfCode] <;> split <;> simp_all
example : (List.range 7).map (genStage1 exI2 exK 1) = (List.range 7).map (fun c => (stage1 exI2 1 c : Int)) := by decide +kernel
example : (List.range 7).map (genStage1 exI2 exK 1) = [2, 2, 196, 132, 0, 0, 0] := by decide +kernel
example : (List.range 7).map (genFinalMask exI2 exK (fun r c => decide (c ≤ 3)) 1) = [1, 2, 198, 134, 0, 0, 1] := by decide +kernel

end Pandora.C04Kernels
