/-
  C11 — the numpy GLUE of `pandora/aggregation/cbca.py`, regenerated from the source on every run
  (`translator/gen_kernels_cbca_glue.py` -> `Generated/KernelsCbcaGlue.lean`), is the hand model `Model/Cbca.lean`.

  Stage (a), scalar decisions (all integers / rationals):
    `iRight_generated_eq`     `int((disp % 1) * subpixel)`                         = `Cbca.iRight`
    `facing_generated_eq`     the `np.where` test and `.astype(int)` per column    = `Cbca.rightCol`
    `wired_generated`         the two column lists handed to steps 2 and 4         satisfy `C11KernelsSteps.Wired`
    `leftCrop_generated_eq`, `rightCrop_generated_eq` (EVERY shifted image), `cvCrop_generated_eq`, `writeBack_generated_eq`
                              test + Python slice bounds of the four `offset` crops = `cropBox` = the model's
                              `crop off` / `Input.h` / `Input.w` / `Input.wr` (`cropBox_model`)
  Stage (b), dataflow:
    `aggInit_generated_eq`    `agg = zeros; agg += cv; agg *= 0`                   = NaN where the cost is NaN, else 0
    `aggPlane_generated_eq`   one iteration of the disparity loop (steps 1-4 chained on the generated kernels, `sum4 += 1`,
                              `+=`, `/=`, every shape agreement)                   = `Cbca.aggOut` of the plane, for every
                              size, cost plane, arm arrays, right widths, disparity and subpix
    `aggregate_generated`, `aggregate_generated_spec`   the same about `Cbca.aggregateWith` / `specAt` of an `Input`
    `costVolumeAggregation_generated_eq`   THE WHOLE METHOD on the whole volume (crop, sequential loop over the disparities with
                              `agg` as state — `aggLoopBody_frame` / `_reads`: iteration d writes and reads plane d only —,
                              swapaxes, write-back) = `Cbca.aggregateWith` for every cell; `_model`, `_spec`,
                              `_plane_independent`: C11's clauses about the generated whole
    `prepLeft_generated_eq`, `prepRight_generated_eq`    order and presence of the preparation statements (copy, masks,
                              3x3 median, NaN -> inf) of the left / every shifted right image = `Input.filteredL/R`
-/
import PandoraModel.Model.Cbca
import PandoraModel.Generated.KernelsCbcaGlue
import PandoraModel.Properties.C11
import PandoraModel.Properties.C11KernelsSteps
import Mathlib.Data.Rat.Floor
import Mathlib.Data.List.Nodup
import Mathlib.Tactic.Linarith
import Mathlib.Tactic.Ring

namespace Pandora.C11KernelsGlue
open Pandora Pandora.Cbca Pandora.PyLoops Pandora.PyArrays Pandora.PyExpr Pandora.Generated Pandora.C11KernelsSteps
open Pandora.Generated.KernelsCbcaSteps

theorem floor_eq (x : ℚ) : x.floor = ⌊x⌋ := rfl

theorem leftCol_generated_eq (x : Int) (d : ℚ) : KernelsCbcaGlue.leftCol x d = x := by
  unfold KernelsCbcaGlue.leftCol; rfl

theorem facing_generated_eq (x wr : Nat) (d : ℚ) :
    rightCol d wr x = if KernelsCbcaGlue.facingMask (x : Int) d (wr : Int) then some (KernelsCbcaGlue.facingCol (x : Int) d).toNat else none := by
  unfold rightCol KernelsCbcaGlue.facingMask KernelsCbcaGlue.facingCol rtrunc
  simp only [Int.cast_natCast, ge_iff_le, Bool.and_eq_true, decide_eq_true_eq]
  by_cases h : (0 : ℚ) ≤ (x : ℚ) + d ∧ (x : ℚ) + d < (wr : ℚ)
  · rw [if_pos h, if_pos h, if_neg (not_lt.mpr h.1)]
  · rw [if_neg h, if_neg h]

/-- on a facing column the second list holds a natural number below the right width -/
theorem facingCol_nat (x wr : Nat) (d : ℚ) (xr : Nat) (h : rightCol d wr x = some xr) :
    KernelsCbcaGlue.facingCol (x : Int) d = (xr : Int) ∧ xr < wr := by
  unfold rightCol at h
  simp only at h
  split at h
  · rename_i hc
    injection h with h
    unfold KernelsCbcaGlue.facingCol rtrunc
    simp only [Int.cast_natCast]
    rw [if_neg (not_lt.mpr hc.1)]
    have h0 : 0 ≤ ((x : ℚ) + d).floor := by rw [floor_eq]; exact Int.floor_nonneg.mpr hc.1
    have h1 : ((x : ℚ) + d).floor < (wr : Int) := by
      rw [floor_eq]; exact Int.floor_lt.mpr (by exact_mod_cast hc.2)
    constructor <;> omega
  · exact absurd h (by simp)

/-- the Nat list behind `whereIdx` -/
def facingList (d : ℚ) (wr W : Nat) : List Nat :=
  (List.range W).filter (fun (i : Nat) => KernelsCbcaGlue.facingMask (i : Int) d (wr : Int))

theorem whereIdx_eq (d : ℚ) (wr W : Nat) :
    KernelsCbcaGlue.whereIdx (fun x => KernelsCbcaGlue.facingMask x d (wr : Int)) (W : Int)
      = (facingList d wr W).map (fun (i : Nat) => (i : Int)) := by
  unfold KernelsCbcaGlue.whereIdx facingList
  simp

theorem getD_map_cast (l : List Nat) (t : Nat) (h : t < l.length) :
    (l.map (fun (i : Nat) => (i : Int))).getD t 0 = ((l[t] : Nat) : Int) := by
  simp [List.getD_eq_getElem?_getD, h]

theorem mem_facingList (d : ℚ) (wr W x : Nat) :
    x ∈ facingList d wr W ↔ x < W ∧ rightCol d wr x ≠ none := by
  unfold facingList
  rw [List.mem_filter, List.mem_range, facing_generated_eq]
  by_cases h : KernelsCbcaGlue.facingMask (x : Int) d (wr : Int) = true <;> simp [h]

/-- **the two column lists `cost_volume_aggregation` builds (`range_col[valid_index]`,
    `range_col_right[valid_index].astype(int)` with `valid_index = np.where(...)`) are wired as the model says** -/
theorem wired_generated (P : Plane) :
    Wired P (facingList P.d P.Wr P.W).length
      (fun t => KernelsCbcaGlue.leftCol (((facingList P.d P.Wr P.W).map (fun (i : Nat) => (i : Int))).getD t.toNat 0) P.d)
      (fun t => KernelsCbcaGlue.facingCol (((facingList P.d P.Wr P.W).map (fun (i : Nat) => (i : Int))).getD t.toNat 0) P.d) where
  facing := by
    intro t ht
    have hm : (facingList P.d P.Wr P.W)[t] ∈ facingList P.d P.Wr P.W := List.getElem_mem ht
    rw [mem_facingList] at hm
    obtain ⟨xr, hxr⟩ := Option.ne_none_iff_exists'.mp hm.2
    have hc := facingCol_nat _ _ _ _ hxr
    refine ⟨(facingList P.d P.Wr P.W)[t], xr, ?_, hm.1, hxr, ?_, hc.2⟩
    · simp only [Int.toNat_natCast, leftCol_generated_eq]; exact getD_map_cast _ _ ht
    · simp only [Int.toNat_natCast]; rw [getD_map_cast _ _ ht]; exact hc.1
  once := by
    intro t t' ht ht' h
    simp only [Int.toNat_natCast, leftCol_generated_eq] at h
    rw [getD_map_cast _ _ ht, getD_map_cast _ _ ht'] at h
    have hnd : (facingList P.d P.Wr P.W).Nodup := List.Nodup.filter _ List.nodup_range
    exact (List.Nodup.getElem_inj_iff hnd).mp (by exact_mod_cast h)
  all := by
    intro x hx hne
    have hm : x ∈ facingList P.d P.Wr P.W := (mem_facingList _ _ _ _).mpr ⟨hx, hne⟩
    obtain ⟨t, ht, he⟩ := List.getElem_of_mem hm
    refine ⟨t, ht, ?_⟩
    simp only [Int.toNat_natCast, leftCol_generated_eq]
    rw [getD_map_cast _ _ ht, he]

theorem iRight_generated_eq (d : ℚ) (s : Nat) : KernelsCbcaGlue.iRight d (s : Int) = ((Cbca.iRight s d : Nat) : Int) := by
  -- whatever way the source writes the product, it is `trunc` of (fractional part of d) * subpix
  have hE : ∀ e : ℚ, e = (d - (d.floor : ℚ)) * (s : ℚ) → rtrunc e = ((Cbca.iRight s d : Nat) : Int) := by
    intro e he
    subst he
    unfold Cbca.iRight rtrunc
    have h0 : (0 : ℚ) ≤ (d - (d.floor : ℚ)) * (s : ℚ) := by
      apply mul_nonneg
      · have := Int.floor_le d
        rw [floor_eq]; linarith
      · exact Nat.cast_nonneg s
    rw [if_neg (not_lt.mpr h0)]
    have : 0 ≤ ((d - (d.floor : ℚ)) * (s : ℚ)).floor := by
      rw [floor_eq, floor_eq]; exact Int.floor_nonneg.mpr (by rw [floor_eq] at h0; exact h0)
    omega
  unfold KernelsCbcaGlue.iRight
  apply hE
  simp only [rfloor, div_one, mul_one, Int.cast_natCast] <;> try ring

theorem aggInit_generated_eq (v : Val) :
    KernelsCbcaGlue.aggInit v = (match v with | .nan => Val.nan | .num _ => Val.num 0) := by
  cases v <;> simp [KernelsCbcaGlue.aggInit, vadd, vmul, Val.map2]

/-- the plane `Cbca.Input.planeWith` hands to steps 1-4, from its parts -/
def planeOf (H W : Nat) (cv : Nat → Nat → Val) (armsL : Nat → Nat → Arms) (armsR : Nat → Nat → Nat → Arms)
    (wr : Nat → Nat) (d : ℚ) (subpix : Nat) : Plane :=
  { H := H, W := W, cv := cv, armsL := armsL, armsR := armsR (Cbca.iRight subpix d), Wr := wr (Cbca.iRight subpix d), d := d }

theorem sum4_pos (P : Plane) (y x : Nat) : 1 ≤ sum4 P y x := by
  unfold sum4; omega

theorem aggPlane_generated_eq (H W : Nat) (cv : Nat → Nat → Val) (armsL : Nat → Nat → Arms)
    (armsR : Nat → Nat → Nat → Arms) (wr : Nat → Nat) (d : ℚ) (subpix : Nat) (hH : 1 ≤ H) (hin : ArmsIn H W armsL) :
    ∃ out, KernelsCbcaGlue.aggPlane (embV cv) H W (fun i j => KernelsCbcaGlue.aggInit (embV cv j i)) W H
        (embA armsL) H W 4 (fun s => embA (armsR s.toNat)) (fun _ => H) (fun s => wr s.toNat) (fun _ => 4) d subpix = .ok out ∧
      out.n0 = W ∧ out.n1 = H ∧
      ∀ y x : Nat, y < H → x < W → out.get x y = aggOut (planeOf H W cv armsL armsR wr d subpix) y x := by
  have hw := wired_generated (planeOf H W cv armsL armsR wr d subpix)
  obtain ⟨r1, e1, a0, a1, c1⟩ := cbcaStep1_generated_eq H W cv
  rw [a0, a1] at c1
  obtain ⟨r2, e2, b0, b1, b2, b3, c2⟩ := cbcaStep2_generated_eq (planeOf H W cv armsL armsR wr d subpix) _ _ _ r1.get c1 hw hin
  obtain ⟨r3, e3, d0, d1, c3⟩ := cbcaStep3_generated_eq (planeOf H W cv armsL armsR wr d subpix) hH r2.1.get
    (fun y x hy hx => (c2 y x hy hx).1)
  rw [d0, d1] at c3
  obtain ⟨r4, e4, f0, f1, f2, f3, c4⟩ := cbcaStep4_generated_eq (planeOf H W cv armsL armsR wr d subpix) _ _ _ r3.get r2.2.get c3
    (fun y x hy hx => (c2 y x hy hx).2) hw hin
  simp only [planeOf] at e2 e3 e4 b0 b1 b2 b3 d0 d1 f0 f1 f2 f3
  unfold KernelsCbcaGlue.aggPlane
  simp only [iRight_generated_eq, Int.toNat_natCast, whereIdx_eq, List.length_map, e1, a0, a1, e2, b0, b1, b2, b3, e3, d0, d1,
    e4, f0, f1, f2, f3, decide_true, Bool.and_self, Bool.true_eq_false, if_false]
  refine ⟨_, rfl, rfl, rfl, ?_⟩
  intro y x hy hx
  obtain ⟨g1, g2⟩ := c4 y x hy hx
  show KernelsCbcaGlue.fdivV (vadd (KernelsCbcaGlue.aggInit (embV cv (y : Int) (x : Int))) (r4.1.get y x))
    (vadd (r4.2.get y x) (Val.num 1)) = _
  rw [g1, g2, aggInit_generated_eq]
  have hcv : embV cv (y : Int) (x : Int) = cv y x := by simp [embV]
  rw [hcv]
  unfold aggOut
  have hpcv : (planeOf H W cv armsL armsR wr d subpix).cv y x = cv y x := rfl
  rw [hpcv]
  cases hc : cv y x with
  | nan => simp [KernelsCbcaGlue.fdivV, vadd, Val.map2]
  | num c =>
    have hpos := sum4_pos (planeOf H W cv armsL armsR wr d subpix) y x
    have hne : ((sum4 (planeOf H W cv armsL armsR wr d subpix) y x : Nat) : ℚ) ≠ 0 := by
      exact_mod_cast (by omega : sum4 (planeOf H W cv armsL armsR wr d subpix) y x ≠ 0)
    simp only [KernelsCbcaGlue.fdivV, vadd, Val.map2, fdiv, sub_add_cancel, if_neg hne,
      if_neg (by omega : ¬ sum4 (planeOf H W cv armsL armsR wr d subpix) y x = 0)]

/-! ## crops -/

theorem sliceBound_lo (n off : Nat) : sliceBound (n : Int) (off : Int) = ((min off n : Nat) : Int) := by
  unfold sliceBound; simp only; split_ifs <;> omega

theorem sliceBound_hi (n off : Nat) (h : 0 < off) : sliceBound (n : Int) (-(off : Int)) = ((n - off : Nat) : Int) := by
  unfold sliceBound; simp only; split_ifs <;> omega

/-- the model's crop by `offset_row_col` on an `(n0, n1)` array: first row, first column, rows, columns
    (`Cbca.crop off`, `Input.h`, `Input.w`, `Input.wr`) -/
def cropBox (n0 n1 off : Nat) : Int × Int × Int × Int :=
  if off = 0 then (0, 0, (n0 : Int), (n1 : Int))
  else (((min off n0 : Nat) : Int), ((min off n1 : Nat) : Int), ((n0 - 2 * off : Nat) : Int), ((n1 - 2 * off : Nat) : Int))

theorem sliceBox_crop (n0 n1 off : Nat) (h : 0 < off) :
    KernelsCbcaGlue.sliceBox n0 n1 off (-(off : Int)) off (-(off : Int))
      = (((min off n0 : Nat) : Int), ((min off n1 : Nat) : Int), ((n0 - 2 * off : Nat) : Int), ((n1 - 2 * off : Nat) : Int)) := by
  unfold KernelsCbcaGlue.sliceBox
  simp only [sliceBound_lo, sliceBound_hi _ _ h]
  refine Prod.ext rfl (Prod.ext rfl (Prod.ext ?_ ?_)) <;> simp only <;> split_ifs <;> omega

theorem leftCrop_generated_eq (n0 n1 off : Nat) : KernelsCbcaGlue.leftCropBox n0 n1 off = cropBox n0 n1 off := by
  unfold KernelsCbcaGlue.leftCropBox cropBox
  by_cases h0 : off = 0
  · have ht : KernelsCbcaGlue.leftCropTest (off : Int) = false := by subst h0; decide
    rw [ht, if_pos h0]; rfl
  · have ht : KernelsCbcaGlue.leftCropTest (off : Int) = true := by
      unfold KernelsCbcaGlue.leftCropTest; simp; omega
    rw [ht, if_neg h0]
    exact sliceBox_crop n0 n1 off (by omega)

theorem rightCrop_generated_eq (n0 n1 off : Nat) (shift : Int) :
    KernelsCbcaGlue.rightCropBox n0 n1 off shift = cropBox n0 n1 off := by
  unfold KernelsCbcaGlue.rightCropBox cropBox
  by_cases h0 : off = 0
  · have ht : KernelsCbcaGlue.rightCropTest (off : Int) shift = false := by
      subst h0; unfold KernelsCbcaGlue.rightCropTest; simp
    rw [ht, if_pos h0]; rfl
  · have ht : KernelsCbcaGlue.rightCropTest (off : Int) shift = true := by
      unfold KernelsCbcaGlue.rightCropTest; simp; omega
    rw [ht, if_neg h0]
    exact sliceBox_crop n0 n1 off (by omega)

theorem cvCrop_generated_eq (n0 n1 off : Nat) : KernelsCbcaGlue.cvCropBox n0 n1 off = cropBox n0 n1 off := by
  unfold KernelsCbcaGlue.cvCropBox cropBox
  by_cases h0 : off = 0
  · have ht : KernelsCbcaGlue.cvCropTest (off : Int) = false := by subst h0; decide
    rw [ht, if_pos h0]; rfl
  · have ht : KernelsCbcaGlue.cvCropTest (off : Int) = true := by
      unfold KernelsCbcaGlue.cvCropTest; simp; omega
    rw [ht, if_neg h0]
    exact sliceBox_crop n0 n1 off (by omega)

theorem writeBack_generated_eq (n0 n1 off : Nat) : KernelsCbcaGlue.writeBackBox n0 n1 off = cropBox n0 n1 off := by
  unfold KernelsCbcaGlue.writeBackBox cropBox
  by_cases h0 : off = 0
  · have ht : KernelsCbcaGlue.writeBackTest (off : Int) = false := by subst h0; decide
    rw [ht, if_pos h0]; rfl
  · have ht : KernelsCbcaGlue.writeBackTest (off : Int) = true := by
      unfold KernelsCbcaGlue.writeBackTest; simp; omega
    rw [ht, if_neg h0]
    exact sliceBox_crop n0 n1 off (by omega)

/-- `cropBox` is the crop of the model: `Input.h × Input.w` cells starting at `(off, off)` (when there is a cell at all),
    and `Input.wr k` columns for the `k`-th shifted right image (one column fewer than the image for `k ≠ 0`) -/
theorem cropBox_model (inp : Input) (k : Nat) :
    (cropBox inp.H inp.W inp.off).2.2.1 = (inp.h : Int) ∧ (cropBox inp.H inp.W inp.off).2.2.2 = (inp.w : Int) ∧
    (cropBox inp.H (if k = 0 then inp.W else inp.W - 1) inp.off).2.2.1 = (inp.h : Int) ∧
    (cropBox inp.H (if k = 0 then inp.W else inp.W - 1) inp.off).2.2.2 = (inp.wr k : Int) ∧
    (0 < inp.h → (cropBox inp.H inp.W inp.off).1 = (inp.off : Int)) ∧
    (0 < inp.w → (cropBox inp.H inp.W inp.off).2.1 = (inp.off : Int)) ∧
    (0 < inp.wr k → (cropBox inp.H (if k = 0 then inp.W else inp.W - 1) inp.off).2.1 = (inp.off : Int)) := by
  unfold cropBox Input.h Input.w Input.wr
  by_cases h0 : inp.off = 0
  · simp [h0]
  · simp only [if_neg h0]
    refine ⟨?_, ?_, ?_, ?_, ?_, ?_, ?_⟩ <;> first | trivial | rfl | (intro h; split_ifs at h ⊢ <;> omega) | (intro h; omega)

/-! ## preparation of the images handed to `cross_support` -/

/-- what each preparation statement does, in the reading of `Model/Cbca.lean` (masked, NaN and `+inf` pixels are
    `Val.nan`), with the MEANING THE TRANSLATOR READ from the statement: guard and test of the mask stores
    (`leftMaskGuard/Test`, `rightMaskGuard/Test`, `shiftMaskGuard/Test` over the mask cell and the attributes
    `valid_pixels` / `no_data_mask` of the image's own dataset), the cells of the `as_strided` window whose sum is added to the
    shifted image (`shiftMaskOffsets`: a NaN in any of them makes the pixel NaN, zeros leave it), the size of the median
    (`prefilterSize`; the model has the 3 × 3 filter only).  `shift` is the index of the shifted right image. -/
def applyPrep (H W : Nat) (hasMsk : Bool) (msk : Nat → Nat → Int) (valid nodata : Int) (shift : Nat) :
    KernelsCbcaGlue.PrepOp → Img → Img
  | .copy, g => g
  | .maskInvalid, g => fun y x =>
      if KernelsCbcaGlue.leftMaskGuard hasMsk && KernelsCbcaGlue.leftMaskTest (msk y x) valid nodata then .nan else g y x
  | .maskInvalidPixel, g => fun y x =>
      if KernelsCbcaGlue.rightMaskGuard hasMsk shift && KernelsCbcaGlue.rightMaskTest (msk y x) valid nodata then .nan else g y x
  | .maskInvalidShifted, g => fun y x =>
      if KernelsCbcaGlue.shiftMaskGuard hasMsk shift &&
          KernelsCbcaGlue.shiftMaskOffsets.any (fun o => KernelsCbcaGlue.shiftMaskTest (msk (y + o.1) (x + o.2)) valid nodata)
      then .nan else g y x
  | .median3, g => if KernelsCbcaGlue.prefilterSize = 3 then median3 H W g else fun _ _ => Val.nan
  | .nanToInf, g => g

def runPrep (H W : Nat) (hasMsk : Bool) (msk : Nat → Nat → Int) (valid nodata : Int) (shift : Nat)
    (ops : List KernelsCbcaGlue.PrepOp) (g : Img) : Img :=
  ops.foldl (fun g op => applyPrep H W hasMsk msk valid nodata shift op g) g

/-- the unmasked `k`-th shifted right image (`shift_right_img`: linear interpolation at `k / subpix`) -/
def rawShift (inp : Input) (k : Nat) : Img := fun y x =>
  if k = 0 then .num (inp.imR y x)
  else .num ((1 - (k : ℚ) / inp.subpix) * inp.imR y x + (k : ℚ) / inp.subpix * inp.imR y (x + 1))

/-- `np.nan_to_num(…, copy=False, nan=np.inf)`: NaN becomes the `+inf` `cross_support` is proved with (`Fl.ofMasked`) -/
theorem nanReplacement_generated_eq : KernelsCbcaGlue.nanReplacement = Fl.ofMasked Val.nan := rfl

/-- the summed `as_strided` view has the width of the shifted images (`W - 1`) -/
theorem shiftMask_generated_width (W : Nat) (hW : 1 ≤ W) :
    (W : Int) + KernelsCbcaGlue.shiftMaskWidthDelta = ((W - 1 : Nat) : Int) := by
  unfold KernelsCbcaGlue.shiftMaskWidthDelta; omega

/-- the tests of the three mask stores, however the source writes the comparison: the cell differs from `valid_pixels` -/
theorem leftMaskTest_generated_eq (m v nd : Int) : KernelsCbcaGlue.leftMaskTest m v nd = (m != v) := by
  unfold KernelsCbcaGlue.leftMaskTest
  by_cases h : m = v
  · subst h; simp
  · have h' : ¬ v = m := fun e => h e.symm
    simp [h, h']

theorem rightMaskTest_generated_eq (m v nd : Int) : KernelsCbcaGlue.rightMaskTest m v nd = (m != v) := by
  unfold KernelsCbcaGlue.rightMaskTest
  by_cases h : m = v
  · subst h; simp
  · have h' : ¬ v = m := fun e => h e.symm
    simp [h, h']

theorem shiftMaskTest_generated_eq (m v nd : Int) : KernelsCbcaGlue.shiftMaskTest m v nd = (m != v) := by
  unfold KernelsCbcaGlue.shiftMaskTest
  by_cases h : m = v
  · subst h; simp
  · have h' : ¬ v = m := fun e => h e.symm
    simp [h, h']

theorem prepLeft_generated_eq (inp : Input) (nodata : Int) :
    runPrep inp.H inp.W inp.hasMskL inp.mskL inp.validL nodata 0 KernelsCbcaGlue.prepLeft (fun y x => .num (inp.imL y x))
      = inp.filteredL := by
  unfold KernelsCbcaGlue.prepLeft runPrep Input.filteredL
  simp only [List.foldl, applyPrep, KernelsCbcaGlue.prefilterSize, if_true]
  refine congrArg (median3 inp.H inp.W) ?_
  funext y x
  simp [maskedImg, KernelsCbcaGlue.leftMaskGuard, leftMaskTest_generated_eq]

theorem prepRight_generated_eq (inp : Input) (k : Nat) (nodata : Int) :
    runPrep inp.H (if k = 0 then inp.W else inp.W - 1) inp.hasMskR inp.mskR inp.validR nodata k KernelsCbcaGlue.prepRight
      (rawShift inp k) = inp.filteredR k := by
  unfold KernelsCbcaGlue.prepRight runPrep Input.filteredR
  simp only [List.foldl, applyPrep, KernelsCbcaGlue.prefilterSize, if_true]
  by_cases hk : k = 0
  · simp only [hk, if_true]
    refine congrArg (median3 inp.H inp.W) ?_
    funext y x
    simp [maskedImg, rawShift, KernelsCbcaGlue.rightMaskGuard, rightMaskTest_generated_eq, KernelsCbcaGlue.shiftMaskGuard]
  · simp only [hk, if_false]
    refine congrArg (median3 inp.H (inp.W - 1)) ?_
    funext y x
    simp [shiftedImg, rawShift, hk, KernelsCbcaGlue.rightMaskGuard, KernelsCbcaGlue.shiftMaskGuard,
      shiftMaskTest_generated_eq, KernelsCbcaGlue.shiftMaskOffsets]

/-! ## the whole step on an `Input` -/

theorem planeOf_eq_planeWith (inp : Input) (armsL : Nat → Nat → Arms) (armsR : Nat → Nat → Nat → Arms) (dsp : Nat) :
    planeOf inp.h inp.w (fun y x => inp.cv (y + inp.off) (x + inp.off) dsp) armsL armsR inp.wr (inp.disp dsp) inp.subpix
      = inp.planeWith armsL armsR dsp := rfl

/-- **One iteration of the disparity loop of `cost_volume_aggregation`, as the source defines it today, computes the cells
    of `Cbca.aggregateWith`** inside the aggregated area, for every input, cross supports (left arms inside the area) and
    disparity index: `agg[dsp, x - off, y - off]` is the model's cell `(y, x, dsp)`. -/
theorem aggregate_generated (inp : Input) (armsL : Nat → Nat → Arms) (armsR : Nat → Nat → Nat → Arms) (dsp : Nat)
    (hH : 1 ≤ inp.h) (hin : ArmsIn inp.h inp.w armsL) :
    ∃ out, KernelsCbcaGlue.aggPlane (embV (fun y x => inp.cv (y + inp.off) (x + inp.off) dsp)) inp.h inp.w
        (fun i j => KernelsCbcaGlue.aggInit (embV (fun y x => inp.cv (y + inp.off) (x + inp.off) dsp) j i)) inp.w inp.h
        (embA armsL) inp.h inp.w 4 (fun s => embA (armsR s.toNat)) (fun _ => inp.h) (fun s => inp.wr s.toNat) (fun _ => 4)
        (inp.disp dsp) inp.subpix = .ok out ∧ out.n0 = inp.w ∧ out.n1 = inp.h ∧
      ∀ y x : Nat, inArea inp y x = true →
        out.get ((x - inp.off : Nat) : Int) ((y - inp.off : Nat) : Int) = aggregateWith inp armsL armsR y x dsp := by
  obtain ⟨out, e, s0, s1, hc⟩ := aggPlane_generated_eq inp.h inp.w (fun y x => inp.cv (y + inp.off) (x + inp.off) dsp)
    armsL armsR inp.wr (inp.disp dsp) inp.subpix hH hin
  refine ⟨out, e, s0, s1, ?_⟩
  intro y x ha
  unfold aggregateWith
  rw [if_pos ha]
  unfold inArea at ha
  simp only [decide_eq_true_eq] at ha
  have := hc (y - inp.off) (x - inp.off) (by omega) (by omega)
  rw [planeOf_eq_planeWith] at this
  exact this

/-- the same with the cross supports of the model, under the property's specification -/
theorem aggregate_generated_spec (inp : Input) (h : inp.mr = .neighbour ∨ 2 ≤ inp.dist) (dsp : Nat) (hH : 1 ≤ inp.h)
    (hN : nanOutside (inp.planeRef dsp) = true) :
    ∃ out, KernelsCbcaGlue.aggPlane (embV (fun y x => inp.cv (y + inp.off) (x + inp.off) dsp)) inp.h inp.w
        (fun i j => KernelsCbcaGlue.aggInit (embV (fun y x => inp.cv (y + inp.off) (x + inp.off) dsp) j i)) inp.w inp.h
        (embA inp.crossL) inp.h inp.w 4 (fun s => embA (inp.crossR s.toNat)) (fun _ => inp.h) (fun s => inp.wr s.toNat)
        (fun _ => 4) (inp.disp dsp) inp.subpix = .ok out ∧
      ∀ y x : Nat, inArea inp y x = true →
        specAt inp y x dsp (out.get ((x - inp.off : Nat) : Int) ((y - inp.off : Nat) : Int)) = true := by
  have hin : ArmsIn inp.h inp.w inp.crossL :=
    armsIn_of _ _ _ (Pandora.C11.crossSupport_in_image inp.mr inp.h inp.w inp.dist inp.I (crop inp.off inp.filteredL))
  obtain ⟨out, e, _, _, hc⟩ := aggregate_generated inp inp.crossL inp.crossR dsp hH hin
  refine ⟨out, e, ?_⟩
  intro y x ha
  rw [hc y x ha]
  exact Pandora.C11.cbca_spec inp h dsp hN y x

/-! ## the whole method on the whole volume -/

/-- `cbcaStep1_generated_eq` for ANY array that holds the cost plane inside `H × W` (the cells outside are never read) -/
theorem cbcaStep1_generated_eq_of (H W : Nat) (cv : Nat → Nat → Val) (cvp : Int → Int → Val)
    (hcv : ∀ y x : Nat, y < H → x < W → cvp y x = cv y x) :
    ∃ r, cbcaStep1 cvp H W = .ok r ∧ r.n0 = H ∧ r.n1 = (W : Int) + 1 ∧
      ∀ (y : Nat) (j : Int), y < H → -((W : Int) + 1) ≤ j → j < (W : Int) + 1 →
        get2 r.get r.n0 r.n1 y j = Val.num (s1At W (cv y) j) := by
  have eW : (1 : Int) + (W : Int) = (W : Int) + 1 := by ring
  simp only [cbcaStep1, eW]
  generalize hL : forRange (0 : Int) (H : Int) 1 _ _ = L
  have key : L.1 = true ∧ Done1 W cv H 0 L.2 := by
    rw [← hL]
    refine forRange_inv (fun c (st : Bool × (Int → Int → Val)) => st.1 = true ∧ Done1 W cv c 0 st.2) 0 (H : Int) 1 H _ _
      (rangeLen_one _ _ _ (by omega))
      ⟨rfl, fun i j _ => by simp [zeros2]⟩ ?_
    rintro c ⟨ok, a⟩ hc ⟨hok, hd⟩
    simp only [] at hok hd
    subst hok
    simp only [Int.zero_add, Int.one_mul]
    generalize hM : forRange (0 : Int) (W : Int) 1 _ _ = M
    have keyM : M.1 = true ∧ Done1 W cv c W M.2 := by
      rw [← hM]
      refine forRange_inv (fun r (st : Bool × (Int → Int → Val)) => st.1 = true ∧ Done1 W cv c r st.2) 0 (W : Int) 1 W _ _
        (rangeLen_one _ _ _ (by omega))
        ⟨rfl, hd⟩ ?_
      rintro r ⟨ok, a⟩ hr ⟨hok, hd⟩
      simp only [] at hok hd
      subst hok
      have hcH : (c : Int) < (H : Int) := by exact_mod_cast hc
      have hrW : (r : Int) < (W : Int) := by exact_mod_cast hr
      have hrW1 : (r : Int) < (W : Int) + 1 := by omega
      have hprev : inb2 (H : Int) ((W : Int) + 1) (c : Int) ((r : Int) - 1) = true := by
        simp only [inb2, inb_nat hcH, inb, wrap]; split <;> simp <;> omega
      simp only [Int.zero_add, Int.one_mul, get2_nat, hcv c r hc hr, inb2_nat hcH hrW, inb2_nat hcH hrW1, hprev, done1_prev _ hd hr,
        Bool.and_true, Bool.true_and]
      refine ⟨by triv, ?_⟩
      cases hv : cv c r with
      | nan =>
        simp only [Val.isNan, Bool.not_true, Bool.false_eq_true, if_false]
        exact ⟨by triv, done1_set _ hd hr _ (by rw [step1_rec, hv]; simp [c0, Val.get] <;> arith)⟩
      | num q =>
        simp only [Val.isNan, Bool.not_false, if_true]
        exact ⟨by triv, done1_set _ hd hr _ (by rw [step1_rec, hv]; simp [c0, Val.get, vadd, Val.map2] <;> arith)⟩
    exact ⟨by triv, by simp [keyM.1], done1_next keyM.2⟩
  refine ⟨⟨L.2, H, (W : Int) + 1⟩, ?_, rfl, rfl, ?_⟩
  · have h0 : ((H : Int) ≥ 0) ∧ ((W : Int) + 1 ≥ 0) := ⟨by omega, by omega⟩
    simp [key.1, h0]
  · intro y j hy h0 h1
    exact done1_read key.2 y hy j h0 h1

/-- `aggPlane_generated_eq` for ANY arrays that hold the cost plane / the initial content of `agg[dsp]` inside the area -/
theorem aggPlane_generated_eq_of (H W : Nat) (cv : Nat → Nat → Val) (armsL : Nat → Nat → Arms)
    (armsR : Nat → Nat → Nat → Arms) (wr : Nat → Nat) (d : ℚ) (subpix : Nat) (hH : 1 ≤ H) (hin : ArmsIn H W armsL)
    (cvp aggp : Int → Int → Val) (hcv : ∀ y x : Nat, y < H → x < W → cvp y x = cv y x)
    (hag : ∀ y x : Nat, y < H → x < W → aggp x y = KernelsCbcaGlue.aggInit (cv y x)) :
    ∃ out, KernelsCbcaGlue.aggPlane cvp H W aggp W H
        (embA armsL) H W 4 (fun s => embA (armsR s.toNat)) (fun _ => H) (fun s => wr s.toNat) (fun _ => 4) d subpix = .ok out ∧
      out.n0 = W ∧ out.n1 = H ∧
      ∀ y x : Nat, y < H → x < W → out.get x y = aggOut (planeOf H W cv armsL armsR wr d subpix) y x := by
  have hw := wired_generated (planeOf H W cv armsL armsR wr d subpix)
  obtain ⟨r1, e1, a0, a1, c1⟩ := cbcaStep1_generated_eq_of H W cv cvp hcv
  rw [a0, a1] at c1
  obtain ⟨r2, e2, b0, b1, b2, b3, c2⟩ := cbcaStep2_generated_eq (planeOf H W cv armsL armsR wr d subpix) _ _ _ r1.get c1 hw hin
  obtain ⟨r3, e3, d0, d1, c3⟩ := cbcaStep3_generated_eq (planeOf H W cv armsL armsR wr d subpix) hH r2.1.get
    (fun y x hy hx => (c2 y x hy hx).1)
  rw [d0, d1] at c3
  obtain ⟨r4, e4, f0, f1, f2, f3, c4⟩ := cbcaStep4_generated_eq (planeOf H W cv armsL armsR wr d subpix) _ _ _ r3.get r2.2.get c3
    (fun y x hy hx => (c2 y x hy hx).2) hw hin
  simp only [planeOf] at e2 e3 e4 b0 b1 b2 b3 d0 d1 f0 f1 f2 f3
  unfold KernelsCbcaGlue.aggPlane
  simp only [iRight_generated_eq, Int.toNat_natCast, whereIdx_eq, List.length_map, e1, a0, a1, e2, b0, b1, b2, b3, e3, d0, d1,
    e4, f0, f1, f2, f3, decide_true, Bool.and_self, Bool.true_eq_false, if_false]
  refine ⟨_, rfl, rfl, rfl, ?_⟩
  intro y x hy hx
  obtain ⟨g1, g2⟩ := c4 y x hy hx
  show KernelsCbcaGlue.fdivV (vadd (aggp (x : Int) (y : Int)) (r4.1.get y x))
    (vadd (r4.2.get y x) (Val.num 1)) = _
  rw [g1, g2, hag y x hy hx, aggInit_generated_eq]
  unfold aggOut
  have hpcv : (planeOf H W cv armsL armsR wr d subpix).cv y x = cv y x := rfl
  rw [hpcv]
  cases hc : cv y x with
  | nan => simp [KernelsCbcaGlue.fdivV, vadd, Val.map2]
  | num c =>
    have hpos := sum4_pos (planeOf H W cv armsL armsR wr d subpix) y x
    have hne : ((sum4 (planeOf H W cv armsL armsR wr d subpix) y x : Nat) : ℚ) ≠ 0 := by
      exact_mod_cast (by omega : sum4 (planeOf H W cv armsL armsR wr d subpix) y x ≠ 0)
    simp only [KernelsCbcaGlue.fdivV, vadd, Val.map2, fdiv, sub_add_cancel, if_neg hne,
      if_neg (by omega : ¬ sum4 (planeOf H W cv armsL armsR wr d subpix) y x = 0)]

/-! ### the loop over the disparities is a map over the planes — proved, not assumed -/

/-- an iteration leaves every other plane of `agg` as it was -/
theorem aggLoopBody_frame (cvd : Int → Int → Int → Val) (a0 a1 b1 b2 : Int) (cl : Int → Int → Int → Int) (c0 c1 c2 : Int)
    (cr : Int → Int → Int → Int → Int) (r0 r1 r2 : Int → Int) (disp : Int → ℚ) (subpix dsp : Int)
    (agg agg' : Int → Int → Int → Val)
    (h : KernelsCbcaGlue.aggLoopBody cvd a0 a1 b1 b2 cl c0 c1 c2 cr r0 r1 r2 disp subpix dsp agg = .ok agg') :
    ∀ k : Int, k ≠ dsp → agg' k = agg k := by
  unfold KernelsCbcaGlue.aggLoopBody at h
  split at h
  · exact absurd h (by simp)
  · injection h with h
    intro k hk
    rw [← h]
    funext i j
    simp [hk]

/-- an iteration reads plane `dsp` of `cv_data`, plane `dsp` of `agg` and the disparity `disp[dsp]` only: two states /
    volumes / disparity lists that agree there give the same new plane -/
theorem aggLoopBody_reads (cvd cvd' : Int → Int → Int → Val) (a0 a1 b1 b2 : Int) (cl : Int → Int → Int → Int) (c0 c1 c2 : Int)
    (cr : Int → Int → Int → Int → Int) (r0 r1 r2 : Int → Int) (disp disp' : Int → ℚ) (subpix dsp : Int)
    (agg agg2 : Int → Int → Int → Val)
    (hc : ∀ i j, cvd i j dsp = cvd' i j dsp) (ha : ∀ i j, agg dsp i j = agg2 dsp i j) (hd : disp dsp = disp' dsp) :
    (match KernelsCbcaGlue.aggLoopBody cvd a0 a1 b1 b2 cl c0 c1 c2 cr r0 r1 r2 disp subpix dsp agg,
           KernelsCbcaGlue.aggLoopBody cvd' a0 a1 b1 b2 cl c0 c1 c2 cr r0 r1 r2 disp' subpix dsp agg2 with
     | .ok x, .ok y => x dsp = y dsp
     | .outOfBounds, .outOfBounds => True
     | _, _ => False) := by
  unfold KernelsCbcaGlue.aggLoopBody
  have e1 : (fun i j => cvd i j dsp) = (fun i j => cvd' i j dsp) := by funext i j; exact hc i j
  have e2 : (fun i j => agg dsp i j) = (fun i j => agg2 dsp i j) := by funext i j; exact ha i j
  rw [e1, e2, hd]
  generalize KernelsCbcaGlue.aggPlane _ _ _ _ _ _ _ _ _ _ _ _ _ _ _ _ = R
  cases R with
  | outOfBounds => trivial
  | ok r => simp

theorem forPlanes_inv {σ : Type} (body : Int → σ → Res σ) (P : Nat → σ → Prop) (n : Nat) (s0 : σ) (h0 : P 0 s0)
    (hstep : ∀ (k : Nat) (s : σ), k < n → P k s → ∃ s', body (k : Int) s = .ok s' ∧ P (k + 1) s') :
    ∃ s, KernelsCbcaGlue.forPlanes body n s0 = .ok s ∧ P n s := by
  induction n with
  | zero => exact ⟨s0, rfl, h0⟩
  | succ n ih =>
    obtain ⟨s, hs, hp⟩ := ih (fun k s hk hP => hstep k s (by omega) hP)
    obtain ⟨s', hb, hp'⟩ := hstep n s (by omega) hp
    exact ⟨s', by simp only [KernelsCbcaGlue.forPlanes, hs, hb], hp'⟩

/-- the cost volume of the model as the 3-D array the method is called with -/
def emb3 (f : Nat → Nat → Nat → Val) : Int → Int → Int → Val := fun y x k => f y.toNat x.toNat k.toNat

theorem aggregateWith_inner (inp : Input) (armsL : Nat → Nat → Arms) (armsR : Nat → Nat → Nat → Arms) (y x k : Nat)
    (hy : y < inp.h) (hx : x < inp.w) :
    aggregateWith inp armsL armsR (y + inp.off) (x + inp.off) k
      = aggOut (planeOf inp.h inp.w (fun y x => inp.cv (y + inp.off) (x + inp.off) k) armsL armsR inp.wr (inp.disp k) inp.subpix) y x := by
  unfold aggregateWith
  have ha : inArea inp (y + inp.off) (x + inp.off) = true := by
    unfold inArea; simp only [decide_eq_true_eq]; omega
  rw [if_pos ha, planeOf_eq_planeWith, Nat.add_sub_cancel, Nat.add_sub_cancel]

/-- **`cost_volume_aggregation` as the source defines it today — crop of the cost volume by `offset_row_col`, `agg`
    initialised from it, the sequential loop over the disparities with `agg` as its state, `np.swapaxes`, the store into the
    cropped area or the replacement of the whole volume — returns, for every input, the cost volume of the model:
    every cell is `Cbca.aggregateWith`.** -/
theorem costVolumeAggregation_generated_eq (inp : Input) (D : Nat) (armsL : Nat → Nat → Arms) (armsR : Nat → Nat → Nat → Arms)
    (hH : 1 ≤ inp.h) (hin : ArmsIn inp.h inp.w armsL) :
    ∃ out, KernelsCbcaGlue.costVolumeAggregation (emb3 inp.cv) inp.H inp.W D inp.off (embA armsL) inp.h inp.w 4
        (fun s => embA (armsR s.toNat)) (fun _ => inp.h) (fun s => inp.wr s.toNat) (fun _ => 4)
        (fun k => inp.disp k.toNat) inp.subpix = .ok out ∧
      out.n0 = inp.H ∧ out.n1 = inp.W ∧ out.n2 = D ∧
      ∀ y x k : Nat, y < inp.H → x < inp.W → k < D → out.get y x k = aggregateWith inp armsL armsR y x k := by
  obtain ⟨m1, m2, _, _, m5, m6, _⟩ := cropBox_model inp 0
  have m5' := m5 (by omega)
  unfold KernelsCbcaGlue.costVolumeAggregation
  simp only [cvCrop_generated_eq, writeBack_generated_eq, Int.toNat_natCast]
  generalize cropBox inp.H inp.W inp.off = b at m1 m2 m5' m6
  obtain ⟨b1, b2, b3, b4⟩ := b
  simp only at m1 m2 m5' m6
  subst m1 m2 m5'
  -- the loop
  obtain ⟨agg, hloop, hP⟩ := forPlanes_inv
    (KernelsCbcaGlue.aggLoopBody (fun i j k => emb3 inp.cv ((inp.off : Int) + i) (b2 + j) k) inp.h inp.w inp.w inp.h (embA armsL) inp.h inp.w 4
      (fun s => embA (armsR s.toNat)) (fun _ => inp.h) (fun s => inp.wr s.toNat) (fun _ => 4) (fun k => inp.disp k.toNat) inp.subpix)
    (fun m agg => ∀ k y x : Nat, y < inp.h → x < inp.w →
      (k < m → agg k x y = aggregateWith inp armsL armsR (y + inp.off) (x + inp.off) k) ∧
      (m ≤ k → agg k x y = KernelsCbcaGlue.aggInit (inp.cv (y + inp.off) (x + inp.off) k)))
    D (fun k i j => KernelsCbcaGlue.aggInit (emb3 inp.cv ((inp.off : Int) + j) (b2 + i) k))
    (by
      intro k y x hy hx
      refine ⟨fun h => absurd h (by omega), fun _ => ?_⟩
      have hb2 := m6 (by omega)
      subst hb2
      simp only [emb3, Int.toNat_natCast]
      have e1 : ((inp.off : Int) + (y : Int)).toNat = y + inp.off := by omega
      have e2 : ((inp.off : Int) + (x : Int)).toNat = x + inp.off := by omega
      rw [e1, e2])
    (by
      intro k agg hk hP
      obtain ⟨out, e, s0, s1, hc⟩ := aggPlane_generated_eq_of inp.h inp.w (fun y x => inp.cv (y + inp.off) (x + inp.off) k)
        armsL armsR inp.wr (inp.disp k) inp.subpix hH hin
        (fun i j => emb3 inp.cv ((inp.off : Int) + i) (b2 + j) (k : Int)) (fun i j => agg (k : Int) i j)
        (by
          intro y x hy hx
          have hb2 := m6 (by omega)
          subst hb2
          simp only [emb3, Int.toNat_natCast]
          have e1 : ((inp.off : Int) + (y : Int)).toNat = y + inp.off := by omega
          have e2 : ((inp.off : Int) + (x : Int)).toNat = x + inp.off := by omega
          rw [e1, e2])
        (by intro y x hy hx; exact ((hP k y x hy hx).2 (le_refl k)))
      unfold KernelsCbcaGlue.aggLoopBody
      simp only [Int.toNat_natCast, e]
      refine ⟨_, rfl, ?_⟩
      intro k' y x hy hx
      by_cases hkk : k' = k
      · subst hkk
        refine ⟨fun _ => ?_, fun h => absurd h (by omega)⟩
        simp only [if_true]
        rw [hc y x hy hx, aggregateWith_inner inp armsL armsR y x k' hy hx]
      · have hne : ((k' : Int) = (k : Int)) = False := by simp; omega
        simp only [hne, if_false]
        exact ⟨fun h => (hP k' y x hy hx).1 (by omega), fun h => (hP k' y x hy hx).2 (by omega)⟩)
  rw [hloop]
  by_cases h0 : inp.off = 0
  · have ht : KernelsCbcaGlue.writeBackTest (inp.off : Int) = false := by rw [h0]; decide
    simp only [ht, Bool.false_eq_true, if_false]
    have hh : inp.h = inp.H := by unfold Input.h; omega
    have hw : inp.w = inp.W := by unfold Input.w; omega
    refine ⟨_, rfl, by simp [hh], by simp [hw], rfl, ?_⟩
    intro y x k hy hx _
    have := (hP k y x (by omega) (by omega)).1 (by omega)
    simp only [h0, Nat.add_zero] at this
    exact this
  · have ht : KernelsCbcaGlue.writeBackTest (inp.off : Int) = true := by
      unfold KernelsCbcaGlue.writeBackTest; simp; omega
    simp only [ht, if_true, decide_true, Bool.and_self, Bool.true_eq_false, if_false]
    refine ⟨_, rfl, rfl, rfl, rfl, ?_⟩
    intro y x k hy hx _
    show (if _ then _ else _) = _
    by_cases ha : inArea inp y x = true
    · have ha' := ha
      unfold inArea at ha'
      simp only [decide_eq_true_eq] at ha'
      have hb2 := m6 (by omega)
      subst hb2
      have hcond : (decide ((inp.off : Int) ≤ (y : Int)) && decide ((y : Int) < (inp.off : Int) + (inp.h : Int)) &&
          decide ((inp.off : Int) ≤ (x : Int)) && decide ((x : Int) < (inp.off : Int) + (inp.w : Int))) = true := by
        simp only [Bool.and_eq_true, decide_eq_true_eq]; omega
      rw [if_pos hcond]
      have e1 : (y : Int) - (inp.off : Int) = ((y - inp.off : Nat) : Int) := by omega
      have e2 : (x : Int) - (inp.off : Int) = ((x - inp.off : Nat) : Int) := by omega
      rw [e1, e2]
      have := (hP k (y - inp.off) (x - inp.off) (by omega) (by omega)).1 (by omega)
      rw [this]
      congr 1 <;> omega
    · have ha' := ha
      unfold inArea at ha'
      simp only [decide_eq_true_eq] at ha'
      have hcond : (decide ((inp.off : Int) ≤ (y : Int)) && decide ((y : Int) < (inp.off : Int) + (inp.h : Int)) &&
          decide (b2 ≤ (x : Int)) && decide ((x : Int) < b2 + (inp.w : Int))) = false := by
        by_cases hw : 0 < inp.w
        · have hb2 := m6 hw
          subst hb2
          simp only [Bool.and_eq_false_iff, decide_eq_false_iff_not]; omega
        · simp only [Bool.and_eq_false_iff, decide_eq_false_iff_not]; omega
      rw [hcond]
      simp only [Bool.false_eq_true, if_false]
      unfold aggregateWith
      rw [if_neg ha]
      simp [emb3]

/-- the generated whole with the cross supports of the model: every cell is `Cbca.aggregate` -/
theorem costVolumeAggregation_generated_model (inp : Input) (D : Nat) (hH : 1 ≤ inp.h) :
    ∃ out, KernelsCbcaGlue.costVolumeAggregation (emb3 inp.cv) inp.H inp.W D inp.off (embA inp.crossL) inp.h inp.w 4
        (fun s => embA (inp.crossR s.toNat)) (fun _ => inp.h) (fun s => inp.wr s.toNat) (fun _ => 4)
        (fun k => inp.disp k.toNat) inp.subpix = .ok out ∧
      out.n0 = inp.H ∧ out.n1 = inp.W ∧ out.n2 = D ∧
      ∀ y x k : Nat, y < inp.H → x < inp.W → k < D → out.get y x k = aggregate inp y x k := by
  have hin : ArmsIn inp.h inp.w inp.crossL :=
    armsIn_of _ _ _ (Pandora.C11.crossSupport_in_image inp.mr inp.h inp.w inp.dist inp.I (crop inp.off inp.filteredL))
  exact costVolumeAggregation_generated_eq inp D inp.crossL inp.crossR hH hin

/-- **C11's clauses about the generated whole**: `sum_over_region` / `divided_by_region_size` (`specAt`: the cell is the sum
    of the non-NaN costs over the combined support region divided by its size, the margin untouched), `nan_stays`,
    `no_new_nan` — for every cell of the volume the generated `cost_volume_aggregation` returns. -/
theorem costVolumeAggregation_generated_spec (inp : Input) (h : inp.mr = .neighbour ∨ 2 ≤ inp.dist) (D : Nat) (hH : 1 ≤ inp.h)
    (hN : ∀ k : Nat, k < D → nanOutside (inp.planeRef k) = true) :
    ∃ out, KernelsCbcaGlue.costVolumeAggregation (emb3 inp.cv) inp.H inp.W D inp.off (embA inp.crossL) inp.h inp.w 4
        (fun s => embA (inp.crossR s.toNat)) (fun _ => inp.h) (fun s => inp.wr s.toNat) (fun _ => 4)
        (fun k => inp.disp k.toNat) inp.subpix = .ok out ∧
      ∀ y x k : Nat, y < inp.H → x < inp.W → k < D →
        specAt inp y x k (out.get y x k) = true ∧
        ((inp.cv y x k).isNan = true → (out.get y x k).isNan = true) ∧
        ((inp.cv y x k).isNan = false → (out.get y x k).isNan = false) := by
  obtain ⟨out, e, _, _, _, hc⟩ := costVolumeAggregation_generated_model inp D hH
  refine ⟨out, e, ?_⟩
  intro y x k hy hx hk
  rw [hc y x k hy hx hk]
  exact ⟨Pandora.C11.cbca_spec inp h k (hN k hk) y x, Pandora.C11.nan_stays inp y x k, Pandora.C11.no_new_nan inp y x k⟩

/-- `plane_independent` about the generated whole: two cost volumes that agree on plane `k` give outputs that agree on
    plane `k` (same images, masks, parameters) -/
theorem costVolumeAggregation_generated_plane_independent (inp : Input) (cv' : Nat → Nat → Nat → Val) (D k : Nat)
    (hH : 1 ≤ inp.h) (hk : k < D) (h : ∀ y x, cv' y x k = inp.cv y x k) :
    ∃ out out', KernelsCbcaGlue.costVolumeAggregation (emb3 inp.cv) inp.H inp.W D inp.off (embA inp.crossL) inp.h inp.w 4
        (fun s => embA (inp.crossR s.toNat)) (fun _ => inp.h) (fun s => inp.wr s.toNat) (fun _ => 4)
        (fun k => inp.disp k.toNat) inp.subpix = .ok out ∧
      KernelsCbcaGlue.costVolumeAggregation (emb3 cv') inp.H inp.W D inp.off (embA inp.crossL) inp.h inp.w 4
        (fun s => embA (inp.crossR s.toNat)) (fun _ => inp.h) (fun s => inp.wr s.toNat) (fun _ => 4)
        (fun k => inp.disp k.toNat) inp.subpix = .ok out' ∧
      ∀ y x : Nat, y < inp.H → x < inp.W → out'.get y x k = out.get y x k := by
  obtain ⟨out, e, _, _, _, hc⟩ := costVolumeAggregation_generated_model inp D hH
  obtain ⟨out', e', _, _, _, hc'⟩ := costVolumeAggregation_generated_model { inp with cv := cv' } D hH
  refine ⟨out, out', e, e', ?_⟩
  intro y x hy hx
  rw [hc y x k hy hx hk, hc' y x k hy hx hk]
  exact Pandora.C11.plane_independent inp cv' k h y x

/-! ## `cmax` -/

/-- the `cmax` attribute written by `cost_volume_aggregation` is the model's `cmaxAfter` (any `cmax`, any distance) -/
theorem cmaxUpdate_generated_eq (cmax : ℚ) (dist : Nat) :
    KernelsCbcaGlue.cmaxUpdate cmax (dist : Int) = cmaxAfter cmax dist := by
  unfold KernelsCbcaGlue.cmaxUpdate cmaxAfter
  simp only [ipow]
  push_cast
  ring

/-! ## non-vacuity -/

example : ArmsIn exP.H exP.W exP.armsL := armsIn_of _ _ _ (by decide +kernel)
example : (1 : Nat) ≤ exP.H := by decide
example : KernelsCbcaGlue.iRight (-3 / 2) 2 = 1 := by decide +kernel
example : cropBox 7 9 2 = (2, 2, 3, 5) := by decide +kernel
example : KernelsCbcaGlue.rightCropBox 7 8 2 1 = (2, 2, 3, 4) := by decide +kernel

end Pandora.C11KernelsGlue
