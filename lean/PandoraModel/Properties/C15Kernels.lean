/-
  C15 — `FixedZoomPyramid.disparity_range` and `mask_invalid_disparities`, regenerated from the source
  (`Generated/KernelsMultiscale.lean`, written by `translator/gen_kernels_multiscale.py` on top of `translator/pyarr.py`),
  equal the hand model `Model/Multiscale.lean` — for every map size, flags, window size, marge, user interval, scale factor,
  block split and store; and the scalar interval glue of `run_prepare` / `matching_cost_prepare` (translator/pyexpr.py)
  equals `Multiscale.prepareBound` / `boundAfter` for all rationals and naturals.
-/
import PandoraModel.Properties.C15Grids
import PandoraModel.Generated.KernelsMultiscale

set_option linter.unusedSimpArgs false
set_option linter.unusedVariables false

namespace Pandora.C15Kernels
open Pandora Pandora.PyArr Pandora.Multiscale Pandora.C15
open Pandora.Generated.KernelsMultiscale (prepareBoundMinAt prepareBoundMin prepareBoundMaxAt prepareBoundMax mcPrepareMin mcPrepareMax
  mcPrepareRightMin mcPrepareRightMax prepareRightMin prepareRightMax)

/-! ### the store -/

section store
variable {α : Type}

theorem store_ext {s t : Store α} (h1 : s.arr = t.arr) (h2 : s.next = t.next) : s = t := by
  cases s; cases t; simp_all

@[simp] theorem set_arr_self (s : Store α) (k : Nat) (a : Arr α) : (s.set k a).arr k = a := by
  simp [Store.set]

@[simp] theorem set_arr_ne (s : Store α) {k j : Nat} (h : j ≠ k) (a : Arr α) : (s.set k a).arr j = s.arr j := by
  simp [Store.set, h]

@[simp] theorem set_next (s : Store α) (k : Nat) (a : Arr α) : (s.set k a).next = s.next := by simp [Store.set]

theorem set_same (s : Store α) (k : Nat) : s.set k (s.arr k) = s := by
  apply store_ext
  · funext j
    by_cases h : j = k <;> simp [Store.set, h]
  · rfl

@[simp] theorem alloc_snd (s : Store α) (a : Arr α) : (s.alloc a).2 = s.next := by simp [Store.alloc]
@[simp] theorem alloc_next (s : Store α) (a : Arr α) : (s.alloc a).1.next = s.next + 1 := by simp [Store.alloc]
@[simp] theorem alloc_arr_new (s : Store α) (a : Arr α) : (s.alloc a).1.arr s.next = a := by
  simp [Store.alloc]
@[simp] theorem alloc_arr_old (s : Store α) (a : Arr α) {j : Nat} (h : j ≠ s.next) : (s.alloc a).1.arr j = s.arr j := by
  simp [Store.alloc, h]

/-- two stores that differ at most on `d1`, `d2` agree once both are overwritten -/
theorem set2_congr (s t : Store α) (d1 d2 : Nat) (A B : Arr α) (h : ∀ j, j ≠ d1 → j ≠ d2 → s.arr j = t.arr j)
    (hn : s.next = t.next) : (s.set d1 A).set d2 B = (t.set d1 A).set d2 B := by
  apply store_ext
  · funext j
    by_cases h2 : j = d2
    · subst h2; simp
    · by_cases h1 : j = d1
      · subst h1; simp [set_arr_ne _ h2]
      · simp [set_arr_ne _ h2, set_arr_ne _ h1, h j h1 h2]
  · simpa using hn

/-! ### the block statement with two writes -/

theorem innerLoopSt2_eq (k1 k2 : Arr α → Nat → Nat → α) (d1 d2 base : Nat) (h1 : d1 ≠ base) (h2 : d2 ≠ base) (h12 : d1 ≠ d2)
    (yb ylen ys : Nat) :
    ∀ (chunks : List (Nat × Nat)) (xb : Nat) (s : Store α),
      innerLoopSt2 k1 d1 k2 d2 base yb ylen ys chunks xb s =
        (s.set d1 (Blocks.innerLoop (k1 (s.arr base)) yb ylen ys chunks xb (s.arr d1))).set d2
          (Blocks.innerLoop (k2 (s.arr base)) yb ylen ys chunks xb (s.arr d2))
  | [], xb, s => by
    simp [innerLoopSt2, Blocks.innerLoop, set_same]
  | (xs, xlen) :: rest, xb, s => by
    rw [innerLoopSt2, innerLoopSt2_eq k1 k2 d1 d2 base h1 h2 h12 yb ylen ys rest (xb + xlen) _]
    simp only [assignSt, Blocks.innerLoop]
    simp only [set_arr_ne _ (Ne.symm h1), set_arr_ne _ (Ne.symm h2), set_arr_ne _ h12, set_arr_ne _ (Ne.symm h12),
      set_arr_self]
    apply set2_congr
    · intro j hj1 hj2
      simp [set_arr_ne _ hj1, set_arr_ne _ hj2]
    · rfl

theorem outerLoopSt2_eq (k1 k2 : Arr α → Nat → Nat → α) (d1 d2 base : Nat) (h1 : d1 ≠ base) (h2 : d2 ≠ base) (h12 : d1 ≠ d2)
    (xchunks : List (Nat × Nat)) (offx : Nat) :
    ∀ (chunks : List (Nat × Nat)) (yb : Nat) (s : Store α),
      outerLoopSt2 k1 d1 k2 d2 base xchunks offx chunks yb s =
        (s.set d1 (Blocks.outerLoop (k1 (s.arr base)) xchunks offx chunks yb (s.arr d1))).set d2
          (Blocks.outerLoop (k2 (s.arr base)) xchunks offx chunks yb (s.arr d2))
  | [], yb, s => by
    simp [outerLoopSt2, Blocks.outerLoop, set_same]
  | (ys, ylen) :: rest, yb, s => by
    rw [outerLoopSt2, outerLoopSt2_eq k1 k2 d1 d2 base h1 h2 h12 xchunks offx rest (yb + ylen) _,
      innerLoopSt2_eq k1 k2 d1 d2 base h1 h2 h12]
    simp only [Blocks.outerLoop]
    simp only [set_arr_ne _ (Ne.symm h1), set_arr_ne _ (Ne.symm h2), set_arr_ne _ h12, set_arr_ne _ (Ne.symm h12),
      set_arr_self]
    apply set2_congr
    · intro j hj1 hj2
      simp [set_arr_ne _ hj1, set_arr_ne _ hj2]
    · rfl

/-- **The block statement with two private outputs.**  When the two destinations are different arrays and neither is
    the array the windows are read from, processing the blocks one after the other on the store — first write, second
    write, next block — is two independent pure blocked computations of the kernels of the initial content, for every
    plan (any split points, any offsets). -/
theorem blockedSt2_eq (p : Blocks.Plan) (k1 k2 : Arr α → Nat → Nat → α) (d1 d2 base : Nat)
    (h1 : d1 ≠ base) (h2 : d2 ≠ base) (h12 : d1 ≠ d2) (s : Store α) :
    blockedSt2 p k1 d1 k2 d2 base s =
      (s.set d1 (Blocks.blocked p (k1 (s.arr base)) (s.arr d1))).set d2 (Blocks.blocked p (k2 (s.arr base)) (s.arr d2)) := by
  unfold blockedSt2 Blocks.blocked
  exact outerLoopSt2_eq k1 k2 d1 d2 base h1 h2 h12 _ _ _ _ s

theorem innerLoopSt2_next (k1 k2 : Arr α → Nat → Nat → α) (d1 d2 base yb ylen ys : Nat) :
    ∀ (chunks : List (Nat × Nat)) (xb : Nat) (s : Store α),
      (innerLoopSt2 k1 d1 k2 d2 base yb ylen ys chunks xb s).next = s.next
  | [], _, _ => rfl
  | (xs, xlen) :: rest, xb, s => by
    rw [innerLoopSt2, innerLoopSt2_next k1 k2 d1 d2 base yb ylen ys rest]
    rfl

theorem outerLoopSt2_next (k1 k2 : Arr α → Nat → Nat → α) (d1 d2 base : Nat) (xchunks : List (Nat × Nat)) (offx : Nat) :
    ∀ (chunks : List (Nat × Nat)) (yb : Nat) (s : Store α),
      (outerLoopSt2 k1 d1 k2 d2 base xchunks offx chunks yb s).next = s.next
  | [], _, _ => rfl
  | (ys, ylen) :: rest, yb, s => by
    rw [outerLoopSt2, outerLoopSt2_next k1 k2 d1 d2 base xchunks offx rest, innerLoopSt2_next]

/-- the block statement allocates nothing -/
@[simp] theorem blockedSt2_next (p : Blocks.Plan) (k1 k2 : Arr α → Nat → Nat → α) (d1 d2 base : Nat) (s : Store α) :
    (blockedSt2 p k1 d1 k2 d2 base s).next = s.next := by
  unfold blockedSt2
  exact outerLoopSt2_next k1 k2 d1 d2 base _ _ _ _ s

end store

/-! ### `mask_invalid_disparities` -/

/-- the NaN-masked copy as an index function: NaN where the flag word has an invalidating bit -/
def maskedArr (fl : Nat → Nat → Nat) (a : Arr Val) : Arr Val :=
  fun r c => if Flags.isInvalid (fl r c) then Val.nan else a r c

/-- **`mask_invalid_disparities` regenerated = model.**  For every store: the result is a FRESH array holding the input
    map with NaN exactly where `flag & PANDORA_MSK_PIXEL_INVALID ≠ 0` (the constant read in constants.py is the model's
    `Flags.pixelInvalid`), and no other array is written. -/
theorem maskInvalidDisparities_generated (ny nx : Nat) (fl : Nat → Nat → Nat) (dm : Nat) (s : Store Val) :
    (Generated.KernelsMultiscale.maskInvalidDisparities ny nx fl dm s).2 = s.next
    ∧ (Generated.KernelsMultiscale.maskInvalidDisparities ny nx fl dm s).1.next = s.next + 1
    ∧ (Generated.KernelsMultiscale.maskInvalidDisparities ny nx fl dm s).1.arr s.next = maskedArr fl (s.arr dm)
    ∧ ∀ k, k ≠ s.next → (Generated.KernelsMultiscale.maskInvalidDisparities ny nx fl dm s).1.arr k = s.arr k := by
  unfold Generated.KernelsMultiscale.maskInvalidDisparities
  refine ⟨rfl, rfl, ?_, ?_⟩
  · simp only [Store.copy, alloc_snd, Store.maskFill, set_arr_self, alloc_arr_new]
    funext r c
    simp [maskedArr, flagMask, Flags.isInvalid, Flags.pixelInvalid, Generated.Constants.PANDORA_MSK_PIXEL_INVALID]
  · intro k hk
    simp only [Store.copy, alloc_snd, Store.maskFill, set_arr_ne _ hk, alloc_arr_old _ _ hk]

/-! ### lookups in the stores the generated program builds -/

theorem mi_snd (ny nx : Nat) (fl : Nat → Nat → Nat) (dm : Nat) (s : Store Val) :
    (Generated.KernelsMultiscale.maskInvalidDisparities ny nx fl dm s).2 = s.next :=
  (maskInvalidDisparities_generated ny nx fl dm s).1
theorem mi_next (ny nx : Nat) (fl : Nat → Nat → Nat) (dm : Nat) (s : Store Val) :
    (Generated.KernelsMultiscale.maskInvalidDisparities ny nx fl dm s).1.next = s.next + 1 :=
  (maskInvalidDisparities_generated ny nx fl dm s).2.1
theorem mi_arr (ny nx : Nat) (fl : Nat → Nat → Nat) (dm : Nat) (s : Store Val) (k : Nat) :
    (Generated.KernelsMultiscale.maskInvalidDisparities ny nx fl dm s).1.arr k
      = if k = s.next then maskedArr fl (s.arr dm) else s.arr k := by
  by_cases h : k = s.next
  · subst h; simp [(maskInvalidDisparities_generated ny nx fl dm s).2.2.1]
  · simp [h, (maskInvalidDisparities_generated ny nx fl dm s).2.2.2 k h]

theorem alloc_arr (α : Type) (s : Store α) (a : Arr α) (k : Nat) : (s.alloc a).1.arr k = if k = s.next then a else s.arr k := by
  simp [Store.alloc]
theorem set_arr (α : Type) (s : Store α) (a : Arr α) (d k : Nat) : (s.set d a).arr k = if k = d then a else s.arr k := by
  simp [Store.set]


/-! ### one band of `disparity_range` before upsampling -/

/-- `sliding_window` as `Model/Filter.lean` (index function) and as `Model/MultiscaleBlocks.lean` (grid) read it -/
theorem window_eq (A : Arr Val) (g : Multiscale.Grid Val) (w i j : Nat)
    (h : ∀ dr dc, dr < w → dc < w → A (i + dr) (j + dc) = g.get (i + dr) (j + dc)) :
    Filter.window A w i j = windowAt g w i j := by
  unfold Filter.window Filter.cells windowAt
  rw [List.map_flatMap]
  apply List.flatMap_congr
  intro dr hdr
  rw [List.map_map]
  apply List.map_congr_left
  intro dc hdc
  rw [List.mem_range] at hdr hdc
  exact h dr dc hdr hdc

theorem valSub_eq (v : Val) (n : Nat) : valSub v n = addRat v (-(n : Rat)) := by
  cases v <;> simp [valSub, addRat, Val.map, sub_eq_add_neg]

theorem valAdd_eq (v : Val) (n : Nat) : valAdd v n = addRat v (n : Rat) := by
  cases v <;> simp [valAdd, addRat, Val.map]

theorem band_cell (disp : Multiscale.Grid Val) (flags : Multiscale.Grid Nat) (w marge : Nat) (umin umax : Rat) (isMin : Bool)
    (A : Arr Val) (hA : ∀ r c, r < disp.rows → c < disp.cols → A r c = disp.get r c)
    (hodd : w % 2 = 1) (hrows : w ≤ disp.rows) (hcols : w ≤ disp.cols) (r c : Nat) (hr : r < disp.rows) (hc : c < disp.cols) :
    (if (maskedArr (fun r c => flags.get r c) A r c).isNan = true then (if isMin then pyInt umin else pyInt umax)
     else Blocks.blocked ((Generated.Blocks.multiscaleRange w).plan (disp.rows - w + 1) (disp.cols - w + 1) [disp.rows, disp.cols])
        (windowKernel (fun vs => if isMin then valSub (nanMin vs) marge else valAdd (nanMax vs) marge) w
          (maskedArr (fun r c => flags.get r c) A))
        (fun _ _ => if isMin then pyInt umin else pyInt umax) r c)
    = coarseCell disp flags w marge umin umax r c isMin := by
  have hoff := source_multiscaleRange_offsets w hodd
  rw [← rangeBand_cell (Generated.Blocks.multiscaleRange w) disp flags w marge umin umax isMin hoff.1 hoff.2.1 hodd hrows hcols r c]
  have hM : ∀ r c, r < disp.rows → c < disp.cols →
      maskedArr (fun r c => flags.get r c) A r c = (maskInvalid disp flags).get r c := by
    intro r c hr hc
    rw [maskInvalid_get _ _ _ _ hr hc]
    simp [maskedArr, maskedCell, hA r c hr hc]
  rw [hM r c hr hc]
  simp only [pyInt]
  split
  · rfl
  · rw [Blocks.blocked_eq_direct, Blocks.blocked_eq_direct]
    simp only [Blocks.direct, Blocks.Split.plan]
    simp only [hoff.1, hoff.2.1]
    by_cases hin : (w - 1) / 2 ≤ r ∧ r < (w - 1) / 2 + (disp.rows - w + 1) ∧ (w - 1) / 2 ≤ c
        ∧ c < (w - 1) / 2 + (disp.cols - w + 1)
    · rw [if_pos hin, if_pos hin]
      simp only [windowKernel, rangeKernel]
      rw [window_eq _ (maskInvalid disp flags)]
      · cases isMin <;> simp [valSub_eq, valAdd_eq]
      · intro dr dc hdr hdc
        apply hM <;> omega
    · rw [if_neg hin, if_neg hin]

/-! ### `disparity_range` -/

/-- the hypothesis on the library function: for the pinned keyword arguments `order=0, mode="nearest"`, `zoom` copies
    into output sample `(i, j)` the input sample `(zoomIndex ny f i, zoomIndex nx f j)` -/
def ZoomIsNearest (z : ZoomFn) : Prop := ∀ ny nx f a, z zoomPinned ny nx f a = zoomNearest ny nx f a

/-- **`disparity_range` regenerated = the model's per-pixel rule composed with the `zoom` parent map.**  For every coarse
    level (`disp`, `flags` of any size), odd window that fits, marge, scale factor `f ≥ 1`, the four hoisted scalars
    (`np.nanmin(disp_min)` is the user minimum, `np.nanmax(disp_max)` the user maximum; the other two are not used by the
    source), every store and every array of it holding the disparity map, and every library function `zoom` that, for
    the pinned arguments, copies the `zoomIndex` parent: cell `(i, j)` of the two returned maps (shape
    `disparityRangeShape`) is the model's `coarseCell` at the parent `(zoomIndex rows f i, zoomIndex cols f j)` — window
    min − marge / max + marge over the valid window pixels, `int(user)` bound on invalid or border pixels — and no array
    that existed before the call is written (the disparity map in particular). -/
theorem disparityRange_generated (disp : Multiscale.Grid Val) (flags : Multiscale.Grid Nat) (w marge f : Nat)
    (nminMin nmaxMin nminMax nmaxMax : Rat) (z : ZoomFn) (dm : Nat) (s0 : Store Val)
    (hd : dm < s0.next) (hA : ∀ r c, r < disp.rows → c < disp.cols → s0.arr dm r c = disp.get r c)
    (hodd : w % 2 = 1) (hrows : w ≤ disp.rows) (hcols : w ≤ disp.cols) (hf : 1 ≤ f) (hz : ZoomIsNearest z) :
    (∀ i j, i < (Generated.KernelsMultiscale.disparityRangeShape f disp.rows disp.cols).1 →
        j < (Generated.KernelsMultiscale.disparityRangeShape f disp.rows disp.cols).2 →
      (Generated.KernelsMultiscale.disparityRange w marge f disp.rows disp.cols (fun r c => flags.get r c)
          nminMin nmaxMin nminMax nmaxMax z dm s0).1.arr
        (Generated.KernelsMultiscale.disparityRange w marge f disp.rows disp.cols (fun r c => flags.get r c)
          nminMin nmaxMin nminMax nmaxMax z dm s0).2.1 i j
        = coarseCell disp flags w marge nminMin nmaxMax (zoomIndex disp.rows f i) (zoomIndex disp.cols f j) true
      ∧ (Generated.KernelsMultiscale.disparityRange w marge f disp.rows disp.cols (fun r c => flags.get r c)
          nminMin nmaxMin nminMax nmaxMax z dm s0).1.arr
        (Generated.KernelsMultiscale.disparityRange w marge f disp.rows disp.cols (fun r c => flags.get r c)
          nminMin nmaxMin nminMax nmaxMax z dm s0).2.2 i j
        = coarseCell disp flags w marge nminMin nmaxMax (zoomIndex disp.rows f i) (zoomIndex disp.cols f j) false)
    ∧ ∀ k, k < s0.next →
      (Generated.KernelsMultiscale.disparityRange w marge f disp.rows disp.cols (fun r c => flags.get r c)
          nminMin nmaxMin nminMax nmaxMax z dm s0).1.arr k = s0.arr k := by
  have hR : 0 < disp.rows := by omega
  have hC : 0 < disp.cols := by omega
  have hzp : ∀ ny nx f a, z { order := 0, mode := "nearest" } ny nx f a = zoomNearest ny nx f a := hz
  refine ⟨?_, ?_⟩
  · intro i j hi hj
    have hiz : i < f * disp.rows := by
      unfold Generated.KernelsMultiscale.disparityRangeShape at hi
      by_cases h1 : f = 1
      · subst h1; simpa using hi
      · simpa [h1] using hi
    have hjz : j < f * disp.cols := by
      unfold Generated.KernelsMultiscale.disparityRangeShape at hj
      by_cases h1 : f = 1
      · subst h1; simpa using hj
      · simpa [h1] using hj
    have hr := zoomIndex_lt disp.rows f i hR hf hiz
    have hc := zoomIndex_lt disp.cols f j hC hf hjz
    rw [← band_cell disp flags w marge nminMin nmaxMax true (s0.arr dm) hA hodd hrows hcols _ _ hr hc,
      ← band_cell disp flags w marge nminMin nmaxMax false (s0.arr dm) hA hodd hrows hcols _ _ hr hc]
    unfold Generated.KernelsMultiscale.disparityRange
    by_cases h1 : f = 1
    · subst h1
      rw [zoomIndex_one disp.rows i (by omega), zoomIndex_one disp.cols j (by omega)]
      constructor <;>
      simp (disch := omega) only [if_pos, Store.full, Store.maskFill, alloc_snd, alloc_next, mi_snd, mi_next, blockedSt2_next, blockedSt2_eq,
        set_next, mi_arr, alloc_arr, set_arr, if_true, if_false, ↓reduceIte, if_neg, View.rows, View.cols, maskOf, Bool.false_eq_true]
    · constructor <;>
      (simp (disch := omega) only [if_neg, if_pos, Store.zoom, alloc_arr, alloc_snd, alloc_next, hzp, zoomNearest, ↓reduceIte, blockedSt2_next, Store.maskFill, set_next, mi_next, mi_snd, Store.full]
       simp (disch := omega) only [if_pos, Store.full, Store.maskFill, alloc_snd, alloc_next, mi_snd, mi_next, blockedSt2_next, blockedSt2_eq,
        set_next, mi_arr, alloc_arr, set_arr, if_true, if_false, ↓reduceIte, if_neg, View.rows, View.cols, maskOf,
        Bool.false_eq_true])
  · intro k hk
    unfold Generated.KernelsMultiscale.disparityRange
    by_cases h1 : f = 1
    · simp (disch := omega) only [if_pos, Store.full, Store.maskFill, alloc_snd, alloc_next, mi_snd, mi_next, blockedSt2_next, blockedSt2_eq,
        set_next, mi_arr, alloc_arr, set_arr, if_true, if_false, ↓reduceIte, if_neg, View.rows, View.cols, maskOf, Bool.false_eq_true]
    · simp (disch := omega) only [if_pos, Store.full, Store.maskFill, Store.zoom, alloc_snd, alloc_next, mi_snd, mi_next, blockedSt2_next,
        blockedSt2_eq, set_next, mi_arr, alloc_arr, set_arr, if_true, if_false, ↓reduceIte, if_neg, View.rows, View.cols,
        maskOf, Bool.false_eq_true]

/-! ### the grids of the next level -/

theorem upsampleCrop_eq_tab (R C f fr fc : Nat) (h : Nat → Nat → Val) (hf : 1 ≤ f) (hR : 0 < R) :
    upsampleCrop (tab R C h) f fr fc
      = tab (min fr (if f = 1 then R else f * R)) (min fc (if f = 1 then C else f * C))
          fun i j => (h (zoomIndex R f i) (zoomIndex C f j)).map (· * (f : Rat)) := by
  unfold upsampleCrop
  by_cases h1 : f = 1
  · subst h1
    simp only [if_true, rows_tab, cols_tab R C h hR]
    apply List.map_congr_left
    intro i hi
    apply List.map_congr_left
    intro j hj
    rw [List.mem_range] at hi hj
    beta_reduce
    rw [get_tab R C h i j (by omega) (by omega), zoomIndex_one R i (by omega), zoomIndex_one C j (by omega)]
  · have hfR : 0 < f * R := Nat.mul_pos (by omega) hR
    simp only [if_neg h1, zoom0_tab R C f h hR, rows_tab, cols_tab (f * R) (f * C) _ hfR]
    apply List.map_congr_left
    intro i hi
    apply List.map_congr_left
    intro j hj
    rw [List.mem_range] at hi hj
    have hC : 0 < C := by
      rcases Nat.eq_zero_or_pos C with h0 | h0
      · subst h0; omega
      · exact h0
    rw [get_tab (f * R) (f * C) _ i j (by omega) (by omega),
      get_tab R C h _ _ (zoomIndex_lt R f i hR hf (by omega)) (zoomIndex_lt C f j hC hf (by omega))]

/-- what `run_multiscale`, `matching_cost_prepare` and `cv_masked` do with a returned map of shape `sh` (hand model,
    compared on every run): multiplication by the factor, crop to the finer image -/
def cropMul (sh : Nat × Nat) (a : Arr Val) (f fineRows fineCols : Nat) : Multiscale.Grid Val :=
  tab (min fineRows sh.1) (min fineCols sh.2) fun i j => (a i j).map (· * (f : Rat))

/-- the grids the next level searches, computed with the GENERATED `disparity_range` -/
def generatedNextLevel (disp : Multiscale.Grid Val) (flags : Multiscale.Grid Nat) (w marge f : Nat)
    (userMin nmaxMin nminMax userMax : Rat) (z : ZoomFn) (dm : Nat) (s0 : Store Val) (fineRows fineCols : Nat) :
    Multiscale.Grid Val × Multiscale.Grid Val :=
  let R := Generated.KernelsMultiscale.disparityRange w marge f disp.rows disp.cols (fun r c => flags.get r c)
    userMin nmaxMin nminMax userMax z dm s0
  let sh := Generated.KernelsMultiscale.disparityRangeShape f disp.rows disp.cols
  (cropMul sh (R.1.arr R.2.1) f fineRows fineCols, cropMul sh (R.1.arr R.2.2) f fineRows fineCols)

/-- **The next level's grids computed with the generated `disparity_range` are the model's `nextLevelGrids`** — for every
    coarse level, odd window that fits, marge, factor `f ≥ 1`, user interval, finer size, store, and `zoom` that copies the
    `zoomIndex` parent for the pinned arguments. -/
theorem generatedNextLevel_eq (disp : Multiscale.Grid Val) (flags : Multiscale.Grid Nat) (w marge f : Nat)
    (userMin nmaxMin nminMax userMax : Rat) (z : ZoomFn) (dm : Nat) (s0 : Store Val) (fineRows fineCols : Nat)
    (hd : dm < s0.next) (hA : ∀ r c, r < disp.rows → c < disp.cols → s0.arr dm r c = disp.get r c)
    (hodd : w % 2 = 1) (hrows : w ≤ disp.rows) (hcols : w ≤ disp.cols) (hf : 1 ≤ f) (hz : ZoomIsNearest z) :
    generatedNextLevel disp flags w marge f userMin nmaxMin nminMax userMax z dm s0 fineRows fineCols
      = nextLevelGrids disp flags w marge f userMin userMax fineRows fineCols := by
  have hR : 0 < disp.rows := by omega
  obtain ⟨hcell, _⟩ := disparityRange_generated disp flags w marge f userMin nmaxMin nminMax userMax z dm s0 hd hA hodd
    hrows hcols hf hz
  rw [nextLevelGrids_eq, coarseRanges_eq]
  dsimp only
  rw [upsampleCrop_eq_tab _ _ f fineRows fineCols _ hf hR, upsampleCrop_eq_tab _ _ f fineRows fineCols _ hf hR]
  unfold generatedNextLevel cropMul
  have hsh : Generated.KernelsMultiscale.disparityRangeShape f disp.rows disp.cols
      = (if f = 1 then disp.rows else f * disp.rows, if f = 1 then disp.cols else f * disp.cols) := by
    unfold Generated.KernelsMultiscale.disparityRangeShape
    by_cases h1 : f = 1 <;> simp [h1]
  rw [hsh] at hcell
  simp only [hsh]
  refine Prod.ext ?_ ?_
  · apply List.map_congr_left
    intro i hi
    apply List.map_congr_left
    intro j hj
    rw [List.mem_range] at hi hj
    beta_reduce
    rw [(hcell i j (by omega) (by omega)).1]
  · apply List.map_congr_left
    intro i hi
    apply List.map_congr_left
    intro j hj
    rw [List.mem_range] at hi hj
    beta_reduce
    rw [(hcell i j (by omega) (by omega)).2]

/-! ### the statements of `Properties/C15Grids.lean` about the GENERATED definition -/

section generated
variable (disp : Multiscale.Grid Val) (flags : Multiscale.Grid Nat) (w marge f : Nat)
  (userMin nmaxMin nminMax userMax : Rat) (z : ZoomFn) (dm : Nat) (s0 : Store Val) (fineRows fineCols i j : Nat)
  (hd : dm < s0.next) (hA : ∀ r c, r < disp.rows → c < disp.cols → s0.arr dm r c = disp.get r c)
  (hodd : w % 2 = 1) (hrows : w ≤ disp.rows) (hcols : w ≤ disp.cols) (hf : 1 ≤ f) (hz : ZoomIsNearest z)
  (hi : i < fineRows) (hj : j < fineCols) (hiz : i < f * disp.rows) (hjz : j < f * disp.cols)
include hd hA hodd hrows hcols hf hz hi hj hiz hjz

/-- **Generated `disparity_range` + upsampling + `× f` + crop = specification** at the parent chosen by `zoom` -/
theorem generated_nextLevel_eq_spec
    (hnum : Flags.isInvalid (flags.get (zoomIndex disp.rows f i) (zoomIndex disp.cols f j)) = false →
      (disp.get (zoomIndex disp.rows f i) (zoomIndex disp.cols f j)).isNan = false) :
    ((generatedNextLevel disp flags w marge f userMin nmaxMin nminMax userMax z dm s0 fineRows fineCols).1.get i j,
     (generatedNextLevel disp flags w marge f userMin nmaxMin nminMax userMax z dm s0 fineRows fineCols).2.get i j)
      = specInterval disp flags w marge f userMin userMax (zoomIndex disp.rows f i) (zoomIndex disp.cols f j) := by
  rw [generatedNextLevel_eq disp flags w marge f userMin nmaxMin nminMax userMax z dm s0 fineRows fineCols hd hA hodd hrows
    hcols hf hz]
  exact nextLevelGrids_eq_spec disp flags w marge f userMin userMax fineRows fineCols i j hf hi hj hiz hjz hnum

/-- `finer_interval_rule` about the generated definition: a valid interior parent of disparity `d` gives an interval
    containing `f · [d − marge, d + marge]` -/
theorem generated_fine_interval_contains_parent (d : Rat)
    (hint : interiorB ((w - 1) / 2) disp.rows disp.cols (zoomIndex disp.rows f i) (zoomIndex disp.cols f j) = true)
    (hv : Flags.isInvalid (flags.get (zoomIndex disp.rows f i) (zoomIndex disp.cols f j)) = false)
    (hdv : disp.get (zoomIndex disp.rows f i) (zoomIndex disp.cols f j) = Val.num d) :
    ∃ lo hi',
      (generatedNextLevel disp flags w marge f userMin nmaxMin nminMax userMax z dm s0 fineRows fineCols).1.get i j = Val.num lo
      ∧ (generatedNextLevel disp flags w marge f userMin nmaxMin nminMax userMax z dm s0 fineRows fineCols).2.get i j = Val.num hi'
      ∧ lo ≤ (f : Rat) * (d - marge) ∧ (f : Rat) * (d + marge) ≤ hi' := by
  rw [generatedNextLevel_eq disp flags w marge f userMin nmaxMin nminMax userMax z dm s0 fineRows fineCols hd hA hodd hrows
    hcols hf hz]
  exact fine_interval_contains_parent disp flags w marge f userMin userMax fineRows fineCols i j d hf hi hj hiz hjz hint hv hdv

/-- `invalid_parent_full_interval` about the generated definition -/
theorem generated_fine_interval_user
    (h : interiorB ((w - 1) / 2) disp.rows disp.cols (zoomIndex disp.rows f i) (zoomIndex disp.cols f j) = false
      ∨ Flags.isInvalid (flags.get (zoomIndex disp.rows f i) (zoomIndex disp.cols f j)) = true) :
    (generatedNextLevel disp flags w marge f userMin nmaxMin nminMax userMax z dm s0 fineRows fineCols).1.get i j
        = Val.num ((f : Rat) * ratTrunc userMin)
    ∧ (generatedNextLevel disp flags w marge f userMin nmaxMin nminMax userMax z dm s0 fineRows fineCols).2.get i j
        = Val.num ((f : Rat) * ratTrunc userMax) := by
  rw [generatedNextLevel_eq disp flags w marge f userMin nmaxMin nminMax userMax z dm s0 fineRows fineCols hd hA hodd hrows
    hcols hf hz]
  exact fine_interval_user disp flags w marge f userMin userMax fineRows fineCols i j hf hi hj hiz hjz h

/-- every fine pixel gets `min ≤ max` from the generated definition -/
theorem generated_fine_interval_min_le_max (huser : userMin ≤ userMax)
    (hnum : Flags.isInvalid (flags.get (zoomIndex disp.rows f i) (zoomIndex disp.cols f j)) = false →
      (disp.get (zoomIndex disp.rows f i) (zoomIndex disp.cols f j)).isNan = false) :
    ∃ lo hi',
      (generatedNextLevel disp flags w marge f userMin nmaxMin nminMax userMax z dm s0 fineRows fineCols).1.get i j = Val.num lo
      ∧ (generatedNextLevel disp flags w marge f userMin nmaxMin nminMax userMax z dm s0 fineRows fineCols).2.get i j = Val.num hi'
      ∧ lo ≤ hi' := by
  rw [generatedNextLevel_eq disp flags w marge f userMin nmaxMin nminMax userMax z dm s0 fineRows fineCols hd hA hodd hrows
    hcols hf hz]
  exact fine_interval_min_le_max disp flags w marge f userMin userMax fineRows fineCols i j hf hi hj hiz hjz huser hnum

end generated

/-! ### scalar interval glue of `run_prepare` / `matching_cost_prepare` -/

/-- **`run_prepare`'s interval division, regenerated = model**, for every rational bound and all naturals with a non-zero
    factor: `user / scale_factor ** num_scales` is `Multiscale.prepareBound` and does not raise -/
theorem prepareBound_generated (user : Rat) (f n : Nat) (hf : f ≠ 0) :
    prepareBoundMinAt user f n = PyExpr.PyRes.ok (prepareBound user f n)
    ∧ prepareBoundMaxAt user f n = PyExpr.PyRes.ok (prepareBound user f n) := by
  have hne : ((((f : Nat) : Int) ^ n : Int) : Rat) ≠ 0 := by
    have : ((f : Nat) : Rat) ≠ 0 := by exact_mod_cast hf
    push_cast
    exact pow_ne_zero n this
  constructor
  · unfold prepareBoundMinAt prepareBoundMin prepareBound
    simp only [hne, if_false]
    push_cast
    rfl
  · unfold prepareBoundMaxAt prepareBoundMax prepareBound
    simp only [hne, if_false]
    push_cast
    rfl

theorem prepareBound_raises_iff (user : Rat) (f n : Nat) :
    prepareBoundMinAt user f n = PyExpr.PyRes.zeroDivision ↔ (f = 0 ∧ n ≠ 0) := by
  unfold prepareBoundMinAt prepareBoundMin
  constructor
  · intro h
    by_contra hc
    have hne : ((((f : Nat) : Int) ^ n : Int) : Rat) ≠ 0 := by
      push_cast
      by_cases h0 : f = 0
      · have : n = 0 := by
          by_contra hn
          exact hc ⟨h0, hn⟩
        subst this
        simp
      · exact pow_ne_zero n (by exact_mod_cast h0)
    simp [hne] at h
    exact hc h
  · rintro ⟨h0, hn⟩
    subst h0
    simp [hn]

theorem mcPrepare_generated (bound : Rat) (f : Nat) :
    mcPrepareMin bound (f : Int) = bound * (f : Rat) ∧ mcPrepareMax bound (f : Int) = bound * (f : Rat)
    ∧ mcPrepareRightMin bound (f : Int) = bound * (f : Rat) ∧ mcPrepareRightMax bound (f : Int) = bound * (f : Rat) := by
  refine ⟨?_, ?_, ?_, ?_⟩ <;> simp only [mcPrepareMin, mcPrepareMax, mcPrepareRightMin, mcPrepareRightMax] <;> push_cast <;> ring

/-- the generated glue chained: `run_prepare` then `k` times `matching_cost_prepare` is the model's `boundAfter` -/
theorem boundAfter_generated (user : Rat) (f n k : Nat) :
    boundAfter user f n (k + 1) = mcPrepareMin (boundAfter user f n k) (f : Int)
    ∧ boundAfter user f n (k + 1) = mcPrepareMax (boundAfter user f n k) (f : Int)
    ∧ boundAfter user f n 0 = prepareBound user f n := by
  refine ⟨?_, ?_, ?_⟩
  · simp only [mcPrepareMin, boundAfter]
    push_cast
    ring
  · simp only [mcPrepareMax, boundAfter]
    push_cast
    ring
  · simp [boundAfter]

theorem prepareRight_generated (dmin dmax : Rat) :
    prepareRightMin dmin dmax = -dmax ∧ prepareRightMax dmin dmax = -dmin := ⟨rfl, rfl⟩


/-! ### non-vacuity -/

/-- the hypotheses of `disparityRange_generated` hold for the 4 × 5 demo level of `C15Grids`, window 3, factor 2, the
    store holding that map, and the model's own reading of `zoom` -/
def demoStore : Store Val := Store.init [fun r c => demoDisp.get r c] (fun _ _ => Val.nan)

example : (0 : Nat) < demoStore.next ∧ 3 % 2 = 1 ∧ 3 ≤ demoDisp.rows ∧ 3 ≤ demoDisp.cols ∧ 1 ≤ 2 := by decide
example : ∀ r c, r < demoDisp.rows → c < demoDisp.cols → demoStore.arr 0 r c = demoDisp.get r c := fun _ _ _ _ => rfl
example : ZoomIsNearest Generated.KernelsMultiscale.goldenZoom := by
  intro ny nx f a
  simp [Generated.KernelsMultiscale.goldenZoom]
/-- a `zoom` that does something else for other keyword arguments still satisfies the hypothesis: nothing is assumed
    about `zoom(…, mode="constant")` (scipy's default), so a source that drops `mode="nearest"` is not covered -/
example : Generated.KernelsMultiscale.goldenZoom { order := 0, mode := "constant" } 1 1 2 (fun _ _ => Val.num 1) 0 0 = Val.nan := by
  decide +kernel
/-- and the generated program evaluates to the model's grids there (fine pixel (4, 3): parent (2, 1), 2·[−1, 8]) -/
example : (generatedNextLevel demoDisp demoFlags 3 1 2 (-7 / 2) (-3) 3 (7 / 2) Generated.KernelsMultiscale.goldenZoom 0 demoStore
    7 9).1.get 4 3 = .num (-2) := by decide +kernel

end Pandora.C15Kernels
