/-
  C11 — the four integral-image kernels of cbca REGENERATED from the Python source (`Generated/KernelsCbcaSteps.lean`,
  written by translator/gen_kernels_cbca_steps.py with translator/pyscan.py: T14, array-state kernels) are equal, for
  every size, every cost plane, every arm array and every cell, to the hand model `Cbca.step1/s1At`, `step2`, `sum2`,
  `step3/s3At`, `step4`, `sum4` of `Model/Cbca.lean` — and never read or write outside an array (`Res.ok`).
-/
import PandoraModel.Model.Cbca
import PandoraModel.Model.PyArrays
import PandoraModel.Generated.KernelsCbcaSteps
import Mathlib.Tactic.Linarith
import Mathlib.Tactic.Ring

set_option linter.unusedSimpArgs false
set_option linter.unusedVariables false
set_option linter.unreachableTactic false
set_option linter.unusedTactic false
set_option linter.unnecessarySeqFocus false

namespace Pandora.C11KernelsSteps
open Pandora Pandora.Cbca Pandora.PyLoops Pandora.PyArrays Pandora.PyExpr

macro "triv" : tactic => `(tactic| first | trivial | rfl | simp)

/-- closes what is left of a value goal: commuted sums, commuted `min` (`min(right, left)` written the other way round) -/
macro "arith" : tactic => `(tactic| first | ring1 | (simp only [min_comm]; ring1) | (push_cast; simp only [min_comm]; ring1))

/-! ## Loops: invariants -/

/-- A loop that never leaves by `break` and whose body carries `P t` to `P (t + 1)` ends in `P n`. -/
theorem forLoop_inv {σ : Type} (body : Int → σ → Bool × σ) (s a : Int) (P : Nat → σ → Prop) :
    ∀ (n k : Nat) (st : σ), P k st →
      (∀ t st, k ≤ t → t < k + n → P t st →
        (body (a + s * t) st).1 = false ∧ P (t + 1) (body (a + s * t) st).2) →
      P (k + n) (forLoop body s n (a + s * k) st) := by
  intro n
  induction n with
  | zero => intro k st h _; simpa [forLoop] using h
  | succ n ih =>
    intro k st h hs
    have hk := hs k st (Nat.le_refl k) (by omega) h
    simp only [forLoop, hk.1, Bool.false_eq_true, if_false]
    have := ih (k + 1) (body (a + s * k) st).2 hk.2 (fun t st h1 h2 => hs t st (by omega) (by omega))
    rw [show a + s * ((k + 1 : Nat) : Int) = a + s * k + s by push_cast; ring] at this
    rw [show k + (n + 1) = k + 1 + n by omega]
    exact this

theorem forRange_inv {σ : Type} (P : Nat → σ → Prop) (a b s : Int) (n : Nat) (body : Int → σ → Bool × σ) (st : σ)
    (hn : rangeLen a b s = n) (h0 : P 0 st)
    (hs : ∀ t st, t < n → P t st → (body (a + s * t) st).1 = false ∧ P (t + 1) (body (a + s * t) st).2) :
    P n (forRange a b s body st) := by
  have := forLoop_inv body s a P n 0 st h0 (fun t st _ h2 => hs t st (by omega))
  simpa [forRange, hn] using this

theorem rangeLen_one (a b : Int) (n : Nat) (h : b - a = n) : rangeLen a b 1 = n := by
  simp [rangeLen]; omega

/-! ## Arrays -/

/-- a model array (`Nat` indices) as the index function a kernel is called with -/
def embV (f : Nat → Nat → Val) : Int → Int → Val := fun i j => f i.toNat j.toNat

theorem wrap_nat (n : Int) (i : Nat) : wrap n (i : Int) = i := by
  simp [wrap]

theorem inb_nat {n : Int} {i : Nat} (h : (i : Int) < n) : inb n (i : Int) = true := by
  simp [inb, wrap_nat, h]

theorem inb2_nat {n0 n1 : Int} {i j : Nat} (hi : (i : Int) < n0) (hj : (j : Int) < n1) :
    inb2 n0 n1 (i : Int) (j : Int) = true := by
  simp [inb2, inb_nat hi, inb_nat hj]

theorem get2_nat {α : Type} (a : Int → Int → α) (n0 n1 : Int) (i j : Nat) : get2 a n0 n1 (i : Int) (j : Int) = a i j := by
  simp [get2, wrap_nat]

theorem get2_embV (f : Nat → Nat → Val) (n0 n1 : Int) (i j : Nat) : get2 (embV f) n0 n1 (i : Int) (j : Int) = f i j := by
  simp [get2, wrap_nat, embV]

/-- reading a cell after a store: the stored value at the stored (non-negative) index, the old cell elsewhere -/
theorem set2_nat {α : Type} (a : Int → Int → α) (n0 n1 : Int) (i j i' j' : Nat) (v : α) :
    set2 a n0 n1 (i : Int) (j : Int) v (i' : Int) (j' : Int) = if i' = i ∧ j' = j then v else a i' j' := by
  simp only [set2, wrap_nat]
  by_cases h : i' = i ∧ j' = j
  · simp [h]
  · have : ¬ ((i' : Int) = i ∧ (j' : Int) = j) := by
      intro ⟨h1, h2⟩; exact h ⟨by exact_mod_cast h1, by exact_mod_cast h2⟩
    simp [h, this]

/-! ## `cbca_step_1`: the row scan -/

/-- `step1[y, k - 1]` as the scan sees it: the zero sentinel column for `k = 0` -/
def prev1 (row : Nat → Val) (k : Nat) : Rat := if k = 0 then 0 else step1 row (k - 1)

theorem step1_rec (row : Nat → Val) (k : Nat) : step1 row k = prev1 row k + c0 (row k) := by
  cases k <;> simp [step1, prev1]

/-- the state of `step1` when rows `< c` are done and the cells `< r` of row `c` are written: the other cells (the
    sentinel column `W` among them) still hold the `0` of `np.zeros` -/
def Done1 (W : Nat) (cv : Nat → Nat → Val) (c r : Nat) (a : Int → Int → Val) : Prop :=
  ∀ (i j : Nat), j ≤ W →
    a i j = if (i < c ∨ (i = c ∧ j < r)) ∧ j < W then Val.num (step1 (cv i) j) else Val.num 0

theorem done1_prev {W : Nat} {cv : Nat → Nat → Val} {c r : Nat} {a : Int → Int → Val} (n0 : Int)
    (hd : Done1 W cv c r a) (hr : r < W) :
    get2 a n0 ((W : Int) + 1) (c : Int) ((r : Int) - 1) = Val.num (prev1 (cv c) r) := by
  cases r with
  | zero =>
    have := hd c W (Nat.le_refl W)
    simp only [get2, wrap_nat, prev1]
    simp [wrap, this]
  | succ k =>
    have := hd c k (by omega)
    have hk : ((k + 1 : Nat) : Int) - 1 = (k : Int) := by omega
    rw [hk, get2_nat, this]
    have : (c < c ∨ c = c ∧ k < k + 1) ∧ k < W := ⟨Or.inr ⟨rfl, by omega⟩, by omega⟩
    simp [this, prev1]

theorem done1_set {W : Nat} {cv : Nat → Nat → Val} {c r : Nat} {a : Int → Int → Val} (n0 : Int)
    (hd : Done1 W cv c r a) (hr : r < W) (v : Val) (hv : v = Val.num (step1 (cv c) r)) :
    Done1 W cv c (r + 1) (set2 a n0 ((W : Int) + 1) (c : Int) (r : Int) v) := by
  intro i j hj
  rw [set2_nat, hd i j hj]
  by_cases h : i = c ∧ j = r
  · obtain ⟨rfl, rfl⟩ := h
    have : (i < i ∨ i = i ∧ j < j + 1) ∧ j < W := ⟨Or.inr ⟨rfl, by omega⟩, hr⟩
    simp [this, hv]
  · have e : ((i < c ∨ i = c ∧ j < r + 1) ∧ j < W) ↔ ((i < c ∨ i = c ∧ j < r) ∧ j < W) := by
      constructor <;> (intro ⟨h1, h2⟩; refine ⟨?_, h2⟩; rcases h1 with h1 | ⟨h1, h3⟩)
      · exact Or.inl h1
      · exact Or.inr ⟨h1, by by_contra hc; exact h ⟨h1, by omega⟩⟩
      · exact Or.inl h1
      · exact Or.inr ⟨h1, by omega⟩
    simp only [h, if_false, e]

theorem done1_next {W : Nat} {cv : Nat → Nat → Val} {c : Nat} {a : Int → Int → Val} (hd : Done1 W cv c W a) :
    Done1 W cv (c + 1) 0 a := by
  intro i j hj
  rw [hd i j hj]
  have e : ((i < c ∨ i = c ∧ j < W) ∧ j < W) ↔ ((i < c + 1 ∨ i = c + 1 ∧ j < 0) ∧ j < W) := by
    constructor <;> (intro ⟨h1, h2⟩; refine ⟨?_, h2⟩; rcases h1 with h1 | ⟨h1, h3⟩) <;> first | (left; omega) | omega
  simp only [e]

/-- reading the finished array with a Python index (negative: from the end; `-1` and `W` are the sentinel) -/
theorem done1_read {W : Nat} {cv : Nat → Nat → Val} {H : Nat} {a : Int → Int → Val} (hd : Done1 W cv H 0 a)
    (y : Nat) (hy : y < H) (j : Int) (h0 : -((W : Int) + 1) ≤ j) (h1 : j < (W : Int) + 1) :
    get2 a (H : Int) ((W : Int) + 1) (y : Int) j = Val.num (s1At W (cv y) j) := by
  simp only [get2, wrap_nat, s1At]
  have hk : ∃ k : Nat, wrap ((W : Int) + 1) j = (k : Int) ∧ k ≤ W := by
    refine ⟨(wrap ((W : Int) + 1) j).toNat, ?_, ?_⟩ <;> (simp only [wrap]; split <;> omega)
  obtain ⟨k, hk, hkW⟩ := hk
  rw [hk, hd y k hkW]
  have hk' : (if j < 0 then j + ((W : Int) + 1) else j) = (k : Int) := by simpa [wrap] using hk
  simp only [hk', Int.toNat_natCast]
  by_cases hlt : k < W
  · have : (y < H ∨ y = H ∧ k < 0) ∧ k < W := ⟨Or.inl hy, hlt⟩
    have h2 : (0 : Int) ≤ (k : Int) ∧ (k : Int) < (W : Int) := ⟨by omega, by omega⟩
    simp [this, h2, hy]
  · have : ¬ ((y < H ∨ y = H ∧ k < 0) ∧ k < W) := fun h => hlt h.2
    have h2 : ¬ ((0 : Int) ≤ (k : Int) ∧ (k : Int) < (W : Int)) := by omega
    simp [this, h2, hlt]

open Pandora.Generated.KernelsCbcaSteps

/-- **`cbca_step_1` as the source defines it today is the hand model's row scan.**  For every size and every cost plane
    (NaN costs included) the generated function returns (`Res.ok`: no read or store outside an array) an array of shape
    `(H, W + 1)` whose cell `[y, j]`, read with a Python index `j ∈ [-(W+1), W]`, is `s1At W (cv y) j`: the running sum
    `step1 (cv y) j` of the non-NaN costs for `0 ≤ j < W`, and `0` in the sentinel column reached by `j = W` or `j = -1`. -/
theorem cbcaStep1_generated_eq (H W : Nat) (cv : Nat → Nat → Val) :
    ∃ r, cbcaStep1 (embV cv) H W = .ok r ∧ r.n0 = H ∧ r.n1 = (W : Int) + 1 ∧
      ∀ (y : Nat) (j : Int), y < H → -((W : Int) + 1) ≤ j → j < (W : Int) + 1 →
        get2 r.get r.n0 r.n1 y j = Val.num (s1At W (cv y) j) := by
  have eW : (1 : Int) + (W : Int) = (W : Int) + 1 := by ring  -- an extent written `1 + n_row_`
  simp only [cbcaStep1, eW]
  generalize hL : forRange (0 : Int) (H : Int) 1 _ _ = L
  have key : L.1 = true ∧ Done1 W cv H 0 L.2 := by
    rw [← hL]
    refine forRange_inv (fun c (st : Bool × (Int → Int → Val)) => st.1 = true ∧ Done1 W cv c 0 st.2) 0 (H : Int) 1 H _ _
      (rangeLen_one _ _ _ (by omega))
      ⟨rfl, fun i j _ => by simp [zeros2]⟩ ?_
    rintro c ⟨ok, a⟩ hc ⟨hok, hd⟩
    simp only [] at hok hd
    subst hok
    simp only [Int.zero_add, Int.one_mul]
    generalize hM : forRange (0 : Int) (W : Int) 1 _ _ = M
    have keyM : M.1 = true ∧ Done1 W cv c W M.2 := by
      rw [← hM]
      refine forRange_inv (fun r (st : Bool × (Int → Int → Val)) => st.1 = true ∧ Done1 W cv c r st.2) 0 (W : Int) 1 W _ _
        (rangeLen_one _ _ _ (by omega))
        ⟨rfl, hd⟩ ?_
      rintro r ⟨ok, a⟩ hr ⟨hok, hd⟩
      simp only [] at hok hd
      subst hok
      have hcH : (c : Int) < (H : Int) := by exact_mod_cast hc
      have hrW : (r : Int) < (W : Int) := by exact_mod_cast hr
      have hrW1 : (r : Int) < (W : Int) + 1 := by omega
      have hprev : inb2 (H : Int) ((W : Int) + 1) (c : Int) ((r : Int) - 1) = true := by
        simp only [inb2, inb_nat hcH, inb, wrap]; split <;> simp <;> omega
      simp only [Int.zero_add, Int.one_mul, get2_embV, inb2_nat hcH hrW, inb2_nat hcH hrW1, hprev, done1_prev _ hd hr,
        Bool.and_true, Bool.true_and]
      refine ⟨by triv, ?_⟩
      cases hv : cv c r with
      | nan =>
        simp only [Val.isNan, Bool.not_true, Bool.false_eq_true, if_false]
        exact ⟨by triv, done1_set _ hd hr _ (by rw [step1_rec, hv]; simp [c0, Val.get] <;> arith)⟩
      | num q =>
        simp only [Val.isNan, Bool.not_false, if_true]
        exact ⟨by triv, done1_set _ hd hr _ (by rw [step1_rec, hv]; simp [c0, Val.get, vadd, Val.map2] <;> arith)⟩
    exact ⟨by triv, by simp [keyM.1], done1_next keyM.2⟩
  refine ⟨⟨L.2, H, (W : Int) + 1⟩, ?_, rfl, rfl, ?_⟩
  · have h0 : ((H : Int) ≥ 0) ∧ ((W : Int) + 1 ≥ 0) := ⟨by omega, by omega⟩
    simp [key.1, h0]
  · intro y j hy h0 h1
    exact done1_read key.2 y hy j h0 h1

/-! ## `cbca_step_3`: the column scan -/

/-- the output of step 2 as the array `cbca_step_3` is called with -/
def embS2 (P : Plane) : Int → Int → Val := fun i j => Val.num (step2 P i.toNat j.toNat)

theorem embS2_nat (P : Plane) (i j : Nat) : embS2 P (i : Int) (j : Int) = Val.num (step2 P i j) := by
  simp [embS2]

theorem get2_embS2 (P : Plane) (n0 n1 : Int) (i j : Nat) : get2 (embS2 P) n0 n1 (i : Int) (j : Int) = Val.num (step2 P i j) := by
  simp [get2, wrap_nat, embS2]

/-- the state of `step3` when rows `< c` are done and the cells `< r` of row `c` are written; the sentinel row `H` and
    the rows not reached yet hold the `0` of `np.zeros` -/
def Done3 (P : Plane) (c r : Nat) (a : Int → Int → Val) : Prop :=
  ∀ (i j : Nat), i ≤ P.H → j < P.W →
    a i j = if (i < c ∨ (i = c ∧ j < r)) ∧ i < P.H then Val.num (step3 P j i) else Val.num 0

theorem done3_set {P : Plane} {c r : Nat} {a : Int → Int → Val} (n0 n1 : Int)
    (hd : Done3 P c r a) (hc : c < P.H) (v : Val) (hv : v = Val.num (step3 P r c)) :
    Done3 P c (r + 1) (set2 a n0 n1 (c : Int) (r : Int) v) := by
  intro i j hi hj
  rw [set2_nat, hd i j hi hj]
  by_cases h : i = c ∧ j = r
  · obtain ⟨rfl, rfl⟩ := h
    have : (i < i ∨ i = i ∧ j < j + 1) ∧ i < P.H := ⟨Or.inr ⟨rfl, by omega⟩, hc⟩
    simp [this, hv]
  · have e : ((i < c ∨ i = c ∧ j < r + 1) ∧ i < P.H) ↔ ((i < c ∨ i = c ∧ j < r) ∧ i < P.H) := by
      constructor <;> (intro ⟨h1, h2⟩; refine ⟨?_, h2⟩; rcases h1 with h1 | ⟨h1, h3⟩)
      · exact Or.inl h1
      · exact Or.inr ⟨h1, by by_contra hc; exact h ⟨h1, by omega⟩⟩
      · exact Or.inl h1
      · exact Or.inr ⟨h1, by omega⟩
    simp only [h, if_false, e]

theorem done3_next {P : Plane} {c : Nat} {a : Int → Int → Val} (hd : Done3 P c P.W a) : Done3 P (c + 1) 0 a := by
  intro i j hi hj
  rw [hd i j hi hj]
  have e : ((i < c ∨ i = c ∧ j < P.W) ∧ i < P.H) ↔ ((i < c + 1 ∨ i = c + 1 ∧ j < 0) ∧ i < P.H) := by
    constructor <;> (intro ⟨h1, h2⟩; refine ⟨?_, h2⟩; rcases h1 with h1 | ⟨h1, h3⟩) <;> first | (left; omega) | omega
  simp only [e]

/-- reading the finished array with a Python row index (negative: from the end; `-1` and `H` are the sentinel row) -/
theorem done3_read {P : Plane} {a : Int → Int → Val} (hd : Done3 P P.H 0 a)
    (x : Nat) (hx : x < P.W) (i : Int) (h0 : -((P.H : Int) + 1) ≤ i) (h1 : i < (P.H : Int) + 1) :
    get2 a ((P.H : Int) + 1) (P.W : Int) i (x : Int) = Val.num (s3At P x i) := by
  simp only [get2, wrap_nat, s3At]
  have hk : ∃ k : Nat, wrap ((P.H : Int) + 1) i = (k : Int) ∧ k ≤ P.H := by
    refine ⟨(wrap ((P.H : Int) + 1) i).toNat, ?_, ?_⟩ <;> (simp only [wrap]; split <;> omega)
  obtain ⟨k, hk, hkH⟩ := hk
  rw [hk, hd k x hkH hx]
  have hk' : (if i < 0 then i + ((P.H : Int) + 1) else i) = (k : Int) := by simpa [wrap] using hk
  simp only [hk', Int.toNat_natCast]
  by_cases hlt : k < P.H
  · have h2 : (0 : Int) ≤ (k : Int) ∧ (k : Int) < (P.H : Int) := ⟨by omega, by omega⟩
    simp [h2, hlt]
  · have h2 : ¬ ((0 : Int) ≤ (k : Int) ∧ (k : Int) < (P.H : Int)) := by omega
    simp [h2, hlt]

/-- **`cbca_step_3` as the source defines it today is the hand model's column scan.**  Called with any array whose cells
    inside `H × W` are the model's `step2` (`P.H ≥ 1` rows: the function reads `step2[0, :]`), the generated function returns (`Res.ok`) an array of shape
    `(H + 1, W)` whose cell `[i, x]`, read with a Python row index `i ∈ [-(H+1), H]`, is `s3At P x i`: the running column
    sum `step3 P x i` for `0 ≤ i < H`, and `0` in the sentinel row reached by `i = H` or `i = -1`. -/
theorem cbcaStep3_generated_eq (P : Plane) (hH : 1 ≤ P.H) (s2 : Int → Int → Val)
    (hs2 : ∀ y x : Nat, y < P.H → x < P.W → s2 y x = Val.num (step2 P y x)) :
    ∃ r, cbcaStep3 s2 P.H P.W = .ok r ∧ r.n0 = (P.H : Int) + 1 ∧ r.n1 = P.W ∧
      ∀ (x : Nat) (i : Int), x < P.W → -((P.H : Int) + 1) ≤ i → i < (P.H : Int) + 1 →
        get2 r.get r.n0 r.n1 i x = Val.num (s3At P x i) := by
  have eH : (1 : Int) + (P.H : Int) = (P.H : Int) + 1 := by ring  -- an extent written `1 + n_col_`
  simp only [cbcaStep3, eH]
  generalize hL : forRange (1 : Int) (P.H : Int) 1 _ _ = L
  have key : L.1 = true ∧ Done3 P P.H 0 L.2 := by
    suffices h : L.1 = true ∧ Done3 P (P.H - 1 + 1) 0 L.2 by rwa [show P.H - 1 + 1 = P.H by omega] at h
    rw [← hL]
    refine forRange_inv (fun t (st : Bool × (Int → Int → Val)) => st.1 = true ∧ Done3 P (t + 1) 0 st.2) 1 (P.H : Int) 1
      (P.H - 1) _ _ (rangeLen_one _ _ _ (by omega)) ?h0 ?hs
    case h0 =>
      refine ⟨rfl, ?_⟩
      intro i j hi hj
      have hj' : (0 : Int) ≤ (j : Int) ∧ (j : Int) < (P.W : Int) := ⟨by omega, by exact_mod_cast hj⟩
      have h00 := hs2 0 j (by omega) hj
      simp only [setRow2, row2, zeros2, wrap]
      by_cases h : i = 0
      · subst h
        have : (0 < 0 + 1 ∨ 0 = 0 + 1 ∧ j < 0) ∧ 0 < P.H := ⟨Or.inl (by omega), by omega⟩
        simp at h00
        simp [hj', this, step3, h00]
      · have h' : ¬ ((i : Int) = 0) := by omega
        have : ¬ ((i < 0 + 1 ∨ i = 0 + 1 ∧ j < 0) ∧ i < P.H) := by omega
        simp [h, h', this]
    case hs =>
      rintro t ⟨ok, a⟩ ht ⟨hok, hd⟩
      simp only [] at hok hd
      subst hok
      have e : (1 : Int) + 1 * (t : Int) = ((t + 1 : Nat) : Int) := by push_cast; ring
      simp only [e]
      generalize hM : forRange (0 : Int) (P.W : Int) 1 _ _ = M
      have keyM : M.1 = true ∧ Done3 P (t + 1) P.W M.2 := by
        rw [← hM]
        refine forRange_inv (fun r (st : Bool × (Int → Int → Val)) => st.1 = true ∧ Done3 P (t + 1) r st.2) 0 (P.W : Int) 1 P.W
          _ _ (rangeLen_one _ _ _ (by omega)) ⟨rfl, hd⟩ ?_
        rintro r ⟨ok, a⟩ hr ⟨hok, hd⟩
        simp only [] at hok hd
        subst hok
        have hcH : ((t + 1 : Nat) : Int) < (P.H : Int) := by omega
        have hcH1 : ((t + 1 : Nat) : Int) < (P.H : Int) + 1 := by omega
        have htH1 : ((t : Nat) : Int) < (P.H : Int) + 1 := by omega
        have hrW : (r : Int) < (P.W : Int) := by exact_mod_cast hr
        have e1 : ((t + 1 : Nat) : Int) - 1 = (t : Int) := by omega
        have hprev := hd t r (by omega) hr
        have : (t < t + 1 ∨ t = t + 1 ∧ r < r) ∧ t < P.H := ⟨Or.inl (by omega), by omega⟩
        rw [if_pos this] at hprev
        have hcell := hs2 (t + 1) r (by omega) hr
        simp only [Int.zero_add, Int.one_mul, e1, get2_nat, hcell, inb2_nat htH1 hrW, inb2_nat hcH hrW, inb2_nat hcH1 hrW,
          hprev, Bool.and_true, Bool.true_and]
        exact ⟨by triv, by triv, done3_set _ _ hd (by omega) _ (by simp [step3, vadd, Val.map2] <;> arith)⟩
      exact ⟨by triv, by simp [keyM.1], done3_next keyM.2⟩
  refine ⟨⟨L.2, (P.H : Int) + 1, P.W⟩, ?_, rfl, rfl, ?_⟩
  · have h0 : ((P.H : Int) + 1 ≥ 0) ∧ ((P.W : Int) ≥ 0) ∧ (0 : Int) < (P.H : Int) := ⟨by omega, by omega, by omega⟩
    simp [key.1, h0, inb, wrap]
    omega
  · intro x i hx h0 h1
    exact done3_read key.2 x hx i h0 h1

/-! ## Steps 2 and 4: stores at an indirect index -/

/-- `cross[y, x, 0..3]` (left, right, top, bottom) as the integer array the kernels are called with -/
def embA (arms : Nat → Nat → Arms) : Int → Int → Int → Int := fun i j k =>
  let a := arms i.toNat j.toNat
  if k = 0 then (a.left : Int) else if k = 1 then (a.right : Int) else if k = 2 then (a.top : Int) else (a.bot : Int)

theorem get3_embA (arms : Nat → Nat → Arms) (n0 n1 : Int) (i j : Nat) :
    get3 (embA arms) n0 n1 4 (i : Int) (j : Int) 0 = ((arms i j).left : Int) ∧
    get3 (embA arms) n0 n1 4 (i : Int) (j : Int) 1 = ((arms i j).right : Int) ∧
    get3 (embA arms) n0 n1 4 (i : Int) (j : Int) 2 = ((arms i j).top : Int) ∧
    get3 (embA arms) n0 n1 4 (i : Int) (j : Int) 3 = ((arms i j).bot : Int) := by
  have w0 : wrap 4 0 = 0 := by simp [wrap]
  have w1 : wrap 4 1 = 1 := by simp [wrap]
  have w2 : wrap 4 2 = 2 := by simp [wrap]
  have w3 : wrap 4 3 = 3 := by simp [wrap]
  simp [get3, wrap_nat, embA, w0, w1, w2, w3]

theorem inb3_arms {n0 n1 : Int} {i j : Nat} (hi : (i : Int) < n0) (hj : (j : Int) < n1) :
    inb3 n0 n1 4 (i : Int) (j : Int) 0 = true ∧ inb3 n0 n1 4 (i : Int) (j : Int) 1 = true ∧
    inb3 n0 n1 4 (i : Int) (j : Int) 2 = true ∧ inb3 n0 n1 4 (i : Int) (j : Int) 3 = true := by
  have k0 : inb 4 0 = true := by simp [inb, wrap]
  have k1 : inb 4 1 = true := by simp [inb, wrap]
  have k2 : inb 4 2 = true := by simp [inb, wrap]
  have k3 : inb 4 3 = true := by simp [inb, wrap]
  simp [inb3, inb_nat hi, inb_nat hj, k0, k1, k2, k3]

theorem imin_nat (a b : Nat) : imin (a : Int) (b : Int) = ((min a b : Nat) : Int) := by
  simp only [imin]; split <;> omega

theorem get1_nat {α : Type} (a : Int → α) (n : Int) (t : Nat) : get1 a n (t : Int) = a t := by
  simp [get1, wrap_nat]

theorem inb_range {n i : Int} (h0 : -n ≤ i) (h1 : i < n) : inb n i = true := by
  simp only [inb, wrap]; split <;> simp <;> omega

theorem get2_set2_same {α : Type} (a : Int → Int → α) (n0 n1 i j : Int) (v : α) :
    get2 (set2 a n0 n1 i j v) n0 n1 i j = v := by
  simp [get2, set2]

theorem set2_same_nat {α : Type} (a : Int → Int → α) (n0 n1 : Int) (i j : Nat) (v : α) :
    set2 a n0 n1 (i : Int) (j : Int) v (i : Int) (j : Int) = v := by
  simp [set2, wrap_nat]

theorem set2_set2 {α : Type} (a : Int → Int → α) (n0 n1 i j : Int) (v w : α) :
    set2 (set2 a n0 n1 i j v) n0 n1 i j w = set2 a n0 n1 i j w := by
  funext i' j'; simp only [set2]; split <;> rfl

/-- how the model's plane is handed to `cbca_step_2` / `cbca_step_4`: `range_col` lists — once each — exactly the
    columns of the left image that have a facing right column at the plane's disparity, `range_col_right` that column
    (`cost_volume_aggregation`: `range_col[valid_index]`, `range_col_right[valid_index].astype(int)`) -/
structure Wired (P : Plane) (n : Nat) (rc rcr : Int → Int) : Prop where
  facing : ∀ t : Nat, t < n → ∃ x xr : Nat, rc t = (x : Int) ∧ x < P.W ∧ rightCol P.d P.Wr x = some xr ∧
    rcr t = (xr : Int) ∧ xr < P.Wr
  once : ∀ t t' : Nat, t < n → t' < n → rc t = rc t' → t = t'
  all : ∀ x : Nat, x < P.W → rightCol P.d P.Wr x ≠ none → ∃ t : Nat, t < n ∧ rc t = (x : Int)

/-- the left arms stay inside the image (what `Cbca.armsInImage` decides; proved of `cross_support` in C11Kernels) -/
def ArmsIn (H W : Nat) (arms : Nat → Nat → Arms) : Prop :=
  ∀ y x : Nat, y < H → x < W →
    (arms y x).left ≤ x ∧ x + (arms y x).right < W ∧ (arms y x).top ≤ y ∧ y + (arms y x).bot < H

theorem armsIn_of (H W : Nat) (arms : Nat → Nat → Arms) (h : armsInImage H W arms = true) : ArmsIn H W arms := by
  unfold armsInImage at h
  simp only [List.all_eq_true, List.mem_range, Bool.and_eq_true, decide_eq_true_eq] at h
  intro y x hy hx
  have := h y hy x hx
  omega

/-- cell `(i, j)` has been visited when the loops are at row `c`, iteration `r` of the inner loop -/
def Vis (rc : Int → Int) (c r i j : Nat) : Prop := i < c ∨ (i = c ∧ ∃ t : Nat, t < r ∧ rc t = (j : Int))

/-- visited cells hold `f`, the others still hold `z` -/
def Done (H W : Nat) (rc : Int → Int) (f z : Nat → Nat → Rat) (c r : Nat) (a : Int → Int → Val) : Prop :=
  ∀ i j : Nat, i < H → j < W → (Vis rc c r i j → a i j = Val.num (f i j)) ∧ (¬ Vis rc c r i j → a i j = Val.num (z i j))

theorem done_init (H W : Nat) (rc : Int → Int) (f z : Nat → Nat → Rat) (a : Int → Int → Val)
    (h : ∀ i j : Nat, i < H → j < W → a i j = Val.num (z i j)) : Done H W rc f z 0 0 a := by
  intro i j hi hj
  refine ⟨?_, fun _ => h i j hi hj⟩
  rintro (h | ⟨_, t, ht, _⟩) <;> omega

/-- the cell about to be stored has not been visited (the columns of `range_col` are distinct): it still holds `z` -/
theorem done_fresh {H W n : Nat} {rc : Int → Int} {f z : Nat → Nat → Rat} {c r : Nat} {a : Int → Int → Val}
    (hd : Done H W rc f z c r a) (once : ∀ t t' : Nat, t < n → t' < n → rc t = rc t' → t = t') (hr : r < n)
    (x : Nat) (hx : rc r = (x : Int)) (hc : c < H) (hxW : x < W) : a c x = Val.num (z c x) := by
  refine (hd c x hc hxW).2 ?_
  rintro (h | ⟨_, t, ht, h⟩)
  · omega
  · have := once t r (by omega) hr (by rw [h, hx]); omega

theorem done_set {H W : Nat} {rc : Int → Int} {f z : Nat → Nat → Rat} {c r : Nat} {a : Int → Int → Val} (n0 n1 : Int)
    (hd : Done H W rc f z c r a) (x : Nat) (hx : rc r = (x : Int)) (v : Val) (hv : v = Val.num (f c x)) :
    Done H W rc f z c (r + 1) (set2 a n0 n1 (c : Int) (x : Int) v) := by
  intro i j hi hj
  rw [set2_nat]
  by_cases h : i = c ∧ j = x
  · obtain ⟨rfl, rfl⟩ := h
    simp only [and_self, if_true]
    exact ⟨fun _ => hv, fun hn => absurd (Or.inr ⟨rfl, r, by omega, hx⟩) hn⟩
  · have e : Vis rc c (r + 1) i j ↔ Vis rc c r i j := by
      constructor
      · rintro (h1 | ⟨h1, t, ht, h2⟩)
        · exact Or.inl h1
        · by_cases htr : t = r
          · subst htr; exact absurd ⟨h1, by rw [hx] at h2; exact_mod_cast h2.symm⟩ h
          · exact Or.inr ⟨h1, t, by omega, h2⟩
      · rintro (h1 | ⟨h1, t, ht, h2⟩)
        · exact Or.inl h1
        · exact Or.inr ⟨h1, t, by omega, h2⟩
    simp only [h, if_false, e]
    exact hd i j hi hj

/-- end of a row: the columns that `range_col` does not list keep `z`, which is what `f` says there -/
theorem done_next {H W n : Nat} {rc : Int → Int} {f z : Nat → Nat → Rat} {c : Nat} {a : Int → Int → Val}
    (hd : Done H W rc f z c n a)
    (hrest : ∀ j : Nat, j < W → (¬ ∃ t : Nat, t < n ∧ rc t = (j : Int)) → f c j = z c j) :
    Done H W rc f z (c + 1) 0 a := by
  intro i j hi hj
  have := hd i j hi hj
  constructor
  · rintro (h | ⟨_, t, ht, _⟩)
    · by_cases hv : Vis rc c n i j
      · exact this.1 hv
      · have hic : i = c := by
          by_contra hne; exact hv (Or.inl (by omega))
        subst hic
        rw [this.2 hv, hrest j hj (fun ⟨t, ht, h⟩ => hv (Or.inr ⟨rfl, t, ht, h⟩))]
    · omega
  · intro hv
    refine this.2 (fun h => hv ?_)
    rcases h with h | ⟨h, _⟩
    · exact Or.inl (by omega)
    · exact Or.inl (by omega)

theorem done_final {W : Nat} {rc : Int → Int} {f z : Nat → Nat → Rat} {H : Nat} {a : Int → Int → Val}
    (hd : Done H W rc f z H 0 a) (y x : Nat) (hy : y < H) (hx : x < W) : a y x = Val.num (f y x) :=
  (hd y x hy hx).1 (Or.inl hy)

theorem comb_some (P : Plane) (y x xr : Nat) (h : rightCol P.d P.Wr x = some xr) :
    comb P y x = some ⟨min (P.armsL y x).left (P.armsR y xr).left, min (P.armsL y x).right (P.armsR y xr).right,
      min (P.armsL y x).top (P.armsR y xr).top, min (P.armsL y x).bot (P.armsR y xr).bot⟩ := by
  simp [comb, h]

theorem comb_none (P : Plane) (y x : Nat) (h : rightCol P.d P.Wr x = none) : comb P y x = none := by
  simp [comb, h]

/-- **`cbca_step_2` as the source defines it today is the hand model's `step2` / `sum2`.**  Called with any array that
    reads like the output of step 1 (Python indices `[-(W+1), W]`, the sentinel included), the arm arrays of the plane
    (left arms inside the image) and the column lists of `cost_volume_aggregation` (`Wired`), the generated function returns
    (`Res.ok`: no read or store outside an array) two `(H, W)` arrays: `step1[y, x + right] - step1[y, x - left - 1]`
    and `right + left` with `left/right = min` of the two cross supports, `0` in the columns without a facing column. -/
theorem cbcaStep2_generated_eq (P : Plane) (n : Nat) (rc rcr : Int → Int) (s1 : Int → Int → Val)
    (hs1 : ∀ (y : Nat) (j : Int), y < P.H → -((P.W : Int) + 1) ≤ j → j < (P.W : Int) + 1 →
      get2 s1 (P.H : Int) ((P.W : Int) + 1) y j = Val.num (s1At P.W (P.cv y) j))
    (hw : Wired P n rc rcr) (hin : ArmsIn P.H P.W P.armsL) :
    ∃ r, cbcaStep2 s1 P.H ((P.W : Int) + 1) (embA P.armsL) P.H P.W 4 (embA P.armsR) P.H P.Wr 4 rc n rcr n = .ok r ∧
      r.1.n0 = P.H ∧ r.1.n1 = P.W ∧ r.2.n0 = P.H ∧ r.2.n1 = P.W ∧
      ∀ y x : Nat, y < P.H → x < P.W →
        r.1.get y x = Val.num (step2 P y x) ∧ r.2.get y x = Val.num ((sum2 P y x : Nat) : Rat) := by
  simp only [cbcaStep2]
  generalize hL : forRange (0 : Int) (P.H : Int) 1 _ _ = L
  have key : L.1 = true ∧ Done P.H P.W rc (step2 P) (fun _ _ => 0) P.H 0 L.2.1
      ∧ Done P.H P.W rc (fun y x => ((sum2 P y x : Nat) : Rat)) (fun _ _ => 0) P.H 0 L.2.2 := by
    rw [← hL]
    refine forRange_inv (fun c (st : Bool × (Int → Int → Val) × (Int → Int → Val)) => st.1 = true
        ∧ Done P.H P.W rc (step2 P) (fun _ _ => 0) c 0 st.2.1
        ∧ Done P.H P.W rc (fun y x => ((sum2 P y x : Nat) : Rat)) (fun _ _ => 0) c 0 st.2.2) 0 (P.H : Int) 1 P.H _ _
      (rangeLen_one _ _ _ (by omega))
      ⟨rfl, done_init _ _ _ _ _ _ (fun _ _ _ _ => rfl), done_init _ _ _ _ _ _ (fun _ _ _ _ => by simp [zeros2])⟩ ?_
    rintro c ⟨ok, a, b⟩ hc ⟨hok, hda, hdb⟩
    simp only [] at hok hda hdb
    subst hok
    simp only [Int.zero_add, Int.one_mul]
    generalize hM : forRange (0 : Int) (n : Int) 1 _ _ = M
    have keyM : M.1 = true ∧ Done P.H P.W rc (step2 P) (fun _ _ => 0) c n M.2.1
        ∧ Done P.H P.W rc (fun y x => ((sum2 P y x : Nat) : Rat)) (fun _ _ => 0) c n M.2.2 := by
      rw [← hM]
      refine forRange_inv (fun r (st : Bool × (Int → Int → Val) × (Int → Int → Val)) => st.1 = true
          ∧ Done P.H P.W rc (step2 P) (fun _ _ => 0) c r st.2.1
          ∧ Done P.H P.W rc (fun y x => ((sum2 P y x : Nat) : Rat)) (fun _ _ => 0) c r st.2.2) 0 (n : Int) 1 n _ _
        (rangeLen_one _ _ _ (by omega)) ⟨rfl, hda, hdb⟩ ?_
      rintro t ⟨ok, a, b⟩ ht ⟨hok, hda, hdb⟩
      simp only [] at hok hda hdb
      subst hok
      obtain ⟨x, xr, hrc, hx, hcol, hrcr, hxr⟩ := hw.facing t ht
      have hcH : (c : Int) < (P.H : Int) := by exact_mod_cast hc
      have hxW : (x : Int) < (P.W : Int) := by exact_mod_cast hx
      have hxrW : (xr : Int) < (P.Wr : Int) := by exact_mod_cast hxr
      have htn : (t : Int) < (n : Int) := by exact_mod_cast ht
      have hA := hin c x hc hx
      have gl := get3_embA P.armsL (P.H : Int) (P.W : Int) c x
      have gr := get3_embA P.armsR (P.H : Int) (P.Wr : Int) c xr
      have il := inb3_arms (n0 := (P.H : Int)) (n1 := (P.W : Int)) (i := c) (j := x) hcH hxW
      have ir := inb3_arms (n0 := (P.H : Int)) (n1 := (P.Wr : Int)) (i := c) (j := xr) hcH hxrW
      have hR : min (P.armsL c x).right (P.armsR c xr).right ≤ (P.armsL c x).right := Nat.min_le_left _ _
      have hLf : min (P.armsL c x).left (P.armsR c xr).left ≤ (P.armsL c x).left := Nat.min_le_left _ _
      have r1 := hs1 c ((x : Int) + ((min (P.armsL c x).right (P.armsR c xr).right : Nat) : Int)) hc (by omega) (by omega)
      have r2 := hs1 c ((x : Int) - ((min (P.armsL c x).left (P.armsR c xr).left : Nat) : Int) - 1) hc (by omega) (by omega)
      have i1 : inb2 (P.H : Int) ((P.W : Int) + 1) (c : Int)
          ((x : Int) + ((min (P.armsL c x).right (P.armsR c xr).right : Nat) : Int)) = true := by
        simp only [inb2, inb_nat hcH, Bool.true_and]; exact inb_range (by omega) (by omega)
      have i2 : inb2 (P.H : Int) ((P.W : Int) + 1) (c : Int)
          ((x : Int) - ((min (P.armsL c x).left (P.armsR c xr).left : Nat) : Int) - 1) = true := by
        simp only [inb2, inb_nat hcH, Bool.true_and]; exact inb_range (by omega) (by omega)
      have hfresh := done_fresh hdb hw.once ht x hrc hc hx
      have hW1 : (P.W : Int) + 1 - 1 = P.W := by omega
      -- `min(cross_right[…], cross_left[…])` written the other way round
      have mcR : min (P.armsR c xr).right (P.armsL c x).right = min (P.armsL c x).right (P.armsR c xr).right := Nat.min_comm _ _
      have mcL : min (P.armsR c xr).left (P.armsL c x).left = min (P.armsL c x).left (P.armsR c xr).left := Nat.min_comm _ _
      simp only [hW1, mcR, mcL, Int.zero_add, Int.one_mul, get1_nat, hrc, hrcr, gl.1, gl.2.1, gr.1, gr.2.1, il.1, il.2.1, ir.1, ir.2.1,
        imin_nat, inb1, inb_nat htn, r1, r2, i1, i2, inb2_nat hcH hxW, get2_nat, hfresh, Bool.and_true, Bool.true_and]
      refine ⟨by triv, by triv, done_set _ _ hda x hrc _ ?_, done_set _ _ hdb x hrc _ ?_⟩
      · simp [step2, comb_some P c x xr hcol, vsub, Val.map2] <;> arith
      · simp [sum2, comb_some P c x xr hcol, vadd, Val.map2] <;> arith
    refine ⟨by triv, by simp [keyM.1], done_next keyM.2.1 ?_, done_next keyM.2.2 ?_⟩
    · intro j hj hno
      have : rightCol P.d P.Wr j = none := by
        by_contra hne; exact hno (hw.all j hj hne)
      simp [step2, comb_none P c j this]
    · intro j hj hno
      have : rightCol P.d P.Wr j = none := by
        by_contra hne; exact hno (hw.all j hj hne)
      simp [sum2, comb_none P c j this]
  refine ⟨(⟨L.2.1, P.H, P.W⟩, ⟨L.2.2, P.H, P.W⟩), ?_, rfl, rfl, rfl, rfl, ?_⟩
  · have h0 : ((P.H : Int) ≥ 0) ∧ ((P.W : Int) + 1 - 1 ≥ 0) ∧ (P.W : Int) + 1 - 1 = P.W := ⟨by omega, by omega, by omega⟩
    simp [key.1, h0]
  · intro y x hy hx
    exact ⟨done_final key.2.1 y x hy hx, done_final key.2.2 y x hy hx⟩

/-! ## `cbca_step_4`: `np.copy`, `np.sum` of a slice -/

theorem sliceBound_nat (n : Int) (k : Nat) (h : (k : Int) ≤ n) : sliceBound n (k : Int) = k := by
  have h0 : ¬ ((k : Int) < 0) := by omega
  have h1 : ¬ (n < (k : Int)) := by omega
  simp [sliceBound, h0, h1]

theorem sumFrom_eq (f : Int → Val) (g : Nat → Nat) (lo : Nat) :
    ∀ n : Nat, (∀ k : Nat, k < n → f ((lo : Int) + k) = Val.num ((g (lo + k) : Nat) : Rat)) →
      sumFrom f lo n = Val.num ((sumRangeN g lo n : Nat) : Rat) := by
  intro n
  induction n with
  | zero => intro _; simp [sumFrom, sumRangeN]
  | succ n ih =>
    intro h
    rw [sumFrom, ih (fun k hk => h k (by omega)), h n (by omega)]
    simp [sumRangeN, vadd, Val.map2]

/-- `np.sum(q[lo : lo + n, x])` of an array that holds the naturals `g` is the model's `sumRangeN` -/
theorem sumSlice_eq (q : Int → Int → Val) (g : Nat → Nat → Nat) (H W : Nat)
    (hq : ∀ y x : Nat, y < H → x < W → q y x = Val.num ((g y x : Nat) : Rat)) (lo n x : Nat) (hb : lo + n ≤ H) (hx : x < W)
    (loI hiI : Int) (hlo : loI = (lo : Int)) (hhi : hiI = ((lo + n : Nat) : Int)) :
    sumSlice0 q (H : Int) (W : Int) loI hiI (x : Int) = Val.num ((sumRangeN (fun y' => g y' x) lo n : Nat) : Rat) := by
  subst hlo hhi
  simp only [sumSlice0, sliceBound_nat (H : Int) lo (by omega), sliceBound_nat (H : Int) (lo + n) (by exact_mod_cast hb), wrap_nat]
  rw [show (((lo + n : Nat) : Int) - (lo : Int)).toNat = n by omega]
  exact sumFrom_eq _ _ lo n (fun k hk => by
    have := hq (lo + k) x (by omega) hx
    rw [show ((lo : Int) + (k : Int)) = ((lo + k : Nat) : Int) by push_cast; ring]
    exact this)

/-- **`cbca_step_4` as the source defines it today is the hand model's `step4` / `sum4`.**  Called with any array that
    reads like the output of step 3 (Python row indices `[-(H+1), H]`, the sentinel row included), the `sum2` array of step 2,
    the arm arrays of the plane (left arms inside the image) and the column lists of `cost_volume_aggregation`, the generated
    function returns (`Res.ok`) two `(H, W)` arrays: `step3[y + bot, x] - step3[y - top - 1, x]`, and the copy of `sum2`
    plus `top + bot` plus the two slice sums of `sum2` over the vertical arm — the model's `sum4` before the final `+ 1`
    that `cost_volume_aggregation` adds (`sum4 P y x - 1`). -/
theorem cbcaStep4_generated_eq (P : Plane) (n : Nat) (rc rcr : Int → Int) (s3 q : Int → Int → Val)
    (hs3 : ∀ (x : Nat) (i : Int), x < P.W → -((P.H : Int) + 1) ≤ i → i < (P.H : Int) + 1 →
      get2 s3 ((P.H : Int) + 1) (P.W : Int) i x = Val.num (s3At P x i))
    (hq : ∀ y x : Nat, y < P.H → x < P.W → q y x = Val.num ((sum2 P y x : Nat) : Rat))
    (hw : Wired P n rc rcr) (hin : ArmsIn P.H P.W P.armsL) :
    ∃ r, cbcaStep4 s3 ((P.H : Int) + 1) P.W q P.H P.W (embA P.armsL) P.H P.W 4 (embA P.armsR) P.H P.Wr 4 rc n rcr n = .ok r ∧
      r.1.n0 = P.H ∧ r.1.n1 = P.W ∧ r.2.n0 = P.H ∧ r.2.n1 = P.W ∧
      ∀ y x : Nat, y < P.H → x < P.W →
        r.1.get y x = Val.num (step4 P y x) ∧ r.2.get y x = Val.num (((sum4 P y x : Nat) : Rat) - 1) := by
  have hH1 : (P.H : Int) + 1 - 1 = P.H := by omega
  simp only [cbcaStep4, hH1]
  generalize hL : forRange (0 : Int) (P.H : Int) 1 _ _ = L
  have key : L.1 = true ∧ Done P.H P.W rc (step4 P) (fun _ _ => 0) P.H 0 L.2.1
      ∧ Done P.H P.W rc (fun y x => ((sum4 P y x : Nat) : Rat) - 1) (fun y x => ((sum2 P y x : Nat) : Rat)) P.H 0 L.2.2 := by
    rw [← hL]
    refine forRange_inv (fun c (st : Bool × (Int → Int → Val) × (Int → Int → Val)) => st.1 = true
        ∧ Done P.H P.W rc (step4 P) (fun _ _ => 0) c 0 st.2.1
        ∧ Done P.H P.W rc (fun y x => ((sum4 P y x : Nat) : Rat) - 1) (fun y x => ((sum2 P y x : Nat) : Rat)) c 0 st.2.2)
      0 (P.H : Int) 1 P.H _ _ (rangeLen_one _ _ _ (by omega))
      ⟨rfl, done_init _ _ _ _ _ _ (fun _ _ _ _ => rfl), done_init _ _ _ _ _ _ hq⟩ ?_
    rintro c ⟨ok, a, b⟩ hc ⟨hok, hda, hdb⟩
    simp only [] at hok hda hdb
    subst hok
    simp only [Int.zero_add, Int.one_mul]
    generalize hM : forRange (0 : Int) (n : Int) 1 _ _ = M
    have keyM : M.1 = true ∧ Done P.H P.W rc (step4 P) (fun _ _ => 0) c n M.2.1
        ∧ Done P.H P.W rc (fun y x => ((sum4 P y x : Nat) : Rat) - 1) (fun y x => ((sum2 P y x : Nat) : Rat)) c n M.2.2 := by
      rw [← hM]
      refine forRange_inv (fun r (st : Bool × (Int → Int → Val) × (Int → Int → Val)) => st.1 = true
          ∧ Done P.H P.W rc (step4 P) (fun _ _ => 0) c r st.2.1
          ∧ Done P.H P.W rc (fun y x => ((sum4 P y x : Nat) : Rat) - 1) (fun y x => ((sum2 P y x : Nat) : Rat)) c r st.2.2)
        0 (n : Int) 1 n _ _ (rangeLen_one _ _ _ (by omega)) ⟨rfl, hda, hdb⟩ ?_
      rintro t ⟨ok, a, b⟩ ht ⟨hok, hda, hdb⟩
      simp only [] at hok hda hdb
      subst hok
      obtain ⟨x, xr, hrc, hx, hcol, hrcr, hxr⟩ := hw.facing t ht
      have hcH : (c : Int) < (P.H : Int) := by exact_mod_cast hc
      have hxW : (x : Int) < (P.W : Int) := by exact_mod_cast hx
      have hxrW : (xr : Int) < (P.Wr : Int) := by exact_mod_cast hxr
      have htn : (t : Int) < (n : Int) := by exact_mod_cast ht
      have hA := hin c x hc hx
      have gl := get3_embA P.armsL (P.H : Int) (P.W : Int) c x
      have gr := get3_embA P.armsR (P.H : Int) (P.Wr : Int) c xr
      have il := inb3_arms (n0 := (P.H : Int)) (n1 := (P.W : Int)) (i := c) (j := x) hcH hxW
      have ir := inb3_arms (n0 := (P.H : Int)) (n1 := (P.Wr : Int)) (i := c) (j := xr) hcH hxrW
      have hcomb := comb_some P c x xr hcol
      generalize hT : min (P.armsL c x).top (P.armsR c xr).top = T at hcomb
      generalize hB : min (P.armsL c x).bot (P.armsR c xr).bot = B at hcomb
      have hTle : T ≤ (P.armsL c x).top := by rw [← hT]; exact Nat.min_le_left _ _
      have hBle : B ≤ (P.armsL c x).bot := by rw [← hB]; exact Nat.min_le_left _ _
      have r1 := hs3 x ((c : Int) + (B : Int)) hx (by omega) (by omega)
      have r2 := hs3 x ((c : Int) - (T : Int) - 1) hx (by omega) (by omega)
      have i1 : inb2 ((P.H : Int) + 1) (P.W : Int) ((c : Int) + (B : Int)) (x : Int) = true := by
        simp only [inb2, inb_nat hxW, Bool.and_true]; exact inb_range (by omega) (by omega)
      have i2 : inb2 ((P.H : Int) + 1) (P.W : Int) ((c : Int) - (T : Int) - 1) (x : Int) = true := by
        simp only [inb2, inb_nat hxW, Bool.and_true]; exact inb_range (by omega) (by omega)
      have hfresh := done_fresh hdb hw.once ht x hrc hc hx
      have sl1 := sumSlice_eq q (sum2 P) P.H P.W hq (c - T) T x (by omega) hx ((c : Int) - (T : Int)) (c : Int) (by omega) (by omega)
      have sl2 := sumSlice_eq q (sum2 P) P.H P.W hq (c + 1) B x (by omega) hx ((c : Int) + 1) ((c : Int) + (B : Int) + 1)
        (by omega) (by omega)
      have hT' : min (P.armsR c xr).top (P.armsL c x).top = T := by rw [Nat.min_comm]; exact hT
      have hB' : min (P.armsR c xr).bot (P.armsL c x).bot = B := by rw [Nat.min_comm]; exact hB
      simp only [Int.zero_add, Int.one_mul, get1_nat, hrc, hrcr, gl.2.2.1, gl.2.2.2, gr.2.2.1, gr.2.2.2, il.2.2.1, il.2.2.2, ir.2.2.1,
        ir.2.2.2, imin_nat, hT, hB, hT', hB', inb1, inb_nat htn, inb_nat hxW, r1, r2, i1, i2, inb2_nat hcH hxW, sl1, sl2,
        Bool.and_true, Bool.true_and]
      -- the three `+=` on the same cell collapse to one store of the final value, in each of the four cases
      by_cases hT0 : T = 0 <;> by_cases hB0 : B = 0 <;>
        simp only [hT0, hB0, Int.natCast_eq_zero, Nat.cast_zero, decide_true, decide_false, Bool.not_true, Bool.not_false,
          Bool.false_eq_true, if_false, if_true, set2_set2, get2_set2_same, get2_nat, set2_same_nat, hfresh, Bool.and_true, Bool.true_and,
          not_true_eq_false, not_false_eq_true] <;>
        refine ⟨by triv, by triv, done_set _ _ hda x hrc _ (by simp [step4, hcomb, hT0, hB0, vsub, Val.map2] <;> arith),
          done_set _ _ hdb x hrc _ ?_⟩ <;>
        simp [sum4, sum2, hcomb, hT0, hB0, vadd, Val.map2] <;> arith
    refine ⟨by triv, by simp [keyM.1], done_next keyM.2.1 ?_, done_next keyM.2.2 ?_⟩
    · intro j hj hno
      have : rightCol P.d P.Wr j = none := by
        by_contra hne; exact hno (hw.all j hj hne)
      simp [step4, comb_none P c j this]
    · intro j hj hno
      have : rightCol P.d P.Wr j = none := by
        by_contra hne; exact hno (hw.all j hj hne)
      simp [sum4, sum2, comb_none P c j this]
  refine ⟨(⟨L.2.1, P.H, P.W⟩, ⟨L.2.2, P.H, P.W⟩), ?_, rfl, rfl, rfl, rfl, ?_⟩
  · have h0 : ((P.H : Int) ≥ 0) ∧ ((P.W : Int) ≥ 0) := ⟨by omega, by omega⟩
    simp [key.1, h0]
  · intro y x hy hx
    exact ⟨done_final key.2.1 y x hy hx, done_final key.2.2 y x hy hx⟩

/-! ## The four kernels wired as in `cost_volume_aggregation` -/

/-- **The chain `cbca_step_1 → 2 → 3 → 4` of the source, each kernel fed the arrays (and shapes) the previous ones
    returned, computes the hand model's `step4` and `sum4 - 1`** for every plane with at least one row, left arms inside
    the image and the column lists of `cost_volume_aggregation`; no kernel reads or writes outside an array. -/
theorem cbcaSteps_generated_chain (P : Plane) (hH : 1 ≤ P.H) (n : Nat) (rc rcr : Int → Int)
    (hw : Wired P n rc rcr) (hin : ArmsIn P.H P.W P.armsL) :
    ∃ r1 r2 r3 r4,
      cbcaStep1 (embV P.cv) P.H P.W = .ok r1 ∧
      cbcaStep2 r1.get r1.n0 r1.n1 (embA P.armsL) P.H P.W 4 (embA P.armsR) P.H P.Wr 4 rc n rcr n = .ok r2 ∧
      cbcaStep3 r2.1.get r2.1.n0 r2.1.n1 = .ok r3 ∧
      cbcaStep4 r3.get r3.n0 r3.n1 r2.2.get r2.2.n0 r2.2.n1 (embA P.armsL) P.H P.W 4 (embA P.armsR) P.H P.Wr 4 rc n rcr n
        = .ok r4 ∧
      ∀ y x : Nat, y < P.H → x < P.W →
        r4.1.get y x = Val.num (step4 P y x) ∧ r4.2.get y x = Val.num (((sum4 P y x : Nat) : Rat) - 1) := by
  obtain ⟨r1, e1, a0, a1, c1⟩ := cbcaStep1_generated_eq P.H P.W P.cv
  rw [a0, a1] at c1
  obtain ⟨r2, e2, b0, b1, b2, b3, c2⟩ := cbcaStep2_generated_eq P n rc rcr r1.get c1 hw hin
  obtain ⟨r3, e3, d0, d1, c3⟩ := cbcaStep3_generated_eq P hH r2.1.get (fun y x hy hx => (c2 y x hy hx).1)
  rw [d0, d1] at c3
  obtain ⟨r4, e4, _, _, _, _, c4⟩ := cbcaStep4_generated_eq P n rc rcr r3.get r2.2.get c3
    (fun y x hy hx => (c2 y x hy hx).2) hw hin
  exact ⟨r1, r2, r3, r4, e1, by rw [a0, a1]; exact e2, by rw [b0, b1]; exact e3,
    by rw [d0, d1, b2, b3]; exact e4, c4⟩

/-! ## Non-vacuity: a concrete plane satisfies the hypotheses -/

/-- a `2 × 3` plane at disparity `-1` (columns 1, 2 face the right columns 0, 1), one NaN cost -/
def exP : Plane :=
  { H := 2, W := 3, Wr := 3, d := -1
    cv := fun y x => if y = 0 ∧ x = 1 then Val.nan else Val.num ((y : Rat) + 2 * x + 1)
    armsL := fun y x => ⟨min x 1, min (2 - x) 1, y, 1 - y⟩
    armsR := fun y x => ⟨x, 2 - x, y, 1 - y⟩ }

example : ArmsIn exP.H exP.W exP.armsL := armsIn_of _ _ _ (by decide +kernel)

example : Wired exP 2 (fun t => t + 1) (fun t => t) where
  facing := by
    intro t ht
    have : t = 0 ∨ t = 1 := by omega
    rcases this with rfl | rfl
    · exact ⟨1, 0, rfl, by decide, by decide +kernel, rfl, by decide⟩
    · exact ⟨2, 1, rfl, by decide, by decide +kernel, rfl, by decide⟩
  once := by intro t t' _ _ h; simpa using h
  all := by
    intro x hx hne
    have : x = 0 ∨ x = 1 ∨ x = 2 := by have : x < 3 := hx; omega
    rcases this with rfl | rfl | rfl
    · exact absurd (by decide +kernel) hne
    · exact ⟨0, by decide, rfl⟩
    · exact ⟨1, by decide, rfl⟩

end Pandora.C11KernelsSteps
