/-
  C13 — vertical flip of the composed pipeline of `C13Pipeline.lean`.

  Every stage `[matching cost; aggregation; winner-takes-all; (refinement); (median filter); (cross-checking)]`
  commutes with the vertical flip on scenes whose domain is a product rows × columns (every array), from the
  step theorems of `C13Flip.lean` / `C13FlipMc.lean`.  The abstract ingredients keep their hypotheses:
    * `agg`   : `VFlipOn agg`   (`noAgg_vflip` for "no aggregation");
    * `flagL` : `VFlipOn flagL` (the concrete flag step is in `C13Flags.lean`);
    * `dispR` : `VFlipOn dispR` — met by the pipeline itself on the swapped scene (`rightDisp_vflip`).
  The median filter needs an odd `filter_size` (only when it is switched on).
  `pipeline_flip` / `filter_flip` are the array-level statements: the run on the scene listed bottom-up gives
  at row `r` what the run on the scene gives at row `ny - 1 - r`.
-/
import PandoraModel.Properties.C13FlipMc

namespace Pandora.C13
open Pandora Pandora.Locality

/-! ### the stages -/

theorem noAgg_vflip : VFlip noAgg := VFlip.map id_vflip _

theorem mcStage_vflip (C : PipeCfg) : VFlipOn (mcStage C) :=
  VFlipOn.map (mcRowStep_vflip C.mc C.gmin C.n) (List.map C.ev)

theorem mcStage_sameDom (C : PipeCfg) (a : Img McCell) : SameDom a (mcStage C a) :=
  fun p => by unfold mcStage mcRowStep; simp only [Option.isSome_map]

/-- the scene paired with its cost rows is defined where the scene is -/
theorem costIn_sameDom (C : PipeCfg) (a : Img McCell) : SameDom a (pairStep (fun a => a) (mcStage C) a) :=
  sameDom_pair (f := fun a => a) (g := mcStage C) (fun _ => rfl) (mcStage_sameDom C a)

/-- **Cost rows after matching cost and aggregation commute with the flip.** -/
theorem costStage_vflip (C : PipeCfg) {agg : AggStep} (hA : VFlipOn agg) : VFlipOn (costStage C agg) := by
  intro a ha
  unfold costStage
  rw [VFlipOn.pair (f := fun a => a) (g := mcStage C) id_vflip.toOn (mcStage_vflip C) a ha]
  exact hA _ (ha.of_sameDom (costIn_sameDom C a))

/-- **… the disparity after winner-takes-all** -/
theorem wtaStage_vflip (C : PipeCfg) {agg : AggStep} (hA : VFlipOn agg) : VFlipOn (wtaStage C agg) :=
  VFlipOn.comp_vflip (costStage_vflip C hA) (wtaStep_vflip C.isMax C.disps C.invalid)

/-- **… (disparity, flag) after the optional refinement** -/
theorem refineStage_vflip (C : PipeCfg) {agg : AggStep} (hA : VFlipOn agg)
    {flagL : Img McCell → Img Nat} (hF : VFlipOn flagL) (doRefine : Bool) :
    VFlipOn (refineStage C agg flagL doRefine) :=
  VFlipOn.bind (VFlipOn.pair (VFlipOn.pair (costStage_vflip C hA) (wtaStage_vflip C hA)) hF) _

/-- **… (disparity, flag) after the median filter of odd size** -/
theorem medianStage_vflip (C : PipeCfg) (hodd : C.fs % 2 = 1) {agg : AggStep} (hA : VFlipOn agg)
    {flagL : Img McCell → Img Nat} (hF : VFlipOn flagL) (doRefine : Bool) :
    VFlipOn (medianStage C agg flagL doRefine) :=
  VFlipOn.pair (VFlipOn.comp_vflip (refineStage_vflip C hA hF doRefine) (medianStep_vflip C.invalidMask C.fs hodd))
    (VFlipOn.map (refineStage_vflip C hA hF doRefine) (fun x => x.2))

/-- **The filtered left disparity and flags commute with the flip** (the filter size must be odd only when the
    median filter is on). -/
theorem filterStage_vflip (C : PipeCfg) {agg : AggStep} (hA : VFlipOn agg)
    {flagL : Img McCell → Img Nat} (hF : VFlipOn flagL) (doRefine doMedian : Bool)
    (hodd : doMedian = true → C.fs % 2 = 1) :
    VFlipOn (filterStage C agg flagL doRefine doMedian) := by
  cases doMedian with
  | false =>
    unfold filterStage
    simp only [Bool.false_eq_true, if_false]
    exact refineStage_vflip C hA hF doRefine
  | true =>
    unfold filterStage
    simp only [if_true]
    exact medianStage_vflip C (hodd rfl) hA hF doRefine

/-- any other filter that commutes with the flip in place of the median (bilateral with symmetric weights) -/
theorem filtStage_vflip (C : PipeCfg) {agg : AggStep} (hA : VFlipOn agg)
    {flagL : Img McCell → Img Nat} (hF : VFlipOn flagL) (doRefine : Bool)
    {filt : Img (Val × Nat) → Img Val} (hM : VFlip filt) :
    VFlipOn (filtStage C agg flagL doRefine filt) :=
  VFlipOn.pair (VFlipOn.comp_vflip (refineStage_vflip C hA hF doRefine) hM)
    (VFlipOn.map (refineStage_vflip C hA hF doRefine) (fun x => x.2))

/-- cross-checking of any left map against any right map -/
theorem ccOn_vflip {left : Img McCell → Img (Val × Nat)} (hL : VFlipOn left)
    {dispR : Img McCell → Img Val} (hR : VFlipOn dispR) (V : CrossCheck.Variant) (CP : CrossCheck.Params) :
    VFlipOn (ccOn left dispR V CP) :=
  VFlipOn.comp_vflip
    (VFlipOn.map (VFlipOn.pair hL hR) (fun (x : (Val × Nat) × Val) => ((x.1.1, x.1.2, x.2) : CcCell)))
    (ccStep_vflip V CP)

/-- **The whole pipeline commutes with the flip**: flag word and confidence cell after cross-checking. -/
theorem ccStage_vflip (C : PipeCfg) {agg : AggStep} (hA : VFlipOn agg)
    {flagL : Img McCell → Img Nat} (hF : VFlipOn flagL) (doRefine doMedian : Bool)
    (hodd : doMedian = true → C.fs % 2 = 1)
    {dispR : Img McCell → Img Val} (hR : VFlipOn dispR) (V : CrossCheck.Variant) (CP : CrossCheck.Params) :
    VFlipOn (ccStage C agg flagL doRefine doMedian dispR V CP) :=
  ccOn_vflip (filterStage_vflip C hA hF doRefine doMedian hodd) hR V CP

/-- swapping the two images of the scene commutes with the flip and keeps the domain -/
theorem swapScene_vflip : VFlip (fun (a : Img McCell) q => (a q).map swapCell) := VFlip.map id_vflip swapCell

/-- **The hypothesis on the right map is met by the pipeline itself** (mirrored configuration `C'`, swapped
    scene). -/
theorem rightDisp_vflip (C' : PipeCfg) {agg : AggStep} (hA : VFlipOn agg)
    {flagR : Img McCell → Img Nat} (hF : VFlipOn flagR) (doRefine doMedian : Bool)
    (hodd : doMedian = true → C'.fs % 2 = 1) :
    VFlipOn (rightDisp C' agg flagR doRefine doMedian) :=
  VFlipOn.map
    (VFlipOn.comp (f := fun (a : Img McCell) q => (a q).map swapCell) swapScene_vflip.toOn
      (fun _ ha => ha.map swapCell) (filterStage_vflip C' hA hF doRefine doMedian hodd))
    (fun x => x.1)

/-! ### arrays: the scene listed bottom-up -/

/-- **Vertical flip of the whole pipeline, on any scene array.**  Running the pipeline on the scene listed
    bottom-up gives at pixel `(r, c)` the flag word and confidence cell that the run on the scene gives at
    `(ny - 1 - r, c)` — all windows being odd-sized (`fs` odd when the median filter is on; the matching-cost
    window has half-width `half w` on both sides by construction). -/
theorem pipeline_flip (C : PipeCfg) {agg : AggStep} (hAe : Equivariant agg) (hA : VFlipOn agg)
    {flagL : Img McCell → Img Nat} (hFe : Equivariant flagL) (hF : VFlipOn flagL) (doRefine doMedian : Bool)
    (hodd : doMedian = true → C.fs % 2 = 1)
    {dispR : Img McCell → Img Val} (hRe : Equivariant dispR) (hR : VFlipOn dispR)
    (V : CrossCheck.Variant) (CP : CrossCheck.Params)
    (ny nx : Nat) (scene : Nat → Nat → McCell) (p : Px) :
    ccStage C agg flagL doRefine doMedian dispR V CP (toImg ny nx (flipArr ny scene)) p
      = ccStage C agg flagL doRefine doMedian dispR V CP (toImg ny nx scene) ((ny : Int) - 1 - p.1, p.2) :=
  flip_run_eq (ccStage_equivariant C hAe hFe doRefine doMedian hRe V CP)
    (ccStage_vflip C hA hF doRefine doMedian hodd hR V CP) ny nx scene p

/-- … and for the filtered left disparity and flags (pipelines without cross-checking) -/
theorem filter_flip (C : PipeCfg) {agg : AggStep} (hAe : Equivariant agg) (hA : VFlipOn agg)
    {flagL : Img McCell → Img Nat} (hFe : Equivariant flagL) (hF : VFlipOn flagL) (doRefine doMedian : Bool)
    (hodd : doMedian = true → C.fs % 2 = 1)
    (ny nx : Nat) (scene : Nat → Nat → McCell) (p : Px) :
    filterStage C agg flagL doRefine doMedian (toImg ny nx (flipArr ny scene)) p
      = filterStage C agg flagL doRefine doMedian (toImg ny nx scene) ((ny : Int) - 1 - p.1, p.2) :=
  flip_run_eq (filterStage_equivariant C hAe hFe doRefine doMedian)
    (filterStage_vflip C hA hF doRefine doMedian hodd) ny nx scene p

/-- **Both maps from the pipeline**: the left pipeline `C`, the right map being the pipeline `C'` on the
    swapped scene, then cross-checking. -/
theorem pipeline_flip_lr (C C' : PipeCfg) {agg : AggStep} (hAe : Equivariant agg) (hA : VFlipOn agg)
    {flagL flagR : Img McCell → Img Nat} (hFe : Equivariant flagL) (hF : VFlipOn flagL)
    (hFRe : Equivariant flagR) (hFR : VFlipOn flagR) (doRefine doMedian : Bool)
    (hodd : doMedian = true → C.fs % 2 = 1) (hodd' : doMedian = true → C'.fs % 2 = 1)
    (V : CrossCheck.Variant) (CP : CrossCheck.Params)
    (ny nx : Nat) (scene : Nat → Nat → McCell) (p : Px) :
    ccStage C agg flagL doRefine doMedian (rightDisp C' agg flagR doRefine doMedian) V CP
        (toImg ny nx (flipArr ny scene)) p
      = ccStage C agg flagL doRefine doMedian (rightDisp C' agg flagR doRefine doMedian) V CP
        (toImg ny nx scene) ((ny : Int) - 1 - p.1, p.2) :=
  pipeline_flip C hAe hA hFe hF doRefine doMedian hodd
    (rightDisp_equivariant C' hAe hFRe doRefine doMedian)
    (rightDisp_vflip C' hA hFR doRefine doMedian hodd') V CP ny nx scene p

/-! ### Non-vacuity: the configuration `exCfg` of `C13Pipeline` (sad, window 3, subpix 2, interval [-1, 1],
    vfit, median 3), no aggregation, constant flags, the right map from the pipeline on the swapped scene,
    cross-checking with the parameters of C07's example: every hypothesis is met, for every scene array -/

theorem constFlag_vflip (v : Nat) : VFlip (fun (a : Img McCell) q => (a q).map fun _ => v) := VFlip.map id_vflip _

example (ny nx : Nat) (scene : Nat → Nat → McCell) (p : Px) :
    ccStage exCfg noAgg (fun a q => (a q).map fun _ => 0) true true
        (rightDisp exCfg noAgg (fun a q => (a q).map fun _ => 0) true true) .ruleFix C07.exParams
        (toImg ny nx (flipArr ny scene)) p
      = ccStage exCfg noAgg (fun a q => (a q).map fun _ => 0) true true
        (rightDisp exCfg noAgg (fun a q => (a q).map fun _ => 0) true true) .ruleFix C07.exParams
        (toImg ny nx scene) ((ny : Int) - 1 - p.1, p.2) :=
  pipeline_flip_lr exCfg exCfg noAgg_equivariant noAgg_vflip.toOn
    (Equivariant.map id_equivariant _) (constFlag_vflip 0).toOn
    (Equivariant.map id_equivariant _) (constFlag_vflip 0).toOn true true
    (fun _ => by decide) (fun _ => by decide) .ruleFix C07.exParams ny nx scene p

example (ny nx : Nat) (scene : Nat → Nat → McCell) (p : Px) :
    filterStage exCfg noAgg (fun a q => (a q).map fun _ => 0) true true (toImg ny nx (flipArr ny scene)) p
      = filterStage exCfg noAgg (fun a q => (a q).map fun _ => 0) true true (toImg ny nx scene)
          ((ny : Int) - 1 - p.1, p.2) :=
  filter_flip exCfg noAgg_equivariant noAgg_vflip.toOn (Equivariant.map id_equivariant _) (constFlag_vflip 0).toOn
    true true (fun _ => by decide) ny nx scene p

end Pandora.C13
