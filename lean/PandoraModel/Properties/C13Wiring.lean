/-
  C13 — two step models chained on their own arrays: matching cost (C02's `MC.costVolume`) followed by
  winner-takes-all (C03's `Wta.toDisp`, block loops included).  The disparity map of a crop run equals the
  disparity map of the whole run on every pixel whose matching-cost cone (window/2, columns extended by the
  disparity interval; clipped to the image) lies in the crop — wherever the crop starts, whatever the block
  splits of the two runs.  (The wiring itself — that `to_disp` receives the volume `compute_cost_volume`
  returned — is C08's subject; here the composed function is the composition of the two models.)
-/
import PandoraModel.Model.PipelineRun
import PandoraModel.Properties.C13MatchingCost

namespace Pandora.C13
open Pandora Pandora.Locality Pandora.MC

/-- **Matching cost then winner-takes-all: crop run = whole run.**  `x'` is the crop of the scene of `x`
    starting at `(r0, c0)` with the same configuration and the same global disparity range (a scalar
    interval). -/
theorem mc_wta_crop_eq_whole (x x' : MC.Input) (hwf : wfShape x = true) (hwf' : wfShape x' = true)
    (hz : x.meas = .zncc → ∀ k : Int, noTinyVariance x k = true)
    (hz' : x'.meas = .zncc → ∀ k : Int, noTinyVariance x' k = true)
    (hp : paramsOf x' = paramsOf x) (r0 c0 : Nat)
    (hcrop : ∀ r c, r < x'.L.rows → c < x'.L.cols → mcScene x' r c = mcScene x (r + r0) (c + c0))
    (hfit : r0 + x'.L.rows ≤ x.L.rows ∧ c0 + x'.L.cols ≤ x.L.cols)
    (hgmin : gridMin x'.dminG x'.L.rows x'.L.cols = gridMin x.dminG x.L.rows x.L.cols)
    (hgmax : gridMax x'.dmaxG x'.L.rows x'.L.cols = gridMax x.dmaxG x.L.rows x.L.cols)
    (ev : MC.Cell → Val) (isMax : Bool) (disps : List Rat) (invalid : Val)
    (s s' : Blocks.Split) (h0 : s.beginY = 0 ∧ s.beginX = 0) (h0' : s'.beginY = 0 ∧ s'.beginX = 0)
    (r c : Nat) (hr : r < x'.L.rows) (hc : c < x'.L.cols)
    (hcone : ∀ q, inCone (mcCone (paramsOf x) (gridMin x.dminG x.L.rows x.L.cols) (gridMax x.dmaxG x.L.rows x.L.cols))
        ((r : Int) + r0, (c : Int) + c0) q →
      InRect r0 c0 x'.L.rows x'.L.cols q ∨ ¬ InImage x.L.rows x.L.cols q) :
    Wta.toDisp s' (wtaOfMc x' ev isMax disps invalid) r c
      = Wta.toDisp s (wtaOfMc x ev isMax disps invalid) (r + r0) (c + c0) := by
  have hsp : x'.sp = x.sp := congrArg McParams.sp hp
  have hsh := C02.shape_of_wf x hwf
  have hg := C02.gridOK_of_wf x hwf
  rw [C03.toDisp_eq_pixel s' h0' _ r c hr hc,
    C03.toDisp_eq_pixel s h0 _ (r + r0) (c + c0) (by show r + r0 < x.L.rows; omega) (by show c + c0 < x.L.cols; omega)]
  show Wta.wtaPixel isMax disps ((wtaOfMc x' ev isMax disps invalid).cv r c) invalid
    = Wta.wtaPixel isMax disps ((wtaOfMc x ev isMax disps invalid).cv (r + r0) (c + c0)) invalid
  congr 1
  unfold wtaOfMc
  simp only
  rw [hgmin, hgmax, hsp]
  apply List.map_congr_left
  intro j hj
  have hjn := List.mem_range.1 hj
  congr 1
  have hk : gridMin x'.dminG x'.L.rows x'.L.cols * (x'.sp : Int) + j
      = gridMin x.dminG x.L.rows x.L.cols * (x.sp : Int) + j := by rw [hgmin, hsp]
  have hjn' : j < nDisp (gridMin x'.dminG x'.L.rows x'.L.cols) (gridMax x'.dmaxG x'.L.rows x'.L.cols) x'.sp := by
    rw [hgmin, hgmax, hsp]; exact hjn
  have hkle : gridMin x.dminG x.L.rows x.L.cols * (x.sp : Int) + j
      ≤ gridMax x.dmaxG x.L.rows x.L.cols * (x.sp : Int) := by
    rw [nDisp_eq _ _ _ hsh.sp_pos hg] at hjn
    have hs' : (0 : Int) ≤ (x.sp : Int) := Int.natCast_nonneg _
    have hnn : 0 ≤ (gridMax x.dmaxG x.L.rows x.L.cols - gridMin x.dminG x.L.rows x.L.cols) * (x.sp : Int) :=
      Int.mul_nonneg (by omega) hs'
    have : (j : Int) ≤ (gridMax x.dmaxG x.L.rows x.L.cols - gridMin x.dminG x.L.rows x.L.cols) * (x.sp : Int) := by
      omega
    rw [Int.sub_mul] at this
    omega
  have hklo : gridMin x.dminG x.L.rows x.L.cols * (x.sp : Int)
      ≤ gridMin x.dminG x.L.rows x.L.cols * (x.sp : Int) + j := by omega
  exact costVolume_crop_eq_whole x x' hwf hwf' hz hz' hp r0 c0 hcrop hfit j j hjn hjn' hk r c hr hc
    (fun q hq => hcone q (inCone_mono (mcConeK_le (paramsOf x) hsh.sp_pos _ _ _ hklo hkle) hq))

end Pandora.C13
