/-
  C12 — `Ambiguity.compute_ambiguity_and_sampled_ambiguity` REGENERATED from the Python source
  (`Generated/KernelsConf.lean: computeAmbiguitySampledPx`) is equal, for every cost curve, eta grid and pair of global
  extremes with `max_cost ≠ min_cost`, to the hand model's `(pixelAmbiguity, pixelSampled)` — the sampled ambiguity is what
  `compute_risk` is fed with.
-/
import PandoraModel.Properties.C12Kernels

set_option linter.unusedSimpArgs false
set_option linter.unusedVariables false

namespace Pandora.C12Kernels
open Pandora Pandora.Confidence Pandora.PyLoops Pandora.PyVec Pandora.C12
open Pandora.Generated.KernelsConf

/-- `np.sum(costs_comparison, axis=0)` -/
theorem colCounts_eq (M : List (List Bool)) (ne : Nat) :
    intsToFl (colCounts M (ne : Int))
      = embedQ (((List.range ne).map (fun i => (Confidence.column false M i).count true)).map (fun (a : Nat) => (a : ℚ))) := by
  simp only [intsToFl, colCounts, embedQ, Int.toNat_natCast, List.map_map]
  apply List.map_congr_left
  intro i _
  simp [Function.comp, countTrue, ofInt, PyVec.column, Confidence.column]

/-- **`compute_ambiguity_and_sampled_ambiguity`: the generated per-pixel function is the hand model.**  Same hypotheses as
    `computeAmbiguity_generated_eq`; the second component is the vector of per-eta counts `sampled_ambiguity[row, col, :]`. -/
theorem computeAmbiguitySampled_generated_eq (mn mx : ℚ) (etas : List ℚ) (c : Curve) (hr : mx ≠ mn) (hc : c ≠ []) :
    computeAmbiguitySampledPx (embedCurve c) (Fl.fin mn) (Fl.fin mx) (embedQ etas)
      = .ok (Fl.fin ((pixelAmbiguity mn mx etas c : Nat) : ℚ),
             embedQ ((pixelSampled mn mx etas c).map (fun (a : Nat) => (a : ℚ)))) := by
  have hlen : 0 < c.length := List.length_pos_iff.mpr hc
  have h0 : mx - mn ≠ 0 := sub_ne_zero.mpr hr
  have hnd : PyVec.len (embedCurve c) = (c.length : Int) := by simp [PyVec.len, embedCurve]
  have hne : PyVec.len (embedQ etas) = (etas.length : Int) := by simp [PyVec.len, embedQ]
  have hnonempty : nonEmpty (embedCurve c) = true := by
    cases c with
    | nil => exact absurd rfl hc
    | cons a l => rfl
  simp only [computeAmbiguitySampledPx, hnd, hne, twoDim_embed etas c.length hlen, nanmin_embed, sub_fin, hnonempty]
  simp only [pixelAmbiguity, pixelSampled, pixelBest]
  cases hm : lmin (numsOf c) with
  | none =>
    simp [optNan, Fl.isNan, reshapeRowsOk, length_repeatEach, embedQ, hlen, ofInt, full, PyVec.len]
  | some m =>
    have e1 : ((c.length : Int) * (etas.length : Int)) = ((c.length * etas.length : Nat) : Int) := by push_cast; ring
    have hresh : ∀ l : List Bool, reshape2 l (c.length : Int) (etas.length : Int) = Confidence.chunks etas.length c.length l := by
      intro l; simp [reshape2, chunks_eq]
    simp only [optNan, sub_fin, fdiv_fin _ _ h0, Fl.isNan, Bool.false_eq_true, if_false, hr, normalizedCv_embed mn mx c hr,
      e1, cmp_embed mn mx etas c m hr hlen, hresh, colCounts_eq]
    have hl1 : (pixelCmp mn mx etas c m).length = c.length * etas.length := length_pixelCmp mn mx etas c m hlen
    simp [reshapeRowsOk, reshapeOk, length_repeatEach, sameLen, full, embedQ, zip2, hlen, length_twoDimEtas, mapR, maskSet, ofInt,
      countTrue, Nat.mul_comm, toNat_mul_cast, hl1]

end Pandora.C12Kernels
