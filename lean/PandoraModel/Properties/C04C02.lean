/-
  C04 ∘ C02 — the NaN pattern the criteria model of C04 *assumes* of the cost volume (`Criteria.computable`,
  an own declarative definition that Properties/C04.lean only compares with the real cost volume by sampling)
  is a *theorem* about the matching-cost model of C02 (`MC.costVolume`, which follows the code of
  `compute_cost_volume` and `cv_masked`), for every measure, window and sub-pixel factor.

  * `toCv`             the adapter: a matching-cost input seen as an input of the criteria model
  * `computable_iff_cause`      `Criteria.computable (toCv x) r c j  ⇔  MC.cause x r c (gmin·sp + j) = computable`
                                (two independently written declarative predicates agree; no side condition)
  * `rawPlane_isNan_iff`        every measure: the plane before masking is NaN exactly where a window leaves its image
                                (zncc: a vanished or thresholded variance gives the number 0, not NaN; census: any odd window)
  * `nan_iff_not_computable`    **the cell `(r, c, gmin + j/sp)` of the model's cost volume is NaN  ⇔  `computable` is false**
  * `mcAllNan_eq`, `composedMask_eq`  the criteria model fed with the all-NaN indicator of the matching-cost model
                                is the criteria model of C04
  * `invalid_iff_all_costs_nan` **flag word carries an invalidating bit (0, 1, 6, 7)  ⇔  every cost of the pixel is NaN**,
                                for the matching-cost model composed with the criteria model
  * `composed_spec`, `composed_spec_disp`  every "before validation" clause of C04 holds of the composition, including
                                "invalid flag ⇔ invalid disparity" for any cost values with the model's NaN pattern

  Hypotheses (all explicit): `MC.Shape x` — odd window, `subpix > 0`, the two images of the same size, at least one
  column — and `gridMin ≤ gridMax` (implied by the decidable `MC.wfShape`: `*_of_wf` corollaries).  Not needed:
  `noTinyVariance` (zncc), census window ∈ {3, 5}, any bound on the interval (`inDomain`), `valid_pixels ≠ no_data_mask`.
-/
import PandoraModel.Model.PipelineRun
import PandoraModel.Properties.C04
import PandoraModel.Properties.C02Zncc

namespace Pandora.C04C02
open Pandora

/-! ### the adapter between the two input representations -/

theorem clsOf_nodata_iff (m : MC.Mask) (r c : Nat) : clsOf m r c = .nodata ↔ m.code (r : Int) (c : Int) = m.nodata := by
  unfold clsOf
  by_cases h1 : m.code (r : Int) (c : Int) = m.nodata
  · simp [h1]
  · by_cases h2 : m.code (r : Int) (c : Int) = m.valid <;> simp [h1, h2]

theorem isInvalid_eq (m : MC.Mask) (hp : m.present = true) (r c : Nat) :
    MC.isInvalid m (r : Int) (c : Int) = (clsOf m r c == .invalid) := by
  unfold MC.isInvalid clsOf
  by_cases h1 : m.code (r : Int) (c : Int) = m.nodata
  · rw [if_pos h1]; simp [h1]
  · rw [if_neg h1]
    by_cases h2 : m.code (r : Int) (c : Int) = m.valid
    · rw [if_pos h2]; simp [h2]
    · rw [if_neg h2]; simp [h1, h2, hp]

/-- the dilated nodata mask of `criteria.py` (loop over the window, cells outside the image skipped) is the
    "some nodata in the window" of the matching-cost specification, for a window inside the image -/
theorem winAll_eq_not_dilated (m : MC.Mask) (hp : m.present = true) (rows cols o r c : Nat)
    (hin : o ≤ r ∧ r + o < rows ∧ o ≤ c ∧ c + o < cols) :
    MC.winAll o (fun a b => ! MC.isNodata m a b) (r : Int) (c : Int) = ! Criteria.dilated rows cols o (clsOf m) r c := by
  obtain ⟨h1, h2, h3, h4⟩ := hin
  rw [Bool.eq_iff_iff, MC.winAll_iff]
  simp only [Bool.not_eq_true', ← Bool.not_eq_true, C04.dilated_iff, C04.NodataNear]
  constructor
  · rintro H ⟨r', c', a1, a2, a3, a4, a5, a6, hm⟩
    have := H (r' : Int) (c' : Int) (by omega) (by push_cast; omega) (by omega) (by push_cast; omega)
    simp [MC.isNodata, hp, (clsOf_nodata_iff m r' c').mp hm] at this
  · intro H a b b1 b2 b3 b4
    push_cast at b2 b4
    by_contra hne
    apply H
    have hcode : m.code a b = m.nodata := by simpa [MC.isNodata, hp] using hne
    refine ⟨a.toNat, b.toNat, by omega, by omega, by omega, by omega, by omega, by omega, ?_⟩
    rw [clsOf_nodata_iff]
    have ea : ((a.toNat : Nat) : Int) = a := by omega
    have eb : ((b.toNat : Nat) : Int) = b := by omega
    rw [ea, eb]; exact hcode

/-- "no nodata in the window and the centre not masked" — the two models agree on a window inside the image -/
theorem maskOk_eq (m : MC.Mask) (rows cols o r c : Nat) (hin : o ≤ r ∧ r + o < rows ∧ o ≤ c ∧ c + o < cols) :
    MC.maskOk o m (r : Int) (c : Int)
      = !(m.present && (Criteria.dilated rows cols o (clsOf m) r c || clsOf m r c == .invalid)) := by
  unfold MC.maskOk
  by_cases hp : m.present = true
  · rw [winAll_eq_not_dilated m hp rows cols o r c hin, isInvalid_eq m hp r c, hp]
    cases Criteria.dilated rows cols o (clsOf m) r c <;> cases (clsOf m r c == Criteria.Cls.invalid) <;> rfl
  · have hp' : m.present = false := by simpa using hp
    have hw : MC.winAll o (fun a b => ! MC.isNodata m a b) (r : Int) (c : Int) = true := by
      rw [MC.winAll_iff]; intro a b _ _ _ _; simp [MC.isNodata, hp']
    simp [hp', hw, MC.isInvalid]

/-- a usable right position: the criteria model's `rightOk` is "window inside the image and mask fine" -/
theorem rightOk_eq (x : MC.Input) (r : Nat) (hr : MC.half x.w ≤ r ∧ r + MC.half x.w < x.L.rows) (p : Int) :
    Criteria.rightOk (toCv x) r p
      = (decide ((MC.half x.w : Int) ≤ p ∧ p + (MC.half x.w : Nat) < x.L.cols) && MC.maskOk (MC.half x.w) x.mR (r : Int) p) := by
  unfold Criteria.rightOk Criteria.rDilAt Criteria.rInvAt
  simp only [toCv]
  by_cases hin : ((MC.half x.w : Nat) : Int) ≤ p ∧ p + (MC.half x.w : Nat) < x.L.cols
  · have e : ((p.toNat : Nat) : Int) = p := by omega
    have hm := maskOk_eq x.mR x.L.rows x.L.cols (MC.half x.w) r p.toNat ⟨hr.1, hr.2, by omega, by omega⟩
    rw [e] at hm
    rw [hm]
    have h1 : ((MC.half x.w : Nat) : Int) ≤ p ∧ p + (MC.half x.w : Nat) ≤ (x.L.cols : Int) - 1 := by omega
    simp [hin, h1]
  · have h1 : ¬ (((MC.half x.w : Nat) : Int) ≤ p ∧ p + (MC.half x.w : Nat) ≤ (x.L.cols : Int) - 1) := by omega
    simp [hin, h1]

/-! ### index arithmetic of the samples -/

theorem sample_div (g : Int) (sp j : Nat) (hs : 0 < sp) :
    (g * (sp : Int) + (j : Int)) / (sp : Int) = g + ((j / sp : Nat) : Int) := by
  rw [MC.add_mul_ediv _ _ sp hs]
  norm_cast

theorem sample_mod (g : Int) (sp j : Nat) : (g * (sp : Int) + (j : Int)) % (sp : Int) = ((j % sp : Nat) : Int) := by
  rw [Int.add_comm, Int.add_mul_emod_self_right]
  norm_cast

theorem sample_fracBit (g : Int) (sp j : Nat) :
    MC.fracBit (g * (sp : Int) + (j : Int)) sp = if j % sp = 0 then 0 else 1 := by
  unfold MC.fracBit
  rw [sample_mod]
  by_cases h : j % sp = 0
  · rw [if_pos h, if_pos (by omega)]
  · rw [if_neg h, if_neg (by omega)]

/-- the two models sample the same disparities: `dmin, dmin + 1/subpix, …, dmax` -/
theorem nDisp_eq (x : MC.Input) (hs : 0 < x.sp)
    (hg : MC.gridMin x.dminG x.L.rows x.L.cols ≤ MC.gridMax x.dmaxG x.L.rows x.L.cols) :
    Criteria.nDisp (toCv x) = MC.nDisp (MC.gridMin x.dminG x.L.rows x.L.cols) (MC.gridMax x.dmaxG x.L.rows x.L.cols) x.sp := by
  rw [MC.nDisp_eq _ _ _ hs hg]
  unfold Criteria.nDisp
  simp only [toCv]
  obtain ⟨d, hd⟩ : ∃ d : Nat, MC.gridMax x.dmaxG x.L.rows x.L.cols - MC.gridMin x.dminG x.L.rows x.L.cols = (d : Int) :=
    ⟨_, (Int.toNat_of_nonneg (by omega)).symm⟩
  rw [hd, ← Int.natCast_mul, Int.toNat_natCast, Int.toNat_natCast]

/-! ### the two declarative predicates agree -/

/-- **`computable` of C04 is `cause = computable` of C02**, sample by sample: same windows, same mask tests,
    both interpolation neighbours for a fractional disparity, same per-pixel interval test -/
theorem computable_iff_cause (x : MC.Input) (h : MC.Shape x) (r c j : Nat) :
    Criteria.computable (toCv x) r c j = true ↔
      MC.cause x (r : Int) (c : Int) (MC.gridMin x.dminG x.L.rows x.L.cols * (x.sp : Int) + (j : Int)) = .computable := by
  have hs := h.sp_pos
  rw [MC.cause_computable_iff]
  set g := MC.gridMin x.dminG x.L.rows x.L.cols with hg
  set o := MC.half x.w with ho
  have hdiv := sample_div g x.sp j hs
  have hfrac := sample_fracBit g x.sp j
  unfold Criteria.computable MC.LeftInside MC.RightInside MC.maskOkR
  rw [hdiv, hfrac, h.cols_eq]
  simp only [← ho]
  have hx : (c : Int) + (toCv x).dmin + ((j / (toCv x).subpix : Nat) : Int) = (c : Int) + (g + ((j / x.sp : Nat) : Int)) := by
    simp only [toCv]; omega
  simp only [hx]
  set p : Int := (c : Int) + (g + ((j / x.sp : Nat) : Int)) with hp
  have hwin : Criteria.winInside (toCv x).rows (toCv x).cols (toCv x).off r c = true ↔
      ((o : Int) ≤ (r : Int) ∧ (r : Int) + (o : Int) < (x.L.rows : Int) ∧ (o : Int) ≤ (c : Int) ∧ (c : Int) + (o : Int) < (x.L.cols : Int)) := by
    unfold Criteria.winInside
    simp only [toCv, decide_eq_true_eq, ← ho]
    omega
  have hint : ((toCv x).pixMin r c * (x.sp : Int) ≤ (toCv x).dmin * (x.sp : Int) + (j : Int)
        ∧ (toCv x).dmin * (x.sp : Int) + (j : Int) ≤ (toCv x).pixMax r c * (x.sp : Int)) ↔
      ¬ (g * (x.sp : Int) + (j : Int) < x.dminG r c * (x.sp : Int) ∨ g * (x.sp : Int) + (j : Int) > x.dmaxG r c * (x.sp : Int)) := by
    simp only [toCv, ← hg]
    omega
  by_cases hL : ((o : Int) ≤ (r : Int) ∧ (r : Int) + (o : Int) < (x.L.rows : Int) ∧ (o : Int) ≤ (c : Int) ∧ (c : Int) + (o : Int) < (x.L.cols : Int))
  · have hLn : o ≤ r ∧ r + o < x.L.rows ∧ o ≤ c ∧ c + o < x.L.cols := by omega
    have hmL := maskOk_eq x.mL x.L.rows x.L.cols o r c hLn
    have hrp := fun q => rightOk_eq x r ⟨hLn.1, hLn.2.1⟩ q
    simp only [← ho] at hrp
    have hsub : (toCv x).subpix = x.sp := rfl
    simp only [Bool.and_eq_true, hwin, hrp, hsub]
    have hmL' : (!((toCv x).hasL && (Criteria.dilated (toCv x).rows (toCv x).cols (toCv x).off (toCv x).mL r c
        || (toCv x).mL r c == Criteria.Cls.invalid))) = MC.maskOk o x.mL (r : Int) (c : Int) := hmL.symm
    rw [hmL']
    by_cases hj0 : j % x.sp = 0
    · simp only [hj0, if_true, Bool.and_eq_true, decide_eq_true_eq]
      constructor
      · rintro ⟨⟨⟨_, b⟩, ⟨c1, c2⟩, c3⟩, d⟩
        exact ⟨hint.mp d, hL, ⟨c1, by omega⟩, b, by simp [c3]⟩
      · rintro ⟨d, _, ⟨c1, c2⟩, b, c3⟩
        simp only [decide_true, Bool.true_or] at c3
        exact ⟨⟨⟨hL, b⟩, ⟨c1, by omega⟩, c3.1⟩, hint.mpr d⟩
    · simp only [hj0, if_false, Bool.and_eq_true, decide_eq_true_eq]
      constructor
      · rintro ⟨⟨⟨_, b⟩, ⟨⟨c1, c2⟩, c3⟩, ⟨c4, c5⟩, c6⟩, d⟩
        exact ⟨hint.mp d, hL, ⟨c1, by omega⟩, b, by simp [c3, c6]⟩
      · rintro ⟨d, _, ⟨c1, c2⟩, b, c3⟩
        simp only [Bool.or_eq_true, decide_eq_true_eq] at c3
        have c6 : MC.maskOk o x.mR (r : Int) (p + 1) = true := by
          rcases c3.2 with c | c
          · omega
          · exact c
        exact ⟨⟨⟨hL, b⟩, ⟨⟨c1, by omega⟩, c3.1⟩, ⟨by omega, by omega⟩, c6⟩, hint.mpr d⟩
  · have hA : Criteria.winInside (toCv x).rows (toCv x).cols (toCv x).off r c = false := by
      cases hq : Criteria.winInside (toCv x).rows (toCv x).cols (toCv x).off r c
      · rfl
      · exact absurd (hwin.mp hq) hL
    simp only [hA, Bool.false_and]
    constructor
    · intro hc; cases hc
    · intro hc; exact absurd hc.2.1 hL

/-! ### the planes before masking: NaN exactly outside the images, for every measure -/

theorem rawPlane_isNan_iff (x : MC.Input) (h : MC.Shape x) (k r c : Int) :
    (MC.rawPlane x k r c).isNan = true ↔ ¬ (MC.LeftInside x r c ∧ MC.RightInside x c k) := by
  unfold MC.rawPlane
  cases hm : x.meas with
  | sad =>
    simp only
    rw [MC.rawSadSsd_eq x h (Or.inl hm) k r c]
    split
    · rename_i hin; simp [MC.valueSpec, hm, MC.Cell.isNan, hin]
    · rename_i hin; simp [MC.Cell.isNan, hin]
  | ssd =>
    simp only
    rw [MC.rawSadSsd_eq x h (Or.inr hm) k r c]
    split
    · rename_i hin; simp [MC.valueSpec, hm, MC.Cell.isNan, hin]
    · rename_i hin; simp [MC.Cell.isNan, hin]
  | census =>
    simp only
    rw [MC.rawCensus_eq x h k r c]
    split
    · rename_i hin; simp [MC.valueCensusBits, MC.Cell.isNan, hin]
    · rename_i hin; simp [MC.Cell.isNan, hin]
  | zncc =>
    simp only
    exact C02.rawZncc_isNan_iff x h k r c

/-- the plane itself as a value function that is never NaN (`0` stands in where the plane is NaN) -/
def rawVal (x : MC.Input) : Int → Int → Int → MC.Cell :=
  fun r c k => if (MC.rawPlane x k r c).isNan then .num 0 else MC.rawPlane x k r c

theorem rawVal_not_nan (x : MC.Input) (r c k : Int) : (rawVal x r c k).isNan = false := by
  unfold rawVal
  split
  · rfl
  · rename_i hq; simpa using hq

theorem rawOK_rawVal (x : MC.Input) (h : MC.Shape x) : MC.RawOK x (rawVal x) := by
  intro k r c
  have hiff := rawPlane_isNan_iff x h k r c
  split
  · rename_i hin
    have : (MC.rawPlane x k r c).isNan = false := by
      cases hq : (MC.rawPlane x k r c).isNan
      · rfl
      · exact absurd hin (hiff.mp hq)
    unfold rawVal
    simp [this]
  · rename_i hin
    have hq := hiff.mpr hin
    cases hc : MC.rawPlane x k r c with
    | nan => rfl
    | num q => rw [hc] at hq; cases hq
    | zn a b => rw [hc] at hq; cases hq

/-! ### the NaN pattern of the model's cost volume is C04's `computable` -/

/-- **every measure, every window, every subpix**: the cell of pixel `(r, c)` at sample `j` (disparity
    `gridMin + j/subpix`) of the model's cost volume is NaN exactly when C04's `computable` is false -/
theorem nan_iff_not_computable (x : MC.Input) (h : MC.Shape x)
    (hg : MC.gridMin x.dminG x.L.rows x.L.cols ≤ MC.gridMax x.dmaxG x.L.rows x.L.cols) (r c j : Nat)
    (hj : j < MC.nDisp (MC.gridMin x.dminG x.L.rows x.L.cols) (MC.gridMax x.dmaxG x.L.rows x.L.cols) x.sp) :
    (MC.costVolume x (r : Int) (c : Int) j).isNan = ! Criteria.computable (toCv x) r c j := by
  have h1 := C02.nan_iff_not_computable x h (rawVal x) (rawOK_rawVal x h) (rawVal_not_nan x) hg (r : Int) (c : Int) j hj
  have h2 := computable_iff_cause x h r c j
  rw [Bool.eq_iff_iff, h1, Bool.not_eq_true', ← Bool.not_eq_true, h2]

/-- the same for inputs accepted by the decidable `wfShape` -/
theorem nan_iff_not_computable_of_wf (x : MC.Input) (hwf : MC.wfShape x = true) (r c j : Nat)
    (hj : j < MC.nDisp (MC.gridMin x.dminG x.L.rows x.L.cols) (MC.gridMax x.dmaxG x.L.rows x.L.cols) x.sp) :
    (MC.costVolume x (r : Int) (c : Int) j).isNan = ! Criteria.computable (toCv x) r c j :=
  nan_iff_not_computable x (C02.shape_of_wf x hwf) (C02.gridOK_of_wf x hwf) r c j hj

/-! ### composition: the criteria model fed with the matching-cost model -/

theorem mcAllNan_iff (x : MC.Input) (r c : Nat) :
    mcAllNan x r c = true ↔
      ∀ j, j < MC.nDisp (MC.gridMin x.dminG x.L.rows x.L.cols) (MC.gridMax x.dmaxG x.L.rows x.L.cols) x.sp →
        (MC.costVolume x (r : Int) (c : Int) j).isNan = true := by
  unfold mcAllNan
  simp only [List.all_eq_true, List.mem_range]

theorem mcAllNan_eq (x : MC.Input) (h : MC.Shape x)
    (hg : MC.gridMin x.dminG x.L.rows x.L.cols ≤ MC.gridMax x.dmaxG x.L.rows x.L.cols) (r c : Nat) :
    mcAllNan x r c = Criteria.allNanOf (toCv x) r c := by
  rw [Bool.eq_iff_iff, mcAllNan_iff]
  unfold Criteria.allNanOf
  simp only [List.all_eq_true, List.mem_range, nDisp_eq x h.sp_pos hg]
  constructor
  · intro H j hj
    rw [← nan_iff_not_computable x h hg r c j hj]; exact H j hj
  · intro H j hj
    rw [nan_iff_not_computable x h hg r c j hj]; exact H j hj

/-- the composition is the criteria model of C04 (whose theorems therefore hold of it) -/
theorem composedMask_eq (x : MC.Input) (h : MC.Shape x)
    (hg : MC.gridMin x.dminG x.L.rows x.L.cols ≤ MC.gridMax x.dmaxG x.L.rows x.L.cols) (r c : Nat) :
    composedMask x r c = Criteria.modelMask (toCv x) r c := by
  unfold composedMask Criteria.modelMask Criteria.finalMask
  rw [mcAllNan_eq x h hg r c]

/-- C04: an in-image pixel of the criteria model carries an invalidating bit iff all its samples are not computable -/
theorem invalidPre_eq_allNan (J : Criteria.CvInput) (r c : Nat) (hd : J.dmin ≤ J.dmax) (hr : r < J.rows) (hc : c < J.cols) :
    Criteria.isInvalidPre (Criteria.modelMask J r c) = Criteria.allNanOf J r c := by
  cases hb : Criteria.isBorder J.toInput r c
  · exact (C04.criteria_interior J r c hd (C04.interior_of_not_border _ r c hr hc hb)).2.2.2.2.2.1
  · obtain ⟨hm, hn⟩ := C04.criteria_border J r c hb
    rw [hm, hn]; decide

/-- **flag word invalid ⇔ all costs of the pixel NaN**, for the matching-cost model composed with the criteria
    model: the mask `criteria.py` builds from the NaN pattern of the cost volume `compute_cost_volume` +
    `cv_masked` produce carries one of the bits 0, 1, 6, 7 exactly when every cost of the pixel is NaN -/
theorem invalid_iff_all_costs_nan (x : MC.Input) (h : MC.Shape x)
    (hg : MC.gridMin x.dminG x.L.rows x.L.cols ≤ MC.gridMax x.dmaxG x.L.rows x.L.cols) (r c : Nat)
    (hr : r < x.L.rows) (hc : c < x.L.cols) :
    Criteria.isInvalidPre (composedMask x r c) = true ↔
      ∀ j, j < MC.nDisp (MC.gridMin x.dminG x.L.rows x.L.cols) (MC.gridMax x.dmaxG x.L.rows x.L.cols) x.sp →
        (MC.costVolume x (r : Int) (c : Int) j).isNan = true := by
  rw [composedMask_eq x h hg r c, invalidPre_eq_allNan (toCv x) r c hg hr hc, ← mcAllNan_eq x h hg r c, mcAllNan_iff]

theorem invalid_iff_all_costs_nan_of_wf (x : MC.Input) (hwf : MC.wfShape x = true) (r c : Nat)
    (hr : r < x.L.rows) (hc : c < x.L.cols) :
    Criteria.isInvalidPre (composedMask x r c) = true ↔
      ∀ j, j < MC.nDisp (MC.gridMin x.dminG x.L.rows x.L.cols) (MC.gridMax x.dmaxG x.L.rows x.L.cols) x.sp →
        (MC.costVolume x (r : Int) (c : Int) j).isNan = true :=
  invalid_iff_all_costs_nan x (C02.shape_of_wf x hwf) (C02.gridOK_of_wf x hwf) r c hr hc

/-- every "before validation" clause of C04 holds of the composition (mask and NaN pattern both computed by
    the models of the code) -/
theorem composed_spec (x : MC.Input) (h : MC.Shape x)
    (hg : MC.gridMin x.dminG x.L.rows x.L.cols ≤ MC.gridMax x.dmaxG x.L.rows x.L.cols) (invalid : Val) (r c : Nat)
    (hr : r < x.L.rows) (hc : c < x.L.cols) :
    Criteria.failingClauses (toCv x) invalid r c (composedMask x r c) (mcAllNan x r c) none = [] := by
  rw [composedMask_eq x h hg r c, mcAllNan_eq x h hg r c]
  exact C04.criteria_spec (toCv x) invalid r c hg hr hc

/-- … and with the disparity step: for any cost values whose NaN pattern is that of the model's cost volume
    (the symbolic zncc cells `cov/√vv` are numbers, whatever their value), the pixel carries an invalidating
    flag iff its disparity is `invalid_disparity` -/
theorem composed_spec_disp (x : MC.Input) (h : MC.Shape x)
    (hg : MC.gridMin x.dminG x.L.rows x.L.cols ≤ MC.gridMax x.dmaxG x.L.rows x.L.cols) (invalid : Val) (isMax : Bool)
    (r c : Nat) (hr : r < x.L.rows) (hc : c < x.L.cols) (costs : List Val)
    (hlen : costs.length = MC.nDisp (MC.gridMin x.dminG x.L.rows x.L.cols) (MC.gridMax x.dmaxG x.L.rows x.L.cols) x.sp)
    (hnan : ∀ j (hj : j < costs.length), (costs[j]).isNan = (MC.costVolume x (r : Int) (c : Int) j).isNan)
    (hinv : C04.InvalidNotSample (MC.gridMin x.dminG x.L.rows x.L.cols) x.sp costs.length invalid) :
    Criteria.failingClauses (toCv x) invalid r c (composedMask x r c) (mcAllNan x r c)
      (some (Criteria.toDisp isMax (MC.gridMin x.dminG x.L.rows x.L.cols) x.sp invalid costs)) = [] := by
  have hall : costs.all Val.isNan = mcAllNan x r c := by
    rw [Bool.eq_iff_iff, mcAllNan_iff, List.all_eq_true]
    constructor
    · intro H j hj
      rw [← hnan j (by omega)]
      exact H _ (List.getElem_mem _)
    · intro H v hv
      obtain ⟨j, hj, rfl⟩ := List.mem_iff_getElem.mp hv
      rw [hnan j hj]
      exact H j (by omega)
  rw [composedMask_eq x h hg r c, mcAllNan_eq x h hg r c]
  exact C04.criteria_spec_disp (toCv x) invalid isMax r c costs hg hr hc (by rw [hall, mcAllNan_eq x h hg r c]) hinv

/-! ### non-vacuity: the concrete inputs of Properties/C02.lean (3 × 4 pair, window 3, subpix 2, masks, grids) -/

section Examples
open C02.Example

example : MC.Shape (exIn .census) := C02.shape_of_wf _ (by decide)
example : MC.gridMin (exIn .sad).dminG 3 4 ≤ MC.gridMax (exIn .sad).dmaxG 3 4 := by decide
/-- pixel (1, 1): sample 2 (disparity 0) is computable; sample 4 (disparity 1: right centre masked), samples 1, 3
    (disparities ∓1/2: an interpolation neighbour is unusable) and sample 0 are not — in both models -/
example : (List.range 5).map (Criteria.computable (toCv (exIn .sad)) 1 1) = [false, false, true, false, false] := by decide
example : (List.range 5).map (fun j => (MC.costVolume (exIn .sad) 1 1 j).isNan) = [true, true, false, true, true] := by
  decide
/-- pixel (1, 2) is masked on the left: no sample is computable, every cost is NaN (zncc included) -/
example : (List.range 5).map (Criteria.computable (toCv (exIn .zncc)) 1 2) = [false, false, false, false, false] := by decide
example : (List.range 5).map (fun j => (MC.costVolume (exIn .zncc) 1 2 j).isNan) = [true, true, true, true, true] := by
  decide
/-- the composed mask of row 1: border, valid pixel with an incomplete range (4), masked pixel (64 + 4 + 2), border -/
example : (List.range 4).map (composedMask (exIn .sad) 1) = [1, 4, 70, 1] := by decide
example : Criteria.isInvalidPre (composedMask (exIn .sad) 1 1) = false := by decide
example : Criteria.isInvalidPre (composedMask (exIn .sad) 1 2) = true := by decide

end Examples

end Pandora.C04C02
