/-
  C05 — whole-function theorems for `check_pipeline_section` (composition of the two `update_conf`
  calls with `PandoraMachine.check_conf`), for the model `Model/Config.lean` instantiated with the
  tables regenerated from the source (`Generated/Schemas.lean`).

  `Properties/C05.lean` proves the pieces (a class's `check_conf`, the machine's `pipeline_cfg` after
  `check_conf`, `update_conf` on a dictionary of leaves).  Here they are composed:

    1. a check callback, as a statement independent of the machine's state (`stepCallback_ok_iff`,
       `StepAccepted`), the loop of one round (`checkLoop_ok_iff`), both rounds (`machineCheck_ok_iff`)
    2. what `Abstract<Kind>(**cfg)` returns for a class of the source (`construct_facts`): the user's
       keys first, unchanged; the defaults after them; every value already in the form
       `update_conf` would give it
    3. `check_pipeline_section` on a fresh machine:
         `checkPipelineSection_structure`      the result is `{"pipeline": machine.pipeline_cfg}`, the
                                               user's steps in the user's order, each holding what its
                                               class returned for the user's (rewritten) step
         `checkPipelineSection_user_kept`      (1) every step, every user key/value kept (magic strings
                                               rewritten), at its position
         `checkPipelineSection_completed`      (2) every documented parameter of every step is present,
                                               with the documented default when the user omitted it
         `checkPipelineSection_idempotent`     (3) checking the result again returns the result
         `checkPipelineSection_ok_iff`         (4) accepted ⇔ the step names are a path of the documented
                                               automaton ∧ every step is accepted by its class check
                                               (∧ the mirrored validation test)
    4. the forms `get_config_pipeline` can deliver (`checkPipelineSection_no_pipeline`,
       `checkPipelineSection_not_dict`)
    5. non-vacuity examples
    6. `checkPipelineSection_resultOk`: the executable specification `ConfigSpec.resultOk` (what the
       harness evaluates on the implementation's result) holds of the model's result
-/
import PandoraModel.Properties.C05
import PandoraModel.Lemmas.ConfigMerge

namespace Pandora.C05W
open Pandora Pandora.Config Pandora.ConfigSpec Pandora.C05 Pandora.Generated.Schemas

/-! ### 1. The check callbacks and the loop -/

theorem ofName_some {s : String} {k : Machine.Kind} (h : Machine.Kind.ofName? s = some k) : k.name = s := by
  unfold Machine.Kind.ofName? at h
  have := List.find?_some h
  simpa using this

theorem kindName_inj {a b : Machine.Kind} (h : a.name = b.name) : a = b := by
  cases a <;> cases b <;> first | rfl | (simp [Machine.Kind.name] at h)

/-- the test a check callback makes on the dictionary its class returned: `check_band_pipeline` on
    both images (matching cost), "a left disparity grid needs a right one" (validation), the
    bilateral margin must be computable (filter) -/
def extraOk (fl : MachineFlags) (kind : Machine.Kind) (l r : ImgInfo) (out : Dict) : Bool :=
  match kind with
  | .matchingCost =>
    bandCheck fl.bandWhole l.bands ((Dict.lookup out "band").getD .null) &&
    bandCheck fl.bandWhole r.bands ((Dict.lookup out "band").getD .null)
  | .validation => !(l.dispSource.isStr && r.dispSource.isNull)
  | .filter => !(decide (Dict.lookup out "sigma_space" = some (.float .pinf)))
  | _ => true

/-- the machine after a successful callback -/
def afterStep (m : CState) (kind : Machine.Kind) (name : String) (out : Dict) : CState :=
  match kind with
  | .matchingCost => { m with pipelineCfg := Dict.setKey m.pipelineCfg name (.obj out),
                              step := (Dict.lookup out "step").getD (.int 1) }
  | .validation => { m with pipelineCfg := Dict.setKey m.pipelineCfg name (.obj out), rightDispMap := true }
  | _ => { m with pipelineCfg := Dict.setKey m.pipelineCfg name (.obj out) }

/-- a check callback returns normally exactly when the step is a dictionary, its class accepts it
    (`Abstract<Kind>(**cfg)`) and the callback's own test passes (an `optimization` step also needs
    `self.step == 1`) -/
theorem stepCallback_ok_iff (o : Oracle) (fl : MachineFlags) (reg : List KindDesc) (kind : Machine.Kind)
    (name : String) (stepCfg : JVal) (l r : ImgInfo) (m m' : CState) :
    stepCallback o fl reg kind name stepCfg l r m = .ok m' ↔
      ∃ cfg kd out, stepCfg = .obj cfg ∧ kindDesc? reg kind.name = some kd ∧
        (kind = .optimization → pyEq m.step (.int 1) = true) ∧
        construct o kd l r cfg = .ok out ∧ extraOk fl kind l r out = true ∧
        m' = afterStep m kind name out := by
  unfold stepCallback
  cases stepCfg with
  | obj cfg =>
    simp only [JVal.obj.injEq, exists_and_left, exists_eq_left']
    cases hk : kindDesc? reg kind.name with
    | none => simp
    | some kd =>
      simp only [Option.some.injEq, exists_eq_left']
      cases hc : construct o kd l r cfg with
      | error e =>
        cases kind <;> simp
        split <;> simp
      | ok out =>
        cases kind <;> simp [extraOk, afterStep]
        all_goals first
          | exact eq_comm
          | (split <;> rename_i hcond <;> simp [hcond] <;> first | exact eq_comm | skip)
        have : (l.dispSource.isStr = false ∨ r.dispSource.isNull = false) := by
          cases h1 : l.dispSource.isStr <;> cases h2 : r.dispSource.isNull <;> simp_all
        simp [this]; exact eq_comm
  | _ => simp

/-- "the step `name: v` is accepted by its class check" (`l`, `r` in the order of the round): the
    step name has a known kind, the step is a dictionary, `Abstract<Kind>(**v)` returns, and the
    callback's own test on the returned dictionary passes.  Independent of the machine's state. -/
def StepAccepted (o : Oracle) (fl : MachineFlags) (reg : List KindDesc) (l r : ImgInfo) (name : String)
    (v : JVal) : Prop :=
  ∃ kind cfg kd out, Machine.Kind.ofName? (Machine.kindOf name) = some kind ∧ v = .obj cfg ∧
    kindDesc? reg kind.name = some kd ∧ construct o kd l r cfg = .ok out ∧ extraOk fl kind l r out = true

/-- no class is registered for `optimization` (plugins are not part of the source) -/
def NoOptimization (reg : List KindDesc) : Prop :=
  ∀ kd, kindDesc? reg "optimization" = some kd → kd.classes = []

theorem registry_noOptimization : NoOptimization registry := by
  intro kd h
  have : kindDesc? registry "optimization" = some kind_optimization := by rfl
  rw [this] at h; cases h; rfl

theorem construct_no_class (o : Oracle) (kd : KindDesc) (l r : ImgInfo) (cfg out : Dict)
    (h : kd.classes = []) : construct o kd l r cfg ≠ .ok out := by
  unfold construct
  cases Dict.lookup cfg kd.methodKey with
  | none => simp
  | some v =>
    cases v <;> simp [h, findClass] <;> split <;> simp

/-- with no optimization class, the success of a callback does not depend on the machine -/
theorem stepCallback_accepts (o : Oracle) (fl : MachineFlags) (reg : List KindDesc) (hno : NoOptimization reg)
    (kind : Machine.Kind) (name : String) (hk : Machine.Kind.ofName? (Machine.kindOf name) = some kind)
    (v : JVal) (l r : ImgInfo) (m : CState) :
    (∃ m', stepCallback o fl reg kind name v l r m = .ok m') ↔ StepAccepted o fl reg l r name v := by
  constructor
  · intro ⟨m', h⟩
    obtain ⟨cfg, kd, out, h1, h2, _, h4, h5, _⟩ := (stepCallback_ok_iff ..).1 h
    exact ⟨kind, cfg, kd, out, hk, h1, h2, h4, h5⟩
  · intro ⟨kind', cfg, kd, out, hk', h1, h2, h4, h5⟩
    rw [hk] at hk'; cases hk'
    refine ⟨afterStep m kind name out, (stepCallback_ok_iff ..).2 ⟨cfg, kd, out, h1, h2, ?_, h4, h5, rfl⟩⟩
    intro hopt
    subst hopt
    exact absurd h4 (construct_no_class o kd l r cfg out (hno kd h2))

theorem afterStep_right (m : CState) (kind : Machine.Kind) (name : String) (out : Dict) :
    (afterStep m kind name out).rightDispMap = (m.rightDispMap || decide (kind = .validation)) := by
  cases kind <;> simp [afterStep]

theorem hasKind_cons (k : Machine.Kind) (n : String) (ns : List String) :
    Machine.hasKind k (n :: ns) = (Machine.kindOf n == k.name || Machine.hasKind k ns) := by
  simp [Machine.hasKind]

/-- one round of the loop of `PandoraMachine.check_conf`: it runs to the end exactly when the step
    names spell a path of the documented automaton and every step is accepted by its class check -/
theorem checkLoop_ok_iff (o : Oracle) (fl : MachineFlags) (reg : List KindDesc) (hno : NoOptimization reg)
    (pipeline : Dict) (l r : ImgInfo) :
    ∀ (names : List String) (st : Machine.St) (m : CState),
      (∃ m', checkLoop o fl reg pipeline l r st names m = .ok m') ↔
        (Machine.isPath st names = true ∧
         ∀ n ∈ names, StepAccepted o fl reg l r n ((Dict.lookup pipeline n).getD .null)) := by
  intro names
  induction names with
  | nil => intro st m; simp [checkLoop, Machine.isPath]
  | cons n ns ih =>
    intro st m
    simp only [checkLoop, Machine.isPath, List.mem_cons, forall_eq_or_imp]
    cases hk : Machine.Kind.ofName? (Machine.kindOf n) with
    | none =>
      simp only [Bool.false_eq_true, false_and, iff_false, not_exists]
      intro m' h; cases h
    | some kind =>
      simp only
      cases hdoc : Machine.documented st kind with
      | none =>
        simp only [Bool.false_eq_true, false_and, iff_false, not_exists]
        intro m' h; cases h
      | some st' =>
        simp only
        have hcb := stepCallback_accepts o fl reg hno kind n hk ((Dict.lookup pipeline n).getD .null) l r m
        constructor
        · intro ⟨m', h⟩
          cases hs : stepCallback o fl reg kind n ((Dict.lookup pipeline n).getD .null) l r m with
          | error e => simp [hs] at h
          | ok m1 =>
            simp only [hs] at h
            obtain ⟨hp, hall⟩ := (ih st' m1).1 ⟨m', h⟩
            exact ⟨hp, hcb.1 ⟨m1, hs⟩, hall⟩
        · intro ⟨hp, hacc, hall⟩
          obtain ⟨m1, hs⟩ := hcb.2 hacc
          obtain ⟨m', h⟩ := (ih st' m1).2 ⟨hp, hall⟩
          exact ⟨m', by simp [hs, h]⟩

/-- `right_disp_map` after a round: set as soon as a validation step was checked -/
theorem checkLoop_right (o : Oracle) (fl : MachineFlags) (reg : List KindDesc) (pipeline : Dict) (l r : ImgInfo) :
    ∀ (names : List String) (st : Machine.St) (m m' : CState),
      checkLoop o fl reg pipeline l r st names m = .ok m' →
      m'.rightDispMap = (m.rightDispMap || Machine.hasKind .validation names) := by
  intro names
  induction names with
  | nil => intro st m m' h; simp [checkLoop] at h; subst h; simp [Machine.hasKind]
  | cons n ns ih =>
    intro st m m' h
    simp only [checkLoop] at h
    cases hk : Machine.Kind.ofName? (Machine.kindOf n) with
    | none => simp [hk] at h
    | some kind =>
      simp only [hk] at h
      cases hdoc : Machine.documented st kind with
      | none => simp [hdoc] at h
      | some st' =>
        simp only [hdoc] at h
        cases hs : stepCallback o fl reg kind n ((Dict.lookup pipeline n).getD .null) l r m with
        | error e => simp [hs] at h
        | ok m1 =>
          simp only [hs] at h
          obtain ⟨cfg, kd, out, _, _, _, _, _, hm1⟩ := (stepCallback_ok_iff ..).1 hs
          rw [ih st' m1 m' h, hm1, afterStep_right, hasKind_cons, Bool.or_assoc]
          congr 2
          have hn := ofName_some hk
          by_cases hv : kind = .validation
          · subst hv; simp [← hn]
          · have : ¬ (Machine.kindOf n = Machine.Kind.validation.name) := by
              intro e; apply hv; apply kindName_inj; rw [hn, e]
            simp [hv, this]

theorem extraOk_swap (fl : MachineFlags) (kind : Machine.Kind) (l r : ImgInfo) (out : Dict)
    (h : kind ≠ .validation) : extraOk fl kind r l out = extraOk fl kind l r out := by
  cases kind <;> simp [extraOk, Bool.and_comm] at h ⊢

/-- a step that is not a validation step is accepted in the right/left round iff it is in the
    left/right round -/
theorem StepAccepted_swap (o : Oracle) (fl : MachineFlags) (reg : List KindDesc) (l r : ImgInfo) (n : String)
    (v : JVal) (kind : Machine.Kind) (hk : Machine.Kind.ofName? (Machine.kindOf n) = some kind)
    (hv : kind ≠ .validation) :
    StepAccepted o fl reg r l n v ↔ StepAccepted o fl reg l r n v := by
  constructor
  · intro ⟨kind', cfg, kd, out, hk', h1, h2, h4, h5⟩
    rw [hk] at hk'; cases hk'
    exact ⟨kind, cfg, kd, out, hk, h1, h2, by rw [construct_swap]; exact h4, by rw [← extraOk_swap _ _ _ _ _ hv]; exact h5⟩
  · intro ⟨kind', cfg, kd, out, hk', h1, h2, h4, h5⟩
    rw [hk] at hk'; cases hk'
    exact ⟨kind, cfg, kd, out, hk, h1, h2, by rw [construct_swap]; exact h4, by rw [extraOk_swap _ _ _ _ _ hv]; exact h5⟩

/-- a validation step accepted in the left/right round is accepted in the right/left round iff
    the mirrored test passes: not (a right disparity grid without a left one) -/
theorem StepAccepted_swap_validation (o : Oracle) (fl : MachineFlags) (reg : List KindDesc) (l r : ImgInfo)
    (n : String) (v : JVal) (hk : Machine.Kind.ofName? (Machine.kindOf n) = some .validation)
    (h : StepAccepted o fl reg l r n v) :
    StepAccepted o fl reg r l n v ↔ (r.dispSource.isStr && l.dispSource.isNull) = false := by
  obtain ⟨kind', cfg, kd, out, hk', h1, h2, h4, h5⟩ := h
  rw [hk] at hk'; cases hk'
  constructor
  · intro ⟨kind', cfg', kd', out', hk', _, _, _, h5'⟩
    rw [hk] at hk'; cases hk'
    cases hr : r.dispSource.isStr <;> cases hl : l.dispSource.isNull <;> simp_all [extraOk]
  · intro hc
    refine ⟨.validation, cfg, kd, out, hk, h1, h2, by rw [construct_swap]; exact h4, ?_⟩
    cases hr : r.dispSource.isStr <;> cases hl : l.dispSource.isNull <;> simp_all [extraOk]

theorem ofName_validation : Machine.Kind.ofName? "validation" = some .validation := by decide

/-- given the left/right round accepts every step, the right/left round accepts every step iff
    there is no validation step or the mirrored validation test passes -/
theorem swapped_round_iff (o : Oracle) (fl : MachineFlags) (reg : List KindDesc) (l r : ImgInfo)
    (f : String → JVal) (names : List String) (hacc : ∀ n ∈ names, StepAccepted o fl reg l r n (f n)) :
    (∀ n ∈ names, StepAccepted o fl reg r l n (f n)) ↔
      (Machine.hasKind .validation names = true → (r.dispSource.isStr && l.dispSource.isNull) = false) := by
  constructor
  · intro hall hv
    simp only [Machine.hasKind, List.any_eq_true, beq_iff_eq] at hv
    obtain ⟨n, hn, hkn⟩ := hv
    have hk : Machine.Kind.ofName? (Machine.kindOf n) = some .validation := by
      rw [hkn]; exact ofName_validation
    exact (StepAccepted_swap_validation o fl reg l r n (f n) hk (hacc n hn)).1 (hall n hn)
  · intro hc n hn
    have ha := hacc n hn
    obtain ⟨kind, _, _, _, hk, _⟩ := ha
    by_cases hv : kind = .validation
    · subst hv
      apply (StepAccepted_swap_validation o fl reg l r n (f n) hk (hacc n hn)).2
      apply hc
      simp only [Machine.hasKind, List.any_eq_true, beq_iff_eq]
      exact ⟨n, hn, (ofName_some hk).symm⟩
    · exact (StepAccepted_swap o fl reg l r n (f n) kind hk hv).2 (hacc n hn)

/-- **`PandoraMachine.check_conf` returns normally** exactly when the step names are a path of the
    documented automaton, every step is accepted by its class check, and — when the right/left
    round takes place — every step is accepted with the images swapped -/
theorem machineCheck_ok_iff_rounds (o : Oracle) (fl : MachineFlags) (reg : List KindDesc) (hno : NoOptimization reg)
    (pipeline : Dict) (l r : ImgInfo) (m : CState) :
    (∃ m', machineCheck o fl reg pipeline l r m = .ok m') ↔
      (Machine.isPath .begin (Dict.keys pipeline) = true ∧
       (∀ n ∈ Dict.keys pipeline, StepAccepted o fl reg l r n ((Dict.lookup pipeline n).getD .null)) ∧
       ((m.rightDispMap || Machine.hasKind .validation (Dict.keys pipeline)) = true →
         ∀ n ∈ Dict.keys pipeline, StepAccepted o fl reg r l n ((Dict.lookup pipeline n).getD .null))) := by
  unfold machineCheck
  have hm0 : (if fl.resetPipelineCfg = true then { m with pipelineCfg := [] } else m).rightDispMap = m.rightDispMap := by
    by_cases hr : fl.resetPipelineCfg = true <;> simp [hr]
  generalize (if fl.resetPipelineCfg = true then { m with pipelineCfg := [] } else m) = m0 at hm0
  simp only
  have h1 := checkLoop_ok_iff o fl reg hno pipeline l r (Dict.keys pipeline) .begin m0
  constructor
  · intro ⟨m', h⟩
    cases hc : checkLoop o fl reg pipeline l r .begin (Dict.keys pipeline) m0 with
    | error e => simp [hc] at h
    | ok m1 =>
      simp only [hc] at h
      obtain ⟨hp, hacc⟩ := h1.1 ⟨m1, hc⟩
      refine ⟨hp, hacc, ?_⟩
      intro hr
      have hr1 := checkLoop_right o fl reg pipeline l r _ _ _ _ hc
      rw [hm0, hr] at hr1
      simp only [hr1, if_true] at h
      exact ((checkLoop_ok_iff o fl reg hno pipeline r l (Dict.keys pipeline) .begin m1).1 ⟨m', h⟩).2
  · intro ⟨hp, hacc, hsw⟩
    obtain ⟨m1, hc⟩ := h1.2 ⟨hp, hacc⟩
    have hr1 := checkLoop_right o fl reg pipeline l r _ _ _ _ hc
    rw [hm0] at hr1
    by_cases hr : m1.rightDispMap = true
    · obtain ⟨m', h⟩ := (checkLoop_ok_iff o fl reg hno pipeline r l (Dict.keys pipeline) .begin m1).2
        ⟨hp, hsw (by rw [← hr1]; exact hr)⟩
      exact ⟨m', by simp [hc, hr, h]⟩
    · exact ⟨m1, by simp [hc, hr]⟩

/-- the same with the right/left round reduced to what it adds: the mirrored validation test -/
theorem machineCheck_ok_iff (o : Oracle) (fl : MachineFlags) (reg : List KindDesc) (hno : NoOptimization reg)
    (pipeline : Dict) (l r : ImgInfo) (m : CState) :
    (∃ m', machineCheck o fl reg pipeline l r m = .ok m') ↔
      (Machine.isPath .begin (Dict.keys pipeline) = true ∧
       (∀ n ∈ Dict.keys pipeline, StepAccepted o fl reg l r n ((Dict.lookup pipeline n).getD .null)) ∧
       (Machine.hasKind .validation (Dict.keys pipeline) = true →
         (r.dispSource.isStr && l.dispSource.isNull) = false)) := by
  rw [machineCheck_ok_iff_rounds o fl reg hno]
  constructor
  · intro ⟨hp, hacc, hsw⟩
    refine ⟨hp, hacc, ?_⟩
    intro hv
    exact (swapped_round_iff o fl reg l r _ _ hacc).1 (hsw (by simp [hv])) hv
  · intro ⟨hp, hacc, hc⟩
    exact ⟨hp, hacc, fun _ => (swapped_round_iff o fl reg l r _ _ hacc).2 hc⟩

/-! ### 2. What a class of the source returns -/

theorem construct_ok {o : Oracle} {kd : KindDesc} {l r : ImgInfo} {cfg out : Dict}
    (h : construct o kd l r cfg = .ok out) :
    ∃ m c, Dict.lookup cfg kd.methodKey = some (.str m) ∧ findClass kd.classes m = some c ∧
      classCheck o c l r cfg = .ok out := by
  unfold construct at h
  cases hl : Dict.lookup cfg kd.methodKey with
  | none => simp [hl] at h
  | some v =>
    cases v with
    | str m =>
      simp only [hl] at h
      cases hf : findClass kd.classes m with
      | none => simp [hf] at h
      | some c => simp only [hf] at h; exact ⟨m, c, rfl, hf, h⟩
    | _ => simp [hl] at h <;> split at h <;> cases h

theorem findClass_some {classes : List ClassDesc} {m : String} {c : ClassDesc}
    (h : findClass classes m = some c) : c ∈ classes ∧ m ∈ c.names := by
  unfold findClass at h
  exact ⟨List.mem_of_find?_eq_some h, by simpa using List.find?_some h⟩

theorem kindDesc_some {reg : List KindDesc} {kind : String} {kd : KindDesc}
    (h : kindDesc? reg kind = some kd) : kd ∈ reg ∧ kd.kind = kind := by
  unfold kindDesc? at h
  exact ⟨List.mem_of_find?_eq_some h, by simpa using List.find?_some h⟩

theorem mem_allClasses {kd : KindDesc} {c : ClassDesc} (hkd : kd ∈ registry) (hc : c ∈ kd.classes) :
    (kd.kind, c) ∈ allClasses := by
  unfold allClasses
  rw [List.mem_flatMap]
  exact ⟨kd, hkd, List.mem_map.2 ⟨c, hc, rfl⟩⟩

/-- every default a class inserts is a leaf `update_conf` leaves alone (not a dictionary, not one
    of the three magic strings) -/
def actionDefaultsFixed (acts : List Action) : Bool :=
  acts.all (fun a => match a with
    | .default _ v => fixedLeaf v
    | .defaultElifNaN _ v => fixedLeaf v
    | _ => true)

theorem generated_defaults_fixed : allClasses.all (fun kc => actionDefaultsFixed kc.2.actions) = true := by
  decide

theorem defaultOf_fixed (acts : List Action) (h : actionDefaultsFixed acts = true) (k : String) (v : JVal)
    (hd : defaultOf acts k = some v) : fixedLeaf v = true := by
  induction acts with
  | nil => simp [defaultOf] at hd
  | cons a rest ih =>
    simp only [actionDefaultsFixed, List.all_cons, Bool.and_eq_true] at h
    have ihr := ih (by simpa [actionDefaultsFixed] using h.2)
    cases a with
    | default k0 v0 =>
      simp only [defaultOf] at hd
      by_cases e : k0 = k
      · simp [e] at hd; subst hd; exact h.1
      · simp [e] at hd; exact ihr hd
    | defaultElifNaN k0 v0 =>
      simp only [defaultOf] at hd
      by_cases e : k0 = k
      · simp [e] at hd; subst hd; exact h.1
      · simp [e] at hd; exact ihr hd
    | guardNe _ _ _ => simp only [defaultOf] at hd; exact ihr hd
    | refuseGrids => simp only [defaultOf] at hd; exact ihr hd

theorem defaultKeys_nodup (acts : List Action) (h : wfActions acts = true) : (defaultKeys acts).Nodup := by
  induction acts with
  | nil => simp [defaultKeys]
  | cons a rest ih =>
    cases a with
    | default k0 v0 =>
      simp only [wfActions, Bool.and_eq_true, Bool.not_eq_true', List.contains_eq_mem,
        decide_eq_false_iff_not] at h
      simp only [defaultKeys, List.nodup_cons]
      exact ⟨by simpa using h.1, ih h.2⟩
    | defaultElifNaN k0 v0 =>
      simp only [wfActions, Bool.and_eq_true, Bool.not_eq_true', List.contains_eq_mem,
        decide_eq_false_iff_not] at h
      simp only [defaultKeys, List.nodup_cons]
      exact ⟨by simpa using h.1.1, ih h.2⟩
    | guardNe _ _ _ =>
      simp only [wfActions, Bool.and_eq_true] at h
      simpa [defaultKeys] using ih h.2
    | refuseGrids =>
      simp only [wfActions] at h
      simpa [defaultKeys] using ih h

theorem rewriteLeaf_of_fixed {u : JVal} (h : Merge.fixedVal u) : rewriteLeaf u = u := by
  cases hu : u.isObj
  · exact Merge.fixedVal_leaf_rewrite hu h
  · cases u <;> simp [JVal.isObj] at hu
    simp [rewriteLeaf]

theorem fixedLeaf_facts {v : JVal} (h : fixedLeaf v = true) : Merge.wfVal v = true ∧ Merge.fixedVal v := by
  simp only [fixedLeaf, Bool.and_eq_true, Bool.not_eq_true', decide_eq_true_eq] at h
  exact ⟨Merge.wfVal_leaf v h.1, Merge.fixedVal_of_leaf v h.1 h.2⟩

/-- **what a class check returns** for a step as `update_conf` delivers it (no duplicate keys, magic
    strings already rewritten), for any class whose default sequence is well-formed and inserts
    plain leaves: the user's keys first and unchanged, then defaults; the result is again in the
    form `update_conf` delivers -/
theorem classCheck_facts {o : Oracle} {c : ClassDesc} {l r : ImgInfo} {cfg out : Dict}
    (hwf : wfActions c.actions = true) (hfix : actionDefaultsFixed c.actions = true)
    (hcw : Merge.wfDict cfg = true) (hcf : Merge.deepRwD cfg = cfg)
    (h : classCheck o c l r cfg = .ok out) :
    (∃ X, Dict.keys out = Dict.keys cfg ++ X) ∧
    (∀ k u, Dict.lookup cfg k = some u → Dict.lookup out k = some u) ∧
    (∀ k v, Dict.lookup out k = some v →
      Dict.lookup cfg k = some v ∨ (Dict.lookup cfg k = none ∧ defaultOf c.actions k = some v)) ∧
    Merge.wfDict out = true ∧ Merge.deepRwD out = out := by
  have hrun := (classCheck_ok h).1
  have hlook := runActions_lookup l r c.actions cfg out hwf hrun
  have hkeys := runActions_keys l r c.actions cfg out hwf hrun
  have hnf : ∀ k u, Dict.lookup cfg k = some u → nanFix c.actions k u = u := by
    intro k u hl
    have hfu : Merge.fixedVal u := Merge.fixedDict_mem hcf (Merge.mem_of_lookup cfg k u hl)
    have := pyEq_str_NaN u (rewriteLeaf_of_fixed hfu)
    simp [nanFix, this]
  have hkept : ∀ k u, Dict.lookup cfg k = some u → Dict.lookup out k = some u := by
    intro k u hl
    rw [hlook k, hl]; simp [hnf k u hl]
  have hfrom : ∀ k v, Dict.lookup out k = some v →
      Dict.lookup cfg k = some v ∨ (Dict.lookup cfg k = none ∧ defaultOf c.actions k = some v) := by
    intro k v hl
    rw [hlook k] at hl
    cases hc : Dict.lookup cfg k with
    | some u =>
      simp only [hc, Option.some.injEq] at hl
      rw [hnf k u hc] at hl
      exact Or.inl (by rw [hl])
    | none =>
      simp only [hc] at hl
      exact Or.inr ⟨rfl, hl⟩
  have hnd : (Dict.keys out).Nodup := by
    rw [hkeys, List.nodup_append]
    refine ⟨Merge.wfDict_keys_nodup cfg hcw, List.Pairwise.sublist List.filter_sublist (defaultKeys_nodup _ hwf), ?_⟩
    intro a ha b hb hab
    subst hab
    have := (List.mem_filter.1 hb).2
    simp [ha] at this
  have hvals : ∀ kv ∈ out, Merge.wfVal kv.2 = true ∧ Merge.fixedVal kv.2 := by
    intro kv hm
    have hl : Dict.lookup out kv.1 = some kv.2 := Merge.lookup_of_mem out kv.1 kv.2 hnd hm
    rcases hfrom kv.1 kv.2 hl with hc | ⟨_, hd⟩
    · have hm' := Merge.mem_of_lookup cfg kv.1 kv.2 hc
      exact ⟨Merge.wfDict_mem hcw hm', Merge.fixedDict_mem hcf hm'⟩
    · exact fixedLeaf_facts (defaultOf_fixed _ hfix _ _ hd)
  exact ⟨⟨_, hkeys⟩, hkept, hfrom,
    (Merge.wfDict_iff out).2 ⟨hnd, fun kv hm => (hvals kv hm).1⟩,
    Merge.fixedDict_of_mem out (fun kv hm => (hvals kv hm).2)⟩

/-- the facts of `classCheck_facts` for `Abstract<Kind>(**cfg)` of a step kind of the source, with the
    class and method the registry selected -/
theorem construct_facts {o : Oracle} {kd : KindDesc} {l r : ImgInfo} {cfg out : Dict}
    (hkd : kd ∈ registry) (hcw : Merge.wfDict cfg = true) (hcf : Merge.deepRwD cfg = cfg)
    (h : construct o kd l r cfg = .ok out) :
    ∃ m c, Dict.lookup cfg kd.methodKey = some (.str m) ∧ (kd.kind, c) ∈ allClasses ∧ m ∈ c.names ∧
      classCheck o c l r cfg = .ok out ∧
      (∃ X, Dict.keys out = Dict.keys cfg ++ X) ∧
      (∀ k u, Dict.lookup cfg k = some u → Dict.lookup out k = some u) ∧
      (∀ k v, Dict.lookup out k = some v →
        Dict.lookup cfg k = some v ∨ (Dict.lookup cfg k = none ∧ defaultOf c.actions k = some v)) ∧
      Merge.wfDict out = true ∧ Merge.deepRwD out = out := by
  obtain ⟨m, c, hm, hf, hcc⟩ := construct_ok h
  obtain ⟨hcm, hmn⟩ := findClass_some hf
  have hall := mem_allClasses hkd hcm
  have hwf := generated_wf_of_mem hall
  have hfx : actionDefaultsFixed c.actions = true := by
    have := generated_defaults_fixed
    rw [List.all_eq_true] at this
    exact this _ hall
  obtain ⟨h1, h2, h3, h4, h5⟩ := classCheck_facts hwf hfx hcw hcf hcc
  exact ⟨m, c, hm, hall, hmn, hcc, h1, h2, h3, h4, h5⟩

/-- `Abstract<Kind>(**out)` on the dictionary `Abstract<Kind>(**cfg)` returned: `out` again -/
theorem construct_idem {o : Oracle} {kd : KindDesc} {l r : ImgInfo} {cfg out : Dict}
    (hkd : kd ∈ registry) (hcw : Merge.wfDict cfg = true) (hcf : Merge.deepRwD cfg = cfg)
    (h : construct o kd l r cfg = .ok out) : construct o kd l r out = .ok out := by
  obtain ⟨m, c, hm, hall, hmn, hcc, _, hkept, _, _, _⟩ := construct_facts hkd hcw hcf h
  obtain ⟨m', c', hm', hf', _⟩ := construct_ok h
  rw [hm] at hm'; cases hm'
  have hidem := classCheck_idempotent (generated_wf_of_mem hall) hcc
  obtain ⟨m2, c2, hm2, hf2, hcc2⟩ := construct_ok h
  rw [hm] at hm2; cases hm2
  unfold construct
  rw [hkept _ _ hm]
  simp only [hf2]
  exact classCheck_idempotent (generated_wf_of_mem (mem_allClasses hkd (findClass_some hf2).1)) hcc2

/-! ### 3. `check_pipeline_section` -/

/-- the machine does not carry the steps of an earlier configuration into this check -/
def FreshFor (fl : MachineFlags) (m : CState) : Prop := m.pipelineCfg = [] ∨ fl.resetPipelineCfg = true

/-- first `update_conf`: the user's pipeline merged into `{"pipeline": {}}` is a deep copy of it with
    the magic strings rewritten -/
theorem first_merge (g : Bool) (P : Dict) (hwf : Merge.wfDict P = true) :
    updateConf g defaultPipeline [("pipeline", .obj P)] = .ok [("pipeline", .obj (Merge.deepRwD P))] := by
  have h := Merge.updateConf_fresh g P [] hwf (by intro k _; simp [Dict.lookup])
  rw [Merge.updateConf_cons]
  simp [defaultPipeline, Dict.lookup, Merge.updateVal_obj_obj, h, Except.map, Dict.setKey, Merge.updateConf_nil]

theorem second_merge (g : Bool) (P' M : Dict) (h : updateConf g P' M = .ok M) :
    updateConf g [("pipeline", .obj P')] [("pipeline", .obj M)] = .ok [("pipeline", .obj M)] := by
  rw [Merge.updateConf_cons]
  simp [Dict.lookup, Merge.updateVal_obj_obj, h, Except.map, Dict.setKey, Merge.updateConf_nil]

/-- what `machineCheck_fresh` says of `pipeline_cfg`, as a predicate: the steps of `P'`, in order,
    each holding what its class returned -/
def StepsChecked (o : Oracle) (l r : ImgInfo) (P' M : Dict) : Prop :=
  Dict.keys M = Dict.keys P' ∧
  ∀ n ∈ Dict.keys P', ∃ kind cfg kd out,
    Machine.Kind.ofName? (Machine.kindOf n) = some kind ∧
    Dict.lookup P' n = some (.obj cfg) ∧ kindDesc? registry kind.name = some kd ∧
    construct o kd l r cfg = .ok out ∧ Dict.lookup M n = some (.obj out)

/-- second `update_conf`: merging the machine's `pipeline_cfg` back into the configuration it was
    computed from returns `pipeline_cfg` itself — every step of it starts with the user's keys,
    unchanged, and continues with plain defaults -/
theorem merge_back (g : Bool) (o : Oracle) (l r : ImgInfo) (P' M : Dict)
    (hw : Merge.wfDict P' = true) (hf : Merge.deepRwD P' = P') (hs : StepsChecked o l r P' M) :
    updateConf g P' M = .ok M := by
  obtain ⟨hkeys, hsteps⟩ := hs
  have hnd : (Dict.keys M).Nodup := by rw [hkeys]; exact Merge.wfDict_keys_nodup P' hw
  apply Merge.updateConf_replace g P' M [] hnd (by rw [hkeys]; simp)
  intro n v hl
  have hn : n ∈ Dict.keys P' := by rw [← hkeys]; exact Merge.mem_keys_of_lookup hl
  obtain ⟨kind, cfg, kd, out, _, hP, hkd, hc, hM⟩ := hsteps n hn
  rw [hl] at hM; cases hM
  have hmem := Merge.mem_of_lookup P' n _ hP
  have hcw : Merge.wfDict cfg = true := by simpa using Merge.wfDict_mem hw hmem
  have hcf : Merge.deepRwD cfg = cfg := by
    have := Merge.fixedDict_mem hf hmem
    unfold Merge.fixedVal at this; simpa using this
  obtain ⟨_, _, _, _, _, _, ⟨X, hX⟩, hkept, hfrom, how, hof⟩ := construct_facts (kindDesc_some hkd).1 hcw hcf hc
  rw [hP, Merge.updateVal_obj_obj]
  have : updateConf g cfg out = .ok out := by
    apply Merge.updateConf_replace g cfg out X (Merge.wfDict_keys_nodup out how) hX
    intro k u hk
    have hm := Merge.mem_of_lookup out k u hk
    apply Merge.updateVal_kept_or_new g _ u (Merge.wfDict_mem how hm) (Merge.fixedDict_mem hof hm)
    rcases hfrom k u hk with h1 | ⟨h1, _⟩
    · exact Or.inl h1
    · exact Or.inr h1
  simp [this, Except.map]

/-- **`check_pipeline_section` = the machine's check between two transparent merges** (fresh machine,
    user pipeline without duplicate keys at any depth): the result is `{"pipeline": pipeline_cfg}` of
    the machine after `check_conf` on the user's pipeline with its magic strings rewritten -/
theorem checkPipelineSection_eq (o : Oracle) (fl : MachineFlags) (P : Dict) (l r : ImgInfo) (m : CState)
    (hfresh : FreshFor fl m) (hwf : Merge.wfDict P = true) :
    checkPipelineSection o fl registry [("pipeline", .obj P)] l r m =
      match machineCheck o fl registry (Merge.deepRwD P) l r m with
      | .error e => .error e
      | .ok m' => .ok ([("pipeline", .obj m'.pipelineCfg)], m') := by
  unfold checkPipelineSection
  rw [first_merge _ P hwf]
  simp only [Dict.lookup, if_true]
  cases hmc : machineCheck o fl registry (Merge.deepRwD P) l r m with
  | error e => rfl
  | ok m' =>
    simp only
    have hw' := Merge.wfDict_deepRwD P hwf
    have hnd : (Dict.keys (Merge.deepRwD P)).Nodup := Merge.wfDict_keys_nodup _ hw'
    obtain ⟨hk, hst⟩ := machineCheck_fresh o fl registry (Merge.deepRwD P) l r m m' hfresh hnd hmc
    have hmb := merge_back fl.strictMerge o l r (Merge.deepRwD P) m'.pipelineCfg hw' (Merge.deepRwD_idem P) ⟨hk, hst⟩
    rw [second_merge _ _ _ hmb]
    simp [Dict.lookup]

/-- a value whose deep copy is a dictionary is a dictionary -/
theorem deepRw_eq_obj {v : JVal} {cfg : Dict} (h : Merge.deepRw v = .obj cfg) :
    ∃ cfgU, v = .obj cfgU ∧ cfg = Merge.deepRwD cfgU := by
  cases hv : v.isObj
  · rw [Merge.deepRw_leaf v hv] at h
    have := Merge.rewriteLeaf_isObj v
    rw [h, hv] at this; simp [JVal.isObj] at this
  · cases v <;> simp [JVal.isObj] at hv
    rename_i kvs
    simp at h
    exact ⟨kvs, rfl, h.symm⟩

/-- **structure of the result** (fresh machine): `{"pipeline": M}` with `M` the machine's
    `pipeline_cfg`; `M` has the user's steps in the user's order; each step `n: cfgU` of the user
    holds what `Abstract<Kind>(**cfgU')` returned, `cfgU'` being `cfgU` with its magic strings
    rewritten -/
theorem checkPipelineSection_structure {o : Oracle} {fl : MachineFlags} {P : Dict} {l r : ImgInfo}
    {m m' : CState} {out : Dict} (hfresh : FreshFor fl m) (hwf : Merge.wfDict P = true)
    (h : checkPipelineSection o fl registry [("pipeline", .obj P)] l r m = .ok (out, m')) :
    out = [("pipeline", .obj m'.pipelineCfg)] ∧
    Dict.keys m'.pipelineCfg = Dict.keys P ∧
    ∀ n ∈ Dict.keys P, ∃ kind cfgU kd outn,
      Machine.Kind.ofName? (Machine.kindOf n) = some kind ∧ Dict.lookup P n = some (.obj cfgU) ∧
      kindDesc? registry kind.name = some kd ∧
      construct o kd l r (Merge.deepRwD cfgU) = .ok outn ∧
      Dict.lookup m'.pipelineCfg n = some (.obj outn) := by
  rw [checkPipelineSection_eq o fl P l r m hfresh hwf] at h
  cases hmc : machineCheck o fl registry (Merge.deepRwD P) l r m with
  | error e => simp [hmc] at h
  | ok m1 =>
    simp only [hmc, Except.ok.injEq, Prod.mk.injEq] at h
    obtain ⟨h1, h2⟩ := h
    subst h2
    have hnd : (Dict.keys (Merge.deepRwD P)).Nodup :=
      Merge.wfDict_keys_nodup _ (Merge.wfDict_deepRwD P hwf)
    obtain ⟨hk, hst⟩ := machineCheck_fresh o fl registry (Merge.deepRwD P) l r m m1 hfresh hnd hmc
    rw [Merge.keys_deepRwD] at hk hst
    refine ⟨h1.symm, hk, ?_⟩
    intro n hn
    obtain ⟨kind, cfg, kd, outn, hkind, hP, hkd, hc, hM⟩ := hst n hn
    rw [Merge.lookup_deepRwD] at hP
    cases hPn : Dict.lookup P n with
    | none => simp [hPn] at hP
    | some v =>
      simp only [hPn, Option.map_some, Option.some.injEq] at hP
      obtain ⟨cfgU, rfl, rfl⟩ := deepRw_eq_obj hP
      exact ⟨kind, cfgU, kd, outn, hkind, rfl, hkd, hc, hM⟩

theorem checkPipelineSection_machine {o : Oracle} {fl : MachineFlags} {P : Dict} {l r : ImgInfo}
    {m m' : CState} {out : Dict} (hfresh : FreshFor fl m) (hwf : Merge.wfDict P = true)
    (h : checkPipelineSection o fl registry [("pipeline", .obj P)] l r m = .ok (out, m')) :
    machineCheck o fl registry (Merge.deepRwD P) l r m = .ok m' ∧ out = [("pipeline", .obj m'.pipelineCfg)] := by
  rw [checkPipelineSection_eq o fl P l r m hfresh hwf] at h
  cases hmc : machineCheck o fl registry (Merge.deepRwD P) l r m with
  | error e => simp [hmc] at h
  | ok m1 =>
    simp only [hmc, Except.ok.injEq, Prod.mk.injEq] at h
    obtain ⟨h1, h2⟩ := h
    subst h2
    exact ⟨rfl, h1.symm⟩

theorem wf_of_step {P : Dict} (hwf : Merge.wfDict P = true) {n : String} {cfgU : Dict}
    (h : Dict.lookup P n = some (.obj cfgU)) :
    Merge.wfDict (Merge.deepRwD cfgU) = true ∧ Merge.deepRwD (Merge.deepRwD cfgU) = Merge.deepRwD cfgU := by
  have := Merge.wfDict_mem hwf (Merge.mem_of_lookup P n _ h)
  exact ⟨Merge.wfDict_deepRwD cfgU (by simpa using this), Merge.deepRwD_idem cfgU⟩

/-- **(1) steps and user values kept**: the result has the user's steps in the user's order; every
    key the user gave in a step is in the returned step with the user's value (the strings `"NaN"`,
    `"inf"`, `"-inf"` turned into floats by `update_conf`), and the user's keys are the first keys of
    the returned step, in the user's order -/
theorem checkPipelineSection_user_kept {o : Oracle} {fl : MachineFlags} {P : Dict} {l r : ImgInfo}
    {m m' : CState} {out : Dict} (hfresh : FreshFor fl m) (hwf : Merge.wfDict P = true)
    (h : checkPipelineSection o fl registry [("pipeline", .obj P)] l r m = .ok (out, m')) :
    ∃ M, out = [("pipeline", .obj M)] ∧ Dict.keys M = Dict.keys P ∧
      (∀ n ∈ Dict.keys P, ∃ cfgU, Dict.lookup P n = some (.obj cfgU)) ∧
      ∀ n cfgU, Dict.lookup P n = some (.obj cfgU) →
        ∃ outn, Dict.lookup M n = some (.obj outn) ∧
          (∀ k u, Dict.lookup cfgU k = some u → Dict.lookup outn k = some (Merge.deepRw u)) ∧
          (Dict.keys outn).take cfgU.length = Dict.keys cfgU := by
  obtain ⟨hout, hkeys, hsteps⟩ := checkPipelineSection_structure hfresh hwf h
  refine ⟨m'.pipelineCfg, hout, hkeys, ?_, ?_⟩
  · intro n hn
    obtain ⟨_, cfgU, _, _, _, hP, _⟩ := hsteps n hn
    exact ⟨cfgU, hP⟩
  · intro n cfgU hP
    obtain ⟨kind, cfgU', kd, outn, _, hP', hkd, hc, hM⟩ := hsteps n (Merge.mem_keys_of_lookup hP)
    rw [hP] at hP'; cases hP'
    obtain ⟨hcw, hcf⟩ := wf_of_step hwf hP
    obtain ⟨_, _, _, _, _, _, ⟨X, hX⟩, hkept, _, _, _⟩ := construct_facts (kindDesc_some hkd).1 hcw hcf hc
    refine ⟨outn, hM, ?_, ?_⟩
    · intro k u hk
      apply hkept
      rw [Merge.lookup_deepRwD, hk]; rfl
    · rw [hX, Merge.keys_deepRwD]
      apply List.take_left'
      simp [Dict.keys]

/-- **(2) completion**: in every returned step, every parameter the documentation lists for the
    step's method is present — with the documented default when the user omitted it (for the
    parameters whose default the documentation settles) — except the one documented as optional,
    which stays absent when omitted; and no key is added that is not a documented parameter -/
theorem checkPipelineSection_completed {o : Oracle} {fl : MachineFlags} {P : Dict} {l r : ImgInfo}
    {m m' : CState} {out : Dict} (hfresh : FreshFor fl m) (hwf : Merge.wfDict P = true)
    (h : checkPipelineSection o fl registry [("pipeline", .obj P)] l r m = .ok (out, m')) :
    ∀ n cfgU, Dict.lookup P n = some (.obj cfgU) →
      ∃ kind kd meth d outn,
        Machine.Kind.ofName? (Machine.kindOf n) = some kind ∧ kindDesc? registry kind.name = some kd ∧
        Dict.lookup (Merge.deepRwD cfgU) kd.methodKey = some (.str meth) ∧
        docClass? kind.name meth = some d ∧
        Dict.lookup m'.pipelineCfg n = some (.obj outn) ∧
        (∀ p ∈ d.params,
          match p.default with
          | .optional => Dict.lookup cfgU p.name = none → Dict.lookup outn p.name = none
          | .value v => ∃ x, Dict.lookup outn p.name = some x ∧ (Dict.lookup cfgU p.name = none → x = v)
          | .unsettled => (Dict.lookup outn p.name).isSome = true) ∧
        (∀ k ∈ Dict.keys outn, k ∈ Dict.keys cfgU ∨ ∃ p ∈ d.params, p.name = k) := by
  obtain ⟨_, _, hsteps⟩ := checkPipelineSection_structure hfresh hwf h
  intro n cfgU hP
  obtain ⟨kind, cfgU', kd, outn, hkind, hP', hkd, hc, hM⟩ := hsteps n (Merge.mem_keys_of_lookup hP)
  rw [hP] at hP'; cases hP'
  obtain ⟨hcw, hcf⟩ := wf_of_step hwf hP
  obtain ⟨hkdm, hkk⟩ := kindDesc_some hkd
  obtain ⟨meth, c, hmeth, hall, hmn, hcc, _, hkept, _, _, _⟩ := construct_facts hkdm hcw hcf hc
  have hwfa := generated_wf_of_mem hall
  obtain ⟨hdef, hkeys⟩ := classCheck_defaults_added hwfa hcc
  -- the documented class
  have hdoc := generated_defaults_documented
  rw [List.all_eq_true] at hdoc
  have hdoc1 := hdoc _ hall
  rw [List.all_eq_true] at hdoc1
  have hdoc2 := hdoc1 meth hmn
  simp only at hdoc2
  cases hd : docClass? kd.kind meth with
  | none => simp [hd] at hdoc2
  | some d =>
    simp only [hd] at hdoc2
    simp only [defaultsAgree, Bool.and_eq_true, List.all_eq_true, List.any_eq_true, beq_iff_eq] at hdoc2
    obtain ⟨⟨⟨⟨hparams, hdk⟩, _⟩, _⟩, _⟩ := hdoc2
    rw [hkk] at hd
    refine ⟨kind, kd, meth, d, outn, hkind, hkd, hmeth, hd, hM, ?_, ?_⟩
    · intro p hp
      have hpa := hparams p hp
      have homit : Dict.lookup cfgU p.name = none → Dict.lookup outn p.name = defaultOf c.actions p.name := by
        intro hn
        apply hdef
        rw [Merge.lookup_deepRwD, hn]; rfl
      cases hpd : p.default with
      | optional =>
        simp only [hpd, Bool.and_eq_true, Option.isNone_iff_eq_none] at hpa
        simp only
        intro hn
        rw [homit hn, hpa.1]
      | value v =>
        simp only [hpd, beq_iff_eq] at hpa
        simp only
        cases hu : Dict.lookup cfgU p.name with
        | none =>
          exact ⟨v, by rw [homit hu, hpa], fun _ => rfl⟩
        | some u =>
          exact ⟨Merge.deepRw u, hkept _ _ (by rw [Merge.lookup_deepRwD, hu]; rfl), by intro hc; cases hc⟩
      | unsettled =>
        simp only [hpd] at hpa
        simp only
        cases hu : Dict.lookup cfgU p.name with
        | none => rw [homit hu]; exact hpa
        | some u => rw [hkept _ _ (by rw [Merge.lookup_deepRwD, hu]; rfl)]; rfl
    · intro k hk
      rw [hkeys, Merge.keys_deepRwD] at hk
      rcases List.mem_append.1 hk with h1 | h1
      · exact Or.inl h1
      · right
        obtain ⟨p, hp, hpn⟩ := hdk k (List.mem_filter.1 h1).1
        exact ⟨p, hp, hpn⟩

/-- the `pipeline_cfg` a successful check leaves is itself in the form `update_conf` delivers -/
theorem checked_wf {o : Oracle} {l r : ImgInfo} {P' M : Dict}
    (hw : Merge.wfDict P' = true) (hf : Merge.deepRwD P' = P') (hs : StepsChecked o l r P' M) :
    Merge.wfDict M = true ∧ Merge.deepRwD M = M := by
  obtain ⟨hkeys, hsteps⟩ := hs
  have hnd : (Dict.keys M).Nodup := by rw [hkeys]; exact Merge.wfDict_keys_nodup P' hw
  have hvals : ∀ kv ∈ M, Merge.wfVal kv.2 = true ∧ Merge.fixedVal kv.2 := by
    intro kv hm
    have hl := Merge.lookup_of_mem M kv.1 kv.2 hnd hm
    have hn : kv.1 ∈ Dict.keys P' := by rw [← hkeys]; exact Merge.mem_keys_of_lookup hl
    obtain ⟨kind, cfg, kd, outn, _, hP, hkd, hc, hM⟩ := hsteps kv.1 hn
    rw [hl] at hM
    have hkv : kv.2 = JVal.obj outn := by simpa using hM
    have hmem := Merge.mem_of_lookup P' kv.1 _ hP
    have hcw : Merge.wfDict cfg = true := by simpa using Merge.wfDict_mem hw hmem
    have hcf : Merge.deepRwD cfg = cfg := by
      have := Merge.fixedDict_mem hf hmem
      unfold Merge.fixedVal at this; simpa using this
    obtain ⟨_, _, _, _, _, _, _, _, _, how, hof⟩ := construct_facts (kindDesc_some hkd).1 hcw hcf hc
    rw [hkv]
    exact ⟨by simpa using how, by unfold Merge.fixedVal; simp [hof]⟩
  exact ⟨(Merge.wfDict_iff M).2 ⟨hnd, fun kv hm => (hvals kv hm).1⟩,
    Merge.fixedDict_of_mem M (fun kv hm => (hvals kv hm).2)⟩

theorem lookup_getD_deepRw (P : Dict) (hnd : (Dict.keys P).Nodup) (Q : String → JVal → Prop) :
    (∀ n ∈ Dict.keys (Merge.deepRwD P), Q n ((Dict.lookup (Merge.deepRwD P) n).getD .null)) ↔
    (∀ n v, (n, v) ∈ P → Q n (Merge.deepRw v)) := by
  rw [Merge.keys_deepRwD]
  constructor
  · intro h n v hm
    have hl := Merge.lookup_of_mem P n v hnd hm
    have := h n (Merge.mem_keys_of_lookup hl)
    rw [Merge.lookup_deepRwD, hl] at this
    exact this
  · intro h n hn
    cases hl : Dict.lookup P n with
    | none => exact absurd hn ((Merge.lookup_none_iff P n).1 hl)
    | some v =>
      rw [Merge.lookup_deepRwD, hl]
      exact h n v (Merge.mem_of_lookup P n v hl)

/-- **(4) acceptance** (fresh machine, any images, any user pipeline without duplicate keys):
    `check_pipeline_section` returns normally **iff** the step names, in the user's order, spell a
    path of the documented automaton (`Machine.isPath`, the automaton C01 proves the source's
    transition tables to be) **and** every step — with its magic strings rewritten — is accepted by
    its class check (`StepAccepted`: known kind, a dictionary, `Abstract<Kind>(**step)` returns, the
    callback's band / grid / margin test passes) **and**, when there is a validation step, the mirrored
    test of the right/left round passes (no right disparity grid without a left one). -/
theorem checkPipelineSection_ok_iff (o : Oracle) (fl : MachineFlags) (P : Dict) (l r : ImgInfo) (m : CState)
    (hfresh : FreshFor fl m) (hwf : Merge.wfDict P = true) :
    (∃ out m', checkPipelineSection o fl registry [("pipeline", .obj P)] l r m = .ok (out, m')) ↔
      (Machine.isPath .begin (Dict.keys P) = true ∧
       (∀ n v, (n, v) ∈ P → StepAccepted o fl registry l r n (Merge.deepRw v)) ∧
       (Machine.hasKind .validation (Dict.keys P) = true →
         (r.dispSource.isStr && l.dispSource.isNull) = false)) := by
  have hmc := machineCheck_ok_iff o fl registry registry_noOptimization (Merge.deepRwD P) l r m
  rw [lookup_getD_deepRw P (Merge.wfDict_keys_nodup P hwf), Merge.keys_deepRwD] at hmc
  rw [← hmc, checkPipelineSection_eq o fl P l r m hfresh hwf]
  constructor
  · intro ⟨out, m', h⟩
    cases hc : machineCheck o fl registry (Merge.deepRwD P) l r m with
    | error e => simp [hc] at h
    | ok m1 => exact ⟨m1, rfl⟩
  · intro ⟨m', h⟩
    exact ⟨[("pipeline", .obj m'.pipelineCfg)], m', by simp [h]⟩

/-- **(3) idempotence / fix-point**: the configuration `check_pipeline_section` returned, checked
    again (on any machine that does not carry steps over), is returned unchanged -/
theorem checkPipelineSection_idempotent {o : Oracle} {fl : MachineFlags} {P : Dict} {l r : ImgInfo}
    {m m' : CState} {out : Dict} (hfresh : FreshFor fl m) (hwf : Merge.wfDict P = true)
    (h : checkPipelineSection o fl registry [("pipeline", .obj P)] l r m = .ok (out, m'))
    (m2 : CState) (hfresh2 : FreshFor fl m2) :
    ∃ m2', checkPipelineSection o fl registry out l r m2 = .ok (out, m2') := by
  obtain ⟨hmach, hout⟩ := checkPipelineSection_machine hfresh hwf h
  have hw' := Merge.wfDict_deepRwD P hwf
  have hnd' : (Dict.keys (Merge.deepRwD P)).Nodup := Merge.wfDict_keys_nodup _ hw'
  have hchecked := machineCheck_fresh o fl registry (Merge.deepRwD P) l r m m' hfresh hnd' hmach
  obtain ⟨hMw, hMf⟩ := checked_wf hw' (Merge.deepRwD_idem P) hchecked
  obtain ⟨hkeys, hsteps⟩ := hchecked
  -- the first run was accepted: path, steps, mirrored test
  obtain ⟨hpath, hacc, hmirror⟩ :=
    (machineCheck_ok_iff o fl registry registry_noOptimization (Merge.deepRwD P) l r m).1 ⟨m', hmach⟩
  subst hout
  rw [checkPipelineSection_eq o fl m'.pipelineCfg l r m2 hfresh2 hMw, hMf]
  -- the second run is accepted
  have hacc2 : ∃ m2', machineCheck o fl registry m'.pipelineCfg l r m2 = .ok m2' := by
    apply (machineCheck_ok_iff o fl registry registry_noOptimization m'.pipelineCfg l r m2).2
    rw [hkeys]
    refine ⟨hpath, ?_, hmirror⟩
    intro n hn
    obtain ⟨kind, cfg, kd, outn, hkind, hP, hkd, hc, hM⟩ := hsteps n hn
    obtain ⟨kind', cfg', kd', out', hkind', hP', hkd', hc', hex'⟩ := hacc n hn
    rw [hP] at hP'; simp only [Option.getD_some, JVal.obj.injEq] at hP'; subst hP'
    rw [hkind] at hkind'; cases hkind'
    rw [hkd] at hkd'; cases hkd'
    rw [hc] at hc'; cases hc'
    have hmem := Merge.mem_of_lookup _ n _ hP
    have hcw : Merge.wfDict cfg = true := by simpa using Merge.wfDict_mem hw' hmem
    have hcf : Merge.deepRwD cfg = cfg := by
      have := Merge.fixedDict_mem (Merge.deepRwD_idem P) hmem
      unfold Merge.fixedVal at this; simpa using this
    rw [hM]
    exact ⟨kind, outn, kd, outn, hkind, rfl, hkd, construct_idem (kindDesc_some hkd).1 hcw hcf hc, hex'⟩
  obtain ⟨m2', hm2⟩ := hacc2
  refine ⟨m2', ?_⟩
  simp only [hm2]
  -- and leaves the same `pipeline_cfg`
  have hndM : (Dict.keys m'.pipelineCfg).Nodup := Merge.wfDict_keys_nodup _ hMw
  obtain ⟨hkeys2, hsteps2⟩ := machineCheck_fresh o fl registry m'.pipelineCfg l r m2 m2' hfresh2 hndM hm2
  have : m2'.pipelineCfg = m'.pipelineCfg := by
    apply Merge.dict_ext _ _ hkeys2 (by rw [hkeys2]; exact hndM)
    intro k
    by_cases hk : k ∈ Dict.keys m'.pipelineCfg
    · obtain ⟨kind2, cfg2, kd2, out2, hkind2, hP2, hkd2, hc2, hM2⟩ := hsteps2 k hk
      obtain ⟨kind, cfg, kd, outn, hkind, hP, hkd, hc, hM⟩ := hsteps k (by rw [← hkeys]; exact hk)
      rw [hM] at hP2; cases hP2
      rw [hkind] at hkind2; cases hkind2
      rw [hkd] at hkd2; cases hkd2
      have hmem := Merge.mem_of_lookup _ k _ hP
      have hcw : Merge.wfDict cfg = true := by simpa using Merge.wfDict_mem hw' hmem
      have hcf : Merge.deepRwD cfg = cfg := by
        have := Merge.fixedDict_mem (Merge.deepRwD_idem P) hmem
        unfold Merge.fixedVal at this; simpa using this
      rw [construct_idem (kindDesc_some hkd).1 hcw hcf hc] at hc2; cases hc2
      rw [hM2, hM]
    · have h1 : Dict.lookup m'.pipelineCfg k = none := (Merge.lookup_none_iff _ k).2 hk
      have h2 : Dict.lookup m2'.pipelineCfg k = none := (Merge.lookup_none_iff _ k).2 (by rw [hkeys2]; exact hk)
      rw [h1, h2]
  rw [this]

/-! ### 4. The other forms `get_config_pipeline` can deliver -/

theorem getConfigPipeline_forms (user : Dict) :
    getConfigPipeline user = [] ∨ ∃ p, getConfigPipeline user = [("pipeline", p)] := by
  unfold getConfigPipeline
  cases Dict.lookup user "pipeline" with
  | none => exact Or.inl rfl
  | some p => exact Or.inr ⟨p, rfl⟩

theorem checkLoop_nil (o : Oracle) (fl : MachineFlags) (reg : List KindDesc) (l r : ImgInfo)
    (st : Machine.St) (m : CState) : checkLoop o fl reg [] l r st [] m = .ok m := by
  simp [checkLoop]

/-- no `pipeline` key: the section is `{"pipeline": {}}` -/
theorem checkPipelineSection_no_pipeline (o : Oracle) (fl : MachineFlags) (reg : List KindDesc) (l r : ImgInfo)
    (m : CState) (hfresh : FreshFor fl m) :
    ∃ m', checkPipelineSection o fl reg [] l r m = .ok ([("pipeline", .obj [])], m') := by
  unfold checkPipelineSection machineCheck
  simp only [Merge.updateConf_nil, defaultPipeline, Dict.lookup, if_true, Dict.keys, List.map_nil, checkLoop_nil]
  have hm0 : (if fl.resetPipelineCfg = true then { m with pipelineCfg := [] } else m).pipelineCfg = [] := by
    rcases hfresh with h0 | h0
    · by_cases hr : fl.resetPipelineCfg = true <;> simp [hr, h0]
    · simp [h0]
  generalize (if fl.resetPipelineCfg = true then { m with pipelineCfg := [] } else m) = m0 at hm0
  refine ⟨m0, ?_⟩
  simp only [ite_self, hm0]
  rw [Merge.updateConf_cons]
  simp [Dict.lookup, Merge.updateVal_obj_obj, Merge.updateConf_nil, Except.map, Dict.setKey]

/-- a `pipeline` that is not a dictionary is refused -/
theorem checkPipelineSection_not_dict (o : Oracle) (fl : MachineFlags) (reg : List KindDesc) (l r : ImgInfo)
    (m : CState) (v : JVal) (hv : v.isObj = false) :
    checkPipelineSection o fl reg [("pipeline", v)] l r m = .error .other := by
  unfold checkPipelineSection
  rw [Merge.updateConf_cons, Merge.updateVal_leaf _ _ v hv]
  have h := Merge.rewriteLeaf_isObj v
  rw [hv] at h
  simp only [defaultPipeline, Dict.setKey, if_true, Merge.updateConf_nil, Dict.lookup]
  cases hr : rewriteLeaf v <;> simp [hr, JVal.isObj] at h ⊢

/-! ### 5. Non-vacuity -/

/-- a user pipeline with a `"NaN"` to rewrite, defaults to add and a validation step (two rounds) -/
def userPipeline : Dict := [
  ("matching_cost", .obj [("matching_cost_method", .str "zncc"), ("window_size", .int 7)]),
  ("disparity", .obj [("invalid_disparity", .str "NaN"), ("disparity_method", .str "wta")]),
  ("filter", .obj [("filter_method", .str "median")]),
  ("validation", .obj [("validation_method", .str "cross_checking_accurate")])]

/-- the hypotheses of the theorems of §3 hold of it: fresh machine, no duplicate key, accepted -/
example :
    FreshFor {} ({} : CState) ∧ Merge.wfDict userPipeline = true ∧
    pipelineOf (checkPipelineSection noOracle {} registry [("pipeline", .obj userPipeline)] monoL monoR {}) =
      some [("pipeline", .obj [
        ("matching_cost", .obj [("matching_cost_method", .str "zncc"), ("window_size", .int 7),
          ("subpix", .int 1), ("band", .null), ("step", .int 1)]),
        ("disparity", .obj [("invalid_disparity", .float .nan), ("disparity_method", .str "wta")]),
        ("filter", .obj [("filter_method", .str "median"), ("filter_size", .int 3)]),
        ("validation", .obj [("validation_method", .str "cross_checking_accurate"),
          ("cross_checking_threshold", .float (.num 1))])])] :=
  ⟨Or.inl rfl, by decide, by decide⟩

/-- both sides of `checkPipelineSection_ok_iff` are false of a pipeline that is not a path
    (`filter` before `disparity`) and of a path with a refused step (`window_size` 4) -/
example :
    Machine.isPath .begin (Dict.keys [("matching_cost", JVal.obj [("matching_cost_method", .str "zncc")]),
      ("filter", .obj [("filter_method", .str "median")])]) = false ∧
    isOk (checkPipelineSection noOracle {} registry [("pipeline", .obj [
      ("matching_cost", .obj [("matching_cost_method", .str "zncc")]),
      ("filter", .obj [("filter_method", .str "median")])])] monoL monoR {}) = false ∧
    isOk (checkPipelineSection noOracle {} registry [("pipeline", .obj [
      ("matching_cost", .obj [("matching_cost_method", .str "zncc"), ("window_size", .int 4)])])]
      monoL monoR {}) = false := by decide

/-- the mirrored validation test is not redundant: a right disparity grid without a left one passes
    the left/right round and is refused by the right/left round -/
example :
    let l : ImgInfo := { bands := [none], dispSource := .null }
    let r : ImgInfo := { bands := [none], dispSource := .str "grid.tif" }
    let P : Dict := [("matching_cost", .obj [("matching_cost_method", .str "zncc")]),
      ("disparity", .obj [("disparity_method", .str "wta")]),
      ("validation", .obj [("validation_method", .str "cross_checking_accurate")])]
    Machine.hasKind .validation (Dict.keys P) = true ∧ (r.dispSource.isStr && l.dispSource.isNull) = true ∧
    isOk (checkPipelineSection noOracle {} registry [("pipeline", .obj P)] l r {}) = false ∧
    isOk (checkPipelineSection noOracle {} registry [("pipeline", .obj P)] l l {}) = true := by decide


/-! ### 6. The executable specification of the result (`ConfigSpec.resultOk`) -/

theorem take_of_keys_prefix : ∀ (cfg out : Dict) (X : List String), Dict.keys out = Dict.keys cfg ++ X →
    (Dict.keys out).Nodup → (∀ k u, Dict.lookup cfg k = some u → Dict.lookup out k = some u) →
    out.take cfg.length = cfg := by
  intro cfg
  induction cfg with
  | nil => intro out X _ _ _; simp
  | cons kv rest ih =>
    intro out X hk hnd hl
    obtain ⟨k, u⟩ := kv
    cases out with
    | nil => simp [Dict.keys] at hk
    | cons kv' out' =>
      obtain ⟨k', v⟩ := kv'
      simp only [Dict.keys, List.map_cons, List.cons_append, List.cons.injEq] at hk
      obtain ⟨rfl, hk2⟩ := hk
      have hv : v = u := by
        have := hl k' u (by simp [Dict.lookup])
        simpa [Dict.lookup] using this
      subst hv
      simp only [Dict.keys, List.map_cons, List.nodup_cons] at hnd
      have hknr : k' ∉ Dict.keys rest := by
        intro hm; apply hnd.1
        have : k' ∈ List.map (fun x => x.1) out' := by
          have h2 : List.map (fun x => x.1) out' = Dict.keys rest ++ X := hk2
          rw [h2]; exact List.mem_append_left _ hm
        exact this
      simp only [List.length_cons, List.take_succ_cons, List.cons.injEq, true_and]
      apply ih out' X hk2 hnd.2
      intro k2 u2 h2
      have hne : k' ≠ k2 := by
        intro e; subst e
        exact hknr (Merge.mem_keys_of_lookup h2)
      have := hl k2 u2 (by simp [Dict.lookup, hne, h2])
      simpa [Dict.lookup, hne] using this

theorem lookup_append (a b : Dict) (k : String) :
    Dict.lookup (a ++ b) k = match Dict.lookup a k with | some v => some v | none => Dict.lookup b k := by
  induction a with
  | nil => simp [Dict.lookup]
  | cons kv rest ih =>
    obtain ⟨k', v⟩ := kv
    by_cases h : k' = k <;> simp [Dict.lookup, h, ih]

theorem deepRwD_leaves (d : Dict) (h : ∀ kv ∈ d, kv.2.isObj = false) : Merge.deepRwD d = rewriteDict d := by
  induction d with
  | nil => simp [rewriteDict]
  | cons kv rest ih =>
    obtain ⟨k, v⟩ := kv
    simp only [Merge.deepRwD_cons, rewriteDict, List.map_cons, List.cons.injEq, Prod.mk.injEq, true_and]
    exact ⟨Merge.deepRw_leaf v (h (k, v) (by simp)), by
      have := ih (fun kv hm => h kv (List.mem_cons_of_mem _ hm)); simpa [rewriteDict] using this⟩

theorem defaultOf_isSome_of_mem (acts : List Action) (k : String) (h : k ∈ defaultKeys acts) :
    (defaultOf acts k).isSome = true := by
  induction acts with
  | nil => simp [defaultKeys] at h
  | cons a rest ih =>
    cases a with
    | default k0 v0 =>
      simp only [defaultKeys, List.mem_cons] at h
      by_cases e : k0 = k
      · simp [defaultOf, e]
      · rcases h with h | h
        · exact absurd h.symm e
        · simp [defaultOf, e, ih h]
    | defaultElifNaN k0 v0 =>
      simp only [defaultKeys, List.mem_cons] at h
      by_cases e : k0 = k
      · simp [defaultOf, e]
      · rcases h with h | h
        · exact absurd h.symm e
        · simp [defaultOf, e, ih h]
    | guardNe _ _ _ => simp only [defaultKeys] at h; simp [defaultOf, ih h]
    | refuseGrids => simp only [defaultKeys] at h; simp [defaultOf, ih h]

/-- documentation table and registry name the method of a kind under the same key -/
theorem method_keys_agree :
    docTable.all (fun d => registry.all (fun kd => kd.kind != d.kind || kd.methodKey == d.methodKey)) = true := by
  decide

/-- `defaultsAdded` (the executable clause "every omitted documented parameter appears, with the
    documented default when it is settled; nothing else is added") of what a class check returns -/
theorem classCheck_defaultsAdded {o : Oracle} {c : ClassDesc} {d : DocClass} {l r : ImgInfo} {ucfg cfg out : Dict}
    (hwf : wfActions c.actions = true) (hag : defaultsAgree c d = true)
    (hkeysU : Dict.keys cfg = Dict.keys ucfg) (hnd : (Dict.keys out).Nodup)
    (hkept : ∀ k u, Dict.lookup cfg k = some u → Dict.lookup out k = some u)
    (h : classCheck o c l r cfg = .ok out) : defaultsAdded d ucfg out = true := by
  obtain ⟨hdef, hkeys⟩ := classCheck_defaults_added hwf h
  simp only [defaultsAgree, Bool.and_eq_true, List.all_eq_true, List.any_eq_true, beq_iff_eq] at hag
  obtain ⟨⟨⟨⟨hparams, hdk⟩, _⟩, _⟩, _⟩ := hag
  have hlen : ucfg.length = cfg.length := by
    have := congrArg List.length hkeysU
    simpa [Dict.keys] using this.symm
  have htake : out.take cfg.length = cfg := take_of_keys_prefix cfg out _ hkeys hnd hkept
  have hsplit : out = cfg ++ out.drop cfg.length := by
    conv => lhs; rw [← List.take_append_drop cfg.length out, htake]
  have hkeysAdded : Dict.keys (out.drop cfg.length) =
      (defaultKeys c.actions).filter (fun k => !(Dict.keys cfg).contains k) := by
    have h1 : Dict.keys out = Dict.keys cfg ++ Dict.keys (out.drop cfg.length) := by
      conv => lhs; rw [hsplit]
      simp [Dict.keys]
    rw [hkeys] at h1
    exact (List.append_cancel_left h1).symm
  have hlookAdded : ∀ k, k ∉ Dict.keys cfg → Dict.lookup (out.drop cfg.length) k = Dict.lookup out k := by
    intro k hk
    conv => rhs; rw [hsplit, lookup_append, (Merge.lookup_none_iff cfg k).2 hk]
  unfold defaultsAdded
  simp only [Bool.and_eq_true, List.all_eq_true, List.any_eq_true, beq_iff_eq, List.mem_filter,
    Bool.not_eq_true', hlen]
  refine ⟨⟨?_, ?_⟩, (Merge.nodup_iff out).2 hnd⟩
  · intro kv hkv
    have hin : kv.1 ∈ Dict.keys (out.drop cfg.length) := List.mem_map_of_mem (f := (·.1)) hkv
    rw [hkeysAdded, List.mem_filter] at hin
    obtain ⟨hdkm, hnc⟩ := hin
    obtain ⟨p, hp, hpn⟩ := hdk kv.1 hdkm
    refine ⟨p, ⟨hp, ?_, ?_⟩, hpn⟩
    · have : kv.1 ∉ Dict.keys ucfg := by rw [← hkeysU]; simpa using hnc
      rw [hpn]
      cases hh : Dict.hasKey ucfg kv.1
      · rfl
      · exact absurd ((Merge.hasKey_iff_mem_keys ucfg kv.1).1 hh) this
    · have hsome := defaultOf_isSome_of_mem c.actions kv.1 hdkm
      have hpa := hparams p hp
      cases hpd : p.default with
      | optional =>
        simp only [hpd, Bool.and_eq_true, Option.isNone_iff_eq_none] at hpa
        rw [hpn] at hpa
        rw [hpa.1] at hsome; cases hsome
      | value v => rfl
      | unsettled => rfl
  · intro p ⟨hp, hnk, hno⟩
    have hnotin : p.name ∉ Dict.keys cfg := by
      rw [hkeysU, ← Merge.hasKey_iff_mem_keys]; simp [hnk]
    rw [hlookAdded p.name hnotin, hdef p.name ((Merge.lookup_none_iff cfg p.name).2 hnotin)]
    have hpa := hparams p hp
    cases hpd : p.default with
    | optional => simp [hpd] at hno
    | value v =>
      simp only [hpd, beq_iff_eq] at hpa
      rw [hpa]; simp
    | unsettled =>
      simp only [hpd] at hpa
      cases hdo : defaultOf c.actions p.name with
      | none => simp [hdo] at hpa
      | some x => simp

theorem rewriteLeaf_str_inv {s t : String} (h : rewriteLeaf (.str s) = .str t) : s = t := by
  unfold rewriteLeaf at h
  by_cases h1 : JVal.str s = .str "NaN"
  · simp [h1] at h
  · by_cases h2 : JVal.str s = .str "inf"
    · simp [h2] at h
    · by_cases h3 : JVal.str s = .str "-inf"
      · simp [h3] at h
      · simpa [h1, h2, h3] using h

/-- **the executable specification of the result holds of the model** (`ConfigSpec.resultOk`, the
    clause the harness evaluates on the implementation's result: the user's steps in the user's order,
    each with the user's items as a prefix (`userKeysKept`) and exactly the missing documented
    parameters added with the documented defaults (`defaultsAdded`)) — for step parameters that are
    not themselves dictionaries (`resultOk` rewrites one level only) -/
theorem checkPipelineSection_resultOk {o : Oracle} {fl : MachineFlags} {P : Dict} {l r : ImgInfo}
    {m m' : CState} {out : Dict} (hfresh : FreshFor fl m) (hwf : Merge.wfDict P = true)
    (hleaf : ∀ n cfgU, Dict.lookup P n = some (.obj cfgU) → ∀ kv ∈ cfgU, kv.2.isObj = false)
    (h : checkPipelineSection o fl registry [("pipeline", .obj P)] l r m = .ok (out, m')) :
    resultOk P m'.pipelineCfg = true := by
  obtain ⟨_, hkeys, hsteps⟩ := checkPipelineSection_structure hfresh hwf h
  have hndP := Merge.wfDict_keys_nodup P hwf
  unfold resultOk
  simp only [Bool.and_eq_true, beq_iff_eq, List.all_eq_true]
  refine ⟨hkeys, ?_⟩
  intro kv hkv
  obtain ⟨n, v⟩ := kv
  have hl := Merge.lookup_of_mem P n v hndP hkv
  obtain ⟨kind, cfgU, kd, outn, hkind, hP, hkd, hc, hM⟩ := hsteps n (Merge.mem_keys_of_lookup hl)
  rw [hl] at hP
  simp only [Option.some.injEq] at hP
  subst hP
  simp only [hM, hkind, Bool.and_eq_true]
  obtain ⟨hcw, hcf⟩ := wf_of_step hwf hl
  obtain ⟨hkdm, hkk⟩ := kindDesc_some hkd
  obtain ⟨meth, c, hmeth, hall, hmn, hcc, ⟨X, hX⟩, hkept, _, how, _⟩ := construct_facts hkdm hcw hcf hc
  have hndO := Merge.wfDict_keys_nodup outn how
  have hlv := hleaf n cfgU hl
  have hrd : Merge.deepRwD cfgU = rewriteDict cfgU := deepRwD_leaves cfgU hlv
  have hlen : (Merge.deepRwD cfgU).length = cfgU.length := by
    have := congrArg List.length (Merge.keys_deepRwD cfgU)
    simpa [Dict.keys] using this
  constructor
  · -- the user's items are a prefix of the returned step
    unfold userKeysKept
    rw [← hlen, take_of_keys_prefix _ outn X hX hndO hkept, hrd]
    simp
  · cases hfind : docTable.find? (fun c => c.kind == kind.name) with
    | none => rfl
    | some anyClass =>
      simp only
      cases hmk : Dict.lookup cfgU anyClass.methodKey with
      | none => rfl
      | some mv =>
        cases mv with
        | str mth =>
          simp only
          cases hdc : docClass? kind.name mth with
          | none => rfl
          | some d =>
            simp only
            -- the method key and the method are the ones the registry used
            have hany := List.mem_of_find?_eq_some hfind
            have hanyk : anyClass.kind = kind.name := by simpa using List.find?_some hfind
            have hmka := method_keys_agree
            rw [List.all_eq_true] at hmka
            have h1 := hmka anyClass hany
            rw [List.all_eq_true] at h1
            have h2 := h1 kd hkdm
            simp only [Bool.or_eq_true, bne_iff_ne, ne_eq, beq_iff_eq] at h2
            have hmkeq : kd.methodKey = anyClass.methodKey := by
              rcases h2 with h2 | h2
              · exact absurd (by rw [hkk, hanyk]) h2
              · exact h2
            rw [hmkeq, Merge.lookup_deepRwD, hmk] at hmeth
            simp only [Option.map_some, Option.some.injEq] at hmeth
            rw [Merge.deepRw_leaf _ rfl] at hmeth
            have hme := rewriteLeaf_str_inv hmeth
            subst hme
            -- the documented class
            have hdoc := generated_defaults_documented
            rw [List.all_eq_true] at hdoc
            have hdoc1 := hdoc _ hall
            rw [List.all_eq_true] at hdoc1
            have hdoc2 := hdoc1 mth hmn
            simp only [hkk, hdc] at hdoc2
            exact classCheck_defaultsAdded (generated_wf_of_mem hall) hdoc2 (Merge.keys_deepRwD cfgU) hndO hkept hcc
        | _ => rfl

end Pandora.C05W
