/-
  C10 — the numpy glue of the median filter, regenerated from the source (`Generated/KernelsFilter.lean`, written by
  `translator/pyarr.py`), equals the hand model `Model/Filter.lean` — for every map size, validity mask, filter size,
  block split and store.

  * `blockedSt_eq`: the block loops over the store, each block reading the CURRENT content of the view's base, are the
    pure `Blocks.blocked` of a kernel of the INITIAL content — provided the destination is another array than the base
    (`dst ≠ base`).  This is where `np.copy` matters: with `data_median = data` the hypothesis is `data ≠ data`.
  * `medianFilter_generated`: the generated `median_filter` returns a FRESH array holding `Filter.medianFilter` of its
    input and writes no other array (in particular not its input).
  * `filterDisparityMedian_generated`: the generated `filter_disparity` leaves `Filter.medianFilterDisparity` in the
    disparity map and writes no other array that existed before the call.
  * `filterDisparityMedian_spec`: hence C10's per-pixel specification holds of the generated function.
-/
import PandoraModel.Properties.C10
import PandoraModel.Generated.KernelsFilter

set_option linter.unusedSimpArgs false

namespace Pandora.C10Kernels
open Pandora Pandora.PyArr Pandora.Filter

/-! ### the store -/

section store
variable {α : Type}

theorem store_ext {s t : Store α} (h1 : s.arr = t.arr) (h2 : s.next = t.next) : s = t := by
  cases s; cases t; simp_all

@[simp] theorem set_arr_self (s : Store α) (k : Nat) (a : Arr α) : (s.set k a).arr k = a := by
  simp [Store.set]

@[simp] theorem set_arr_ne (s : Store α) {k j : Nat} (h : j ≠ k) (a : Arr α) : (s.set k a).arr j = s.arr j := by
  simp [Store.set, h]

@[simp] theorem set_next (s : Store α) (k : Nat) (a : Arr α) : (s.set k a).next = s.next := rfl

theorem set_set (s : Store α) (k : Nat) (a b : Arr α) : (s.set k a).set k b = s.set k b := by
  apply store_ext
  · funext j
    by_cases h : j = k <;> simp [Store.set, h]
  · rfl

theorem set_same (s : Store α) (k : Nat) : s.set k (s.arr k) = s := by
  apply store_ext
  · funext j
    by_cases h : j = k <;> simp [Store.set, h]
  · rfl

@[simp] theorem copy_snd (s : Store α) (k : Nat) : (s.copy k).2 = s.next := rfl
@[simp] theorem copy_next (s : Store α) (k : Nat) : (s.copy k).1.next = s.next + 1 := rfl
@[simp] theorem copy_arr_new (s : Store α) (k : Nat) : (s.copy k).1.arr s.next = s.arr k := by
  simp [Store.copy, Store.alloc]
@[simp] theorem copy_arr_old (s : Store α) (k : Nat) {j : Nat} (h : j ≠ s.next) : (s.copy k).1.arr j = s.arr j := by
  simp [Store.copy, Store.alloc, h]

/-! ### the block statement -/

theorem innerLoopSt_eq (kern : Arr α → Nat → Nat → α) (dst base : Nat) (h : dst ≠ base) (yb ylen ys : Nat) :
    ∀ (chunks : List (Nat × Nat)) (xb : Nat) (s : Store α),
      innerLoopSt kern dst base yb ylen ys chunks xb s =
        s.set dst (Blocks.innerLoop (kern (s.arr base)) yb ylen ys chunks xb (s.arr dst))
  | [], xb, s => by
    simp [innerLoopSt, Blocks.innerLoop, set_same]
  | (xs, xlen) :: rest, xb, s => by
    rw [innerLoopSt, innerLoopSt_eq kern dst base h yb ylen ys rest (xb + xlen) _]
    simp only [assignSt, Blocks.innerLoop]
    rw [set_arr_ne _ (Ne.symm h), set_arr_self, set_set]

theorem outerLoopSt_eq (kern : Arr α → Nat → Nat → α) (dst base : Nat) (h : dst ≠ base)
    (xchunks : List (Nat × Nat)) (offx : Nat) :
    ∀ (chunks : List (Nat × Nat)) (yb : Nat) (s : Store α),
      outerLoopSt kern dst base xchunks offx chunks yb s =
        s.set dst (Blocks.outerLoop (kern (s.arr base)) xchunks offx chunks yb (s.arr dst))
  | [], yb, s => by
    simp [outerLoopSt, Blocks.outerLoop, set_same]
  | (ys, ylen) :: rest, yb, s => by
    rw [outerLoopSt, outerLoopSt_eq kern dst base h xchunks offx rest (yb + ylen) _,
      innerLoopSt_eq kern dst base h]
    simp only [Blocks.outerLoop]
    rw [set_arr_ne _ (Ne.symm h), set_arr_self, set_set]

/-- **The block statement with a private output.**  When the destination is not the array the windows are read
    from, processing the blocks one after the other on the store is the pure blocked computation of the kernel of the
    initial content — for every plan (any split points, any offsets). -/
theorem blockedSt_eq (p : Blocks.Plan) (kern : Arr α → Nat → Nat → α) (dst base : Nat) (h : dst ≠ base) (s : Store α) :
    blockedSt p kern dst base s = s.set dst (Blocks.blocked p (kern (s.arr base)) (s.arr dst)) := by
  unfold blockedSt Blocks.blocked
  exact outerLoopSt_eq kern dst base h _ _ _ _ s

end store

/-! ### `MedianFilter.median_filter` -/

/-- **`median_filter` regenerated = model.**  For every store and every input array of it: the result is a fresh
    array (`s0.next`), it holds the model's `medianFilter` of the input's content — with the loop literals T8 reads in
    the same source —, and no other array is written: the input keeps its content. -/
theorem medianFilter_generated (fs ny nx data : Nat) (s0 : Store Val) (hd : data < s0.next) :
    (Generated.KernelsFilter.medianFilter fs ny nx data s0).2 = s0.next
    ∧ (Generated.KernelsFilter.medianFilter fs ny nx data s0).1.next = s0.next + 1
    ∧ (Generated.KernelsFilter.medianFilter fs ny nx data s0).1.arr s0.next
        = Filter.medianFilter (Generated.Blocks.median fs) fs ny nx (s0.arr data)
    ∧ ∀ k, k ≠ s0.next → (Generated.KernelsFilter.medianFilter fs ny nx data s0).1.arr k = s0.arr k := by
  have hne : s0.next ≠ data := by omega
  have hne' : data ≠ s0.next := by omega
  unfold Generated.KernelsFilter.medianFilter
  simp only [copy_snd]
  rw [blockedSt_eq _ _ _ _ hne]
  refine ⟨by simp, by simp [Store.maskFill], ?_, ?_⟩
  · simp only [Store.maskFill, set_arr_self, copy_arr_new, copy_arr_old _ _ hne']
    unfold Filter.medianFilter
    funext r c
    simp only [maskOf, View.rows, View.cols]
    by_cases hn : (s0.arr data r c).isNan = true
    · simp [hn]
    · simp only [hn]
      rfl
  · intro k hk
    simp only [Store.maskFill, set_arr_ne _ hk, copy_arr_old _ _ hk]

/-! ### `MedianFilter.filter_disparity` -/

theorem flagMask_true (flags : Nat → Nat → Nat) (m r c : Nat) :
    flagMask true flags m r c = ((flags r c &&& m) != 0) := by
  simp [flagMask]

/-- **`filter_disparity` regenerated = model.**  For every store: the disparity map ends up holding the model's
    `medianFilterDisparity` (mask constant and loop literals read in the source), and every other array that existed
    before the call keeps its content. -/
theorem filterDisparityMedian_generated (fs ny nx : Nat) (flags : Nat → Nat → Nat) (dm : Nat) (s0 : Store Val)
    (hd : dm < s0.next) :
    (Generated.KernelsFilter.filterDisparityMedian fs ny nx flags dm s0).arr dm
        = Filter.medianFilterDisparity (Generated.Blocks.median fs) Generated.Constants.PANDORA_MSK_PIXEL_INVALID
            fs ny nx flags (s0.arr dm)
    ∧ ∀ k, k < s0.next → k ≠ dm → (Generated.KernelsFilter.filterDisparityMedian fs ny nx flags dm s0).arr k = s0.arr k := by
  have hne : dm ≠ s0.next := by omega
  unfold Generated.KernelsFilter.filterDisparityMedian
  simp only [copy_snd]
  -- the store handed to median_filter
  generalize hs2 : ((s0.copy dm).1.maskFill s0.next
      (flagMask true flags Generated.Constants.PANDORA_MSK_PIXEL_INVALID) Val.nan) = s2
  have hnext2 : s2.next = s0.next + 1 := by rw [← hs2]; rfl
  have hm : s2.arr s0.next = Filter.masked Generated.Constants.PANDORA_MSK_PIXEL_INVALID flags (s0.arr dm) := by
    rw [← hs2]
    simp only [Store.maskFill, set_arr_self, copy_arr_new]
    funext r c
    simp only [Filter.masked, Filter.maskCell, flagMask_true]
  have hold : ∀ k, k ≠ s0.next → s2.arr k = s0.arr k := by
    intro k hk
    rw [← hs2]
    simp only [Store.maskFill, set_arr_ne _ hk, copy_arr_old _ _ hk]
  obtain ⟨h1, _, h3, h4⟩ := medianFilter_generated fs ny nx s0.next s2 (by omega)
  rw [hnext2] at h1 h3 h4
  refine ⟨?_, ?_⟩
  · simp only [Store.maskCopy, set_arr_self, h1, h3, hm]
    rw [h4 dm (by omega), hold dm hne]
    unfold Filter.medianFilterDisparity
    funext r c
    -- `np.isfinite(x)`, `~np.isnan(x)`, `np.isnan(x) == False` are the same mask of a map without infinities
    simp [maskOf, maskNot, isfinite, Val.isNum]
  · intro k hk hkd
    simp only [Store.maskCopy, set_arr_ne _ hkd]
    rw [h4 k (by omega), hold k (by omega)]

/-- **C10 for the regenerated `filter_disparity`**: every pixel of the map it leaves satisfies the per-pixel
    specification w.r.t. the NaN-masked input. -/
theorem filterDisparityMedian_spec (fs ny nx : Nat) (flags : Nat → Nat → Nat) (dm : Nat) (s0 : Store Val)
    (hd : dm < s0.next) (hodd : fs % 2 = 1) (hny : fs ≤ ny) (hnx : fs ≤ nx) (r c : Nat) :
    medianCellSpec (masked Generated.Constants.PANDORA_MSK_PIXEL_INVALID flags (s0.arr dm)) fs ny nx r c
      (s0.arr dm r c) ((Generated.KernelsFilter.filterDisparityMedian fs ny nx flags dm s0).arr dm r c) = true := by
  rw [(filterDisparityMedian_generated fs ny nx flags dm s0 hd).1]
  exact C10.medianFilterDisparity_spec _ _ fs ny nx flags (s0.arr dm) rfl rfl hodd hny hnx r c

/-- the same for `median_filter` on a band (`intervals_same_median`) -/
theorem medianFilter_generated_spec (fs ny nx data : Nat) (s0 : Store Val) (hd : data < s0.next)
    (hodd : fs % 2 = 1) (hny : fs ≤ ny) (hnx : fs ≤ nx) (r c : Nat) :
    medianCellSpec (s0.arr data) fs ny nx r c (s0.arr data r c)
      ((Generated.KernelsFilter.medianFilter fs ny nx data s0).1.arr (Generated.KernelsFilter.medianFilter fs ny nx data s0).2 r c) = true := by
  obtain ⟨h1, _, h3, _⟩ := medianFilter_generated fs ny nx data s0 hd
  rw [h1, h3]
  exact C10.medianBand_spec _ fs ny nx (s0.arr data) rfl rfl hodd hny hnx r c

/-! ### the bilateral filter: `bilateral_kernel`, `filter_bilateral`, `BilateralFilter.filter_disparity`

  The two Gaussians are UNINTERPRETED: `G kernel_size sigma` stands for `gauss_spatial_kernel(kernel_size, sigma)` (a table),
  `N x sigma` for `normalized_gaussian(x, sigma)`.  What is proved is the wiring: the model's `Weights` are
  `spatial := G win_width sigma_space`, `range := fun d => N d sigma_color`, the centre is the window cell
  `(offset, offset)` with `offset = win_width / 2`, `win_width` is T8's formula. -/

/-- the weights the source wires together -/
def sourceWeights (G : Nat → Rat → Nat → Nat → Rat) (N : Rat → Rat → Rat) (w : Nat) (sigmaSpace sigmaColor : Rat) :
    Weights := ⟨G w sigmaSpace, fun d => N d sigmaColor⟩

/-- **`bilateral_kernel` regenerated = model**, on every window: `nansum(windows·weights) / nansum(weights)` with
    `weights = table · N(windows − windows[offset, offset], sigma_color)` -/
theorem bilateralKernel_generated (N : Rat → Rat → Rat) (w : Nat) (K : Nat → Nat → Rat) (sc : Rat) (off : Nat)
    (win : Nat → Nat → Val) :
    Generated.KernelsFilter.bilateralKernel N w K sc off win = Filter.bilateralKernel ⟨K, fun d => N d sc⟩ w off win := by
  unfold Generated.KernelsFilter.bilateralKernel Filter.bilateralKernel
  simp only [nandiv, nansumW]
  rfl

/-- **`filter_bilateral` regenerated = model.**  Fresh result holding the model's `bilateralFilter` of the input's
    content for the window width, offsets, chunk literals and weight wiring read in the source; nothing else written. -/
theorem filterBilateral_generated (G : Nat → Rat → Nat → Nat → Rat) (N : Rat → Rat → Rat) (ss sc : Rat)
    (ny nx data : Nat) (s0 : Store Val) (hd : data < s0.next) :
    (Generated.KernelsFilter.filterBilateral G N ss sc ny nx data s0).2 = s0.next
    ∧ (Generated.KernelsFilter.filterBilateral G N ss sc ny nx data s0).1.next = s0.next + 1
    ∧ (Generated.KernelsFilter.filterBilateral G N ss sc ny nx data s0).1.arr s0.next
        = Filter.bilateralFilter (Generated.Blocks.bilateral (Filter.winWidth ny nx ss))
            (sourceWeights G N (Filter.winWidth ny nx ss) ss sc) (Filter.winWidth ny nx ss) ny nx (s0.arr data)
    ∧ ∀ k, k ≠ s0.next → (Generated.KernelsFilter.filterBilateral G N ss sc ny nx data s0).1.arr k = s0.arr k := by
  have hne : s0.next ≠ data := by omega
  have hne' : data ≠ s0.next := by omega
  unfold Generated.KernelsFilter.filterBilateral
  simp only [copy_snd, C10.source_bilateral_window]
  rw [blockedSt_eq _ _ _ _ hne]
  refine ⟨by simp, by simp [Store.maskFill], ?_, ?_⟩
  · simp only [Store.maskFill, set_arr_self, copy_arr_new, copy_arr_old _ _ hne']
    unfold Filter.bilateralFilter sourceWeights
    funext r c
    simp only [maskOf, View.rows, View.cols]
    by_cases hn : (s0.arr data r c).isNan = true
    · simp [hn]
    · simp only [hn, Bool.false_eq_true, if_false]
      rw [show (windowFnKernel (Generated.KernelsFilter.bilateralKernel N (Filter.winWidth ny nx ss)
            (G (Filter.winWidth ny nx ss) ss) sc (Filter.winWidth ny nx ss / 2)) (s0.arr data))
          = (fun i j => Filter.bilateralKernel ⟨G (Filter.winWidth ny nx ss) ss, fun d => N d sc⟩
              (Filter.winWidth ny nx ss) (Filter.winWidth ny nx ss / 2) (fun a b => s0.arr data (i + a) (j + b))) from by
        funext i j
        exact bilateralKernel_generated N _ _ sc _ _]
  · intro k hk
    simp only [Store.maskFill, set_arr_ne _ hk, copy_arr_old _ _ hk]

/-- **`BilateralFilter.filter_disparity` regenerated = model.** -/
theorem filterDisparityBilateral_generated (G : Nat → Rat → Nat → Nat → Rat) (N : Rat → Rat → Rat) (ss sc : Rat)
    (ny nx : Nat) (flags : Nat → Nat → Nat) (dm : Nat) (s0 : Store Val) (hd : dm < s0.next) :
    (Generated.KernelsFilter.filterDisparityBilateral G N ss sc ny nx flags dm s0).arr dm
        = Filter.bilateralFilterDisparity (Generated.Blocks.bilateral (Filter.winWidth ny nx ss))
            (sourceWeights G N (Filter.winWidth ny nx ss) ss sc) Generated.Constants.PANDORA_MSK_PIXEL_INVALID
            (Filter.winWidth ny nx ss) ny nx flags (s0.arr dm)
    ∧ ∀ k, k < s0.next → k ≠ dm →
        (Generated.KernelsFilter.filterDisparityBilateral G N ss sc ny nx flags dm s0).arr k = s0.arr k := by
  have hne : dm ≠ s0.next := by omega
  unfold Generated.KernelsFilter.filterDisparityBilateral
  simp only [copy_snd]
  generalize hs2 : ((s0.copy dm).1.maskFill s0.next
      (flagMask true flags Generated.Constants.PANDORA_MSK_PIXEL_INVALID) Val.nan) = s2
  have hnext2 : s2.next = s0.next + 1 := by rw [← hs2]; rfl
  have hm : s2.arr s0.next = Filter.masked Generated.Constants.PANDORA_MSK_PIXEL_INVALID flags (s0.arr dm) := by
    rw [← hs2]
    simp only [Store.maskFill, set_arr_self, copy_arr_new]
    funext r c
    simp only [Filter.masked, Filter.maskCell, flagMask_true]
  have hold : ∀ k, k ≠ s0.next → s2.arr k = s0.arr k := by
    intro k hk
    rw [← hs2]
    simp only [Store.maskFill, set_arr_ne _ hk, copy_arr_old _ _ hk]
  obtain ⟨h1, _, h3, h4⟩ := filterBilateral_generated G N ss sc ny nx s0.next s2 (by omega)
  rw [hnext2] at h1 h3 h4
  refine ⟨?_, ?_⟩
  · simp only [Store.maskCopy, set_arr_self, h1, h3, hm]
    rw [h4 dm (by omega), hold dm hne]
    unfold Filter.bilateralFilterDisparity
    funext r c
    simp [maskOf, maskNot, isfinite, Val.isNum]
  · intro k hk hkd
    simp only [Store.maskCopy, set_arr_ne _ hkd]
    rw [h4 k (by omega), hold k (by omega)]

/-- **C10 for the regenerated bilateral `filter_disparity`**: `invalid_disp_unchanged`, `edge_untouched`,
    `is_weighted_mean` (tolerance 0) and `between_window_min_max` hold at every pixel, for every pair of functions
    standing for the two Gaussians whose values met in the pixel's window are non-negative with a positive total
    (`wfWeightsAt` — true of Gaussians: the pixel itself weighs `G(centre)·N(0) > 0`). -/
theorem filterDisparityBilateral_spec (G : Nat → Rat → Nat → Nat → Rat) (N : Rat → Rat → Rat) (ss sc : Rat)
    (ny nx : Nat) (flags : Nat → Nat → Nat) (dm : Nat) (s0 : Store Val) (hd : dm < s0.next)
    (hw : 0 < Filter.winWidth ny nx ss) (r c : Nat)
    (hwf : ∀ ctr, masked Generated.Constants.PANDORA_MSK_PIXEL_INVALID flags (s0.arr dm) r c = .num ctr →
      wfWeightsAt (sourceWeights G N (Filter.winWidth ny nx ss) ss sc) (Filter.winWidth ny nx ss)
        (fun a b => masked Generated.Constants.PANDORA_MSK_PIXEL_INVALID flags (s0.arr dm)
          (r - Filter.winWidth ny nx ss / 2 + a) (c - Filter.winWidth ny nx ss / 2 + b)) ctr = true) :
    bilateralCellSpec (sourceWeights G N (Filter.winWidth ny nx ss) ss sc) 0
      (masked Generated.Constants.PANDORA_MSK_PIXEL_INVALID flags (s0.arr dm)) (Filter.winWidth ny nx ss) ny nx r c
      (s0.arr dm r c)
      ((Generated.KernelsFilter.filterDisparityBilateral G N ss sc ny nx flags dm s0).arr dm r c) = true := by
  rw [(filterDisparityBilateral_generated G N ss sc ny nx flags dm s0 hd).1]
  have hny : Filter.winWidth ny nx ss ≤ ny := by unfold Filter.winWidth; omega
  have hnx : Filter.winWidth ny nx ss ≤ nx := by unfold Filter.winWidth; omega
  exact C10.source_bilateral_spec _ _ _ ny nx flags (s0.arr dm) hw hny hnx r c hwf

/-- non-vacuity: with constant positive stand-ins for the Gaussians the weights met in a window are usable -/
example : wfWeightsAt (sourceWeights (fun _ _ _ _ => 1) (fun _ _ => 1 / 2) 3 1 2) 3
    (fun a b => if a = 1 ∧ b = 1 then .nan else .num ((a : Int) + 2 * (b : Int) : Int)) 3 = true := by decide +kernel

/-! ### non-vacuity: a store with one map -/

example : (0 : Nat) < (Store.init [Generated.KernelsFilter.goldenImg] Generated.KernelsFilter.goldenImg).next := by decide

/-- what goes wrong without the copy: on a 1 × 103 strip of a view of width 1 … the block statement with
    `dst = base` is NOT the pure blocked computation (later blocks read written cells) — a two-block toy instance -/
example :
    let s : Store Nat := Store.init [fun _ c => c + 5] (fun _ _ => 0)
    let p : Blocks.Plan := { ly := 1, lx := 3, startY := 1, stopY := 1, stepY := 1, startX := 1, stopX := 3, stepX := 1,
                             offY := 0, offX := 1 }
    let kern : Arr Nat → Nat → Nat → Nat := fun a i j => a i j + a i (j + 1)
    (blockedSt p kern 0 0 s).arr 0 0 2 ≠ (s.set 0 (Blocks.blocked p (kern (s.arr 0)) (s.arr 0))).arr 0 0 2 := by
  decide +kernel

end Pandora.C10Kernels
