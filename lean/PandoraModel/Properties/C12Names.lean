/-
  C12 — the naming glue of the confidence bands, read from the source (`Generated/Confidence.lean`, translator
  gen_confidence.py: band stems, the `confidence_from_` prefix, the indicator rule of
  `PandoraMachine.cost_volume_confidence_run`), EVALUATED: Python's `str.split(sep[, maxsplit])` is given a semantics here
  (`pySplit`), the extracted rule is run on it (`evalRule`), and for EVERY step name (any number of dots, empty parts,
  leading / trailing dots) the indicator the source computes today is the specification's suffix
  (`Spec.suffixOf`: everything from the first dot), hence every band name is the specified one.

  `pySplit` is checked against CPython on the step names of `Generated.Confidence.indicatorGolden` (what CPython's own
  `str.split` makes of the extracted rule) when this file is built.
-/
import PandoraModel.Model.Confidence
import PandoraModel.Generated.Confidence

set_option linter.unusedVariables false

namespace Pandora.C12Names
open Pandora Pandora.Confidence

/-! ## Python's `str.split` for a one-character separator -/

/-- `s.split(sep)` (`maxsplit = none`) / `s.split(sep, k)` (`maxsplit = some k`): at most `k` cuts, from the left -/
def pySplit (sep : Char) : List Char → Option Nat → List (List Char)
  | [], _ => [[]]
  | c :: cs, m =>
    if m = some 0 then [c :: cs]
    else if c = sep then [] :: pySplit sep cs (m.map (· - 1))
    else
      match pySplit sep cs m with
      | p :: ps => (c :: p) :: ps
      | [] => [[c]]   -- unreachable

/-- the rule `indicator = dflt; if len(step.split(sep, maxsplit)) == len: indicator = lead + parts[index]`;
    `none`: outside the reading (a separator that is not one character) or the subscript raises IndexError -/
def evalRule (r : Generated.Confidence.IndicatorRule) (step : List Char) : Option (List Char) :=
  match r.sep with
  | [c] =>
    let parts := pySplit c step r.maxsplit
    if parts.length = r.len then (parts[r.index]?).map (fun p => r.lead ++ p) else some r.dflt
  | _ => none

/-- Lean's reading of the rule = CPython's, on the generated table -/
theorem evalRule_golden :
    Generated.Confidence.indicatorGolden.all (fun p => evalRule Generated.Confidence.indicatorRule p.1 == p.2) = true := by
  decide +kernel

theorem pySplit_ne_nil (sep : Char) (s : List Char) (m : Option Nat) : pySplit sep s m ≠ [] := by
  induction s generalizing m with
  | nil => simp [pySplit]
  | cons c cs ih =>
    rw [pySplit]
    split
    · simp
    · split
      · simp
      · split <;> simp

theorem pySplit_zero (sep : Char) (s : List Char) : pySplit sep s (some 0) = [s] := by
  cases s <;> simp [pySplit]

/-- `s.split(".")` is the hand model's `splitDots` -/
theorem pySplit_none_eq (s : List Char) : pySplit '.' s none = splitDots s := by
  induction s with
  | nil => rfl
  | cons c cs ih =>
    rw [pySplit, splitDots, ← ih]
    have hne := pySplit_ne_nil '.' cs none
    cases h : pySplit '.' cs none with
    | nil => exact absurd h hne
    | cons p ps =>
      by_cases hc : c = '.'
      · simp [hc, h]
      · simp [hc]

/-- the indicator computed with ONE cut: `"." + step.split(".", 1)[1]` when there are two parts, `""` otherwise -/
def indicatorOneCut (step : List Char) : List Char :=
  if (pySplit '.' step (some 1)).length = 2 then '.' :: (pySplit '.' step (some 1)).getD 1 [] else []

/-- … is everything from the first dot, for every step name -/
theorem indicatorOneCut_eq (step : List Char) : indicatorOneCut step = Spec.suffixOf step := by
  unfold Spec.suffixOf
  induction step with
  | nil => rfl
  | cons c cs ih =>
    unfold indicatorOneCut at ih ⊢
    by_cases hc : c = '.'
    · subst hc
      simp [pySplit, pySplit_zero]
    · have hne := pySplit_ne_nil '.' cs (some 1)
      have hstep : pySplit '.' (c :: cs) (some 1)
          = match pySplit '.' cs (some 1) with | p :: ps => (c :: p) :: ps | [] => [[c]] := by
        rw [pySplit]; simp [hc]
      rw [hstep]
      cases h : pySplit '.' cs (some 1) with
      | nil => exact absurd h hne
      | cons p ps =>
        rw [h] at ih
        have hd : List.dropWhile (fun x => x != '.') (c :: cs) = List.dropWhile (fun x => x != '.') cs := by
          rw [List.dropWhile_cons_of_pos]; simpa using hc
        rw [hd, ← ih]
        cases ps <;> simp

/-! ## The rule the source holds today -/

/-- **the indicator of `cost_volume_confidence_run` as written today is the specification's suffix**, for EVERY step
    name: no dot ↦ `""`, otherwise everything from the first dot (two dots or more included — the repair of F11b). -/
theorem indicator_generated_eq_spec (step : List Char) :
    evalRule Generated.Confidence.indicatorRule step = some (Spec.suffixOf step) := by
  rw [← indicatorOneCut_eq]
  have hr : Generated.Confidence.indicatorRule = ⟨['.'], some 1, 2, ['.'], 1, []⟩ := by decide
  rw [hr]
  simp only [evalRule, indicatorOneCut]
  have hne := pySplit_ne_nil '.' step (some 1)
  cases h : pySplit '.' step (some 1) with
  | nil => exact absurd h hne
  | cons p ps =>
    cases ps with
    | nil => simp
    | cons q qs => cases qs <;> simp

/-- the rule BEFORE the repair (`split(".")`, all dots) evaluates to the hand model's `indicatorOf`, for every step name:
    the hand model is that rule, and differs from the specification exactly on names with two dots or more
    (`indicator_two_dots_counterexample`) -/
theorem indicator_unrepaired_eq_model (step : List Char) :
    evalRule ⟨['.'], none, 2, ['.'], 1, []⟩ step = some (indicatorOf step) := by
  simp only [evalRule, pySplit_none_eq, indicatorOf]
  cases h : splitDots step with
  | nil => simp
  | cons p ps =>
    cases ps with
    | nil => simp
    | cons q qs => cases qs <;> simp

/-! ## Band names -/

/-- the key under which a method is registered (`register_subclass`) -/
def methodKey : Method → List Char
  | .ambiguity .. => "ambiguity".toList
  | .risk .. => "risk".toList
  | .intervalBounds .. => "interval_bounds".toList
  | .stdIntensity => "std_intensity".toList

/-- the band names a step appends, computed from what the source says: `"confidence_from_" + stem + indicator` for the
    stems the method's `confidence_prediction` allocates, in allocation order -/
def generatedNames (s : Step) : Option (List (List Char)) :=
  match Generated.Confidence.stems.lookup (methodKey s.method), evalRule Generated.Confidence.indicatorRule s.name with
  | some stems, some ind => some (stems.map (fun st => Generated.Confidence.bandPrefix ++ st ++ ind))
  | _, _ => none

/-- the stems read from the classes, in allocation order, are the specification's -/
theorem stems_lookup (m : Method) : Generated.Confidence.stems.lookup (methodKey m) = some (Spec.stems m) := by
  have h1 : Generated.Confidence.stems.lookup "ambiguity".toList = some ["ambiguity".toList] := by decide +kernel
  have h2 : Generated.Confidence.stems.lookup "risk".toList = some ["risk_max".toList, "risk_min".toList] := by decide +kernel
  have h3 : Generated.Confidence.stems.lookup "interval_bounds".toList
      = some ["interval_bounds_inf".toList, "interval_bounds_sup".toList] := by decide +kernel
  have h4 : Generated.Confidence.stems.lookup "std_intensity".toList = some ["intensity_std".toList] := by decide +kernel
  cases m with
  | ambiguity e n => exact h1
  | risk e => exact h2
  | intervalBounds t r => exact h3
  | stdIntensity => exact h4

/-- **bands_appended_named, on the regenerated naming glue**: for every step (any method, any name) the names built from
    the stems, the prefix and the indicator rule read from the source are the specification's `expectedNames`. -/
theorem names_generated_eq_spec (s : Step) : generatedNames s = some (Spec.expectedNames s) := by
  unfold generatedNames
  rw [indicator_generated_eq_spec, stems_lookup]
  have hp : Generated.Confidence.bandPrefix = confPrefix := rfl
  simp only [Spec.expectedNames, hp]

end Pandora.C12Names
