/-
  C11 — the cross-support kernel REGENERATED from the Python source (`Generated/KernelsCbca.lean`, written by
  translator/gen_kernels_cbca.py with the statement-level translator translator/pyloops.py, T14) is equal, for every
  image size, every `len_arms`, every intensity, every image and every pixel, to the hand model
  `Cbca.crossSupport .neighbour` of `Model/Cbca.lean` — and never reads outside the image (`Res.ok`).
-/
import PandoraModel.Model.Cbca
import PandoraModel.Model.PyLoops
import PandoraModel.Generated.KernelsCbca
import PandoraModel.Generated.KernelsLoopsSelfTest  -- the translator's own test kernels, checked by evaluation
import PandoraModel.Generated.Cbca
import PandoraModel.Properties.C11
import Mathlib.Tactic.Linarith

set_option linter.unusedSimpArgs false

namespace Pandora.C11Kernels
open Pandora Pandora.Cbca Pandora.PyLoops Pandora.PyExpr

/-! ## Encodings -/

/-- the image `cross_support` is called with: masked pixels (`Val.nan` in the hand model) are `+inf`, indices are `Int` -/
def embed (img : Img) : Int → Int → Fl := fun i j => Fl.ofMasked (img i.toNat j.toNat)

/-- `cross[col, row, 0..3]` -/
def encArms (a : Arms) : Int × Int × Int × Int := ((a.left : Int), (a.right : Int), (a.top : Int), (a.bot : Int))

/-! ## Support lemmas: arrays, floats with infinities -/

theorem inb_of {n i : Int} (h0 : 0 ≤ i) (h1 : i < n) : inb n i = true := by
  have : ¬ i < 0 := by omega
  simp [inb, wrap, this, h0, h1]

theorem inb2_of {n0 n1 i j : Int} (hi0 : 0 ≤ i) (hi1 : i < n0) (hj0 : 0 ≤ j) (hj1 : j < n1) :
    inb2 n0 n1 i j = true := by
  simp [inb2, inb_of hi0 hi1, inb_of hj0 hj1]

theorem get2_embed (img : Img) (n0 n1 : Int) {i j : Int} (hi : 0 ≤ i) (hj : 0 ≤ j) :
    get2 (embed img) n0 n1 i j = Fl.ofMasked (img i.toNat j.toNat) := by
  simp [get2, wrap, embed, Int.not_lt.mpr hi, Int.not_lt.mpr hj]

theorem isFinite_ofMasked (v : Val) : (Fl.ofMasked v).isFinite = v.isNum := by
  cases v <;> rfl

/-- the break test `abs(image[p] - image[q]) >= intensity` on the `+inf` reading is the hand model's `jump`,
    when the anchor `p` is finite (the loops run under `if np.isfinite(image[col, row])`) -/
theorem jump_eq (I : ℚ) (a b : Val) (ha : a.isNum = true) :
    Fl.le (Fl.fin I) (Fl.abs (Fl.sub (Fl.ofMasked a) (Fl.ofMasked b))) = jump I a b := by
  cases a with
  | nan => simp [Val.isNum, Val.isNan] at ha
  | num p =>
    cases b with
    | nan => rfl
    | num q =>
      simp only [Fl.ofMasked, Fl.sub, Fl.neg, Fl.add, Fl.abs, Fl.le, Fl.lt, Fl.eq, jump, absR, rabs]
      rw [show p + -q = p - q by ring]
      simp [le_iff_lt_or_eq]

/-! ## One arm loop -/

/-- A generated loop whose body, at its `t`-th iteration, leaves on a jump and otherwise counts — whatever the text of
    the body — computes the arm length of the hand model's `armLoop`. -/
theorem forLoop_arm (I : ℚ) (px : Nat → Val) (body : Int → Bool × Int → Bool × (Bool × Int)) (s a : Int) :
    ∀ (n k : Nat) (ok : Bool),
      (∀ t, k ≤ t → t < k + n → ∀ (ok : Bool) (len : Int), body (a + s * t) (ok, len) =
          if jump I (px 0) (px (t + 1)) then (true, (ok, len)) else (false, (ok, len + 1))) →
      forLoop body s n (a + s * k) (ok, (k : Int)) = (ok, ((armLoop I px n k).1 : Int)) := by
  intro n
  induction n with
  | zero => intro k ok _; simp [forLoop, armLoop]
  | succ n ih =>
    intro k ok h
    have hk := h k (Nat.le_refl k) (by omega) ok (k : Int)
    simp only [forLoop, hk, armLoop]
    by_cases hj : jump I (px 0) (px (k + 1)) = true
    · simp [hj]
    · simp only [hj, Bool.false_eq_true, if_false]
      have := ih (k + 1) ok (fun t h1 h2 => h t (by omega) (by omega))
      rw [show a + s * ((k + 1 : Nat) : Int) = a + s * k + s by push_cast; ring] at this
      rw [show (((k + 1 : Nat) : Int)) = (k : Int) + 1 by push_cast; ring] at this
      exact this

theorem forRange_arm (I : ℚ) (px : Nat → Val) (a b s : Int) (n : Nat)
    (body : Int → Bool × Int → Bool × (Bool × Int))
    (hn : rangeLen a b s = n)
    (h : ∀ t, t < n → ∀ (ok : Bool) (len : Int), body (a + s * t) (ok, len) =
          if jump I (px 0) (px (t + 1)) then (true, (ok, len)) else (false, (ok, len + 1))) :
    forRange a b s body (true, (0 : Int)) = (true, ((armLoop I px n 0).1 : Int)) := by
  have := forLoop_arm I px body s a n 0 true (fun t _ h2 => h t (by omega))
  simpa [forRange, hn] using this

/-- the "minimum 1" rule: `max(len, 1 * (neighbour exists) * np.isfinite(neighbour))` is `armCoded .neighbour` -/
theorem arm_value (I : ℚ) (px : Nat → Val) (dist room : Nat) (c p : Bool)
    (hc : c = decide (1 ≤ room)) (hp : c = true → p = (px 1).isNum) :
    imax ((armLoop I px (iters dist room) 0).1 : Int) (1 * b2i c * b2i p)
      = ((armCoded .neighbour I px dist room : Nat) : Int) := by
  simp only [armCoded]
  cases c with
  | false =>
    have : decide (1 ≤ room) = false := hc.symm
    simp [this, b2i, imax]
  | true =>
    have hp' := hp rfl
    have : decide (1 ≤ room) = true := hc.symm
    rw [this, ← hp']
    cases p <;> simp [b2i, imax]; omega

open Pandora.Generated.KernelsCbca

theorem rangeLen_down (x L : Int) (room : Nat) (hx : x = room) :
    rangeLen (x - 1) (imax (x - L) (-1)) (-1) = iters L.toNat room := by
  simp only [rangeLen, imax, iters]
  split <;> simp <;> omega

theorem rangeLen_up (x L n : Int) (room : Nat) (hx : n - 1 - x = room) :
    rangeLen (x + 1) (imin (x + L) n) 1 = iters L.toNat room := by
  simp only [rangeLen, imin, iters]
  split <;> simp <;> omega

/-- the same for a bound written differently (`max(-1, row - len_arms)`, …): unfold and decide by linear arithmetic -/
macro "range_len" : tactic => `(tactic| (
  simp [rangeLen, imax, imin, iters]
  (repeat' split) <;> omega))

theorem imax_pred (x : Nat) : 0 ≤ imax ((x : Int) - 1) 0 ∧ imax ((x : Int) - 1) 0 ≤ x
    ∧ (imax ((x : Int) - 1) 0).toNat = x - 1 := by
  unfold imax; split <;> omega

theorem imin_succ (x n : Nat) (h : x < n) : 0 ≤ imin ((x : Int) + 1) ((n : Int) - 1)
    ∧ imin ((x : Int) + 1) ((n : Int) - 1) < n
    ∧ ((x : Int) < (n : Int) - 1 → (imin ((x : Int) + 1) ((n : Int) - 1)).toNat = x + 1) := by
  unfold imin; split <;> omega

/-- **The generated kernel is the hand model.**  For every image size, every `len_arms` (any integer: a value `≤ 1`
    gives empty loops), every intensity, every image (masked pixels `+inf`) and every pixel inside the image, the
    function the source defines today returns the four arms of `Cbca.crossSupport .neighbour` — and `Res.ok`: none of
    its reads of `image` is outside the array. -/
theorem crossSupport_generated_eq (H W : Nat) (lenArms : Int) (I : ℚ) (img : Img) (y x : Nat)
    (hy : y < H) (hx : x < W) :
    crossSupportPx (embed img) H W lenArms I y x
      = .ok (encArms (crossSupport .neighbour H W lenArms.toNat I img y x)) := by
  have hy0 : (0 : Int) ≤ y := Int.natCast_nonneg y
  have hx0 : (0 : Int) ≤ x := Int.natCast_nonneg x
  have hyH : (y : Int) < H := by exact_mod_cast hy
  have hxW : (x : Int) < W := by exact_mod_cast hx
  have hanchor : get2 (embed img) H W y x = Fl.ofMasked (img y x) := by
    rw [get2_embed img _ _ hy0 hx0]; simp
  have hinb : inb2 H W y x = true := inb2_of hy0 hyH hx0 hxW
  simp only [crossSupportPx, hanchor, hinb, isFinite_ofMasked]
  by_cases ha : (img y x).isNum = true
  · -- the four loops, each recognised by its start and step, whatever its body and its position in the text
    rw [forRange_arm I (fun k => img y (x - k)) ((x : Int) - 1) _ (-1) (iters lenArms.toNat x) _ ?nleft ?left,
        forRange_arm I (fun k => img y (x + k)) ((x : Int) + 1) _ 1 (iters lenArms.toNat (W - 1 - x)) _ ?nright ?right,
        forRange_arm I (fun k => img (y - k) x) ((y : Int) - 1) _ (-1) (iters lenArms.toNat y) _ ?ntop ?top,
        forRange_arm I (fun k => img (y + k) x) ((y : Int) + 1) _ 1 (iters lenArms.toNat (H - 1 - y)) _ ?nbot ?bot]
    · have l := imax_pred x
      have t := imax_pred y
      have r := imin_succ x W hx
      have b := imin_succ y H hy
      have e0 := arm_value I (fun k => img y (x - k)) lenArms.toNat x (decide ((x : Int) ≥ 1))
        (get2 (embed img) H W y (imax ((x : Int) - 1) 0)).isFinite (by simp)
        (by intro _; rw [get2_embed img _ _ hy0 l.1, isFinite_ofMasked, l.2.2]; simp)
      have e1 := arm_value I (fun k => img y (x + k)) lenArms.toNat (W - 1 - x) (decide ((x : Int) < (W : Int) - 1))
        (get2 (embed img) H W y (imin ((x : Int) + 1) ((W : Int) - 1))).isFinite (by simp; omega)
        (by intro hc; rw [get2_embed img _ _ hy0 r.1, isFinite_ofMasked, r.2.2 (by simpa using hc)]; simp)
      have e2 := arm_value I (fun k => img (y - k) x) lenArms.toNat y (decide ((y : Int) ≥ 1))
        (get2 (embed img) H W (imax ((y : Int) - 1) 0) x).isFinite (by simp)
        (by intro _; rw [get2_embed img _ _ t.1 hx0, isFinite_ofMasked, t.2.2]; simp)
      have e3 := arm_value I (fun k => img (y + k) x) lenArms.toNat (H - 1 - y) (decide ((y : Int) < (H : Int) - 1))
        (get2 (embed img) H W (imin ((y : Int) + 1) ((H : Int) - 1)) x).isFinite (by simp; omega)
        (by intro hc; rw [get2_embed img _ _ b.1 hx0, isFinite_ofMasked, b.2.2 (by simpa using hc)]; simp)
      simp only [e0, e1, e2, e3, ha, if_true, Bool.and_true, Bool.true_and,
        inb2_of hy0 hyH l.1 (lt_of_le_of_lt l.2.1 hxW), inb2_of hy0 hyH r.1 r.2.1,
        inb2_of t.1 (lt_of_le_of_lt t.2.1 hyH) hx0 hxW,
        inb2_of b.1 b.2.1 hx0 hxW, crossSupport, encArms]
    -- the number of iterations each `range(...)` of the source allows is the hand model's `iters`
    case nleft => first | exact rangeLen_down x lenArms x rfl | range_len
    case nright => first | exact rangeLen_up x lenArms W (W - 1 - x) (by omega) | range_len
    case ntop => first | exact rangeLen_down y lenArms y rfl | range_len
    case nbot => first | exact rangeLen_up y lenArms H (H - 1 - y) (by omega) | range_len
    case left =>
      intro t ht ok len
      have ht' : t + 1 ≤ x := by simp only [iters] at ht; omega
      have e : ((x : Int) - 1 + -1 * (t : Int)) = ((x - (t + 1) : Nat) : Int) := by omega
      rw [e, get2_embed img _ _ hy0 (Int.natCast_nonneg _), inb2_of hy0 hyH (Int.natCast_nonneg _) (by omega)]
      simp only [Int.toNat_natCast, jump_eq I _ _ ha, Nat.sub_zero, Bool.and_true]
    case right =>
      intro t ht ok len
      have ht' : x + (t + 1) < W := by simp only [iters] at ht; omega
      have e : ((x : Int) + 1 + 1 * (t : Int)) = ((x + (t + 1) : Nat) : Int) := by omega
      rw [e, get2_embed img _ _ hy0 (Int.natCast_nonneg _), inb2_of hy0 hyH (Int.natCast_nonneg _) (by omega)]
      simp only [Int.toNat_natCast, jump_eq I _ _ ha, Nat.add_zero, Bool.and_true]
    case top =>
      intro t ht ok len
      have ht' : t + 1 ≤ y := by simp only [iters] at ht; omega
      have e : ((y : Int) - 1 + -1 * (t : Int)) = ((y - (t + 1) : Nat) : Int) := by omega
      rw [e, get2_embed img _ _ (Int.natCast_nonneg _) hx0, inb2_of (Int.natCast_nonneg _) (by omega) hx0 hxW]
      simp only [Int.toNat_natCast, jump_eq I _ _ ha, Nat.sub_zero, Bool.and_true]
    case bot =>
      intro t ht ok len
      have ht' : y + (t + 1) < H := by simp only [iters] at ht; omega
      have e : ((y : Int) + 1 + 1 * (t : Int)) = ((y + (t + 1) : Nat) : Int) := by omega
      rw [e, get2_embed img _ _ (Int.natCast_nonneg _) hx0, inb2_of (Int.natCast_nonneg _) (by omega) hx0 hxW]
      simp only [Int.toNat_natCast, jump_eq I _ _ ha, Nat.add_zero, Bool.and_true]
  · simp [ha, crossSupport, encArms]

/-- the same, about the rule the fingerprint extractor T-cbca reads in the same file (`Generated.Cbca.minRule`): the two
    readings of the source agree, or this does not build -/
theorem crossSupport_generated_eq_source (H W : Nat) (lenArms : Int) (I : ℚ) (img : Img) (y x : Nat)
    (hy : y < H) (hx : x < W) :
    crossSupportPx (embed img) H W lenArms I y x
      = .ok (encArms (crossSupport Generated.Cbca.minRule H W lenArms.toNat I img y x)) := by
  rw [crossSupport_generated_eq H W lenArms I img y x hy hx]; rfl

/-- ... hence the function of the source computes the DECLARATIVE arms of the specification (`Cbca.crossRef`, written
    from the property statement), for every distance -/
theorem crossSupport_generated_spec (H W : Nat) (lenArms : Int) (I : ℚ) (img : Img) (y x : Nat)
    (hy : y < H) (hx : x < W) :
    crossSupportPx (embed img) H W lenArms I y x = .ok (encArms (crossRef H W lenArms.toNat I img y x)) := by
  rw [crossSupport_generated_eq H W lenArms I img y x hy hx,
    Pandora.C11.crossSupport_eq_crossRef .neighbour H W lenArms.toNat I img (Or.inl rfl) y x]

/-- the whole array `cross_support` returns (map kernel: cell `[c, r, k]` is the k-th component of the per-pixel
    function; cells outside stay 0) never reads out of bounds and is the hand model's, pixel by pixel -/
theorem crossSupport_generated_total (H W : Nat) (lenArms : Int) (I : ℚ) (img : Img) (y x : Nat)
    (hy : y < H) (hx : x < W) :
    ∃ a : Arms, crossSupportPx (embed img) H W lenArms I y x = .ok (encArms a)
      ∧ a.left ≤ x ∧ x + a.right < W ∧ a.top ≤ y ∧ y + a.bot < H := by
  refine ⟨_, crossSupport_generated_eq H W lenArms I img y x hy hx, ?_⟩
  have h := Pandora.C11.crossSupport_in_image .neighbour H W lenArms.toNat I img
  unfold armsInImage at h
  simp only [List.all_eq_true, List.mem_range, Bool.and_eq_true, decide_eq_true_eq] at h
  have := h y hy x hx
  omega

/-! ## Non-vacuity: a concrete image (row `[1, 1, masked, 1, 1]`, the situation of finding F9) -/

def exImg : Img := fun _ x => if x = 2 then .nan else .num 1

example : crossSupportPx (embed exImg) 1 5 1 5 0 1 = .ok (1, 0, 0, 0) := by decide +kernel
example : crossSupportPx (embed exImg) 1 5 3 5 0 3 = .ok (0, 1, 0, 0) := by decide +kernel
example : encArms (crossSupport .neighbour 1 5 1 5 exImg 0 1) = (1, 0, 0, 0) := by decide +kernel

end Pandora.C11Kernels
