/-
  C10 — Filters change only valid pixels, to an average of their valid neighbours.

  Theorems about the executable model `Model/Filter.lean` (+ `Model/Blocks.lean`), for disparity maps and
  validity masks of any size, any odd filter size, any window width, any non-negative weights, and any
  split of the image into processing blocks; the loop literals and the window formula of the source are
  instantiated from `Generated/Blocks.lean`, the flag constants from `Generated/Constants.lean`.
-/
import PandoraModel.Lemmas.Median
import PandoraModel.Lemmas.Blocks
import PandoraModel.Generated.Blocks
import PandoraModel.Generated.Constants
import PandoraModel.Model.Flags
import Mathlib.Algebra.Order.Field.Basic

namespace Pandora.C10
open Pandora Pandora.Filter

/-! ### 0. small facts -/

theorem mem_cells (w a b : Nat) : (a, b) ∈ cells w ↔ a < w ∧ b < w := by
  simp [cells, List.mem_flatMap, List.mem_map, List.mem_range]

theorem val_beq_self (v : Val) : (v == v) = true := by simp

theorem maskCell_num {invalidMask flag : Nat} {d : Val} {v : Rat}
    (h : maskCell invalidMask flag d = .num v) : d = .num v := by
  unfold maskCell at h
  split at h
  · exact absurd h (by simp)
  · exact h

/-! ### 1. Median: block independence and the per-pixel specification -/

/-- the median filter computes, at every cell, the unsplit formula — for every split of the window
    array (any `np.arange(start, stop, step)` on both axes), provided the offsets start at the radius -/
theorem medianFilter_eq_direct (s : Blocks.Split) (fs ny nx : Nat) (data : Img)
    (hy : s.beginY = fs / 2) (hx : s.beginX = fs / 2) (hodd : fs % 2 = 1) (hny : fs ≤ ny) (hnx : fs ≤ nx)
    (r c : Nat) :
    medianFilter s fs ny nx data r c =
      if (data r c).isNan then .nan
      else if interior (fs / 2) (fs / 2) ny nx r c then nanmedian (window data fs (r - fs / 2) (c - fs / 2))
      else data r c := by
  unfold medianFilter
  rw [Blocks.blocked_eq_direct]
  simp only [Blocks.direct, Blocks.Split.plan, hy, hx]
  by_cases hn : (data r c).isNan = true
  · simp [hn]
  · simp only [hn, if_false, Bool.false_eq_true]
    have hiff : (fs / 2 ≤ r ∧ r < fs / 2 + (ny - fs + 1) ∧ fs / 2 ≤ c ∧ c < fs / 2 + (nx - fs + 1))
        ↔ interior (fs / 2) (fs / 2) ny nx r c = true := by
      simp only [interior, Bool.and_eq_true, decide_eq_true_eq]
      omega
    by_cases hi : interior (fs / 2) (fs / 2) ny nx r c = true
    · rw [if_pos (hiff.2 hi), if_pos hi]
    · rw [if_neg (fun h => hi (hiff.1 h)), if_neg hi]

/-- **Block independence (median).** -/
theorem medianFilter_block_independent (s s' : Blocks.Split) (fs ny nx : Nat) (data : Img)
    (hy : s.beginY = s'.beginY) (hx : s.beginX = s'.beginX) :
    medianFilter s fs ny nx data = medianFilter s' fs ny nx data := by
  funext r c
  unfold medianFilter
  rw [Blocks.blocked_eq_direct, Blocks.blocked_eq_direct]
  simp [Blocks.direct, Blocks.Split.plan, hy, hx]

/-- the window the code takes (top-left corner `(r - radius, c - radius)`, side `fs`) is the pixel's
    centred window -/
theorem window_eq_centred (data : Img) (fs r c : Nat) (hodd : fs % 2 = 1) :
    window data fs (r - fs / 2) (c - fs / 2) = centredWindow data (fs / 2) (fs / 2) r c := by
  unfold window centredWindow
  have : fs / 2 + fs / 2 + 1 = fs := by omega
  rw [this]

/-- **Per-cell theorem (median).**  `out` is what `filter_disparity` / `median_filter` leave in a cell whose
    previous content is `orig`, `data` being the NaN-masked array the filter works on. -/
theorem median_cell (s : Blocks.Split) (fs ny nx : Nat) (data : Img) (orig : Val) (r c : Nat)
    (hy : s.beginY = fs / 2) (hx : s.beginX = fs / 2) (hodd : fs % 2 = 1) (hny : fs ≤ ny) (hnx : fs ≤ nx)
    (horig : ∀ v, data r c = .num v → orig = .num v) :
    medianCellSpec data fs ny nx r c orig
      (if (data r c).isNum then medianFilter s fs ny nx data r c else orig) = true := by
  rw [medianFilter_eq_direct s fs ny nx data hy hx hodd hny hnx]
  unfold medianCellSpec medianCellFailures
  cases hd : data r c with
  | nan => simp [Val.isNum, Val.isNan]
  | num v =>
    have ho := horig v hd
    simp only [Val.isNum, Val.isNan, Bool.not_false, if_true, Bool.false_eq_true, if_false]
    by_cases hi : interior (fs / 2) (fs / 2) ny nx r c = true
    · rw [if_pos hi]
      simp only [hi, Bool.not_true, Bool.false_eq_true, if_false]
      rw [window_eq_centred data fs r c hodd]
      -- the pixel itself is in its window, so the window has a valid value
      have hmem : Val.num v ∈ centredWindow data (fs / 2) (fs / 2) r c := by
        unfold centredWindow
        refine List.mem_map.2 ⟨(fs / 2, fs / 2), (mem_cells _ _ _).2 ⟨by omega, by omega⟩, ?_⟩
        simp only [interior, Bool.and_eq_true, decide_eq_true_eq] at hi
        have h1 : r - fs / 2 + fs / 2 = r := by omega
        have h2 : c - fs / 2 + fs / 2 = c := by omega
        simp only [h1, h2, hd]
      have hne : nums (centredWindow data (fs / 2) (fs / 2) r c) ≠ [] := by
        intro h
        have : v ∈ nums (centredWindow data (fs / 2) (fs / 2) r c) :=
          List.mem_filterMap.2 ⟨_, hmem, rfl⟩
        rw [h] at this; simp at this
      obtain ⟨m, hm, hmed⟩ := nanmedian_isMedian _ hne
      rw [hm]
      simp [hmed, isMedian_between _ _ hmed]
    · rw [if_neg hi]
      simp [hi, ho]

/-- **C10 for `MedianFilter.filter_disparity`.**  Every pixel of the new disparity map satisfies the
    per-pixel specification w.r.t. the NaN-masked input: invalid pixels and pixels nearer to an edge than
    the radius keep their disparity, every other valid pixel becomes the median of the valid disparities
    of its window, which lies between their minimum and maximum. -/
theorem medianFilterDisparity_spec (s : Blocks.Split) (invalidMask fs ny nx : Nat) (flags : Nat → Nat → Nat)
    (disp : Img) (hy : s.beginY = fs / 2) (hx : s.beginX = fs / 2) (hodd : fs % 2 = 1)
    (hny : fs ≤ ny) (hnx : fs ≤ nx) (r c : Nat) :
    medianCellSpec (masked invalidMask flags disp) fs ny nx r c (disp r c)
      (medianFilterDisparity s invalidMask fs ny nx flags disp r c) = true := by
  unfold medianFilterDisparity
  exact median_cell s fs ny nx (masked invalidMask flags disp) (disp r c) r c hy hx hodd hny hnx
    (fun v hv => maskCell_num hv)

/-- **`intervals_same_median`**: `median_filter` applied to an interval-bound band satisfies the same
    per-cell specification, "valid" meaning "not NaN in the band". -/
theorem medianBand_spec (s : Blocks.Split) (fs ny nx : Nat) (band : Img)
    (hy : s.beginY = fs / 2) (hx : s.beginX = fs / 2) (hodd : fs % 2 = 1)
    (hny : fs ≤ ny) (hnx : fs ≤ nx) (r c : Nat) :
    medianCellSpec band fs ny nx r c (band r c) (medianFilter s fs ny nx band r c) = true := by
  have h := median_cell s fs ny nx band (band r c) r c hy hx hodd hny hnx (fun v hv => hv)
  have e : (if (band r c).isNum then medianFilter s fs ny nx band r c else band r c)
      = medianFilter s fs ny nx band r c := by
    cases hb : band r c with
    | num v => simp [Val.isNum, Val.isNan]
    | nan =>
      simp only [Val.isNum, Val.isNan, Bool.not_true, Bool.false_eq_true, if_false]
      unfold medianFilter
      simp [hb, Val.isNan]
  rw [e] at h
  exact h

/-- the two statements for the loop literals found in median.py on this run -/
theorem source_median_spec (invalidMask fs ny nx : Nat) (flags : Nat → Nat → Nat) (disp band : Img)
    (hodd : fs % 2 = 1) (hny : fs ≤ ny) (hnx : fs ≤ nx) (r c : Nat) :
    medianCellSpec (masked invalidMask flags disp) fs ny nx r c (disp r c)
      (medianFilterDisparity (Generated.Blocks.median fs) invalidMask fs ny nx flags disp r c) = true
    ∧ medianCellSpec band fs ny nx r c (band r c)
      (medianFilter (Generated.Blocks.median fs) fs ny nx band r c) = true :=
  ⟨medianFilterDisparity_spec _ invalidMask fs ny nx flags disp rfl rfl hodd hny hnx r c,
   medianBand_spec _ fs ny nx band rfl rfl hodd hny hnx r c⟩

/-! ### 2. Bilateral: weighted mean of the valid window values, between their min and max -/

theorem nums_map_weights (wts : Weights) (win : Nat → Nat → Val) (ctr : Rat) (L : List (Nat × Nat)) :
    nums (L.map (cellWeight wts win (.num ctr)))
      = (L.filterMap (fun p => match win p.1 p.2 with
          | .nan => none
          | .num v => some (wts.spatial p.1 p.2 * wts.range (v - ctr), v))).map (fun p => p.1) := by
  induction L with
  | nil => rfl
  | cons p L ih =>
    simp only [List.map_cons, List.filterMap_cons, nums] at ih ⊢
    cases hw : win p.1 p.2 with
    | nan =>
      have : cellWeight wts win (.num ctr) p = .nan := by simp [cellWeight, hw]; rfl
      simp [this, num?, ih]
    | num v =>
      have : cellWeight wts win (.num ctr) p = .num (wts.spatial p.1 p.2 * wts.range (v - ctr)) := by
        simp [cellWeight, hw]; rfl
      simp [this, num?, ih]

theorem nums_map_pixelWeights (wts : Weights) (win : Nat → Nat → Val) (ctr : Rat) (L : List (Nat × Nat)) :
    nums (L.map (fun p => win p.1 p.2 * cellWeight wts win (.num ctr) p))
      = (L.filterMap (fun p => match win p.1 p.2 with
          | .nan => none
          | .num v => some (wts.spatial p.1 p.2 * wts.range (v - ctr), v))).map (fun p => p.1 * p.2) := by
  induction L with
  | nil => rfl
  | cons p L ih =>
    simp only [List.map_cons, List.filterMap_cons, nums] at ih ⊢
    cases hw : win p.1 p.2 with
    | nan =>
      have : (Val.nan * cellWeight wts win (.num ctr) p) = .nan := rfl
      simp [this, num?, ih]
    | num v =>
      have : cellWeight wts win (.num ctr) p = .num (wts.spatial p.1 p.2 * wts.range (v - ctr)) := by
        simp [cellWeight, hw]; rfl
      have e : (Val.num v * Val.num (wts.spatial p.1 p.2 * wts.range (v - ctr)))
          = .num (v * (wts.spatial p.1 p.2 * wts.range (v - ctr))) := rfl
      simp [this, e, num?, ih, mul_comm]

/-- `nansum(windows * weights) / nansum(weights)` is the weighted mean over the valid window cells -/
theorem kernel_eq_weightedMean (wts : Weights) (w off : Nat) (win : Nat → Nat → Val) (ctr : Rat)
    (hc : win off off = .num ctr)
    (hden : ((validPairs wts w win ctr).map (fun p => p.1)).sum ≠ 0) :
    bilateralKernel wts w off win = .num (weightedMean (validPairs wts w win ctr)) := by
  unfold bilateralKernel
  simp only [hc, nansum]
  rw [nums_map_weights, nums_map_pixelWeights]
  unfold validPairs at hden
  split
  · next h => exact absurd h hden
  · rfl

theorem weightedSum_bounds (lo hi : Rat) : ∀ (ps : List (Rat × Rat)),
    (∀ p ∈ ps, 0 ≤ p.1) → (∀ p ∈ ps, lo ≤ p.2 ∧ p.2 ≤ hi) →
    lo * (ps.map (fun p => p.1)).sum ≤ (ps.map (fun p => p.1 * p.2)).sum
    ∧ (ps.map (fun p => p.1 * p.2)).sum ≤ hi * (ps.map (fun p => p.1)).sum
  | [], _, _ => by simp
  | p :: ps, hw, hv => by
    obtain ⟨ih1, ih2⟩ := weightedSum_bounds lo hi ps (fun q hq => hw q (List.mem_cons_of_mem _ hq))
      (fun q hq => hv q (List.mem_cons_of_mem _ hq))
    have hp := hw p List.mem_cons_self
    obtain ⟨hl, hh⟩ := hv p List.mem_cons_self
    simp only [List.map_cons, List.sum_cons]
    have h1 : lo * p.1 ≤ p.1 * p.2 := by nlinarith
    have h2 : p.1 * p.2 ≤ hi * p.1 := by nlinarith
    constructor <;> nlinarith

/-- **A weighted mean with non-negative weights of positive total lies between any bounds of the values.** -/
theorem weightedMean_between (lo hi : Rat) (ps : List (Rat × Rat))
    (hw : ∀ p ∈ ps, 0 ≤ p.1) (hpos : 0 < (ps.map (fun p => p.1)).sum)
    (hv : ∀ p ∈ ps, lo ≤ p.2 ∧ p.2 ≤ hi) :
    lo ≤ weightedMean ps ∧ weightedMean ps ≤ hi := by
  obtain ⟨h1, h2⟩ := weightedSum_bounds lo hi ps hw hv
  unfold weightedMean
  exact ⟨(le_div_iff₀ hpos).2 h1, (div_le_iff₀ hpos).2 h2⟩

theorem bilateralFilter_eq_direct (s : Blocks.Split) (wts : Weights) (w ny nx : Nat) (data : Img)
    (hy : s.beginY = w / 2) (hx : s.beginX = w / 2) (hw : 0 < w) (hny : w ≤ ny) (hnx : w ≤ nx)
    (r c : Nat) :
    bilateralFilter s wts w ny nx data r c =
      if (data r c).isNan then .nan
      else if interior (w / 2) (w - 1 - w / 2) ny nx r c then
        bilateralKernel wts w (w / 2) (fun a b => data (r - w / 2 + a) (c - w / 2 + b))
      else data r c := by
  unfold bilateralFilter
  rw [Blocks.blocked_eq_direct]
  simp only [Blocks.direct, Blocks.Split.plan, hy, hx]
  by_cases hn : (data r c).isNan = true
  · simp [hn]
  · simp only [hn, if_false, Bool.false_eq_true]
    have hiff : (w / 2 ≤ r ∧ r < w / 2 + (ny - w + 1) ∧ w / 2 ≤ c ∧ c < w / 2 + (nx - w + 1))
        ↔ interior (w / 2) (w - 1 - w / 2) ny nx r c = true := by
      simp only [interior, Bool.and_eq_true, decide_eq_true_eq]
      omega
    by_cases hi : interior (w / 2) (w - 1 - w / 2) ny nx r c = true
    · rw [if_pos (hiff.2 hi), if_pos hi]
    · rw [if_neg (fun h => hi (hiff.1 h)), if_neg hi]

/-- **Block independence (bilateral).** -/
theorem bilateralFilter_block_independent (s s' : Blocks.Split) (wts : Weights) (w ny nx : Nat) (data : Img)
    (hy : s.beginY = s'.beginY) (hx : s.beginX = s'.beginX) :
    bilateralFilter s wts w ny nx data = bilateralFilter s' wts w ny nx data := by
  funext r c
  unfold bilateralFilter
  rw [Blocks.blocked_eq_direct, Blocks.blocked_eq_direct]
  simp [Blocks.direct, Blocks.Split.plan, hy, hx]

theorem closeTo_self (m : Rat) : closeTo 0 m m = true := by
  simp [closeTo, absRat]

/-- **C10 for `BilateralFilter.filter_disparity`** (exact arithmetic, tolerance 0): invalid pixels and
    pixels outside the interior keep their disparity; every other valid pixel becomes the weighted mean of
    the valid disparities of its window (weights = spatial factor × range factor), which lies between
    their minimum and maximum whenever the weights are non-negative with a positive total. -/
theorem bilateralFilterDisparity_spec (s : Blocks.Split) (wts : Weights) (invalidMask w ny nx : Nat)
    (flags : Nat → Nat → Nat) (disp : Img)
    (hy : s.beginY = w / 2) (hx : s.beginX = w / 2) (hw : 0 < w) (hny : w ≤ ny) (hnx : w ≤ nx) (r c : Nat)
    (hwf : ∀ ctr, masked invalidMask flags disp r c = .num ctr →
      wfWeightsAt wts w (fun a b => masked invalidMask flags disp (r - w / 2 + a) (c - w / 2 + b)) ctr = true) :
    bilateralCellSpec wts 0 (masked invalidMask flags disp) w ny nx r c (disp r c)
      (bilateralFilterDisparity s wts invalidMask w ny nx flags disp r c) = true := by
  unfold bilateralFilterDisparity
  rw [bilateralFilter_eq_direct s wts w ny nx _ hy hx hw hny hnx]
  unfold bilateralCellSpec bilateralCellFailures
  cases hd : masked invalidMask flags disp r c with
  | nan => simp [Val.isNum, Val.isNan]
  | num ctr =>
    have ho : disp r c = .num ctr := maskCell_num hd
    simp only [Val.isNum, Val.isNan, Bool.not_false, if_true, Bool.false_eq_true, if_false]
    by_cases hi : interior (w / 2) (w - 1 - w / 2) ny nx r c = true
    · rw [if_pos hi]
      simp only [hi, Bool.not_true, Bool.false_eq_true, if_false]
      have hwf' := hwf ctr hd
      simp only [wfWeightsAt, Bool.and_eq_true, decide_eq_true_eq, List.all_eq_true] at hwf'
      obtain ⟨hnonneg, hpos⟩ := hwf'
      have hcentre : (fun a b => masked invalidMask flags disp (r - w / 2 + a) (c - w / 2 + b)) (w / 2) (w / 2)
          = .num ctr := by
        simp only [interior, Bool.and_eq_true, decide_eq_true_eq] at hi
        have h1 : r - w / 2 + w / 2 = r := by omega
        have h2 : c - w / 2 + w / 2 = c := by omega
        simp only [h1, h2, hd]
      rw [kernel_eq_weightedMean wts w (w / 2) _ ctr hcentre (ne_of_gt hpos)]
      set ps := validPairs wts w (fun a b => masked invalidMask flags disp (r - w / 2 + a) (c - w / 2 + b)) ctr
        with hps
      have hb := weightedMean_between (minOf (ps.map (fun p => p.2))) (maxOf (ps.map (fun p => p.2))) ps
        (fun p hp => by simpa using hnonneg p hp) hpos
        (fun p hp => ⟨minOf_le _ _ (List.mem_map.2 ⟨p, hp, rfl⟩), le_maxOf _ _ (List.mem_map.2 ⟨p, hp, rfl⟩)⟩)
      simp [closeTo_self, between, hb.1, hb.2]
    · rw [if_neg hi]
      simp [hi, ho]

/-- the window formula and loop literals found in bilateral.py on this run are the model's -/
theorem source_bilateral_window (ny nx : Nat) (sigmaSpace : Rat) :
    Generated.Blocks.bilateralWinWidth [ny, nx] sigmaSpace = winWidth ny nx sigmaSpace := by
  simp [Generated.Blocks.bilateralWinWidth, winWidth]

theorem source_bilateral_spec (wts : Weights) (invalidMask w ny nx : Nat)
    (flags : Nat → Nat → Nat) (disp : Img) (hw : 0 < w) (hny : w ≤ ny) (hnx : w ≤ nx) (r c : Nat)
    (hwf : ∀ ctr, masked invalidMask flags disp r c = .num ctr →
      wfWeightsAt wts w (fun a b => masked invalidMask flags disp (r - w / 2 + a) (c - w / 2 + b)) ctr = true) :
    bilateralCellSpec wts 0 (masked invalidMask flags disp) w ny nx r c (disp r c)
      (bilateralFilterDisparity (Generated.Blocks.bilateral w) wts invalidMask w ny nx flags disp r c) = true :=
  bilateralFilterDisparity_spec _ wts invalidMask w ny nx flags disp rfl rfl hw hny hnx r c hwf

/-! ### 3. Validity mask: only bit 11, only raised, validity never changed -/

theorem invalidMask_documented :
    Generated.Constants.PANDORA_MSK_PIXEL_INVALID = Flags.pixelInvalid
    ∧ Generated.Constants.PANDORA_MSK_PIXEL_INTERVAL_REGULARIZED = Flags.intervalRegularized := by decide

/-- `bit11_only`: `|=` changes nothing but bit 11, and only upwards -/
theorem regularize_flagSpec (bit : Nat) (reg : Nat → Nat → Bool) (flags : Nat → Nat → Nat) (r c : Nat) :
    flagSpec bit (flags r c) (regularizeFlags bit reg flags r c) true = true := by
  unfold flagSpec regularizeFlags
  cases reg r c <;> simp

/-- every other bit is untouched -/
theorem regularize_other_bits (f i : Nat) (hi : i ≠ 11) :
    (f ||| Flags.intervalRegularized).testBit i = f.testBit i := by
  have : Flags.intervalRegularized = 2 ^ 11 := by decide
  rw [Nat.testBit_or, this, Nat.testBit_two_pow]
  simp [Ne.symm hi]

/-- whether the pixel is invalid is not changed by the regularisation flag -/
theorem regularize_validity (f : Nat) :
    Flags.isInvalid (f ||| Flags.intervalRegularized) = Flags.isInvalid f := by
  unfold Flags.isInvalid
  rw [Nat.and_or_distrib_right]
  have : Flags.intervalRegularized &&& Flags.pixelInvalid = 0 := by decide
  rw [this, Nat.or_zero]

/-- raising the bit twice is raising it once (what `+=` would not give) -/
theorem regularize_idempotent (bit : Nat) (reg : Nat → Nat → Bool) (flags : Nat → Nat → Nat) :
    regularizeFlags bit reg (regularizeFlags bit reg flags) = regularizeFlags bit reg flags := by
  funext r c
  unfold regularizeFlags
  cases reg r c <;> simp [Nat.or_assoc]

/-! ### 4. Non-vacuity -/

def demoDisp : Img := fun r c =>
  .num (([[1, 2, 3, 4], [5, 9, 7, 8], [2, 4, 6, 8], [1, 3, 5, 7]] : List (List Rat)).getD r [] |>.getD c 0)
def demoFlags : Nat → Nat → Nat := fun r c => if r = 1 ∧ c = 2 then 64 else 0

/-- valid interior pixel (1,1) of a 4×4 map with an invalid neighbour: 8 valid values, the median is the
    mean of the two middle ones -/
example : medianFilterDisparity (Generated.Blocks.median 3) 963 3 4 4 demoFlags demoDisp 1 1 = .num (7 / 2) := by
  decide +kernel
/-- the invalid pixel keeps its disparity, an edge pixel too -/
example : medianFilterDisparity (Generated.Blocks.median 3) 963 3 4 4 demoFlags demoDisp 1 2 = .num 7 := by
  decide +kernel
example : medianFilterDisparity (Generated.Blocks.median 3) 963 3 4 4 demoFlags demoDisp 0 1 = .num 2 := by
  decide +kernel
/-- the specification rejects another value at the interior pixel -/
example : medianCellSpec (masked 963 demoFlags demoDisp) 3 4 4 1 1 (.num 9) (.num 4) = false := by decide +kernel
example : medianCellSpec (masked 963 demoFlags demoDisp) 3 4 4 1 1 (.num 9) (.num (7 / 2)) = true := by
  decide +kernel

def demoWeights : Weights :=
  { spatial := fun a b => if a = 1 ∧ b = 1 then 2 else 1, range := fun d => if d = 0 then 1 else 1 / 2 }
/-- the hypothesis on the weights is satisfiable, and the bilateral result differs from the input -/
example : wfWeightsAt demoWeights 3 (fun a b => masked 963 demoFlags demoDisp (1 - 1 + a) (1 - 1 + b)) 9 = true := by
  decide +kernel
example : bilateralFilterDisparity (Generated.Blocks.bilateral 3) demoWeights 963 3 4 4 demoFlags demoDisp 1 1
    = .num (59 / 11) := by
  decide +kernel

end Pandora.C10
