/- C10 — theorems (placeholder until the property is built). -/
