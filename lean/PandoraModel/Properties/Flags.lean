/- The constants in pandora/constants.py (regenerated on every run) are the documented bits. -/
import PandoraModel.Model.Flags
import PandoraModel.Generated.Constants

namespace Pandora.FlagsProps
open Pandora.Generated.Constants

theorem constants_documented :
    PANDORA_MSK_PIXEL_LEFT_NODATA_OR_BORDER = Flags.leftNodataOrBorder
    ∧ PANDORA_MSK_PIXEL_RIGHT_NODATA_OR_DISPARITY_RANGE_MISSING = Flags.rightNodataOrRangeMissing
    ∧ PANDORA_MSK_PIXEL_RIGHT_INCOMPLETE_DISPARITY_RANGE = Flags.rightIncompleteRange
    ∧ PANDORA_MSK_PIXEL_STOPPED_INTERPOLATION = Flags.stoppedInterpolation
    ∧ PANDORA_MSK_PIXEL_FILLED_OCCLUSION = Flags.filledOcclusion
    ∧ PANDORA_MSK_PIXEL_FILLED_MISMATCH = Flags.filledMismatch
    ∧ PANDORA_MSK_PIXEL_IN_VALIDITY_MASK_LEFT = Flags.inValidityMaskLeft
    ∧ PANDORA_MSK_PIXEL_IN_VALIDITY_MASK_RIGHT = Flags.inValidityMaskRight
    ∧ PANDORA_MSK_PIXEL_OCCLUSION = Flags.occlusion
    ∧ PANDORA_MSK_PIXEL_MISMATCH = Flags.mismatch
    ∧ PANDORA_MSK_PIXEL_FILLED_NODATA = Flags.filledNodata
    ∧ PANDORA_MSK_PIXEL_INTERVAL_REGULARIZED = Flags.intervalRegularized
    ∧ PANDORA_MSK_PIXEL_INVALID = Flags.pixelInvalid := by decide

end Pandora.FlagsProps
