/-
  C12 — the segment extraction of `pandora/interval_tools.py: interval_regularization` REGENERATED from the Python source
  (`Generated/KernelsRegul.lean: regulBorders`, whole-array numpy statements over `Model/PyRows.lean`) yields, for every
  ambiguity map, threshold and kernel size, the hand model's `Confidence.borders`; and the whole generated
  `interval_regularization` (segments → `create_connected_graph` → `graph_regularization`) is the hand model's for every
  input with a threshold `≤ 1` (what the configuration enforces; above 1 the source itself reads `border_right` out of
  bounds: a row then has a left end without a right end).
-/
import PandoraModel.Properties.C12KernelsGraphReg
import PandoraModel.Model.PyRows

set_option linter.unusedSimpArgs false
set_option linter.unusedVariables false

namespace Pandora.C12KernelsRegul
open Pandora Pandora.Confidence Pandora.PyRows

/-- `np.diff` of the 0/1 row, positions of `-1`: the model's left ends -/
theorem whereEq_left (prev : Bool) (j : Nat) (flags : List Bool) :
    whereEq (-1) j (diffRow (b2i prev :: flags.map b2i)) = leftBorders prev j flags := by
  induction flags generalizing prev j with
  | nil => rfl
  | cons f fs ih =>
    simp only [List.map_cons, diffRow, whereEq, leftBorders, ih]
    cases prev <;> cases f <;> simp [b2i]

/-- positions of `+1`, minus one: the model's (inclusive) right ends -/
theorem whereEq_right (prev : Bool) (j : Nat) (flags : List Bool) :
    (whereEq 1 j (diffRow (b2i prev :: flags.map b2i))).map (fun c => c - 1) = rightBorders prev j flags := by
  induction flags generalizing prev j with
  | nil => rfl
  | cons f fs ih =>
    simp only [List.map_cons, diffRow, whereEq, rightBorders, List.map_append, ih]
    cases prev <;> cases f <;> simp [b2i]

theorem flags_core (thr : Rat) (m : List Val) :
    (if m.isEmpty then [] else m.take (m.length - 1) ++ [Val.num 1]).map (geThr thr)
      = (m.take (m.length - 1)).map (geThr thr) ++ (if m.isEmpty then [] else [decide (thr ≤ 1)]) := by
  cases m with
  | nil => rfl
  | cons x xs => simp [geThr]

/-- the thresholded rows of the generated statements are the model's `confidentFlags` -/
theorem rows_flags (amb : Grid Val) (thr : Rat) (k : Nat) :
    ge (setLastCol (slidingNanmin (hstackConst 1 (k / 2) (k / 2) amb) k) 1) thr = amb.map (confidentFlags thr k) := by
  simp only [ge, setLastCol, slidingNanmin, hstackConst, List.map_map]
  apply List.map_congr_left
  intro row _
  simp only [Function.comp]
  exact flags_core thr _

theorem argwhere_left (fl : List (List Bool)) :
    argwhere (diffOnes fl) (-1) = fl.zipIdx.flatMap (fun p => (leftBorders true 0 p.1).map (fun c => (p.2, c))) := by
  simp only [argwhere, diffOnes, List.zipIdx_map, List.flatMap_map]
  apply List.flatMap_congr
  intro p _
  simp only [Function.comp, Prod.map_fst, Prod.map_snd, id]
  exact congrArg (List.map _) (whereEq_left true 0 p.1)

theorem argwhere_right (fl : List (List Bool)) :
    subCol1 (argwhere (diffOnes fl) 1) 1 = fl.zipIdx.flatMap (fun p => (rightBorders true 0 p.1).map (fun c => (p.2, c))) := by
  simp only [subCol1, argwhere, diffOnes, List.zipIdx_map, List.flatMap_map, List.map_flatMap, List.map_map]
  apply List.flatMap_congr
  intro p _
  simp only [Function.comp, Prod.map_fst, Prod.map_snd, id]
  rw [← whereEq_right true 0 p.1, List.map_map]
  rfl

theorem regulBorders_generated_eq (amb : Grid Val) (thr : Rat) (k : Nat) :
    Generated.KernelsRegul.regulBorders amb thr k = borders thr k amb := by
  simp only [Generated.KernelsRegul.regulBorders, rows_flags, argwhere_left, argwhere_right, borders, List.zipIdx_map,
    List.flatMap_map]
  rfl

/-! ### as many left ends as right ends (threshold `≤ 1`) -/

theorem count_borders (p : Bool) (j : Nat) (f : List Bool) :
    (leftBorders p j f).length + (if (f.getLast?.getD p) then 1 else 0)
      = (rightBorders p j f).length + (if p then 1 else 0) := by
  induction f generalizing p j with
  | nil => cases p <;> simp [leftBorders, rightBorders]
  | cons x xs ih =>
    have := ih x (j + 1)
    have hl : ((x :: xs).getLast?.getD p) = (xs.getLast?.getD x) := by
      cases xs with
      | nil => rfl
      | cons y ys =>
        rw [List.getLast?_cons_cons]
        cases hq : (y :: ys).getLast? with
        | none => simp at hq
        | some v => rfl
    simp only [leftBorders, rightBorders, List.length_append, hl]
    cases p <;> cases x <;> simp at this ⊢ <;> omega

theorem confidentFlags_last (thr : Rat) (k : Nat) (row : List Val) (h : thr ≤ 1) :
    (confidentFlags thr k row).getLast?.getD true = true := by
  simp only [confidentFlags]
  split
  · rename_i hm
    have : slidingNanMin k row = [] := List.isEmpty_iff.mp hm
    simp [this]
  · simp [List.getLast?_append, h]

theorem length_borders (amb : Grid Val) (thr : Rat) (k : Nat) (h : thr ≤ 1) :
    (borders thr k amb).1.length = (borders thr k amb).2.length := by
  simp only [borders, List.length_flatMap, List.length_map]
  congr 1
  apply List.map_congr_left
  intro p _
  have := count_borders true 0 (confidentFlags thr k p.1)
  rw [confidentFlags_last thr k p.1 h] at this
  simpa using this

theorem cell_fst (segs : List (Pos × Pos)) : PyAgg.cell (segs.map Prod.fst) = blOf segs := by
  funext a c
  simp only [PyAgg.cell, blOf, List.getD_eq_getElem?_getD, List.getElem?_map]
  cases segs[a]? <;> rfl

theorem cell_snd (segs : List (Pos × Pos)) : PyAgg.cell (segs.map Prod.snd) = brOf segs := by
  funext a c
  simp only [PyAgg.cell, brOf, List.getD_eq_getElem?_getD, List.getElem?_map]
  cases segs[a]? <;> rfl

/-- **`interval_regularization`: the generated function is the hand model** (`np.nanquantile` read as the model's
    `nanQuantile`), for every pair of bound grids, ambiguity map, kernel size, depth, quantile and threshold `≤ 1`. -/
theorem intervalRegularization_generated_eq (inf sup amb : Grid Val) (thr : Rat) (k depth : Nat) (q : Rat) (h : thr ≤ 1) :
    Generated.KernelsRegul.intervalRegularization nanQuantile inf sup amb thr k depth q
      = Confidence.intervalRegularization inf sup amb thr k depth q := by
  have hlen := length_borders amb thr k h
  rw [intervalRegularization_all_generated]
  simp only [Generated.KernelsRegul.intervalRegularization, regulBorders_generated_eq]
  have h1 : ((borders thr k amb).1.zip (borders thr k amb).2).map Prod.fst = (borders thr k amb).1 :=
    List.map_fst_zip (by omega)
  have h2 : ((borders thr k amb).1.zip (borders thr k amb).2).map Prod.snd = (borders thr k amb).2 :=
    List.map_snd_zip (by omega)
  have h3 : ((borders thr k amb).1.zip (borders thr k amb).2).length = (borders thr k amb).1.length := by
    simp [hlen]
  simp only [← cell_fst, ← cell_snd, h1, h2, h3]

/-- **quantile1_widens, on the whole regenerated function** -/
theorem quantile1_widens_whole_generated (inf sup amb : Grid Val) (thr : Rat) (k depth : Nat) (h : thr ≤ 1) :
    let out := Generated.KernelsRegul.intervalRegularization nanQuantile inf sup amb thr k depth 1
    (∀ r c a, C12.cell? inf r c = some (Val.num a) → ∃ a', C12.cell? out.1 r c = some (Val.num a') ∧ a' ≤ a)
    ∧ (∀ r c a, C12.cell? sup r c = some (Val.num a) → ∃ a', C12.cell? out.2 r c = some (Val.num a') ∧ a ≤ a') := by
  rw [intervalRegularization_generated_eq inf sup amb thr k depth 1 h]
  exact C12.intervalRegularization_widens inf sup amb thr k depth

end Pandora.C12KernelsRegul
