/-
  C02 — the ELEMENT-WISE formulas of the matching-cost measures, REGENERATED from the numpy code (`Generated/KernelsMcCost.lean`,
  written by translator/gen_kernels_mc_cost.py with translator/pyexpr.py, every array operand an atom), are the ones the hand
  model uses.

  (3a) sad / ssd
    * `adCost*_eq`, `sdCost*_eq`      `abs(l - r)` / `(l - r) ** 2` of each of the three branches = `MC.pixelCost .sad / .ssd`
    * `cost_operands_eq_model`        in every branch `l` is the LEFT image on `point_p` with the band index looked up in the left
                                      image's band list (or no band), `r` the RIGHT image on `point_q` with its own band index
    * `pixelWise_eq_generated`        a cell of `MC.pixelWise` is the generated formula on the two facing pixels
    * `pixelWiseAggregation_eq`       the strided window view summed over its first two axes = `MC.slidingSum` (any `w`, any volume)
    * `aggOutShape_enlarged`          on the volume over-allocated by `half w` on each side the result has the image's size
    * `reNan_eq`                      the four border assignments = the test of `MC.reNanBorder`
    * `rawSadSsd_eq_generated`        the model's sad/ssd plane written with the generated pieces only
  (3b) census
    * `censusCost_eq_hamming`, `censusCost_window3`, `censusCost_window5`, `rawCensus_eq_generated`
  (3c) zncc
    * `znccCov_eq`, `divideStandardCell_eq`, `divideStandard_partition`, `divideStandard_eq_model`, `stdRadicand_eq_model`,
      `rawZncc_cell_eq_generated`
-/
import PandoraModel.Model.MatchingCost
import PandoraModel.Model.PyExpr
import PandoraModel.Generated.KernelsMcCost
import PandoraModel.Properties.C02Census
import PandoraModel.Lemmas.MCSums
import PandoraModel.Lemmas.MCCensusBits
import Mathlib.Tactic.Linarith
import Mathlib.Tactic.Ring
import Mathlib.Tactic.SplitIfs
import Mathlib.Tactic.Positivity

set_option linter.unusedSimpArgs false
set_option linter.unusedVariables false
set_option linter.unreachableTactic false
set_option linter.unusedTactic false
set_option linter.unnecessarySeqFocus false

namespace Pandora.C02KernelsMcCost
open Pandora Pandora.MC Pandora.PyExpr
open Pandora.Generated

/-! ## (3a) sad / ssd -/

theorem rabs_eq (q : ℚ) : rabs q = ratAbs q := rfl

theorem rpow_two (q : ℚ) : rpow q 2 = q * q := by
  simp only [rpow]; ring

theorem adCostBand3_eq (l r : ℚ) : KernelsMcCost.adCostBand3 l r = pixelCost .sad l r := by
  unfold KernelsMcCost.adCostBand3 pixelCost; first | rfl | (simp only [rabs_eq]; done)
theorem adCostBand2_eq (l r : ℚ) : KernelsMcCost.adCostBand2 l r = pixelCost .sad l r := by
  unfold KernelsMcCost.adCostBand2 pixelCost; first | rfl | (simp only [rabs_eq]; done)
theorem adCostMono_eq (l r : ℚ) : KernelsMcCost.adCostMono l r = pixelCost .sad l r := by
  unfold KernelsMcCost.adCostMono pixelCost; first | rfl | (simp only [rabs_eq]; done)

theorem sdCostBand3_eq (l r : ℚ) : KernelsMcCost.sdCostBand3 l r = pixelCost .ssd l r := by
  unfold KernelsMcCost.sdCostBand3 pixelCost
  first | exact rpow_two _ | rfl | (simp only [rpow]; ring) | ring
theorem sdCostBand2_eq (l r : ℚ) : KernelsMcCost.sdCostBand2 l r = pixelCost .ssd l r := by
  unfold KernelsMcCost.sdCostBand2 pixelCost
  first | exact rpow_two _ | rfl | (simp only [rpow]; ring) | ring
theorem sdCostMono_eq (l r : ℚ) : KernelsMcCost.sdCostMono l r = pixelCost .ssd l r := by
  unfold KernelsMcCost.sdCostMono pixelCost
  first | exact rpow_two _ | rfl | (simp only [rpow]; ring) | ring

/-- which array each operand is, branch by branch (resolved by the generator through the assignments of the function):
    the left operand is the left image on `point_p`, the right operand the right image on `point_q`; a band index, where
    there is one, was looked up in the band list of the SAME image (the 2-D shifted right image has none) -/
theorem cost_operands_eq_model :
    KernelsMcCost.adCostBand3Operands = [("left", "left", "p"), ("right", "right", "q")]
    ∧ KernelsMcCost.adCostBand2Operands = [("left", "left", "p"), ("right", "none", "q")]
    ∧ KernelsMcCost.adCostMonoOperands = [("left", "none", "p"), ("right", "none", "q")]
    ∧ KernelsMcCost.sdCostBand3Operands = [("left", "left", "p"), ("right", "right", "q")]
    ∧ KernelsMcCost.sdCostBand2Operands = [("left", "left", "p"), ("right", "none", "q")]
    ∧ KernelsMcCost.sdCostMonoOperands = [("left", "none", "p"), ("right", "none", "q")] := by
  decide +kernel

/-- a cell of the model's pixel-wise plane is the generated formula on pixel `c` of the left image (columns `point_p`) and
    the pixel facing it in the right image (columns `point_q`), NaN outside `point_p` -/
theorem pixelWise_eq_generated (m : Measure) (hm : m = .sad ∨ m = .ssd) (L Rk : Img) (k : Int) (sp : Nat) (r c : Int) :
    pixelWise m L Rk k sp r c =
      (let pq := pointInterval L.cols Rk.cols k sp
       if pq.p0 ≤ c ∧ c < pq.p1 then
         Val.num (if m = .ssd then KernelsMcCost.sdCostMono (L.px r c) (Rk.px r (pq.q0 + (c - pq.p0)))
                  else KernelsMcCost.adCostMono (L.px r c) (Rk.px r (pq.q0 + (c - pq.p0))))
       else Val.nan) := by
  unfold pixelWise
  simp only
  rcases hm with rfl | rfl
  · simp only [adCostMono_eq, reduceCtorEq, if_false]
  · simp only [sdCostMono_eq, if_true]

/-- **`pixel_wise_aggregation`**: the `as_strided` view summed over its first two axes is the sliding-window sum of the model
    (rows and columns of the `(disp, col, row)` volume exchanged), for every window size, volume and position -/
theorem pixelWiseAggregation_eq (w : Nat) (nd nx ny : Int) (cv : Int → Int → Int → Val) (d i j : Int) :
    KernelsMcCost.pixelWiseAggregation (w : Int) nd nx ny cv d i j = slidingSum w (fun r c => cv d c r) j i := by
  unfold KernelsMcCost.pixelWiseAggregation KernelsMcCost.aggShape0 KernelsMcCost.aggShape1 slidingSum
  simp only [Int.toNat_natCast]
  have inner : ∀ a : Int, sumZ (Val.num 0) (fun s1 => cv d (s1 + i) a) 0 w = sumZ (Val.num 0) (fun b => cv d b a) i w := by
    intro a
    have := sumZ_shift (Val.num 0) (fun b => cv d b a) i 0 w
    simpa using this
  have outer := sumZ_shift (Val.num 0) (fun a => sumZ (Val.num 0) (fun b => cv d b a) i w) j 0 w
  simp only [inner]
  simpa using outer

/-- the result keeps the disparity axis and has `n - (w - 1)` columns and rows: on the volume over-allocated by `half w` on each
    side (odd `w`) that is the size of the image -/
theorem aggOutShape_enlarged (w : Nat) (hw : w % 2 = 1) (nd rows cols : Int) :
    KernelsMcCost.aggOutShape (w : Int) nd (cols + 2 * (half w : Nat)) (rows + 2 * (half w : Nat)) = (nd, cols, rows)
    ∧ KernelsMcCost.aggOutAxes = [0, 1, 2] := by
  unfold KernelsMcCost.aggOutShape KernelsMcCost.aggShape2 KernelsMcCost.aggShape3 KernelsMcCost.aggShape4 KernelsMcCost.aggOutAxes half
  refine ⟨?_, rfl⟩
  have : ((((w - 1) / 2 : Nat)) : Int) * 2 = (w : Int) - 1 := by omega
  ext <;> simp only <;> omega

/-- the border block of `SadSsd.compute_cost_volume` = the test of `MC.reNanBorder` (any plane `d` of any number `nd`) -/
theorem reNan_eq (o rows cols : Nat) (nd d : Int) (f : Int → Int → Val) (r c : Int) :
    reNanBorder o rows cols f r c = if KernelsMcCost.reNan (o : Int) rows cols nd r c d then Val.nan else f r c := by
  unfold reNanBorder KernelsMcCost.reNan
  by_cases h : o > 0 ∧ (r < (o : Int) ∨ r ≥ (rows : Int) - o ∨ c < (o : Int) ∨ c ≥ (cols : Int) - o)
  · rw [if_pos h]
    have ho : ¬ ((o : Int) = 0) := by omega
    have ho' : o ≠ 0 := by omega
    rcases h.2 with h1 | h1 | h1 | h1 <;> simp [ho, ho', h1]
  · rw [if_neg h]
    by_cases ho : (o : Int) = 0
    · simp [ho]
    · have ho' : o > 0 := by omega
      have h' : ¬ (r < (o : Int) ∨ r ≥ (rows : Int) - o ∨ c < (o : Int) ∨ c ≥ (cols : Int) - o) := fun hh => h ⟨ho', hh⟩
      have b1 : ¬ (r < (o : Int)) := fun hh => h' (Or.inl hh)
      have b2 : ¬ ((rows : Int) - o ≤ r) := fun hh => h' (Or.inr (Or.inl hh))
      have b3 : ¬ (c < (o : Int)) := fun hh => h' (Or.inr (Or.inr (Or.inl hh)))
      have b4 : ¬ ((cols : Int) - o ≤ c) := fun hh => h' (Or.inr (Or.inr (Or.inr hh)))
      have ho2 : o ≠ 0 := by omega
      simp [ho, ho2, b1, b2, b3, b4]

/-- the model's sad / ssd plane, written with the regenerated pieces: border test, strided window sum, over-allocated volume of
    the pixel-wise costs -/
theorem rawSadSsd_eq_generated (x : Input) (k : Int) (nd nx ny d : Int) (r c : Int) :
    rawSadSsd x k r c =
      Cell.ofVal (if KernelsMcCost.reNan ((half x.w : Nat) : Int) x.L.rows x.L.cols nd r c d then Val.nan
        else KernelsMcCost.pixelWiseAggregation (x.w : Int) nd nx ny
          (fun _ c' r' => enlarge (half x.w) x.L.rows x.L.cols
            (pixelWise x.meas x.L (shiftRight x.R x.sp (iRight k x.sp)) k x.sp) r' c') d c r) := by
  simp only [rawSadSsd, reNan_eq (half x.w) x.L.rows x.L.cols nd d, pixelWiseAggregation_eq]

/-- non-vacuity -/
example : KernelsMcCost.adCostBand3 3 5 = 2 ∧ KernelsMcCost.sdCostMono (1 / 4) (-3 / 2) = 49 / 16 := by decide +kernel
example : KernelsMcCost.reNan 1 4 5 3 0 2 1 = true ∧ KernelsMcCost.reNan 1 4 5 3 2 2 1 = false
    ∧ KernelsMcCost.reNan 0 4 5 3 0 0 0 = false := by decide +kernel

/-! ## (3b) census -/

theorem censusCost_eq (l r : Nat) : KernelsMcCost.censusCost l r = KernelsCensus.popcount32b (l ^^^ r) := by
  unfold KernelsMcCost.censusCost KernelsMcCost.censusXor
  first | rfl | (rw [Nat.xor_comm])

/-- both operands are the census images (no band: `census_transform` already selected it), the left one on `point_p`, the right
    one on `point_q` -/
theorem census_operands_eq_model : KernelsMcCost.censusXorOperands = [("left", "none", "p"), ("right", "none", "q")] := by
  decide +kernel

/-- **the regenerated census cost of two 32-bit strings is their Hamming distance** -/
theorem censusCost_eq_hamming (a b : Nat) (ha : a < 2 ^ 32) (hb : b < 2 ^ 32) :
    KernelsMcCost.censusCost a b = ((List.range 32).filter (fun i => Bool.xor (a.testBit i) (b.testBit i))).length := by
  rw [censusCost_eq]; exact C02Census.census_cost_eq_hamming a b ha hb

/-- 3×3 window: the regenerated cost of the two census strings of the windows centred on `(r, c)` is the number of
    neighbours whose comparison with the centre differs between the two images -/
theorem censusCost_window3 (A B : Img) (r c : Int) :
    KernelsMcCost.censusCost (censusBits 3 A (r - 1) (c - 1)) (censusBits 3 B (r - 1) (c - 1)) =
      winCount 1 (fun a b => decide (A.px a b > A.px r c) != decide (B.px a b > B.px r c)) r c := by
  rw [censusCost_eq, C02Census.popcount32b_generated_eq_model]; exact census_hamming3 A B r c

/-- 5×5 window -/
theorem censusCost_window5 (A B : Img) (r c : Int) :
    KernelsMcCost.censusCost (censusBits 5 A (r - 2) (c - 2)) (censusBits 5 B (r - 2) (c - 2)) =
      winCount 2 (fun a b => decide (A.px a b > A.px r c) != decide (B.px a b > B.px r c)) r c := by
  rw [censusCost_eq, C02Census.popcount32b_generated_eq_model]; exact census_hamming5 A B r c

/-- the model's census plane, written with the regenerated cost -/
theorem rawCensus_eq_generated (x : Input) (k : Int) (r c : Int) :
    rawCensus x k r c =
      (let o := half x.w
       let Rk := shiftRight x.R x.sp (iRight k x.sp)
       let pq := pointInterval ((x.L.cols : Int) - (x.w - 1 : Nat)) ((Rk.cols : Int) - (x.w - 1 : Nat)) k x.sp
       let r' := r - o
       let c' := c - o
       if 0 ≤ r' ∧ r' < (x.L.rows : Int) - 2 * o ∧ 0 ≤ c' ∧ c' < (x.L.cols : Int) - 2 * o ∧ pq.p0 ≤ c' ∧ c' < pq.p1 then
         Cell.num (KernelsMcCost.censusCost (censusBits x.w x.L r' c') (censusBits x.w Rk r' (pq.q0 + (c' - pq.p0))))
       else Cell.nan) := by
  simp only [rawCensus, censusCost_eq, C02Census.popcount32b_generated_eq_model]

example : KernelsMcCost.censusCost 0x1FFFFFF 0x1555555 = 12 := by decide +kernel

/-! ## (3c) zncc -/

/-- the covariance numerator: mean of the product minus the product of the means -/
theorem znccCov_eq (meanLR meanL meanR : ℚ) : KernelsMcCost.znccCov meanLR meanL meanR = meanLR - meanL * meanR := by
  unfold KernelsMcCost.znccCov
  first | rfl | ring

/-- `apply_divide_standard` on one cell: divided where the product of the standard deviations is positive, zero elsewhere -/
theorem divideStandardCell_eq (cov d : ℚ) :
    KernelsMcCost.divideStandardCell cov d = if d > 0 then (cov, some d) else (0, none) := by
  unfold KernelsMcCost.divideStandardCell KernelsMcCost.divideStandardValid KernelsMcCost.divideStandardZero
  by_cases h : d > 0
  · have h2 : ¬ d ≤ 0 := not_le.mpr h
    simp [h, h2]
  · have h2 : d ≤ 0 := not_lt.mp h
    simp [h, h2]

/-- the two masks partition the cells: every cell is either divided or set to zero, never both, never neither -/
theorem divideStandard_partition (d : ℚ) : KernelsMcCost.divideStandardValid d = !KernelsMcCost.divideStandardZero d := by
  unfold KernelsMcCost.divideStandardValid KernelsMcCost.divideStandardZero
  by_cases h : d > 0
  · have h2 : ¬ d ≤ 0 := not_le.mpr h
    simp [h, h2]
  · have h2 : d ≤ 0 := not_lt.mp h
    simp [h, h2]

/-- how the model carries a cell of `apply_divide_standard`: the quotient `cov / √vv` symbolically -/
def cellOf (vv : ℚ) : ℚ × Option ℚ → Cell
  | (c, some _) => Cell.zn c vv
  | (c, none) => Cell.num c

/-- **the zero-variance rule**: with `stdL`, `stdR` the (non-negative) square roots of the two variances, the regenerated
    `apply_divide_standard` gives the model's cell `if varL·varR > 0 then zn cov (varL·varR) else 0` -/
theorem divideStandard_eq_model (cov stdL stdR varL varR : ℚ) (hl : 0 ≤ stdL) (hr : 0 ≤ stdR)
    (hvl : stdL * stdL = varL) (hvr : stdR * stdR = varR) :
    cellOf (varL * varR) (KernelsMcCost.divideStandardCell cov (KernelsMcCost.divideStandardD stdL stdR))
      = if varL * varR > 0 then Cell.zn cov (varL * varR) else Cell.num 0 := by
  rw [divideStandardCell_eq]
  have hd : KernelsMcCost.divideStandardD stdL stdR = stdL * stdR := by
    unfold KernelsMcCost.divideStandardD; first | rfl | ring
  rw [hd]
  have hsq : varL * varR = (stdL * stdR) * (stdL * stdR) := by rw [← hvl, ← hvr]; ring
  have hnn : 0 ≤ stdL * stdR := mul_nonneg hl hr
  by_cases h : stdL * stdR > 0
  · have : varL * varR > 0 := by rw [hsq]; exact mul_pos h h
    simp [h, this, cellOf]
  · have h0 : stdL * stdR = 0 := le_antisymm (not_lt.mp h) hnn
    have : ¬ (varL * varR > 0) := by rw [hsq, h0]; simp
    simp [h, this, cellOf]

/-- non-vacuity of the hypotheses, both cases -/
example : cellOf (4 * 9) (KernelsMcCost.divideStandardCell 5 (KernelsMcCost.divideStandardD 2 3)) = Cell.zn 5 36 := by decide +kernel
example : cellOf (0 * 9) (KernelsMcCost.divideStandardCell 5 (KernelsMcCost.divideStandardD 0 3)) = Cell.num 0 := by decide +kernel

/-- the radicand of `compute_std_raster`: `var = E[x²] − E[x]²`, then 0 where `var < 10⁻¹⁵·|E[x²]|` -/
def stdRadicand (m2 m : ℚ) : ℚ :=
  let v := KernelsMcCost.stdVar m2 m 0
  if KernelsMcCost.stdVarTiny m2 m v then 0 else v

theorem sumZ_nonneg' (g : Int → ℚ) (hg : ∀ k, 0 ≤ g k) (lo : Int) (n : Nat) : 0 ≤ sumZ (0 : ℚ) g lo n := by
  induction n with
  | zero => simp [sumZ]
  | succ n ih => rw [sumZ]; exact add_nonneg ih (hg _)

/-- prefix sums of a non-negative sequence grow -/
theorem sumZ_prefix_mono (g : Int → ℚ) (hg : ∀ k, 0 ≤ g k) (n m : Nat) (h : n ≤ m) :
    sumZ (0 : ℚ) g 0 n ≤ sumZ (0 : ℚ) g 0 m := by
  induction m, h using Nat.le_induction with
  | base => exact le_refl _
  | succ m _ ih => rw [sumZ]; exact le_trans ih (le_add_of_nonneg_right (hg _))

/-- the mean raster of a non-negative raster is non-negative, at EVERY index (also the ones numpy never forms) -/
theorem meanRaster_nonneg (w : Nat) (g : Int → Int → ℚ) (hg : ∀ a b, 0 ≤ g a b) (i j : Int) : 0 ≤ meanRaster w g i j := by
  unfold meanRaster
  simp only
  have hd : ∀ c : Int, 0 ≤ sumZ (0 : ℚ) (fun i' => g i' c) 0 (i + w).toNat - sumZ (0 : ℚ) (fun i' => g i' c) 0 i.toNat := by
    intro c
    exact sub_nonneg.mpr (sumZ_prefix_mono _ (fun k => hg k c) _ _ (by omega))
  have h2 := sumZ_prefix_mono _ hd j.toNat (j + w).toNat (by omega)
  exact div_nonneg (sub_nonneg.mpr h2) (by positivity)

/-- … is the model's `varRaster` on the two mean rasters.  `E[x²] ≥ 0`, so the statement holds whether or not the source
    takes `abs` of `mean_power_two` -/
theorem stdRadicand_eq_model (w : Nat) (f : Int → Int → ℚ) (i j : Int) :
    varRaster w f i j = stdRadicand (meanRaster w (fun r c => f r c * f r c) i j) (meanRaster w f i j) := by
  have hnn := meanRaster_nonneg w (fun r c => f r c * f r c) (fun a b => mul_self_nonneg _) i j
  unfold varRaster stdRadicand KernelsMcCost.stdVar KernelsMcCost.stdVarTiny
  have habs : ratAbs (meanRaster w (fun r c => f r c * f r c) i j) = meanRaster w (fun r c => f r c * f r c) i j := by
    unfold ratAbs; rw [if_neg (not_lt.mpr hnn)]
  have habs' : rabs (meanRaster w (fun r c => f r c * f r c) i j) = meanRaster w (fun r c => f r c * f r c) i j := habs
  simp only [rpow_two, habs, habs', tiny, decide_eq_true_eq]

/-- a cell of the model's zncc plane that is computed, written with the regenerated covariance and zero-variance rule
    (`stdL`, `stdR` any non-negative roots of the two radicands — no root is taken in Lean) -/
theorem rawZncc_cell_eq_generated (mp ml mr varL varR stdL stdR : ℚ) (hl : 0 ≤ stdL) (hr : 0 ≤ stdR)
    (hvl : stdL * stdL = varL) (hvr : stdR * stdR = varR) :
    (if varL * varR > 0 then Cell.zn (mp - ml * mr) (varL * varR) else Cell.num 0)
      = cellOf (varL * varR) (KernelsMcCost.divideStandardCell (KernelsMcCost.znccCov mp ml mr) (KernelsMcCost.divideStandardD stdL stdR)) := by
  rw [divideStandard_eq_model _ stdL stdR varL varR hl hr hvl hvr, znccCov_eq]

end Pandora.C02KernelsMcCost
