/-
  C13 — instantiating the locality calculus on step models.

  * Winner-takes-all (model of C03, with the block structure read from the source): viewed on partial
    images, the disparity map is a *pointwise* function of the cost volume — empty cone; hence any crop
    containing the pixel gives the same disparity, wherever it starts.
-/
import PandoraModel.Properties.C13
import PandoraModel.Properties.C03

namespace Pandora.C13
open Pandora.Locality

/-- an `ny × nx` array seen as a partial image on the integer grid (array index = coordinate) -/
def toImg {α : Type} (ny nx : Nat) (data : Nat → Nat → α) : Img α := fun p =>
  if 0 ≤ p.1 ∧ p.1 < ny ∧ 0 ≤ p.2 ∧ p.2 < nx then some (data p.1.toNat p.2.toNat) else none

/-- the winner-takes-all step on partial images: pixel by pixel -/
def wtaStep (isMax : Bool) (disps : List Rat) (invalid : Val) : Img (List Val) → Img Val :=
  fun a p => (a p).map fun costs => Wta.wtaPixel isMax disps costs invalid

/-- the model of `to_disp` (any block split with initial offsets 0, in particular the one of the source)
    is that pointwise step -/
theorem toDisp_is_wtaStep (s : Blocks.Split) (h0 : s.beginY = 0 ∧ s.beginX = 0) (x : Wta.Input) :
    toImg x.rows x.cols (Wta.toDisp s x) = wtaStep x.isMax x.disps x.invalid (toImg x.rows x.cols x.cv) := by
  funext p
  unfold toImg wtaStep
  by_cases h : 0 ≤ p.1 ∧ p.1 < x.rows ∧ 0 ≤ p.2 ∧ p.2 < x.cols
  · simp only [h, and_self, if_true, Option.map_some]
    congr 1
    exact C03.toDisp_eq_pixel s h0 x p.1.toNat p.2.toNat (by omega) (by omega)
  · simp [h]

theorem wtaStep_local (isMax : Bool) (disps : List Rat) (invalid : Val) :
    Local Cone.zero (wtaStep isMax disps invalid) :=
  pointwise_local fun o => o.map fun costs => Wta.wtaPixel isMax disps costs invalid

theorem wtaStep_equivariant (isMax : Bool) (disps : List Rat) (invalid : Val) :
    Equivariant (wtaStep isMax disps invalid) := by
  intro t a
  rfl

/-- **Winner-takes-all on a crop = on the whole image**, for every pixel of the crop, wherever the crop
    starts (the cone is the pixel itself). -/
theorem wta_crop_eq_whole (isMax : Bool) (disps : List Rat) (invalid : Val)
    (S : Px → Prop) [DecidablePred S] (cv : Img (List Val)) (t p : Px)
    (hp : S (p.1 + t.1, p.2 + t.2) ∨ cv (p.1 + t.1, p.2 + t.2) = none) :
    wtaStep isMax disps invalid (shift t (restrict S cv)) p
      = wtaStep isMax disps invalid cv (p.1 + t.1, p.2 + t.2) := by
  apply crop_anywhere (wtaStep_local isMax disps invalid) (wtaStep_equivariant isMax disps invalid)
  intro q hq
  have : q = (p.1 + t.1, p.2 + t.2) := by
    unfold inCone Cone.zero at hq
    ext <;> simp at hq ⊢ <;> omega
  rw [this]; exact hp

end Pandora.C13
